(* C07 — operational model of `integral`, `initial_values`, `final_values`, `duration`, `pad_to` of the pulse template
   classes of qupulse/pulses/*_pulse_template.py, written class by class AS THE CODE IS (including the behaviour that
   violates the property).  Definitions only, executable, total; errors are `None`.

   sympy is not modelled: the result of `expr.subs(...)` is represented by a let-binding node (`ELet`) whose meaning is
   evaluation under the updated environment, `sympy.Sum` by `ESum`, `Piecewise((x, a <= b), (y, True))` by `EIfLe`,
   `sympy.integrate` of a polynomial in `t` by the term-wise antiderivative.  That these nodes evaluate like the sympy
   objects is what the correspondence check validates on every run. *)
From Coq Require Import ZArith QArith Qround List Bool.
Import ListNotations.
Open Scope Q_scope.

Definition var := N.      (* parameter / loop index names; 0 is the time variable `t` *)
Definition chan := N.     (* channel identifiers *)
Definition tvar : var := 0%N.
Definition env := var -> option Q.
Definition env_empty : env := fun _ => None.
Definition env_upd (rho : env) (x : var) (v : option Q) : env := fun y => if N.eqb y x then v else rho y.
Fixpoint env_of (l : list (var * Q)) : env :=
  match l with [] => env_empty | (x, q) :: r => env_upd (env_of r) x (Some q) end.

(* ------------------------------------------------------------------------------------------------------------ *)
(* expressions *)
Inductive expr :=
| EC (q : Q)
| EV (x : var)
| EAdd (a b : expr) | ESub (a b : expr) | EMul (a b : expr) | EDiv (a b : expr) | ENeg (a : expr)
| EMax (a b : expr)
| ECeil (a : expr) | EFloor (a : expr)
| ESum (i : var) (lo hi : expr) (body : expr)          (* sympy.Sum(body, (i, lo, hi)) *)
| EIfLe (a b : expr) (x y : expr)                      (* Piecewise((x, a <= b), (y, True)) *)
| ELet (bs : list (var * expr)) (body : expr).         (* body.subs(bs, simultaneous=True) *)

Definition Qceil (q : Q) : Z := Qceiling q.
Definition is_int (q : Q) : bool := Qeq_bool q (inject_Z (Qfloor q)).
Definition omap2 (f : Q -> Q -> Q) (a b : option Q) : option Q :=
  match a, b with Some x, Some y => Some (f x y) | _, _ => None end.
Definition Qmax (a b : Q) : Q := if Qle_bool a b then b else a.

(* sum_{k=0}^{n-1} f (lo + k) *)
Fixpoint sum_from (f : Z -> option Q) (lo : Z) (n : nat) : option Q :=
  match n with
  | O => Some 0
  | S m => omap2 Qplus (f lo) (sum_from f (lo + 1)%Z m)
  end.

Definition SUM_LIMIT : Z := 4096.

Fixpoint eval (rho : env) (e : expr) {struct e} : option Q :=
  match e with
  | EC q => Some q
  | EV x => rho x
  | EAdd a b => omap2 Qplus (eval rho a) (eval rho b)
  | ESub a b => omap2 Qminus (eval rho a) (eval rho b)
  | EMul a b => omap2 Qmult (eval rho a) (eval rho b)
  | EDiv a b => match eval rho a, eval rho b with
                | Some x, Some y => if Qeq_bool y 0 then None else Some (x / y)
                | _, _ => None
                end
  | ENeg a => option_map Qopp (eval rho a)
  | EMax a b => omap2 Qmax (eval rho a) (eval rho b)
  | ECeil a => option_map (fun q => inject_Z (Qceil q)) (eval rho a)
  | EFloor a => option_map (fun q => inject_Z (Qfloor q)) (eval rho a)
  | ESum i lo hi body =>
      match eval rho lo, eval rho hi with
      | Some l, Some h =>
          if is_int l && is_int h then
            let lz := Qfloor l in let n := (Qfloor h - lz + 1)%Z in
            if (n <? 0)%Z || (SUM_LIMIT <? n)%Z then None
            else sum_from (fun k => eval (env_upd rho i (Some (inject_Z k))) body) lz (Z.to_nat n)
          else None
      | _, _ => None
      end
  | EIfLe a b x y => match eval rho a, eval rho b with
                     | Some u, Some v => if Qle_bool u v then eval rho x else eval rho y
                     | _, _ => None
                     end
  | ELet bs body =>
      eval ((fix look (l : list (var * expr)) : env :=
               match l with
               | [] => rho
               | (y, e') :: r => env_upd (look r) y (eval rho e')
               end) bs) body
  end.

(* smart pieces used by the mirrored code *)
Definition e0 : expr := EC 0.
Definition e1 : expr := EC 1.
Fixpoint epow (a : expr) (n : nat) : expr := match n with O => e1 | S m => EMul a (epow a m) end.
Fixpoint emax_list (d : expr) (l : list expr) : expr :=     (* sympy.Max over d and the list l *)
  match l with [] => d | x :: r => emax_list (EMax d x) r end.
Fixpoint esum_list (l : list expr) : expr := match l with [] => e0 | x :: r => EAdd x (esum_list r) end.

(* ------------------------------------------------------------------------------------------------------------ *)
(* channel dictionaries (insertion ordered, like Python dicts) *)
Definition dict := list (chan * expr).
Fixpoint dget {A} (c : chan) (d : list (chan * A)) : option A :=
  match d with [] => None | (k, v) :: r => if N.eqb k c then Some v else dget c r end.
Fixpoint dset {A} (c : chan) (v : A) (d : list (chan * A)) : list (chan * A) :=
  match d with
  | [] => [(c, v)]
  | (k, w) :: r => if N.eqb k c then (k, v) :: r else (k, w) :: dset c v r
  end.
Definition dupdate {A} (d upd : list (chan * A)) : list (chan * A) :=
  fold_left (fun acc kv => dset (fst kv) (snd kv) acc) upd d.
Definition dmap {A B} (f : A -> B) (d : list (chan * A)) : list (chan * B) := map (fun kv => (fst kv, f (snd kv))) d.
Definition dkeys {A} (d : list (chan * A)) : list chan := map fst d.
Definition dmem {A} (c : chan) (d : list (chan * A)) : bool := match dget c d with Some _ => true | None => false end.

(* ------------------------------------------------------------------------------------------------------------ *)
(* templates *)
Inductive interp := IHold | IJump | ILin.
Definition tentry := (expr * expr * interp)%type.                  (* TableEntry(t, v, interp) *)
Inductive pval := PScalar (e : expr) | PVec (es : list expr).       (* value of a PointPulseEntry *)
Definition pentry := (expr * pval * interp)%type.
Inductive aop := OAdd | OSub | OMul | ODiv.
Inductive scalar := SAll (e : expr) | SMap (m : dict).               (* scalar operand of ArithmeticPT *)

Inductive pt :=
| Table (chs : list (chan * list tentry))
| Point (cs : list chan) (ents : list pentry)
| Const (d : expr) (vals : dict)
| Func (c : chan) (d : expr) (coef : list expr)          (* FunctionPT("c0 + c1*t + c2*t**2 ...", d, c) *)
| Seq (ps : list pt)
| Rep (n : expr) (body : pt)
| For (i : var) (start stop step : expr) (body : pt)
| Map (body : pt) (pm : list (var * expr)) (cm : list (chan * option chan))
| Multi (ps : list pt)                                    (* AtomicMultiChannelPT *)
| Par (body : pt) (ov : list (chan * list expr))          (* ParallelChannelPT; value = polynomial in t (coefficients) *)
| ArithL (body : pt) (op : aop) (s : scalar)              (* ArithmeticPT(pt, op, scalar) *)
| ArithR (s : scalar) (op : aop) (body : pt)              (* ArithmeticPT(scalar, op, pt), op in + - * *)
| AAtom (l : pt) (op : aop) (r : pt).                     (* ArithmeticAtomicPT(l, + or -, r) *)

(* the polynomial "c0 + c1*t + ..." as an expression in the time variable; [c0] is just c0 (no `t` occurs) *)
Fixpoint poly_expr_from (k : nat) (cs : list expr) : expr :=
  match cs with
  | [] => e0
  | [c] => match k with O => c | _ => EMul c (epow (EV tvar) k) end
  | c :: r => EAdd (match k with O => c | _ => EMul c (epow (EV tvar) k) end) (poly_expr_from (S k) r)
  end.
Definition poly_expr (cs : list expr) : expr := poly_expr_from 0 cs.
(* sympy.integrate(poly, (t, 0, d)) = sum_k c_k d^(k+1)/(k+1) *)
Fixpoint poly_int_from (k : nat) (d : expr) (cs : list expr) : expr :=
  match cs with
  | [] => e0
  | c :: r => EAdd (EDiv (EMul c (epow d (S k))) (EC (inject_Z (Z.of_nat (S k))))) (poly_int_from (S k) d r)
  end.

Definition last_or {A} (l : list A) (d : A) : A := last l d.

(* defined_channels *)
Fixpoint channels (p : pt) : list chan :=
  match p with
  | Table chs => map fst chs
  | Point cs _ => cs
  | Const _ vals => dkeys vals
  | Func c _ _ => [c]
  | Seq ps => match ps with [] => [] | q :: _ => channels q end
  | Rep _ b => channels b
  | For _ _ _ _ b => channels b
  | Map b _ cm => flat_map (fun c => match dget c cm with
                                     | Some (Some c') => [c'] | Some None => [] | None => [c] end) (channels b)
  | Multi ps => flat_map channels ps
  | Par b ov => dkeys (dupdate (map (fun c => (c, tt)) (channels b)) (map (fun kv => (fst kv, tt)) ov))
  | ArithL b _ _ => channels b
  | ArithR _ _ b => channels b
  | AAtom l _ r => dkeys (dupdate (map (fun c => (c, tt)) (channels l)) (map (fun c => (c, tt)) (channels r)))
  end.

(* x occurs free in e *)
Fixpoint fvb (x : var) (e : expr) {struct e} : bool :=
  match e with
  | EC _ => false
  | EV y => N.eqb y x
  | EAdd a b | ESub a b | EMul a b | EDiv a b | EMax a b => fvb x a || fvb x b
  | ENeg a | ECeil a | EFloor a => fvb x a
  | ESum i lo hi body => fvb x lo || fvb x hi || (negb (N.eqb x i) && fvb x body)
  | EIfLe a b u v => fvb x a || fvb x b || fvb x u || fvb x v
  | ELet bs body =>
      (fix any (l : list (var * expr)) : bool :=
         match l with [] => false | (_, e') :: r => fvb x e' || any r end) bs
      || (negb ((fix bound (l : list (var * expr)) : bool :=
                   match l with [] => false | (y, _) :: r => N.eqb x y || bound r end) bs) && fvb x body)
  end.

(* the largest variable name written anywhere in e (0 if none) *)
Fixpoint maxvar (e : expr) {struct e} : N :=
  match e with
  | EC _ => 0%N
  | EV y => y
  | EAdd a b | ESub a b | EMul a b | EDiv a b | EMax a b => N.max (maxvar a) (maxvar b)
  | ENeg a | ECeil a | EFloor a => maxvar a
  | ESum _ lo hi body => N.max (maxvar lo) (N.max (maxvar hi) (maxvar body))
  | EIfLe a b u v => N.max (maxvar a) (N.max (maxvar b) (N.max (maxvar u) (maxvar v)))
  | ELet bs body =>
      N.max ((fix mx (l : list (var * expr)) : N :=
                match l with [] => 0%N | (_, e') :: r => N.max (maxvar e') (mx r) end) bs) (maxvar body)
  end.

(* loop range pieces, loop_pulse_template.py:114-131 / 206-240 *)
Definition loop_count (start stop step : expr) : expr := ECeil (EDiv (ESub stop start) step).
(* ForLoopPulseTemplate._sum_index: the bound symbol of the Sum is the loop index itself unless the loop range refers to
   a parameter of the same name; then it is a sympy.Dummy, i.e. a symbol that occurs nowhere else - here the successor
   of every name written in the range and in the summand. *)
Definition sum_index (i : var) (start stop step body : expr) : var :=
  if fvb i start || fvb i stop || fvb i step
  then N.succ (N.max (maxvar start) (N.max (maxvar stop) (N.max (maxvar step) (maxvar body))))
  else i.
Definition loop_sum (i : var) (start stop step body : expr) : expr :=
  ESum (sum_index i start stop step body) e0 (ESub (EMax (loop_count start stop step) e1) e1)
       (ELet [(i, EAdd start (EMul (EV (sum_index i start stop step body)) step))] body).

(* duration *)
Fixpoint duration_expr (p : pt) : expr :=
  match p with
  | Table chs => match map (fun ch => match last_or (snd ch) (e0, e0, IHold) with (t, _, _) => t end) chs with
                 | [] => e0
                 | t :: r => emax_list t r
                 end
  | Point _ ents => match last_or ents (e0, PScalar e0, IHold) with (t, _, _) => t end
  | Const d _ => d
  | Func _ d _ => d
  | Seq ps => (fix go (l : list pt) : expr := match l with [] => e0 | q :: r => EAdd (duration_expr q) (go r) end) ps
  | Rep n b => EMul n (duration_expr b)
  | For i start stop step b =>
      EIfLe (loop_count start stop step) e0 e0 (loop_sum i start stop step (duration_expr b))
  | Map b pm _ => ELet pm (duration_expr b)
  | Multi ps => match ps with [] => e0 | q :: _ => duration_expr q end
  | Par b _ => duration_expr b
  | ArithL b _ _ => duration_expr b
  | ArithR _ _ b => duration_expr b
  | AAtom l _ r => EMax (duration_expr l) (duration_expr r)
  end.

(* interpolation.py evaluate_integral(t0, v0, t1, v1) *)
Definition interp_integral (ip : interp) (t0 v0 t1 v1 : expr) : expr :=
  match ip with
  | ILin => EDiv (EMul (ESub t1 t0) (EAdd v0 v1)) (EC 2)
  | IHold => EMul v0 (ESub t1 t0)
  | IJump => EMul v1 (ESub t1 t0)
  end.

(* TableEntry._sequence_integral over (t, v, interp) triples: expr = 0; expr += second.interp.evaluate_integral(...) *)
Fixpoint sequence_integral (acc : expr) (prev : expr * expr) (l : list tentry) : expr :=
  match l with
  | [] => acc
  | (t, v, ip) :: r => sequence_integral (EAdd acc (interp_integral ip (fst prev) (snd prev) t v)) (t, v) r
  end.

Definition pval_at (k : nat) (v : pval) : expr :=
  match v with PScalar e => e | PVec es => nth k es e0 end.

Definition apply_both (op : aop) (a b : expr) : expr :=
  match op with OAdd => EAdd a b | OSub => ESub a b | OMul => EMul a b | ODiv => EDiv a b end.
Definition apply_rhs_only (op : aop) (b : expr) : expr :=
  match op with OAdd => b | OSub => ENeg b | OMul => b | ODiv => EDiv e1 b end.
(* arithmetic_pulse_template.py:_apply_operation_to_channel_dict *)
Definition apply_op_dict (op : aop) (lhs rhs : dict) : dict :=
  fold_left (fun res kv =>
               match dget (fst kv) res with
               | Some a => dset (fst kv) (apply_both op a (snd kv)) res
               | None => dset (fst kv) (apply_rhs_only op (snd kv)) res
               end) rhs lhs.

Definition scalar_as_dict (s : scalar) (cs : list chan) : dict :=
  match s with SAll e => map (fun c => (c, e)) cs | SMap m => m end.

(* MappingPT._apply_mapping_to_inner_channel_dict *)
Definition map_dict (pm : list (var * expr)) (cm : list (chan * option chan)) (d : dict) : dict :=
  fold_left (fun res kv =>
               match dget (fst kv) cm with
               | Some None => res
               | Some (Some c') => dset c' (ELet pm (snd kv)) res
               | None => dset (fst kv) (ELet pm (snd kv)) res
               end) d [].

Inductive quantity := QIntegral | QInitial | QFinal.

(* for-loop index used by final_values, loop_pulse_template.py:239-250 (after the repair of finding for-final-floor):
   n_last = (stop - start - sign(step)) // step;  final_idx = start + Max(n_last, 0) * step.
   sympy.sign(x) is represented by the Piecewise it evaluates like on numbers. *)
Definition esign (x : expr) : expr := EIfLe x e0 (EIfLe e0 x e0 (EC (-(1)))) e1.
Definition loop_final_index (start stop step : expr) : expr :=
  let n := EFloor (EDiv (ESub (ESub stop start) (esign step)) step) in          (* (stop - start - sign(step)) // step *)
  EAdd start (EMul (EMax n e0) step).

Fixpoint quant (q : quantity) (p : pt) : dict :=
  match p with
  | Table chs =>
      map (fun ch =>
             let es := snd ch in
             match es with
             | [] => (fst ch, e0)
             | (t0, v0, _) :: _ =>
                 match q with
                 | QIntegral =>
                     let vl := match last_or es (e0, e0, IHold) with (_, v, _) => v end in
                     (fst ch, sequence_integral e0 (e0, v0) (es ++ [(duration_expr p, vl, IHold)]))
                 | QInitial => (fst ch, v0)
                 | QFinal => (fst ch, match last_or es (e0, e0, IHold) with (_, v, _) => v end)
                 end
             end) chs
  | Point cs ents =>
      match ents with
      | [] => []
      | (t0, v0, _) :: _ =>
          (fix go (k : nat) (l : list chan) : dict :=
             match l with
             | [] => []
             | c :: r =>
                 (c, match q with
                     | QIntegral => sequence_integral e0 (e0, pval_at k v0)
                                      (map (fun en => match en with (t, v, ip) => (t, pval_at k v, ip) end) ents)
                     | QInitial => pval_at k v0
                     | QFinal => match last_or ents (e0, PScalar e0, IHold) with (_, v, _) => pval_at k v end
                     end) :: go (S k) r
             end) 0%nat cs
      end
  | Const d vals =>
      match q with
      | QIntegral => dmap (fun v => EMul d v) vals
      | _ => vals
      end
  | Func c d coef =>
      match q with
      | QIntegral => [(c, poly_int_from 0 d coef)]
      | QInitial => [(c, ELet [(tvar, e0)] (poly_expr coef))]
      | QFinal => [(c, ELet [(tvar, d)] (poly_expr coef))]
      end
  | Seq ps =>
      match q with
      | QIntegral =>
          (* functools.reduce(add_dicts, [sub.integral ...], {c: 0 for c in defined_channels}) *)
          (fix go (acc : dict) (l : list pt) : dict :=
             match l with
             | [] => acc
             | s :: r => let sd := quant QIntegral s in
                         go (map (fun kv => (fst kv, EAdd (snd kv) (match dget (fst kv) sd with Some e => e | None => EV tvar end))) acc) r
             end) (map (fun c => (c, e0)) (channels p)) ps
      | QInitial => match ps with [] => [] | s :: _ => quant QInitial s end
      | QFinal => (fix go (l : list pt) : dict :=
                     match l with [] => [] | [s] => quant QFinal s | _ :: r => go r end) ps
      end
  | Rep n b =>
      match q with
      | QIntegral => dmap (fun v => EMul n v) (quant QIntegral b)
      | _ => quant q b
      end
  | For i start stop step b =>
      match q with
      | QIntegral => dmap (fun v => EIfLe (loop_count start stop step) e0 e0 (loop_sum i start stop step v))
                          (quant QIntegral b)
      | QInitial => dmap (fun v => ELet [(i, start)] v) (quant QInitial b)
      | QFinal => dmap (fun v => ELet [(i, loop_final_index start stop step)] v) (quant QFinal b)
      end
  | Map b pm cm => map_dict pm cm (quant q b)
  | Multi ps => (fix go (acc : dict) (l : list pt) : dict :=
                   match l with [] => acc | s :: r => go (dupdate acc (quant q s)) r end) [] ps
  | Par b ov =>
      (* `'t' in value.variables` <-> more than one coefficient *)
      let timedep (cf : list expr) := match cf with _ :: _ :: _ => true | _ => false end in
      match q with
      | QIntegral => dupdate (quant QIntegral b)
                       (map (fun kv => (fst kv, if timedep (snd kv) then poly_int_from 0 (duration_expr b) (snd kv)
                                                else EMul (poly_expr (snd kv)) (duration_expr b))) ov)
      | QInitial => dupdate (quant q b)
                      (map (fun kv => (fst kv, if timedep (snd kv) then ELet [(tvar, e0)] (poly_expr (snd kv))
                                               else poly_expr (snd kv))) ov)
      | QFinal => dupdate (quant q b)
                    (map (fun kv => (fst kv, if timedep (snd kv) then ELet [(tvar, duration_expr b)] (poly_expr (snd kv))
                                             else poly_expr (snd kv))) ov)
      end
  | ArithL b op s =>
      let sd := scalar_as_dict s (channels b) in
      match q with
      | QIntegral =>
          let sd' := match op with
                     | OAdd | OSub => dmap (fun v => EMul v (duration_expr b)) sd
                     | _ => sd end in
          apply_op_dict op (quant QIntegral b) sd'
      | _ => apply_op_dict op (quant q b) sd
      end
  | ArithR s op b =>
      let sd := scalar_as_dict s (channels b) in
      match q with
      | QIntegral =>
          let sd' := match op with
                     | OAdd | OSub => dmap (fun v => EMul v (duration_expr b)) sd
                     | _ => sd end in
          apply_op_dict op sd' (quant QIntegral b)
      | _ => apply_op_dict op sd (quant q b)
      end
  | AAtom l op r => apply_op_dict op (quant q l) (quant q r)
  end.

Definition integral_expr := quant QIntegral.
Definition initial_expr := quant QInitial.
Definition final_expr := quant QFinal.

(* PulseTemplate.pad_to(new_duration) for a numeric/symbolic target that is not structurally the current duration:
   self @ ConstantPT(new_duration - duration, final_values) *)
Definition pad_to (p : pt) (d' : expr) : pt :=
  Seq [p; Const (ESub d' (duration_expr p)) (final_expr p)].
