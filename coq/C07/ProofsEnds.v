(* C07 — proofs, part 14: lemmas shared by the initial-value and final-value inductions: first / last piece of a pulse,
   affine transport, the plain (unscaled) scalar arithmetic on dictionaries, the head of a table channel. *)
From Coq Require Import ZArith QArith Qround List Bool Lia Lra Lqa.
Require Import QV.C07.Model QV.C07.Spec QV.C07.Wf QV.C07.ProofsRange QV.C07.ProofsLoop QV.C07.ProofsAtoms
               QV.C07.ProofsExpr QV.C07.ProofsPt QV.C07.ProofsDict QV.C07.ProofsSum QV.C07.ProofsKeysQ QV.C07.ProofsKeysD
               QV.C07.ProofsDur QV.C07.ProofsObs QV.C07.ProofsIntAtoms QV.C07.ProofsInt.
Import ListNotations.
Open Scope Q_scope.

(* ---- first / last piece ---- *)
Fixpoint lastp (pcs : pulse) : option piece :=
  match pcs with [] => None | [pc] => Some pc | _ :: r => lastp r end.

Lemma lastp_app_one pcs pc : lastp (pcs ++ [pc]) = Some pc.
Proof. induction pcs as [|x r IH]; [reflexivity|]. cbn [app]. destruct (r ++ [pc]) as [|y l] eqn:E; [destruct r; discriminate|]. change (lastp (x :: y :: l)) with (lastp (y :: l)). exact IH. Qed.

Lemma lastp_rev pcs : lastp pcs = match rev pcs with [] => None | pc :: _ => Some pc end.
Proof.
  destruct pcs as [|x r] using rev_ind; [reflexivity|]. rewrite lastp_app_one, rev_app_distr. reflexivity.
Qed.

Lemma p_end_lastp pcs c : p_end pcs c = match lastp pcs with Some pc => option_map f_end (dget c (snd pc)) | None => None end.
Proof. unfold p_end. rewrite lastp_rev. destruct (rev pcs); reflexivity. Qed.

Lemma lastp_cons x y r : lastp (x :: y :: r) = lastp (y :: r).
Proof. reflexivity. Qed.

Lemma lastp_app a b : b <> [] -> lastp (a ++ b) = lastp b.
Proof.
  intros Hb. induction a as [|x a IH]; [reflexivity|]. cbn [app]. destruct (a ++ b) as [|y r] eqn:E.
  - destruct a, b; try discriminate. congruence.
  - rewrite lastp_cons. exact IH.
Qed.
Lemma lastp_app_nil a : lastp (a ++ []) = lastp a.
Proof. rewrite app_nil_r. reflexivity. Qed.

Lemma p_at0_app a b c : a <> [] -> p_at0 (a ++ b) c = p_at0 a c.
Proof. destruct a; [congruence|reflexivity]. Qed.
Lemma p_end_app a b c : b <> [] -> p_end (a ++ b) c = p_end b c.
Proof. intros H. rewrite !p_end_lastp, lastp_app by exact H. reflexivity. Qed.

Lemma lastp_repeat m pcs : pcs <> [] -> lastp (repeat_pulse (S m) pcs) = lastp pcs.
Proof.
  intros H. induction m as [|m IH].
  - cbn [repeat_pulse]. rewrite app_nil_r. reflexivity.
  - change (repeat_pulse (S (S m)) pcs) with (pcs ++ repeat_pulse (S m) pcs). rewrite lastp_app; [exact IH|].
    cbn [repeat_pulse]. destruct pcs; [congruence|discriminate].
Qed.

Lemma lastp_Forall2 (R : piece -> piece -> Prop) a b : Forall2 R a b ->
  match lastp a, lastp b with Some x, Some y => R x y | None, None => True | _, _ => False end.
Proof.
  induction 1 as [|x y a b Hxy H IH]; [exact I|]. destruct H as [|x2 y2 a b H2 H]; [exact Hxy|]. rewrite !lastp_cons. exact IH.
Qed.

(* ---- affine transport of the first / last value ---- *)
Definition aff_rel c a b (pc pc' : piece) : Prop :=
  fst pc' = fst pc /\ dget c (snd pc') = option_map (FAff a b) (dget c (snd pc)).

Lemma p_at0_aff pb pcs c a b x : Forall2 (aff_rel c a b) pb pcs -> p_at0 pcs c = Some x ->
  exists X, p_at0 pb c = Some X /\ x == a * X + b.
Proof.
  intros H Hx. destruct H as [|pc pc' pb pcs (H1 & H2) _]; [discriminate|]. cbn [p_at0] in *. rewrite H2 in Hx.
  destruct (dget c (snd pc)) as [f|]; [|discriminate]. cbn [option_map] in *. inversion Hx; subst x.
  eexists; split; [reflexivity|]. cbn [f_at0]. reflexivity.
Qed.

Lemma p_end_aff pb pcs c a b x : Forall2 (aff_rel c a b) pb pcs -> p_end pcs c = Some x ->
  exists X, p_end pb c = Some X /\ x == a * X + b.
Proof.
  intros H Hx. rewrite p_end_lastp in *. pose proof (lastp_Forall2 _ _ _ H) as HL.
  destruct (lastp pb) as [pc|], (lastp pcs) as [pc'|]; try contradiction; try discriminate.
  destruct HL as (H1 & H2). rewrite H2 in Hx. destruct (dget c (snd pc)) as [f|]; [|discriminate]. cbn [option_map] in *.
  inversion Hx; subst x. eexists; split; [reflexivity|]. cbn [f_end]. reflexivity.
Qed.

Lemma aff_pieces' left op sv c a b pb pcs :
  Forall2 (fun pc pc' => piece_aff left op sv pc = Some pc') pb pcs -> aff_of left op (dget c sv) = Some (a, b) ->
  Forall2 (aff_rel c a b) pb pcs.
Proof. apply aff_pieces. Qed.

(* ---- renamed / overwritten pieces: the first and last piece are the images of the first and last piece ---- *)
Lemma p_at0_congr pcs pcs' c c' :
  Forall2 (fun pc pc' => fst pc = fst pc' /\ dget c (snd pc) = dget c' (snd pc')) pcs pcs' -> p_at0 pcs c = p_at0 pcs' c'.
Proof. intros H. destruct H as [|pc pc' a b (H1 & H2) _]; [reflexivity|]. cbn [p_at0]. rewrite H2. reflexivity. Qed.
Lemma p_end_congr pcs pcs' c c' :
  Forall2 (fun pc pc' => fst pc = fst pc' /\ dget c (snd pc) = dget c' (snd pc')) pcs pcs' -> p_end pcs c = p_end pcs' c'.
Proof.
  intros H. rewrite !p_end_lastp. pose proof (lastp_Forall2 _ _ _ H) as HL.
  destruct (lastp pcs), (lastp pcs'); try contradiction; [|reflexivity]. destruct HL as (_ & ->). reflexivity.
Qed.

(* ---- scalar arithmetic without duration scaling (initial / final values) ---- *)
Lemma arithL_plain rho op (sd : dict) sv c ea e v :
  match dget c sd with
  | Some se => exists q, eval rho se = Some q /\ dget c sv = Some q
  | None => dget c sv = None
  end ->
  match Some ea, dget c sd with
  | Some a, Some b => Some (apply_both op a b)
  | Some a, None => Some a
  | None, Some b => Some (apply_rhs_only op b)
  | None, None => None
  end = Some e ->
  eval rho e = Some v ->
  exists va a' b', eval rho ea = Some va /\ aff_of true op (dget c sv) = Some (a', b') /\ v == a' * va + b'.
Proof.
  intros Gs Hc Hv. destruct (dget c sd) as [se|] eqn:Ese.
  - destruct Gs as (sq & Esq & Gsq). rewrite Gsq. destruct op; inversion Hc; subst e; cbn [apply_both] in Hv.
    + apply eval_EAdd in Hv as (va & sq' & Eva & Esq' & ->). rewrite Esq in Esq'. inversion Esq'; subst sq'.
      exists va, 1, sq. repeat split; [exact Eva|ring].
    + apply eval_ESub in Hv as (va & sq' & Eva & Esq' & ->). rewrite Esq in Esq'. inversion Esq'; subst sq'.
      exists va, 1, (- sq). repeat split; [exact Eva|ring].
    + apply eval_EMul in Hv as (va & sq' & Eva & Esq' & ->). rewrite Esq in Esq'. inversion Esq'; subst sq'.
      exists va, sq, 0. repeat split; [exact Eva|ring].
    + apply eval_EDiv in Hv as (va & sq' & Eva & Esq' & Hnz & ->). rewrite Esq in Esq'. inversion Esq'; subst sq'.
      exists va, (1 / sq), 0. cbn [aff_of]. rewrite Hnz. repeat split; [exact Eva|]. field. apply Qeq_bool_false_neq. exact Hnz.
  - rewrite Gs. inversion Hc; subst e. exists v, 1, 0. repeat split; [exact Hv|ring].
Qed.

Lemma arithR_plain rho op (sd : dict) sv c ea e v :
  match op with ODiv => false | _ => true end = true ->
  match dget c sd with
  | Some se => exists q, eval rho se = Some q /\ dget c sv = Some q
  | None => dget c sv = None
  end ->
  match dget c sd, Some ea with
  | Some a, Some b => Some (apply_both op a b)
  | Some a, None => Some a
  | None, Some b => Some (apply_rhs_only op b)
  | None, None => None
  end = Some e ->
  eval rho e = Some v ->
  exists va a' b', eval rho ea = Some va /\ aff_of false op (dget c sv) = Some (a', b') /\ v == a' * va + b'.
Proof.
  intros Hop Gs Hc Hv. destruct (dget c sd) as [se|] eqn:Ese.
  - destruct Gs as (sq & Esq & Gsq). rewrite Gsq. destruct op; try discriminate; inversion Hc; subst e; cbn [apply_both] in Hv.
    + apply eval_EAdd in Hv as (sq' & va & Esq' & Eva & ->). rewrite Esq in Esq'. inversion Esq'; subst sq'.
      exists va, 1, sq. repeat split; [exact Eva|ring].
    + apply eval_ESub in Hv as (sq' & va & Esq' & Eva & ->). rewrite Esq in Esq'. inversion Esq'; subst sq'.
      exists va, (-(1)), sq. repeat split; [exact Eva|ring].
    + apply eval_EMul in Hv as (sq' & va & Esq' & Eva & ->). rewrite Esq in Esq'. inversion Esq'; subst sq'.
      exists va, sq, 0. repeat split; [exact Eva|ring].
  - rewrite Gs. inversion Hc; subst e. destruct op; try discriminate; cbn [apply_rhs_only] in Hv.
    + exists v, 1, 0. repeat split; [exact Hv|ring].
    + apply eval_ENeg in Hv as (va & Eva & ->). exists va, (-(1)), 0. repeat split; [exact Eva|ring].
    + exists v, 1, 0. repeat split; [exact Hv|ring].
Qed.

(* ---- the head of a table channel ---- *)
Lemma last_tv_app_one l t v ip d : last_tv (l ++ [(t, v, ip)]) d = (t, v).
Proof. unfold last_tv. rewrite last_last. reflexivity. Qed.

Lemma head_ok_at0 v0 : forall L prev, head_ok v0 prev L = true ->
  f_at0 (FSegs (segs_of prev L) (snd (last_tv L prev))) == v0.
Proof.
  induction L as [|[[t v] ip] L IH]; intros prev H.
  - cbn in *. apply Qeq_bool_iff in H. destruct prev; exact H.
  - cbn [head_ok] in H. cbn [segs_of]. rewrite last_tv_cons. cbn [fst snd].
    destruct (Qle_bool (t - fst prev) 0) eqn:E.
    + cbn [app]. apply IH. exact H.
    + cbn [app f_at0]. destruct ip; apply Qeq_bool_iff in H; cbn [snd peval]; rewrite H; ring.
Qed.

(* ... and the guard is exact on a channel: it holds IFF the denoted voltage at 0 is the first entry's value *)
Lemma head_ok_exact v0 : forall L prev,
  head_ok v0 prev L = true <-> f_at0 (FSegs (segs_of prev L) (snd (last_tv L prev))) == v0.
Proof.
  induction L as [|[[t v] ip] L IH]; intros prev.
  - cbn. destruct prev as [pt pv]. cbn. apply Qeq_bool_iff.
  - cbn [head_ok segs_of]. rewrite last_tv_cons. cbn [fst snd].
    destruct (Qle_bool (t - fst prev) 0) eqn:E.
    + cbn [app]. apply IH.
    + cbn [app f_at0]. destruct ip; cbn [snd peval]; rewrite Qeq_bool_iff; split; intros H; [rewrite H; ring|rewrite <- H; ring|rewrite H; ring|rewrite <- H; ring|rewrite H; ring|rewrite <- H; ring].
Qed.

Lemma table_chfun_at0 rho D es l f :
  opt_all (map (eval_entry rho) es) = Some l -> table_chfun D l = Some f -> table_head_ok rho D es = true ->
  exists t0 v0 ip0 l', l = (t0, v0, ip0) :: l' /\ f_at0 f == v0.
Proof.
  intros El Ef Hg. unfold table_head_ok in Hg. rewrite El in Hg. destruct l as [|[[t0 v0] ip0] l']; [discriminate|].
  exists t0, v0, ip0, l'. split; [reflexivity|]. unfold table_chfun in Ef. cbv iota beta in Ef.
  revert Ef Hg. match goal with |- (if ?b then _ else _) = _ -> _ => destruct b end; [|discriminate].
  unfold nentry, tentry in *. destruct (last_tv ((t0, v0, ip0) :: l') (t0, v0)) as [tl vl] eqn:Elast. intros Ef Hg. inversion Ef; subst f. cbn [snd] in Hg.
  pose proof (head_ok_at0 v0 _ _ Hg) as H. rewrite last_tv_app_one in H. cbn [snd] in H. exact H.
Qed.
