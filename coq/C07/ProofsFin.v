(* C07 — proofs, part 16: THE FINAL-VALUE THEOREM under the guard of finding `final-tail-empty` (the former second
   guard, for finding `for-final-floor`, is gone: ForLoopPT.final_values was repaired). *)
From Coq Require Import ZArith QArith Qround List Bool Lia Lra Lqa.
Require Import QV.C07.Model QV.C07.Spec QV.C07.Wf QV.C07.ProofsRange QV.C07.ProofsLoop QV.C07.ProofsAtoms
               QV.C07.ProofsExpr QV.C07.ProofsPt QV.C07.ProofsDict QV.C07.ProofsSum QV.C07.ProofsKeysQ QV.C07.ProofsKeysD
               QV.C07.ProofsDur QV.C07.ProofsObs QV.C07.ProofsIntAtoms QV.C07.ProofsInt QV.C07.ProofsEnds QV.C07.ProofsIni.
Import ListNotations.
Open Scope Q_scope.

Definition fin_ok (p : pt) : Prop := forall rho pcs c e x v,
  wf p = true -> guard_C07_final_tail p rho = true ->
  denote p rho = Some pcs -> dget c (quant QFinal p) = Some e -> p_end pcs c = Some x -> eval rho e = Some v -> v == x.

(* named guard fixpoints *)
Definition gseq_tail (rho : env) : list pt -> bool :=
  fix go (l : list pt) : bool :=
    match l with [] => true | [q] => nonempty (denote q rho) && guard_C07_final_tail q rho | _ :: r => go r end.
Lemma gtail_Seq ps rho : guard_C07_final_tail (Seq ps) rho = gseq_tail rho ps.
Proof. reflexivity. Qed.
Definition gmulti_tail (rho : env) : list pt -> bool :=
  fix go (l : list pt) : bool := match l with [] => true | q :: r => guard_C07_final_tail q rho && go r end.
Lemma gtail_Multi ps rho : guard_C07_final_tail (Multi ps) rho = gmulti_tail rho ps.
Proof. reflexivity. Qed.
Lemma gmulti_tail_Forall rho l : gmulti_tail rho l = true -> Forall (fun q => guard_C07_final_tail q rho = true) l.
Proof. induction l as [|q r IH]; intros H; constructor; cbn [gmulti_tail] in H; apply andb_prop in H as (H1 & H2); auto. Qed.
Lemma p_end_single d fs c : p_end [(d, fs)] c = option_map f_end (dget c fs).
Proof. reflexivity. Qed.

Definition last_val (es : list tentry) : expr :=
  match es with [] => e0 | _ => match last_or es (e0, e0, IHold) with (_, v, _) => v end end.

Lemma dget_fin_Table c chs : dget c (quant QFinal (Table chs)) = option_map last_val (dget c chs).
Proof.
  assert (H : quant QFinal (Table chs) = map (fun kv => (fst kv, (fun (_ : chan) (es : list tentry) => last_val es) (fst kv) (snd kv))) chs).
  { cbn [quant]. apply map_ext. intros [k es]. cbn [fst snd]. destruct es as [|[[t0 v0] ip0] es']; reflexivity. }
  rewrite H. apply (dget_map_val (fun (_ : chan) (es : list tentry) => last_val es)).
Qed.

Lemma table_chfun_end D t0 v0 ip0 l' f :
  table_chfun D ((t0, v0, ip0) :: l') = Some f -> f_end f = snd (last_tv ((t0, v0, ip0) :: l') (t0, v0)).
Proof.
  intros Ef. unfold table_chfun in Ef. cbv iota beta in Ef. revert Ef.
  match goal with |- (if ?b then _ else _) = _ -> _ => destruct b end; [|discriminate].
  unfold nentry, tentry in *. destruct (last_tv ((t0, v0, ip0) :: l') (t0, v0)) as [tl vl]. intros Ef. inversion Ef. reflexivity.
Qed.

Lemma fin_Table chs : fin_ok (Table chs).
Proof.
  intros rho pcs c e x v Hwf _ Hd Hc Hx Hv. cbn [wf] in Hwf. apply andb_prop in Hwf as (_ & Hne).
  rewrite dget_fin_Table in Hc. destruct (dget c chs) as [es|] eqn:Ees; [|discriminate]. inversion Hc; subst e; clear Hc.
  cbn [denote] in Hd.
  destruct (opt_all (map (fun ch => option_map (fun l => (fst ch, l)) (opt_all (map (eval_entry rho) (snd ch)))) chs)) as [nchs|] eqn:E1; [|discriminate].
  cbv zeta in Hd.
  destruct (opt_all (map (fun ch => option_map (fun f => (fst ch, f)) (table_chfun _ (snd ch))) nchs)) as [fs|] eqn:E2; [|discriminate].
  set (D := qmax_list (map (fun ch : chan * list nentry => fst (last_tv (snd ch) (0, 0))) nchs)) in *.
  pose proof (opt_all_dget (fun z => opt_all (map (eval_entry rho) (snd z))) (fun _ l => l) c chs nchs E1) as G1.
  rewrite Ees in G1. destruct G1 as (l & El & Gl). cbn [snd] in El.
  pose proof (opt_all_dget (fun z => table_chfun D (snd z)) (fun _ f => f) c nchs fs E2) as G2.
  rewrite Gl in G2. destruct G2 as (f & Ef & Gf). cbn [snd] in Ef.
  destruct (Qle_bool D 0); inversion Hd; subst pcs; [discriminate|].
  rewrite p_end_single, Gf in Hx. inversion Hx; subst x.
  apply opt_all_map_Forall2 in El. destruct es as [|[[t0e v0e] ipe] es']; [inversion El; subst; discriminate|].
  destruct (entries_first_last rho t0e v0e ipe es' _ El) as (t0 & v0 & l' & -> & _ & _ & Evl).
  rewrite (table_chfun_end D t0 v0 ipe l' f Ef).
  assert (Hzv : Some (snd (last_tv ((t0, v0, ipe) :: l') (t0, v0))) = Some v) by (rewrite <- Evl; exact Hv). inversion Hzv. reflexivity.
Qed.

Lemma point_lookup_fin rho ents v0 D c : forall cs k fs e,
  opt_all (den_point_go rho ents D k cs) = Some fs -> dget c (point_q QFinal ents v0 k cs) = Some e ->
  exists j lj f, e = (match last_or ents (e0, PScalar e0, IHold) with (_, v, _) => pval_at j v end) /\
                 point_entries rho ents j = Some lj /\ table_chfun D lj = Some f /\ dget c fs = Some f.
Proof.
  induction cs as [|c1 cs IH]; intros k fs e Hfs Hc; [discriminate|].
  rewrite den_point_go_cons in Hfs. cbn [opt_all] in Hfs.
  destruct (point_entries rho ents k) as [lk|] eqn:Ek; [|discriminate].
  destruct (table_chfun D lk) as [f|] eqn:Ef; [|discriminate]. cbn [option_map] in Hfs.
  destruct (opt_all (den_point_go rho ents D (S k) cs)) as [r|] eqn:Er; [|discriminate]. inversion Hfs; subst fs.
  cbn [point_q dget] in Hc |- *. destruct (N.eqb c1 c) eqn:E.
  - inversion Hc; subst e. exists k, lk, f. repeat split; assumption.
  - destruct (IH (S k) r e Er Hc) as (j & lj & f' & H1 & H2 & H3 & H4). exists j, lj, f'. repeat split; assumption.
Qed.

Lemma last_map {A B} (g : A -> B) l d : last (map g l) (g d) = g (last l d).
Proof. induction l as [|a l IH]; [reflexivity|]. destruct l as [|b l]; [reflexivity|]. exact IH. Qed.

Lemma fin_Point cs ents : fin_ok (Point cs ents).
Proof.
  intros rho pcs c e x v Hwf _ Hd Hc Hx Hv. cbn [wf] in Hwf. apply andb_prop in Hwf as (_ & Hwf).
  destruct ents as [|[[t0 v0] ip0] ents']; [cbv iota in Hwf; discriminate Hwf|].
  rewrite denote_Point in Hd. revert Hd. match goal with |- match ?z with _ => _ end = _ -> _ => destruct z as [l0|] eqn:E0 end; [|discriminate]. cbv zeta.
  match goal with |- match ?z with _ => _ end = _ -> _ => destruct z as [fs|] eqn:Efs end; [|discriminate].
  intros Hd. set (D := fst (last_tv l0 (0, 0))) in *.
  destruct (Qle_bool D 0); inversion Hd; subst pcs; [discriminate|].
  rewrite quant_Point in Hc.
  destruct (point_lookup_fin rho _ v0 D c cs 0%nat fs e Efs Hc) as (j & lj & f & -> & Ej & Ef & Gf).
  rewrite p_end_single, Gf in Hx. inversion Hx; subst x.
  pose proof (point_entries_F2 _ _ _ _ Ej) as HF. cbn [point_es map] in HF.
  destruct (entries_first_last rho t0 (pval_at j v0) ip0 _ _ HF) as (t0' & v0' & l' & -> & _ & _ & Evl).
  rewrite (table_chfun_end D t0' v0' ip0 l' f Ef).
  assert (Hlast : (match last_or ((t0, pval_at j v0, ip0) :: map (fun en : expr * pval * interp => let (y, ip) := en in let (t, v1) := y in (t, pval_at j v1, ip)) ents') (e0, e0, IHold) with (_, v1, _) => v1 end)
                  = (match last_or ((t0, v0, ip0) :: ents') (e0, PScalar e0, IHold) with (_, v1, _) => pval_at j v1 end)).
  { unfold last_or.
    change ((t0, pval_at j v0, ip0) :: map (fun en : expr * pval * interp => let (y, ip) := en in let (t, v1) := y in (t, pval_at j v1, ip)) ents')
      with (map (fun en : expr * pval * interp => let (y, ip) := en in let (t, v1) := y in (t, pval_at j v1, ip)) ((t0, v0, ip0) :: ents')).
    change (e0, e0, IHold) with ((fun en : expr * pval * interp => let (y, ip) := en in let (t, v1) := y in (t, pval_at j v1, ip)) (e0, PScalar e0, IHold)).
    rewrite last_map. destruct (last ((t0, v0, ip0) :: ents') (e0, PScalar e0, IHold)) as [[tl vl] ipl]. reflexivity. }
  rewrite Hlast in Evl.
  assert (Hzv : Some (snd (last_tv ((t0', v0', ip0) :: l') (t0', v0'))) = Some v) by (rewrite <- Evl; exact Hv). inversion Hzv. reflexivity.
Qed.

Lemma fin_Const d vals : fin_ok (Const d vals).
Proof.
  intros rho pcs c e x v Hwf _ Hd Hc Hx Hv. cbn [quant] in Hc. cbn [denote] in Hd.
  destruct (eval rho d) as [dd|]; [|discriminate]. destruct (Qle_bool dd 0).
  - destruct (Qle_bool 0 dd); inversion Hd; subst; discriminate.
  - destruct (opt_all (map (fun kv => option_map (fun q => (fst kv, q)) (eval rho (snd kv))) vals)) as [vs|] eqn:Evs; [|discriminate].
    inversion Hd; subst pcs.
    pose proof (opt_all_dget (fun z => eval rho (snd z)) (fun _ q => q) c vals vs Evs) as G. rewrite Hc in G.
    destruct G as (y & Ey & Gy). cbn [snd] in Ey. rewrite Hv in Ey. inversion Ey; subst y.
    rewrite p_end_single, (dget_map_val (fun _ q => FSegs [(dd, [q])] q)), Gy in Hx. inversion Hx; subst x. reflexivity.
Qed.

Lemma fin_Func c0 d coef : fin_ok (Func c0 d coef).
Proof.
  intros rho pcs c e x v Hwf _ Hd Hc Hx Hv. cbn [wf] in Hwf. apply andb_prop in Hwf as (_ & Hnt).
  cbn [quant dget] in Hc. destruct (N.eqb c0 c) eqn:E; [|discriminate]. inversion Hc; subst e.
  cbn [denote] in Hd. destruct (eval rho d) as [dd|] eqn:Ed; [|discriminate].
  destruct (opt_all (map (eval rho) coef)) as [cf|] eqn:Ecf; [|discriminate]. destruct (Qle_bool dd 0); [discriminate|].
  inversion Hd; subst pcs. rewrite p_end_single in Hx. cbn [dget] in Hx. rewrite E in Hx. inversion Hx; subst x.
  rewrite eval_ELet, let_env_one, Ed in Hv.
  destruct (eval_poly_expr rho dd coef cf (opt_all_Forall2 _ _ _ Ecf) Hnt) as (w & Ew & Hw). rewrite Ew in Hv. inversion Hv; subst w.
  rewrite Hw. reflexivity.
Qed.

(* ---- SequencePT ---- *)
Lemma gseq_tail_nonempty rho : forall l pcs, l <> [] -> gseq_tail rho l = true -> den_seq rho l = Some pcs -> pcs <> [].
Proof.
  induction l as [|s l IH]; intros pcs Hne Hg Hd; [congruence|].
  rewrite den_seq_cons in Hd. destruct (denote s rho) as [a|] eqn:Ea; [|discriminate].
  destruct (den_seq rho l) as [b|] eqn:Eb; [|discriminate]. inversion Hd; subst pcs.
  destruct l as [|s' l'].
  - cbn [gseq_tail] in Hg. apply andb_prop in Hg as (Hn & _). rewrite Ea in Hn. destruct a; [discriminate|discriminate].
  - assert (Hb : b <> []) by (apply (IH b); [discriminate|exact Hg|reflexivity]). destruct a, b; try discriminate; congruence.
Qed.

Lemma fin_Seq ps : Forall fin_ok ps -> fin_ok (Seq ps).
Proof.
  intros HI rho pcs c e x v Hwf Hg1 Hd Hc Hx Hv. destruct ps as [|q0 r]; [cbn in Hc; discriminate|].
  rewrite wf_Seq in Hwf. apply andb_prop in Hwf as (_ & Hwf). pose proof (wf_seq_Forall _ _ Hwf) as HF.
  rewrite gtail_Seq in Hg1. rewrite denote_Seq in Hd. rewrite quant_fin_Seq in Hc.
  clear Hwf. revert pcs Hd Hg1 Hc Hx HI HF. generalize (q0 :: r) as l. intros l.
  induction l as [|s l IH]; intros pcs Hd Hg1 Hc Hx HI HF; [discriminate|].
  inversion HI as [|? ? Hs HI']; subst. inversion HF as [|? ? (Hw & _) HF']; subst.
  rewrite den_seq_cons in Hd. destruct (denote s rho) as [a|] eqn:Ea; [|discriminate].
  destruct (den_seq rho l) as [b|] eqn:Eb; [|discriminate]. inversion Hd; subst pcs.
  destruct l as [|s' l'].
  - inversion Eb; subst b. rewrite app_nil_r in Hx. rewrite fin_seq_one in Hc.
    cbn [gseq_tail] in Hg1. apply andb_prop in Hg1 as (_ & Hg1).
    exact (Hs rho a c e x v Hw Hg1 Ea Hc Hx Hv).
  - rewrite fin_seq_cons in Hc.
    assert (Hb : b <> []) by (apply (gseq_tail_nonempty rho (s' :: l') b); [discriminate|exact Hg1|exact Eb]).
    rewrite p_end_app in Hx by exact Hb. exact (IH b eq_refl Hg1 Hc Hx HI' HF').
Qed.

Lemma fin_Rep n b : fin_ok b -> fin_ok (Rep n b).
Proof.
  intros HI rho pcs c e x v Hwf Hg1 Hd Hc Hx Hv. cbn [wf] in Hwf. apply andb_prop in Hwf as (_ & Hwf).
  cbn [guard_C07_final_tail] in Hg1. cbn [quant] in Hc. cbn [denote] in Hd.
  destruct (as_int (eval rho n)) as [k|]; [|discriminate]. destruct (k =? 0)%Z eqn:E0; [inversion Hd; subst; discriminate|].
  destruct (denote b rho) as [pb|] eqn:Eb; [|discriminate]. destruct ((k <? 0)%Z || (RANGE_LIMIT <? k)%Z) eqn:El; [discriminate|].
  inversion Hd; subst pcs. destruct (Z.to_nat k) as [|m] eqn:Ek; [lia|].
  destruct pb as [|pc pb]; [rewrite repeat_nil in Hx; discriminate|].
  rewrite p_end_lastp, lastp_repeat in Hx by discriminate. rewrite <- p_end_lastp in Hx.
  exact (HI rho _ c e x v Hwf Hg1 Eb Hc Hx Hv).
Qed.

(* ---- ForLoopPT ---- *)
Lemma den_for_snoc b i rho : forall ks kl pcs, den_for b i rho (ks ++ [kl]) = Some pcs ->
  exists a bl, den_for b i rho ks = Some a /\ denote b (env_upd rho i (Some (inject_Z kl))) = Some bl /\ pcs = a ++ bl.
Proof.
  induction ks as [|k ks IH]; intros kl pcs Hd.
  - cbn [app] in Hd. rewrite den_for_cons in Hd. destruct (denote b (env_upd rho i (Some (inject_Z kl)))) as [bl|]; [|discriminate].
    cbn in Hd. inversion Hd; subst. exists [], bl. rewrite app_nil_r. repeat split; reflexivity.
  - cbn [app] in Hd. rewrite den_for_cons in Hd. destruct (denote b (env_upd rho i (Some (inject_Z k)))) as [xk|] eqn:Ek; [|discriminate].
    destruct (den_for b i rho (ks ++ [kl])) as [y|] eqn:Ey; [|discriminate]. inversion Hd; subst pcs.
    destruct (IH kl y Ey) as (a & bl & Ea & Ebl & ->). exists (xk ++ a), bl. rewrite den_for_cons, Ek, Ea.
    repeat split; [exact Ebl|apply app_assoc].
Qed.

Lemma fin_For i a o s b : fin_ok b -> fin_ok (For i a o s b).
Proof.
  intros HI rho pcs c e x v Hwf Hg1 Hd Hc Hx Hv. cbn [wf] in Hwf. apply andb_prop in Hwf as (_ & Hwf).
  cbn [quant] in Hc. rewrite dget_dmap in Hc. destruct (dget c (quant QFinal b)) as [eb|] eqn:Eeb; [|discriminate].
  inversion Hc; subst e. clear Hc.
  cbn [guard_C07_final_tail] in Hg1. unfold for_range in Hg1.
  rewrite denote_For in Hd. destruct (as_int (eval rho a)) as [za|] eqn:Ea; [|discriminate].
  destruct (as_int (eval rho o)) as [zo|] eqn:Eo; [|discriminate]. destruct (as_int (eval rho s)) as [zs|] eqn:Es; [|discriminate].
  destruct (py_range za zo zs) as [ks|] eqn:Er; [|discriminate].
  destruct ks as [|k0 ks]; [inversion Hd; subst; discriminate|].
  apply andb_prop in Hg1 as (Hne & Hg1).
  set (kl := last ks k0) in *.
  assert (Hsplit : exists ks', k0 :: ks = ks' ++ [kl]).
  { destruct (@exists_last _ (k0 :: ks) ltac:(discriminate)) as (ks' & kx & Hk). exists ks'. rewrite Hk. f_equal. f_equal.
    unfold kl. rewrite <- (last_cons k0 ks k0), Hk, last_last. reflexivity. }
  destruct Hsplit as (ks' & Hks). rewrite Hks in Hd.
  destruct (den_for_snoc b i rho ks' kl pcs Hd) as (pa & bl & _ & Ebl & ->).
  rewrite Ebl in Hne. rewrite p_end_app in Hx by (destruct bl; [discriminate|discriminate]).
  destruct (py_range_spec _ _ _ _ Er) as (Hzs & _ & _).
  destruct (eval_loop_final_index rho a o s za zo zs (as_int_val _ _ _ Ea) (as_int_val _ _ _ Eo) (as_int_val _ _ _ Es) Hzs) as (q & Eq & Hq).
  rewrite (last_index_ok za zo zs (k0 :: ks) Er ltac:(discriminate)), (last_cons k0 ks 0%Z) in Hq. fold kl in Hq.
  destruct (eval_subst_index rho i (loop_final_index a o s) eb q kl v Eq Hq Hv) as (w & Ew & Hw). rewrite Hw.
  exact (HI _ bl c eb x w Hwf Hg1 Ebl Eeb Hx Ew).
Qed.

Lemma fin_Map b pm cm : fin_ok b -> fin_ok (Map b pm cm).
Proof.
  intros HI rho pcs c' e x v Hwf Hg1 Hd Hc Hx Hv. pose proof (wf_nodup _ Hwf) as Hnd. rewrite channels_Map in Hnd.
  cbn [wf] in Hwf. apply andb_prop in Hwf as (_ & Hwf). cbn [guard_C07_final_tail] in Hg1.
  cbn [quant] in Hc. rewrite map_dict_rename in Hc.
  destruct (map_lookup _ (ELet pm) cm _ (channels b) c' e (quant_keys b QFinal Hwf) (wf_nodup _ Hwf) Hnd Hc)
    as (c & eb & Ht & Hin & Eeb & -> & Hu).
  rewrite denote_Map in Hd. destruct (denote b (map_env rho pm)) as [pb|] eqn:Eb; [|discriminate]. inversion Hd; subst pcs.
  rewrite eval_ELet, <- map_env_let_env in Hv.
  apply (HI _ pb c eb x v Hwf Hg1 Eb Eeb); [|exact Hv]. rewrite <- Hx. apply p_end_congr. apply Forall2_map_r. intros pc Hpc.
  split; [reflexivity|]. pose proof (piece_keys b _ _ Hwf Eb) as HK. rewrite Forall_forall in HK. symmetry.
  apply (piece_rename_dget cm pc (channels b) c c' (HK pc Hpc) Hin Ht Hu).
Qed.

Lemma fin_ok_single s rho pc c e f : fin_ok s -> wf s = true -> guard_C07_final_tail s rho = true ->
  denote s rho = Some [pc] ->
  dget c (quant QFinal s) = Some e -> dget c (snd pc) = Some f -> okL L_end rho e (fst pc) f.
Proof.
  intros HI Hw Hg1 Hd He Hf v Hv. apply (HI rho [pc] c e (f_end f) v Hw Hg1 Hd He); [|exact Hv].
  rewrite p_end_lastp. cbn [lastp]. rewrite Hf. reflexivity.
Qed.

Lemma fin_Multi ps : Forall fin_ok ps -> fin_ok (Multi ps).
Proof.
  intros HI rho pcs c e x v Hwf Hg1 Hd Hc Hx Hv. rewrite wf_Multi in Hwf. apply andb_prop in Hwf as (Hnd & Hwf).
  pose proof (wf_multi_Forall _ Hwf) as HW. rewrite gtail_Multi in Hg1.
  pose proof (gmulti_tail_Forall _ _ Hg1) as HG1.
  rewrite denote_Multi in Hd. rewrite quant_Multi in Hc.
  destruct ps as [|q r]; [discriminate|]. destruct (den_multi_first _ _ _ _ Hd) as (pc0 & d0 & _ & ->).
  assert (HR : Forall (fun s => forall pc c e f, denote s rho = Some [pc] -> dget c (quant QFinal s) = Some e ->
                                 dget c (snd pc) = Some f -> okL L_end rho e (fst pc) f) (q :: r)).
  { rewrite Forall_forall in *. intros s Hs pc c1 e1 f1 H1 H2 H3. eapply fin_ok_single; eauto. }
  pose proof (multi_rule L_end rho QFinal (q :: r) [] _ c e Hd HW Hnd HR Hc) as HM. cbn [fst snd] in HM.
  rewrite p_end_single in Hx. destruct (dget c d0) as [f|] eqn:Ef; [|discriminate]. inversion Hx; subst x.
  exact (HM v Hv).
Qed.

Lemma fin_AAtom l op r : fin_ok l -> fin_ok r -> fin_ok (AAtom l op r).
Proof.
  intros HIl HIr rho pcs c e x v Hwf Hg1 Hd Hc Hx Hv. cbn [wf] in Hwf. apply andb_prop in Hwf as (_ & Hwf). apply andb_prop in Hwf as (Hw1 & Hw2).
  cbn [guard_C07_final_tail] in Hg1. apply andb_prop in Hg1 as (Hg1l & Hg1r).
  cbn [denote] in Hd. destruct (denote l rho) as [[|pl [|? ?]]|] eqn:E1; try discriminate.
  destruct (denote r rho) as [[|pr [|? ?]]|] eqn:E2; try discriminate.
  destruct (merge_atomic op pl pr) as [pc|] eqn:Em; [|discriminate]. inversion Hd; subst pcs. cbn [quant] in Hc.
  destruct (quant_keys l QFinal Hw1) as (Ql1 & Ql2). destruct (quant_keys r QFinal Hw2) as (Qr1 & Qr2).
  pose proof (piece_keys l rho _ Hw1 E1) as HKl. inversion HKl as [|? ? (Pl1 & Pl2) _]; subst.
  pose proof (piece_keys r rho _ Hw2 E2) as HKr. inversion HKr as [|? ? (Pr1 & Pr2) _]; subst.
  destruct (aatom_rule L_end rho op (quant QFinal l) (quant QFinal r) pl pr pc c e Em Qr1 Pr1) as (f & Ef & Hok).
  - intros c1. rewrite Ql2, Pl2. reflexivity.
  - intros c1. rewrite Qr2, Pr2. reflexivity.
  - intros c1 e1 f1 H1 H2. exact (fin_ok_single l rho pl c1 e1 f1 HIl Hw1 Hg1l E1 H1 H2).
  - intros c1 e1 f1 H1 H2. exact (fin_ok_single r rho pr c1 e1 f1 HIr Hw2 Hg1r E2 H1 H2).
  - exact Hc.
  - destruct pc as [dpc fpc]. rewrite p_end_single in Hx. cbn [snd] in Ef. rewrite Ef in Hx. inversion Hx; subst x. exact (Hok v Hv).
Qed.

(* ---- ParallelChannelPT ---- *)
Lemma poly_needs_t rho cfe : timedep cfe = true -> eval (env_upd rho tvar None) (poly_expr cfe) = None.
Proof.
  destruct cfe as [|c0 [|c1 r]]; try discriminate. intros _. unfold poly_expr.
  change (poly_expr_from 0 (c0 :: c1 :: r)) with (EAdd c0 (poly_expr_from 1 (c1 :: r))).
  assert (H : eval (env_upd rho tvar None) (poly_expr_from 1 (c1 :: r)) = None).
  { assert (Ht : eval (env_upd rho tvar None) (EMul c1 (epow (EV tvar) 1)) = None).
    { cbn [epow eval]. rewrite env_upd_same. cbn [omap2]. destruct (eval (env_upd rho tvar None) c1); reflexivity. }
    destruct r as [|c2 r].
    - exact Ht.
    - change (poly_expr_from 1 (c1 :: c2 :: r)) with (EAdd (EMul c1 (epow (EV tvar) 1)) (poly_expr_from 2 (c2 :: r))).
      change (eval (env_upd rho tvar None) (EAdd (EMul c1 (epow (EV tvar) 1)) (poly_expr_from 2 (c2 :: r))))
        with (omap2 Qplus (eval (env_upd rho tvar None) (EMul c1 (epow (EV tvar) 1))) (eval (env_upd rho tvar None) (poly_expr_from 2 (c2 :: r)))).
      rewrite Ht. reflexivity. }
  change (eval (env_upd rho tvar None) (EAdd c0 (poly_expr_from 1 (c1 :: r))))
    with (omap2 Qplus (eval (env_upd rho tvar None) c0) (eval (env_upd rho tvar None) (poly_expr_from 1 (c1 :: r)))).
  rewrite H. destruct (eval (env_upd rho tvar None) c0); reflexivity.
Qed.

Lemma lastp_map (g : piece -> piece) pb : lastp (map g pb) = option_map g (lastp pb).
Proof. induction pb as [|x r IH]; [reflexivity|]. destruct r as [|y r]; [reflexivity|]. cbn [map] in *. rewrite !lastp_cons. exact IH. Qed.

Lemma fin_Par b ov : fin_ok b -> fin_ok (Par b ov).
Proof.
  intros HI rho pcs c e x v Hwf Hg1 Hd Hc Hx Hv. cbn [wf] in Hwf. apply andb_prop in Hwf as (_ & Hwf). apply andb_prop in Hwf as (Hwf & Hat).
  apply andb_prop in Hwf as (Hwf & Hnt). apply andb_prop in Hwf as (Hwf & Hno).
  cbn [guard_C07_final_tail] in Hg1.
  cbn [denote] in Hd. destruct (denote b rho) as [pb|] eqn:Eb; [|discriminate].
  destruct (opt_all (map (fun kv => option_map (fun cf => (fst kv, cf)) (opt_all (map (eval rho) (snd kv)))) ov)) as [ovs|] eqn:Eo; [|discriminate].
  inversion Hd; subst pcs. clear Hd.
  pose proof (opt_all_dget (fun z => opt_all (map (eval rho) (snd z))) (fun _ cf => cf) c ov ovs Eo) as G.
  pose proof (opt_all_keys _ _ _ _ _ Eo) as Hk.
  assert (Hnos : nodupb (dkeys ovs) = true) by (unfold dkeys; rewrite Hk; exact Hno).
  cbn [quant] in Hc. rewrite dget_dupdate in Hc by (rewrite dkeys_map_fst; exact Hno).
  rewrite (dget_map_val (fun _ cf => if timedep cf then ELet [(tvar, duration_expr b)] (poly_expr cf) else poly_expr cf)) in Hc.
  rewrite p_end_lastp, lastp_map in Hx. destruct (lastp pb) as [pc|] eqn:Elp; [|discriminate]. cbn [option_map snd fst] in Hx.
  rewrite par_piece_dget in Hx by exact Hnos.
  destruct (dget c ov) as [cfe|] eqn:Eov.
  - destruct G as (cf & Ecf & Gcf). cbn [snd] in Ecf. cbn [option_map] in Hc. inversion Hc; subst e. clear Hc.
    rewrite Gcf in Hx. cbn [option_map f_end] in Hx. inversion Hx; subst x.
    pose proof (opt_all_Forall2 _ _ _ Ecf) as HF.
    assert (Hntc : no_t cfe = true).
    { rewrite forallb_forall in Hnt. apply (Hnt (c, cfe)). apply dget_In. exact Eov. }
    destruct (timedep cfe) eqn:Etd.
    + assert (Hatom : atomic b = true).
      { apply orb_prop in Hat as [Hat|Hat]; [|exact Hat]. apply negb_true_iff in Hat. exfalso.
        assert (existsb (fun kv : chan * list expr => timedep (snd kv)) ov = true); [|congruence].
        apply existsb_exists. exists (c, cfe). split; [apply dget_In; exact Eov|exact Etd]. }
      rewrite eval_ELet, let_env_one in Hv.
      destruct (eval rho (duration_expr b)) as [dv|] eqn:Edv; [|rewrite poly_needs_t in Hv by exact Etd; discriminate].
      pose proof (duration_correct b rho pb dv Hwf Eb Edv) as Hdv.
      pose proof (atomic_pieces b rho pb Hatom Eb) as Hlen.
      destruct pb as [|pc1 [|pc2 pb]]; cbn [length] in Hlen; [discriminate| |lia]. cbn [lastp] in Elp. inversion Elp; subst pc1.
      rewrite total_cons in Hdv. change (total []) with 0 in Hdv.
      destruct (eval_poly_expr rho dv cfe cf HF Hntc) as (w & Ew & Hw). rewrite Ew in Hv. inversion Hv; subst w.
      rewrite Hw. apply peval_comp. rewrite Hdv. ring.
    + destruct (eval_poly_expr_const rho cfe cf HF Etd (fst pc)) as (w & Ew & Hw). rewrite Ew in Hv. inversion Hv; subst w. exact Hw.
  - rewrite G in Hx. cbn [option_map] in Hc. apply (HI rho pb c e x v Hwf Hg1 Eb Hc); [|exact Hv].
    rewrite p_end_lastp, Elp. exact Hx.
Qed.

Lemma fin_ArithL b op s : fin_ok b -> fin_ok (ArithL b op s).
Proof.
  intros HI rho pcs c e x v Hwf Hg1 Hd Hc Hx Hv. cbn [wf] in Hwf. apply andb_prop in Hwf as (_ & Hwf). apply andb_prop in Hwf as (Hwf & Hs).
  cbn [guard_C07_final_tail] in Hg1.
  cbn [denote] in Hd. destruct (denote b rho) as [pb|] eqn:Eb; [|discriminate].
  destruct (scalar_eval rho s (channels b)) as [sv|] eqn:Esv; [|discriminate]. apply opt_all_map_Forall2 in Hd.
  destruct (scalar_dict_keys s (channels b) (wf_nodup _ Hwf) Hs) as (S1 & S2).
  destruct (quant_keys b QFinal Hwf) as (K1 & K2).
  pose proof (scalar_eval_dget rho s (channels b) sv c Esv) as Gs.
  assert (Hq : quant QFinal (ArithL b op s) = apply_op_dict op (quant QFinal b) (scalar_as_dict s (channels b))) by reflexivity.
  rewrite Hq in Hc. clear Hq. rewrite dget_apply_op_dict in Hc by exact S1.
  destruct (dget c (quant QFinal b)) as [ea|] eqn:Eea.
  - destruct (arithL_plain rho op _ sv c ea e v Gs Hc Hv) as (va & a' & b' & Eva & Haff & Hvv).
    destruct (p_end_aff pb pcs c a' b' x (aff_pieces true op sv c a' b' pb pcs Hd Haff) Hx) as (X & EX & HX).
    rewrite Hvv, HX, (HI rho pb c ea X va Hwf Hg1 Eb Eea EX Eva). reflexivity.
  - exfalso. destruct (dget c (scalar_as_dict s (channels b))) as [es'|] eqn:Es'; [|discriminate].
    assert (Hm : dmem c (scalar_as_dict s (channels b)) = true) by (unfold dmem; rewrite Es'; reflexivity).
    pose proof (S2 c Hm) as Hmc. rewrite <- K2 in Hmc. unfold dmem in Hmc. rewrite Eea in Hmc. discriminate.
Qed.

Lemma fin_ArithR s op b : fin_ok b -> fin_ok (ArithR s op b).
Proof.
  intros HI rho pcs c e x v Hwf Hg1 Hd Hc Hx Hv. cbn [wf] in Hwf. apply andb_prop in Hwf as (_ & Hwf). apply andb_prop in Hwf as (Hwf & Hnd).
  apply andb_prop in Hwf as (Hwf & Hs). cbn [guard_C07_final_tail] in Hg1.
  cbn [denote] in Hd. destruct (denote b rho) as [pb|] eqn:Eb; [|discriminate].
  destruct (scalar_eval rho s (channels b)) as [sv|] eqn:Esv; [|discriminate]. apply opt_all_map_Forall2 in Hd.
  destruct (scalar_dict_keys s (channels b) (wf_nodup _ Hwf) Hs) as (S1 & S2).
  destruct (quant_keys b QFinal Hwf) as (K1 & K2).
  pose proof (scalar_eval_dget rho s (channels b) sv c Esv) as Gs.
  assert (Hq : quant QFinal (ArithR s op b) = apply_op_dict op (scalar_as_dict s (channels b)) (quant QFinal b)) by reflexivity.
  rewrite Hq in Hc. clear Hq. rewrite dget_apply_op_dict in Hc by exact K1.
  destruct (dget c (quant QFinal b)) as [ea|] eqn:Eea.
  - destruct (arithR_plain rho op _ sv c ea e v Hnd Gs Hc Hv) as (va & a' & b' & Eva & Haff & Hvv).
    destruct (p_end_aff pb pcs c a' b' x (aff_pieces false op sv c a' b' pb pcs Hd Haff) Hx) as (X & EX & HX).
    rewrite Hvv, HX, (HI rho pb c ea X va Hwf Hg1 Eb Eea EX Eva). reflexivity.
  - exfalso. destruct (dget c (scalar_as_dict s (channels b))) as [es'|] eqn:Es'; [|discriminate].
    assert (Hm : dmem c (scalar_as_dict s (channels b)) = true) by (unfold dmem; rewrite Es'; reflexivity).
    pose proof (S2 c Hm) as Hmc. rewrite <- K2 in Hmc. unfold dmem in Hmc. rewrite Eea in Hmc. discriminate.
Qed.

Theorem final_correct : forall p rho pcs c e x v,
  wf p = true -> guard_C07_final_tail p rho = true ->
  denote p rho = Some pcs -> dget c (quant QFinal p) = Some e -> p_end pcs c = Some x -> eval rho e = Some v -> v == x.
Proof.
  intros p. change (fin_ok p). induction p using pt_ind'.
  - apply fin_Table. - apply fin_Point. - apply fin_Const. - apply fin_Func.
  - apply fin_Seq; assumption. - apply fin_Rep; assumption. - apply fin_For; assumption. - apply fin_Map; assumption.
  - apply fin_Multi; assumption. - apply fin_Par; assumption. - apply fin_ArithL; assumption.
  - apply fin_ArithR; assumption. - apply fin_AAtom; assumption.
Qed.
Print Assumptions final_correct.
