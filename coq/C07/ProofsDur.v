(* C07 — proofs, part 10: the symbolic duration of a well-formed template, whenever it evaluates, is the total
   duration of the denoted pulse (all 13 classes); atomic templates denote at most one piece. *)
From Coq Require Import ZArith QArith Qround List Bool Lia Lra Lqa.
Require Import QV.C07.Model QV.C07.Spec QV.C07.Wf QV.C07.ProofsRange QV.C07.ProofsLoop QV.C07.ProofsAtoms
               QV.C07.ProofsExpr QV.C07.ProofsPt QV.C07.ProofsDict QV.C07.ProofsSum QV.C07.ProofsKeysD.
Import ListNotations.
Open Scope Q_scope.

Lemma total_app a b : total (a ++ b) == total a + total b.
Proof.
  induction a as [|pc a IH].
  - change (total ([] ++ b)) with (total b). change (total []) with 0. ring.
  - change (total ((pc :: a) ++ b)) with (fst pc + total (a ++ b)). change (total (pc :: a)) with (fst pc + total a).
    rewrite IH. ring.
Qed.
Lemma total_cons pc r : total (pc :: r) = fst pc + total r.
Proof. reflexivity. Qed.

(* ---- Qmax ---- *)
Lemma Qmax_cases a b : (a <= b /\ Qmax a b = b) \/ (b < a /\ Qmax a b = a).
Proof.
  unfold Qmax. destruct (Qle_bool a b) eqn:E.
  - left. split; [apply Qle_bool_iff; exact E|reflexivity].
  - right. split; [|reflexivity]. apply Qnot_le_lt. intros H. apply Qle_bool_iff in H. congruence.
Qed.
Lemma Qmax_assoc a b c : Qmax (Qmax a b) c == Qmax a (Qmax b c).
Proof.
  destruct (Qmax_cases a b) as [(H1 & ->)|(H1 & ->)]; destruct (Qmax_cases b c) as [(H2 & ->)|(H2 & ->)];
    try destruct (Qmax_cases a c) as [(H3 & ->)|(H3 & ->)]; try destruct (Qmax_cases a b) as [(H4 & ->)|(H4 & ->)]; lra.
Qed.
Lemma Qmax_ge_l a b : a <= Qmax a b.
Proof. destruct (Qmax_cases a b) as [(H & ->)|(H & ->)]; lra. Qed.
Lemma Qmax_0_r a : 0 <= a -> Qmax a 0 == a.
Proof. intros H. destruct (Qmax_cases a 0) as [(H1 & ->)|(H1 & ->)]; lra. Qed.

Lemma fold_left_Qmax_right qs : forall x, 0 <= x -> fold_left Qmax qs x == Qmax x (fold_right Qmax 0 qs).
Proof.
  induction qs as [|q r IH]; intros x Hx; cbn [fold_left fold_right].
  - symmetry. apply Qmax_0_r. exact Hx.
  - rewrite IH.
    + apply Qmax_assoc.
    + pose proof (Qmax_ge_l x q). lra.
Qed.

Lemma eval_emax_list rho ts : forall qs d x v,
  Forall2 (fun e q => eval rho e = Some q) ts qs -> eval rho d = Some x ->
  eval rho (emax_list d ts) = Some v -> v == fold_left Qmax qs x.
Proof.
  induction ts as [|t ts IH]; intros qs d x v HF Ed Ev.
  - inversion HF; subst. cbn [emax_list] in Ev. rewrite Ed in Ev. inversion Ev. reflexivity.
  - inversion HF as [|? q ? qs' Et HF']; subst. cbn [emax_list] in Ev. cbn [fold_left].
    eapply IH; [exact HF'| |exact Ev]. cbn [eval]. rewrite Ed, Et. reflexivity.
Qed.

(* ---- last entries ---- *)
Lemma last_cons {A} (x : A) l d : last (x :: l) d = last l x.
Proof. revert x d. induction l as [|y l IH]; intros x d; [reflexivity|]. change (last (x :: y :: l) d) with (last (y :: l) d). rewrite (IH y d), (IH y x). reflexivity. Qed.

Lemma Forall2_last {A B} (f : A -> option B) l r da db :
  Forall2 (fun a b => f a = Some b) l r -> l <> [] -> f (last l da) = Some (last r db).
Proof.
  intros H. induction H as [|a b l r Hab H IH]; intros Hne; [congruence|].
  rewrite !last_cons. destruct H as [|a2 b2 l r H2 H]; [exact Hab|].
  rewrite <- (last_cons a (a2 :: l) a), <- (last_cons b (b2 :: r) b). rewrite !last_cons.
  specialize (IH ltac:(discriminate)). rewrite !last_cons in IH.
  rewrite <- (last_cons a2 l da), <- (last_cons b2 r db). rewrite (last_cons a2 l da), (last_cons b2 r db). exact IH.
Qed.

Lemma last_tv_cons x l d : last_tv (x :: l) d = last_tv l (fst (fst x), snd (fst x)).
Proof.
  unfold last_tv. cbn [fst snd]. rewrite last_cons. destruct x as [[t v] ip]. cbn [fst snd].
  destruct l as [|y l]; [reflexivity|]. rewrite !last_cons. reflexivity.
Qed.

Lemma times_ok_last l : forall t v, times_ok t l = true -> t <= fst (last_tv l (t, v)).
Proof.
  induction l as [|[[t1 v1] ip1] l IH]; intros t v H.
  - cbn. lra.
  - cbn [times_ok] in H. apply andb_prop in H as (H1 & H2). apply Qle_bool_iff in H1.
    rewrite last_tv_cons. cbn [fst snd]. specialize (IH t1 v1 H2). lra.
Qed.

(* a channel for which table_chfun succeeded has a non-negative last time *)
Lemma table_chfun_last_nonneg D l f : table_chfun D l = Some f -> 0 <= fst (last_tv l (0, 0)).
Proof.
  intros H. destruct l as [|[[t0 v0] ip0] l']; [discriminate|]. unfold table_chfun in H. cbv iota beta in H.
  match type of H with (if ?b then _ else _) = _ => destruct b eqn:E end; [|discriminate H]. clear H.
  apply andb_prop in E as (E0 & E1). apply Qle_bool_iff in E0.
  cbn [times_ok] in E1. apply andb_prop in E1 as (_ & E1).
  rewrite last_tv_cons. cbn [fst snd]. pose proof (times_ok_last l' t0 v0 E1). lra.
Qed.

(* the symbolic last time of a channel evaluates to the last time of the evaluated entries *)
Lemma last_time_eval rho es l :
  opt_all (map (eval_entry rho) es) = Some l -> es <> [] ->
  eval rho (match last_or es (e0, e0, IHold) with (t, _, _) => t end) = Some (fst (last_tv l (0, 0))).
Proof.
  intros H Hne. apply opt_all_map_Forall2 in H.
  pose proof (Forall2_last _ _ _ (e0, e0, IHold) (0, 0, IHold) H Hne) as HL.
  unfold last_or, last_tv. cbn [fst snd]. revert HL. unfold tentry, nentry in *. destruct (last es (e0, e0, IHold)) as [[te ve] ipe].
  unfold eval_entry. destruct (eval rho te) as [a|]; [|cbv iota; discriminate]. destruct (eval rho ve) as [b|]; [|cbv iota; discriminate].
  destruct (last l (0, 0, IHold)) as [[tn vn] ipn]. intros HL. inversion HL. reflexivity.
Qed.

(* ---- repetition ---- *)
Lemma total_repeat m pcs : total (repeat_pulse m pcs) == inject_Z (Z.of_nat m) * total pcs.
Proof.
  induction m as [|m IH]; cbn [repeat_pulse].
  - cbn. ring.
  - rewrite total_app, IH, Nat2Z.inj_succ. unfold Z.succ. rewrite inject_Z_plus. ring.
Qed.

Lemma total_map_fst (g : piece -> piece) pcs : (forall pc, fst (g pc) = fst pc) -> total (map g pcs) = total pcs.
Proof. intros H. induction pcs as [|pc r IH]; [reflexivity|]. cbn [map]. rewrite !total_cons, H, IH. reflexivity. Qed.

Lemma total_Forall2 (R : piece -> piece -> Prop) a b : Forall2 R a b -> (forall x y, R x y -> fst y = fst x) -> total b = total a.
Proof. intros H HR. induction H as [|x y a b Hxy H IH]; [reflexivity|]. rewrite !total_cons, IH, (HR _ _ Hxy). reflexivity. Qed.

Lemma piece_aff_fst left op sv pc pc' : piece_aff left op sv pc = Some pc' -> fst pc' = fst pc.
Proof. unfold piece_aff. destruct (opt_all _); [|discriminate]. intros H. inversion H. reflexivity. Qed.

(* ---- AtomicMultiChannelPT: one piece with the duration of the first sub-template ---- *)
Lemma den_multi_first rho q r pcs : den_multi rho (q :: r) = Some pcs ->
  exists pc d, denote q rho = Some [pc] /\ pcs = [(fst pc, d)].
Proof.
  destruct r as [|q' r].
  - rewrite den_multi_one. destruct (denote q rho) as [[|pc [|? ?]]|]; try discriminate. intros H; inversion H; subst.
    exists pc, (snd pc). split; [reflexivity|]. destruct pc; reflexivity.
  - rewrite den_multi_cons. destruct (denote q rho) as [[|pc [|? ?]]|]; try discriminate.
    destruct (den_multi rho (q' :: r)) as [[|pc' [|? ?]]|]; try discriminate.
    destruct (Qeq_bool (fst pc) (fst pc')); [|discriminate]. intros H; inversion H; subst. eauto.
Qed.

Lemma F2_len {A B} (R : A -> B -> Prop) a b : Forall2 R a b -> length a = length b.
Proof. induction 1; cbn; congruence. Qed.

Lemma atomic_pieces : forall p rho pcs, atomic p = true -> denote p rho = Some pcs -> (length pcs <= 1)%nat.
Proof.
  induction p using pt_ind'; intros rho pcs Ha Hd; cbn [atomic] in Ha; try discriminate.
  - cbn [denote] in Hd. destruct (opt_all _) as [nchs|]; [|discriminate]. cbv zeta in Hd.
    destruct (opt_all _) as [fs|]; [|discriminate]. destruct (Qle_bool _ 0); inversion Hd; cbn; lia.
  - rewrite denote_Point in Hd. destruct (point_entries rho ents 0); [|discriminate]. cbv zeta in Hd.
    destruct (opt_all _); [|discriminate]. destruct (Qle_bool _ 0); inversion Hd; cbn; lia.
  - cbn [denote] in Hd. destruct (eval rho d) as [dd|]; [|discriminate]. destruct (Qle_bool dd 0).
    + destruct (Qle_bool 0 dd); inversion Hd; cbn; lia.
    + destruct (opt_all _); inversion Hd; cbn; lia.
  - cbn [denote] in Hd. destruct (eval rho d) as [dd|]; [|discriminate]. destruct (opt_all _); [|discriminate].
    destruct (Qle_bool dd 0); inversion Hd; cbn; lia.
  - rewrite denote_Map in Hd. destruct (denote p (map_env rho pm)) as [b|] eqn:E; [|discriminate]. inversion Hd.
    rewrite map_length. eapply IHp; eassumption.
  - rewrite denote_Multi in Hd. destruct ps as [|q r]; [discriminate|].
    destruct (den_multi_first _ _ _ _ Hd) as (pc & d & _ & ->). cbn; lia.
  - cbn [denote] in Hd. destruct (denote p rho) as [b|] eqn:E; [|discriminate]. destruct (opt_all _); [|discriminate].
    inversion Hd. rewrite map_length. eapply IHp; eassumption.
  - cbn [denote] in Hd. destruct (denote p rho) as [b|] eqn:E; [|discriminate]. destruct (scalar_eval _ _ _); [|discriminate].
    apply opt_all_map_Forall2 in Hd. rewrite <- (F2_len _ _ _ Hd). eapply IHp; eassumption.
  - cbn [denote] in Hd. destruct (denote p rho) as [b|] eqn:E; [|discriminate]. destruct (scalar_eval _ _ _); [|discriminate].
    apply opt_all_map_Forall2 in Hd. rewrite <- (F2_len _ _ _ Hd). eapply IHp; eassumption.
  - cbn [denote] in Hd. destruct (denote p1 rho) as [[|pl [|? ?]]|]; try discriminate.
    destruct (denote p2 rho) as [[|pr [|? ?]]|]; try discriminate. destruct (merge_atomic op pl pr); inversion Hd; cbn; lia.
Qed.

(* ---- TablePT ---- *)
Lemma Qmax_ge_r a b : b <= Qmax a b.
Proof. destruct (Qmax_cases a b) as [(H & ->)|(H & ->)]; lra. Qed.
Lemma qmax_list_nonneg l : 0 <= qmax_list l.
Proof. unfold qmax_list. induction l as [|x l IH]; cbn [fold_right]; [lra|]. pose proof (Qmax_ge_r x (fold_right Qmax 0 l)). lra. Qed.

Lemma Forall2_map2 {A B C D} (R : C -> D -> Prop) (f : A -> C) (g : B -> D) a b :
  Forall2 (fun x y => R (f x) (g y)) a b -> Forall2 R (map f a) (map g b).
Proof. induction 1; cbn [map]; constructor; assumption. Qed.

Lemma table_duration rho chs nchs fs v :
  opt_all (map (fun ch => option_map (fun l => (fst ch, l)) (opt_all (map (eval_entry rho) (snd ch)))) chs) = Some nchs ->
  opt_all (map (fun ch => option_map (fun f => (fst ch, f))
                            (table_chfun (qmax_list (map (fun ch => fst (last_tv (snd ch) (0, 0))) nchs)) (snd ch))) nchs) = Some fs ->
  forallb (fun ch : chan * list tentry => match snd ch with [] => false | _ => true end) chs = true ->
  eval rho (duration_expr (Table chs)) = Some v ->
  v == qmax_list (map (fun ch => fst (last_tv (snd ch) (0, 0))) nchs).
Proof.
  intros E1 E2 Hne Hv. set (D := qmax_list _) in *.
  apply opt_all_map_Forall2 in E1. apply opt_all_map_Forall2 in E2.
  assert (HT : Forall2 (fun e q => eval rho e = Some q)
                 (map (fun ch : chan * list tentry => match last_or (snd ch) (e0, e0, IHold) with (t, _, _) => t end) chs)
                 (map (fun ch : chan * list nentry => fst (last_tv (snd ch) (0, 0))) nchs)).
  { apply Forall2_map2. clear - E1 Hne. induction E1 as [|ch nch chs nchs H E1 IH]; [constructor|].
    cbn [forallb] in Hne. apply andb_prop in Hne as (Hn1 & Hn2). constructor; [|apply IH; exact Hn2].
    destruct (opt_all (map (eval_entry rho) (snd ch))) as [l|] eqn:El; [|discriminate]. inversion H; subst. cbn [snd].
    apply last_time_eval; [exact El|]. destruct (snd ch); [discriminate|discriminate]. }
  assert (HN : Forall (fun q => 0 <= q) (map (fun ch : chan * list nentry => fst (last_tv (snd ch) (0, 0))) nchs)).
  { clear - E2. generalize dependent D. intros D E2. induction E2 as [|nch f' nchs fs H E2 IH]; [constructor|].
    cbn [map]. constructor; [|exact IH]. destruct (table_chfun D (snd nch)) as [f|] eqn:Ef; [|discriminate].
    eapply table_chfun_last_nonneg. exact Ef. }
  cbn [duration_expr] in Hv. unfold D. clear D E2.
  destruct chs as [|ch1 chs'].
  - inversion E1; subst. cbn in Hv. inversion Hv. reflexivity.
  - inversion E1 as [|? n1 ? ns]; subst. cbn [map] in HT, HN, Hv |- *.
    inversion HT as [|e1 x ts1 qs Ht HT']; subst. inversion HN as [|? ? Hx HN']; subst.
    rewrite (eval_emax_list rho _ _ _ _ v HT' Ht Hv). unfold qmax_list. cbn [fold_right].
    apply fold_left_Qmax_right. exact Hx.
Qed.

Lemma eval_EAdd rho a b v : eval rho (EAdd a b) = Some v -> exists x y, eval rho a = Some x /\ eval rho b = Some y /\ v = x + y.
Proof. cbn [eval]. destruct (eval rho a), (eval rho b); cbn [omap2]; intros H; inversion H; eauto. Qed.
Lemma eval_EMul rho a b v : eval rho (EMul a b) = Some v -> exists x y, eval rho a = Some x /\ eval rho b = Some y /\ v = x * y.
Proof. cbn [eval]. destruct (eval rho a), (eval rho b); cbn [omap2]; intros H; inversion H; eauto. Qed.
Lemma eval_ESub rho a b v : eval rho (ESub a b) = Some v -> exists x y, eval rho a = Some x /\ eval rho b = Some y /\ v = x - y.
Proof. cbn [eval]. destruct (eval rho a), (eval rho b); cbn [omap2]; intros H; inversion H; eauto. Qed.
Lemma eval_EMax rho a b v : eval rho (EMax a b) = Some v -> exists x y, eval rho a = Some x /\ eval rho b = Some y /\ v = Qmax x y.
Proof. cbn [eval]. destruct (eval rho a), (eval rho b); cbn [omap2]; intros H; inversion H; eauto. Qed.

Theorem duration_correct : forall p rho pcs v, wf p = true -> denote p rho = Some pcs ->
  eval rho (duration_expr p) = Some v -> v == total pcs.
Proof.
  induction p using pt_ind'; intros rho pcs v Hwf Hd Hv.
  - (* Table *) cbn [wf] in Hwf. apply andb_prop in Hwf as (_ & Hne). cbn [denote] in Hd.
    destruct (opt_all (map (fun ch => option_map (fun l => (fst ch, l)) (opt_all (map (eval_entry rho) (snd ch)))) chs)) as [nchs|] eqn:E1; [|discriminate].
    cbv zeta in Hd.
    destruct (opt_all (map (fun ch => option_map (fun f => (fst ch, f)) (table_chfun _ (snd ch))) nchs)) as [fs|] eqn:E2; [|discriminate].
    pose proof (table_duration rho chs nchs fs v E1 E2 Hne Hv) as HD.
    pose proof (qmax_list_nonneg (map (fun ch : chan * list nentry => fst (last_tv (snd ch) (0, 0))) nchs)) as H0.
    destruct (Qle_bool _ 0) eqn:EQ; inversion Hd; subst.
    + apply Qle_bool_iff in EQ. change (total []) with 0. lra.
    + rewrite total_cons. change (total []) with 0. cbn [fst]. rewrite HD. ring.
  - (* Point *) cbn [wf] in Hwf. apply andb_prop in Hwf as (_ & Hwf).
    destruct ents as [|en0 ents']; [discriminate|]. destruct cs as [|c0 cs']; [discriminate|].
    rewrite denote_Point in Hd. destruct (point_entries rho (en0 :: ents') 0) as [l0|] eqn:E0; [|discriminate]. cbv zeta in Hd.
    rewrite den_point_go_cons in Hd. rewrite E0 in Hd. cbn [opt_all] in Hd.
    destruct (table_chfun (fst (last_tv l0 (0, 0))) l0) as [f0|] eqn:Ef; [|discriminate]. cbn [option_map] in Hd.
    destruct (opt_all (den_point_go rho (en0 :: ents') _ 1 cs')) as [fs|]; [|discriminate]. cbn [option_map] in Hd.
    pose proof (table_chfun_last_nonneg _ _ _ Ef) as H0.
    assert (HD : eval rho (duration_expr (Point (c0 :: cs') (en0 :: ents'))) = Some (fst (last_tv l0 (0, 0)))).
    { cbn [duration_expr]. unfold point_entries in E0. apply opt_all_map_Forall2 in E0.
      pose proof (Forall2_last _ _ _ (e0, PScalar e0, IHold) (0, 0, IHold) E0 ltac:(discriminate)) as HL.
      unfold last_or, last_tv. cbn [fst snd]. revert HL. unfold pentry, nentry in *.
      destruct (last (en0 :: ents') (e0, PScalar e0, IHold)) as [[te ve] ipe]. unfold eval_entry.
      destruct (eval rho te) as [a|]; [|cbv iota; discriminate]. destruct (eval rho (pval_at 0 ve)) as [b|]; [|cbv iota; discriminate].
      destruct (last l0 (0, 0, IHold)) as [[tn vn] ipn]. intros HL. inversion HL. reflexivity. }
    rewrite HD in Hv. inversion Hv; subst v.
    destruct (Qle_bool _ 0) eqn:EQ; inversion Hd; subst.
    + apply Qle_bool_iff in EQ. change (total []) with 0. lra.
    + rewrite total_cons. change (total []) with 0. cbn [fst]. ring.
  - (* Const *) cbn [denote duration_expr] in *. rewrite Hv in Hd. destruct (Qle_bool v 0) eqn:E1.
    + destruct (Qle_bool 0 v) eqn:E2; inversion Hd; subst. apply Qle_bool_iff in E1, E2. change (total []) with 0. lra.
    + destruct (opt_all _); inversion Hd; subst. rewrite total_cons. change (total []) with 0. cbn [fst]. ring.
  - (* Func *) cbn [denote duration_expr] in *. rewrite Hv in Hd. destruct (opt_all _); [|discriminate].
    destruct (Qle_bool v 0); inversion Hd; subst. rewrite total_cons. change (total []) with 0. cbn [fst]. ring.
  - (* Seq *) destruct ps as [|q0 r]; [inversion Hd; inversion Hv; reflexivity|].
    rewrite wf_Seq in Hwf. apply andb_prop in Hwf as (_ & Hwf). pose proof (wf_seq_Forall _ _ Hwf) as HF.
    rewrite denote_Seq in Hd. rewrite duration_Seq in Hv. clear Hwf.
    revert pcs v Hd Hv H HF. generalize (q0 :: r) as l. induction l as [|s l IH]; intros pcs v Hd Hv H HF.
    + inversion Hd. inversion Hv. reflexivity.
    + rewrite den_seq_cons in Hd. destruct (denote s rho) as [a|] eqn:Ea; [|discriminate].
      destruct (den_seq rho l) as [b|] eqn:Eb; [|discriminate]. inversion Hd; subst.
      rewrite dur_seq_cons in Hv. apply eval_EAdd in Hv as (x & y & Ex & Ey & ->).
      inversion H as [|? ? Hs H']; subst. inversion HF as [|? ? (Hw & _) HF']; subst.
      rewrite total_app, (Hs rho a x Hw Ea Ex), (IH b y eq_refl Ey H' HF'). reflexivity.
  - (* Rep *) cbn [wf] in Hwf. apply andb_prop in Hwf as (_ & Hwf). cbn [denote duration_expr] in *.
    apply eval_EMul in Hv as (qn & vb & En & Eb & ->).
    destruct (as_int (eval rho n)) as [k|] eqn:Ek; [|discriminate].
    destruct (as_int_val _ _ _ Ek) as (qn' & En' & Hk). rewrite En in En'. inversion En'; subst qn'.
    destruct (k =? 0)%Z eqn:E0.
    + apply Z.eqb_eq in E0. subst k. inversion Hd; subst. change (total []) with 0. rewrite Hk. ring.
    + destruct (denote p rho) as [b|] eqn:Ed; [|discriminate].
      destruct ((k <? 0)%Z || (RANGE_LIMIT <? k)%Z) eqn:El; [discriminate|]. inversion Hd; subst.
      rewrite total_repeat, (IHp rho b vb Hwf Ed Eb), Hk. rewrite Z2Nat.id by lia. reflexivity.
  - (* For *) cbn [wf] in Hwf. apply andb_prop in Hwf as (_ & Hwf).
    rewrite denote_For in Hd. destruct (as_int (eval rho a)) as [za|] eqn:Ea; [|discriminate].
    destruct (as_int (eval rho o)) as [zo|] eqn:Eo; [|discriminate]. destruct (as_int (eval rho s)) as [zs|] eqn:Es; [|discriminate].
    destruct (py_range za zo zs) as [ks|] eqn:Er; [|discriminate].
    cbn [duration_expr] in Hv.
    destruct (for_closed_form rho i a o s (duration_expr p) za zo zs ks v Ea Eo Es Er Hv) as (w & Ew & Hw).
    rewrite Hw. clear Hw Hv Er. revert pcs w Hd Ew. induction ks as [|k ks IH]; intros pcs w Hd Ew.
    + inversion Hd. inversion Ew. reflexivity.
    + rewrite den_for_cons in Hd. destruct (denote p (env_upd rho i (Some (inject_Z k)))) as [x|] eqn:Ex; [|discriminate].
      destruct (den_for p i rho ks) as [y|] eqn:Ey; [|discriminate]. inversion Hd; subst.
      rewrite sum_list_cons in Ew. destruct (eval (env_upd rho i (Some (inject_Z k))) (duration_expr p)) as [vk|] eqn:Evk; [|discriminate].
      destruct (sum_list _ ks) as [wr|] eqn:Ewr; [|discriminate]. cbn [omap2] in Ew. inversion Ew; subst.
      rewrite total_app, (IHp _ _ _ Hwf Ex Evk), (IH y wr eq_refl eq_refl). reflexivity.
  - (* Map *) cbn [wf] in Hwf. apply andb_prop in Hwf as (_ & Hwf). rewrite denote_Map in Hd.
    destruct (denote p (map_env rho pm)) as [b|] eqn:Eb; [|discriminate]. inversion Hd; subst.
    cbn [duration_expr] in Hv. rewrite eval_ELet, <- map_env_let_env in Hv.
    rewrite (total_map_fst (rename_piece cm)) by reflexivity. eapply IHp; eassumption.
  - (* Multi *) rewrite wf_Multi in Hwf. apply andb_prop in Hwf as (_ & Hwf). pose proof (wf_multi_Forall _ Hwf) as HF.
    rewrite denote_Multi in Hd. destruct ps as [|q r]; [discriminate|].
    destruct (den_multi_first _ _ _ _ Hd) as (pc & d & Eq & ->). cbn [duration_expr] in Hv.
    inversion H as [|? ? Hq _]; subst. inversion HF as [|? ? Hw _]; subst.
    rewrite (Hq rho [pc] v Hw Eq Hv). rewrite !total_cons. reflexivity.
  - (* Par *) cbn [wf] in Hwf. apply andb_prop in Hwf as (_ & Hwf). apply andb_prop in Hwf as (Hwf & _).
    apply andb_prop in Hwf as (Hwf & _). apply andb_prop in Hwf as (Hwf & _).
    cbn [denote duration_expr] in *. destruct (denote p rho) as [b|] eqn:Eb; [|discriminate].
    destruct (opt_all _); [|discriminate]. inversion Hd; subst.
    rewrite total_map_fst by reflexivity. eapply IHp; eassumption.
  - (* ArithL *) cbn [wf] in Hwf. apply andb_prop in Hwf as (_ & Hwf). apply andb_prop in Hwf as (Hwf & _).
    cbn [denote duration_expr] in *. destruct (denote p rho) as [b|] eqn:Eb; [|discriminate].
    destruct (scalar_eval _ _ _) as [sv|]; [|discriminate]. apply opt_all_map_Forall2 in Hd.
    rewrite (total_Forall2 _ _ _ Hd) by (intros x y Hxy; eapply piece_aff_fst; exact Hxy). eapply IHp; eassumption.
  - (* ArithR *) cbn [wf] in Hwf. apply andb_prop in Hwf as (_ & Hwf). apply andb_prop in Hwf as (Hwf & _). apply andb_prop in Hwf as (Hwf & _).
    cbn [denote duration_expr] in *. destruct (denote p rho) as [b|] eqn:Eb; [|discriminate].
    destruct (scalar_eval _ _ _) as [sv|]; [|discriminate]. apply opt_all_map_Forall2 in Hd.
    rewrite (total_Forall2 _ _ _ Hd) by (intros x y Hxy; eapply piece_aff_fst; exact Hxy). eapply IHp; eassumption.
  - (* AAtom *) cbn [wf] in Hwf. apply andb_prop in Hwf as (_ & Hwf). apply andb_prop in Hwf as (Hw1 & Hw2).
    cbn [denote duration_expr] in *. destruct (denote p1 rho) as [[|pl [|? ?]]|] eqn:E1; try discriminate.
    destruct (denote p2 rho) as [[|pr [|? ?]]|] eqn:E2; try discriminate.
    apply eval_EMax in Hv as (x & y & Ex & Ey & ->).
    pose proof (IHp1 _ _ _ Hw1 E1 Ex) as H1. pose proof (IHp2 _ _ _ Hw2 E2 Ey) as H2.
    rewrite !total_cons in H1, H2. change (total []) with 0 in H1, H2.
    unfold merge_atomic in Hd. destruct (Qeq_bool (fst pl) (fst pr)) eqn:EQ; [|discriminate]. apply Qeq_bool_iff in EQ.
    assert (Hp : exists d, pcs = [(fst pl, d)]) by (destruct op; try discriminate; inversion Hd; eauto).
    destruct Hp as (d & ->). rewrite total_cons. change (total []) with 0. cbn [fst].
    destruct (Qmax_cases x y) as [(Hc & ->)|(Hc & ->)]; lra.
Qed.
