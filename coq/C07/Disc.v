(* C07 — the dictionary-object discipline of Hist.hquery as a TABLE (class x quantity -> new / handed through / rewritten in
   place), to be compared with the table that harness/props/c07_disc.py reads off the Python source (GenDisc.v, generated
   on every run).  Definitions only. *)
From Coq Require Import List Bool.
Require Import QV.C07.Model.
Import ListNotations.

Inductive cls := KTable | KPoint | KConst | KFunc | KSeq | KRep | KFor | KMap | KMulti | KPar | KArith | KAAtom.
Inductive disc :=
| DNew          (* the returned dictionary is created by this call *)
| DThrough      (* the object a sub-template's property returned, untouched *)
| DInPlace.     (* the object a sub-template's property returned, entries overwritten *)

Definition cls_of (p : pt) : cls :=
  match p with
  | Table _ => KTable | Point _ _ => KPoint | Const _ _ => KConst | Func _ _ _ => KFunc
  | Seq _ => KSeq | Rep _ _ => KRep | For _ _ _ _ _ => KFor | Map _ _ _ => KMap | Multi _ => KMulti | Par _ _ => KPar
  | ArithL _ _ _ => KArith | ArithR _ _ _ => KArith | AAtom _ _ _ => KAAtom
  end.

Definition children (p : pt) : list pt :=
  match p with
  | Table _ | Point _ _ | Const _ _ | Func _ _ _ => []
  | Seq ps | Multi ps => ps
  | Rep _ b | For _ _ _ _ b | Map b _ _ | Par b _ | ArithL b _ _ | ArithR _ _ b => [b]
  | AAtom l _ r => [l; r]
  end.

(* what Hist.hquery does (ProofsDisc.hquery_discipline proves it) *)
Definition hist_disc (k : cls) (q : quantity) : disc :=
  match k, q with
  | (KSeq | KRep), (QInitial | QFinal) => DThrough
  | KFor, (QInitial | QFinal) => DInPlace
  | KPar, _ => DInPlace
  | _, _ => DNew
  end.

(* the source may create a new dictionary where the model shares one (less aliasing than proved safe), never the
   other way round *)
Definition disc_le (src model : disc) : bool :=
  match src, model with
  | DNew, _ => true
  | DThrough, DThrough => true
  | DInPlace, DInPlace => true
  | _, _ => false
  end.

Definition all_cls : list cls := [KTable; KPoint; KConst; KFunc; KSeq; KRep; KFor; KMap; KMulti; KPar; KArith; KAAtom].
Definition all_quant : list quantity := [QIntegral; QInitial; QFinal].
Definition table_le (src model : cls -> quantity -> disc) : bool :=
  forallb (fun k => forallb (fun q => disc_le (src k q) (model k q)) all_quant) all_cls.
