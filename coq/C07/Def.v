(* C07 — the executable guard of the DEFINEDNESS theorem (round 3).  Definitions only.

   `create_program` is lazy in three places: the values of a ConstantPT of duration 0, the body of a RepetitionPT with
   count 0 and the body of a ForLoopPT over an empty range are never looked at, while `integral` / `initial_values` /
   `final_values` / `duration` mention them (d * value, n * body, body[i := start]).  So "the template is instantiable at
   rho" does not imply "the symbolic value evaluates at rho" (Props.C07_integral_statement_refuted).  The guard says that
   the parts the program never instantiates would be instantiable too, and that no scalar divisor is 0 (for an EMPTY pulse
   the program never divides).  ConstantPT with a negative duration / a negative repetition count (finding
   negative-duration-empty) need no clause: such templates denote nothing (Spec.denote = None). *)
From Coq Require Import ZArith QArith Qround List Bool.
Require Import QV.C07.Model QV.C07.Spec QV.C07.Wf.
Import ListNotations.
Open Scope Q_scope.

Definition isSome {A} (o : option A) : bool := match o with Some _ => true | None => false end.

Definition nonzero_vals (rho : env) (d : dict) : bool :=
  forallb (fun kv => match eval rho (snd kv) with Some x => negb (Qeq_bool x 0) | None => false end) d.

Fixpoint guard_C07_defined (p : pt) (rho : env) {struct p} : bool :=
  match p with
  | Table _ | Point _ _ | Func _ _ _ => true
  | Const _ vals => forallb (fun kv => isSome (eval rho (snd kv))) vals
  | Seq ps => (fix go (l : list pt) : bool := match l with [] => true | q :: r => guard_C07_defined q rho && go r end) ps
  | Rep _ b => isSome (denote b rho) && guard_C07_defined b rho
  | For i start stop step b =>
      match for_range rho start stop step with
      | Some [] => let rho' := env_upd rho i (eval rho start) in
                   isSome (denote b rho') && guard_C07_defined b rho'
      | Some ks => forallb (fun k => guard_C07_defined b (env_upd rho i (Some (inject_Z k)))) ks
      | None => true
      end
  | Map b pm _ => guard_C07_defined b (map_env rho pm)
  | Multi ps => (fix go (l : list pt) : bool := match l with [] => true | q :: r => guard_C07_defined q rho && go r end) ps
  | Par b _ => guard_C07_defined b rho
  | ArithL b op s => guard_C07_defined b rho
                     && match op with ODiv => nonzero_vals rho (scalar_as_dict s (channels b)) | _ => true end
  | ArithR _ _ b => guard_C07_defined b rho
  | AAtom l _ r => guard_C07_defined l rho && guard_C07_defined r rho
  end.
