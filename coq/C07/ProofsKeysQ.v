(* C07 — proofs, part 8: the symbolic dictionaries of a well-formed template have duplicate-free keys and exactly the
   template's channels as key set (all three quantities). *)
From Coq Require Import ZArith QArith Qround List Bool Lia.
Require Import QV.C07.Model QV.C07.Spec QV.C07.Wf QV.C07.ProofsPt QV.C07.ProofsDict.
Import ListNotations.

Lemma keys_ok_of_keys {A} (d : list (chan * A)) cs : nodupb cs = true -> dkeys d = cs -> keys_ok d cs.
Proof. intros H E. split; [rewrite E; exact H|intros c; rewrite dmem_memb, E; reflexivity]. Qed.

Lemma keys_ok_dmap {A B} (f : A -> B) d cs : keys_ok d cs -> keys_ok (dmap f d) cs.
Proof.
  intros (H1 & H2). split; [rewrite dkeys_dmap; exact H1|]. intros c. rewrite <- H2. unfold dmem. rewrite dget_dmap.
  destruct (dget c d); reflexivity.
Qed.

Lemma keys_ok_ext {A} (d : list (chan * A)) cs cs' : (forall c, memb c cs = memb c cs') -> keys_ok d cs -> keys_ok d cs'.
Proof. intros H (H1 & H2). split; [exact H1|intros c; rewrite H2; apply H]. Qed.

Lemma existsb_members {A} (f : A -> bool) l1 l2 : (forall x, In x l1 <-> In x l2) -> existsb f l1 = existsb f l2.
Proof.
  intros H. destruct (existsb f l1) eqn:E1, (existsb f l2) eqn:E2; try reflexivity.
  - apply existsb_exists in E1 as (x & Hx & Hf). assert (existsb f l2 = true) by (apply existsb_exists; exists x; split; [apply H; exact Hx|exact Hf]). congruence.
  - apply existsb_exists in E2 as (x & Hx & Hf). assert (existsb f l1 = true) by (apply existsb_exists; exists x; split; [apply H; exact Hx|exact Hf]). congruence.
Qed.

Lemma keys_ok_In {A} (d : list (chan * A)) cs : keys_ok d cs -> forall c, In c (dkeys d) <-> In c cs.
Proof. intros (_ & H) c. rewrite <- !memb_In, <- dmem_memb. rewrite H. reflexivity. Qed.

Lemma dkeys_map_fst {A B} (g : chan * A -> B) (d : list (chan * A)) : dkeys (map (fun kv => (fst kv, g kv)) d) = dkeys d.
Proof. unfold dkeys. rewrite map_map. reflexivity. Qed.

Lemma int_seq_keys l : forall acc, dkeys (int_seq acc l) = dkeys acc.
Proof.
  induction l as [|s r IH]; intros acc; [reflexivity|]. rewrite int_seq_cons, IH. apply dkeys_map_fst.
Qed.

Lemma point_q_keys q ents v0 cs : forall k, dkeys (point_q q ents v0 k cs) = cs.
Proof. induction cs as [|c r IH]; intros k; [reflexivity|]. cbn [point_q dkeys map fst]. f_equal. apply IH. Qed.

Lemma multi_q_keys q ps : forall acc, nodupb (dkeys acc) = true ->
  Forall (fun p => forall q, keys_ok (quant q p) (channels p)) ps ->
  nodupb (dkeys (multi_q q acc ps)) = true /\
  forall c, dmem c (multi_q q acc ps) = dmem c acc || memb c (flat_map channels ps).
Proof.
  induction ps as [|s r IH]; intros acc Hacc HF.
  - split; [exact Hacc|]. intros c. cbn. rewrite orb_false_r. reflexivity.
  - inversion HF as [|? ? Hs HF']; subst. rewrite multi_q_cons.
    destruct (IH (dupdate acc (quant q s)) (nodupb_dupdate _ _ Hacc) HF') as (H1 & H2). split; [exact H1|].
    intros c. rewrite H2, dmem_dupdate. cbn [flat_map]. rewrite memb_app. destruct (Hs q) as (_ & Hk). rewrite Hk.
    rewrite orb_assoc. reflexivity.
Qed.

Lemma scalar_dict_keys s cs : nodupb cs = true -> scalar_ok s cs = true ->
  nodupb (dkeys (scalar_as_dict s cs)) = true /\ forall c, dmem c (scalar_as_dict s cs) = true -> memb c cs = true.
Proof.
  intros Hcs Hs. destruct s as [e|m]; cbn [scalar_as_dict scalar_ok] in *.
  - rewrite (dkeys_map_key (fun _ => e)). split; [exact Hcs|]. intros c. rewrite dmem_memb, (dkeys_map_key (fun _ => e)). auto.
  - apply andb_prop in Hs as (H1 & H2). split; [exact H1|]. intros c Hc. rewrite dmem_memb in Hc. apply memb_In in Hc.
    rewrite forallb_forall in H2. apply H2. exact Hc.
Qed.

Lemma par_keys {A} (d : list (chan * A)) (u : list (chan * A)) cs (ov : list (chan * list expr)) :
  keys_ok d cs -> dkeys u = dkeys ov ->
  keys_ok (dupdate d u) (dkeys (dupdate (map (fun c => (c, tt)) cs) (map (fun kv => (fst kv, tt)) ov))).
Proof.
  intros (H1 & H2) Hu. split; [apply nodupb_dupdate; exact H1|]. intros c.
  rewrite <- dmem_memb, !dmem_dupdate, H2. rewrite (dmem_memb c (map (fun c0 => (c0, tt)) cs)), (dkeys_map_key (fun _ => tt)).
  f_equal. rewrite !dmem_memb, Hu. f_equal. unfold dkeys. rewrite map_map. reflexivity.
Qed.

Theorem quant_keys : forall p q, wf p = true -> keys_ok (quant q p) (channels p).
Proof.
  induction p using pt_ind'; intros q Hwf; pose proof (wf_nodup _ Hwf) as Hnd.
  - (* Table *) apply keys_ok_of_keys; [exact Hnd|]. cbn [quant channels]. unfold dkeys. rewrite map_map. apply map_ext.
    intros [c es]. cbn [fst snd]. destruct es as [|[[t0 v0] ip0] es']; [reflexivity|]. destruct q; reflexivity.
  - (* Point *) cbn [wf] in Hwf. apply andb_prop in Hwf as (_ & Hwf). destruct ents as [|[[t0 v0] ip0] ents']; [discriminate|].
    apply keys_ok_of_keys; [exact Hnd|]. rewrite quant_Point. apply point_q_keys.
  - (* Const *) apply keys_ok_of_keys; [exact Hnd|]. destruct q; cbn [quant channels]; [apply dkeys_dmap|reflexivity..].
  - (* Func *) apply keys_ok_of_keys; [exact Hnd|]. destruct q; reflexivity.
  - (* Seq *) destruct ps as [|q0 r].
    + destruct q; split; reflexivity.
    + rewrite wf_Seq in Hwf. apply andb_prop in Hwf as (_ & Hwf). pose proof (wf_seq_Forall _ _ Hwf) as HF.
      destruct q.
      * apply keys_ok_of_keys; [exact Hnd|]. rewrite quant_int_Seq, int_seq_keys. apply (dkeys_map_key (fun _ => e0)).
      * inversion H as [|? ? H0 _]; subst. inversion HF as [|? ? (Hw0 & _) _]; subst. exact (H0 QInitial Hw0).
      * rewrite quant_fin_Seq. change (channels (Seq (q0 :: r))) with (channels q0).
        assert (Hgen : forall l s,
                   Forall (fun p => forall q, wf p = true -> keys_ok (quant q p) (channels p)) (s :: l) ->
                   Forall (fun q => wf q = true /\ same_chans (channels q) (channels q0) = true) (s :: l) ->
                   keys_ok (fin_seq (s :: l)) (channels q0)).
        { induction l as [|s' l IH]; intros s Hs HFs.
          - rewrite fin_seq_one. inversion Hs as [|? ? Hs1 _]; subst. inversion HFs as [|? ? (Hw & Hsame) _]; subst.
            eapply keys_ok_ext; [apply same_chans_memb; exact Hsame|]. exact (Hs1 QFinal Hw).
          - rewrite fin_seq_cons. inversion Hs; subst. inversion HFs; subst. apply IH; assumption. }
        apply Hgen; assumption.
  - (* Rep *) cbn [wf] in Hwf. apply andb_prop in Hwf as (_ & Hwf). destruct q; cbn [quant channels]; try apply keys_ok_dmap; apply IHp; exact Hwf.
  - (* For *) cbn [wf] in Hwf. apply andb_prop in Hwf as (_ & Hwf).
    destruct q; cbn [quant]; apply keys_ok_dmap; apply IHp; exact Hwf.
  - (* Map *) cbn [wf] in Hwf. apply andb_prop in Hwf as (_ & Hwf). specialize (IHp q Hwf).
    assert (Hq : quant q (Map p pm cm) = map_dict pm cm (quant q p)) by (destruct q; reflexivity). rewrite Hq, map_dict_rename.
    split; [apply rename_fold_nodup; reflexivity|]. intros c. rewrite rename_fold_dmem, dmem_nil. cbn [orb].
    rewrite channels_Map, memb_flat_map_tgt. apply existsb_members. apply keys_ok_In. exact IHp.
  - (* Multi *) rewrite wf_Multi in Hwf. apply andb_prop in Hwf as (_ & Hwf). pose proof (wf_multi_Forall _ Hwf) as HF.
    rewrite quant_Multi. destruct (multi_q_keys q ps [] eq_refl) as (H1 & H2).
    { rewrite Forall_forall in *. intros s Hs q'. apply H; [exact Hs|apply HF; exact Hs]. }
    split; [exact H1|]. intros c. rewrite H2, dmem_nil. reflexivity.
  - (* Par *) cbn [wf] in Hwf. apply andb_prop in Hwf as (_ & Hwf). apply andb_prop in Hwf as (Hwf & _).
    apply andb_prop in Hwf as (Hwf & _). apply andb_prop in Hwf as (Hwf & _). specialize (IHp q Hwf).
    destruct q; cbn [quant channels]; apply par_keys; try exact IHp; apply dkeys_map_fst.
  - (* ArithL *) cbn [wf] in Hwf. apply andb_prop in Hwf as (_ & Hwf). apply andb_prop in Hwf as (Hwf & Hs).
    specialize (IHp q Hwf). destruct IHp as (K1 & K2). destruct (scalar_dict_keys s (channels p) (wf_nodup _ Hwf) Hs) as (S1 & S2).
    assert (Hgen : forall sd, (forall c, dmem c sd = true -> memb c (channels p) = true) ->
                     keys_ok (apply_op_dict op (quant q p) sd) (channels p)).
    { intros sd Hsd. split; [apply nodupb_apply_op_dict; exact K1|]. intros c. rewrite dmem_apply_op_dict, K2.
      destruct (memb c (channels p)) eqn:E; [reflexivity|]. cbn [orb]. destruct (dmem c sd) eqn:E2; [|reflexivity].
      rewrite (Hsd c E2) in E. discriminate. }
    destruct q; cbn [quant channels]; apply Hgen; try exact S2.
    destruct op; try exact S2; intros c Hc; apply S2; rewrite dmem_memb, dkeys_dmap, <- dmem_memb in Hc; exact Hc.
  - (* ArithR *) cbn [wf] in Hwf. apply andb_prop in Hwf as (_ & Hwf). apply andb_prop in Hwf as (Hwf & _). apply andb_prop in Hwf as (Hwf & Hs).
    specialize (IHp q Hwf). destruct IHp as (K1 & K2). destruct (scalar_dict_keys s (channels p) (wf_nodup _ Hwf) Hs) as (S1 & S2).
    assert (Hgen : forall sd, nodupb (dkeys sd) = true -> (forall c, dmem c sd = true -> memb c (channels p) = true) ->
                     keys_ok (apply_op_dict op sd (quant q p)) (channels p)).
    { intros sd Hn Hsd. split; [apply nodupb_apply_op_dict; exact Hn|]. intros c. rewrite dmem_apply_op_dict, K2.
      destruct (memb c (channels p)) eqn:E; [apply orb_true_r|]. rewrite orb_false_r. destruct (dmem c sd) eqn:E2; [|reflexivity].
      rewrite (Hsd c E2) in E. discriminate. }
    destruct q; cbn [quant channels]; apply Hgen; try exact S1; try exact S2.
    + destruct op; try exact S1; rewrite dkeys_dmap; exact S1.
    + destruct op; try exact S2; intros c Hc; apply S2; rewrite dmem_memb, dkeys_dmap, <- dmem_memb in Hc; exact Hc.
  - (* AAtom *) cbn [wf] in Hwf. apply andb_prop in Hwf as (_ & Hwf). apply andb_prop in Hwf as (Hw1 & Hw2).
    destruct (IHp1 q Hw1) as (K1 & K2). destruct (IHp2 q Hw2) as (K3 & K4).
    assert (Hq : quant q (AAtom p1 op p2) = apply_op_dict op (quant q p1) (quant q p2)) by (destruct q; reflexivity).
    rewrite Hq. split; [apply nodupb_apply_op_dict; exact K1|]. intros c. cbn [channels].
    rewrite dmem_apply_op_dict, <- dmem_memb, dmem_dupdate, K2, K4.
    rewrite !dmem_memb, !(dkeys_map_key (fun _ => tt)). reflexivity.
Qed.
