(* C07 — proofs, part 13: THE INTEGRAL THEOREM.  For every well-formed template, every environment under which it
   denotes a pulse, and every channel: whenever the symbolic integral evaluates, its value is the exact integral of
   that channel over the whole denoted pulse (induction over all 13 template classes). *)
From Coq Require Import ZArith QArith Qround List Bool Lia Lra Lqa.
Require Import QV.C07.Model QV.C07.Spec QV.C07.Wf QV.C07.ProofsRange QV.C07.ProofsLoop QV.C07.ProofsAtoms
               QV.C07.ProofsExpr QV.C07.ProofsPt QV.C07.ProofsDict QV.C07.ProofsSum QV.C07.ProofsKeysQ QV.C07.ProofsKeysD
               QV.C07.ProofsDur QV.C07.ProofsObs QV.C07.ProofsIntAtoms.
Import ListNotations.
Open Scope Q_scope.

Definition int_ok (p : pt) : Prop := forall rho pcs c e v,
  wf p = true -> denote p rho = Some pcs -> dget c (quant QIntegral p) = Some e -> eval rho e = Some v ->
  exists x, p_int pcs c = Some x /\ v == x.

Definition tab_int (D : expr) (es : list tentry) : expr :=
  match es with
  | [] => e0
  | (t0, v0, _) :: _ => sequence_integral e0 (e0, v0)
                          (es ++ [(D, match last_or es (e0, e0, IHold) with (_, v, _) => v end, IHold)])
  end.
Lemma quant_int_Table chs :
  quant QIntegral (Table chs) = map (fun kv => (fst kv, (fun (_ : chan) es => tab_int (duration_expr (Table chs)) es) (fst kv) (snd kv))) chs.
Proof. cbn [quant]. apply map_ext. intros [c es]. cbn [fst snd]. destruct es as [|[[t0 v0] ip0] es']; reflexivity. Qed.

Lemma dget_int_Table c chs :
  dget c (quant QIntegral (Table chs)) = option_map (tab_int (duration_expr (Table chs))) (dget c chs).
Proof. rewrite quant_int_Table. apply (dget_map_val (fun (_ : chan) es => tab_int (duration_expr (Table chs)) es)). Qed.

Lemma p_int_single d fs c f : dget c fs = Some f -> p_int [(d, fs)] c = Some (f_int d f + 0).
Proof. intros H. cbn [p_int fst snd]. rewrite H. reflexivity. Qed.

Lemma seq_int_eval_post rho L : forall acc prev dexp vle ip v,
  eval rho (sequence_integral acc prev (L ++ [(dexp, vle, ip)])) = Some v -> exists d, eval rho dexp = Some d.
Proof.
  induction L as [|[[t1 v1] ip1] L IH]; intros acc prev dexp vle ip v Hv.
  - cbn [app sequence_integral] in Hv. apply eval_EAdd in Hv as (x & y & _ & Ey & _).
    destruct (eval rho dexp) as [d|] eqn:ED; [eauto|]. exfalso.
    destruct ip; cbn [interp_integral eval] in Ey; rewrite ?ED in Ey; revert Ey;
      repeat (match goal with |- context [eval rho ?z] => destruct (eval rho z) end); cbn [omap2]; discriminate.
  - cbn [app sequence_integral] in Hv. eapply IH. exact Hv.
Qed.

Lemma int_Table chs : int_ok (Table chs).
Proof.
  intros rho pcs c e v Hwf Hd Hc Hv. cbn [wf] in Hwf. apply andb_prop in Hwf as (_ & Hne).
  rewrite dget_int_Table in Hc. destruct (dget c chs) as [es|] eqn:Ees; [|discriminate]. inversion Hc; subst e; clear Hc.
  cbn [denote] in Hd.
  destruct (opt_all (map (fun ch => option_map (fun l => (fst ch, l)) (opt_all (map (eval_entry rho) (snd ch)))) chs)) as [nchs|] eqn:E1; [|discriminate].
  cbv zeta in Hd.
  destruct (opt_all (map (fun ch => option_map (fun f => (fst ch, f)) (table_chfun _ (snd ch))) nchs)) as [fs|] eqn:E2; [|discriminate].
  set (D := qmax_list (map (fun ch : chan * list nentry => fst (last_tv (snd ch) (0, 0))) nchs)) in *.
  pose proof (opt_all_dget (fun x => opt_all (map (eval_entry rho) (snd x))) (fun _ l => l) c chs nchs E1) as G1.
  rewrite Ees in G1. destruct G1 as (l & El & Gl). cbn [snd] in El.
  pose proof (opt_all_dget (fun x => table_chfun D (snd x)) (fun _ f => f) c nchs fs E2) as G2.
  rewrite Gl in G2. destruct G2 as (f & Ef & Gf). cbn [snd] in Ef.
  assert (Hes : es <> []).
  { rewrite forallb_forall in Hne. specialize (Hne (c, es) (dget_In _ _ _ Ees)). cbn [snd] in Hne. destruct es; [discriminate|discriminate]. }
  assert (HlD : fst (last_tv l (0, 0)) <= D).
  { unfold D. apply In_qmax_list. apply (in_map (fun ch : chan * list nentry => fst (last_tv (snd ch) (0, 0))) nchs (c, l)). apply dget_In. exact Gl. }
  (* the duration expression evaluates (it is a sub-expression of the integral) to a value == D *)
  assert (HDv : exists D', eval rho (duration_expr (Table chs)) = Some D').
  { unfold tab_int in Hv. destruct es as [|[[t0e v0e] ip0] es']; [congruence|]. eapply seq_int_eval_post. exact Hv. }
  destruct HDv as (D' & ED).
  pose proof (table_duration rho chs nchs fs D' E1 E2 Hne ED) as HDD. fold D in HDD.
  apply opt_all_map_Forall2 in El.
  pose proof (table_int_rule rho es l f D D' (duration_expr (Table chs)) v El Hes Ef HlD ED HDD Hv) as Hres.
  destruct (Qle_bool D 0) eqn:EQ; inversion Hd; subst pcs.
  - exists 0. split; [reflexivity|]. rewrite Hres.
    apply Qle_bool_iff in EQ. apply (chfun_int_empty D l f Ef HlD EQ).
  - rewrite (p_int_single D fs c f Gf). eexists; split; [reflexivity|]. rewrite Hres. ring.
Qed.

(* ---- PointPT ---- *)
Definition point_es (j : nat) (ents : list pentry) : list tentry :=
  map (fun en => match en with (t, v, ip) => (t, pval_at j v, ip) end) ents.

Lemma point_entries_F2 rho ents j lj : point_entries rho ents j = Some lj ->
  Forall2 (fun e n => eval_entry rho e = Some n) (point_es j ents) lj.
Proof.
  unfold point_entries, point_es. revert lj. induction ents as [|[[t v] ip] ents IH]; intros lj; cbn [map opt_all].
  - intros H. inversion H. constructor.
  - destruct (eval_entry rho (t, pval_at j v, ip)) as [n|] eqn:E; [|discriminate].
    destruct (opt_all _) as [r|] eqn:Er; cbn [option_map]; [|discriminate]. intros H. inversion H; subst. constructor; [exact E|apply IH; reflexivity].
Qed.

Lemma point_times rho ents : forall j lj l0, point_entries rho ents j = Some lj -> point_entries rho ents 0 = Some l0 ->
  map (fun n : nentry => fst (fst n)) lj = map (fun n : nentry => fst (fst n)) l0.
Proof.
  unfold point_entries. induction ents as [|[[t v] ip] ents IH]; intros j lj l0; cbn [map opt_all].
  - intros Hj H0. inversion Hj. inversion H0. reflexivity.
  - unfold eval_entry at 1 3. destruct (eval rho t) as [a|]; [|discriminate].
    destruct (eval rho (pval_at j v)) as [bj|]; [|discriminate]. destruct (eval rho (pval_at 0 v)) as [b0|]; [|intros _; discriminate].
    match goal with |- option_map _ ?x = _ -> _ => destruct x as [rj|] eqn:Ej end; cbn [option_map]; [|discriminate].
    match goal with |- _ -> option_map _ ?x = _ -> _ => destruct x as [r0|] eqn:E0 end; cbn [option_map]; [|intros _; discriminate].
    intros Hj H0. inversion Hj; inversion H0; subst. cbn [map fst]. f_equal. apply (IH j rj r0 Ej eq_refl).
Qed.

Lemma last_tv_times l : forall l' d, map (fun n : nentry => fst (fst n)) l = map (fun n : nentry => fst (fst n)) l' ->
  fst (last_tv l d) = fst (last_tv l' d).
Proof.
  induction l as [|[[t v] ip] l IH]; intros l' d H; destruct l' as [|[[t' v'] ip'] l']; try discriminate; [reflexivity|].
  cbn [map fst] in H. inversion H; subst. rewrite !last_tv_cons. cbn [fst snd].
  destruct l as [|x l], l' as [|x' l']; try discriminate; [reflexivity|].
  destruct x as [[tx vx] ipx], x' as [[tx' vx'] ipx']. rewrite !last_tv_cons. cbn [fst snd].
  specialize (IH ((tx', vx', ipx') :: l') (0, 0) H2). rewrite !last_tv_cons in IH. cbn [fst snd] in IH. exact IH.
Qed.

Lemma point_lookup rho ents v0 D c : forall cs k fs e,
  opt_all (den_point_go rho ents D k cs) = Some fs -> dget c (point_q QIntegral ents v0 k cs) = Some e ->
  exists j lj f, e = sequence_integral e0 (e0, pval_at j v0) (point_es j ents) /\
                 point_entries rho ents j = Some lj /\ table_chfun D lj = Some f /\ dget c fs = Some f.
Proof.
  induction cs as [|c1 cs IH]; intros k fs e Hfs Hc; [discriminate|].
  rewrite den_point_go_cons in Hfs. cbn [opt_all] in Hfs.
  destruct (point_entries rho ents k) as [lk|] eqn:Ek; [|discriminate].
  destruct (table_chfun D lk) as [f|] eqn:Ef; [|discriminate]. cbn [option_map] in Hfs.
  destruct (opt_all (den_point_go rho ents D (S k) cs)) as [r|] eqn:Er; [|discriminate]. inversion Hfs; subst fs.
  cbn [point_q dget] in Hc |- *. destruct (N.eqb c1 c) eqn:E.
  - inversion Hc; subst e. exists k, lk, f. repeat split; assumption.
  - destruct (IH (S k) r e Er Hc) as (j & lj & f' & H1 & H2 & H3 & H4). exists j, lj, f'. repeat split; assumption.
Qed.

Lemma int_Point cs ents : int_ok (Point cs ents).
Proof.
  intros rho pcs c e v Hwf Hd Hc Hv. cbn [wf] in Hwf. apply andb_prop in Hwf as (_ & Hwf).
  destruct ents as [|[[t0 v0] ip0] ents']; [cbv iota in Hwf; discriminate Hwf|].
  rewrite denote_Point in Hd. revert Hd. match goal with |- match ?x with _ => _ end = _ -> _ => destruct x as [l0|] eqn:E0 end; [|discriminate]. cbv zeta.
  match goal with |- match ?x with _ => _ end = _ -> _ => destruct x as [fs|] eqn:Efs end; [|discriminate].
  intros Hd. set (D := fst (last_tv l0 (0, 0))) in *.
  rewrite quant_Point in Hc.
  destruct (point_lookup rho ((t0, v0, ip0) :: ents') v0 D c cs 0%nat fs e Efs Hc) as (j & lj & f & -> & Ej & Ef & Gf).
  assert (HD : fst (last_tv lj (0, 0)) == D).
  { unfold D. rewrite (last_tv_times lj l0 (0, 0) (point_times rho ((t0, v0, ip0) :: ents') j lj l0 Ej E0)). reflexivity. }
  pose proof (point_int_rule rho (point_es j ((t0, v0, ip0) :: ents')) lj f D v (point_entries_F2 _ _ _ _ Ej) Ef HD Hv) as Hres.
  destruct (Qle_bool D 0) eqn:EQ; inversion Hd; subst pcs.
  - exists 0. split; [reflexivity|]. rewrite Hres. apply Qle_bool_iff in EQ.
    apply (chfun_int_empty D lj f Ef); [rewrite HD; lra|exact EQ].
  - rewrite (p_int_single D fs c f Gf). eexists; split; [reflexivity|]. rewrite Hres. ring.
Qed.

(* ---- ConstantPT / FunctionPT ---- *)
Lemma int_Const d vals : int_ok (Const d vals).
Proof.
  intros rho pcs c e v Hwf Hd Hc Hv. cbn [quant] in Hc. rewrite dget_dmap in Hc.
  destruct (dget c vals) as [ve|] eqn:Eve; [|discriminate]. inversion Hc; subst e. clear Hc.
  apply eval_EMul in Hv as (dd & vv & Ed & Evv & ->). cbn [denote] in Hd. rewrite Ed in Hd.
  destruct (Qle_bool dd 0) eqn:E1.
  - destruct (Qle_bool 0 dd) eqn:E2; inversion Hd; subst. apply Qle_bool_iff in E1, E2.
    exists 0. split; [reflexivity|]. assert (Hz : dd == 0) by lra. rewrite Hz. ring.
  - destruct (opt_all (map (fun kv => option_map (fun q => (fst kv, q)) (eval rho (snd kv))) vals)) as [vs|] eqn:Evs; [|discriminate].
    inversion Hd; subst pcs.
    pose proof (opt_all_dget (fun x => eval rho (snd x)) (fun _ q => q) c vals vs Evs) as G. rewrite Eve in G.
    destruct G as (y & Ey & Gy). cbn [snd] in Ey. rewrite Evv in Ey. inversion Ey; subst y.
    assert (Gf : dget c (map (fun kv : chan * Q => (fst kv, FSegs [(dd, [snd kv])] (snd kv))) vs) = Some (FSegs [(dd, [vv])] vv)).
    { rewrite (dget_map_val (fun _ q => FSegs [(dd, [q])] q)), Gy. reflexivity. }
    rewrite (p_int_single _ _ _ _ Gf). eexists; split; [reflexivity|]. cbn [f_int fold_right fst snd]. rewrite pint_const. ring.
Qed.

Lemma int_Func c0 d coef : int_ok (Func c0 d coef).
Proof.
  intros rho pcs c e v Hwf Hd Hc Hv. cbn [quant dget] in Hc. destruct (N.eqb c0 c) eqn:E; [|discriminate].
  inversion Hc; subst e. cbn [denote] in Hd. destruct (eval rho d) as [dd|] eqn:Ed; [|discriminate].
  destruct (opt_all (map (eval rho) coef)) as [cf|] eqn:Ecf; [|discriminate]. destruct (Qle_bool dd 0); [discriminate|].
  inversion Hd; subst pcs. destruct (func_integral rho d dd coef cf Ed (opt_all_Forall2 _ _ _ Ecf)) as (z & Ez & Hz).
  rewrite Ez in Hv. inversion Hv; subst z.
  assert (Gf : dget c [(c0, FSegs [(dd, cf)] (peval cf dd))] = Some (FSegs [(dd, cf)] (peval cf dd))) by (cbn [dget]; rewrite E; reflexivity).
  rewrite (p_int_single _ _ _ _ Gf). eexists; split; [reflexivity|]. rewrite Hz. ring.
Qed.

(* ---- SequencePT ---- *)
Lemma int_seq_sem rho c q0 : forall l acc pcs e v,
  den_seq rho l = Some pcs -> Forall int_ok l ->
  Forall (fun q => wf q = true /\ same_chans (channels q) (channels q0) = true) l -> memb c (channels q0) = true ->
  dget c (int_seq acc l) = Some e -> eval rho e = Some v ->
  exists ea va x, dget c acc = Some ea /\ eval rho ea = Some va /\ p_int pcs c = Some x /\ v == va + x.
Proof.
  induction l as [|s l IH]; intros acc pcs e v Hd HI HF Hm Hc Hv.
  - inversion Hd; subst. exists e, v, 0. repeat split; try assumption; try reflexivity. ring.
  - rewrite den_seq_cons in Hd. destruct (denote s rho) as [a|] eqn:Ea; [|discriminate].
    destruct (den_seq rho l) as [b|] eqn:Eb; [|discriminate]. inversion Hd; subst pcs.
    inversion HI as [|? ? Hs HI']; subst. inversion HF as [|? ? (Hw & Hsame) HF']; subst.
    rewrite int_seq_cons in Hc.
    destruct (IH _ b e v eq_refl HI' HF' Hm Hc Hv) as (ea' & va' & xr & Hacc' & Eea' & Exr & Hvv).
    rewrite (dget_map_val (fun k ev => EAdd ev (match dget k (quant QIntegral s) with Some e1 => e1 | None => EV tvar end))) in Hacc'.
    destruct (dget c acc) as [ea|] eqn:Eacc; [|discriminate]. inversion Hacc'; subst ea'.
    destruct (quant_keys s QIntegral Hw) as (_ & K). specialize (K c). rewrite (same_chans_memb _ _ Hsame), Hm in K.
    apply dmem_true in K as (es & Ees). rewrite Ees in Eea'.
    apply eval_EAdd in Eea' as (va & vs & Eva & Evs & ->).
    destruct (Hs rho a c es vs Hw Ea Ees Evs) as (xs & Exs & Hxs).
    destruct (p_int_app _ _ _ _ _ Exs Exr) as (z & Ez & Hz).
    exists ea, va, z. repeat split; try assumption; try reflexivity. rewrite Hvv, Hz, Hxs. ring.
Qed.

Lemma int_Seq ps : Forall int_ok ps -> int_ok (Seq ps).
Proof.
  intros HI rho pcs c e v Hwf Hd Hc Hv. destruct ps as [|q0 r]; [cbn in Hc; discriminate|].
  rewrite wf_Seq in Hwf. apply andb_prop in Hwf as (Hnd & Hwf). pose proof (wf_seq_Forall _ _ Hwf) as HF.
  rewrite denote_Seq in Hd. rewrite quant_int_Seq in Hc.
  assert (Hm : memb c (channels q0) = true).
  { apply dget_Some_In in Hc. rewrite int_seq_keys, (dkeys_map_key (fun _ => e0)) in Hc. apply memb_In. exact Hc. }
  destruct (int_seq_sem rho c q0 _ _ pcs e v Hd HI HF Hm Hc Hv) as (ea & va & x & Hacc & Eea & Ex & Hvv).
  rewrite (dget_map_key (fun _ => e0)) in Hacc. change (channels (Seq (q0 :: r))) with (channels q0) in Hacc. rewrite Hm in Hacc.
  inversion Hacc; subst ea. inversion Eea; subst va. exists x. split; [exact Ex|]. rewrite Hvv. ring.
Qed.

(* ---- RepetitionPT ---- *)
Lemma int_Rep n b : int_ok b -> int_ok (Rep n b).
Proof.
  intros HI rho pcs c e v Hwf Hd Hc Hv. cbn [wf] in Hwf. apply andb_prop in Hwf as (_ & Hwf).
  cbn [quant] in Hc. rewrite dget_dmap in Hc. destruct (dget c (quant QIntegral b)) as [eb|] eqn:Eeb; [|discriminate].
  inversion Hc; subst e. apply eval_EMul in Hv as (qn & vb & En & Evb & ->).
  cbn [denote] in Hd. destruct (as_int (eval rho n)) as [k|] eqn:Ek; [|discriminate].
  destruct (as_int_val _ _ _ Ek) as (qn' & En' & Hk). rewrite En in En'. inversion En'; subst qn'.
  destruct (k =? 0)%Z eqn:E0.
  - apply Z.eqb_eq in E0. subst k. inversion Hd; subst. exists 0. split; [reflexivity|]. rewrite Hk. ring.
  - destruct (denote b rho) as [pb|] eqn:Ed; [|discriminate].
    destruct ((k <? 0)%Z || (RANGE_LIMIT <? k)%Z) eqn:El; [discriminate|]. inversion Hd; subst.
    destruct (HI rho pb c eb vb Hwf Ed Eeb Evb) as (xb & Exb & Hxb).
    destruct (p_int_repeat pb c xb (Z.to_nat k) Exb) as (z & Ez & Hz). exists z. split; [exact Ez|].
    rewrite Hz, Hk, Hxb, Z2Nat.id by lia. reflexivity.
Qed.

(* ---- ForLoopPT ---- *)
Lemma int_For i a o s b : int_ok b -> int_ok (For i a o s b).
Proof.
  intros HI rho pcs c e v Hwf Hd Hc Hv. cbn [wf] in Hwf. apply andb_prop in Hwf as (_ & Hwf).
  cbn [quant] in Hc. rewrite dget_dmap in Hc. destruct (dget c (quant QIntegral b)) as [eb|] eqn:Eeb; [|discriminate].
  inversion Hc; subst e. clear Hc.
  rewrite denote_For in Hd. destruct (as_int (eval rho a)) as [za|] eqn:Ea; [|discriminate].
  destruct (as_int (eval rho o)) as [zo|] eqn:Eo; [|discriminate]. destruct (as_int (eval rho s)) as [zs|] eqn:Es; [|discriminate].
  destruct (py_range za zo zs) as [ks|] eqn:Er; [|discriminate].
  destruct (for_closed_form rho i a o s eb za zo zs ks v Ea Eo Es Er Hv) as (w & Ew & Hw).
  assert (Hgen : exists x, p_int pcs c = Some x /\ w == x).
  { clear Hw Hv Er. revert pcs w Hd Ew. induction ks as [|k ks IH]; intros pcs w Hd Ew.
    - inversion Hd. inversion Ew. exists 0. split; reflexivity.
    - rewrite den_for_cons in Hd. destruct (denote b (env_upd rho i (Some (inject_Z k)))) as [x|] eqn:Ex; [|discriminate].
      destruct (den_for b i rho ks) as [y|] eqn:Ey; [|discriminate]. inversion Hd; subst.
      rewrite sum_list_cons in Ew. destruct (eval (env_upd rho i (Some (inject_Z k))) eb) as [vk|] eqn:Evk; [|discriminate].
      destruct (sum_list _ ks) as [wr|] eqn:Ewr; [|discriminate]. cbn [omap2] in Ew. inversion Ew; subst.
      destruct (HI _ x c eb vk Hwf Ex Eeb Evk) as (xk & Exk & Hxk).
      destruct (IH y wr eq_refl eq_refl) as (xr & Exr & Hxr).
      destruct (p_int_app _ _ _ _ _ Exk Exr) as (z & Ez & Hz). exists z. split; [exact Ez|]. rewrite Hz, Hxk, Hxr. reflexivity. }
  destruct Hgen as (x & Ex & Hx). exists x. split; [exact Ex|]. rewrite Hw. exact Hx.
Qed.

(* ---- MappingPT ---- *)
Lemma map_lookup (A : Type) (g : A -> expr) cm (d : list (chan * A)) cs c' e :
  keys_ok d cs -> nodupb cs = true -> nodupb (flat_map (tgt_list cm) cs) = true ->
  dget c' (rename_fold g cm d []) = Some e ->
  exists c a, target cm c = Some c' /\ In c cs /\ dget c d = Some a /\ e = g a /\
              (forall c2, In c2 cs -> target cm c2 = Some c' -> c2 = c).
Proof.
  intros (K1 & K2) Hnd Hinj Hc.
  assert (Hm : dmem c' (rename_fold g cm d []) = true) by (unfold dmem; rewrite Hc; reflexivity).
  rewrite rename_fold_dmem, dmem_nil in Hm. cbn [orb] in Hm. apply existsb_exists in Hm as (c & Hin & Ht).
  destruct (target cm c) as [x|] eqn:Etc; [|discriminate]. apply N.eqb_eq in Ht. subst x.
  assert (Hcs : In c cs) by (apply memb_In; rewrite <- K2, dmem_memb; apply memb_In; exact Hin).
  assert (Huniq : forall c2, In c2 cs -> target cm c2 = Some c' -> c2 = c).
  { intros c2 H2 T2. exact (tgt_inj cm cs Hinj c2 c c' H2 Hcs T2 Etc Hnd). }
  rewrite (rename_fold_hit g cm c c' d [] K1 Hin Etc) in Hc.
  - destruct (dget c d) as [a|] eqn:Ea; [|discriminate]. inversion Hc. exists c, a. repeat split; auto.
  - intros c2 H2 T2. apply Huniq; [|exact T2]. apply memb_In. rewrite <- K2, dmem_memb. apply memb_In. exact H2.
Qed.

Lemma piece_rename_dget cm (pc : piece) cs c c' :
  keys_ok (snd pc) cs -> In c cs -> target cm c = Some c' ->
  (forall c2, In c2 cs -> target cm c2 = Some c' -> c2 = c) ->
  dget c' (snd (rename_piece cm pc)) = dget c (snd pc).
Proof.
  intros (K1 & K2) Hin Ht Hu. rewrite rename_piece_rename. cbn [snd].
  assert (Hin' : In c (dkeys (snd pc))) by (apply memb_In; rewrite <- dmem_memb, K2; apply memb_In; exact Hin).
  rewrite (rename_fold_hit (fun f => f) cm c c' (snd pc) [] K1 Hin' Ht).
  - destruct (dget c (snd pc)); reflexivity.
  - intros c2 H2 T2. apply Hu; [|exact T2]. apply memb_In. rewrite <- K2, dmem_memb. apply memb_In. exact H2.
Qed.

Lemma int_Map b pm cm : int_ok b -> int_ok (Map b pm cm).
Proof.
  intros HI rho pcs c' e v Hwf Hd Hc Hv. pose proof (wf_nodup _ Hwf) as Hnd. rewrite channels_Map in Hnd.
  cbn [wf] in Hwf. apply andb_prop in Hwf as (_ & Hwf).
  cbn [quant] in Hc. rewrite map_dict_rename in Hc.
  destruct (map_lookup _ (ELet pm) cm _ (channels b) c' e (quant_keys b QIntegral Hwf) (wf_nodup _ Hwf) Hnd Hc)
    as (c & eb & Ht & Hin & Eeb & -> & Hu).
  rewrite denote_Map in Hd. destruct (denote b (map_env rho pm)) as [pb|] eqn:Eb; [|discriminate]. inversion Hd; subst pcs.
  rewrite eval_ELet, <- map_env_let_env in Hv.
  destruct (HI _ pb c eb v Hwf Eb Eeb Hv) as (x & Ex & Hx). exists x. split; [|exact Hx].
  rewrite <- Ex. symmetry. apply p_int_congr. apply Forall2_map_r. intros pc Hpc. split; [reflexivity|].
  pose proof (piece_keys b _ _ Hwf Eb) as HK. rewrite Forall_forall in HK. symmetry.
  apply (piece_rename_dget cm pc (channels b) c c' (HK pc Hpc) Hin Ht Hu).
Qed.

(* ---- one piece: int_ok of a child as a statement about its single piece ---- *)
Lemma int_ok_single s rho pc c e f : int_ok s -> wf s = true -> denote s rho = Some [pc] ->
  dget c (quant QIntegral s) = Some e -> dget c (snd pc) = Some f -> okL L_int rho e (fst pc) f.
Proof.
  intros HI Hw Hd He Hf v Hv. destruct (HI rho [pc] c e v Hw Hd He Hv) as (x & Ex & Hx).
  cbn [p_int] in Ex. rewrite Hf in Ex. inversion Ex; subst x. rewrite Hx. cbn [L L_int]. ring.
Qed.

(* ---- AtomicMultiChannelPT ---- *)
Lemma int_Multi ps : Forall int_ok ps -> int_ok (Multi ps).
Proof.
  intros HI rho pcs c e v Hwf Hd Hc Hv. rewrite wf_Multi in Hwf. apply andb_prop in Hwf as (Hnd & Hwf).
  pose proof (wf_multi_Forall _ Hwf) as HW. rewrite denote_Multi in Hd. rewrite quant_Multi in Hc.
  destruct ps as [|q r]; [discriminate|]. destruct (den_multi_first _ _ _ _ Hd) as (pc0 & d0 & _ & ->).
  assert (HR : Forall (fun s => forall pc c e f, denote s rho = Some [pc] -> dget c (quant QIntegral s) = Some e ->
                                 dget c (snd pc) = Some f -> okL L_int rho e (fst pc) f) (q :: r)).
  { rewrite Forall_forall in *. intros s Hs pc c1 e1 f1 H1 H2 H3. eapply int_ok_single; eauto. }
  pose proof (multi_rule L_int rho QIntegral (q :: r) [] _ c e Hd HW Hnd HR Hc) as HM. cbn [fst snd] in HM.
  destruct (dget c d0) as [f|] eqn:Ef; [|discriminate].
  cbn [p_int fst snd]. rewrite Ef. eexists; split; [reflexivity|]. rewrite (HM v Hv). cbn [L L_int]. ring.
Qed.

(* ---- ArithmeticAtomicPT ---- *)
Lemma int_AAtom l op r : int_ok l -> int_ok r -> int_ok (AAtom l op r).
Proof.
  intros HIl HIr rho pcs c e v Hwf Hd Hc Hv. cbn [wf] in Hwf. apply andb_prop in Hwf as (_ & Hwf). apply andb_prop in Hwf as (Hw1 & Hw2).
  cbn [denote] in Hd. destruct (denote l rho) as [[|pl [|? ?]]|] eqn:E1; try discriminate.
  destruct (denote r rho) as [[|pr [|? ?]]|] eqn:E2; try discriminate.
  destruct (merge_atomic op pl pr) as [pc|] eqn:Em; [|discriminate]. inversion Hd; subst pcs. cbn [quant] in Hc.
  destruct (quant_keys l QIntegral Hw1) as (Ql1 & Ql2). destruct (quant_keys r QIntegral Hw2) as (Qr1 & Qr2).
  pose proof (piece_keys l rho _ Hw1 E1) as HKl. inversion HKl as [|? ? (Pl1 & Pl2) _]; subst.
  pose proof (piece_keys r rho _ Hw2 E2) as HKr. inversion HKr as [|? ? (Pr1 & Pr2) _]; subst.
  destruct (aatom_rule L_int rho op (quant QIntegral l) (quant QIntegral r) pl pr pc c e Em Qr1 Pr1) as (f & Ef & Hok).
  - intros c1. rewrite Ql2, Pl2. reflexivity.
  - intros c1. rewrite Qr2, Pr2. reflexivity.
  - intros c1 e1 f1 H1 H2. exact (int_ok_single l rho pl c1 e1 f1 HIl Hw1 E1 H1 H2).
  - intros c1 e1 f1 H1 H2. exact (int_ok_single r rho pr c1 e1 f1 HIr Hw2 E2 H1 H2).
  - exact Hc.
  - cbn [p_int]. rewrite Ef. eexists; split; [reflexivity|]. rewrite (Hok v Hv). cbn [L L_int]. ring.
Qed.

(* ---- ParallelChannelPT ---- *)
Definition sum_pint (cf : list Q) (pb : pulse) : Q := fold_right (fun pc acc => pint cf (fst pc) + acc) 0 pb.

Lemma p_int_over (D : piece -> list (chan * chfun)) (E : piece -> Q) c cf pb :
  (forall pc, In pc pb -> dget c (D pc) = Some (FSegs [(fst pc, cf)] (E pc))) ->
  exists z, p_int (map (fun pc => (fst pc, D pc)) pb) c = Some z /\ z == sum_pint cf pb.
Proof.
  induction pb as [|pc pb IH]; intros H.
  - exists 0. split; reflexivity.
  - destruct IH as (z & Ez & Hz); [intros pc' Hpc'; apply H; right; exact Hpc'|].
    cbn [map p_int fst snd]. rewrite (H pc (or_introl eq_refl)), Ez. eexists; split; [reflexivity|].
    cbn [f_int fold_right fst snd sum_pint]. fold (sum_pint cf pb). rewrite Hz. ring.
Qed.

Lemma pint_comp cf d d' : d == d' -> pint cf d == pint cf d'.
Proof. intros H. unfold pint. apply peval_comp. exact H. Qed.

Lemma pint_short cf d : (length cf <= 1)%nat -> pint cf d == peval cf 0 * d.
Proof.
  destruct cf as [|q [|q2 cf]]; cbn [length]; intros H; [| |lia].
  - unfold pint, panti. simpl. ring.
  - rewrite pint_const. simpl. ring.
Qed.

Lemma sum_pint_short cf pb : (length cf <= 1)%nat -> sum_pint cf pb == peval cf 0 * total pb.
Proof.
  intros H. induction pb as [|pc pb IH]; [cbn; ring|]. cbn [sum_pint fold_right]. fold (sum_pint cf pb).
  rewrite IH, (pint_short cf (fst pc) H), total_cons. ring.
Qed.

Lemma poly_int_eval_d rho d : forall cfe k v, cfe <> [] -> eval rho (poly_int_from k d cfe) = Some v -> exists dd, eval rho d = Some dd.
Proof.
  intros cfe k v Hne Hv. destruct cfe as [|c r]; [congruence|]. cbn [poly_int_from] in Hv.
  apply eval_EAdd in Hv as (x & y & Ex & _ & _). destruct (eval rho d) as [dd|] eqn:Ed; [eauto|]. exfalso.
  cbn [epow eval] in Ex. rewrite Ed in Ex. revert Ex. destruct (eval rho c); cbn [omap2]; discriminate.
Qed.

Lemma Forall2_len2 {A B} (R : A -> B -> Prop) a b : Forall2 R a b -> length a = length b.
Proof. induction 1; cbn; congruence. Qed.

Lemma int_Par b ov : int_ok b -> int_ok (Par b ov).
Proof.
  intros HI rho pcs c e v Hwf Hd Hc Hv. cbn [wf] in Hwf. apply andb_prop in Hwf as (_ & Hwf). apply andb_prop in Hwf as (Hwf & Hat).
  apply andb_prop in Hwf as (Hwf & Hnt). apply andb_prop in Hwf as (Hwf & Hno).
  cbn [denote] in Hd. destruct (denote b rho) as [pb|] eqn:Eb; [|discriminate].
  destruct (opt_all (map (fun kv => option_map (fun cf => (fst kv, cf)) (opt_all (map (eval rho) (snd kv)))) ov)) as [ovs|] eqn:Eo; [|discriminate].
  inversion Hd; subst pcs. clear Hd.
  pose proof (opt_all_dget (fun x => opt_all (map (eval rho) (snd x))) (fun _ cf => cf) c ov ovs Eo) as G.
  pose proof (opt_all_keys _ _ _ _ _ Eo) as Hk.
  assert (Hnos : nodupb (dkeys ovs) = true) by (unfold dkeys; rewrite Hk; exact Hno).
  cbn [quant] in Hc. rewrite dget_dupdate in Hc by (rewrite dkeys_map_fst; exact Hno).
  rewrite (dget_map_val (fun _ cf => if timedep cf then poly_int_from 0 (duration_expr b) cf else EMul (poly_expr cf) (duration_expr b))) in Hc.
  assert (Hpiece : forall pc, dget c (dupdate (snd pc) (map (fun kv : chan * list Q => (fst kv, FSegs [(fst pc, snd kv)] (peval (snd kv) (fst pc)))) ovs))
                              = match dget c ovs with Some cf => Some (FSegs [(fst pc, cf)] (peval cf (fst pc))) | None => dget c (snd pc) end).
  { intros pc. rewrite dget_dupdate by (rewrite dkeys_map_fst; exact Hnos).
    rewrite (dget_map_val (fun _ cf => FSegs [(fst pc, cf)] (peval cf (fst pc)))). destruct (dget c ovs); reflexivity. }
  destruct (dget c ov) as [cfe|] eqn:Eov.
  - (* overwritten channel *)
    destruct G as (cf & Ecf & Gcf). cbn [snd] in Ecf. cbn [option_map] in Hc. inversion Hc; subst e. clear Hc.
    pose proof (opt_all_Forall2 _ _ _ Ecf) as HF.
    destruct (p_int_over (fun pc => dupdate (snd pc) (map (fun kv : chan * list Q => (fst kv, FSegs [(fst pc, snd kv)] (peval (snd kv) (fst pc)))) ovs))
                (fun pc => peval cf (fst pc)) c cf pb) as (z & Ez & Hz).
    { intros pc _. rewrite Hpiece, Gcf. reflexivity. }
    exists z. split; [exact Ez|]. rewrite Hz.
    assert (Hntc : no_t cfe = true).
    { rewrite forallb_forall in Hnt. apply (Hnt (c, cfe)). apply dget_In. exact Eov. }
    destruct (timedep cfe) eqn:Etd.
    + (* time dependent: atomic body, at most one piece *)
      assert (Hatom : atomic b = true).
      { apply orb_prop in Hat as [Hat|Hat]; [|exact Hat]. apply negb_true_iff in Hat. exfalso.
        assert (existsb (fun kv : chan * list expr => timedep (snd kv)) ov = true); [|congruence].
        apply existsb_exists. exists (c, cfe). split; [apply dget_In; exact Eov|exact Etd]. }
      destruct (poly_int_eval_d rho (duration_expr b) cfe 0 v ltac:(destruct cfe; discriminate) Hv) as (dd & Edd).
      pose proof (duration_correct b rho pb dd Hwf Eb Edd) as Hdd.
      destruct (func_integral rho (duration_expr b) dd cfe cf Edd HF) as (w & Ew & Hw). rewrite Ew in Hv. inversion Hv; subst w.
      rewrite Hw. cbn [f_int fold_right fst snd]. pose proof (atomic_pieces b rho pb Hatom Eb) as Hlen.
      destruct pb as [|pc [|pc2 pb]]; cbn [length] in Hlen; [| |lia].
      * change (total []) with 0 in Hdd. rewrite (pint_comp cf dd 0 Hdd), pint_0. cbn. ring.
      * rewrite total_cons in Hdd. change (total []) with 0 in Hdd. cbn [sum_pint fold_right].
        rewrite (pint_comp cf dd (fst pc)) by (rewrite Hdd; ring). ring.
    + apply eval_EMul in Hv as (vq & dv & Evq & Edv & ->).
      pose proof (duration_correct b rho pb dv Hwf Eb Edv) as Hdv.
      destruct (eval_poly_expr_const rho cfe cf HF Etd 0) as (vq' & Evq' & Hvq). rewrite Evq in Evq'. inversion Evq'; subst vq'.
      rewrite sum_pint_short, Hvq, Hdv; [reflexivity|]. rewrite <- (Forall2_len2 _ _ _ HF). destruct cfe as [|? [|? ?]]; cbn; try lia; discriminate.
  - (* channel of the inner template *)
    rewrite G in Hpiece. cbn [option_map] in Hc.
    destruct (HI rho pb c e v Hwf Eb Hc Hv) as (x & Ex & Hx). exists x. split; [|exact Hx]. rewrite <- Ex.
    symmetry. apply p_int_congr. apply Forall2_map_r. intros pc _. cbn [fst snd]. split; [reflexivity|]. symmetry. apply Hpiece.
Qed.

(* ---- ArithmeticPT with a scalar operand ---- *)
Lemma scalar_eval_dget rho s cs sv c : scalar_eval rho s cs = Some sv ->
  match dget c (scalar_as_dict s cs) with
  | Some se => exists q, eval rho se = Some q /\ dget c sv = Some q
  | None => dget c sv = None
  end.
Proof.
  unfold scalar_eval. intros H.
  pose proof (opt_all_dget (fun x => eval rho (snd x)) (fun _ q => q) c (scalar_as_dict s cs) sv H) as G.
  destruct (dget c (scalar_as_dict s cs)); exact G.
Qed.

Lemma piece_aff_dget left op sv pc pc' c : piece_aff left op sv pc = Some pc' ->
  fst pc' = fst pc /\
  match dget c (snd pc) with
  | Some f => exists ab, aff_of left op (dget c sv) = Some ab /\ dget c (snd pc') = Some (FAff (fst ab) (snd ab) f)
  | None => dget c (snd pc') = None
  end.
Proof.
  unfold piece_aff. intros H.
  destruct (opt_all (map (fun cf => option_map (fun ab => (fst cf, FAff (fst ab) (snd ab) (snd cf))) (aff_of left op (dget (fst cf) sv))) (snd pc))) as [chs|] eqn:E; [|discriminate].
  inversion H; subst pc'. split; [reflexivity|]. cbn [snd].
  pose proof (opt_all_dget (fun x => aff_of left op (dget (fst x) sv)) (fun x ab => FAff (fst ab) (snd ab) (snd x)) c (snd pc) chs E) as G.
  destruct (dget c (snd pc)); exact G.
Qed.

Lemma aff_pieces left op sv c a b pb pcs :
  Forall2 (fun pc pc' => piece_aff left op sv pc = Some pc') pb pcs ->
  aff_of left op (dget c sv) = Some (a, b) ->
  Forall2 (fun pc pc' => fst pc' = fst pc /\ dget c (snd pc') = option_map (FAff a b) (dget c (snd pc))) pb pcs.
Proof.
  intros H Ha. induction H as [|pc pc' pb pcs Hp H IH]; constructor; [|exact IH].
  destruct (piece_aff_dget left op sv pc pc' c Hp) as (H1 & H2). split; [exact H1|].
  destruct (dget c (snd pc)) as [f|]; [|exact H2]. destruct H2 as (ab & Hab & Hd). rewrite Ha in Hab. inversion Hab; subst ab. exact Hd.
Qed.

Lemma eval_EDiv rho a b v : eval rho (EDiv a b) = Some v ->
  exists x y, eval rho a = Some x /\ eval rho b = Some y /\ Qeq_bool y 0 = false /\ v = x / y.
Proof.
  cbn [eval]. destruct (eval rho a) as [x|], (eval rho b) as [y|]; try discriminate.
  destruct (Qeq_bool y 0) eqn:E; [discriminate|]. intros H; inversion H. eauto 6.
Qed.

Lemma Qeq_bool_false_neq y : Qeq_bool y 0 = false -> ~ y == 0.
Proof. intros H Hy. apply Qeq_bool_iff in Hy. congruence. Qed.

Lemma int_ArithL b op s : int_ok b -> int_ok (ArithL b op s).
Proof.
  intros HI rho pcs c e v Hwf Hd Hc Hv. cbn [wf] in Hwf. apply andb_prop in Hwf as (_ & Hwf). apply andb_prop in Hwf as (Hwf & Hs).
  cbn [denote] in Hd. destruct (denote b rho) as [pb|] eqn:Eb; [|discriminate].
  destruct (scalar_eval rho s (channels b)) as [sv|] eqn:Esv; [|discriminate]. apply opt_all_map_Forall2 in Hd.
  destruct (scalar_dict_keys s (channels b) (wf_nodup _ Hwf) Hs) as (S1 & S2).
  destruct (quant_keys b QIntegral Hwf) as (K1 & K2).
  pose proof (scalar_eval_dget rho s (channels b) sv c Esv) as Gs.
  set (sd := scalar_as_dict s (channels b)) in *.
  set (sd' := match op with OAdd | OSub => dmap (fun v0 => EMul v0 (duration_expr b)) sd | _ => sd end).
  assert (Hq : quant QIntegral (ArithL b op s) = apply_op_dict op (quant QIntegral b) sd') by reflexivity.
  rewrite Hq in Hc. clear Hq.
  assert (Hn' : nodupb (dkeys sd') = true) by (unfold sd'; destruct op; rewrite ?dkeys_dmap; exact S1).
  rewrite dget_apply_op_dict in Hc by exact Hn'.
  assert (Hsd' : dget c sd' = match op with OAdd | OSub => option_map (fun v0 => EMul v0 (duration_expr b)) (dget c sd) | _ => dget c sd end).
  { unfold sd'. destruct op; rewrite ?dget_dmap; reflexivity. }
  destruct (dget c (quant QIntegral b)) as [ea|] eqn:Eea.
  - (* find the affine map of this channel and the value of the body's integral *)
    assert (Hmain : exists va a' b', eval rho ea = Some va /\ aff_of true op (dget c sv) = Some (a', b') /\ v == a' * va + b' * total pb).
    { destruct (dget c sd) as [se|] eqn:Ese.
      - destruct Gs as (sq & Esq & Gsq). rewrite Gsq. rewrite Hsd' in Hc.
        destruct op; cbn [option_map] in Hc; inversion Hc; subst e; cbn [apply_both] in Hv.
        + apply eval_EAdd in Hv as (va & y & Eva & Ey & ->). apply eval_EMul in Ey as (sq' & dv & Esq' & Edv & ->).
          rewrite Esq in Esq'. inversion Esq'; subst sq'. pose proof (duration_correct b rho pb dv Hwf Eb Edv) as Hdv.
          exists va, 1, sq. repeat split; [exact Eva|rewrite Hdv; ring].
        + apply eval_ESub in Hv as (va & y & Eva & Ey & ->). apply eval_EMul in Ey as (sq' & dv & Esq' & Edv & ->).
          rewrite Esq in Esq'. inversion Esq'; subst sq'. pose proof (duration_correct b rho pb dv Hwf Eb Edv) as Hdv.
          exists va, 1, (- sq). repeat split; [exact Eva|rewrite Hdv; ring].
        + apply eval_EMul in Hv as (va & sq' & Eva & Esq' & ->). rewrite Esq in Esq'. inversion Esq'; subst sq'.
          exists va, sq, 0. repeat split; [exact Eva|ring].
        + apply eval_EDiv in Hv as (va & sq' & Eva & Esq' & Hnz & ->). rewrite Esq in Esq'. inversion Esq'; subst sq'.
          exists va, (1 / sq), 0. cbn [aff_of]. rewrite Hnz. repeat split; [exact Eva|]. field. apply Qeq_bool_false_neq. exact Hnz.
      - rewrite Gs. assert (Hn : dget c sd' = None) by (rewrite Hsd'; destruct op; reflexivity). rewrite Hn in Hc. inversion Hc; subst e.
        exists v, 1, 0. repeat split; [exact Hv|ring]. }
    destruct Hmain as (va & a' & b' & Eva & Haff & Hvv).
    destruct (HI rho pb c ea va Hwf Eb Eea Eva) as (X & EX & HX).
    destruct (p_int_aff pb pcs c a' b' X (aff_pieces true op sv c a' b' pb pcs Hd Haff) EX) as (z & Ez & Hz).
    exists z. split; [exact Ez|]. rewrite Hz, Hvv, HX. reflexivity.
  - exfalso. destruct (dget c sd') as [es'|] eqn:Es'; [|discriminate].
    assert (Hm : dmem c sd = true).
    { rewrite Hsd' in Es'. unfold dmem. destruct (dget c sd); [reflexivity|]. destruct op; discriminate. }
    pose proof (S2 c Hm) as Hmc. rewrite <- K2 in Hmc. unfold dmem in Hmc. rewrite Eea in Hmc. discriminate.
Qed.

Lemma int_ArithR s op b : int_ok b -> int_ok (ArithR s op b).
Proof.
  intros HI rho pcs c e v Hwf Hd Hc Hv. cbn [wf] in Hwf. apply andb_prop in Hwf as (_ & Hwf). apply andb_prop in Hwf as (Hwf & Hnd).
  apply andb_prop in Hwf as (Hwf & Hs).
  cbn [denote] in Hd. destruct (denote b rho) as [pb|] eqn:Eb; [|discriminate].
  destruct (scalar_eval rho s (channels b)) as [sv|] eqn:Esv; [|discriminate]. apply opt_all_map_Forall2 in Hd.
  destruct (scalar_dict_keys s (channels b) (wf_nodup _ Hwf) Hs) as (S1 & S2).
  destruct (quant_keys b QIntegral Hwf) as (K1 & K2).
  pose proof (scalar_eval_dget rho s (channels b) sv c Esv) as Gs.
  set (sd := scalar_as_dict s (channels b)) in *.
  set (sd' := match op with OAdd | OSub => dmap (fun v0 => EMul v0 (duration_expr b)) sd | _ => sd end).
  assert (Hq : quant QIntegral (ArithR s op b) = apply_op_dict op sd' (quant QIntegral b)) by reflexivity.
  rewrite Hq in Hc. clear Hq.
  rewrite dget_apply_op_dict in Hc by exact K1.
  assert (Hsd' : dget c sd' = match op with OAdd | OSub => option_map (fun v0 => EMul v0 (duration_expr b)) (dget c sd) | _ => dget c sd end).
  { unfold sd'. destruct op; rewrite ?dget_dmap; reflexivity. }
  destruct (dget c (quant QIntegral b)) as [ea|] eqn:Eea.
  - assert (Hmain : exists va a' b', eval rho ea = Some va /\ aff_of false op (dget c sv) = Some (a', b') /\ v == a' * va + b' * total pb).
    { destruct (dget c sd) as [se|] eqn:Ese.
      - destruct Gs as (sq & Esq & Gsq). rewrite Gsq. rewrite Hsd' in Hc.
        destruct op; try discriminate; cbn [option_map] in Hc; inversion Hc; subst e; cbn [apply_both] in Hv.
        + apply eval_EAdd in Hv as (y & va & Ey & Eva & ->). apply eval_EMul in Ey as (sq' & dv & Esq' & Edv & ->).
          rewrite Esq in Esq'. inversion Esq'; subst sq'. pose proof (duration_correct b rho pb dv Hwf Eb Edv) as Hdv.
          exists va, 1, sq. repeat split; [exact Eva|rewrite Hdv; ring].
        + apply eval_ESub in Hv as (y & va & Ey & Eva & ->). apply eval_EMul in Ey as (sq' & dv & Esq' & Edv & ->).
          rewrite Esq in Esq'. inversion Esq'; subst sq'. pose proof (duration_correct b rho pb dv Hwf Eb Edv) as Hdv.
          exists va, (-(1)), sq. repeat split; [exact Eva|rewrite Hdv; ring].
        + apply eval_EMul in Hv as (sq' & va & Esq' & Eva & ->). rewrite Esq in Esq'. inversion Esq'; subst sq'.
          exists va, sq, 0. repeat split; [exact Eva|ring].
      - rewrite Gs. assert (Hn : dget c sd' = None) by (rewrite Hsd'; destruct op; reflexivity). rewrite Hn in Hc. inversion Hc; subst e.
        destruct op; try discriminate; cbn [apply_rhs_only] in Hv.
        + exists v, 1, 0. repeat split; [exact Hv|ring].
        + apply eval_ENeg in Hv as (va & Eva & ->). exists va, (-(1)), 0. repeat split; [exact Eva|ring].
        + exists v, 1, 0. repeat split; [exact Hv|ring]. }
    destruct Hmain as (va & a' & b' & Eva & Haff & Hvv).
    destruct (HI rho pb c ea va Hwf Eb Eea Eva) as (X & EX & HX).
    destruct (p_int_aff pb pcs c a' b' X (aff_pieces false op sv c a' b' pb pcs Hd Haff) EX) as (z & Ez & Hz).
    exists z. split; [exact Ez|]. rewrite Hz, Hvv, HX. reflexivity.
  - exfalso. destruct (dget c sd') as [es'|] eqn:Es'; [|discriminate].
    assert (Hm : dmem c sd = true).
    { rewrite Hsd' in Es'. unfold dmem. destruct (dget c sd); [reflexivity|]. destruct op; discriminate. }
    pose proof (S2 c Hm) as Hmc. rewrite <- K2 in Hmc. unfold dmem in Hmc. rewrite Eea in Hmc. discriminate.
Qed.

(* ---- the induction ---- *)
Theorem integral_correct : forall p rho pcs c e v,
  wf p = true -> denote p rho = Some pcs -> dget c (quant QIntegral p) = Some e -> eval rho e = Some v ->
  exists x, p_int pcs c = Some x /\ v == x.
Proof.
  intros p. change (int_ok p). induction p using pt_ind'.
  - apply int_Table. - apply int_Point. - apply int_Const. - apply int_Func.
  - apply int_Seq; assumption. - apply int_Rep; assumption. - apply int_For; assumption. - apply int_Map; assumption.
  - apply int_Multi; assumption. - apply int_Par; assumption. - apply int_ArithL; assumption.
  - apply int_ArithR; assumption. - apply int_AAtom; assumption.
Qed.
Print Assumptions integral_correct.
