(* C20 round 4 — the sample grid in BINARY64 (Flocq).
   Model.b64 (executable, over Q) is Flocq's round-to-nearest-even in the format FLT(-1074, 53):
       b64_is_RN            Q2R (b64 q) = RN (Q2R q)
   What "at the times k / sample rate" means: Model.grid_time rate k = b64 (k / rate), ONE rounding of the exact quotient.
       grid_time_is_RN      Q2R (grid_time rate k) = RN (IZR k / Q2R rate)
       grid_impl_correct    0 <= k < n, rate > 0 -> grid_impl rate n k == grid_time rate k when the guard of the repaired code
                            holds (numerator < 2^53, n * denominator <= 2^53): k * den is exact, one division
       grid_old_correct     a representable rate (b64 rate == rate): the old formula  b64 (k / b64 rate)  is correctly rounded
       grid_old_refuted     rate 9/5 (not representable): b64 (3 / b64 (9/5)) < grid_time (9/5) 3  — the defect repaired in round 4
       grid_reciprocal_refuted   rate 3 (representable): b64 (5 * b64 (1 / 3)) < grid_time 3 5 — two roundings (seed C20-5)
   Real-number axioms of the standard library appear under Print Assumptions (as for the other BINARY64 theorems). *)
From Coq Require Import ZArith QArith Qround Qabs Qreals Reals Lra Lia List Bool.
From Flocq Require Import Core.
Require Import QV.C20.Model QV.C20.ProofsFloat.
Open Scope R_scope.

Lemma Q2R_pow2 e : Q2R (pow2 e) = bpow radix2 e.
Proof.
  destruct e as [|p|p]; unfold pow2.
  - apply RMicromega.Q2R_1.
  - rewrite Q2R_inject_Z. reflexivity.
  - rewrite Q2R_inv.
    + rewrite Q2R_inject_Z. reflexivity.
    + intro H. apply Qeq_eqR in H. rewrite Q2R_inject_Z in H. change (Q2R 0) with (Q2R (inject_Z 0)) in H.
      rewrite Q2R_inject_Z in H. apply eq_IZR in H. pose proof (Zpower_pos_gt_0 2 p ltac:(lia)). unfold Z.pow_pos in *. lia.
Qed.

Lemma pow2_pos e : (0 < pow2 e)%Q.
Proof. apply Rlt_Qlt. rewrite Q2R_pow2. change (Q2R 0) with (Q2R (inject_Z 0)). rewrite Q2R_inject_Z. apply bpow_gt_0. Qed.

Lemma IZR_log2_bounds n : (0 < n)%Z -> bpow radix2 (Z.log2 n) <= IZR n < bpow radix2 (Z.log2 n + 1).
Proof.
  intro H. pose proof (Z.log2_spec n H) as [L U]. pose proof (Z.log2_nonneg n) as Hn.
  rewrite <- !(IZR_Zpower radix2) by lia. change (radix_val radix2) with 2%Z. split.
  - apply IZR_le. exact L.
  - apply IZR_lt. unfold Z.succ in U. exact U.
Qed.

Lemma Q2R_num_den q : Q2R q = IZR (Qnum q) / IZR (Zpos (Qden q)).
Proof. reflexivity. Qed.

Lemma qlog2_spec q : (0 < q)%Q -> bpow radix2 (qlog2 q) <= Q2R q < bpow radix2 (qlog2 q + 1).
Proof.
  intro Hq. unfold qlog2. set (n := Qnum q). set (d := Zpos (Qden q)). set (a := (Z.log2 n - Z.log2 d)%Z).
  assert (Hn : (0 < n)%Z) by (unfold n; destruct q as [qn qd]; unfold Qlt in Hq; cbn in *; lia).
  assert (Hd : (0 < d)%Z) by (unfold d; lia).
  pose proof (IZR_log2_bounds n Hn) as [Ln Un]. pose proof (IZR_log2_bounds d Hd) as [Ld Ud].
  assert (Dpos : 0 < IZR d) by (apply IZR_lt; exact Hd).
  assert (E : Q2R q = IZR n / IZR d) by reflexivity.
  pose proof (bpow_gt_0 radix2 (Z.log2 d)) as Bd. pose proof (bpow_gt_0 radix2 (Z.log2 d + 1)) as Bd1.
  (* outer bounds: bpow (a - 1) < q < bpow (a + 1) *)
  assert (Up : Q2R q < bpow radix2 (a + 1)).
  { rewrite E. replace (a + 1)%Z with ((Z.log2 n + 1) + - Z.log2 d)%Z by (unfold a; lia).
    rewrite bpow_plus, bpow_opp. unfold Rdiv.
    apply Rlt_le_trans with (bpow radix2 (Z.log2 n + 1) * / IZR d).
    - apply Rmult_lt_compat_r; [apply Rinv_0_lt_compat; exact Dpos|exact Un].
    - apply Rmult_le_compat_l; [left; apply bpow_gt_0|]. apply Rinv_le_contravar; assumption. }
  assert (Lo : bpow radix2 (a - 1) < Q2R q).
  { rewrite E. replace (a - 1)%Z with (Z.log2 n + - (Z.log2 d + 1))%Z by (unfold a; lia).
    rewrite bpow_plus, bpow_opp. unfold Rdiv.
    apply Rle_lt_trans with (IZR n * / bpow radix2 (Z.log2 d + 1)).
    - apply Rmult_le_compat_r; [left; apply Rinv_0_lt_compat; exact Bd1|exact Ln].
    - apply Rmult_lt_compat_l; [apply IZR_lt; exact Hn|]. apply Rinv_lt_contravar; [|exact Ud].
      apply Rmult_lt_0_compat; assumption. }
  destruct (Qle_bool (pow2 a) q) eqn:T.
  - split; [|exact Up]. apply Qle_bool_iff in T. apply Qle_Rle in T. rewrite Q2R_pow2 in T. exact T.
  - replace (a - 1 + 1)%Z with a by lia. split; [left; exact Lo|].
    apply Rnot_le_lt. intro H. rewrite <- Q2R_pow2 in H. apply Rle_Qle in H. apply Qle_bool_iff in H. congruence.
Qed.

Lemma Q2R_0 : Q2R 0 = 0.
Proof. change (Q2R 0) with (Q2R (inject_Z 0)). apply Q2R_inject_Z. Qed.

Lemma Q2R_Qabs q : Q2R (Qabs q) = Rabs (Q2R q).
Proof.
  destruct (Qlt_le_dec q 0) as [H|H].
  - rewrite (Qeq_eqR _ _ (Qabs_neg q (Qlt_le_weak _ _ H))), Q2R_opp.
    apply Qlt_Rlt in H. rewrite Q2R_0 in H. rewrite Rabs_left; lra.
  - rewrite (Qeq_eqR _ _ (Qabs_pos q H)). apply Qle_Rle in H. rewrite Q2R_0 in H. rewrite Rabs_pos_eq; lra.
Qed.

Lemma mag_Q2R q : ~ (q == 0)%Q -> mag radix2 (Q2R q) = (qlog2 (Qabs q) + 1)%Z :> Z.
Proof.
  intro Hq. apply mag_unique. rewrite <- Q2R_Qabs. replace (qlog2 (Qabs q) + 1 - 1)%Z with (qlog2 (Qabs q)) by lia.
  apply qlog2_spec. pose proof (Qabs_nonneg q) as H. apply Qle_lteq in H as [H|H]; [exact H|].
  exfalso. apply Hq. apply eqR_Qeq. rewrite Q2R_0. apply Qeq_eqR in H. rewrite Q2R_0, Q2R_Qabs in H.
  destruct (Req_dec (Q2R q) 0) as [E|E]; [exact E|]. apply Rabs_pos_lt in E. lra.
Qed.

Theorem b64_is_RN q : Q2R (b64 q) = RN (Q2R q).
Proof.
  unfold b64. destruct (Qeq_bool q 0) eqn:Z0.
  - apply Qeq_bool_iff in Z0. rewrite (Qeq_eqR _ _ Z0), Q2R_0. symmetry. apply RN_0.
  - assert (Hq : ~ (q == 0)%Q) by (intro H; apply Qeq_bool_iff in H; congruence).
    unfold RN, round, F2R, scaled_mantissa, cexp. cbn [Fnum Fexp].
    rewrite (mag_Q2R q Hq). change (fexp (qlog2 (Qabs q) + 1)) with (b64_exp q).
    rewrite Q2R_mult, Q2R_inject_Z, Q2R_pow2, rint_is_ZnearestE. f_equal. f_equal. f_equal.
    unfold Qdiv. rewrite Q2R_mult, Q2R_inv, Q2R_pow2, bpow_opp; [reflexivity|].
    intro H. pose proof (pow2_pos (b64_exp q)) as P. rewrite H in P. discriminate P.
Qed.

(* b64 respects == (it is a function of the rational number, not of its representation) *)
Lemma b64_comp p q : (p == q)%Q -> (b64 p == b64 q)%Q.
Proof. intro H. apply eqR_Qeq. rewrite !b64_is_RN, (Qeq_eqR _ _ H). reflexivity. Qed.

Lemma b64_idem q : (b64 (b64 q) == b64 q)%Q.
Proof.
  apply eqR_Qeq. rewrite (b64_is_RN (b64 q)), b64_is_RN. unfold RN. apply round_generic; [apply valid_rnd_N|].
  apply generic_format_round; [apply FLT_exp_valid; reflexivity|apply valid_rnd_N].
Qed.

Lemma RN_IZR m : (Z.abs m <= 2 ^ 53)%Z -> RN (IZR m) = IZR m.
Proof.
  intro H. unfold RN. apply round_generic; [apply valid_rnd_N|].
  destruct (Z.eq_dec (Z.abs m) (2 ^ 53)) as [E|N].
  - assert (Em : IZR m = bpow radix2 53 \/ IZR m = - bpow radix2 53).
    { rewrite <- (IZR_Zpower radix2) by lia. change (radix_val radix2) with 2%Z. rewrite <- opp_IZR.
      destruct (Z.abs_spec m) as [[_ A]|[_ A]]; [left|right]; f_equal; lia. }
    destruct Em as [-> | ->]; [|apply generic_format_opp]; apply generic_format_bpow; unfold fexp, FLT_exp; lia.
  - apply generic_format_FLT. apply (FLT_spec radix2 (-1074) 53 (IZR m) (Float radix2 m 0)).
    + unfold F2R. cbn. lra.
    + cbn [Fnum]. change (radix_val radix2) with 2%Z. lia.
    + cbn. lia.
Qed.

Lemma b64_int m : (Z.abs m <= 2 ^ 53)%Z -> (b64 (inject_Z m) == inject_Z m)%Q.
Proof. intro H. apply eqR_Qeq. rewrite b64_is_RN, Q2R_inject_Z. apply RN_IZR. exact H. Qed.

Theorem grid_time_is_RN rate k : ~ (rate == 0)%Q -> Q2R (grid_time rate k) = RN (IZR k / Q2R rate).
Proof.
  intro H. unfold grid_time. rewrite b64_is_RN. unfold Qdiv. rewrite Q2R_mult, Q2R_inv, Q2R_inject_Z by exact H. reflexivity.
Qed.

(* the repaired get_sample_times: under its guard the computed time is the correctly rounded k / rate *)
Theorem grid_impl_correct rate n k : (0 <= k < n)%Z -> grid_guard rate n = true ->
  (grid_impl rate n k == grid_time rate k)%Q.
Proof.
  intros Hk G. unfold grid_impl. rewrite G. unfold grid_guard in G.
  apply andb_prop in G as [G G3]. apply andb_prop in G as [G1 G2].
  apply Z.ltb_lt in G1, G2. apply Z.leb_le in G3.
  set (r := Qred rate) in *. set (num := Qnum r) in *. set (den := Zpos (Qden r)) in *.
  assert (Hden : (0 < den)%Z) by (unfold den; lia).
  assert (Hkd : (Z.abs (k * den) <= 2 ^ 53)%Z).
  { rewrite Z.abs_eq by nia. assert (k * den <= Z.max n 1 * den)%Z by nia. lia. }
  unfold grid_time. apply b64_comp.
  assert (E1 : (b64 (inject_Z k * inject_Z den) == inject_Z (k * den))%Q).
  { transitivity (b64 (inject_Z (k * den))); [apply b64_comp; rewrite inject_Z_mult; reflexivity|apply b64_int; exact Hkd]. }
  assert (E2 : (b64 (inject_Z num) == inject_Z num)%Q) by (apply b64_int; rewrite Z.abs_eq; lia).
  rewrite E1, E2. rewrite <- (Qred_correct rate). fold r.
  assert (Er : (r == inject_Z num / inject_Z den)%Q).
  { unfold num, den. destruct r as [rn rd]. cbn. unfold Qeq, Qdiv, Qmult, Qinv, inject_Z. cbn. lia. }
  rewrite Er, inject_Z_mult. field. split.
  - intro H. unfold Qeq, inject_Z in H. cbn in H. lia.
  - intro H. unfold Qeq, inject_Z in H. cbn in H. lia.
Qed.

(* the formula used before the repair is correctly rounded exactly for representable rates ... *)
Theorem grid_old_correct rate k : (b64 rate == rate)%Q -> (grid_old rate k == grid_time rate k)%Q.
Proof. intro H. unfold grid_old, grid_time. apply b64_comp. rewrite H. reflexivity. Qed.

(* ... and not for others: 1.8 GS/s, sample 3 is taken one ulp before 5/3 ns *)
Theorem grid_old_refuted : exists rate k, ~ (b64 rate == rate)%Q /\ (grid_old rate k < grid_time rate k)%Q.
Proof. exists (9 # 5)%Q, 3%Z. split; [vm_compute; discriminate|vm_compute; reflexivity]. Qed.

(* k * (1 / rate): two roundings, not correctly rounded even for a representable rate (seed C20-5) *)
Definition grid_reciprocal (rate : Q) (k : Z) : Q := b64 (inject_Z k * b64 (1 / b64 rate)).
Theorem grid_reciprocal_refuted : exists rate k, (b64 rate == rate)%Q /\ (grid_reciprocal rate k < grid_time rate k)%Q.
Proof. exists 3%Q, 5%Z. split; vm_compute; reflexivity. Qed.

(* the same witness stated on Flocq's rounding operator *)
Lemma Q2R_Zlit z : Q2R (z # 1) = IZR z.
Proof. apply (Q2R_inject_Z z). Qed.

Theorem RN_reciprocal_refuted : RN (5 * RN (1 / 3)) < RN (5 / 3).
Proof.
  assert (A : Q2R (grid_reciprocal 3 5) = RN (5 * RN (1 / 3))).
  { unfold grid_reciprocal. rewrite b64_is_RN, Q2R_mult, b64_is_RN. unfold Qdiv.
    rewrite Q2R_mult, Q2R_inv; [|vm_compute; discriminate].
    rewrite (b64_is_RN 3). unfold inject_Z. rewrite !Q2R_Zlit. rewrite (RN_IZR 3) by (vm_compute; discriminate).
    unfold Rdiv. reflexivity. }
  assert (B : Q2R (grid_time 3 5) = RN (5 / 3)).
  { rewrite grid_time_is_RN by (vm_compute; discriminate). rewrite Q2R_Zlit. reflexivity. }
  rewrite <- A, <- B. apply Qlt_Rlt. vm_compute. reflexivity.
Qed.

(* a correctly rounded division of representable k and r IS the grid time: k / r in binary64 arithmetic *)
Theorem RN_division_is_grid (k : Z) (r : Q) : ~ (r == 0)%Q -> (Z.abs k <= 2 ^ 53)%Z -> RN (Q2R r) = Q2R r ->
  RN (RN (IZR k) / RN (Q2R r)) = Q2R (grid_time r k).
Proof. intros Hr Hk Hf. rewrite (RN_IZR k Hk), Hf. symmetry. apply grid_time_is_RN. exact Hr. Qed.

(* the model of get_sample_times hands out exactly the grid of the specification whenever the guard of the code holds *)
Theorem sample_times_grid rate durs ts lens : sample_times rate durs = ORet (ts, lens) ->
  let n := fold_right Z.max 0%Z lens in
  grid_guard rate n = true ->
  length ts = Z.to_nat n /\ forall k, (k < Z.to_nat n)%nat -> (nth k ts 0 == grid_time rate (Z.of_nat k))%Q.
Proof.
  intros ST n G. unfold sample_times in ST. destruct durs as [|d ds]; [discriminate|].
  destruct (all_ok _) as [l|]; [|discriminate]. injection ST as <- <-. fold n. split.
  - unfold zrange. rewrite !List.map_length, List.seq_length. reflexivity.
  - intros k Hk. unfold zrange.
    rewrite (List.nth_indep _ 0%Q (grid_impl rate n 0%Z)) by (rewrite !List.map_length, List.seq_length; exact Hk).
    rewrite List.map_nth. change 0%Z with (Z.of_nat 0) at 1. rewrite List.map_nth, List.seq_nth by exact Hk. cbn [plus].
    apply grid_impl_correct; [lia|exact G].
Qed.

(* ---- time_windows_to_samples on arbitrary binary64 inputs: the rounded product stays within the tolerance of the
   decimal stream (Spec.valid_conv_tol) for products up to 2^22 samples ---- *)
Require Import QV.C20.ProofsFloat2 QV.C20.Spec QV.C20.ProofsWinF.
Open Scope R_scope.

Lemma b64_close x : (0 <= x)%Q -> (x <= inject_Z (2 ^ 22))%Q -> (Qabs (b64 x - x) <= 1 # (2 ^ 31))%Q.
Proof.
  intros H0 H1. apply Rle_Qle. rewrite Q2R_Qabs, Q2R_minus, b64_is_RN.
  apply Qle_Rle in H0, H1. rewrite Q2R_0 in H0. rewrite Q2R_inject_Z in H1.
  eapply Rle_trans; [apply (RN_err (Q2R x) (IZR (2 ^ 22)))|].
  - rewrite Rabs_pos_eq; lra.
  - apply Rle_trans with 1%R; [|apply IZR_le; vm_compute; discriminate].
    change 1%R with (bpow radix2 0). apply bpow_le. lia.
  - rewrite u53_val. change (2 ^ 22)%Z with 4194304%Z. change (1 # 2 ^ 31)%Q with (1 # 2147483648)%Q.
    unfold Q2R. cbn [Qnum Qden]. lra.
Qed.

Theorem conv64_within_tolerance sr (w : Q * Q) :
  (0 <= fst w * sr <= inject_Z (2 ^ 22))%Q -> (0 <= snd w * sr <= inject_Z (2 ^ 22))%Q ->
  valid_conv_tol sr w (conv64 sr w) = true.
Proof.
  intros [B0 B1] [L0 L1]. unfold conv64. apply conv_tol_from_close; apply b64_close; assumption.
Qed.

(* ---- which side of an edge: the grid is monotone, and strictly so below 2^52 samples; a jump placed at the rational time
   j / rate (stored in a table as edge = b64 (j / rate)) has sample k at or after it exactly when k >= j ---- *)
Lemma rate_nonzero rate : (0 < rate)%Q -> ~ (rate == 0)%Q.
Proof. intros H E. rewrite E in H. discriminate H. Qed.

Theorem grid_time_monotone rate k j : (0 < rate)%Q -> (k <= j)%Z -> (grid_time rate k <= grid_time rate j)%Q.
Proof.
  intros Hr Hkj. apply Rle_Qle. rewrite !grid_time_is_RN by (apply rate_nonzero; exact Hr). apply RN_le.
  apply Qlt_Rlt in Hr. rewrite Q2R_0 in Hr. unfold Rdiv. apply Rmult_le_compat_r; [left; apply Rinv_0_lt_compat; exact Hr|].
  apply IZR_le. exact Hkj.
Qed.

Theorem grid_time_strict rate k j : (0 < rate)%Q -> (0 <= k < j)%Z -> (j < 2 ^ 52)%Z ->
  bpow radix2 (-1022) <= IZR j / Q2R rate -> (grid_time rate k < grid_time rate j)%Q.
Proof.
  intros Hr Hk Hj Hy. apply Rlt_Qlt. rewrite !grid_time_is_RN by (apply rate_nonzero; exact Hr).
  apply Qlt_Rlt in Hr. rewrite Q2R_0 in Hr. set (r := Q2R rate) in *.
  assert (Hir : 0 < / r) by (apply Rinv_0_lt_compat; exact Hr).
  set (x := IZR k / r). set (y := IZR j / r) in *.
  assert (Hk0 : 0 <= IZR k) by (apply IZR_le; lia).
  assert (Hx0 : 0 <= x) by (unfold x, Rdiv; apply Rmult_le_pos; lra).
  assert (Hd : / r <= y - x).
  { unfold x, y, Rdiv. rewrite <- Rmult_minus_distr_r, <- minus_IZR.
    rewrite <- (Rmult_1_l (/ r)) at 1. apply Rmult_le_compat_r; [lra|]. apply IZR_le. lia. }
  assert (Hxy : x <= y) by lra.
  assert (Hy0 : 0 < y) by (eapply Rlt_le_trans; [apply (bpow_gt_0 radix2 (-1022))|exact Hy]).
  pose proof (RN_err x y ltac:(rewrite Rabs_pos_eq; lra) Hy) as A.
  pose proof (RN_err y y ltac:(rewrite Rabs_pos_eq; lra) Hy) as B.
  apply Rabs_le_inv in A, B.
  destruct (Rlt_or_le (RN x) (RN y)) as [L|L]; [exact L|exfalso].
  assert (D : / r <= 2 * y * u53) by lra.
  replace (2 * y * u53) with (/ r * (2 * IZR j * u53)) in D by (unfold y, Rdiv; ring).
  rewrite <- (Rmult_1_r (/ r)) in D at 1. apply Rmult_le_reg_l in D; [|exact Hir].
  rewrite u53_val in D.
  assert (Hj' : IZR j <= 4503599627370495) by (apply IZR_le; change (2 ^ 52)%Z with 4503599627370496%Z in Hj; lia).
  lra.
Qed.

(* a jump placed at the rational time j / rate is stored in a table at edge = b64 (j / rate); sample k lies at or after the
   edge exactly when k >= j *)
Theorem grid_edge_side rate j k : (0 < rate)%Q -> (0 <= k)%Z -> (0 <= j < 2 ^ 52)%Z ->
  ((0 < j)%Z -> bpow radix2 (-1022) <= IZR j / Q2R rate) ->          (* round 5: an edge at time 0 (j = 0) is included *)
  ((b64 (inject_Z j / rate) <= grid_time rate k)%Q <-> (j <= k)%Z).
Proof.
  intros Hr Hk Hj Hy. change (b64 (inject_Z j / rate)) with (grid_time rate j). split.
  - intro H. destruct (Z_lt_le_dec k j) as [L|L]; [exfalso|exact L].
    pose proof (grid_time_strict rate k j Hr ltac:(lia) ltac:(lia) (Hy ltac:(lia))) as S.
    apply Qle_not_lt in H. apply H. exact S.
  - intro H. apply grid_time_monotone; assumption.
Qed.

(* ---- the model of get_sample_times meets the specification spec_times (lengths: ProofsTimes, exact; grid: above) ---- *)
Require Import QV.common.Util QV.C20.ProofsTimes.
Import ListNotations.
Lemma grid_forallb rate n m s : grid_guard rate n = true -> (Z.of_nat (s + m) <= n)%Z ->
  forallb (fun p : nat * Q => Qeq_bool (snd p) (grid_time rate (Z.of_nat (fst p))))
          (combine (seq s m) (map (grid_impl rate n) (map Z.of_nat (seq s m)))) = true.
Proof.
  revert s. induction m as [|m IH]; intros s G H; cbn [seq map combine forallb]; [reflexivity|].
  apply andb_true_intro. split.
  - cbn [fst snd]. apply Qeq_bool_iff. apply grid_impl_correct; [lia|exact G].
  - apply IH; [exact G|lia].
Qed.

Lemma fold_max_nonneg l : (0 <= fold_right Z.max 0 l)%Z.
Proof. induction l; cbn; lia. Qed.

Theorem sample_times_meets_spec rate durs :
  match sample_times rate durs with ORet (_, lens) => grid_guard rate (fold_right Z.max 0%Z lens) | OErr => true end = true ->
  spec_times rate durs (sample_times rate durs) = true.
Proof.
  destruct durs as [|d ds]; [reflexivity|]. unfold spec_times, sample_times.
  pose proof (all_ok_lengths rate (d :: ds)) as A.
  destruct (all_ok (map (waveform_length rate) (d :: ds))) as [lens|].
  - destruct A as (A & B & C). intro G. rewrite A. set (n := fold_right Z.max 0%Z lens) in *.
    pose proof (fold_max_nonneg lens) as Hn. fold n in Hn.
    assert (L : length (map (grid_impl rate n) (zrange n)) = Z.to_nat n).
    { unfold zrange. rewrite !map_length, seq_length. reflexivity. }
    rewrite L. apply andb_true_intro. split; [apply andb_true_intro; split; [apply andb_true_intro; split|]|].
    + apply Nat.eqb_eq. exact B.
    + exact C.
    + apply Z.eqb_eq. lia.
    + unfold zrange. apply grid_forallb; [exact G|lia].
  - intros _. rewrite A. reflexivity.
Qed.
