(* C20 — correspondence cases.  Every case carries the inputs and the implementation's observations (the two
   internal variants called directly + the public entry point).  check_corr: model = implementation, variant by
   variant.  check_spec: the property's specification (Spec.v) on the public observation + "the alternative
   implementations return identical results".
   Round 3: CTwice wraps a case whose routine was called TWICE ON THE SAME ARGUMENT OBJECTS: `first` / `again` carry the
   observations of the two calls, `ins` the harness' snapshots of every argument array (element kind code :: values)
   before the first call, after the first and after the second.  The models are pure functions, so "model =
   implementation" includes: the arguments are left as they were and the second call observes what the first did.
   CAnd: a pipeline case (the output of one routine fed into the next one / into the same one again). *)
From Coq Require Import ZArith QArith Qround Qabs Bool List.
Require Import QV.common.Util QV.C20.Model QV.C20.Spec.
Import ListNotations.
Open Scope Z_scope.

Definition shrink_obs : Type := outcome (list (Z * Z) * bool).

Inductive case :=
| CVolt (amp off : Q) (res : Z) (vs : list Q) (o_np o_loop o_pub : outcome (list Z))
| CVoltTol (amp off : Q) (res : Z) (vs : list Q) (o_np o_loop o_pub : outcome (list Z))
| CMono (xs : list Q) (o_np o_loop o_pub : bool)
| CWin (sr : Q) (ws : list (Q * Q)) (o_np o_loop o_pub : list (Z * Z))
| CWinF (sr : Q) (ws : list (Q * Q)) (o_np o_loop o_pub : list (Z * Z))     (* decimal stream: arbitrary binary64 inputs *)
| CShrink (ws : list (Z * Z)) (o_np o_loop o_pub : shrink_obs)
| CAvg (nch : nat) (time : list Q) (values : list (list Q)) (ws : list (Q * Q)) (o_np o_loop o_pub : list (list (option Q)))
| CNni (l : list (option Z)) (o : list (option Z) * Z)
| CTimes (rate : Q) (durs : list Q) (o : outcome (list Q * list Z))
| CSample (chans : list (option chan_cfg)) (markers : list (option Z)) (rate : Q) (wfs : list wf_obs)
          (o : outcome (list sampled))
| CTwice (first again : case) (ins : list (list (list Q)))
| CAnd (c1 c2 : case)
| CCrash.

Definition volt_eqb := outcome_eqb Zlist_eqb.
Definition win_eqb := list_eqb ZZ_eqb.
Definition shrink_eqb : shrink_obs -> shrink_obs -> bool :=
  outcome_eqb (fun a b => win_eqb (fst a) (fst b) && Bool.eqb (snd a) (snd b)).
Definition times_eqb : outcome (list Q * list Z) -> outcome (list Q * list Z) -> bool :=
  outcome_eqb (fun a b => Qlist_eqb (fst a) (fst b) && Zlist_eqb (snd a) (snd b)).
Definition nni_eqb (a b : list (option Z) * Z) : bool := list_eqb (opt_eqb Z.eqb) (fst a) (fst b) && (snd a =? snd b).

Fixpoint nodupQ (l : list Q) : bool :=
  match l with [] => true | x :: r => negb (existsb (Qeq_bool x) r) && nodupQ r end.

(* windows with equal begins: numpy's default argsort leaves their relative order unspecified, so the model's
   (stable) order is compared exactly only when all begins are distinct, or the input is already sorted and the
   variant keeps it; otherwise: "some begin-sorted arrangement of the converted windows" *)
Definition win_corr (strict : bool) (sr : Q) (ws : list (Q * Q)) (model obs : list (Z * Z)) : bool :=
  if strict || nodupQ (map fst ws) then win_eqb model obs
  else match_sorted (fun w o => ZZ_eqb (conv sr w) o) obs ws.

Definition win_corr64 (strict : bool) (sr : Q) (ws : list (Q * Q)) (model obs : list (Z * Z)) : bool :=
  if strict || nodupQ (map fst ws) then win_eqb model obs
  else match_sorted (fun w o => ZZ_eqb (conv64 sr w) o) obs ws.

(* the public entry point dispatches on `numba is None`; either variant is accepted for it *)
Definition either {A} (e : A -> A -> bool) (m1 m2 o : A) : bool := e m1 o || e m2 o.

(* tolerance stream: the model's exact codes may differ by one from the float codes near a half-way point *)
Definition volt_tol_corr (amp off : Q) (res : Z) (vs : list Q) (model obs : outcome (list Z)) : bool :=
  match model, obs with
  | OErr, OErr => true
  | ORet ms, ORet cs => (length cs =? length ms)%nat
                        && forallb (fun p : (Q * Z) * Z =>
                                      (snd (fst p) =? snd p)
                                      || (code_tol_ok amp off res (fst (fst p)) (snd p) && (Z.abs (snd (fst p) - snd p) =? 1)))
                                   (combine (combine vs ms) cs)
  | _, _ => false
  end.

(* every snapshot equals the first one: no argument array was modified (values or element kind) *)
Definition unchanged (ins : list (list (list Q))) : bool :=
  match ins with
  | [] => false
  | s0 :: r => forallb (list_eqb Qlist_eqb s0) r
  end.

Definition sample_obs_eqb : outcome (list sampled) -> outcome (list sampled) -> bool := outcome_eqb (list_eqb sampled_eqb).

(* the observations (not the inputs) of two cases of the same kind are identical *)
Definition same_obs (a b : case) : bool :=
  match a, b with
  | CVolt _ _ _ _ a1 a2 a3, CVolt _ _ _ _ b1 b2 b3 => volt_eqb a1 b1 && volt_eqb a2 b2 && volt_eqb a3 b3
  | CVoltTol _ _ _ _ a1 a2 a3, CVoltTol _ _ _ _ b1 b2 b3 => volt_eqb a1 b1 && volt_eqb a2 b2 && volt_eqb a3 b3
  | CMono _ a1 a2 a3, CMono _ b1 b2 b3 => Bool.eqb a1 b1 && Bool.eqb a2 b2 && Bool.eqb a3 b3
  | CWin _ _ a1 a2 a3, CWin _ _ b1 b2 b3 => win_eqb a1 b1 && win_eqb a2 b2 && win_eqb a3 b3
  | CWinF _ _ a1 a2 a3, CWinF _ _ b1 b2 b3 => win_eqb a1 b1 && win_eqb a2 b2 && win_eqb a3 b3
  | CShrink _ a1 a2 a3, CShrink _ b1 b2 b3 => shrink_eqb a1 b1 && shrink_eqb a2 b2 && shrink_eqb a3 b3
  | CAvg _ _ _ _ a1 a2 a3, CAvg _ _ _ _ b1 b2 b3 => avg_eqb a1 b1 && avg_eqb a2 b2 && avg_eqb a3 b3
  | CNni _ a1, CNni _ b1 => nni_eqb a1 b1
  | CTimes _ _ a1, CTimes _ _ b1 => times_eqb a1 b1
  | CSample _ _ _ _ a1, CSample _ _ _ _ b1 => sample_obs_eqb a1 b1
  | _, _ => false
  end.

Fixpoint check_corr (c : case) : bool :=
  match c with
  | CTwice first again ins => check_corr first && same_obs first again && unchanged ins
  | CAnd c1 c2 => check_corr c1 && check_corr c2
  | CVoltTol amp off res vs o_np o_loop o_pub =>
      volt_tol_corr amp off res vs (volt_numpy amp off res vs) o_np && volt_tol_corr amp off res vs (volt_loop amp off res vs) o_loop
      && volt_tol_corr amp off res vs (volt_public amp off res vs) o_pub
      (* round 6: EXACT also here: the binary64 model rounds every operation like the code (the public entry point behind
         its resolution guard; the internal variants only behind it, as for CVolt) *)
      && volt_eqb (volt_public64 amp off res vs) o_pub
      && (if (res <? 1) || (16 <? res) then true
          else volt_eqb (volt_numpy64 amp off res vs) o_np && volt_eqb (volt_loop64 amp off res vs) o_loop)
  | CVolt amp off res vs o_np o_loop o_pub =>
      if res <? 1 then volt_eqb OErr o_pub        (* the internal variants are only meaningful behind the guard *)
      else if 16 <? res then                       (* behind the guard too, but their uint16 wrap-around is modelled *)
        volt_eqb OErr o_pub
        && (if 30 <? res then true        (* codes >= 2^31: the conversion is no longer "mod 2^16" (observed: 0) *)
            else volt_eqb (volt_numpy16 amp off res vs) o_np && volt_eqb (volt_loop16 amp off res vs) o_loop)
      else volt_eqb (volt_numpy16 amp off res vs) o_np && volt_eqb (volt_loop16 amp off res vs) o_loop
           && either volt_eqb (volt_numpy16 amp off res vs) (volt_loop16 amp off res vs) o_pub
  | CMono xs o_np o_loop o_pub =>
      Bool.eqb (mono_numpy xs) o_np && Bool.eqb (mono_loop xs) o_loop
      && either Bool.eqb (mono_numpy xs) (mono_loop xs) o_pub
  | CWin sr ws o_np o_loop o_pub =>
      win_corr false sr ws (tw_numpy sr ws) o_np
      && win_corr (mono_loop (map fst ws)) sr ws (tw_loop sr ws) o_loop
      && (win_corr false sr ws (tw_numpy sr ws) o_pub || win_corr (mono_loop (map fst ws)) sr ws (tw_loop sr ws) o_pub)
  | CWinF sr ws o_np o_loop o_pub =>      (* EXACT also here: the model rounds the product to binary64 like the code *)
      win_corr64 false sr ws (tw_numpy64 sr ws) o_np
      && win_corr64 (mono_loop (map fst ws)) sr ws (tw_loop64 sr ws) o_loop
      && (win_corr64 false sr ws (tw_numpy64 sr ws) o_pub || win_corr64 (mono_loop (map fst ws)) sr ws (tw_loop64 sr ws) o_pub)
  | CShrink ws o_np o_loop o_pub =>
      shrink_eqb (shrink_numpy ws) o_np && shrink_eqb (shrink_loop ws) o_loop
      && either shrink_eqb (shrink_numpy ws) (shrink_loop ws) o_pub
  | CAvg nch time values ws o_np o_loop o_pub =>
      avg_eqb (avg_numpy nch time values ws) o_np && avg_eqb (avg_loop nch time values ws) o_loop
      && either avg_eqb (avg_numpy nch time values ws) (avg_loop nch time values ws) o_pub
  | CNni l o => nni_eqb (not_none_indices l) o
  | CTimes rate durs o => times_eqb (sample_times rate durs) o
  | CSample chans markers rate wfs o => outcome_eqb (list_eqb sampled_eqb) (entry_waveforms chans markers rate wfs) o
  | CCrash => false
  end.

(* "does not depend on earlier calls": the second call on the same argument objects returns what the first returned
   (in particular it meets the specification again), and no argument was modified. *)
Fixpoint check_spec (c : case) : bool :=
  match c with
  | CTwice first again ins => check_spec first && same_obs first again && unchanged ins
  | CAnd c1 c2 => check_spec c1 && check_spec c2
  | CVoltTol amp off res vs o_np o_loop o_pub =>
      spec_volt_tol amp off res vs o_pub && volt_eqb o_np o_loop && volt_eqb o_np o_pub
  | CVolt amp off res vs o_np o_loop o_pub =>
      spec_volt amp off res vs o_pub
      && (if res <? 1 then true else if 16 <? res then volt_eqb o_np o_loop else volt_eqb o_np o_loop && volt_eqb o_np o_pub)
  | CMono xs o_np o_loop o_pub =>
      Bool.eqb (sortedb xs) o_pub && Bool.eqb o_np o_loop
  | CWin sr ws o_np o_loop o_pub =>
      spec_tw sr ws o_pub && win_eqb o_np o_loop && win_eqb o_np o_pub
  | CWinF sr ws o_np o_loop o_pub =>
      spec_tw_tol sr ws o_pub && win_eqb o_np o_loop && win_eqb o_np o_pub
  | CShrink ws o_np o_loop o_pub =>
      spec_shrink ws o_pub && shrink_eqb o_np o_loop && shrink_eqb o_np o_pub
  | CAvg nch time values ws o_np o_loop o_pub =>
      avg_eqb (spec_avg nch time values ws) o_pub && avg_eqb o_np o_loop && avg_eqb o_np o_pub
  | CNni l o => spec_nni [] l (fst o)
                && (snd o =? Z.of_nat (length (filter (fun x => match x with Some _ => true | None => false end) l)))
  | CTimes rate durs o => spec_times rate durs o
  | CSample chans markers rate wfs o => outcome_eqb (list_eqb sampled_eqb) (spec_entry chans markers rate wfs) o
  | CCrash => false
  end.
