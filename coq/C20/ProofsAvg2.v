(* C20 — average_windows: on a sorted time axis and windows sorted by begin AND by end (the guard that excludes the
   known finding C20-average-loop-unsorted-windows) the two-pointer loop of _average_windows_numba computes, for every
   window, the mean over begin <= t < end — hence the same as the searchsorted variant. *)
From Coq Require Import ZArith QArith Qround Qabs Bool List Lia ZifyBool Lqa Sorted.
Require Import QV.common.Util QV.C20.Model QV.C20.Spec QV.C20.ProofsAvg.
Import ListNotations.
Open Scope Q_scope.

Definition wbe (a : awin) : Q * Q := let '(b, e, _, _) := a in (b, e).
Definition ple (x y : Q * Q) : Prop := fst x <= fst y /\ snd x <= snd y.
Definition win_sorted (l : list awin) : Prop := StronglySorted ple (map wbe l).

(* what a pending window collects from the samples R: those with begin <= t < end, independent of the other windows *)
Definition absorb (R : list (Q * list Q)) (a : awin) : awin :=
  let '(b, e, s, c) := a in
  let sel := filter (in_win (b, e)) R in
  (b, e, fold_left vsum (map snd sel) s, (c + Z.of_nat (length sel))%Z).

Lemma Qle_bool_false x y : Qle_bool x y = false -> y < x.
Proof.
  intro H. apply Qnot_le_lt. intro L. apply Qle_bool_iff in L. congruence.
Qed.

Lemma ple_trans : forall a b c, ple a b -> ple b c -> ple a c.
Proof. unfold ple. intros a b c [H1 H2] [H3 H4]. split; lra. Qed.

Lemma StronglySorted_app_r {X} (R : X -> X -> Prop) : forall l1 l2, StronglySorted R (l1 ++ l2) -> StronglySorted R l2.
Proof. induction l1 as [|x l1 IH]; intros l2 H; [exact H|]. inversion H; subst. apply IH. assumption. Qed.

Lemma filter_none {X} (f : X -> bool) : forall l, Forall (fun x => f x = false) l -> filter f l = [].
Proof. induction l as [|x l IH]; intro H; [reflexivity|]. inversion H; subst. cbn. rewrite H2. apply IH. assumption. Qed.

Lemma absorb_none R a : Forall (fun s => in_win (wbe a) s = false) R -> absorb R a = a.
Proof.
  destruct a as [[[b e] s] c]. cbn [wbe]. intro H. unfold absorb. rewrite (filter_none _ _ H). cbn.
  rewrite Z.add_0_r. reflexivity.
Qed.

Lemma map_absorb_none R : forall l, Forall (fun a => Forall (fun s => in_win (wbe a) s = false) R) l -> map (absorb R) l = l.
Proof.
  induction l as [|a l IH]; intro H; [reflexivity|]. inversion H; subst. cbn [map]. rewrite absorb_none by assumption.
  rewrite IH by assumption. reflexivity.
Qed.

(* close_front splits the pending list into the windows whose end has passed and the rest; with ends sorted the rest
   are all still open *)
Lemma close_front_spec t : forall pend, win_sorted pend ->
  pend = fst (close_front t pend) ++ snd (close_front t pend)
  /\ Forall (fun a => snd (wbe a) <= t) (fst (close_front t pend))
  /\ Forall (fun a => t < snd (wbe a)) (snd (close_front t pend)).
Proof.
  induction pend as [|[[[b e] s] c] r IH]; intro S.
  - cbn. auto.
  - cbn [close_front]. destruct (Qle_bool e t) eqn:E.
    + unfold win_sorted in S. cbn [map] in S. inversion S as [|? ? S' F]; subst. specialize (IH S').
      destruct (close_front t r) as [d p]. cbn [fst snd] in *. destruct IH as (E1 & F1 & F2).
      split; [cbn; f_equal; exact E1|]. split; [|exact F2].
      constructor; [cbn; apply Qle_bool_iff; exact E|exact F1].
    + cbn [fst snd app]. split; [reflexivity|]. split; [constructor|].
      apply Qle_bool_false in E.
      unfold win_sorted in S. cbn [map wbe] in S. inversion S as [|? ? S' F]; subst.
      constructor; [cbn; exact E|].
      apply Forall_forall. intros a Ha. rewrite Forall_forall in F.
      assert (ple (b, e) (wbe a)) as [_ H2] by (apply F; apply in_map; exact Ha). cbn in H2. lra.
Qed.

(* add_prefix keeps begins and ends *)
Lemma add_prefix_wbe t v : forall p, map wbe (add_prefix t v p) = map wbe p.
Proof.
  induction p as [|[[[b e] s] c] r IH]; [reflexivity|]. cbn [add_prefix].
  destruct (Qle_bool b t); [|reflexivity]. cbn [map wbe]. rewrite IH. reflexivity.
Qed.

(* windows whose begin has not been reached do not see the sample *)
Lemma absorb_skip t v R' : forall l, Forall (fun a => t < fst (wbe a)) l ->
  map (absorb ((t, v) :: R')) l = map (absorb R') l.
Proof.
  induction l as [|[[[b e] s] c] l IH]; intro F; [reflexivity|]. inversion F as [|? ? Hb F']; subst. cbn [map].
  rewrite IH by exact F'. f_equal. cbn [wbe fst] in Hb.
  assert (Hin : in_win (b, e) (t, v) = false).
  { unfold in_win. cbn [fst snd]. destruct (Qle_bool b t) eqn:E; [|reflexivity]. apply Qle_bool_iff in E. lra. }
  unfold absorb. cbn [filter]. rewrite Hin. reflexivity.
Qed.

Lemma add_prefix_absorb t v R' : forall p, win_sorted p -> Forall (fun a => t < snd (wbe a)) p ->
  map (absorb ((t, v) :: R')) p = map (absorb R') (add_prefix t v p).
Proof.
  induction p as [|[[[b e] s] c] r IH]; intros S F; [reflexivity|].
  unfold win_sorted in S. cbn [map wbe] in S. inversion S as [|? ? S' Fs]; subst.
  inversion F as [|? ? He F']; subst. cbn [wbe snd] in He.
  cbn [add_prefix]. destruct (Qle_bool b t) eqn:E.
  - cbn [map]. rewrite <- (IH S' F'). f_equal.
    assert (Hin : in_win (b, e) (t, v) = true).
    { unfold in_win. cbn [fst snd]. rewrite E. destruct (Qle_bool e t) eqn:E2; [|reflexivity].
      apply Qle_bool_iff in E2. lra. }
    unfold absorb. cbn [filter]. rewrite Hin. cbn [map snd fold_left length]. f_equal. lia.
  - apply Qle_bool_false in E. apply absorb_skip. constructor; [cbn; exact E|].
    apply Forall_forall. intros a Ha. rewrite Forall_forall in Fs.
    assert (ple (b, e) (wbe a)) as [H1 _] by (apply Fs; apply in_map; exact Ha). cbn in H1. lra.
Qed.

(* the invariant of the sample loop *)
Lemma loop_go_absorb : forall R done pend, StronglySorted Qle (map fst R) -> win_sorted pend ->
  avg_loop_go R done pend = done ++ map (absorb R) pend.
Proof.
  induction R as [|[t v] R' IH]; intros done pend ST SW.
  - cbn [avg_loop_go]. rewrite map_absorb_none; [reflexivity|]. apply Forall_forall. intros; constructor.
  - cbn [avg_loop_go]. cbn [map fst] in ST. inversion ST as [|? ? ST' Ft]; subst.
    destruct (close_front_spec t pend SW) as (Ep & Fd & Fp).
    destruct (close_front t pend) as [d p]. cbn [fst snd] in *.
    assert (SWp : win_sorted p).
    { unfold win_sorted in *. rewrite Ep, map_app in SW. eapply StronglySorted_app_r; exact SW. }
    rewrite IH; [|exact ST'|unfold win_sorted; rewrite add_prefix_wbe; exact SWp].
    rewrite <- add_prefix_absorb by assumption.
    subst pend. rewrite map_app, <- app_assoc. f_equal. f_equal.
    symmetry. apply map_absorb_none.
    eapply Forall_impl; [|exact Fd]. intros a Ha. cbn beta in Ha.
    assert (Hall : Forall (fun s : Q * list Q => snd (wbe a) <= fst s) ((t, v) :: R')).
    { constructor; [exact Ha|]. apply Forall_forall. intros s0 Hs. rewrite Forall_forall in Ft.
      assert (t <= fst s0) by (apply Ft; apply in_map; exact Hs). lra. }
    eapply Forall_impl; [|exact Hall]. intros s0 H0. cbn beta in H0. unfold in_win.
    apply Qle_bool_iff in H0. rewrite H0. apply andb_false_r.
Qed.

Lemma map_fst_combine {X Y} : forall (l1 : list X) (l2 : list Y), length l2 = length l1 -> map fst (combine l1 l2) = l1.
Proof.
  induction l1 as [|x l1 IH]; intros [|y l2] H; try discriminate; [reflexivity|]. cbn. f_equal. apply IH.
  injection H as H. exact H.
Qed.

Lemma guard_sorted : forall ws, guard_C20_average_sorted_windows ws = true -> StronglySorted ple ws.
Proof.
  intros ws H. apply Sorted_StronglySorted; [exact ple_trans|].
  induction ws as [|a ws IH]; [constructor|]. destruct ws as [|b ws]; [repeat constructor|].
  cbn [guard_C20_average_sorted_windows] in H. apply andb_prop in H as [H12 H3]. apply andb_prop in H12 as [H1 H2].
  constructor; [apply IH; exact H3|]. constructor. split; apply Qle_bool_iff; assumption.
Qed.

Lemma wbe_init nch : forall ws : list (Q * Q),
  map wbe (map (fun w : Q * Q => (fst w, snd w, zero_row nch, 0%Z)) ws) = ws.
Proof. induction ws as [|[b e] ws IH]; [reflexivity|]. cbn. f_equal. exact IH. Qed.

(* the loop variant is the mean over begin <= t < end (Leibniz equality with the filter specification) *)
Theorem avg_loop_is_spec nch time values ws :
  Sorted Qle time -> length values = length time -> guard_C20_average_sorted_windows ws = true ->
  avg_loop nch time values ws = spec_avg nch time values ws.
Proof.
  intros S L G. unfold avg_loop, spec_avg.
  rewrite loop_go_absorb.
  - cbn [app]. rewrite !map_map. apply map_ext. intros [b e]. cbn [fst snd absorb].
    unfold spec_avg_one. cbn [fst snd].
    change (fun s : Q * list Q => Qle_bool b (fst s) && negb (Qle_bool e (fst s))) with (in_win (b, e)).
    set (sel := filter (in_win (b, e)) (combine time values)).
    unfold finalize. rewrite Z.add_0_l.
    destruct sel as [|x sel']; [reflexivity|].
    replace (Z.of_nat (length (x :: sel')) =? 0)%Z with false by (cbn [length]; lia). reflexivity.
  - rewrite map_fst_combine by exact L. apply Sorted_StronglySorted; [|exact S]. intros a b c; apply Qle_trans.
  - unfold win_sorted. rewrite wbe_init. apply guard_sorted. exact G.
Qed.

Lemma avg_eqb_refl a : avg_eqb a a = true.
Proof.
  unfold avg_eqb. induction a as [|r a IH]; [reflexivity|]. cbn [list_eqb]. rewrite IH, andb_true_r.
  induction r as [|o r IHr]; [reflexivity|]. cbn [list_eqb]. rewrite IHr, andb_true_r.
  destruct o as [q|]; [|reflexivity]. cbn. apply Qeq_bool_iff. reflexivity.
Qed.

(* the statement left open in round 1 (the row-length hypothesis is not needed) *)
Theorem avg_variants_equal : C20_average_variants_equal_statement.
Proof.
  intros nch time values ws S L _ G.
  rewrite (avg_loop_is_spec nch time values ws S L G), (avg_numpy_is_spec nch time values ws S L). apply avg_eqb_refl.
Qed.

(* the guard is tight in the sense of the refuted class: every adjacent pair violating it can be completed to a
   counterexample is NOT claimed; what is claimed: the witness of the known finding violates it (ProofsAvg.v). *)
