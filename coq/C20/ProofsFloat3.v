(* C20 — round 6: the RANGE ENDS and the CODE RANGE of voltage_to_uint16 IN BINARY64 (Flocq; same model as ProofsFloat.v),
   and the executable binary64 model Model.code64 / volt_numpy64 / volt_loop64 that check_corr compares EXACTLY with the
   implementation on the decimal stream (CVoltTol).
     fcode_via_diff        the float code depends on the voltage only through x = RN (v - off)
     fcode_range_ends      x = amp -> code 2^res - 1 ;  x = -amp -> code 0            (2^-500 <= amp <= 2^500, 1 <= res <= 16)
     fcode_in_code_range   |x| <= amp (THE CODE'S OWN RANGE TEST passes) -> 0 <= code <= 2^res - 1
     in_range_accepted     amp a binary64 number, |v - off| <= amp (exact) -> |x| <= amp  (in-range input is never rejected)
     code64_is_fcode       Model.code64 (executable, Q, b64) = fcode on the reals
     out_of_range64_spec   Model.out_of_range64 = false  <->  |RN (v - off)| <= amp
     volt64_variants       volt_loop64 = volt_numpy64
     volt64_accepts        volt_numpy64 = ORet cs  ->  every code is code64 of its voltage, lies in 0 .. 2^res - 1 (so the uint16
                           store changes nothing), the codes are monotone in the voltage, and a voltage whose difference to the
                           offset is (in binary64) +-amp gets the highest / lowest code *)
From Coq Require Import ZArith QArith Qround Qabs Qreals Reals Lra Lia List Bool.
From Flocq Require Import Core.
Require Import QV.common.Util QV.C20.Model QV.C20.ProofsFloat QV.C20.ProofsFloat2 QV.C20.ProofsGrid.
Import ListNotations.
Open Scope R_scope.

Lemma RN_idem x : RN (RN x) = RN x.
Proof.
  unfold RN. apply round_generic; [apply valid_rnd_N|].
  apply generic_format_round; [apply FLT_exp_valid; reflexivity|apply valid_rnd_N].
Qed.

Lemma fcode_via_diff amp off res v : fcode amp off res v = fcode amp 0 res (RN (v - off)).
Proof. unfold fcode. rewrite Rminus_0_r, RN_idem. reflexivity. Qed.

Theorem in_range_accepted amp off v : generic_format radix2 fexp amp -> Rabs (v - off) <= amp -> Rabs (RN (v - off)) <= amp.
Proof.
  intros Hf H. unfold RN. apply abs_round_le_generic; [apply FLT_exp_valid; reflexivity|apply valid_rnd_N|exact Hf|exact H].
Qed.

Section Ends.
Variable amp : R.
Variable res : Z.
Hypothesis Hlo : bpow radix2 (-500) <= amp.
Hypothesis Hhi : amp <= bpow radix2 500.
Hypothesis Hres : (1 <= res <= 16)%Z.

Lemma amp_gt0 : 0 < amp.
Proof. eapply Rlt_le_trans; [apply (bpow_gt_0 radix2 (-500))|exact Hlo]. Qed.

Lemma fcode_top : fcode amp 0 res amp = (2 ^ res - 1)%Z.
Proof.
  pose proof amp_gt0 as Hp.
  assert (Hv : Rabs (amp - 0) <= amp) by (rewrite Rminus_0_r, Rabs_pos_eq; lra).
  pose proof (fscaled_error amp 0 amp res Hlo Hhi Hv Hres) as He.
  assert (Ex : xscaled amp 0 res amp = IZR (2 ^ res - 1)) by (unfold xscaled; field; lra).
  rewrite Ex in He. unfold fcode. apply Znearest_imp. eapply Rle_lt_trans; [exact He|apply bpow_m30_lt_half].
Qed.

Lemma fcode_bottom : fcode amp 0 res (- amp) = 0%Z.
Proof.
  pose proof amp_gt0 as Hp.
  assert (Hv : Rabs (- amp - 0) <= amp) by (rewrite Rminus_0_r, Rabs_Ropp, Rabs_pos_eq; lra).
  pose proof (fscaled_error amp 0 (- amp) res Hlo Hhi Hv Hres) as He.
  assert (Ex : xscaled amp 0 res (- amp) = IZR 0) by (unfold xscaled; field; lra).
  rewrite Ex in He. unfold fcode. apply Znearest_imp. eapply Rle_lt_trans; [exact He|apply bpow_m30_lt_half].
Qed.

Theorem fcode_range_ends off v :
  (RN (v - off) = amp -> fcode amp off res v = (2 ^ res - 1)%Z) /\ (RN (v - off) = - amp -> fcode amp off res v = 0%Z).
Proof. split; intro E; rewrite fcode_via_diff, E; [apply fcode_top|apply fcode_bottom]. Qed.

Theorem fcode_in_code_range off v : Rabs (RN (v - off)) <= amp -> (0 <= fcode amp off res v <= 2 ^ res - 1)%Z.
Proof.
  intro H. rewrite fcode_via_diff. apply Rabs_le_inv in H. pose proof amp_gt0 as Hp.
  pose proof fcode_top as Ht. pose proof fcode_bottom as Hb.
  assert (H0 : (0 <= res)%Z) by lia.
  pose proof (fcode_monotone amp 0 res (- amp) (RN (v - off)) (Rlt_le _ _ Hp) H0 (proj1 H)).
  pose proof (fcode_monotone amp 0 res (RN (v - off)) amp (Rlt_le _ _ Hp) H0 (proj2 H)).
  lia.
Qed.
End Ends.

(* ---- the executable binary64 model of Model.v is this float computation ---- *)
Lemma Q2R_two : Q2R (2 # 1) = 2.
Proof. unfold Q2R. cbn. lra. Qed.

Lemma RN_bpow_m500 : RN (bpow radix2 (-500)) = bpow radix2 (-500).
Proof. unfold RN. apply round_generic; [apply valid_rnd_N|]. apply generic_format_bpow. unfold fexp, FLT_exp. lia. Qed.

Lemma b64_2amp_nonzero (amp : Q) : bpow radix2 (-500) <= Q2R amp -> ~ (b64 ((2 # 1) * amp) == 0)%Q.
Proof.
  intros Hlo E. apply Qeq_eqR in E. rewrite b64_is_RN, Q2R_mult, Q2R_two, Q2R_0 in E.
  pose proof (bpow_gt_0 radix2 (-500)) as Hp.
  assert (H : bpow radix2 (-500) <= RN (2 * Q2R amp)) by (rewrite <- RN_bpow_m500; apply RN_le; lra).
  lra.
Qed.

Theorem code64_is_fcode (amp off v : Q) res : bpow radix2 (-500) <= Q2R amp ->
  code64 amp off res v = fcode (Q2R amp) (Q2R off) res (Q2R v).
Proof.
  intro Hlo. unfold code64, fcode. rewrite rint_is_ZnearestE. f_equal.
  rewrite b64_is_RN, Q2R_mult, b64_is_RN, Q2R_plus, b64_is_RN, Q2R_minus. f_equal. f_equal.
  unfold vscale64, fscale. rewrite b64_is_RN. f_equal.
  rewrite Q2R_div by (apply b64_2amp_nonzero; exact Hlo).
  rewrite Q2R_inject_Z, b64_is_RN, Q2R_mult, Q2R_two. reflexivity.
Qed.

Lemma out_of_range64_spec (amp off v : Q) : out_of_range64 amp off v = false <-> Rabs (RN (Q2R v - Q2R off)) <= Q2R amp.
Proof.
  unfold out_of_range64. rewrite negb_false_iff, Qle_bool_iff. rewrite <- Q2R_minus, <- b64_is_RN, <- Q2R_Qabs.
  split; [apply Qle_Rle|apply Rle_Qle].
Qed.

Lemma volt_loop_go64_spec amp off res vs flag acc :
  volt_loop_go64 amp off res vs flag acc
  = (flag || existsb (out_of_range64 amp off) vs, rev acc ++ map (fun v => store16 (code64 amp off res v)) vs).
Proof.
  revert flag acc. induction vs as [|v r IH]; intros; cbn.
  - rewrite orb_false_r, app_nil_r. reflexivity.
  - rewrite IH. cbn. rewrite <- app_assoc. cbn. f_equal.
    destruct (out_of_range64 amp off v); cbn; [rewrite orb_true_r; reflexivity|reflexivity].
Qed.

Theorem volt64_variants amp off res vs : volt_loop64 amp off res vs = volt_numpy64 amp off res vs.
Proof. unfold volt_loop64, volt_numpy64. rewrite volt_loop_go64_spec. cbn. destruct (existsb _ vs); reflexivity. Qed.

Lemma store16_small c : (0 <= c < 2 ^ 16)%Z -> store16 c = c.
Proof. intro H. unfold store16. apply Z.mod_small. exact H. Qed.

Lemma pow2_res_le res : (1 <= res <= 16)%Z -> (2 ^ res <= 2 ^ 16)%Z.
Proof. intro H. apply Z.pow_le_mono_r; lia. Qed.

(* What the binary64 models return when they return codes.  Position by position (nth): *)
Theorem volt64_accepts (amp off : Q) res vs cs :
  bpow radix2 (-500) <= Q2R amp <= bpow radix2 500 -> (1 <= res <= 16)%Z ->
  volt_public64 amp off res vs = ORet cs ->
  volt_loop64 amp off res vs = ORet cs
  /\ cs = map (code64 amp off res) vs
  /\ (forall v, In v vs -> (0 <= code64 amp off res v <= 2 ^ res - 1)%Z
                           /\ ((b64 (v - off) == amp)%Q -> code64 amp off res v = (2 ^ res - 1)%Z)
                           /\ ((b64 (v - off) == - amp)%Q -> code64 amp off res v = 0%Z))
  /\ (forall v1 v2, (v1 <= v2)%Q -> (code64 amp off res v1 <= code64 amp off res v2)%Z).
Proof.
  intros [Hlo Hhi] Hres H. unfold volt_public64 in H.
  replace ((res <? 1)%Z || (16 <? res)%Z) with false in H
    by (symmetry; apply orb_false_iff; split; apply Z.ltb_ge; lia).
  rewrite volt64_variants. unfold volt_numpy64 in *.
  destruct (existsb (out_of_range64 amp off) vs) eqn:E; [discriminate H|]. injection H as H.
  assert (Hin : forall v, In v vs -> (0 <= code64 amp off res v <= 2 ^ res - 1)%Z).
  { intros v Hv. rewrite (code64_is_fcode amp off v res Hlo).
    apply (fcode_in_code_range (Q2R amp) res Hlo Hhi Hres). apply out_of_range64_spec.
    destruct (out_of_range64 amp off v) eqn:Eo; [|reflexivity].
    assert (existsb (out_of_range64 amp off) vs = true) by (apply existsb_exists; exists v; split; assumption). congruence. }
  assert (Hmap : map (fun v => store16 (code64 amp off res v)) vs = map (code64 amp off res) vs).
  { apply map_ext_in. intros v Hv. apply store16_small. pose proof (Hin v Hv). pose proof (pow2_res_le res Hres). lia. }
  split; [rewrite <- H, Hmap; reflexivity|]. split; [rewrite <- H; exact Hmap|]. split.
  - intros v Hv. split; [exact (Hin v Hv)|].
    pose proof (fcode_range_ends (Q2R amp) res Hlo Hhi Hres (Q2R off) (Q2R v)) as [Ht Hb].
    rewrite (code64_is_fcode amp off v res Hlo). split; intro Eq; apply Qeq_eqR in Eq; rewrite b64_is_RN, Q2R_minus in Eq.
    + apply Ht. exact Eq.
    + apply Hb. rewrite Eq, Q2R_opp. reflexivity.
  - intros v1 v2 Hv. rewrite !(code64_is_fcode amp off _ res Hlo). apply fcode_monotone.
    + pose proof (bpow_gt_0 radix2 (-500)). lra.
    + lia.
    + apply Qle_Rle. exact Hv.
Qed.
