(* C20 — the property's own specification, independent of how the code computes (relational definitions made
   executable as boolean checkers over an observation).  Definitions only.
   What this file takes from Model.v (round-5 audit; everything else is defined here):
     - types: outcome (ORet / OErr), trafo, chan_cfg, wf_obs, sampled; result plumbing all_ok, map_out;
     - arithmetic helpers that are formulas, not routines: w_end (begin + length), vscale ((2^res - 1) / (2 amp)), vsum / zero_row
       (componentwise sum of rows);
     - b64 / grid_time (spec_times only): "the binary64 number nearest to the exact rational k / rate".  It is a rounding
       function, not a model of get_sample_times (that is grid_impl / grid_old / sample_times, which are NOT used here); its
       meaning is fixed by theorem C20_b64_is_RN (= Flocq's round radix2 (FLT_exp (-1074) 53) ZnearestE) and cross-checked on every
       run by the Python oracle float(Fraction(k) / rate).
   NOT used: rint (nearest_even / is_floor are relational), code1, conv, conv64, sort_w, shrink_*, avg_*, waveform_length,
   sample_times, sampled_channel / sampled_marker, not_none_indices, the flat memory. *)
From Coq Require Import ZArith QArith Qround Qabs Bool List.
Require Import QV.common.Util QV.C20.Model.
Import ListNotations.
Open Scope Z_scope.

Definition Zlist_eqb := list_eqb Z.eqb.
Definition Qlist_eqb := list_eqb Qeq_bool.
Definition ZZ_eqb (a b : Z * Z) : bool := (fst a =? fst b) && (snd a =? snd b).
Definition outcome_eqb {R} (e : R -> R -> bool) (a b : outcome R) : bool :=
  match a, b with
  | ORet x, ORet y => e x y
  | OErr, OErr => true
  | _, _ => false
  end.

(* z is an integer nearest to x, and the even one when x is exactly half way (numpy.rint / round()) *)
Definition nearest_even (x : Q) (z : Z) : bool :=
  let d := Qabs (x - inject_Z z) in
  Qle_bool d (1 # 2) && (negb (Qeq_bool d (1 # 2)) || Z.even z).
(* z = floor x *)
Definition is_floor (x : Q) (z : Z) : bool := Qle_bool (inject_Z z) x && negb (Qle_bool (inject_Z (z + 1)) x).

(* ------------------------------------------------------------------------------------------------------------ *)
(* DAC codes.  lo = off - amp, hi = off + amp, M = 2^res - 1 codes steps of size 2 amp / M. *)
Definition code_ok (amp off : Q) (res : Z) (v : Q) (c : Z) : bool :=
  let M := 2 ^ res - 1 in
  (0 <=? c) && (c <=? M) &&
  (* | c * step - (v - lo) | <= step / 2, multiplied by M:  | c * 2 amp - (v - lo) * M | <= amp; tie -> even code *)
  (let d := Qabs (inject_Z c * ((2 # 1) * amp) - (v - (off - amp)) * inject_Z M) in
   Qle_bool d amp && (negb (Qeq_bool d amp) || Z.even c)) &&
  (if Qeq_bool v (off - amp) then c =? 0 else true) &&
  (if Qeq_bool v (off + amp) then c =? M else true).

Fixpoint monotone_pairs (vc : list (Q * Z)) : bool :=
  match vc with
  | [] => true
  | (v, c) :: r => forallb (fun p : Q * Z => (if Qle_bool v (fst p) then c <=? snd p else true)
                                         && (if Qle_bool (fst p) v then snd p <=? c else true)) r
                   && monotone_pairs r
  end.

(* a resolution below 1 bit or above the 16 bits of the result type must be rejected: no uint16 array can hold the
   codes 0 .. 2^res - 1 monotonically *)
Definition spec_volt (amp off : Q) (res : Z) (vs : list Q) (obs : outcome (list Z)) : bool :=
  if (res <? 1) || (16 <? res) then match obs with OErr => true | _ => false end
  else if existsb (fun v => negb (Qle_bool (off - amp) v && Qle_bool v (off + amp))) vs then
    match obs with OErr => true | _ => false end                       (* out of range must be rejected *)
  else match obs with
       | OErr => false
       | ORet cs => (length cs =? length vs)%nat
                    && forallb (fun p : Q * Z => code_ok amp off res (fst p) (snd p)) (combine vs cs)
                    && monotone_pairs (combine vs cs)
       end.

(* tolerance stream (inputs that are NOT exactly representable steps: decimal amplitudes / voltages).  The float
   computation may differ from the exact one by rounding of the three operations; declared tolerance on the scaled
   voltage: code_tol.  A code is accepted if it is within 1/2 + code_tol of the exact scaled voltage (so it may be the
   other neighbour only when the exact value is within code_tol of a half-way point); range, monotonicity and
   rejection of out-of-range input are still demanded exactly. *)
Definition code_tol : Q := 1 # (2 ^ 30).
Definition code_tol_ok (amp off : Q) (res : Z) (v : Q) (c : Z) : bool :=
  (0 <=? c) && (c <=? 2 ^ res - 1)
  && Qle_bool (Qabs (inject_Z c - ((v - off) + amp) * vscale amp res)) ((1 # 2) + code_tol).
Definition spec_volt_tol (amp off : Q) (res : Z) (vs : list Q) (obs : outcome (list Z)) : bool :=
  if existsb (fun v => negb (Qle_bool (off - amp) v && Qle_bool v (off + amp))) vs then
    match obs with OErr => true | _ => false end
  else match obs with
       | OErr => false
       | ORet cs => (length cs =? length vs)%nat
                    && forallb (fun p : Q * Z => code_tol_ok amp off res (fst p) (snd p)) (combine vs cs)
                    && monotone_pairs (combine vs cs)
       end.

(* ------------------------------------------------------------------------------------------------------------ *)
(* is_monotonic *)
Fixpoint sortedb (xs : list Q) : bool :=
  match xs with
  | [] => true
  | x :: r => match r with [] => true | y :: _ => Qle_bool x y && sortedb r end
  end.

(* ------------------------------------------------------------------------------------------------------------ *)
(* time_windows_to_samples: the observation is some arrangement of the converted windows in which the (time) begins
   are non-decreasing; windows with equal begin may come in any order. *)
Definition valid_conv (sr : Q) (w : Q * Q) (o : Z * Z) : bool :=
  nearest_even (fst w * sr) (fst o) && is_floor (snd w * sr) (snd o).

Definition min_begin (ws : list (Q * Q)) : option Q :=
  match ws with
  | [] => None
  | w :: r => Some (fold_left (fun m x => if Qle_bool (fst x) m then fst x else m) r (fst w))
  end.
(* remove the first window with begin == m accepted by ok *)
Fixpoint take_first (ok : Q * Q -> bool) (m : Q) (ws : list (Q * Q)) : option (list (Q * Q)) :=
  match ws with
  | [] => None
  | w :: r => if Qeq_bool (fst w) m && ok w then Some r
              else match take_first ok m r with Some r' => Some (w :: r') | None => None end
  end.
Fixpoint match_sorted (ok : Q * Q -> Z * Z -> bool) (obs : list (Z * Z)) (ws : list (Q * Q)) : bool :=
  match obs with
  | [] => match ws with [] => true | _ => false end
  | o :: r => match min_begin ws with
              | None => false
              | Some m => match take_first (fun w => ok w o) m ws with
                          | Some ws' => match_sorted ok r ws'
                          | None => false
                          end
              end
  end.
Definition spec_tw (sr : Q) (ws : list (Q * Q)) (obs : list (Z * Z)) : bool := match_sorted (valid_conv sr) obs ws.

(* decimal stream (round 4): begins / lengths / rate are arbitrary binary64 numbers, the product is rounded before it is
   rounded to an integer, so an exact product within win_tol of a half-way point / of an integer may go either way:
   begin within 1/2 + win_tol of the exact product, length L with  L <= l * sr + win_tol  and  l * sr - win_tol < L + 1.
   ProofsGrid.conv64_within_tolerance: the float computation meets this for products up to 2^22. *)
Definition win_tol : Q := 1 # (2 ^ 30).
Definition valid_conv_tol (sr : Q) (w : Q * Q) (o : Z * Z) : bool :=
  Qle_bool (Qabs (inject_Z (fst o) - fst w * sr)) ((1 # 2) + win_tol)
  && Qle_bool (inject_Z (snd o)) (snd w * sr + win_tol)
  && negb (Qle_bool (inject_Z (snd o) + 1) (snd w * sr - win_tol)).
Definition spec_tw_tol (sr : Q) (ws : list (Q * Q)) (obs : list (Z * Z)) : bool := match_sorted (valid_conv_tol sr) obs ws.

(* ------------------------------------------------------------------------------------------------------------ *)
(* shrink_overlapping_windows *)
Fixpoint adjacent {A} (l : list A) : list (A * A) :=
  match l with
  | [] => []
  | x :: r => match r with [] => [] | y :: _ => (x, y) :: adjacent r end
  end.

(* the call may fail only if some window would have to lose all of its samples (or more) *)
Definition must_fail (ws : list (Z * Z)) : bool :=
  existsb (fun p : (Z * Z) * (Z * Z) => let ov := w_end (fst p) - fst (snd p) in (ov >? 0) && (ov >=? snd (snd p)))
          (adjacent ws).

Definition spec_shrink (ws : list (Z * Z)) (obs : outcome (list (Z * Z) * bool)) : bool :=
  match obs with
  | OErr => must_fail ws
  | ORet (ws', shrank) =>
      negb (must_fail ws)
      && (length ws' =? length ws)%nat
      && forallb (fun p : (Z * Z) * (Z * Z) =>
                    (w_end (fst p) =? w_end (snd p))                   (* no end moves *)
                    && (fst (fst p) <=? fst (snd p)))                  (* only begins move, and only forward *)
                 (combine ws ws')
      && forallb (fun p : (Z * Z) * (Z * Z) => w_end (fst p) <=? fst (snd p)) (adjacent ws')     (* disjoint *)
      && forallb (fun p : ((Z * Z) * (Z * Z)) * (Z * Z) =>                                      (* not more than needed *)
                    fst (snd p) <=? Z.max (fst (snd (fst p))) (w_end (fst (fst p))))
                 (combine (adjacent ws) (tl ws'))
      && match ws, ws' with w :: _, w' :: _ => ZZ_eqb w w' | _, _ => true end
      && Bool.eqb shrank (negb (list_eqb ZZ_eqb ws ws'))
  end.

(* ------------------------------------------------------------------------------------------------------------ *)
(* average_windows: mean of the samples with begin <= t < end, NaN (None) if there is none *)
Definition spec_avg_one (nch : nat) (samples : list (Q * list Q)) (w : Q * Q) : list (option Q) :=
  let sel := filter (fun s : Q * list Q => Qle_bool (fst w) (fst s) && negb (Qle_bool (snd w) (fst s))) samples in
  match sel with
  | [] => repeat None nch
  | _ => map (fun s => Some (s / inject_Z (Z.of_nat (length sel)))%Q)
             (fold_left vsum (map snd sel) (zero_row nch))
  end.
Definition spec_avg (nch : nat) (time : list Q) (values : list (list Q)) (ws : list (Q * Q)) : list (list (option Q)) :=
  map (spec_avg_one nch (combine time values)) ws.

Definition optQ_eqb := opt_eqb Qeq_bool.
Definition avg_eqb (a b : list (list (option Q))) : bool := list_eqb (list_eqb optQ_eqb) a b.

(* ------------------------------------------------------------------------------------------------------------ *)
(* not_none_indices *)
Fixpoint spec_nni {A} (seen : list (option A)) (rest : list (option A)) (obs : list (option Z)) : bool :=
  match rest, obs with
  | [], [] => true
  | None :: r, None :: o => spec_nni (seen ++ [None]) r o
  | Some a :: r, Some k :: o =>
      (k =? Z.of_nat (length (filter (fun x => match x with Some _ => true | None => false end) seen)))
      && spec_nni (seen ++ [Some a]) r o
  | _, _ => false
  end.

(* ------------------------------------------------------------------------------------------------------------ *)
(* get_sample_times: every length is the integer nearest to duration * rate, which must be within the tolerance
   and positive; the grid is, for k below the largest length, the binary64 number nearest to the exact rational k / rate
   (Model.grid_time: ONE rounding of the exact quotient; Model.b64 is proved equal to Flocq's round-to-nearest-even in
   ProofsGrid.v, and the Python oracle evaluates it independently as float(Fraction(k) / rate)).  For dyadic rates and
   small k this is k / rate itself (the round-1..3 clause `t * rate = k`). *)
Definition spec_tolerance : Q := (1 # 10000000000)%Q.      (* 1e-10 samples: the tolerance get_waveform_length documents *)
Definition spec_len (rate dur : Q) (n : Z) : bool :=
  Qle_bool (Qabs (dur * rate - inject_Z n)) spec_tolerance && (0 <? n).
Definition no_len (rate dur : Q) : bool :=
  (* no positive integer within the tolerance: the two candidates are floor and floor + 1 *)
  let f := Qfloor (dur * rate) in negb (spec_len rate dur f) && negb (spec_len rate dur (f + 1)).
Definition spec_times (rate : Q) (durs : list Q) (obs : outcome (list Q * list Z)) : bool :=
  match durs with
  | [] => match obs with OErr => true | _ => false end
  | _ =>
    if existsb (no_len rate) durs then match obs with OErr => true | _ => false end
    else match obs with
         | OErr => false
         | ORet (ts, lens) =>
             (length lens =? length durs)%nat
             && forallb (fun p : Q * Z => spec_len rate (fst p) (snd p)) (combine durs lens)
             && (Z.of_nat (length ts) =? fold_right Z.max 0 lens)
             && forallb (fun p : nat * Q => Qeq_bool (snd p) (grid_time rate (Z.of_nat (fst p))))
                        (combine (seq 0 (length ts)) ts)
         end
  end.

(* ------------------------------------------------------------------------------------------------------------ *)
(* ProgramEntry sampling, written from the statement alone (round 5: no operational-model function is used here; `outcome`,
   `all_ok`, `map_out` are the result-type helpers, `trafo` / `chan_cfg` / `wf_obs` the input types):
     - a waveform of duration d has n samples, n the positive integer with |d * rate - n| <= tolerance (spec_length: the two
       candidates are floor and floor + 1; at most one qualifies because the tolerance is below 1/2);
     - output slot (ch, T, amp, off):   (T (w ch (k / rate)) - off) / amp   for k = 0 .. n - 1;
     - marker slot ch:                   w ch (k / rate) <> 0;
     - empty slot: nothing; an undefined channel / fewer than n known values / a bad duration: error.
   w ch (k / rate) is entry k of the channel's value list in the observed waveform.  No flat memory here. *)
Definition spec_length (rate dur : Q) : outcome Z :=
  let f := Qfloor (dur * rate) in
  if spec_len rate dur f then ORet f else if spec_len rate dur (f + 1) then ORet (f + 1) else OErr.

Definition spec_trafo (T : trafo) (x : Q) : Q :=
  match T with TNone => x | TAffine a b => (a * x + b)%Q | TSquare => (x * x)%Q end.

(* the first n values of channel ch *)
Definition spec_raw (n : nat) (wf : wf_obs) (ch : Z) : outcome (list Q) :=
  match find (fun p : Z * list Q => fst p =? ch) (snd wf) with
  | None => OErr
  | Some p => if (n <=? length (snd p))%nat then ORet (firstn n (snd p)) else OErr
  end.
Definition spec_chan_values (n : nat) (wf : wf_obs) (c : chan_cfg) : outcome (list Q) :=
  let '(ch, T, amp, off) := c in map_out (map (fun x => ((spec_trafo T x - off) / amp)%Q)) (spec_raw n wf ch).
Definition spec_marker_values (n : nat) (wf : wf_obs) (ch : Z) : outcome (list bool) :=
  map_out (map (fun x => negb (Qeq_bool x 0))) (spec_raw n wf ch).

Definition spec_slot {A B} (f : A -> outcome B) (s : option A) : outcome (option B) :=
  match s with None => ORet None | Some a => map_out Some (f a) end.

Definition spec_sample_one (chans : list (option chan_cfg)) (markers : list (option Z)) (wl : wf_obs * Z)
  : outcome sampled :=
  let n := Z.to_nat (snd wl) in
  match all_ok (map (spec_slot (spec_chan_values n (fst wl))) chans),
        all_ok (map (spec_slot (spec_marker_values n (fst wl))) markers) with
  | ORet c, ORet m => ORet (c, m)
  | _, _ => OErr
  end.
(* _sample_waveforms itself demands at least one waveform *)
Definition spec_sample (chans : list (option chan_cfg)) (markers : list (option Z)) (rate : Q) (wfs : list wf_obs)
  : outcome (list sampled) :=
  match wfs with
  | [] => OErr
  | _ => match all_ok (map (fun wf : wf_obs => spec_length rate (fst wf)) wfs) with
         | OErr => OErr
         | ORet lens => all_ok (map (spec_sample_one chans markers) (combine wfs lens))
         end
  end.

(* an entry without waveforms holds no samples *)
Definition spec_entry (chans : list (option chan_cfg)) (markers : list (option Z)) (rate : Q) (wfs : list wf_obs)
  : outcome (list sampled) :=
  match wfs with [] => ORet [] | _ => spec_sample chans markers rate wfs end.

Definition sampled_eqb (a b : sampled) : bool :=
  list_eqb (opt_eqb Qlist_eqb) (fst a) (fst b) && list_eqb (opt_eqb (list_eqb Bool.eqb)) (snd a) (snd b).
