(* C20 round 4 — get_waveform_length / get_sample_times: the model's lengths meet the specification (exact rationals, closed):
   waveform_length returns n  =>  spec_len (|dur * rate - n| <= 1e-10, n > 0) and no_len is false;
   waveform_length fails      =>  no_len (neither floor nor floor + 1 is an admissible length).
   The grid clause of spec_times is ProofsGrid.sample_times_meets_spec (needs b64 = RN). *)
From Coq Require Import ZArith QArith Qround Qabs Bool List Lia Lqa Qfield.
Require Import QV.common.Util QV.C20.Model QV.C20.Spec QV.C20.ProofsNum.
Import ListNotations.
Open Scope Q_scope.

Lemma tol_small : len_tolerance < 1 # 4.
Proof. reflexivity. Qed.

Lemma spec_len_iff rate d n : spec_len rate d n = true <-> Qabs (d * rate - inject_Z n) <= len_tolerance /\ (0 < n)%Z.
Proof.
  unfold spec_len. change spec_tolerance with len_tolerance. rewrite andb_true_iff, Qle_bool_iff, Z.ltb_lt. tauto.
Qed.

Lemma rint_floor_or_succ q : rint q = Qfloor q \/ rint q = (Qfloor q + 1)%Z.
Proof. destruct (rint_cases q) as [[_ H]|[[_ H]|[_ H]]]; [left|right|]; try exact H. destruct (Z.even (Qfloor q)); [left|right]; exact H. Qed.

(* the nearest integer is at least as close as floor and floor + 1 *)
Lemma rint_closest q n : Qabs (q - inject_Z (rint q)) <= Qabs (q - inject_Z n).
Proof.
  pose proof (rint_near q) as H. pose proof (Qfloor_le q) as F1. pose proof (Qlt_floor q) as F2.
  destruct (Z_le_gt_dec n (Qfloor q)) as [L|L].
  - (* n <= floor q: distance q - n >= q - floor *)
    assert (inject_Z n <= inject_Z (Qfloor q)) by (rewrite <- Zle_Qle; exact L).
    rewrite (Qabs_pos (q - inject_Z n)) by lra.
    destruct (rint_floor_or_succ q) as [E|E]; rewrite E.
    + rewrite Qabs_pos by lra. lra.
    + rewrite E in H. apply Qabs_Qle_condition in H as [H1 H2]. rewrite inject_Z_plus in *. change (inject_Z 1) with 1 in *.
      apply Qabs_Qle_condition. split; lra.
  - assert (inject_Z (Qfloor q + 1) <= inject_Z n) by (rewrite <- Zle_Qle; lia).
    rewrite inject_Z_plus in *. change (inject_Z 1) with 1 in *.
    rewrite (Qabs_neg (q - inject_Z n)) by lra.
    destruct (rint_floor_or_succ q) as [E|E]; rewrite E.
    + rewrite E in H. apply Qabs_Qle_condition in H as [H1 H2]. apply Qabs_Qle_condition. split; lra.
    + rewrite inject_Z_plus. change (inject_Z 1) with 1. apply Qabs_Qle_condition. split; lra.
Qed.

Lemma waveform_length_ok rate d r : waveform_length rate d = ORet r -> spec_len rate d r = true /\ no_len rate d = false.
Proof.
  unfold waveform_length. set (seg := d * rate). destruct (Qle_bool (Qabs (seg - inject_Z (rint seg))) len_tolerance) eqn:T; [|discriminate].
  cbn [negb]. destruct (rint seg <=? 0)%Z eqn:P; [discriminate|]. intro H. injection H as <-.
  apply Z.leb_gt in P. assert (S : spec_len rate d (rint seg) = true).
  { apply spec_len_iff. split; [apply Qle_bool_iff; exact T|exact P]. }
  split; [exact S|]. unfold no_len. fold seg.
  destruct (rint_floor_or_succ seg) as [E|E]; rewrite E in S; rewrite S; cbn; [reflexivity|apply andb_false_r].
Qed.

Lemma waveform_length_err rate d : waveform_length rate d = OErr -> no_len rate d = true.
Proof.
  unfold waveform_length, no_len. set (seg := d * rate).
  assert (N : forall n, spec_len rate d n = true -> Qabs (seg - inject_Z (rint seg)) <= len_tolerance).
  { intros n H. apply spec_len_iff in H as [H _]. fold seg in H. eapply Qle_trans; [apply rint_closest|exact H]. }
  destruct (Qle_bool (Qabs (seg - inject_Z (rint seg))) len_tolerance) eqn:T.
  - cbn [negb]. destruct (rint seg <=? 0)%Z eqn:P; [|discriminate]. intros _. apply Z.leb_le in P.
    apply Qle_bool_iff in T. apply Qabs_Qle_condition in T as [T1 T2]. pose proof tol_small as TS.
    apply andb_true_intro. split; apply negb_true_iff; apply not_true_is_false; intro S; apply spec_len_iff in S as [S1 S2];
      fold seg in S1; apply Qabs_Qle_condition in S1 as [S3 S4].
    + destruct (rint_floor_or_succ seg) as [E|E]; [lia|]. lia.
    + destruct (rint_floor_or_succ seg) as [E|E]; [|lia].
      rewrite E in *. rewrite inject_Z_plus in *. change (inject_Z 1) with 1 in *. lra.
  - intros _. apply andb_true_intro. split; apply negb_true_iff; apply not_true_is_false; intro S; apply N in S;
      apply Qle_bool_iff in S; congruence.
Qed.

Lemma all_ok_lengths rate durs :
  match all_ok (map (waveform_length rate) durs) with
  | OErr => existsb (no_len rate) durs = true
  | ORet lens => existsb (no_len rate) durs = false /\ length lens = length durs
                 /\ forallb (fun p : Q * Z => spec_len rate (fst p) (snd p)) (combine durs lens) = true
  end.
Proof.
  induction durs as [|d ds IH]; cbn; [repeat split|].
  destruct (waveform_length rate d) as [r|] eqn:W.
  - apply waveform_length_ok in W as [S Nl]. rewrite Nl. cbn.
    destruct (all_ok (map (waveform_length rate) ds)) as [lens|]; [|exact IH].
    destruct IH as (A & B & C). repeat split; [exact A|cbn; f_equal; exact B|cbn; rewrite S; exact C].
  - apply waveform_length_err in W. rewrite W. reflexivity.
Qed.

(* ---- round 5: the specification's own length function (Spec.spec_length: the candidate among floor / floor + 1 that is
        positive and within the tolerance) is what get_waveform_length computes (round-half-even, tolerance test, sign test) ---- *)
Lemma spec_len_unique rate d n m : spec_len rate d n = true -> spec_len rate d m = true -> n = m.
Proof.
  intros Hn Hm. apply spec_len_iff in Hn as [Hn _]. apply spec_len_iff in Hm as [Hm _].
  apply Qabs_Qle_condition in Hn as [N1 N2]. apply Qabs_Qle_condition in Hm as [M1 M2]. pose proof tol_small as TS.
  assert (A : inject_Z (n - m) < 1) by (unfold Zminus; rewrite inject_Z_plus, inject_Z_opp; lra).
  assert (B : inject_Z (m - n) < 1) by (unfold Zminus; rewrite inject_Z_plus, inject_Z_opp; lra).
  change 1 with (inject_Z 1) in A, B. rewrite <- Zlt_Qlt in A, B. lia.
Qed.

Lemma waveform_length_is_spec rate d : waveform_length rate d = spec_length rate d.
Proof.
  unfold spec_length. destruct (waveform_length rate d) as [r|] eqn:W.
  - apply waveform_length_ok in W as [S Nl]. unfold no_len in Nl.
    cbv zeta in Nl. destruct (spec_len rate d (Qfloor (d * rate))) eqn:F.
    + f_equal. exact (spec_len_unique rate d _ _ S F).
    + destruct (spec_len rate d (Qfloor (d * rate) + 1)) eqn:G; [|discriminate].
      f_equal. exact (spec_len_unique rate d _ _ S G).
  - apply waveform_length_err in W. unfold no_len in W. apply andb_true_iff in W as [A B].
    apply negb_true_iff in A, B. rewrite A, B. reflexivity.
Qed.
