(* C20 round 5 — non-vacuity witnesses.  For every theorem of Props.v that has hypotheses, a concrete NON-TRIVIAL input that
   satisfies all of them (and, where it says something, the value the conclusion then speaks about).  Evaluated by the kernel
   (vm_compute) on the model / specification definitions; the real-number ones are proved by hand. *)
From Coq Require Import ZArith QArith Qround Qabs Bool List Sorted Lia Lqa.
Require Import QV.common.Util QV.C20.Model QV.C20.Spec QV.C20.ProofsAvg.
Import ListNotations.
Open Scope Q_scope.
Ltac fin := vm_compute; repeat split; try reflexivity; try (intro; discriminate).

(* C20_code_monotone / _in_code_range / _half_step_error: amplitude 3/10, offset 1/7, 12 bit, two in-range voltages that
   get different codes, both exactly half way (1072.5, 2437.5: the even neighbour is taken) *)
Example code_nonvacuous :
  0 < 3 # 10 /\ (1 <= 12)%Z /\ (1 # 7) - (3 # 10) <= 0 /\ 0 <= 1 # 5 /\ (1 # 5) <= (1 # 7) + (3 # 10)
  /\ code1 (3 # 10) (1 # 7) 12 0 = 1072%Z /\ code1 (3 # 10) (1 # 7) 12 (1 # 5) = 2438%Z.
Proof. fin. Qed.

(* C20_out_of_range_rejected, second part: all voltages in range, one of them ON the upper end *)
Example in_range_nonvacuous :
  (forall v, In v [0; 1 # 2; -(1)] -> Qabs (v - 0) <= 1) /\ volt_numpy 1 0 4 [0; 1 # 2; -(1)] = ORet [8; 11; 0]%Z.
Proof.
  split; [|vm_compute; reflexivity].
  intros v [<-|[<-|[<-|[]]]]; fin.
Qed.

(* C20_shrink / C20_shrink_pairwise_disjoint: three windows, two overlaps, the second shrink is caused by the UPDATED
   predecessor's unchanged end; lengths non-negative *)
Example shrink_nonvacuous :
  shrink_loop [(0, 3); (2, 4); (5, 2)]%Z = ORet ([(0, 3); (3, 3); (6, 1)]%Z, true)
  /\ Forall (fun w : Z * Z => (0 <= snd w)%Z) [(0, 3); (2, 4); (5, 2)]%Z.
Proof. split; [vm_compute; reflexivity|]. repeat constructor; cbn; lia. Qed.

(* C20_average_numpy_is_mean / _loop_is_mean / _variants_equal: sorted time, one value row per sample, one channel per
   row, windows sorted by begin and end that overlap, touch and are empty *)
Example avg_hyps_nonvacuous :
  Sorted Qle avg_witness_time /\ length avg_witness_values = length avg_witness_time
  /\ Forall (fun row : list Q => length row = 1%nat) avg_witness_values
  /\ guard_C20_average_sorted_windows [(0, 2); (1, 3); (3, 3)] = true
  /\ avg_numpy 1 avg_witness_time avg_witness_values [(0, 2); (1, 3); (3, 3)]
     = spec_avg 1 avg_witness_time avg_witness_values [(0, 2); (1, 3); (3, 3)].
Proof.
  split; [|split; [|split; [|split]]]; try (vm_compute; reflexivity).
  - unfold avg_witness_time. repeat (constructor; try (vm_compute; intro; discriminate)).
  - unfold avg_witness_values. repeat constructor.
Qed.

(* C20_sample_times_grid / C20_sample_times_meets_spec / C20_grid_impl_correct: a rate that is NO binary64 number (9/5), two
   waveforms of 3 and 6 samples; the guard of the repaired code holds; sample 3 is NOT what the old formula gave *)
Example sample_times_nonvacuous :
  exists ts, sample_times (9 # 5) [5 # 3; 10 # 3] = ORet (ts, [3; 6]%Z)
             /\ grid_guard (9 # 5) (fold_right Z.max 0%Z [3; 6]%Z) = true
             /\ length ts = 6%nat
             /\ ~ nth 3 ts 0 == grid_old (9 # 5) 3
             /\ spec_times (9 # 5) [5 # 3; 10 # 3] (sample_times (9 # 5) [5 # 3; 10 # 3]) = true.
Proof.
  eexists. split; [vm_compute; reflexivity|]. split; [vm_compute; reflexivity|]. split; [reflexivity|].
  split; fin.
Qed.

(* C20_window_float_within_tolerance / _exact_inputs: binary64 rate 2.4 (5404319552844595 / 2^51), window (1/2, 5/4): the
   products lie in the range of the theorem, the float length (3) differs from the exact conversion of the same inputs (2),
   and the tolerance specification accepts the float result but not the exact-rational specification *)
Definition r24 : Q := 5404319552844595 # 2251799813685248.
Example window_float_nonvacuous :
  0 <= (1 # 2) * r24 <= inject_Z (2 ^ 22) /\ 0 <= (5 # 4) * r24 <= inject_Z (2 ^ 22)
  /\ conv64 r24 (1 # 2, 5 # 4) = (1, 3)%Z /\ conv r24 (1 # 2, 5 # 4) = (1, 2)%Z
  /\ valid_conv_tol r24 (1 # 2, 5 # 4) (1, 3)%Z = true /\ valid_conv r24 (1 # 2, 5 # 4) (1, 3)%Z = false.
Proof. fin. Qed.

(* C20_window_float_exact_inputs: representable products (dyadic inputs) *)
Example window_exact_nonvacuous :
  b64 ((3 # 4) * 2) == (3 # 4) * 2 /\ b64 ((5 # 8) * 2) == (5 # 8) * 2 /\ conv64 2 (3 # 4, 5 # 8) = (2, 1)%Z.
Proof. fin. Qed.

(* C20_uint16_store_faithful: 16 bit, upper range end = highest code 65535 survives the store *)
Example store16_nonvacuous : volt_public 1 0 16 [1; -(1); 0] = ORet [65535; 0; 32768]%Z.
Proof. vm_compute. reflexivity. Qed.

(* C20_translated_*: equally long begin / length lists (the only hypothesis) — the shrink example above as two arrays *)
Example translated_hyps_nonvacuous : length [0; 2; 5]%Z = length [3; 4; 2]%Z.
Proof. reflexivity. Qed.

(* ---- real-number hypotheses (Flocq theorems) ---- *)
From Coq Require Import Reals Qreals Lra.
From Flocq Require Import Core.
Require Import QV.C20.ProofsFloat.
Open Scope R_scope.

Lemma bpow_m500_le_1 : bpow radix2 (-500) <= 1.
Proof. change 1 with (bpow radix2 0). apply bpow_le. lia. Qed.
Lemma one_le_bpow_500 : 1 <= bpow radix2 500.
Proof. change 1 with (bpow radix2 0). apply bpow_le. lia. Qed.
Lemma bpow_m30_lt_quarter : bpow radix2 (-30) <= / 4.
Proof. replace (/ 4) with (bpow radix2 (-2)) by (cbn; lra). apply bpow_le. lia. Qed.

(* C20_float_scaled_error_bound / C20_float_code_within_one: amplitude 1, offset 0, voltage 1/3 (no binary64 number's
   image — any real is allowed), 14 bit *)
Example float_hyps_nonvacuous :
  bpow radix2 (-500) <= Q2R 1 <= bpow radix2 500 /\ Rabs (Q2R (1 # 3) - Q2R 0) <= Q2R 1 /\ (1 <= 14 <= 16)%Z.
Proof.
  replace (Q2R 1) with 1 by (unfold Q2R; cbn; lra). replace (Q2R 0) with 0 by (unfold Q2R; cbn; lra).
  replace (Q2R (1 # 3)) with (/ 3) by (unfold Q2R; cbn; lra).
  split; [split; [exact bpow_m500_le_1|exact one_le_bpow_500]|]. split; [|lia].
  rewrite Rminus_0_r, Rabs_pos_eq; lra.
Qed.

(* third conjunct of C20_float_code_within_one (and, through the round-3 error bound, the hypothesis of
   C20_float_code_is_exact_code): amplitude 1, offset 0, 1 bit, voltage 1: the exact scaled voltage is 1, no half-way point
   k + 1/2 is within 2^-30 of it *)
Example float_no_halfway_nonvacuous :
  forall k : Z, ~ Rabs (xscaled (Q2R 1) (Q2R 0) 1 (Q2R 1) - (IZR k + / 2)) <= bpow radix2 (-30).
Proof.
  intros k H. pose proof bpow_m30_lt_quarter as B.
  replace (xscaled (Q2R 1) (Q2R 0) 1 (Q2R 1)) with 1 in H by (unfold xscaled, Q2R; cbn; lra).
  pose proof (Rle_trans _ _ _ H B) as HB. apply Rabs_le_inv in HB as [L U].
  destruct (Z_le_gt_dec k 0) as [K|K].
  - apply IZR_le in K. lra.
  - assert (1 <= k)%Z as K1 by lia. apply IZR_le in K1. lra.
Qed.

(* C20_grid_edge_side: rate 9/5 (no binary64 number), edge at j = 3 (5/3 ns, no binary64 number either): the edge time is
   far above the subnormal range *)
Example grid_edge_hyps_nonvacuous :
  (0 < 9 # 5)%Q /\ (0 <= 3 < 2 ^ 52)%Z /\ ((0 < 3)%Z -> bpow radix2 (-1022) <= IZR 3 / Q2R (9 # 5)).
Proof.
  split; [reflexivity|]. split; [lia|]. intros _.
  apply Rle_trans with 1; [change 1 with (bpow radix2 0); apply bpow_le; lia|].
  unfold Q2R. cbn. lra.
Qed.

(* round 6 — C20_volt64_accepts / C20_float_code_range_ends / _in_code_range: amplitude = the binary64 number 0.9 (not dyadic-
   simple: 8106479329266893 / 2^53), 16 bit — a pair for which the scaled upper end computed WITHOUT the theorem's order of
   operations overshoots 65535 (seed C20-9); the model returns codes, both range ends are in the list and satisfy the
   hypotheses b64 (v - off) == +-amp, the middle voltage gets 32768 *)
Definition amp09 : Q := 8106479329266893 # 9007199254740992.
Example volt64_nonvacuous :
  bpow radix2 (-500) <= Q2R amp09 <= bpow radix2 500 /\ (1 <= 16 <= 16)%Z
  /\ volt_public64 amp09 0 16 [- amp09; 0; amp09]%Q = ORet [0; 32768; 65535]%Z
  /\ (b64 (amp09 - 0) == amp09)%Q /\ (b64 (- amp09 - 0) == - amp09)%Q.
Proof.
  split; [|split; [lia|split; [vm_compute; reflexivity|split; vm_compute; reflexivity]]].
  pose proof bpow_m500_le_1. pose proof one_le_bpow_500.
  assert (/ 2 <= Q2R amp09 <= 1) by (unfold Q2R, amp09; cbn; lra).
  assert (bpow radix2 (-500) <= / 2).
  { replace (/ 2) with (bpow radix2 (-1)) by (cbn; lra). apply bpow_le. lia. }
  lra.
Qed.

(* round 6 — C20_shrink_model_passes_checker / C20_volt_model_passes_checker: the checkers are not trivially true.  Nested windows
   [(0,5); (2,3)]: the model fails and the checker demands the failure (a result that empties the second window is refused);
   three windows with a chained shrink: the model's result is accepted, one that moves a begin further than needed or drops the
   flag is refused.  Voltages: the model's codes are accepted, a code off by one is refused.  Windows: see the comments. *)
Example checkers_nonvacuous :
  shrink_loop [(0, 5); (2, 3)]%Z = OErr
  /\ spec_shrink [(0, 5); (2, 3)]%Z (ORet ([(0, 5); (5, 0)]%Z, true)) = false
  /\ spec_shrink [(0, 3); (2, 4); (5, 2)]%Z (ORet ([(0, 3); (3, 3); (6, 1)]%Z, true)) = true
  /\ spec_shrink [(0, 3); (2, 4); (5, 2)]%Z (ORet ([(0, 3); (4, 2); (6, 1)]%Z, true)) = false
  /\ spec_shrink [(0, 3); (2, 4); (5, 2)]%Z (ORet ([(0, 3); (3, 3); (6, 1)]%Z, false)) = false
  /\ (0 < 1)%Q /\ spec_volt 1 0 4 [0; 1 # 2; -(1)]%Q (ORet [8; 11; 0]%Z) = true
  /\ spec_volt 1 0 4 [0; 1 # 2; -(1)]%Q (ORet [8; 12; 0]%Z) = false
  /\ spec_volt 1 0 4 [0; 3 # 2]%Q (ORet [8; 15]%Z) = false
  /\ spec_tw 1 [(5 # 2, 3 # 2); (1 # 2, 1)]%Q [(0, 1); (2, 1)]%Z = true           (* unsorted input, ties to even, floor *)
  /\ spec_tw 1 [(5 # 2, 3 # 2); (1 # 2, 1)]%Q [(2, 1); (0, 1)]%Z = false          (* input order kept: not sorted by begin *)
  /\ spec_tw 1 [(5 # 2, 3 # 2); (1 # 2, 1)]%Q [(1, 1); (2, 1)]%Z = false.         (* 1/2 rounded up: not the even neighbour *)
Proof. vm_compute. repeat split; reflexivity. Qed.
