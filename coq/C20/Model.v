(* C20 — hand-written operational model of the discretisation routines (definitions only, executable, total).
     qupulse/hardware/util.py        voltage_to_uint16 (+ _numpy / _numba), get_waveform_length, get_sample_times,
                                     not_none_indices
     qupulse/utils/performance.py    is_monotonic, time_windows_to_samples, shrink_overlapping_windows,
                                     average_windows (each: _numpy and _numba variant; the _numba variants are plain
                                     Python loops when numba is absent)
     qupulse/hardware/awgs/base.py   ProgramEntry._sample_waveforms (flat channel / marker memory, views)
   Numbers are exact rationals (Q) / integers (Z); binary64 rounding is not modelled (see notes/C20.md). *)
From Coq Require Import ZArith QArith Qround Qabs Bool List.
Import ListNotations.
Open Scope Z_scope.

Inductive outcome (R : Type) : Type := ORet (r : R) | OErr.
Arguments ORet {R} r. Arguments OErr {R}.

(* ------------------------------------------------------------------------------------------------------------ *)
(* numpy.rint / Python round(): nearest integer, ties to the even one. *)
Definition rint (q : Q) : Z :=
  let f := Qfloor q in
  match (q - inject_Z f ?= 1 # 2)%Q with
  | Lt => f
  | Gt => f + 1
  | Eq => if Z.even f then f else f + 1
  end.

(* ------------------------------------------------------------------------------------------------------------ *)
(* voltage_to_uint16 *)
Definition vscale (amp : Q) (res : Z) : Q := (inject_Z (2 ^ res - 1) / ((2 # 1) * amp))%Q.
Definition out_of_range (amp off v : Q) : bool := negb (Qle_bool (Qabs (v - off)) amp).   (* |v - off| > amp *)
Definition code1 (amp off : Q) (res : Z) (v : Q) : Z := rint (((v - off) + amp) * vscale amp res)%Q.

(* _voltage_to_uint16_numpy: range test on the whole array first, then the conversion *)
Definition volt_numpy (amp off : Q) (res : Z) (vs : list Q) : outcome (list Z) :=
  if existsb (out_of_range amp off) vs then OErr else ORet (map (code1 amp off res) vs).

(* _voltage_to_uint16_numba: one pass, flag remembered, error raised after the loop *)
Fixpoint volt_loop_go (amp off : Q) (res : Z) (vs : list Q) (flag : bool) (acc : list Z) : bool * list Z :=
  match vs with
  | [] => (flag, rev acc)
  | v :: r => volt_loop_go amp off res r (if out_of_range amp off v then true else flag) (code1 amp off res v :: acc)
  end.
Definition volt_loop (amp off : Q) (res : Z) (vs : list Q) : outcome (list Z) :=
  let '(flag, cs) := volt_loop_go amp off res vs false [] in if flag then OErr else ORet cs.

(* The result array is uint16.  numpy stores an integral float c as c mod 2^16 (what the x86-64 conversion does for
   |c| < 2^31; the C cast is undefined outside the target range and larger values were observed to give 0).  volt_numpy / volt_loop above are the mathematical
   codes; the *16 versions are what the arrays returned by the internal variants hold. *)
Definition store16 (c : Z) : Z := c mod 2 ^ 16.
Definition map_out {A B} (f : A -> B) (o : outcome A) : outcome B := match o with ORet x => ORet (f x) | OErr => OErr end.
Definition volt_numpy16 (amp off : Q) (res : Z) (vs : list Q) : outcome (list Z) := map_out (map store16) (volt_numpy amp off res vs).
Definition volt_loop16 (amp off : Q) (res : Z) (vs : list Q) : outcome (list Z) := map_out (map store16) (volt_loop amp off res vs).

(* voltage_to_uint16: resolution check (1 .. 16 since the round-3 repair; before it only `res < 1` was rejected and
   codes of 17+ bit resolutions were silently wrapped), then the variant selected by `numba is None` (numpy here) *)
Definition volt_public (amp off : Q) (res : Z) (vs : list Q) : outcome (list Z) :=
  if (res <? 1) || (16 <? res) then OErr else volt_numpy16 amp off res vs.

(* ------------------------------------------------------------------------------------------------------------ *)
(* is_monotonic *)
Fixpoint mono_loop_go (prev : Q) (xs : list Q) (acc : bool) : bool :=
  match xs with
  | [] => acc
  | x :: r => mono_loop_go x r (acc && Qle_bool prev x)       (* monotonic &= x[i-1] <= x[i], no early exit *)
  end.
Definition mono_loop (xs : list Q) : bool := match xs with [] => true | x :: r => mono_loop_go x r true end.
(* np.all(arr[1:] >= arr[:-1]) *)
Definition mono_numpy (xs : list Q) : bool :=
  forallb (fun p => Qle_bool (fst p) (snd p)) (combine (removelast xs) (tl xs)).

(* ------------------------------------------------------------------------------------------------------------ *)
(* time_windows_to_samples.  A window is (begin, length) in time units. *)
Definition conv (sr : Q) (w : Q * Q) : Z * Z := (rint (fst w * sr), Qfloor (snd w * sr)).

(* stable insertion sort by begin: np.argsort(begins) followed by fancy indexing; the order numpy gives to windows
   with EQUAL begins is unspecified (default kind is not stable) — the correspondence compares modulo that order *)
Fixpoint insert_w (x : Q * Q) (l : list (Q * Q)) : list (Q * Q) :=
  match l with
  | [] => [x]
  | y :: r => if Qle_bool (fst x) (fst y) then x :: l else y :: insert_w x r
  end.
Definition sort_w (l : list (Q * Q)) : list (Q * Q) := fold_right insert_w [] l.

Definition tw_numpy (sr : Q) (ws : list (Q * Q)) : list (Z * Z) := map (conv sr) (sort_w ws).
Definition tw_loop (sr : Q) (ws : list (Q * Q)) : list (Z * Z) :=
  if mono_loop (map fst ws) then map (conv sr) ws else map (conv sr) (sort_w ws).

(* ------------------------------------------------------------------------------------------------------------ *)
(* shrink_overlapping_windows.  A window is (begin, length) in samples. *)

(* _shrink_overlapping_windows_numba: sequential; (b, l) is the already updated window idx *)
Fixpoint shrink_loop_go (b l : Z) (rest : list (Z * Z)) (shrank : bool) : outcome (list (Z * Z) * bool) :=
  match rest with
  | [] => ORet ([(b, l)], shrank)
  | (b1, l1) :: r =>
      let e := b + l in
      if e >? b1 then
        let ov := e - b1 in
        if l1 >? ov then
          match shrink_loop_go (b1 + ov) (l1 - ov) r true with
          | ORet (ws, s) => ORet ((b, l) :: ws, s)
          | OErr => OErr
          end
        else OErr
      else
        match shrink_loop_go b1 l1 r shrank with
        | ORet (ws, s) => ORet ((b, l) :: ws, s)
        | OErr => OErr
        end
  end.
Definition shrink_loop (ws : list (Z * Z)) : outcome (list (Z * Z) * bool) :=
  match ws with
  | [] => ORet ([], false)
  | (b, l) :: r => shrink_loop_go b l r false
  end.

(* _shrink_overlapping_windows_numpy: overlaps from the ORIGINAL ends and begins, overlaps[0] = 0 *)
Definition w_end (w : Z * Z) : Z := fst w + snd w.
Definition overlaps (ws : list (Z * Z)) : list Z :=
  match ws with
  | [] => []
  | _ :: t => 0 :: map (fun p => Z.max (w_end (fst p) - fst (snd p)) 0) (combine (removelast ws) t)
  end.
Definition shrink_numpy (ws : list (Z * Z)) : outcome (list (Z * Z) * bool) :=
  let ovs := overlaps ws in
  if existsb (fun p => (fst p >? 0) && (fst p >=? snd (snd p))) (combine ovs ws) then OErr
                                                      (* np.any((overlaps > 0) & (overlaps >= lengths)) *)
  else if existsb (fun o => o >? 0) ovs then
    ORet (map (fun p => (fst (snd p) + fst p, snd (snd p) - fst p)) (combine ovs ws), true)
  else ORet (ws, false).

(* ------------------------------------------------------------------------------------------------------------ *)
(* average_windows.  time : list Q (assumed sorted by the code), values: one row (list of channels) per sample,
   windows (begin, end).  Result: per window, per channel, None = NaN. *)
Fixpoint vsum (a b : list Q) : list Q :=
  match a, b with
  | x :: a', y :: b' => (x + y)%Q :: vsum a' b'
  | _, _ => []
  end.
Definition zero_row (n : nat) : list Q := repeat 0%Q n.
Definition finalize (nch : nat) (sum : list Q) (cnt : Z) : list (option Q) :=
  if cnt =? 0 then repeat None nch else map (fun s => Some (s / inject_Z cnt)%Q) sum.

(* number of leading elements strictly below x / np.searchsorted(time, x) (side='left') on a sorted array *)
Fixpoint ss_left (time : list Q) (x : Q) : nat :=
  match time with
  | [] => O
  | t :: r => if Qle_bool x t then O else S (ss_left r x)
  end.
Definition slice {A} (l : list A) (a b : nat) : list A := firstn (b - a) (skipn a l).

Definition avg_numpy_one (nch : nat) (time : list Q) (values : list (list Q)) (w : Q * Q) : list (option Q) :=
  let s := ss_left time (fst w) in
  let e := ss_left time (snd w) in
  if (s <? e)%nat then
    let rows := slice values s e in
    finalize nch (fold_left vsum rows (zero_row nch)) (Z.of_nat (e - s))
  else repeat None nch.
Definition avg_numpy (nch : nat) (time : list Q) (values : list (list Q)) (ws : list (Q * Q)) : list (list (option Q)) :=
  map (avg_numpy_one nch time values) ws.

(* _average_windows_numba: windows before `start` are closed; for every sample first close windows whose end has
   passed (stops at the first one that has not), then add the sample to the windows from `start` on whose begin has
   passed (stops at the first one that has not).  acc = (begin, end, sum, count). *)
Definition awin : Type := (Q * Q * list Q * Z)%type.
Fixpoint close_front (t : Q) (pend : list awin) : list awin * list awin :=
  match pend with
  | [] => ([], [])
  | ((b, e, s, c) as w) :: r =>
      if Qle_bool e t then let '(d, p) := close_front t r in (w :: d, p) else ([], pend)
  end.
Fixpoint add_prefix (t : Q) (v : list Q) (pend : list awin) : list awin :=
  match pend with
  | [] => []
  | ((b, e, s, c) as w) :: r =>
      if Qle_bool b t then (b, e, vsum s v, c + 1) :: add_prefix t v r else pend
  end.
Fixpoint avg_loop_go (samples : list (Q * list Q)) (done pend : list awin) : list awin :=
  match samples with
  | [] => done ++ pend
  | (t, v) :: r =>
      let '(d, p) := close_front t pend in
      avg_loop_go r (done ++ d) (add_prefix t v p)
  end.
Definition avg_loop (nch : nat) (time : list Q) (values : list (list Q)) (ws : list (Q * Q)) : list (list (option Q)) :=
  let init := map (fun w : Q * Q => (fst w, snd w, zero_row nch, 0)) ws in
  map (fun a : awin => let '(_, _, s, c) := a in finalize nch s c) (avg_loop_go (combine time values) [] init).

(* ------------------------------------------------------------------------------------------------------------ *)
(* not_none_indices: None stays None, the others are numbered consecutively *)
Fixpoint nni_go {A} (l : list (option A)) (idx : Z) : list (option Z) * Z :=
  match l with
  | [] => ([], idx)
  | None :: r => let '(is, n) := nni_go r idx in (None :: is, n)
  | Some _ :: r => let '(is, n) := nni_go r (idx + 1) in (Some idx :: is, n)
  end.
Definition not_none_indices {A} (l : list (option A)) : list (option Z) * Z := nni_go l 0.

(* ------------------------------------------------------------------------------------------------------------ *)
(* get_waveform_length / get_sample_times *)
Definition len_tolerance : Q := (1 # 10000000000)%Q.
Definition waveform_length (rate dur : Q) : outcome Z :=
  let seg := (dur * rate)%Q in
  let r := rint seg in
  if negb (Qle_bool (Qabs (seg - inject_Z r)) len_tolerance) then OErr
  else if r <=? 0 then OErr
  else ORet r.
Fixpoint all_ok {R} (l : list (outcome R)) : outcome (list R) :=
  match l with
  | [] => ORet []
  | OErr :: _ => OErr
  | ORet x :: r => match all_ok r with ORet xs => ORet (x :: xs) | OErr => OErr end
  end.
Definition zrange (n : Z) : list Z := map Z.of_nat (seq 0 (Z.to_nat n)).

(* ---- binary64 (round 4).  The sample grid is the one place of this property where the code's numbers are NOT the exact
   rationals: k / sample_rate is no binary64 number for sample rates like 3 or 9/5.  b64 q = the binary64 number nearest
   to the rational q, ties to even (format: 53 bit significand, gradual underflow at 2^-1074; overflow not modelled).
   Executable over Q (rint of q / ulp); ProofsGrid.b64_is_RN proves it equal to Flocq's round-to-nearest-even. *)
Definition pow2 (e : Z) : Q :=
  match e with
  | Z0 => 1
  | Zpos p => inject_Z (Z.pow_pos 2 p)
  | Zneg p => / inject_Z (Z.pow_pos 2 p)
  end%Q.
(* floor (log2 q) for q > 0: log2 num - log2 den or one less *)
Definition qlog2 (q : Q) : Z :=
  let a := Z.log2 (Qnum q) - Z.log2 (Zpos (Qden q)) in
  if Qle_bool (pow2 a) q then a else a - 1.
Definition b64_exp (q : Q) : Z := Z.max (qlog2 (Qabs q) + 1 - 53) (-1074).
Definition b64 (q : Q) : Q :=
  if Qeq_bool q 0 then 0%Q else (inject_Z (rint (q / pow2 (b64_exp q))) * pow2 (b64_exp q))%Q.

(* WHAT "at the times k / sample rate" MEANS FOR BINARY64: sample k is taken at the binary64 number nearest to the exact
   rational k / rate (one rounding of the exact quotient; `float(Fraction(k) / rate)` in Python). *)
Definition grid_time (rate : Q) (k : Z) : Q := b64 (inject_Z k / rate).

(* what get_sample_times computes for sample k of n (since the round-4 repair): the rate is an exact fraction num / den;
   if num < 2^53 and n * den <= 2^53 then  (float(k) * float(den)) / float(num)  [the product is exact], else (and
   before the repair always)  float(k) / float(rate)  [float(rate) is a rounding of its own] *)
Definition grid_guard (rate : Q) (n : Z) : bool :=
  let r := Qred rate in
  (0 <? Qnum r) && (Qnum r <? 2 ^ 53) && (Zpos (Qden r) * Z.max n 1 <=? 2 ^ 53).
Definition grid_old (rate : Q) (k : Z) : Q := b64 (inject_Z k / b64 rate).
Definition grid_impl (rate : Q) (n k : Z) : Q :=
  let r := Qred rate in
  if grid_guard rate n
  then b64 (b64 (inject_Z k * inject_Z (Zpos (Qden r))) / b64 (inject_Z (Qnum r)))
  else grid_old rate k.

(* (np.arange(max(lengths)) * den / num, lengths) *)
Definition sample_times (rate : Q) (durs : list Q) : outcome (list Q * list Z) :=
  match durs with
  | [] => OErr                                         (* assert len(waveforms) > 0 *)
  | _ => match all_ok (map (waveform_length rate) durs) with
         | OErr => OErr
         | ORet lens => let n := fold_right Z.max 0 lens in ORet (map (grid_impl rate n) (zrange n), lens)
         end
  end.

(* ---- time_windows_to_samples on arbitrary binary64 inputs (round 4, decimal stream): both variants compute the product
   begins * sample_rate / lengths * sample_rate in binary64 (one rounding) and then rint / truncate.  For the dyadic inputs of
   the exact stream the product is exact and conv64 = conv. *)
Definition conv64 (sr : Q) (w : Q * Q) : Z * Z := (rint (b64 (fst w * sr)), Qfloor (b64 (snd w * sr))).
Definition tw_numpy64 (sr : Q) (ws : list (Q * Q)) : list (Z * Z) := map (conv64 sr) (sort_w ws).
Definition tw_loop64 (sr : Q) (ws : list (Q * Q)) : list (Z * Z) :=
  if mono_loop (map fst ws) then map (conv64 sr) ws else map (conv64 sr) (sort_w ws).

(* ---- voltage_to_uint16 on arbitrary binary64 inputs (round 6, decimal stream): what both variants compute, every
   operation rounded once to binary64:   x = v - off ;  |x| > amp ? ;  scale = (2^res - 1) / (2 amp) ;  rint((x + amp) * scale)
   (2 amp is exact in binary64 short of overflow; b64 (2 amp) is written as the code performs the operation).  For the dyadic
   inputs of the exact stream no operation rounds and code64 = code1. *)
Definition out_of_range64 (amp off v : Q) : bool := negb (Qle_bool (Qabs (b64 (v - off))) amp).
Definition vscale64 (amp : Q) (res : Z) : Q := b64 (inject_Z (2 ^ res - 1) / b64 ((2 # 1) * amp)).
Definition code64 (amp off : Q) (res : Z) (v : Q) : Z := rint (b64 (b64 (b64 (v - off) + amp) * vscale64 amp res)).
Definition volt_numpy64 (amp off : Q) (res : Z) (vs : list Q) : outcome (list Z) :=
  if existsb (out_of_range64 amp off) vs then OErr else ORet (map (fun v => store16 (code64 amp off res v)) vs).
Fixpoint volt_loop_go64 (amp off : Q) (res : Z) (vs : list Q) (flag : bool) (acc : list Z) : bool * list Z :=
  match vs with
  | [] => (flag, rev acc)
  | v :: r => volt_loop_go64 amp off res r (if out_of_range64 amp off v then true else flag) (store16 (code64 amp off res v) :: acc)
  end.
Definition volt_loop64 (amp off : Q) (res : Z) (vs : list Q) : outcome (list Z) :=
  let '(flag, cs) := volt_loop_go64 amp off res vs false [] in if flag then OErr else ORet cs.
Definition volt_public64 (amp off : Q) (res : Z) (vs : list Q) : outcome (list Z) :=
  if (res <? 1) || (16 <? res) then OErr else volt_numpy64 amp off res vs.

(* ------------------------------------------------------------------------------------------------------------ *)
(* ProgramEntry._sample_waveforms *)
Inductive trafo := TNone | TAffine (a b : Q) | TSquare.
Definition apply_trafo (T : trafo) (x : Q) : Q :=
  match T with TNone => x | TAffine a b => (a * x + b)%Q | TSquare => (x * x)%Q end.

(* a channel slot of the entry: None, or (waveform channel id, voltage transformation, amplitude, offset) *)
Definition chan_cfg : Type := (Z * trafo * Q * Q)%type.
(* an observed waveform: duration and, per defined channel id, a sampling function given by its values on the grid
   k / rate, k = 0, 1, ... (as many as the harness computed; the model takes the first n of them) *)
Definition wf_obs : Type := (Q * list (Z * list Q))%type.

Fixpoint lookup {A} (k : Z) (l : list (Z * A)) : option A :=
  match l with
  | [] => None
  | (k', a) :: r => if k =? k' then Some a else lookup k r
  end.

(* flat memory row: write `xs` at [pos, pos + len xs) *)
Definition write_at {A} (row : list A) (pos : nat) (xs : list A) : list A :=
  firstn pos row ++ xs ++ skipn (pos + length xs) row.

Definition sampled_channel (n : nat) (wf : wf_obs) (c : chan_cfg) : outcome (list Q) :=
  let '(ch, T, amp, off) := c in
  match lookup ch (snd wf) with
  | None => OErr                                                           (* get_sampled: unknown channel *)
  | Some raw => if (length raw <? n)%nat then OErr
                else ORet (map (fun x => ((apply_trafo T x - off) / amp)%Q) (firstn n raw))
  end.
Definition sampled_marker (n : nat) (wf : wf_obs) (ch : Z) : outcome (list bool) :=
  match lookup ch (snd wf) with
  | None => OErr
  | Some raw => if (length raw <? n)%nat then OErr
                else ORet (map (fun x => negb (Qeq_bool x 0)) (firstn n raw))
  end.

(* one pass over the waveforms: every not-None slot writes its samples into row `mem index` of the flat memory at
   [segment_begin, segment_begin + n); what is handed out are VIEWS (row, begin, n), read after all writes *)
Definition view : Type := (nat * nat * nat)%type.        (* row, begin, length *)

Fixpoint write_slots {A B} (sample : B -> outcome (list A)) (slots : list (option B)) (idx : list (option Z))
         (mem : list (list A)) (pos n : nat) : outcome (list (list A) * list (option view)) :=
  match slots, idx with
  | [], _ => ORet (mem, [])
  | None :: r, _ :: ir => match write_slots sample r ir mem pos n with
                          | ORet (m, vs) => ORet (m, None :: vs)
                          | OErr => OErr
                          end
  | Some c :: r, Some row :: ir =>
      match sample c with
      | OErr => OErr
      | ORet xs =>
          let rw := Z.to_nat row in
          let mem' := firstn rw mem ++ [write_at (nth rw mem []) pos xs] ++ skipn (S rw) mem in
          match write_slots sample r ir mem' pos n with
          | ORet (m, vs) => ORet (m, Some (rw, pos, n) :: vs)
          | OErr => OErr
          end
      end
  | _, _ => OErr
  end.

Fixpoint sample_go (chans : list (option chan_cfg)) (markers : list (option Z)) (ci mi : list (option Z))
         (wfs : list (wf_obs * Z)) (cmem : list (list Q)) (mmem : list (list bool)) (pos : nat)
  : outcome (list (list Q) * list (list bool) * list (list (option view) * list (option view))) :=
  match wfs with
  | [] => ORet (cmem, mmem, [])
  | (wf, len) :: r =>
      let n := Z.to_nat len in
      match write_slots (sampled_channel n wf) chans ci cmem pos n with
      | OErr => OErr
      | ORet (cmem1, cv) =>
          match write_slots (sampled_marker n wf) markers mi mmem pos n with
          | OErr => OErr
          | ORet (mmem1, mv) =>
              match sample_go chans markers ci mi r cmem1 mmem1 (pos + n) with
              | OErr => OErr
              | ORet (c, m, vs) => ORet (c, m, (cv, mv) :: vs)
              end
          end
      end
  end.

Definition read_view {A} (mem : list (list A)) (v : option view) : option (list A) :=
  match v with
  | None => None
  | Some (row, pos, n) => Some (firstn n (skipn pos (nth row mem [])))
  end.

(* result: per waveform (channel slots, marker slots); None = the empty slot (`_sample_empty_channel`) *)
Definition sampled : Type := (list (option (list Q)) * list (option (list bool)))%type.

Definition sample_waveforms (chans : list (option chan_cfg)) (markers : list (option Z)) (rate : Q)
           (wfs : list wf_obs) : outcome (list sampled) :=
  match sample_times rate (map fst wfs) with
  | OErr => OErr
  | ORet (_, lens) =>
      let total := Z.to_nat (fold_right Z.add 0 lens) in
      let '(ci, nch) := not_none_indices chans in
      let '(mi, nmk) := not_none_indices markers in
      let cmem := repeat (repeat 0%Q total) (Z.to_nat nch) in
      let mmem := repeat (repeat false total) (Z.to_nat nmk) in
      match sample_go chans markers ci mi (combine wfs lens) cmem mmem O with
      | OErr => OErr
      | ORet (c, m, vs) =>
          ORet (map (fun cm : list (option view) * list (option view) =>
                       (map (read_view c) (fst cm), map (read_view m) (snd cm))) vs)
      end
  end.

(* ProgramEntry.__init__ (round 4): `if waveforms: self._waveforms = ... _sample_waveforms(waveforms) else: OrderedDict()` — an
   entry without waveforms holds nothing and _sample_waveforms (which asserts a non-empty list) is not called *)
Definition entry_waveforms (chans : list (option chan_cfg)) (markers : list (option Z)) (rate : Q)
           (wfs : list wf_obs) : outcome (list sampled) :=
  match wfs with [] => ORet [] | _ => sample_waveforms chans markers rate wfs end.
