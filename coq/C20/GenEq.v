(* C20 — the translator's output (Gen_performance.v, Gen_util.v; regenerated from /repo on every run) computes the same
   functions as the clean models in Model.v.
   Structure per kernel:  (1) astep — the meaning of one loop iteration as a partial transformer of the canonical loop
   state, written by hand;  (2) `sim_body body astep` by the text-independent tactic of LoopSim.v;  (3) the loop over
   astep equals the clean model (induction; does not mention generated code);  (4) the whole kernel.
   If a kernel's meaning changes, (2) or (4) stops compiling (or the translator refuses) and the obligation is reported
   as broken; equivalent rewrites that add / rename / remove temporaries, re-order independent statements or
   re-associate integer arithmetic keep compiling. *)
From Coq Require Import ZArith QArith Qround Qabs Bool List Lia ZifyBool.
Require Import QV.common.Ctl QV.C20.ForLoop QV.C20.Gen_performance QV.C20.Gen_util QV.C20.Model QV.C20.LoopSim QV.C20.ProofsNum.
Import ListNotations.
Open Scope Z_scope.

(* ================================================================================================================== *)
(* _is_monotonic_numba *)
Definition mono_astep (i : Z) (st : list Z * bool) : option (list Z * bool) :=
  let '(x, m) := st in
  match zget x (i - 1) with
  | Some a => match zget x i with Some b => Some (x, m && (a <=? b)) | None => None end
  | None => None
  end.

Lemma mono_sim : sim_body gen_is_monotonic_numba_body1 mono_astep.
Proof. sim_body_tac gen_is_monotonic_numba_body1 mono_astep. Qed.

Fixpoint monoZ_go (prev : Z) (xs : list Z) (acc : bool) : bool :=
  match xs with [] => acc | x :: r => monoZ_go x r (acc && (prev <=? x)) end.

Lemma mono_aloop : forall r p a acc,
  aloop (length r) (Z.of_nat (length p) + 1) mono_astep (p ++ a :: r, acc) = Some (p ++ a :: r, monoZ_go a r acc).
Proof.
  induction r as [|b r IH]; intros p a acc; cbn [length aloop monoZ_go]; [reflexivity|].
  unfold mono_astep at 1.
  replace (Z.of_nat (length p) + 1 - 1) with (Z.of_nat (length p)) by lia.
  rewrite zget_mid, zget_mid1.
  replace (p ++ a :: b :: r) with ((p ++ [a]) ++ b :: r) by (rewrite <- app_assoc; reflexivity).
  replace (Z.of_nat (length p) + 1 + 1) with (Z.of_nat (length (p ++ [a])) + 1) by (rewrite app_length; cbn; lia).
  apply IH.
Qed.

Lemma Qle_bool_inject a b : Qle_bool (inject_Z a) (inject_Z b) = (a <=? b).
Proof. unfold Qle_bool, inject_Z; cbn. rewrite !Z.mul_1_r. reflexivity. Qed.

Lemma monoZ_go_Q a r acc : monoZ_go a r acc = mono_loop_go (inject_Z a) (map inject_Z r) acc.
Proof. revert a acc. induction r as [|b r IH]; intros; cbn; [reflexivity|]. rewrite IH, Qle_bool_inject. reflexivity. Qed.

Theorem gen_is_monotonic_eq xs : gen_is_monotonic_numba xs = Ret (mono_loop (map inject_Z xs)).
Proof.
  unfold gen_is_monotonic_numba, for_range. cbv zeta. rewrite (for_loop_sim _ _ mono_sim).
  unfold gen_is_monotonic_numba_state1, gen_is_monotonic_numba_result.
  destruct xs as [|a r]; [reflexivity|].
  cbn [length]. replace (Z.to_nat (Z.of_nat (S (length r)) - 1)) with (length r) by lia.
  pose proof (mono_aloop r [] a true) as H. cbn [length app Z.of_nat Z.add] in H. rewrite H.
  cbn [for_then]. unfold gen_is_monotonic_numba_post1. cbn [map mono_loop]. rewrite monoZ_go_Q. reflexivity.
Qed.

(* ================================================================================================================== *)
(* _shrink_overlapping_windows_numba *)
Definition shrink_astep (i : Z) (st : list Z * list Z * bool) : option (list Z * list Z * bool) :=
  let '(bs, ls, s) := st in
  match zget bs i with None => None | Some b =>
  match zget ls i with None => None | Some l =>
  match zget bs (i + 1) with None => None | Some b1 =>
    if b + l >? b1 then
      match zget ls (i + 1) with None => None | Some l1 =>
        if l1 >? b + l - b1 then
          match zset bs (i + 1) (b1 + (b + l - b1)) with None => None | Some bs' =>
          match zset ls (i + 1) (l1 - (b + l - b1)) with None => None | Some ls' => Some (bs', ls', true) end end
        else None
      end
    else Some (bs, ls, s)
  end end end.

Lemma shrink_sim : sim_body gen_shrink_overlapping_windows_numba_body1 shrink_astep.
Proof. sim_body_tac gen_shrink_overlapping_windows_numba_body1 shrink_astep. Qed.

Definition shrink_out {S} (c : ctl gen_shrink_overlapping_windows_numba_result S) : outcome (list (Z * Z) * bool) :=
  match c with
  | Ret (s, bs, ls) => ORet (combine bs ls, s)
  | _ => OErr
  end.

Lemma shrink_astep_step pb pl b l b1 l1 rb rl s : length pb = length pl ->
  shrink_astep (Z.of_nat (length pb)) (pb ++ b :: b1 :: rb, pl ++ l :: l1 :: rl, s)
  = if b + l >? b1 then
      if l1 >? b + l - b1 then Some (pb ++ b :: (b1 + (b + l - b1)) :: rb, pl ++ l :: (l1 - (b + l - b1)) :: rl, true)
      else None
    else Some (pb ++ b :: b1 :: rb, pl ++ l :: l1 :: rl, s).
Proof.
  intro Hp. unfold shrink_astep.
  rewrite (zget_at pb) by reflexivity. rewrite (zget_at pl) by exact Hp.
  rewrite (zget_at1 pb) by reflexivity. rewrite (zget_at1 pl) by exact Hp.
  rewrite (zset_at1 pb) by reflexivity. rewrite (zset_at1 pl) by exact Hp.
  destruct (b + l >? b1); [|reflexivity].
  destruct (l1 >? b + l - b1); reflexivity.
Qed.

Lemma shrink_aloop : forall rb rl pb pl b l s,
  length rb = length rl -> length pb = length pl ->
  aloop (length rb) (Z.of_nat (length pb)) shrink_astep (pb ++ b :: rb, pl ++ l :: rl, s)
  = match shrink_loop_go b l (combine rb rl) s with
    | ORet (ws, s') => Some (pb ++ map fst ws, pl ++ map snd ws, s')
    | OErr => None
    end.
Proof.
  induction rb as [|b1 rb IH]; intros rl pb pl b l s Hr Hp; destruct rl as [|l1 rl]; try discriminate.
  - reflexivity.
  - cbn [combine shrink_loop_go length aloop]. rewrite (shrink_astep_step _ _ _ _ _ _ _ _ _ Hp).
    injection Hr as Hr.
    assert (Hp' : length (pb ++ [b]) = length (pl ++ [l])) by (rewrite !app_length, Hp; reflexivity).
    assert (Hi : Z.of_nat (length pb) + 1 = Z.of_nat (length (pb ++ [b]))) by (rewrite app_length; cbn; lia).
    destruct (b + l >? b1) eqn:E1.
    + destruct (l1 >? b + l - b1) eqn:E2; [|reflexivity].
      specialize (IH rl (pb ++ [b]) (pl ++ [l]) (b1 + (b + l - b1)) (l1 - (b + l - b1)) true Hr Hp').
      rewrite <- Hi, <- !app_assoc in IH. cbn [app] in IH. rewrite IH.
      destruct (shrink_loop_go (b1 + (b + l - b1)) (l1 - (b + l - b1)) (combine rb rl) true) as [[ws s']|]; [|reflexivity].
      cbn [map fst snd]. rewrite <- !app_assoc. reflexivity.
    + specialize (IH rl (pb ++ [b]) (pl ++ [l]) b1 l1 s Hr Hp').
      rewrite <- Hi, <- !app_assoc in IH. cbn [app] in IH. rewrite IH.
      destruct (shrink_loop_go b1 l1 (combine rb rl) s) as [[ws s']|]; [|reflexivity].
      cbn [map fst snd]. rewrite <- !app_assoc. reflexivity.
Qed.

Lemma combine_map_fst_snd (ws : list (Z * Z)) : combine (map fst ws) (map snd ws) = ws.
Proof. induction ws as [|[a b] r IH]; cbn; [reflexivity|]. rewrite IH. reflexivity. Qed.

Theorem gen_shrink_eq bs ls : length bs = length ls ->
  shrink_out (gen_shrink_overlapping_windows_numba bs ls) = shrink_loop (combine bs ls).
Proof.
  intro H. unfold gen_shrink_overlapping_windows_numba, for_range. cbv zeta. rewrite (for_loop_sim _ _ shrink_sim).
  unfold gen_shrink_overlapping_windows_numba_state1, gen_shrink_overlapping_windows_numba_result.
  destruct bs as [|b rb]; destruct ls as [|l rl]; try discriminate; [reflexivity|].
  cbn [combine shrink_loop length]. injection H as H.
  replace (Z.to_nat (Z.of_nat (S (length rb)) - 1 - 0)) with (length rb) by lia.
  pose proof (shrink_aloop rb rl [] [] b l false H eq_refl) as L. cbn [length app Z.of_nat] in L. rewrite L.
  destruct (shrink_loop_go b l (combine rb rl) false) as [[ws s']|]; [|reflexivity].
  cbn [for_then]. unfold gen_shrink_overlapping_windows_numba_post1. cbn [shrink_out app].
  rewrite combine_map_fst_snd. reflexivity.
Qed.

(* ================================================================================================================== *)
(* _time_windows_to_samples_sorted_numba: element k of the two outputs is round(begins[k]*rate), uint64(lengths[k]*rate) *)
Definition tw_state : Type := (list Q * list Q * Q * list Z * list Z)%type.
Definition tw_astep (i : Z) (st : tw_state) : option tw_state :=
  let '(bs, ls, sr, bas, las) := st in
  match qget bs i with None => None | Some b =>
  match zset bas i (rint (Qmult b sr)) with None => None | Some bas' =>
  match qget ls i with None => None | Some l =>
  match zset las i (py_trunc (Qmult l sr)) with None => None | Some las' => Some (bs, ls, sr, bas', las')
  end end end end.

Lemma tw_sim : sim_body gen_time_windows_to_samples_sorted_numba_body1 tw_astep.
Proof. sim_body_tac gen_time_windows_to_samples_sorted_numba_body1 tw_astep. Qed.

Lemma tw_aloop sr : forall rb rl pb pl da dl ja jl,
  length rb = length rl -> length ja = length rb -> length jl = length rl ->
  length pb = length pl -> length da = length pb -> length dl = length pb ->
  aloop (length rb) (Z.of_nat (length pb)) tw_astep (pb ++ rb, pl ++ rl, sr, da ++ ja, dl ++ jl)
  = Some (pb ++ rb, pl ++ rl, sr, da ++ map (fun b => rint (Qmult b sr)) rb, dl ++ map (fun l => py_trunc (Qmult l sr)) rl).
Proof.
  induction rb as [|b rb IH]; intros rl pb pl da dl ja jl Hr Hja Hjl Hp Hda Hdl;
    destruct rl as [|l rl]; try discriminate.
  - destruct ja; [|discriminate]. destruct jl; [|discriminate]. reflexivity.
  - destruct ja as [|a0 ja]; [discriminate|]. destruct jl as [|l0 jl]; [discriminate|].
    cbn [length aloop]. unfold tw_astep at 1.
    rewrite (qget_at pb) by reflexivity. rewrite (zset_at da) by (symmetry; exact Hda).
    rewrite (qget_at pl) by exact Hp. rewrite (zset_at dl) by (symmetry; exact Hdl).
    injection Hr as Hr. injection Hja as Hja. injection Hjl as Hjl.
    specialize (IH rl (pb ++ [b]) (pl ++ [l]) (da ++ [rint (Qmult b sr)]) (dl ++ [py_trunc (Qmult l sr)]) ja jl Hr Hja Hjl).
    rewrite !app_length in IH. cbn [length] in IH.
    specialize (IH ltac:(lia) ltac:(lia) ltac:(lia)).
    replace (Z.of_nat (length pb + 1)) with (Z.of_nat (length pb) + 1) in IH by lia.
    rewrite <- !app_assoc in IH. cbn [app] in IH. rewrite IH. cbn [map]. reflexivity.
Qed.

Theorem gen_tw_sorted_eq bs ls sr : length bs = length ls ->
  gen_time_windows_to_samples_sorted_numba bs ls sr
  = Ret (map (fun b => rint (Qmult b sr)) bs, map (fun l => py_trunc (Qmult l sr)) ls).
Proof.
  intro H. unfold gen_time_windows_to_samples_sorted_numba, for_range. cbv zeta. rewrite (for_loop_sim _ _ tw_sim).
  unfold gen_time_windows_to_samples_sorted_numba_state1, gen_time_windows_to_samples_sorted_numba_result, tw_state in *.
  rewrite !Nat2Z.id, Z.sub_0_r, Nat2Z.id.
  pose proof (tw_aloop sr bs ls [] [] [] [] (repeat 0 (length bs)) (repeat 0 (length ls)) H) as L.
  rewrite !repeat_length in L. specialize (L eq_refl eq_refl eq_refl eq_refl eq_refl).
  cbn [app length Z.of_nat] in L. unfold tw_state in L. rewrite L. reflexivity.
Qed.

(* with non-negative lengths this is the model's per-window conversion (begin: nearest/half-even, length: floor) *)
Theorem gen_tw_sorted_is_conv bs ls sr : length bs = length ls -> Forall (fun l => (0 <= l * sr)%Q) ls ->
  match gen_time_windows_to_samples_sorted_numba bs ls sr with
  | Ret (b', l') => combine b' l' = map (conv sr) (combine bs ls)
  | _ => False
  end.
Proof.
  intros H F. rewrite gen_tw_sorted_eq by exact H. revert ls H F.
  induction bs as [|b bs IH]; intros [|l ls] H F; try discriminate; [reflexivity|].
  inversion F as [|? ? Hl F']; subst. injection H as H. cbn [map combine]. rewrite (IH ls H F'). f_equal.
  unfold conv. cbn [fst snd]. rewrite py_trunc_nonneg by exact Hl. reflexivity.
Qed.

(* ================================================================================================================== *)
(* _voltage_to_uint16_numba *)
Definition volt_state : Type := (list Q * Q * Q * Z * bool * Q * list Z)%type.
Definition volt_astep (i : Z) (st : volt_state) : option volt_state :=
  let '(vs, amp, off, res, flag, scale, result) := st in
  match qget vs i with None => None | Some v =>
    match zset result i (py_trunc (inject_Z (rint (Qmult (Qplus (Qminus v off) amp) scale)))) with
    | None => None
    | Some result' => Some (vs, amp, off, res, (if negb (Qle_bool (Qabs (Qminus v off)) amp) then true else flag), scale, result')
    end
  end.

Lemma volt_sim : sim_body gen_voltage_to_uint16_numba_body1 volt_astep.
Proof. sim_body_tac gen_voltage_to_uint16_numba_body1 volt_astep. Qed.

Lemma volt_aloop amp off res : forall r p d j flag,
  length j = length r -> length d = length p ->
  aloop (length r) (Z.of_nat (length p)) volt_astep (p ++ r, amp, off, res, flag, vscale amp res, d ++ j)
  = Some (p ++ r, amp, off, res, flag || existsb (out_of_range amp off) r, vscale amp res, d ++ map (code1 amp off res) r).
Proof.
  induction r as [|v r IH]; intros p d j flag Hj Hd.
  - destruct j; [|discriminate]. cbn. rewrite orb_false_r. reflexivity.
  - destruct j as [|j0 j]; [discriminate|]. injection Hj as Hj.
    cbn [length aloop]. unfold volt_astep at 1.
    rewrite (qget_at p) by reflexivity. rewrite (zset_at d) by (symmetry; exact Hd). rewrite py_trunc_inject.
    specialize (IH (p ++ [v]) (d ++ [rint (Qmult (Qplus (Qminus v off) amp) (vscale amp res))]) j
                   (if negb (Qle_bool (Qabs (Qminus v off)) amp) then true else flag) Hj).
    rewrite !app_length in IH. cbn [length] in IH. specialize (IH ltac:(lia)).
    replace (Z.of_nat (length p + 1)) with (Z.of_nat (length p) + 1) in IH by lia.
    rewrite <- !app_assoc in IH. cbn [app] in IH. rewrite IH. cbn [map existsb].
    unfold out_of_range at 2. unfold code1 at 2.
    destruct (negb (Qle_bool (Qabs (v - off)) amp)); cbn [orb]; [rewrite orb_true_r|]; reflexivity.
Qed.

(* the kernel is the model's volt_loop: flag remembered, error after the loop; the two guards are the Python
   exceptions of `2 ** resolution` with a negative exponent becoming a float (refused) and of the division by 2*amp = 0 *)
Theorem gen_voltage_to_uint16_eq vs amp off res :
  gen_voltage_to_uint16_numba vs amp off res
  = if res <? 0 then Fail
    else if Qeq_bool (inject_Z 2 * amp) (inject_Z 0) then Fail
    else match volt_loop amp off res vs with ORet cs => Ret cs | OErr => Fail end.
Proof.
  unfold gen_voltage_to_uint16_numba, for_range. cbv zeta.
  destruct (res <? 0); [reflexivity|]. destruct (Qeq_bool (inject_Z 2 * amp) (inject_Z 0)); [reflexivity|].
  rewrite (for_loop_sim _ _ volt_sim). rewrite Z.sub_0_r, Nat2Z.id.
  unfold gen_voltage_to_uint16_numba_state1, gen_voltage_to_uint16_numba_result, volt_state in *.
  pose proof (volt_aloop amp off res vs [] [] (repeat 0 (length vs)) false) as L.
  rewrite repeat_length in L. specialize (L eq_refl eq_refl). cbn [app length Z.of_nat orb] in L.
  change (Qdiv (inject_Z (2 ^ res - 1)) (Qmult (inject_Z 2) amp)) with (vscale amp res).
  unfold volt_state in L. rewrite L. cbn [for_then]. unfold gen_voltage_to_uint16_numba_post1.
  unfold volt_loop. rewrite volt_loop_go_spec. cbn [orb rev app].
  destruct (existsb (out_of_range amp off) vs); reflexivity.
Qed.

(* ================================================================================================================== *)
(* not_none_indices *)
Definition nni_state : Type := (list (option Z) * list (option Z) * Z)%type.
Definition nni_astep (x : option Z) (st : nni_state) : option nni_state :=
  let '(sq, ind, idx) := st in
  match x with
  | None => Some (sq, ind ++ [None], idx)
  | Some _ => Some (sq, ind ++ [Some idx], idx + 1)
  end.

Lemma nni_sim : sim_body_each gen_not_none_indices_body1 nni_astep.
Proof. sim_body_tac gen_not_none_indices_body1 nni_astep. Qed.

Lemma nni_aeach : forall (l sq ind : list (option Z)) idx,
  aeach l nni_astep (sq, ind, idx) = Some (sq, ind ++ fst (nni_go l idx), snd (nni_go l idx)).
Proof.
  induction l as [|[a|] l IH]; intros sq ind idx; cbn [aeach nni_astep nni_go].
  - cbn. rewrite app_nil_r. reflexivity.
  - rewrite IH. destruct (nni_go l (idx + 1)) as [is n]. cbn [fst snd]. rewrite <- app_assoc. reflexivity.
  - rewrite IH. destruct (nni_go l idx) as [is n]. cbn [fst snd]. rewrite <- app_assoc. reflexivity.
Qed.

Theorem gen_not_none_indices_eq l : gen_not_none_indices l = Ret (not_none_indices l).
Proof.
  unfold gen_not_none_indices. cbv zeta. rewrite (for_each_sim _ _ nni_sim).
  unfold gen_not_none_indices_state1, gen_not_none_indices_result.
  pose proof (nni_aeach l l [] 0) as H. unfold nni_state in H. rewrite H. cbn [for_then app].
  unfold gen_not_none_indices_post1, not_none_indices. destruct (nni_go l 0) as [is n]. reflexivity.
Qed.
