(* C20 — the translator's output (Gen_performance.v, regenerated from /repo on every run) computes the same functions
   as the clean models in Model.v.  If the Python kernels change, this file stops compiling (or the translator
   refuses) and the obligation is reported as broken. *)
From Coq Require Import ZArith QArith Bool List Lia ZifyBool.
Require Import QV.common.Ctl QV.C20.ForLoop QV.C20.Gen_performance QV.C20.Model.
Import ListNotations.
Open Scope Z_scope.

Lemma zget_mid (p : list Z) x r : zget (p ++ x :: r) (Z.of_nat (length p)) = Some x.
Proof.
  unfold zget. rewrite app_length. cbn [length].
  replace ((0 <=? Z.of_nat (length p)) && (Z.of_nat (length p) <? Z.of_nat (length p + S (length r)))) with true by lia.
  rewrite Nat2Z.id, nth_error_app2, Nat.sub_diag by lia. reflexivity.
Qed.

Lemma zget_mid1 (p : list Z) x y r : zget (p ++ x :: y :: r) (Z.of_nat (length p) + 1) = Some y.
Proof.
  replace (p ++ x :: y :: r) with ((p ++ [x]) ++ y :: r) by (rewrite <- app_assoc; reflexivity).
  replace (Z.of_nat (length p) + 1) with (Z.of_nat (length (p ++ [x]))) by (rewrite app_length; cbn; lia).
  apply zget_mid.
Qed.

Lemma zset_mid (p : list Z) x r v : zset (p ++ x :: r) (Z.of_nat (length p)) v = Some (p ++ v :: r).
Proof.
  unfold zset. rewrite app_length. cbn [length].
  replace ((0 <=? Z.of_nat (length p)) && (Z.of_nat (length p) <? Z.of_nat (length p + S (length r)))) with true by lia.
  rewrite Nat2Z.id. f_equal.
  rewrite firstn_app, Nat.sub_diag, firstn_all. cbn [firstn]. rewrite app_nil_r. f_equal.
  replace (S (length p)) with (length (p ++ [x])) by (rewrite app_length; cbn; lia).
  replace (p ++ x :: r) with ((p ++ [x]) ++ r) by (rewrite <- app_assoc; reflexivity).
  rewrite skipn_app, skipn_all, Nat.sub_diag. reflexivity.
Qed.

Lemma zset_mid1 (p : list Z) x y r v : zset (p ++ x :: y :: r) (Z.of_nat (length p) + 1) v = Some (p ++ x :: v :: r).
Proof.
  replace (p ++ x :: y :: r) with ((p ++ [x]) ++ y :: r) by (rewrite <- app_assoc; reflexivity).
  replace (Z.of_nat (length p) + 1) with (Z.of_nat (length (p ++ [x]))) by (rewrite app_length; cbn; lia).
  rewrite zset_mid. rewrite <- app_assoc. reflexivity.
Qed.

(* ---- _is_monotonic_numba ---- *)
Fixpoint monoZ_go (prev : Z) (xs : list Z) (acc : bool) : bool :=
  match xs with [] => acc | x :: r => monoZ_go x r (acc && (prev <=? x)) end.

Lemma mono_body_loop : forall r p a acc i0,
  exists i1, for_loop (length r) (Z.of_nat (length p) + 1) gen_is_monotonic_numba_body1 (p ++ a :: r, acc, i0)
             = Next (p ++ a :: r, monoZ_go a r acc, i1).
Proof.
  induction r as [|b r IH]; intros p a acc i0; cbn [length for_loop monoZ_go]; [eexists; reflexivity|].
  unfold gen_is_monotonic_numba_body1 at 1.
  replace (Z.of_nat (length p) + 1 - 1) with (Z.of_nat (length p)) by lia.
  rewrite zget_mid, zget_mid1.
  replace (p ++ a :: b :: r) with ((p ++ [a]) ++ b :: r) by (rewrite <- app_assoc; reflexivity).
  replace (Z.of_nat (length p) + 1 + 1) with (Z.of_nat (length (p ++ [a])) + 1) by (rewrite app_length; cbn; lia).
  apply IH.
Qed.

Lemma Qle_bool_inject a b : Qle_bool (inject_Z a) (inject_Z b) = (a <=? b).
Proof. unfold Qle_bool, inject_Z; cbn. rewrite !Z.mul_1_r. reflexivity. Qed.

Lemma monoZ_go_Q a r acc : monoZ_go a r acc = mono_loop_go (inject_Z a) (map inject_Z r) acc.
Proof. revert a acc. induction r as [|b r IH]; intros; cbn; [reflexivity|]. rewrite IH, Qle_bool_inject. reflexivity. Qed.

Theorem gen_is_monotonic_eq xs : gen_is_monotonic_numba xs = Ret (mono_loop (map inject_Z xs), xs).
Proof.
  unfold gen_is_monotonic_numba, for_range. destruct xs as [|a r].
  - reflexivity.
  - cbn [length]. replace (Z.to_nat (Z.of_nat (S (length r)) - 1)) with (length r) by lia.
    destruct (mono_body_loop r [] a true 0) as [i1 H]. cbn [length app] in H. cbn [Z.of_nat Z.add] in H.
    rewrite H. cbn [map mono_loop]. rewrite monoZ_go_Q. reflexivity.
Qed.

(* ---- _shrink_overlapping_windows_numba ---- *)
Definition shrink_out (c : ctl gen_shrink_overlapping_windows_numba_result gen_shrink_overlapping_windows_numba_state)
  : outcome (list (Z * Z) * bool) :=
  match c with
  | Ret (s, bs, ls) => ORet (combine bs ls, s)
  | _ => OErr
  end.

Lemma zget_at (p : list Z) x r n : n = length p -> zget (p ++ x :: r) (Z.of_nat n) = Some x.
Proof. intros ->. apply zget_mid. Qed.
Lemma zget_at1 (p : list Z) x y r n : n = length p -> zget (p ++ x :: y :: r) (Z.of_nat n + 1) = Some y.
Proof. intros ->. apply zget_mid1. Qed.
Lemma zset_at1 (p : list Z) x y r v n : n = length p -> zset (p ++ x :: y :: r) (Z.of_nat n + 1) v = Some (p ++ x :: v :: r).
Proof. intros ->. apply zset_mid1. Qed.

Lemma shrink_body_step pb pl b l b1 l1 rb rl s j1 j2 j3 j4 : length pb = length pl ->
  gen_shrink_overlapping_windows_numba_body1 (Z.of_nat (length pb))
    (pb ++ b :: b1 :: rb, pl ++ l :: l1 :: rl, s, j1, j2, j3, j4)
  = if b + l >? b1 then
      if l1 >? b + l - b1 then
        Next (pb ++ b :: (b1 + (b + l - b1)) :: rb, pl ++ l :: (l1 - (b + l - b1)) :: rl, true,
              Z.of_nat (length pb), b + l, b1, b + l - b1)
      else Fail
    else Next (pb ++ b :: b1 :: rb, pl ++ l :: l1 :: rl, s, Z.of_nat (length pb), b + l, b1, j4).
Proof.
  intro Hp. unfold gen_shrink_overlapping_windows_numba_body1. cbv zeta.
  rewrite (zget_at pb) by reflexivity. rewrite (zget_at pl) by exact Hp.
  rewrite (zget_at1 pb) by reflexivity. rewrite (zget_at1 pl) by exact Hp.
  rewrite (zset_at1 pb) by reflexivity. rewrite (zset_at1 pl) by exact Hp.
  destruct (b + l >? b1); [|reflexivity].
  destruct (l1 >? b + l - b1); reflexivity.
Qed.

Lemma shrink_body_loop : forall rb rl pb pl b l s j1 j2 j3 j4,
  length rb = length rl -> length pb = length pl ->
  match shrink_loop_go b l (combine rb rl) s with
  | ORet (ws, s') =>
      exists k1 k2 k3 k4,
      for_loop (length rb) (Z.of_nat (length pb)) gen_shrink_overlapping_windows_numba_body1
               (pb ++ b :: rb, pl ++ l :: rl, s, j1, j2, j3, j4)
      = Next (pb ++ map fst ws, pl ++ map snd ws, s', k1, k2, k3, k4)
  | OErr =>
      for_loop (length rb) (Z.of_nat (length pb)) gen_shrink_overlapping_windows_numba_body1
               (pb ++ b :: rb, pl ++ l :: rl, s, j1, j2, j3, j4) = Fail
  end.
Proof.
  induction rb as [|b1 rb IH]; intros rl pb pl b l s j1 j2 j3 j4 Hr Hp; destruct rl as [|l1 rl]; try discriminate.
  - cbn. do 4 eexists. reflexivity.
  - cbn [combine shrink_loop_go length for_loop]. rewrite (shrink_body_step _ _ _ _ _ _ _ _ _ _ _ _ _ Hp).
    injection Hr as Hr.
    assert (Hp' : length (pb ++ [b]) = length (pl ++ [l])) by (rewrite !app_length, Hp; reflexivity).
    assert (Hi : Z.of_nat (length pb) + 1 = Z.of_nat (length (pb ++ [b]))) by (rewrite app_length; cbn; lia).
    destruct (b + l >? b1) eqn:E1.
    + destruct (l1 >? b + l - b1) eqn:E2; [|reflexivity].
      specialize (IH rl (pb ++ [b]) (pl ++ [l]) (b1 + (b + l - b1)) (l1 - (b + l - b1)) true
                     (Z.of_nat (length pb)) (b + l) b1 (b + l - b1) Hr Hp').
      rewrite <- Hi, <- !app_assoc in IH. cbn [app] in IH.
      destruct (shrink_loop_go (b1 + (b + l - b1)) (l1 - (b + l - b1)) (combine rb rl) true) as [[ws s']|].
      * destruct IH as [k1 [k2 [k3 [k4 IH]]]]. exists k1, k2, k3, k4. rewrite IH.
        cbn [map fst snd]. rewrite <- !app_assoc. reflexivity.
      * exact IH.
    + specialize (IH rl (pb ++ [b]) (pl ++ [l]) b1 l1 s (Z.of_nat (length pb)) (b + l) b1 j4 Hr Hp').
      rewrite <- Hi, <- !app_assoc in IH. cbn [app] in IH.
      destruct (shrink_loop_go b1 l1 (combine rb rl) s) as [[ws s']|].
      * destruct IH as [k1 [k2 [k3 [k4 IH]]]]. exists k1, k2, k3, k4. rewrite IH.
        cbn [map fst snd]. rewrite <- !app_assoc. reflexivity.
      * exact IH.
Qed.

Lemma combine_map_fst_snd (ws : list (Z * Z)) : combine (map fst ws) (map snd ws) = ws.
Proof. induction ws as [|[a b] r IH]; cbn; [reflexivity|]. rewrite IH. reflexivity. Qed.

Theorem gen_shrink_eq bs ls : length bs = length ls ->
  shrink_out (gen_shrink_overlapping_windows_numba bs ls) = shrink_loop (combine bs ls).
Proof.
  intro H. unfold gen_shrink_overlapping_windows_numba, for_range.
  destruct bs as [|b rb]; destruct ls as [|l rl]; try discriminate; [reflexivity|].
  cbn [combine shrink_loop length]. injection H as H.
  replace (Z.to_nat (Z.of_nat (S (length rb)) - 1 - 0)) with (length rb) by lia.
  pose proof (shrink_body_loop rb rl [] [] b l false 0 0 0 0 H eq_refl) as L. cbn [length app Z.of_nat] in L.
  destruct (shrink_loop_go b l (combine rb rl) false) as [[ws s']|].
  - destruct L as [k1 [k2 [k3 [k4 L]]]]. rewrite L. cbn [shrink_out]. rewrite combine_map_fst_snd. reflexivity.
  - rewrite L. reflexivity.
Qed.
