(* C20 — property theorems (statements only; proofs live in Proofs*.v). *)
From Coq Require Import ZArith QArith Bool List.
Require Import QV.C20.Model QV.C20.Spec.
