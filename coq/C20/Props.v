(* C20 — property theorems (statements only; proofs live in Proofs*.v). *)
From Coq Require Import ZArith QArith Qround Qabs Bool List Sorted Permutation.
Require Import QV.common.Util QV.common.Ctl QV.C20.Model QV.C20.Spec QV.C20.ProofsNum QV.C20.ProofsWin QV.C20.ProofsShrink.
Require Import QV.C20.ForLoop QV.C20.Gen_performance QV.C20.Gen_util QV.C20.GenEq QV.C20.ProofsAvg QV.C20.ProofsAvg2 QV.C20.ProofsMem QV.C20.ProofsMem2.
Import ListNotations.
Open Scope Q_scope.

(* ---- rounding used everywhere: numpy.rint / round() is "nearest, ties to even" ---- *)
Theorem C20_rint_nearest_even : forall q,
  Qabs (q - inject_Z (rint q)) <= 1 # 2 /\ (Qabs (q - inject_Z (rint q)) == 1 # 2 -> Z.even (rint q) = true).
Proof. exact (fun q => conj (rint_near q) (rint_tie_even q)). Qed.
Print Assumptions C20_rint_nearest_even.

(* ---- voltage -> DAC code (exact rationals; amplitude > 0, resolution >= 1) ---- *)
Theorem C20_code_monotone : forall amp off res v1 v2, 0 < amp -> (1 <= res)%Z -> v1 <= v2 ->
  (code1 amp off res v1 <= code1 amp off res v2)%Z.
Proof. exact code_monotone. Qed.
Print Assumptions C20_code_monotone.

Theorem C20_code_range_ends : forall amp off res, 0 < amp ->
  code1 amp off res (off - amp) = 0%Z /\ code1 amp off res (off + amp) = (2 ^ res - 1)%Z.
Proof. exact (fun amp off res H => conj (code_lo amp off res H) (code_hi amp off res H)). Qed.
Print Assumptions C20_code_range_ends.

Theorem C20_code_in_code_range : forall amp off res v, 0 < amp -> (1 <= res)%Z -> off - amp <= v -> v <= off + amp ->
  (0 <= code1 amp off res v <= 2 ^ res - 1)%Z.
Proof. exact code_range. Qed.
Print Assumptions C20_code_in_code_range.

(* | code * step - (v - lo) | <= step / 2   with step = 2 amp / (2^res - 1), lo = off - amp *)
Theorem C20_code_half_step_error : forall amp off res v, 0 < amp -> (1 <= res)%Z ->
  Qabs (inject_Z (code1 amp off res v) * (((2 # 1) * amp) / inject_Z (2 ^ res - 1)) - (v - (off - amp)))
  <= (((2 # 1) * amp) / inject_Z (2 ^ res - 1)) / (2 # 1).
Proof. exact code_error. Qed.
Print Assumptions C20_code_half_step_error.

Theorem C20_out_of_range_rejected : forall amp off res vs,
  (volt_numpy amp off res vs = OErr <-> exists v, In v vs /\ amp < Qabs (v - off))
  /\ ((forall v, In v vs -> Qabs (v - off) <= amp) -> volt_numpy amp off res vs = ORet (map (code1 amp off res) vs)).
Proof. exact (fun amp off res vs => conj (volt_numpy_rejects amp off res vs) (volt_numpy_accepts amp off res vs)). Qed.
Print Assumptions C20_out_of_range_rejected.

Theorem C20_volt_variants_equal : forall amp off res vs, volt_loop amp off res vs = volt_numpy amp off res vs.
Proof. exact volt_variants. Qed.
Print Assumptions C20_volt_variants_equal.

(* ---- is_monotonic ---- *)
Theorem C20_is_monotonic : forall xs,
  mono_loop xs = mono_numpy xs /\ (mono_numpy xs = true <-> Sorted Qle xs).
Proof.
  exact (fun xs => conj (mono_variants xs)
                        (eq_ind_r (fun b => b = true <-> Sorted Qle xs) (sortedb_Sorted xs) (mono_numpy_sortedb xs))).
Qed.
Print Assumptions C20_is_monotonic.

(* ---- time windows -> sample indices ---- *)
(* (the first conjunct only unfolds the model — tw_numpy IS "convert the insertion-sorted list"; the content is in the other
   three: that list is sorted by begin, a permutation of the input, and the resulting sample begins are sorted) *)
Theorem C20_windows_sorted_by_begin : forall sr ws,
  tw_numpy sr ws = map (conv sr) (sort_w ws)
  /\ Sorted (fun a b => fst a <= fst b) (sort_w ws) /\ Permutation (sort_w ws) ws
  /\ (0 <= sr -> Sorted Z.le (map fst (tw_numpy sr ws))).
Proof.
  exact (fun sr ws => conj eq_refl (conj (sort_w_sorted ws) (conj (sort_w_perm ws) (tw_begins_sorted sr ws)))).
Qed.
Print Assumptions C20_windows_sorted_by_begin.

Theorem C20_window_rounding : forall sr w,
  (Qabs (fst w * sr - inject_Z (fst (conv sr w))) <= 1 # 2
   /\ (Qabs (fst w * sr - inject_Z (fst (conv sr w))) == 1 # 2 -> Z.even (fst (conv sr w)) = true))
  /\ (inject_Z (snd (conv sr w)) <= snd w * sr /\ snd w * sr < inject_Z (snd (conv sr w)) + 1).
Proof. exact (fun sr w => conj (conv_begin_nearest sr w) (conv_length_floor sr w)). Qed.
Print Assumptions C20_window_rounding.

Theorem C20_windows_variants_equal : forall sr ws, tw_loop sr ws = tw_numpy sr ws.
Proof. exact tw_variants. Qed.
Print Assumptions C20_windows_variants_equal.

(* ---- shrink_overlapping_windows (all window lists, no sortedness or sign assumption) ---- *)
Theorem C20_shrink : forall ws ws' s, shrink_loop ws = ORet (ws', s) ->
  Forall2 (fun w w' => w_end w = w_end w' /\ (fst w <= fst w')%Z) ws ws'      (* ends stay, begins only move forward *)
  /\ disjoint_adj ws'                                                           (* consecutive windows are disjoint *)
  /\ hd_error ws' = hd_error ws.
Proof. exact shrink_loop_ok. Qed.
Print Assumptions C20_shrink.

Theorem C20_shrink_pairwise_disjoint : forall ws ws' s, shrink_loop ws = ORet (ws', s) ->
  Forall (fun w => (0 <= snd w)%Z) ws -> StronglySorted (fun a b => (w_end a <= fst b)%Z) ws'.
Proof. exact shrink_loop_pairwise. Qed.
Print Assumptions C20_shrink_pairwise_disjoint.

(* holds since the repair 108ec35 of /repo (before, the numpy variant rejected every zero-length window) *)
Theorem C20_shrink_variants_equal : forall ws, shrink_numpy ws = shrink_loop ws.
Proof. exact shrink_variants. Qed.
Print Assumptions C20_shrink_variants_equal.

(* ---- average_windows ---- *)
Theorem C20_average_numpy_is_mean : forall nch time values ws,
  Sorted Qle time -> length values = length time -> avg_numpy nch time values ws = spec_avg nch time values ws.
Proof. exact avg_numpy_is_spec. Qed.
Print Assumptions C20_average_numpy_is_mean.

(* known finding C20-average-loop-unsorted-windows: the two implementations differ on a nested window *)
Theorem C20_average_variants_equal_refuted :
  avg_eqb (avg_loop 1 avg_witness_time avg_witness_values avg_witness_windows)
          (avg_numpy 1 avg_witness_time avg_witness_values avg_witness_windows) = false
  /\ guard_C20_average_sorted_windows avg_witness_windows = false.
Proof. exact (conj avg_variants_refuted eq_refl). Qed.
Print Assumptions C20_average_variants_equal_refuted.

(* under the guard (windows sorted by begin and by end) the two-pointer loop is the mean over begin <= t < end, hence
   equal to the searchsorted variant; closes the statement left open in round 1 (C20_average_variants_equal_statement) *)
Theorem C20_average_loop_is_mean : forall nch time values ws,
  Sorted Qle time -> length values = length time -> guard_C20_average_sorted_windows ws = true ->
  avg_loop nch time values ws = spec_avg nch time values ws.
Proof. exact avg_loop_is_spec. Qed.
Print Assumptions C20_average_loop_is_mean.

Theorem C20_average_variants_equal : forall nch time values ws,
  Sorted Qle time -> length values = length time -> Forall (fun row => length row = nch) values ->
  guard_C20_average_sorted_windows ws = true ->
  avg_eqb (avg_loop nch time values ws) (avg_numpy nch time values ws) = true.
Proof. exact avg_variants_equal. Qed.
Print Assumptions C20_average_variants_equal.

(* ---- ProgramEntry sampling: the flat-memory model (compact rows, segment offsets, views read after all writes)
        returns exactly the direct formula (T(sample wf ch (k/rate)) - offset)/amplitude, markers <> 0 — including the
        error cases (unknown channel, too few samples, bad duration) ---- *)
Theorem C20_sampling : forall chans markers rate wfs,
  sample_waveforms chans markers rate wfs = spec_sample chans markers rate wfs.
Proof. exact sample_waveforms_is_spec. Qed.
Print Assumptions C20_sampling.

(* ProgramEntry as a whole (round 4): no waveforms, no samples (and no call of _sample_waveforms); otherwise as above *)
Theorem C20_entry_sampling : forall chans markers rate wfs,
  entry_waveforms chans markers rate wfs = spec_entry chans markers rate wfs.
Proof. intros chans markers rate [|w ws]; [reflexivity|]. apply sample_waveforms_is_spec. Qed.
Print Assumptions C20_entry_sampling.

(* the same as the boolean comparison used by the correspondence check (the round-1 C20_sampling_statement) *)
Theorem C20_sampling_eqb : forall chans markers rate wfs,
  outcome_eqb (list_eqb sampled_eqb) (sample_waveforms chans markers rate wfs) (spec_sample chans markers rate wfs) = true.
Proof. exact sampling_statement. Qed.
Print Assumptions C20_sampling_eqb.

(* the two memory facts it is assembled from: a written segment reads back unchanged, a later write further right
   leaves it alone, the row keeps its length *)
Theorem C20_flat_memory_read_write : forall (A : Type) (row : list A) (pos : nat) (xs : list A),
  (pos + length xs <= length row)%nat ->
  firstn (length xs) (skipn pos (write_at row pos xs)) = xs
  /\ (forall pos2 n2, (pos2 + n2 <= pos)%nat -> firstn n2 (skipn pos2 (write_at row pos xs)) = firstn n2 (skipn pos2 row))
  /\ length (write_at row pos xs) = length row.
Proof.
  exact (fun A row pos xs H => conj (read_own_write row pos xs H)
           (conj (fun pos2 n2 H2 => read_left_of_write row pos xs pos2 n2 H2 H) (write_at_length row pos xs H))).
Qed.
Print Assumptions C20_flat_memory_read_write.

(* ---- the loop kernels re-translated from /repo on every run compute the clean models (GenEq.v; the proofs go through
        a hand-written state transformer per loop iteration and never depend on the text of the generated body) ---- *)
Theorem C20_translated_shrink_is_model : forall bs ls, length bs = length ls ->
  shrink_out (gen_shrink_overlapping_windows_numba bs ls) = shrink_loop (combine bs ls).
Proof. exact gen_shrink_eq. Qed.
Print Assumptions C20_translated_shrink_is_model.

Theorem C20_translated_is_monotonic_is_model : forall xs,
  gen_is_monotonic_numba xs = Ret (mono_loop (map inject_Z xs)).
Proof. exact gen_is_monotonic_eq. Qed.
Print Assumptions C20_translated_is_monotonic_is_model.

(* _voltage_to_uint16_numba over exact reals: the translated loop is the model's volt_loop (one pass, flag, error after
   the loop); the two guards are `2 ** resolution` with a negative exponent and the division by 2*amplitude = 0 *)
Theorem C20_translated_voltage_to_uint16_is_model : forall vs amp off res,
  gen_voltage_to_uint16_numba vs amp off res
  = if (res <? 0)%Z then Fail
    else if Qeq_bool (inject_Z 2 * amp) (inject_Z 0) then Fail
    else match volt_loop amp off res vs with ORet cs => Ret cs | OErr => Fail end.
Proof. exact gen_voltage_to_uint16_eq. Qed.
Print Assumptions C20_translated_voltage_to_uint16_is_model.

(* _time_windows_to_samples_sorted_numba over exact reals: output k is (round(begins[k]*rate), uint64(lengths[k]*rate)),
   which is the model's `conv` for non-negative lengths (uint64() truncates towards zero) *)
Theorem C20_translated_windows_sorted_is_model : forall bs ls sr, length bs = length ls ->
  gen_time_windows_to_samples_sorted_numba bs ls sr
  = Ret (map (fun b => rint (b * sr)) bs, map (fun l => py_trunc (l * sr)) ls)
  /\ (Forall (fun l => 0 <= l * sr) ls ->
      combine (map (fun b => rint (b * sr)) bs) (map (fun l => py_trunc (l * sr)) ls) = map (conv sr) (combine bs ls)).
Proof.
  intros bs ls sr H. split; [exact (gen_tw_sorted_eq bs ls sr H)|].
  intro F. pose proof (gen_tw_sorted_is_conv bs ls sr H F) as G. rewrite (gen_tw_sorted_eq bs ls sr H) in G. exact G.
Qed.
Print Assumptions C20_translated_windows_sorted_is_model.

(* not_none_indices (list of optional channel ids abstracted to option Z): the translated loop is the model *)
Theorem C20_translated_not_none_indices_is_model : forall l : list (option Z),
  gen_not_none_indices l = Ret (not_none_indices l).
Proof. exact gen_not_none_indices_eq. Qed.
Print Assumptions C20_translated_not_none_indices_is_model.

(* ---- the uint16 result array (round 3).  store16 c = c mod 2^16 is what the arrays of the internal variants hold;
        for the resolutions the public function accepts since repair 4036b19 (1..16) nothing is lost, above 16 bit the
        stored codes wrap (not monotone, upper range end not the highest code), which is why they are rejected ---- *)
Require Import QV.C20.ProofsStore.
Theorem C20_uint16_store_faithful : forall (amp off : Q) res vs, (0 < amp)%Q -> (1 <= res <= 16)%Z ->
  volt_numpy16 amp off res vs = volt_numpy amp off res vs
  /\ volt_loop16 amp off res vs = volt_loop amp off res vs
  /\ volt_public amp off res vs = volt_numpy amp off res vs.
Proof.
  exact (fun amp off res vs Ha Hr => conj (volt_numpy16_faithful amp off res vs Ha Hr)
           (conj (volt_loop16_faithful amp off res vs Ha Hr) (volt_public_in_range amp off res vs Ha Hr))).
Qed.
Print Assumptions C20_uint16_store_faithful.

Theorem C20_resolution_outside_1_16_rejected : forall (amp off : Q) res vs, (res < 1 \/ 16 < res)%Z ->
  volt_public amp off res vs = OErr.
Proof. exact volt_public_rejects_resolution. Qed.
Print Assumptions C20_resolution_outside_1_16_rejected.

(* without the guard: 17 bit, amplitude 1, offset 0: the voltages 0 < 1/2 (codes 65536 < 98303) are stored as 0 and 32767;
   the stored code of the lower voltage 0 equals the code of the lower range end *)
Theorem C20_uint16_wraps_above_16_refuted :
  exists (amp off : Q) res vs, ((0 < amp)%Q /\ (16 < res)%Z /\ Forall (fun v => (Qabs (v - off) <= amp)%Q) vs)
    /\ volt_numpy16 amp off res vs <> volt_numpy amp off res vs.
Proof.
  exists 1%Q, 0%Q, 17%Z, [0%Q; (1 # 2)%Q]. split.
  - split; [reflexivity|split; [reflexivity|]]. repeat constructor; discriminate.
  - destruct store16_wraps_17 as [H1 H2]. rewrite H1, H2. discriminate.
Qed.
Print Assumptions C20_uint16_wraps_above_16_refuted.

(* ==== BINARY64 (Flocq) — labelled separately: statements about real numbers, so the real-number axioms of Coq's
        standard library are listed by Print Assumptions (ClassicalDedekindReals.sig_forall_dec, sig_not_dec,
        FunctionalExtensionality.functional_extensionality_dep); overflow to infinity is not modelled ==== *)
Require Import Reals Qreals.
From Flocq Require Import Core.
Require Import QV.C20.ProofsFloat.

(* the float computation rint(RN(RN(RN(v - off) + amp) * RN((2^res - 1) / RN(2 amp)))) is monotone in v *)
Theorem C20_float_code_monotone : forall amp off res v1 v2, (0 <= amp)%R -> (0 <= res)%Z -> (v1 <= v2)%R ->
  (fcode amp off res v1 <= fcode amp off res v2)%Z.
Proof. exact fcode_monotone. Qed.
Print Assumptions C20_float_code_monotone.

(* the model's rint is Flocq's round-half-even on the reals *)
Theorem C20_rint_is_ZnearestE : forall q : Q, rint q = ZnearestE (Q2R q).
Proof. exact rint_is_ZnearestE. Qed.
Print Assumptions C20_rint_is_ZnearestE.

(* the float code equals the exact-rational code of Model.v unless a half-way point lies between the exact scaled
   voltage and its float value ("except at exact half-way points" alone would be false) *)
Theorem C20_float_code_is_exact_code : forall (amp off v : Q) res, ~ (amp == 0)%Q ->
  (forall k : Z, ~ (Rmin (xscaled (Q2R amp) (Q2R off) res (Q2R v))
                         (RN (RN (RN (Q2R v - Q2R off) + Q2R amp) * fscale (Q2R amp) res))
                    <= IZR k + / 2
                    <= Rmax (xscaled (Q2R amp) (Q2R off) res (Q2R v))
                            (RN (RN (RN (Q2R v - Q2R off) + Q2R amp) * fscale (Q2R amp) res)))%R) ->
  fcode (Q2R amp) (Q2R off) res (Q2R v) = code1 amp off res v.
Proof. exact fcode_is_exact_code. Qed.
Print Assumptions C20_float_code_is_exact_code.

(* representable intermediate results (the harness' dyadic inputs): the float code is the exact code *)
Theorem C20_float_code_exact_inputs : forall amp off res v,
  generic_format radix2 fexp (v - off) -> generic_format radix2 fexp ((v - off) + amp) ->
  generic_format radix2 fexp (2 * amp) -> generic_format radix2 fexp (IZR (2 ^ res - 1) / (2 * amp)) ->
  generic_format radix2 fexp (((v - off) + amp) * (IZR (2 ^ res - 1) / (2 * amp))) ->
  fcode amp off res v = ZnearestE (xscaled amp off res v).
Proof. exact fcode_exact_inputs. Qed.
Print Assumptions C20_float_code_exact_inputs.

(* ---- round 3: quantitative bound.  Sane amplitudes (2^-500 .. 2^500), in-range voltage, resolution 1..16: the float
        value of the scaled voltage is within 2^-30 of the exact one (actual bound 10 (2^res - 1) 2^-53) ---- *)
Require Import QV.C20.ProofsFloat2.
Theorem C20_float_scaled_error_bound : forall (amp off v : R) res,
  (bpow radix2 (-500) <= amp)%R -> (amp <= bpow radix2 500)%R -> (Rabs (v - off) <= amp)%R -> (1 <= res <= 16)%Z ->
  (Rabs (RN (RN (RN (v - off) + amp) * fscale amp res) - xscaled amp off res v) <= bpow radix2 (-30))%R.
Proof. exact fscaled_error. Qed.
Print Assumptions C20_float_scaled_error_bound.

(* ... hence the float code differs from the exact code of Model.v by at most one, lies within 1/2 + 2^-30 of the exact
   scaled voltage (the tolerance `code_tol` of the decimal stream in Spec.v), and IS the exact code unless the exact
   scaled voltage is within 2^-30 of a half-way point.  (Replaces the unquantified hypothesis of
   C20_float_code_is_exact_code.) *)
Theorem C20_float_code_within_one : forall (amp off v : Q) res,
  (bpow radix2 (-500) <= Q2R amp <= bpow radix2 500)%R -> (Rabs (Q2R v - Q2R off) <= Q2R amp)%R -> (1 <= res <= 16)%Z ->
  (Z.abs (fcode (Q2R amp) (Q2R off) res (Q2R v) - code1 amp off res v) <= 1)%Z
  /\ (Rabs (IZR (fcode (Q2R amp) (Q2R off) res (Q2R v)) - xscaled (Q2R amp) (Q2R off) res (Q2R v)) <= / 2 + bpow radix2 (-30))%R
  /\ ((forall k : Z, ~ (Rabs (xscaled (Q2R amp) (Q2R off) res (Q2R v) - (IZR k + / 2)) <= bpow radix2 (-30))%R) ->
      fcode (Q2R amp) (Q2R off) res (Q2R v) = code1 amp off res v).
Proof. exact fcode_within_one. Qed.
Print Assumptions C20_float_code_within_one.

(* ---- round 4: THE SAMPLE GRID IN BINARY64.  "Sampling at the times k / sample rate" means, for binary64 numbers: sample k
        is taken at Model.grid_time rate k = b64 (k / rate), the binary64 number nearest (ties to even) to the EXACT rational
        k / rate — one rounding.  Model.b64 is an executable function on Q (it runs inside check_corr / check_spec); it is
        Flocq's round-to-nearest-even: ---- *)
Require Import QV.C20.ProofsGrid.
Theorem C20_b64_is_RN : forall q : Q, Q2R (b64 q) = RN (Q2R q).
Proof. exact b64_is_RN. Qed.
Print Assumptions C20_b64_is_RN.

Theorem C20_grid_time_is_RN : forall (rate : Q) (k : Z), ~ (rate == 0)%Q -> Q2R (grid_time rate k) = RN (IZR k / Q2R rate).
Proof. exact grid_time_is_RN. Qed.
Print Assumptions C20_grid_time_is_RN.

(* binary64 division of representable k and r (one rounding) gives the grid time ... *)
Theorem C20_grid_division_correctly_rounded : forall (k : Z) (r : Q), ~ (r == 0)%Q -> (Z.abs k <= 2 ^ 53)%Z ->
  RN (Q2R r) = Q2R r -> RN (RN (IZR k) / RN (Q2R r)) = Q2R (grid_time r k).
Proof. exact RN_division_is_grid. Qed.
Print Assumptions C20_grid_division_correctly_rounded.

(* ... while k * (1 / r) (two roundings) need not, even for a representable rate: r = 3, k = 5 (the change of seed C20-5);
   executable guard of the true statement: nothing — the formula is simply not the specification; non-vacuity: the
   witness rate IS representable, so C20_grid_division_correctly_rounded applies to it *)
Theorem C20_grid_reciprocal_refuted :
  (exists rate k, (b64 rate == rate)%Q /\ (grid_reciprocal rate k < grid_time rate k)%Q)
  /\ (RN (5 * RN (1 / 3)) < RN (5 / 3))%R.
Proof. exact (conj grid_reciprocal_refuted RN_reciprocal_refuted). Qed.
Print Assumptions C20_grid_reciprocal_refuted.

(* get_sample_times before the round-4 repair computed float(k) / float(rate).  Guard: the rate is representable. *)
Definition guard_C20_rate_representable (rate : Q) : bool := Qeq_bool (b64 rate) rate.
Theorem C20_grid_old_correct : forall rate k, guard_C20_rate_representable rate = true ->
  (grid_old rate k == grid_time rate k)%Q.
Proof. intros rate k H. apply grid_old_correct. apply Qeq_bool_iff. exact H. Qed.
Print Assumptions C20_grid_old_correct.
Example guard_C20_rate_representable_nonvacuous :
  guard_C20_rate_representable 3 = true /\ guard_C20_rate_representable (3 # 2) = true /\ guard_C20_rate_representable (9 # 5) = false.
Proof. vm_compute. repeat split. Qed.
(* without the guard the old formula is refuted: 1.8 GS/s, sample 3 is taken one ulp BEFORE 5/3 ns, so a jump placed at
   5/3 ns shows up one sample late (was a finding of /repo; repaired, see notes) *)
Theorem C20_grid_old_refuted : exists rate k,
  guard_C20_rate_representable rate = false /\ (grid_old rate k < grid_time rate k)%Q.
Proof. exists (9 # 5)%Q, 3%Z. split; vm_compute; reflexivity. Qed.
Print Assumptions C20_grid_old_refuted.

(* the repaired get_sample_times (k * den exactly, then ONE division by num) is correctly rounded under its guard
   (numerator < 2^53, n * denominator <= 2^53; otherwise it falls back to the old formula) *)
Theorem C20_grid_impl_correct : forall rate n k, (0 <= k < n)%Z -> grid_guard rate n = true ->
  (grid_impl rate n k == grid_time rate k)%Q.
Proof. exact grid_impl_correct. Qed.
Print Assumptions C20_grid_impl_correct.

Theorem C20_sample_times_grid : forall rate durs ts lens, sample_times rate durs = ORet (ts, lens) ->
  let n := fold_right Z.max 0%Z lens in
  grid_guard rate n = true ->
  length ts = Z.to_nat n /\ forall k, (k < Z.to_nat n)%nat -> (nth k ts 0%Q == grid_time rate (Z.of_nat k))%Q.
Proof. exact sample_times_grid. Qed.
Print Assumptions C20_sample_times_grid.

(* ---- round 4: time_windows_to_samples on ARBITRARY binary64 begins / lengths / rates (decimal stream CWinF).  The model
        conv64 rounds the product to binary64 exactly as both variants do (check_corr is exact also on this stream); the
        two variants agree for all inputs; the result meets the tolerance specification Spec.valid_conv_tol (begin within
        1/2 + 2^-30 of the exact product; length L with L <= l * sr + 2^-30 and l * sr - 2^-30 < L + 1) for products up to
        2^22 samples; with representable products it is the exact conversion of the round-1 theorems ---- *)
Require Import QV.C20.ProofsWinF.
Theorem C20_window_float_variants_equal : forall sr ws, tw_loop64 sr ws = tw_numpy64 sr ws.
Proof. exact tw_variants64. Qed.
Print Assumptions C20_window_float_variants_equal.

Theorem C20_window_float_exact_inputs : forall sr (w : Q * Q),
  (b64 (fst w * sr) == fst w * sr)%Q -> (b64 (snd w * sr) == snd w * sr)%Q -> conv64 sr w = conv sr w.
Proof. exact conv64_exact. Qed.
Print Assumptions C20_window_float_exact_inputs.

Theorem C20_window_float_within_tolerance : forall sr (w : Q * Q),
  (0 <= fst w * sr <= inject_Z (2 ^ 22))%Q -> (0 <= snd w * sr <= inject_Z (2 ^ 22))%Q ->
  valid_conv_tol sr w (conv64 sr w) = true.
Proof. exact conv64_within_tolerance. Qed.
Print Assumptions C20_window_float_within_tolerance.

(* ---- round 4: which side of an edge.  The grid is monotone in k and strictly monotone below 2^52 samples, so a jump placed at
        the rational time j / rate — stored in a waveform table as the binary64 number edge = b64 (j / rate) — has sample k at or
        after it exactly when k >= j: the sample on the edge is taken ON the edge, the one before it before it ---- *)
Theorem C20_grid_time_monotone : forall rate k j, (0 < rate)%Q -> (k <= j)%Z -> (grid_time rate k <= grid_time rate j)%Q.
Proof. exact grid_time_monotone. Qed.
Print Assumptions C20_grid_time_monotone.

Theorem C20_grid_edge_side : forall rate j k, (0 < rate)%Q -> (0 <= k)%Z -> (0 <= j < 2 ^ 52)%Z ->
  ((0 < j)%Z -> (bpow radix2 (-1022) <= IZR j / Q2R rate)%R) ->      (* the edge time is no subnormal number; j = 0 is included *)
  ((b64 (inject_Z j / rate) <= grid_time rate k)%Q <-> (j <= k)%Z).
Proof. exact grid_edge_side. Qed.
Print Assumptions C20_grid_edge_side.

(* ---- round 4: the model of get_sample_times meets the specification spec_times (lengths = nearest integer within 1e-10 and
        positive, rejection exactly when no such integer exists, grid = grid_time) whenever the guard of the code holds ---- *)
Theorem C20_sample_times_meets_spec : forall rate durs,
  match sample_times rate durs with ORet (_, lens) => grid_guard rate (fold_right Z.max 0%Z lens) | OErr => true end = true ->
  spec_times rate durs (sample_times rate durs) = true.
Proof. exact sample_times_meets_spec. Qed.
Print Assumptions C20_sample_times_meets_spec.

(* ---- round 6: THE RANGE ENDS AND THE CODE RANGE IN BINARY64 (clause "maps the range ends to the lowest and highest code";
        until now proved for exact rationals only and tested on the decimal stream).  x = RN (v - off) is the binary64 difference
        the code computes first; its range test is |x| > amp.  Sane amplitudes (2^-500 .. 2^500), resolution 1..16:
        x = amp gets the highest code, x = -amp the lowest; every voltage the range test accepts gets a code in 0 .. 2^res - 1;
        a voltage that is in range as an exact number is accepted when the amplitude is a binary64 number. ---- *)
Require Import QV.C20.ProofsFloat3.
Theorem C20_float_code_range_ends : forall (amp : R) res, (bpow radix2 (-500) <= amp)%R -> (amp <= bpow radix2 500)%R ->
  (1 <= res <= 16)%Z -> forall off v : R,
  (RN (v - off) = amp -> fcode amp off res v = (2 ^ res - 1)%Z) /\ (RN (v - off) = (- amp)%R -> fcode amp off res v = 0%Z).
Proof. exact fcode_range_ends. Qed.
Print Assumptions C20_float_code_range_ends.

Theorem C20_float_code_in_code_range : forall (amp : R) res, (bpow radix2 (-500) <= amp)%R -> (amp <= bpow radix2 500)%R ->
  (1 <= res <= 16)%Z -> forall off v : R,
  (Rabs (RN (v - off)) <= amp)%R -> (0 <= fcode amp off res v <= 2 ^ res - 1)%Z.
Proof. exact fcode_in_code_range. Qed.
Print Assumptions C20_float_code_in_code_range.

Theorem C20_float_in_range_accepted : forall amp off v : R,
  generic_format radix2 fexp amp -> (Rabs (v - off) <= amp)%R -> (Rabs (RN (v - off)) <= amp)%R.
Proof. exact in_range_accepted. Qed.
Print Assumptions C20_float_in_range_accepted.

(* The executable binary64 model (Model.code64 / out_of_range64 / volt_numpy64 / volt_loop64 / volt_public64: every operation
   rounded with Model.b64) that check_corr compares EXACTLY with the three implementations on the decimal stream (CVoltTol) IS
   this float computation, its two variants are equal, and whenever it returns codes: they are the float codes, lie in the
   code range (so the uint16 store changes nothing), are monotone, and the range ends get the extreme codes. *)
Theorem C20_code64_is_float_code : forall (amp off v : Q) res, (bpow radix2 (-500) <= Q2R amp)%R ->
  code64 amp off res v = fcode (Q2R amp) (Q2R off) res (Q2R v).
Proof. exact code64_is_fcode. Qed.
Print Assumptions C20_code64_is_float_code.

Theorem C20_range_test64_is_float_test : forall amp off v : Q,
  out_of_range64 amp off v = false <-> (Rabs (RN (Q2R v - Q2R off)) <= Q2R amp)%R.
Proof. exact out_of_range64_spec. Qed.
Print Assumptions C20_range_test64_is_float_test.

Theorem C20_volt64_variants_equal : forall amp off res vs, volt_loop64 amp off res vs = volt_numpy64 amp off res vs.
Proof. exact volt64_variants. Qed.
Print Assumptions C20_volt64_variants_equal.

Theorem C20_volt64_accepts : forall (amp off : Q) res vs cs,
  (bpow radix2 (-500) <= Q2R amp <= bpow radix2 500)%R -> (1 <= res <= 16)%Z ->
  volt_public64 amp off res vs = ORet cs ->
  volt_loop64 amp off res vs = ORet cs
  /\ cs = map (code64 amp off res) vs
  /\ (forall v, In v vs -> (0 <= code64 amp off res v <= 2 ^ res - 1)%Z
                           /\ ((b64 (v - off) == amp)%Q -> code64 amp off res v = (2 ^ res - 1)%Z)
                           /\ ((b64 (v - off) == - amp)%Q -> code64 amp off res v = 0%Z))
  /\ (forall v1 v2, (v1 <= v2)%Q -> (code64 amp off res v1 <= code64 amp off res v2)%Z).
Proof. exact volt64_accepts. Qed.
Print Assumptions C20_volt64_accepts.

(* ---- round 6: THE MODELS PASS THE EXECUTABLE CHECKERS that check_spec applies to the implementation (until now this held on
        every generated case only).  spec_shrink: besides C20_shrink's clauses, "fails EXACTLY when a window would lose all of its
        samples" (stated on the original windows), "no begin moves further than needed", "first window untouched", "the flag is
        raised exactly when something changed" — every list of integer windows, no assumption.  spec_volt (exact stream): resolution
        guard, rejection exactly of out-of-range lists, every code a nearest code with ties to even, range ends, monotone.
        spec_tw: the result is an arrangement of the correctly converted windows with non-decreasing time begins (the checker's
        greedy matching succeeds), every list of windows and every rate. ---- *)
Require Import QV.C20.ProofsShrink2 QV.C20.ProofsNum2 QV.C20.ProofsWin2.
Theorem C20_shrink_model_passes_checker : forall ws,
  spec_shrink ws (shrink_loop ws) = true /\ spec_shrink ws (shrink_numpy ws) = true.
Proof. exact (fun ws => conj (shrink_loop_passes_checker ws) (shrink_numpy_passes_checker ws)). Qed.
Print Assumptions C20_shrink_model_passes_checker.

Theorem C20_volt_model_passes_checker : forall (amp off : Q) res vs, (0 < amp)%Q ->
  spec_volt amp off res vs (volt_public amp off res vs) = true.
Proof. exact volt_public_passes_checker. Qed.
Print Assumptions C20_volt_model_passes_checker.

Theorem C20_windows_model_passes_checker : forall sr ws,
  spec_tw sr ws (tw_numpy sr ws) = true /\ spec_tw sr ws (tw_loop sr ws) = true.
Proof. exact (fun sr ws => conj (tw_numpy_passes_checker sr ws) (tw_loop_passes_checker sr ws)). Qed.
Print Assumptions C20_windows_model_passes_checker.

(* ---- round 5: non-vacuity.  ProofsWitness.v holds, for every theorem above that has hypotheses, a concrete non-trivial input
        satisfying all of them (code_nonvacuous, in_range_nonvacuous, shrink_nonvacuous, avg_hyps_nonvacuous,
        sample_times_nonvacuous, window_float_nonvacuous, window_exact_nonvacuous, store16_nonvacuous, float_hyps_nonvacuous,
        float_no_halfway_nonvacuous, grid_edge_hyps_nonvacuous, r6: volt64_nonvacuous, checkers_nonvacuous); required here so that it is re-checked with every build ---- *)
Require QV.C20.ProofsWitness.
