(* C20 — a BINARY64 statement about voltage_to_uint16 (Flocq).  Kept apart from the exact-rational theorems: it is
   about real numbers, so the real-number axioms of the standard library appear under Print Assumptions.

   The code computes, each operation correctly rounded to nearest-even binary64 (np.rint of a binary64 is exact):
       scale = (2**resolution - 1) / (2*amplitude) ;  x = v - offset ;  rint((x + amplitude) * scale)
   Model: binary64 = generic format radix2, FLT_exp (-1074) 53 (gradual underflow; OVERFLOW to infinity NOT modelled),
   RN = round-to-nearest-even.  Proved:
     fcode_monotone        v1 <= v2 -> fcode v1 <= fcode v2                     (0 <= amp, 0 <= res)
     rint_is_ZnearestE     Model.rint q = ZnearestE (Q2R q)                     (bridge to the exact-Q model)
     Znearest_stable       no half-integer in the closed interval between x and y -> same rounded integer
     fcode_is_exact_code   if no half-integer lies between the exact scaled voltage and its float value, the float code
                           is the exact code (code1 of Model.v)
     fcode_exact_inputs    if every intermediate result is representable the float code IS the exact code
   The naive claim "float code = exact code except at exact half-way points" is false (rounding of an intermediate
   result can move a value across a half-way point that it was merely close to); Znearest_stable states what is true. *)
From Coq Require Import ZArith QArith Qround Qreals Reals Lra Lia.
From Flocq Require Import Core.
Require Import QV.C20.Model.
Open Scope R_scope.

Definition fexp := FLT_exp (-1074) 53.
Definition RN (x : R) : R := round radix2 fexp ZnearestE x.
Definition fscale (amp : R) (res : Z) : R := RN (IZR (2 ^ res - 1) / RN (2 * amp)).
Definition fcode (amp off : R) (res : Z) (v : R) : Z := ZnearestE (RN (RN (RN (v - off) + amp) * fscale amp res)).
(* the exact value of which the code is the rounding *)
Definition xscaled (amp off : R) (res : Z) (v : R) : R := ((v - off) + amp) * (IZR (2 ^ res - 1) / (2 * amp)).

Lemma RN_le x y : x <= y -> RN x <= RN y.
Proof. intro H. unfold RN. apply round_le; [apply FLT_exp_valid; reflexivity|apply valid_rnd_N|exact H]. Qed.

Lemma RN_0 : RN 0 = 0.
Proof. unfold RN. apply round_0. apply valid_rnd_N. Qed.

Lemma RN_nonneg x : 0 <= x -> 0 <= RN x.
Proof. intro H. rewrite <- RN_0. apply RN_le. exact H. Qed.

Lemma fscale_nonneg amp res : 0 <= amp -> (0 <= res)%Z -> 0 <= fscale amp res.
Proof.
  intros Ha Hr. unfold fscale. apply RN_nonneg.
  assert (H1 : 0 <= IZR (2 ^ res - 1)).
  { apply IZR_le. assert (0 < 2 ^ res)%Z by (apply Z.pow_pos_nonneg; lia). lia. }
  assert (H2 : 0 <= RN (2 * amp)) by (apply RN_nonneg; lra).
  unfold Rdiv. destruct H2 as [H2|H2].
  - apply Rmult_le_pos; [exact H1|]. left. apply Rinv_0_lt_compat. exact H2.
  - rewrite <- H2, Rinv_0. lra.
Qed.

Lemma ZnearestE_le x y : x <= y -> (ZnearestE x <= ZnearestE y)%Z.
Proof. intro H. apply Zrnd_le; [apply valid_rnd_N|exact H]. Qed.

(* ---- A: the float computation of the code is monotone in the voltage ---- *)
Theorem fcode_monotone amp off res v1 v2 : 0 <= amp -> (0 <= res)%Z -> v1 <= v2 ->
  (fcode amp off res v1 <= fcode amp off res v2)%Z.
Proof.
  intros Ha Hr Hv. unfold fcode. apply ZnearestE_le. apply RN_le.
  apply Rmult_le_compat_r; [apply fscale_nonneg; assumption|].
  apply RN_le. apply Rplus_le_compat_r. apply RN_le. lra.
Qed.

(* ---- B: Model.rint is Flocq's round-half-even on the reals ---- *)
Lemma Q2R_inject_Z z : Q2R (inject_Z z) = IZR z.
Proof. unfold Q2R, inject_Z. cbn. rewrite Rinv_1. ring. Qed.

Lemma Zfloor_Q2R q : Zfloor (Q2R q) = Qfloor q.
Proof.
  apply Zfloor_imp. split.
  - rewrite <- Q2R_inject_Z. apply Qle_Rle. apply Qfloor_le.
  - rewrite <- Q2R_inject_Z. apply Qlt_Rlt. apply Qlt_floor.
Qed.

Lemma Zceil_succ_floor x : IZR (Zfloor x) <> x -> Zceil x = (Zfloor x + 1)%Z.
Proof. intro H. apply Zceil_floor_neq. exact H. Qed.

Theorem rint_is_ZnearestE q : rint q = ZnearestE (Q2R q).
Proof.
  unfold rint, Znearest. rewrite Zfloor_Q2R. set (f := Qfloor q).
  assert (E : (Q2R q - IZR f)%R = Q2R (q - inject_Z f)) by (rewrite Q2R_minus, Q2R_inject_Z; reflexivity).
  rewrite E. replace (/ 2)%R with (Q2R (1 # 2)) by (unfold Q2R; cbn; lra).
  assert (Hc : forall d : Q, (0 < d)%Q \/ True -> True) by auto. clear Hc.
  destruct (q - inject_Z f ?= 1 # 2)%Q eqn:C.
  - apply Qeq_alt in C. rewrite (Rcompare_Eq _ _ (Qeq_eqR _ _ C)).
    assert (Hne : IZR (Zfloor (Q2R q)) <> Q2R q).
    { rewrite Zfloor_Q2R. fold f. intro H. apply Qeq_eqR in C. rewrite Q2R_minus, Q2R_inject_Z, <- H in C.
      unfold Q2R in C. cbn in C. lra. }
    rewrite (Zceil_succ_floor _ Hne), Zfloor_Q2R. fold f. destruct (Z.even f); reflexivity.
  - apply Qlt_alt in C. rewrite (Rcompare_Lt _ _ (Qlt_Rlt _ _ C)). reflexivity.
  - apply Qgt_alt in C. rewrite (Rcompare_Gt _ _ (Qlt_Rlt _ _ C)).
    assert (Hne : IZR (Zfloor (Q2R q)) <> Q2R q).
    { rewrite Zfloor_Q2R. fold f. intro H. apply Qlt_Rlt in C. rewrite Q2R_minus, Q2R_inject_Z, <- H in C.
      unfold Q2R in C. cbn in C. lra. }
    rewrite (Zceil_succ_floor _ Hne), Zfloor_Q2R. reflexivity.
Qed.

(* ---- C: agreement of float code and exact code away from half-way points ---- *)
Lemma Znearest_stable_le x y : x <= y -> (forall k : Z, ~ (x <= IZR k + / 2 <= y)) -> ZnearestE x = ZnearestE y.
Proof.
  intros Hxy Hno. pose proof (ZnearestE_le x y Hxy) as Hle.
  destruct (Z.eq_dec (ZnearestE x) (ZnearestE y)) as [E|Ne]; [exact E|exfalso].
  assert (Hlt : (ZnearestE x + 1 <= ZnearestE y)%Z) by lia.
  apply (Hno (ZnearestE x)).
  pose proof (Znearest_half (fun z => negb (Z.even z)) x) as Hx.
  pose proof (Znearest_half (fun z => negb (Z.even z)) y) as Hy.
  apply Rabs_le_inv in Hx. apply Rabs_le_inv in Hy. apply IZR_le in Hlt. rewrite plus_IZR in Hlt. split; lra.
Qed.

Theorem Znearest_stable x y : (forall k : Z, ~ (Rmin x y <= IZR k + / 2 <= Rmax x y)) -> ZnearestE x = ZnearestE y.
Proof.
  intro H. destruct (Rle_or_lt x y) as [L|L].
  - apply Znearest_stable_le; [exact L|]. rewrite Rmin_left, Rmax_right in H by lra. exact H.
  - symmetry. apply Znearest_stable_le; [lra|]. rewrite Rmin_right, Rmax_left in H by lra. exact H.
Qed.

Lemma Q2R_xscaled (amp off v : Q) res : ~ (amp == 0)%Q ->
  Q2R (((v - off) + amp) * vscale amp res) = xscaled (Q2R amp) (Q2R off) res (Q2R v).
Proof.
  intro Ha. unfold vscale, xscaled.
  assert (H2 : ~ ((2 # 1) * amp == 0)%Q).
  { intro H. apply Ha. apply Qmult_integral in H as [H|H]; [discriminate H|exact H]. }
  rewrite Q2R_mult, Q2R_plus, Q2R_minus. unfold Qdiv. rewrite Q2R_mult, (Q2R_inv _ H2), Q2R_mult, Q2R_inject_Z.
  replace (Q2R (2 # 1)) with 2 by (unfold Q2R; cbn; lra). reflexivity.
Qed.

Theorem fcode_is_exact_code (amp off v : Q) res : ~ (amp == 0)%Q ->
  let y := xscaled (Q2R amp) (Q2R off) res (Q2R v) in
  let y' := RN (RN (RN (Q2R v - Q2R off) + Q2R amp) * fscale (Q2R amp) res) in
  (forall k : Z, ~ (Rmin y y' <= IZR k + / 2 <= Rmax y y')) ->
  fcode (Q2R amp) (Q2R off) res (Q2R v) = code1 amp off res v.
Proof.
  intros Ha y y' H. unfold code1. rewrite rint_is_ZnearestE, (Q2R_xscaled amp off v res Ha). fold y.
  unfold fcode. fold y'. symmetry. apply Znearest_stable. exact H.
Qed.

(* when every intermediate result is representable, nothing is rounded: this is what the harness' dyadic inputs rely on *)
Theorem fcode_exact_inputs amp off res v :
  let F := generic_format radix2 fexp in
  F (v - off) -> F ((v - off) + amp) -> F (2 * amp) -> F (IZR (2 ^ res - 1) / (2 * amp)) ->
  F (((v - off) + amp) * (IZR (2 ^ res - 1) / (2 * amp))) ->
  fcode amp off res v = ZnearestE (xscaled amp off res v).
Proof.
  intros F H1 H2 H3 H4 H5. unfold fcode, fscale, xscaled, RN.
  rewrite (round_generic radix2 fexp ZnearestE (v - off) H1).
  rewrite (round_generic radix2 fexp ZnearestE (v - off + amp) H2).
  rewrite (round_generic radix2 fexp ZnearestE (2 * amp) H3).
  rewrite (round_generic radix2 fexp ZnearestE _ H4).
  rewrite (round_generic radix2 fexp ZnearestE _ H5). reflexivity.
Qed.
