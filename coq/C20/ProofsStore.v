(* C20 — the uint16 result array: storing is faithful for resolutions 1..16 and wraps above (round 3). *)
From Coq Require Import ZArith QArith Qround Qabs Bool List Lia Lqa.
Require Import QV.common.Util QV.C20.Model QV.C20.Spec QV.C20.ProofsNum.
Import ListNotations.
Open Scope Z_scope.

Lemma store16_id c : 0 <= c < 2 ^ 16 -> store16 c = c.
Proof. intros H. unfold store16. apply Z.mod_small. exact H. Qed.

Lemma in_range_of_not_out amp off v : out_of_range amp off v = false -> (off - amp <= v /\ v <= off + amp)%Q.
Proof.
  unfold out_of_range. intros H. apply negb_false_iff in H. apply Qle_bool_iff in H.
  apply Qabs_Qle_condition in H. destruct H as [H1 H2]. split; lra.
Qed.

Lemma pow_le_16 res : 1 <= res <= 16 -> 2 ^ res - 1 < 2 ^ 16.
Proof. intros H. assert (2 ^ res <= 2 ^ 16) by (apply Z.pow_le_mono_r; lia). lia. Qed.

Lemma volt_numpy16_faithful amp off res vs : (0 < amp)%Q -> 1 <= res <= 16 ->
  volt_numpy16 amp off res vs = volt_numpy amp off res vs.
Proof.
  intros Ha Hr. unfold volt_numpy16, volt_numpy.
  destruct (existsb (out_of_range amp off) vs) eqn:E; [reflexivity|]. cbn. f_equal.
  rewrite map_map. apply map_ext_in. intros v Hv.
  assert (Hn : out_of_range amp off v = false).
  { destruct (out_of_range amp off v) eqn:E2; [|reflexivity].
    assert (existsb (out_of_range amp off) vs = true) by (apply existsb_exists; exists v; auto). congruence. }
  apply in_range_of_not_out in Hn. destruct Hn as [H1 H2].
  apply store16_id. pose proof (code_range amp off res v Ha (proj1 Hr) H1 H2) as Hc.
  pose proof (pow_le_16 res Hr). unfold Mres in *. lia.
Qed.

Lemma volt_loop16_faithful amp off res vs : (0 < amp)%Q -> 1 <= res <= 16 ->
  volt_loop16 amp off res vs = volt_loop amp off res vs.
Proof.
  intros Ha Hr. unfold volt_loop16. rewrite volt_variants. exact (volt_numpy16_faithful amp off res vs Ha Hr).
Qed.

Lemma volt_public_in_range amp off res vs : (0 < amp)%Q -> 1 <= res <= 16 ->
  volt_public amp off res vs = volt_numpy amp off res vs.
Proof.
  intros Ha Hr. unfold volt_public.
  replace (res <? 1) with false by (symmetry; apply Z.ltb_ge; lia).
  replace (16 <? res) with false by (symmetry; apply Z.ltb_ge; lia). cbn.
  exact (volt_numpy16_faithful amp off res vs Ha Hr).
Qed.

Lemma volt_public_rejects_resolution amp off res vs : res < 1 \/ 16 < res -> volt_public amp off res vs = OErr.
Proof.
  intros [H|H]; unfold volt_public.
  - replace (res <? 1) with true by (symmetry; apply Z.ltb_lt; lia). reflexivity.
  - replace (16 <? res) with true by (symmetry; apply Z.ltb_lt; lia). rewrite orb_true_r. reflexivity.
Qed.

(* 17 bit: the stored codes of an increasing, in-range pair of voltages decrease, and the upper range end is not the
   highest stored code *)
Lemma store16_wraps_17 :
  volt_numpy16 1 0 17 [0; 1 # 2]%Q = ORet [0; 32767]
  /\ volt_numpy 1 0 17 [0; 1 # 2]%Q = ORet [65536; 98303].
Proof. split; vm_compute; reflexivity. Qed.
