(* C20 — run-time support of the translated loop kernels (/verif/translate/py2gallina_c20.py). Definitions only. *)
From Coq Require Import ZArith QArith Qround Bool List.
Require Import QV.common.Ctl.
Import ListNotations.
Open Scope Z_scope.

(* `for i in range(lo, hi): body` — the iteration count is fixed before the first iteration, as in Python *)
Fixpoint for_loop {R S : Type} (n : nat) (i : Z) (body : Z -> S -> ctl R S) (st : S) : ctl R S :=
  match n with
  | O => Next st
  | Datatypes.S n' => match body i st with
                      | Next st' => for_loop n' (i + 1) body st'
                      | Ret r => Ret r
                      | Fail => Fail
                      | OutOfFuel => OutOfFuel
                      end
  end.
Definition for_range {R S : Type} (lo hi : Z) (body : Z -> S -> ctl R S) (st : S) : ctl R S :=
  for_loop (Z.to_nat (hi - lo)) lo body st.

(* array element access; an index outside 0 .. len-1 is an error (Python's negative indices are NOT modelled: a
   kernel that relies on them no longer matches the clean model and the obligation breaks) *)
Definition zget (l : list Z) (i : Z) : option Z :=
  if (0 <=? i) && (i <? Z.of_nat (length l)) then nth_error l (Z.to_nat i) else None.
Definition zset (l : list Z) (i v : Z) : option (list Z) :=
  if (0 <=? i) && (i <? Z.of_nat (length l)) then Some (firstn (Z.to_nat i) l ++ v :: skipn (S (Z.to_nat i)) l) else None.

(* `for x in seq: body` *)
Fixpoint for_each {R S A : Type} (l : list A) (body : A -> S -> ctl R S) (st : S) : ctl R S :=
  match l with
  | [] => Next st
  | x :: r => match body x st with
              | Next st' => for_each r body st'
              | Ret r' => Ret r'
              | Fail => Fail
              | OutOfFuel => OutOfFuel
              end
  end.

(* the statements after a `for` loop, as a continuation on the loop's final state *)
Definition for_then {R S S' : Type} (c : ctl R S) (k : S -> ctl R S') : ctl R S' :=
  match c with Next st => k st | Ret r => Ret r | Fail => Fail | OutOfFuel => OutOfFuel end.

(* read access to an array of (exact) real numbers *)
Definition qget (l : list Q) (i : Z) : option Q :=
  if (0 <=? i) && (i <? Z.of_nat (length l)) then nth_error l (Z.to_nat i) else None.

(* np.uint16(x) / np.uint64(x) / int(x) of a floating point number: truncation towards zero (the C cast; wrap-around /
   undefined behaviour outside the target range is NOT modelled) *)
Definition py_trunc (q : Q) : Z := if Qle_bool 0 q then Qfloor q else Qceiling q.
