(* C20 — round 6: the model of shrink_overlapping_windows PASSES THE EXECUTABLE CHECKER Spec.spec_shrink, for every list of
   integer windows (no sortedness / sign assumption).  spec_shrink is what check_spec applies to the implementation's
   observation; besides "no end moves, begins only forward, consecutive windows disjoint" (C20_shrink) it demands
     - the call fails EXACTLY when some window would have to lose all of its samples (must_fail, stated on the ORIGINAL windows),
     - no begin is moved further than needed (new begin <= max (old begin, end of the predecessor)),
     - the first window is untouched, and the warning flag is raised exactly when something changed.
   These extra clauses were tested only until round 6. *)
From Coq Require Import ZArith Bool List Lia ZifyBool.
Require Import QV.common.Util QV.C20.Model QV.C20.Spec QV.C20.ProofsShrink.
Import ListNotations.
Open Scope Z_scope.

Definition Pfail (p : (Z * Z) * (Z * Z)) : bool := let ov := w_end (fst p) - fst (snd p) in (ov >? 0) && (ov >=? snd (snd p)).
Definition Pkeep (p : (Z * Z) * (Z * Z)) : bool := (w_end (fst p) =? w_end (snd p)) && (fst (fst p) <=? fst (snd p)).
Definition Pdis (p : (Z * Z) * (Z * Z)) : bool := w_end (fst p) <=? fst (snd p).
Definition Pmin (p : ((Z * Z) * (Z * Z)) * (Z * Z)) : bool := fst (snd p) <=? Z.max (fst (snd (fst p))) (w_end (fst (fst p))).

Lemma ZZ_eqb_refl w : ZZ_eqb w w = true.
Proof. unfold ZZ_eqb. rewrite !Z.eqb_refl. reflexivity. Qed.

(* the checker's clauses for the windows after the current one; (b, l) is the (possibly already shrunk) current window, of
   which only the end b + l matters *)
Definition go_ok (b l : Z) (rest : list (Z * Z)) (s : bool) (o : outcome (list (Z * Z) * bool)) : Prop :=
  match o with
  | OErr => existsb Pfail (adjacent ((b, l) :: rest)) = true
  | ORet (ws', s') =>
      exists tail, ws' = (b, l) :: tail
        /\ existsb Pfail (adjacent ((b, l) :: rest)) = false
        /\ length tail = length rest
        /\ forallb Pkeep (combine rest tail) = true
        /\ forallb Pdis (adjacent ((b, l) :: tail)) = true
        /\ forallb Pmin (combine (adjacent ((b, l) :: rest)) tail) = true
        /\ s' = s || negb (list_eqb ZZ_eqb rest tail)
  end.

Lemma fail_end w w' r : w_end w = w_end w' -> existsb Pfail (adjacent (w :: r)) = existsb Pfail (adjacent (w' :: r)).
Proof. intro E. destruct r as [|x r]; [reflexivity|]. cbn. unfold Pfail at 1 3. cbn. rewrite E. reflexivity. Qed.

Lemma min_end w w' r t : w_end w = w_end w' ->
  forallb Pmin (combine (adjacent (w :: r)) t) = forallb Pmin (combine (adjacent (w' :: r)) t).
Proof.
  intro E. destruct r as [|x r]; [reflexivity|]. destruct t as [|y t]; [reflexivity|].
  cbn. unfold Pmin at 1 3. cbn. rewrite E. reflexivity.
Qed.

Lemma shrink_loop_go_checker : forall rest b l s, go_ok b l rest s (shrink_loop_go b l rest s).
Proof.
  induction rest as [|[b1 l1] r IH]; intros b l s.
  - cbn. exists []. cbn. rewrite orb_false_r. repeat split; reflexivity.
  - cbn [shrink_loop_go]. destruct (b + l >? b1) eqn:E1.
    + destruct (l1 >? b + l - b1) eqn:E2.
      * set (ov := b + l - b1) in *.
        specialize (IH (b1 + ov) (l1 - ov) true).
        destruct (shrink_loop_go (b1 + ov) (l1 - ov) r true) as [[ws s2]|] eqn:E3.
        -- destruct IH as [tail' [-> [Hf [Hl [Hk [Hd [Hm Hs]]]]]]].
           assert (Ew : w_end (b1 + ov, l1 - ov) = w_end (b1, l1)) by (unfold w_end; cbn; lia).
           exists ((b1 + ov, l1 - ov) :: tail'). split; [reflexivity|]. split.
           { change (adjacent ((b, l) :: (b1, l1) :: r)) with (((b, l), (b1, l1)) :: adjacent ((b1, l1) :: r)).
             cbn [existsb]. rewrite <- (fail_end _ _ r Ew), Hf. unfold Pfail, w_end. cbn. unfold ov in *. lia. }
           split; [cbn; rewrite Hl; reflexivity|]. split.
           { cbn [combine forallb]. rewrite Hk. unfold Pkeep, w_end. cbn. unfold ov in *. lia. }
           split.
           { change (adjacent ((b, l) :: (b1 + ov, l1 - ov) :: tail'))
               with (((b, l), (b1 + ov, l1 - ov)) :: adjacent ((b1 + ov, l1 - ov) :: tail')).
             cbn [forallb]. rewrite Hd. unfold Pdis, w_end. cbn. unfold ov in *. lia. }
           split.
           { change (adjacent ((b, l) :: (b1, l1) :: r)) with (((b, l), (b1, l1)) :: adjacent ((b1, l1) :: r)).
             cbn [combine forallb]. rewrite <- (min_end _ _ r tail' Ew), Hm. unfold Pmin, w_end. cbn. unfold ov in *. lia. }
           { rewrite Hs. cbn [list_eqb].
             assert (Hz : ZZ_eqb (b1, l1) (b1 + ov, l1 - ov) = false) by (unfold ZZ_eqb; cbn; unfold ov in *; lia).
             rewrite Hz. cbn. rewrite orb_true_r. reflexivity. }
        -- cbn. cbn in IH.
           assert (Ew : w_end (b1 + ov, l1 - ov) = w_end (b1, l1)) by (unfold w_end; cbn; lia).
           change (existsb Pfail (((b, l), (b1, l1)) :: adjacent ((b1, l1) :: r)) = true).
           cbn [existsb]. rewrite <- (fail_end _ _ r Ew). change (existsb Pfail (adjacent ((b1 + ov, l1 - ov) :: r)) = true) in IH.
           rewrite IH. apply orb_true_r.
      * cbn. change (existsb Pfail (((b, l), (b1, l1)) :: adjacent ((b1, l1) :: r)) = true).
        cbn [existsb]. unfold Pfail at 1. unfold w_end. cbn. apply orb_true_iff. left. lia.
    + specialize (IH b1 l1 s). destruct (shrink_loop_go b1 l1 r s) as [[ws s2]|] eqn:E3.
      * destruct IH as [tail' [-> [Hf [Hl [Hk [Hd [Hm Hs]]]]]]].
        exists ((b1, l1) :: tail'). split; [reflexivity|]. split.
        { change (adjacent ((b, l) :: (b1, l1) :: r)) with (((b, l), (b1, l1)) :: adjacent ((b1, l1) :: r)).
          cbn [existsb]. rewrite Hf. unfold Pfail, w_end. cbn. lia. }
        split; [cbn; rewrite Hl; reflexivity|]. split.
        { cbn [combine forallb]. rewrite Hk. unfold Pkeep. cbn. lia. }
        split.
        { change (adjacent ((b, l) :: (b1, l1) :: tail')) with (((b, l), (b1, l1)) :: adjacent ((b1, l1) :: tail')).
          cbn [forallb]. rewrite Hd. unfold Pdis, w_end. cbn. lia. }
        split.
        { change (adjacent ((b, l) :: (b1, l1) :: r)) with (((b, l), (b1, l1)) :: adjacent ((b1, l1) :: r)).
          cbn [combine forallb]. rewrite Hm. unfold Pmin, w_end. cbn. lia. }
        { rewrite Hs. cbn [list_eqb]. rewrite ZZ_eqb_refl. reflexivity. }
      * cbn. cbn in IH. change (existsb Pfail (((b, l), (b1, l1)) :: adjacent ((b1, l1) :: r)) = true).
        cbn [existsb]. change (existsb Pfail (adjacent ((b1, l1) :: r)) = true) in IH. rewrite IH. apply orb_true_r.
Qed.

Theorem shrink_loop_passes_checker ws : spec_shrink ws (shrink_loop ws) = true.
Proof.
  destruct ws as [|[b l] r]; [reflexivity|].
  cbn [shrink_loop]. pose proof (shrink_loop_go_checker r b l false) as H.
  destruct (shrink_loop_go b l r false) as [[ws' s']|].
  - destruct H as [tail [-> [Hf [Hl [Hk [Hd [Hm Hs]]]]]]].
    unfold spec_shrink, must_fail.
    change (existsb _ (adjacent ((b, l) :: r))) with (existsb Pfail (adjacent ((b, l) :: r))). rewrite Hf.
    cbn [negb andb length]. rewrite Hl, Nat.eqb_refl. cbn [andb combine forallb].
    change (forallb _ (combine r tail)) with (forallb Pkeep (combine r tail)). rewrite Hk.
    change (forallb _ (adjacent ((b, l) :: tail))) with (forallb Pdis (adjacent ((b, l) :: tail))). rewrite Hd.
    cbn [tl]. change (forallb _ (combine (adjacent ((b, l) :: r)) tail)) with (forallb Pmin (combine (adjacent ((b, l) :: r)) tail)).
    rewrite Hm. rewrite ZZ_eqb_refl. rewrite Hs. cbn [list_eqb orb]. rewrite ZZ_eqb_refl. cbn [andb fst snd].
    rewrite Z.eqb_refl, Z.leb_refl. cbn. apply eqb_reflx.
  - exact H.
Qed.

(* ... and so does the numpy variant (equal to the loop variant for all lists) *)
Theorem shrink_numpy_passes_checker ws : spec_shrink ws (shrink_numpy ws) = true.
Proof. rewrite shrink_variants. apply shrink_loop_passes_checker. Qed.
