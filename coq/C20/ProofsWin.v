(* C20 — proofs about is_monotonic, the window sort and time_windows_to_samples. *)
From Coq Require Import ZArith QArith Qround Qabs Bool List Lia Lqa Sorted Permutation.
Require Import QV.common.Util QV.C20.Model QV.C20.Spec QV.C20.ProofsNum.
Import ListNotations.
Open Scope Q_scope.

Definition le_w (a b : Q * Q) : Prop := fst a <= fst b.

(* ---- is_monotonic ---- *)
Lemma mono_loop_go_spec prev xs acc : mono_loop_go prev xs acc = acc && sortedb (prev :: xs).
Proof.
  revert prev acc. induction xs as [|x r IH]; intros; cbn.
  - rewrite andb_true_r. reflexivity.
  - rewrite IH. cbn. rewrite andb_assoc. reflexivity.
Qed.

Lemma mono_loop_sortedb xs : mono_loop xs = sortedb xs.
Proof. destruct xs as [|x r]; [reflexivity|]. unfold mono_loop. rewrite mono_loop_go_spec. reflexivity. Qed.

Lemma mono_numpy_sortedb xs : mono_numpy xs = sortedb xs.
Proof.
  unfold mono_numpy. induction xs as [|x r IH]; [reflexivity|].
  destruct r as [|y r']; [reflexivity|].
  change (removelast (x :: y :: r')) with (x :: removelast (y :: r')).
  cbn [tl combine forallb fst snd]. cbn [tl] in IH. rewrite IH. reflexivity.
Qed.

Lemma mono_variants xs : mono_loop xs = mono_numpy xs.
Proof. rewrite mono_loop_sortedb, mono_numpy_sortedb. reflexivity. Qed.

Lemma sortedb_Sorted xs : sortedb xs = true <-> Sorted Qle xs.
Proof.
  induction xs as [|x r IH]; [split; [constructor|reflexivity]|].
  destruct r as [|y r'].
  - split; [intros _; repeat constructor|reflexivity].
  - cbn [sortedb]. rewrite andb_true_iff, IH. split.
    + intros [H1 H2]. constructor; [exact H2|constructor; apply Qle_bool_iff; exact H1].
    + intro H. inversion H as [|? ? H2 H1]; subst. inversion H1; subst. split; [apply Qle_bool_iff; assumption|assumption].
Qed.

(* ---- the sort ---- *)
Lemma insert_w_perm x l : Permutation (insert_w x l) (x :: l).
Proof.
  induction l as [|y r IH]; cbn; [reflexivity|].
  destruct (Qle_bool (fst x) (fst y)); [reflexivity|].
  rewrite IH. apply perm_swap.
Qed.

Lemma sort_w_perm l : Permutation (sort_w l) l.
Proof.
  induction l as [|x r IH]; [reflexivity|].
  change (sort_w (x :: r)) with (insert_w x (sort_w r)). rewrite insert_w_perm. constructor. exact IH.
Qed.

Lemma insert_w_sorted x l : Sorted le_w l -> Sorted le_w (insert_w x l).
Proof.
  induction l as [|y r IH]; cbn; intro H; [repeat constructor|].
  destruct (Qle_bool (fst x) (fst y)) eqn:E.
  - constructor; [exact H|constructor; apply Qle_bool_iff; exact E].
  - assert (Lyx : le_w y x).
    { unfold le_w. destruct (Qlt_le_dec (fst y) (fst x)) as [L|L]; [lra|]. apply Qle_bool_iff in L. congruence. }
    inversion H as [|? ? Hr Hh]; subst. constructor; [apply IH; exact Hr|].
    destruct r as [|z r']; cbn; [constructor; exact Lyx|].
    destruct (Qle_bool (fst x) (fst z)); constructor; [exact Lyx|]. inversion Hh; assumption.
Qed.

Lemma sort_w_sorted l : Sorted le_w (sort_w l).
Proof.
  induction l as [|x r IH]; [constructor|].
  change (sort_w (x :: r)) with (insert_w x (sort_w r)). apply insert_w_sorted; exact IH.
Qed.

(* stability in the form that matters: a list that is already sorted by begin is left alone *)
Lemma sort_w_id l : Sorted le_w l -> sort_w l = l.
Proof.
  induction l as [|x r IH]; intro H; [reflexivity|].
  inversion H as [|? ? Hr Hh]; subst. change (sort_w (x :: r)) with (insert_w x (sort_w r)). rewrite (IH Hr).
  destruct r as [|y r']; [reflexivity|]. cbn [insert_w]. inversion Hh as [|? ? L]; subst.
  apply Qle_bool_iff in L. rewrite L. reflexivity.
Qed.

Lemma Sorted_map_fst ws : Sorted Qle (map fst ws) <-> Sorted le_w ws.
Proof.
  induction ws as [|w r IH]; [split; constructor|].
  cbn. split; intro H; inversion H as [|? ? Hr Hh]; subst; (constructor; [apply IH; exact Hr|]).
  - destruct r; cbn in *; constructor. inversion Hh; assumption.
  - destruct r; cbn in *; constructor. inversion Hh; assumption.
Qed.

Lemma tw_variants sr ws : tw_loop sr ws = tw_numpy sr ws.
Proof.
  unfold tw_loop, tw_numpy. destruct (mono_loop (map fst ws)) eqn:E; [|reflexivity].
  rewrite mono_loop_sortedb in E. apply sortedb_Sorted, Sorted_map_fst in E.
  rewrite (sort_w_id ws E). reflexivity.
Qed.

(* ---- rounding of one window ---- *)
Lemma conv_begin_nearest sr w :
  Qabs (fst w * sr - inject_Z (fst (conv sr w))) <= 1 # 2
  /\ (Qabs (fst w * sr - inject_Z (fst (conv sr w))) == 1 # 2 -> Z.even (fst (conv sr w)) = true).
Proof. unfold conv. cbn [fst snd]. split; [apply rint_near|apply rint_tie_even]. Qed.

Lemma conv_length_floor sr w :
  inject_Z (snd (conv sr w)) <= snd w * sr /\ snd w * sr < inject_Z (snd (conv sr w)) + 1.
Proof. unfold conv. cbn [fst snd]. apply floor_bounds. Qed.

(* sample begins come out non-decreasing *)
Lemma tw_begins_sorted sr ws : 0 <= sr -> Sorted Z.le (map fst (tw_numpy sr ws)).
Proof.
  intro Hs. unfold tw_numpy. pose proof (sort_w_sorted ws) as H. induction H as [|w r Hr IH Hh]; cbn; [constructor|].
  constructor; [exact IH|]. destruct r as [|z r']; cbn; constructor.
  inversion Hh as [|? ? L]; subst. apply rint_mono. apply Qmult_le_compat_r; assumption.
Qed.
