(* C20 — round 6: the exact model of voltage_to_uint16 PASSES THE EXECUTABLE CHECKER Spec.spec_volt (the boolean specification
   that check_spec applies to the implementation's observation on the exact stream), for every amplitude > 0, offset, resolution
   and voltage list: rejection of resolutions outside 1..16, rejection exactly of lists with a voltage outside
   [off - amp, off + amp], and for accepted lists: as many codes as voltages, every code in 0 .. 2^res - 1 and a nearest code of
   its voltage with ties to even (in the checker's division-free form), the range ends on codes 0 and 2^res - 1, and monotone. *)
From Coq Require Import ZArith QArith Qround Qabs Bool List Lia Lqa.
Require Import QV.common.Util QV.C20.Model QV.C20.Spec QV.C20.ProofsNum QV.C20.ProofsStore.
Import ListNotations.
Open Scope Q_scope.

Lemma spec_range_is_model amp off v :
  negb (Qle_bool (off - amp) v && Qle_bool v (off + amp)) = out_of_range amp off v.
Proof.
  unfold out_of_range. f_equal. apply eq_true_iff_eq.
  rewrite andb_true_iff, !Qle_bool_iff, Qabs_Qle_condition. split; intros [H1 H2]; split; lra.
Qed.

Lemma code1_compat amp off res v w : v == w -> code1 amp off res v = code1 amp off res w.
Proof. intro E. unfold code1. apply rint_compat. rewrite E. reflexivity. Qed.

Lemma code1_ok amp off res v : 0 < amp -> (1 <= res)%Z -> off - amp <= v -> v <= off + amp ->
  code_ok amp off res v (code1 amp off res v) = true.
Proof.
  intros Ha Hr L U. unfold code_ok. fold (Mres res).
  pose proof (code_range amp off res v Ha Hr L U) as [R0 R1].
  pose proof (Mres_pos res Hr) as HMz.
  assert (HM : 0 < inject_Z (Mres res)) by (change 0 with (inject_Z 0); rewrite <- Zlt_Qlt; lia).
  set (y := scaled amp off res v). set (c := code1 amp off res v).
  assert (Ec : c = rint y) by reflexivity.
  assert (Ed : Qabs (inject_Z c * ((2 # 1) * amp) - (v - (off - amp)) * inject_Z (Mres res)) == Qabs (y - inject_Z c) * ((2 # 1) * amp)).
  { assert (E : (v - (off - amp)) * inject_Z (Mres res) == y * ((2 # 1) * amp)).
    { unfold y, scaled, vscale. fold (Mres res). field. lra. }
    rewrite E.
    setoid_replace (inject_Z c * ((2 # 1) * amp) - y * ((2 # 1) * amp)) with (- ((y - inject_Z c) * ((2 # 1) * amp))) by ring.
    rewrite Qabs_opp, Qabs_Qmult, (Qabs_pos ((2 # 1) * amp)) by lra. reflexivity. }
  pose proof (rint_near y) as N. rewrite <- Ec in N.
  repeat (apply andb_true_iff; split).
  - apply Z.leb_le. exact R0.
  - apply Z.leb_le. exact R1.
  - apply Qle_bool_iff. rewrite Ed.
    setoid_replace amp with ((1 # 2) * ((2 # 1) * amp)) at 2 by ring.
    apply Qmult_le_compat_r; [exact N|lra].
  - destruct (Qeq_bool _ amp) eqn:Et; [|reflexivity]. cbn. apply Qeq_bool_iff in Et. rewrite Ed in Et.
    rewrite Ec. apply rint_tie_even. rewrite <- Ec.
    apply (Qmult_inj_r _ _ ((2 # 1) * amp)); [lra|]. rewrite Et. ring.
  - destruct (Qeq_bool v (off - amp)) eqn:E; [|reflexivity]. apply Qeq_bool_iff in E.
    apply Z.eqb_eq. unfold c. rewrite (code1_compat _ _ _ _ _ E). apply code_lo. exact Ha.
  - destruct (Qeq_bool v (off + amp)) eqn:E; [|reflexivity]. apply Qeq_bool_iff in E.
    apply Z.eqb_eq. unfold c. rewrite (code1_compat _ _ _ _ _ E). apply code_hi. exact Ha.
Qed.

Lemma monotone_pairs_codes amp off res vs : 0 < amp -> (1 <= res)%Z ->
  monotone_pairs (combine vs (map (code1 amp off res) vs)) = true.
Proof.
  intros Ha Hr. induction vs as [|v r IH]; [reflexivity|].
  cbn [map combine monotone_pairs]. rewrite IH, andb_true_r.
  clear IH. induction r as [|w r IH]; [reflexivity|].
  cbn [map combine forallb]. rewrite IH, andb_true_r. cbn [fst snd].
  apply andb_true_iff. split.
  - destruct (Qle_bool v w) eqn:E; [|reflexivity]. apply Qle_bool_iff in E. apply Z.leb_le. apply code_monotone; assumption.
  - destruct (Qle_bool w v) eqn:E; [|reflexivity]. apply Qle_bool_iff in E. apply Z.leb_le. apply code_monotone; assumption.
Qed.

Lemma forallb_code_ok amp off res vs : 0 < amp -> (1 <= res)%Z ->
  existsb (out_of_range amp off) vs = false ->
  forallb (fun p : Q * Z => code_ok amp off res (fst p) (snd p)) (combine vs (map (code1 amp off res) vs)) = true.
Proof.
  intros Ha Hr. induction vs as [|v r IH]; [reflexivity|].
  cbn [existsb map combine forallb fst snd]. intro H. apply orb_false_iff in H as [H1 H2].
  rewrite (IH H2), andb_true_r. apply in_range_of_not_out in H1 as [L U]. apply code1_ok; assumption.
Qed.

Lemma existsb_ext' {A} (f g : A -> bool) l : (forall x, f x = g x) -> existsb f l = existsb g l.
Proof. intro H. induction l as [|x r IH]; [reflexivity|]. cbn. rewrite H, IH. reflexivity. Qed.

Theorem volt_public_passes_checker amp off res vs : 0 < amp ->
  spec_volt amp off res vs (volt_public amp off res vs) = true.
Proof.
  intro Ha. unfold spec_volt.
  destruct ((res <? 1)%Z || (16 <? res)%Z) eqn:G.
  - rewrite volt_public_rejects_resolution; [reflexivity|].
    apply orb_true_iff in G as [G|G]; apply Z.ltb_lt in G; [left|right]; exact G.
  - apply orb_false_iff in G as [G1 G2]. apply Z.ltb_ge in G1. apply Z.ltb_ge in G2.
    assert (Hr : (1 <= res <= 16)%Z) by lia.
    rewrite (volt_public_in_range amp off res vs Ha Hr). unfold volt_numpy.
    rewrite (existsb_ext' _ (out_of_range amp off)) by (intro v; apply spec_range_is_model).
    destruct (existsb (out_of_range amp off) vs) eqn:E; [reflexivity|].
    rewrite map_length, Nat.eqb_refl. cbn [andb].
    rewrite (forallb_code_ok amp off res vs Ha (proj1 Hr) E). cbn [andb].
    apply monotone_pairs_codes; [exact Ha|exact (proj1 Hr)].
Qed.
