(* C20 — proofs about shrink_overlapping_windows (loop variant, numpy variant, their equality). *)
From Coq Require Import ZArith Bool List Lia ZifyBool Sorted.
Require Import QV.common.Util QV.C20.Model.
Import ListNotations.
Open Scope Z_scope.

(* what may happen to one window: its end stays, its begin moves forward (or not at all) *)
Definition shrunk (w w' : Z * Z) : Prop := w_end w = w_end w' /\ fst w <= fst w'.
(* consecutive windows do not overlap *)
Fixpoint disjoint_adj (ws : list (Z * Z)) : Prop :=
  match ws with
  | a :: (b :: _) as r => w_end a <= fst b /\ disjoint_adj r
  | _ => True
  end.

Lemma shrink_loop_go_ok : forall rest b l s ws' s',
  shrink_loop_go b l rest s = ORet (ws', s') ->
  exists tail, ws' = (b, l) :: tail /\ Forall2 shrunk rest tail /\ disjoint_adj ((b, l) :: tail).
Proof.
  induction rest as [|[b1 l1] r IH]; intros b l s ws' s' H; cbn in H.
  - inversion H; subst. exists []. repeat split; constructor.
  - destruct (b + l >? b1) eqn:E1.
    + destruct (l1 >? b + l - b1) eqn:E2; [|discriminate].
      destruct (shrink_loop_go (b1 + (b + l - b1)) (l1 - (b + l - b1)) r true) as [[ws s2]|] eqn:E3; [|discriminate].
      inversion H; subst. destruct (IH _ _ _ _ _ E3) as [tail [-> [F D]]].
      eexists. split; [reflexivity|]. split.
      * constructor; [|exact F]. unfold shrunk, w_end; cbn. lia.
      * cbn [disjoint_adj]. split; [unfold w_end; cbn; lia|exact D].
    + destruct (shrink_loop_go b1 l1 r s) as [[ws s2]|] eqn:E3; [|discriminate].
      inversion H; subst. destruct (IH _ _ _ _ _ E3) as [tail [-> [F D]]].
      eexists. split; [reflexivity|]. split.
      * constructor; [|exact F]. unfold shrunk; lia.
      * cbn [disjoint_adj]. split; [unfold w_end; cbn; lia|exact D].
Qed.

Theorem shrink_loop_ok ws ws' s :
  shrink_loop ws = ORet (ws', s) ->
  Forall2 shrunk ws ws' /\ disjoint_adj ws' /\ hd_error ws' = hd_error ws.
Proof.
  destruct ws as [|[b l] r]; cbn; intro H.
  - inversion H; subst. repeat split; constructor.
  - destruct (shrink_loop_go_ok _ _ _ _ _ _ H) as [tail [-> [F D]]].
    repeat split; [constructor; [unfold shrunk; lia|exact F]|exact D].
Qed.

(* with non-negative lengths the result is sorted by begin and pairwise disjoint, not only consecutively *)
Lemma disjoint_adj_strong ws :
  disjoint_adj ws -> Forall (fun w => 0 <= snd w) ws -> StronglySorted (fun a b => w_end a <= fst b) ws.
Proof.
  induction ws as [|a r IH]; intros D P; [constructor|].
  inversion P as [|? ? Pa Pr]; subst.
  destruct r as [|b r']; [repeat constructor|].
  destruct D as [D1 D2]. specialize (IH D2 Pr). constructor; [exact IH|].
  inversion IH as [|? ? _ Hb]; subst. inversion Pr; subst.
  constructor; [exact D1|]. eapply Forall_impl; [|exact Hb]. intros c Hc. unfold w_end in *. cbn in *. lia.
Qed.

(* lengths stay non-negative: a shrunk window keeps at least one sample *)
Lemma shrink_loop_go_nonneg : forall rest b l s ws' s',
  shrink_loop_go b l rest s = ORet (ws', s') -> 0 <= l -> Forall (fun w => 0 <= snd w) rest ->
  Forall (fun w => 0 <= snd w) ws'.
Proof.
  induction rest as [|[b1 l1] r IH]; intros b l s ws' s' H Hl Hr; cbn in H.
  - inversion H; subst. repeat constructor. exact Hl.
  - inversion Hr as [|? ? H1 H2]; subst. cbn in H1.
    destruct (b + l >? b1) eqn:E1.
    + destruct (l1 >? b + l - b1) eqn:E2; [|discriminate].
      destruct (shrink_loop_go _ _ r true) as [[ws s2]|] eqn:E3; [|discriminate].
      inversion H; subst. constructor; [exact Hl|]. eapply IH; [exact E3|lia|exact H2].
    + destruct (shrink_loop_go b1 l1 r s) as [[ws s2]|] eqn:E3; [|discriminate].
      inversion H; subst. constructor; [exact Hl|]. eapply IH; [exact E3|exact H1|exact H2].
Qed.

Theorem shrink_loop_pairwise ws ws' s :
  shrink_loop ws = ORet (ws', s) -> Forall (fun w => 0 <= snd w) ws ->
  StronglySorted (fun a b => w_end a <= fst b) ws'.
Proof.
  intros H P. apply disjoint_adj_strong; [apply (shrink_loop_ok _ _ _ H)|].
  destruct ws as [|[b l] r]; cbn in H; [inversion H; constructor|].
  inversion P; subst. eapply shrink_loop_go_nonneg; eauto.
Qed.

(* ---- both variants through one reference function that only looks at the previous end ---- *)
Fixpoint shr (e : Z) (rest : list (Z * Z)) : outcome (list (Z * Z) * bool) :=
  match rest with
  | [] => ORet ([], false)
  | (b1, l1) :: r =>
      let ov := Z.max (e - b1) 0 in
      if (ov >? 0) && (ov >=? l1) then OErr
      else match shr (b1 + l1) r with
           | ORet (ws, s) => ORet ((b1 + ov, l1 - ov) :: ws, (ov >? 0) || s)
           | OErr => OErr
           end
  end.

Lemma shrink_loop_go_shr : forall rest b l s,
  shrink_loop_go b l rest s =
  match shr (b + l) rest with ORet (ws, s') => ORet ((b, l) :: ws, s || s') | OErr => OErr end.
Proof.
  induction rest as [|[b1 l1] r IH]; intros b l s; cbn.
  - rewrite orb_false_r. reflexivity.
  - destruct (b + l >? b1) eqn:E1.
    + replace (Z.max (b + l - b1) 0) with (b + l - b1) by lia.
      replace (b + l - b1 >? 0) with true by lia. cbn [andb].
      destruct (l1 >? b + l - b1) eqn:E2.
      * replace (b + l - b1 >=? l1) with false by lia.
        rewrite IH. replace (b1 + (b + l - b1) + (l1 - (b + l - b1))) with (b1 + l1) by lia.
        destruct (shr (b1 + l1) r) as [[ws s']|]; [|reflexivity]. cbn. rewrite orb_true_r. reflexivity.
      * replace (b + l - b1 >=? l1) with true by lia. reflexivity.
    + replace (Z.max (b + l - b1) 0) with 0 by lia. cbn [Z.gtb Z.compare andb].
      rewrite IH. destruct (shr (b1 + l1) r) as [[ws s']|]; [|reflexivity]. cbn.
      replace (b1 + 0) with b1 by lia. replace (l1 - 0) with l1 by lia. reflexivity.
Qed.

(* overlaps of the numpy variant, as a function of the previous end *)
Fixpoint ovs_from (e : Z) (rest : list (Z * Z)) : list Z :=
  match rest with
  | [] => []
  | w :: r => Z.max (e - fst w) 0 :: ovs_from (w_end w) r
  end.

Lemma overlaps_cons w rest : overlaps (w :: rest) = 0 :: ovs_from (w_end w) rest.
Proof.
  unfold overlaps. f_equal. revert w. induction rest as [|w1 r IH]; intro w; [reflexivity|].
  change (removelast (w :: w1 :: r)) with (w :: removelast (w1 :: r)).
  cbn [combine map fst snd ovs_from]. f_equal. apply IH.
Qed.

Definition np_err (p : Z * (Z * Z)) : bool := (fst p >? 0) && (fst p >=? snd (snd p)).
Definition np_adj (p : Z * (Z * Z)) : Z * Z := (fst (snd p) + fst p, snd (snd p) - fst p).

Lemma shr_np : forall rest e,
  shr e rest =
  if existsb np_err (combine (ovs_from e rest) rest) then OErr
  else ORet (map np_adj (combine (ovs_from e rest) rest), existsb (fun o => o >? 0) (ovs_from e rest)).
Proof.
  induction rest as [|[b1 l1] r IH]; intro e; [reflexivity|].
  cbn [shr ovs_from combine existsb map fst snd]. unfold np_err at 1. cbn [fst snd].
  destruct ((Z.max (e - b1) 0 >? 0) && (Z.max (e - b1) 0 >=? l1)); [reflexivity|]. cbn [orb].
  unfold w_end; cbn [fst snd]. rewrite IH.
  destruct (existsb np_err (combine (ovs_from (b1 + l1) r) r)); reflexivity.
Qed.

Lemma np_adj_id : forall rest e,
  existsb (fun o => o >? 0) (ovs_from e rest) = false -> map np_adj (combine (ovs_from e rest) rest) = rest.
Proof.
  induction rest as [|[b1 l1] r IH]; intros e H; [reflexivity|].
  cbn [ovs_from existsb fst] in H. apply orb_false_elim in H as [H1 H2].
  cbn [ovs_from combine map fst]. rewrite (IH _ H2). unfold np_adj; cbn [fst snd].
  replace (Z.max (e - b1) 0) with 0 by lia. f_equal. f_equal; lia.
Qed.

Theorem shrink_variants ws : shrink_numpy ws = shrink_loop ws.
Proof.
  destruct ws as [|[b l] rest]; [reflexivity|].
  unfold shrink_numpy, shrink_loop. rewrite overlaps_cons, shrink_loop_go_shr, shr_np.
  unfold w_end; cbn [fst snd]. cbn [combine existsb fst snd map].
  replace ((0 >? 0) && (0 >=? l)) with false by (cbn; reflexivity). cbn [orb].
  change (fun p : Z * (Z * Z) => (fst p >? 0) && (fst p >=? snd (snd p))) with np_err.
  destruct (existsb np_err (combine (ovs_from (b + l) rest) rest)); [reflexivity|].
  change (fun p : Z * (Z * Z) => (fst (snd p) + fst p, snd (snd p) - fst p)) with np_adj.
  destruct (existsb (fun o => o >? 0) (ovs_from (b + l) rest)) eqn:E.
  - cbn. replace (b + 0) with b by lia. replace (l - 0) with l by lia. reflexivity.
  - rewrite (np_adj_id _ _ E). reflexivity.
Qed.
