(* C20 round 4 — time_windows_to_samples on arbitrary binary64 inputs (decimal stream), exact-rational part:
   if the rounded products are within 2^-31 of the exact products, the converted window meets Spec.valid_conv_tol;
   if the products are representable, conv64 = conv.  (The 2^-31 bound itself is ProofsGrid.b64_close, Flocq.) *)
From Coq Require Import ZArith QArith Qround Qabs Bool List Lia Lqa Qfield.
Require Import QV.C20.Model QV.C20.Spec QV.C20.ProofsNum QV.C20.ProofsWin.
Open Scope Q_scope.

Lemma conv_tol_from_close sr (w : Q * Q) (yb yl : Q) :
  Qabs (yb - fst w * sr) <= 1 # (2 ^ 31) -> Qabs (yl - snd w * sr) <= 1 # (2 ^ 31) ->
  valid_conv_tol sr w (rint yb, Qfloor yl) = true.
Proof.
  intros Hb Hl. unfold valid_conv_tol, win_tol. cbn [fst snd].
  apply Qabs_Qle_condition in Hb as [Hb1 Hb2]. apply Qabs_Qle_condition in Hl as [Hl1 Hl2].
  pose proof (rint_near yb) as Hr. apply Qabs_Qle_condition in Hr as [Hr1 Hr2].
  pose proof (Qfloor_le yl) as F1. pose proof (Qlt_floor yl) as F2. rewrite inject_Z_plus in F2.
  change (1 # 2 ^ 31) with (1 # 2147483648) in *. change (1 # 2 ^ 30) with (1 # 1073741824).
  change (inject_Z 1) with 1 in F2.
  apply andb_true_intro; split; [apply andb_true_intro; split|].
  - apply Qle_bool_iff. apply Qabs_Qle_condition. split; lra.
  - apply Qle_bool_iff. lra.
  - apply negb_true_iff. destruct (Qle_bool _ _) eqn:E; [|reflexivity]. apply Qle_bool_iff in E. exfalso. lra.
Qed.

Lemma conv64_exact sr w : b64 (fst w * sr) == fst w * sr -> b64 (snd w * sr) == snd w * sr -> conv64 sr w = conv sr w.
Proof.
  intros Hb Hl. unfold conv64, conv. f_equal.
  - apply rint_compat. exact Hb.
  - rewrite Hl. reflexivity.
Qed.

Lemma tw_variants64 sr ws : tw_loop64 sr ws = tw_numpy64 sr ws.
Proof.
  unfold tw_loop64, tw_numpy64. destruct (mono_loop (map fst ws)) eqn:E; [|reflexivity].
  rewrite mono_loop_sortedb in E. apply sortedb_Sorted, Sorted_map_fst in E.
  rewrite (sort_w_id ws E). reflexivity.
Qed.
