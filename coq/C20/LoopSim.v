(* C20 — generic simulation argument for translated `for` loops.
   A translated loop body is a function  Z -> S -> ctl R S  on the canonical loop state S (parameters + live locals, see
   /verif/translate/py2gallina_c20.py).  Its MEANING is a partial state transformer  astep : Z -> S -> option S  written by
   hand.  `sim_body` (body = astep, None = Fail) is proved by the tactic `sim_body_tac`, which never looks at the text of
   the body: it splits the state tuple whatever its arity, unfolds, and decides every array access / condition by case
   analysis, closing the leaves by reflexivity / linear arithmetic.  So temporaries that are added, renamed or removed,
   independent assignments that are re-ordered and arithmetic that is re-associated do not break the proof; a body with
   a different meaning does. *)
From Coq Require Import ZArith QArith Bool List Lia ZifyBool.
Require Import QV.common.Ctl QV.C20.ForLoop.
Import ListNotations.
Open Scope Z_scope.

Fixpoint aloop {S : Type} (n : nat) (i : Z) (astep : Z -> S -> option S) (st : S) : option S :=
  match n with
  | O => Some st
  | Datatypes.S n' => match astep i st with Some st' => aloop n' (i + 1) astep st' | None => None end
  end.

Definition sim_body {R S : Type} (body : Z -> S -> ctl R S) (astep : Z -> S -> option S) : Prop :=
  forall i st, body i st = match astep i st with Some st' => Next st' | None => Fail end.

Lemma for_loop_sim {R S : Type} (body : Z -> S -> ctl R S) astep : sim_body body astep ->
  forall n i st, for_loop n i body st = match aloop n i astep st with Some st' => Next st' | None => Fail end.
Proof.
  intros H. induction n as [|n IH]; intros i st; cbn [for_loop aloop]; [reflexivity|].
  rewrite H. destruct (astep i st) as [st'|]; [apply IH|reflexivity].
Qed.

(* the same for `for x in seq` *)
Fixpoint aeach {S A : Type} (l : list A) (astep : A -> S -> option S) (st : S) : option S :=
  match l with
  | [] => Some st
  | x :: r => match astep x st with Some st' => aeach r astep st' | None => None end
  end.

Definition sim_body_each {R S A : Type} (body : A -> S -> ctl R S) (astep : A -> S -> option S) : Prop :=
  forall x st, body x st = match astep x st with Some st' => Next st' | None => Fail end.

Lemma for_each_sim {R S A : Type} (body : A -> S -> ctl R S) astep : sim_body_each body astep ->
  forall l st, for_each l body st = match aeach l astep st with Some st' => Next st' | None => Fail end.
Proof.
  intros H. induction l as [|x l IH]; intros st; cbn [for_each aeach]; [reflexivity|].
  rewrite H. destruct (astep x st) as [st'|]; [apply IH|reflexivity].
Qed.

Ltac destr_tuple st :=
  let T := type of st in
  let T' := eval hnf in T in
  lazymatch T' with
  | prod _ _ => let a := fresh "s" in let b := fresh "v" in destruct st as [a b]; destr_tuple a
  | _ => idtac
  end.

Ltac sim_leaf :=
  repeat first [ reflexivity | lia
               | match goal with
                 | |- ?f ?a ?c = ?f ?b ?d => apply (f_equal2 f)
                 | |- ?f ?a = ?f ?b => apply (f_equal f)
                 | |- Next ?a = Next ?b => cut (a = b); [let E := fresh in intro E; rewrite E; reflexivity|]
                 end ].

Ltac sim_split :=
  repeat (match goal with
          | |- context [match zget ?a ?j with _ => _ end] => destruct (zget a j) eqn:?
          | |- context [match qget ?a ?j with _ => _ end] => destruct (qget a j) eqn:?
          | |- context [if ?c then _ else _] => destruct c eqn:?
          | |- context [match ?o with None => _ | Some _ => _ end] => is_var o; destruct o
          end; cbv beta iota zeta).

Ltac sim_body_tac body astep :=
  let i := fresh "i" in let st := fresh "st" in
  intros i st; destr_tuple st; unfold body, astep, zset; cbv beta iota zeta;
  sim_split; first [reflexivity | (exfalso; lia) | sim_leaf].

(* ---- array access at a known position ---- *)
Lemma zget_mid (p : list Z) x r : zget (p ++ x :: r) (Z.of_nat (length p)) = Some x.
Proof.
  unfold zget. rewrite app_length. cbn [length].
  replace ((0 <=? Z.of_nat (length p)) && (Z.of_nat (length p) <? Z.of_nat (length p + S (length r)))) with true by lia.
  rewrite Nat2Z.id, nth_error_app2, Nat.sub_diag by lia. reflexivity.
Qed.

Lemma qget_mid (p : list Q) x r : qget (p ++ x :: r) (Z.of_nat (length p)) = Some x.
Proof.
  unfold qget. rewrite app_length. cbn [length].
  replace ((0 <=? Z.of_nat (length p)) && (Z.of_nat (length p) <? Z.of_nat (length p + S (length r)))) with true by lia.
  rewrite Nat2Z.id, nth_error_app2, Nat.sub_diag by lia. reflexivity.
Qed.

Lemma zget_mid1 (p : list Z) x y r : zget (p ++ x :: y :: r) (Z.of_nat (length p) + 1) = Some y.
Proof.
  replace (p ++ x :: y :: r) with ((p ++ [x]) ++ y :: r) by (rewrite <- app_assoc; reflexivity).
  replace (Z.of_nat (length p) + 1) with (Z.of_nat (length (p ++ [x]))) by (rewrite app_length; cbn; lia).
  apply zget_mid.
Qed.

Lemma zset_mid (p : list Z) x r v : zset (p ++ x :: r) (Z.of_nat (length p)) v = Some (p ++ v :: r).
Proof.
  unfold zset. rewrite app_length. cbn [length].
  replace ((0 <=? Z.of_nat (length p)) && (Z.of_nat (length p) <? Z.of_nat (length p + S (length r)))) with true by lia.
  rewrite Nat2Z.id. f_equal.
  rewrite firstn_app, Nat.sub_diag, firstn_all. cbn [firstn]. rewrite app_nil_r. f_equal.
  replace (S (length p)) with (length (p ++ [x])) by (rewrite app_length; cbn; lia).
  replace (p ++ x :: r) with ((p ++ [x]) ++ r) by (rewrite <- app_assoc; reflexivity).
  rewrite skipn_app, skipn_all, Nat.sub_diag. reflexivity.
Qed.

Lemma zset_mid1 (p : list Z) x y r v : zset (p ++ x :: y :: r) (Z.of_nat (length p) + 1) v = Some (p ++ x :: v :: r).
Proof.
  replace (p ++ x :: y :: r) with ((p ++ [x]) ++ y :: r) by (rewrite <- app_assoc; reflexivity).
  replace (Z.of_nat (length p) + 1) with (Z.of_nat (length (p ++ [x]))) by (rewrite app_length; cbn; lia).
  rewrite zset_mid. rewrite <- app_assoc. reflexivity.
Qed.

Lemma zget_at (p : list Z) x r n : n = length p -> zget (p ++ x :: r) (Z.of_nat n) = Some x.
Proof. intros ->. apply zget_mid. Qed.
Lemma qget_at (p : list Q) x r n : n = length p -> qget (p ++ x :: r) (Z.of_nat n) = Some x.
Proof. intros ->. apply qget_mid. Qed.
Lemma zset_at (p : list Z) x r v n : n = length p -> zset (p ++ x :: r) (Z.of_nat n) v = Some (p ++ v :: r).
Proof. intros ->. apply zset_mid. Qed.
Lemma zget_at1 (p : list Z) x y r n : n = length p -> zget (p ++ x :: y :: r) (Z.of_nat n + 1) = Some y.
Proof. intros ->. apply zget_mid1. Qed.
Lemma zset_at1 (p : list Z) x y r v n : n = length p -> zset (p ++ x :: y :: r) (Z.of_nat n + 1) v = Some (p ++ x :: v :: r).
Proof. intros ->. apply zset_mid1. Qed.

Lemma py_trunc_inject z : py_trunc (inject_Z z) = z.
Proof.
  unfold py_trunc. destruct (Qle_bool 0 (inject_Z z)); [apply Qround.Qfloor_Z|apply Qround.Qceiling_Z].
Qed.

Lemma py_trunc_nonneg q : (0 <= q)%Q -> py_trunc q = Qround.Qfloor q.
Proof. intro H. unfold py_trunc. apply Qle_bool_iff in H. rewrite H. reflexivity. Qed.
