(* C20 — ProgramEntry._sample_waveforms: the flat-memory model (compact rows from not_none_indices, one segment per
   waveform, views read after ALL writes) returns exactly the direct formula of Spec.spec_sample.
   Assembled from the two memory lemmas of ProofsMem.v by induction over the slot list (rows) and the waveform list
   (segments). *)
From Coq Require Import ZArith QArith Qround Qabs Bool List Lia.
Require Import QV.common.Util QV.C20.Model QV.C20.Spec QV.C20.ProofsMem QV.C20.ProofsTimes.
Import ListNotations.
Open Scope nat_scope.

(* ---- replacing one row ---- *)
Definition upd_row {A} (mem : list (list A)) (rw : nat) (row : list A) : list (list A) :=
  firstn rw mem ++ [row] ++ skipn (S rw) mem.

Lemma upd_row_split {A} (mem : list (list A)) rw row : rw < length mem ->
  exists p x s, mem = p ++ x :: s /\ length p = rw /\ upd_row mem rw row = p ++ row :: s.
Proof.
  intro H. destruct (nth_split mem [] H) as (p & s & E & Lp). exists p, (nth rw mem []), s.
  split; [exact E|]. split; [exact Lp|].
  unfold upd_row. set (x := nth rw mem []) in *. rewrite E. clear E.
  rewrite firstn_app, Lp, Nat.sub_diag. rewrite <- Lp at 1. rewrite firstn_all. cbn [firstn]. rewrite app_nil_r.
  replace (S rw) with (length (p ++ [x])) by (rewrite app_length, Lp; cbn; lia).
  replace (p ++ x :: s) with ((p ++ [x]) ++ s) by (rewrite <- app_assoc; reflexivity).
  rewrite skipn_app, skipn_all, Nat.sub_diag. reflexivity.
Qed.

Lemma upd_row_length {A} (mem : list (list A)) rw row : rw < length mem -> length (upd_row mem rw row) = length mem.
Proof.
  intro H. destruct (upd_row_split mem rw row H) as (p & x & s & E & Lp & U). rewrite U. subst mem.
  rewrite !app_length. reflexivity.
Qed.

Lemma nth_upd_row_same {A} (mem : list (list A)) rw row : rw < length mem -> nth rw (upd_row mem rw row) [] = row.
Proof.
  intro H. destruct (upd_row_split mem rw row H) as (p & x & s & E & Lp & U). rewrite U.
  rewrite app_nth2 by lia. rewrite Lp, Nat.sub_diag. reflexivity.
Qed.

Lemma nth_upd_row_other {A} (mem : list (list A)) rw row j : rw < length mem -> j <> rw ->
  nth j (upd_row mem rw row) [] = nth j mem [].
Proof.
  intros H Hj. destruct (upd_row_split mem rw row H) as (p & x & s & E & Lp & U). rewrite U. subst mem.
  destruct (Nat.lt_ge_cases j rw) as [Lt|Ge].
  - rewrite !app_nth1 by lia. reflexivity.
  - rewrite !app_nth2 by lia. destruct (j - length p) as [|d] eqn:D; [lia|]. reflexivity.
Qed.

(* ---- rows of equal length, reading a window of a row ---- *)
Definition rows_len {A} (L : nat) (mem : list (list A)) : Prop := forall j, j < length mem -> length (nth j mem []) = L.
Definition rd {A} (mem : list (list A)) (j p m : nat) : list A := firstn m (skipn p (nth j mem [])).
Definition view_below (P : nat) (v : option view) : Prop :=
  match v with None => True | Some (_, p, m) => p + m <= P end.

Lemma read_view_rd {A} (mem : list (list A)) row p m : read_view mem (Some (row, p, m)) = Some (rd mem row p m).
Proof. reflexivity. Qed.

Lemma read_view_stable {A} (c c1 : list (list A)) P vs :
  (forall j p2 m2, p2 + m2 <= P -> rd c j p2 m2 = rd c1 j p2 m2) -> Forall (view_below P) vs ->
  map (read_view c) vs = map (read_view c1) vs.
Proof.
  intros H F. induction F as [|v vs Hv F IH]; [reflexivity|]. cbn [map]. rewrite IH. f_equal.
  destruct v as [[[row p] m]|]; [|reflexivity]. rewrite !read_view_rd. rewrite (H row p m Hv). reflexivity.
Qed.

(* ---- not_none_indices: the running index never decreases ---- *)
Lemma nni_go_ge {B} : forall (l : list (option B)) k, (k <= snd (nni_go l k))%Z.
Proof.
  induction l as [|[c|] r IH]; intro k; cbn [nni_go].
  - cbn. lia.
  - pose proof (IH (k + 1)%Z) as H. destruct (nni_go r (k + 1)) as [is n]. cbn in *. lia.
  - pose proof (IH k) as H. destruct (nni_go r k) as [is n]. cbn in *. lia.
Qed.

Definition lift_sample {A B} (sample : B -> outcome (list A)) (s : option B) : outcome (option (list A)) :=
  match s with
  | None => ORet None
  | Some c => match sample c with ORet xs => ORet (Some xs) | OErr => OErr end
  end.

(* ---- one waveform, one kind of slot: write_slots ---- *)
Section WriteSlots.
  Context {A B : Type} (sample : B -> outcome (list A)) (pos n L : nat).
  Hypothesis Hpos : pos + n <= L.
  Hypothesis Hs : forall c xs, sample c = ORet xs -> length xs = n.

  Lemma write_slots_spec : forall (slots : list (option B)) (k : Z) (mem : list (list A)),
    (0 <= k)%Z -> Z.to_nat (snd (nni_go slots k)) <= length mem -> rows_len L mem ->
    match all_ok (map (lift_sample sample) slots) with
    | OErr => write_slots sample slots (fst (nni_go slots k)) mem pos n = OErr
    | ORet outs =>
        exists mem' vs, write_slots sample slots (fst (nni_go slots k)) mem pos n = ORet (mem', vs)
          /\ length mem' = length mem /\ rows_len L mem'
          /\ (forall j, j < Z.to_nat k -> nth j mem' [] = nth j mem [])
          /\ (forall j p2 m2, p2 + m2 <= pos -> rd mem' j p2 m2 = rd mem j p2 m2)
          /\ map (read_view mem') vs = outs
          /\ Forall (view_below (pos + n)) vs
    end.
  Proof.
    induction slots as [|[c|] r IH]; intros k mem Hk Hrows HL.
    - cbn. exists mem, []. repeat split; auto.
    - (* a used slot: row k *)
      cbn [nni_go] in Hrows |- *. pose proof (nni_go_ge r (k + 1)%Z) as Hge.
      specialize (IH (k + 1)%Z). destruct (nni_go r (k + 1)) as [is nf] eqn:E.
      cbn [fst snd] in *. cbn [map lift_sample all_ok write_slots].
      destruct (sample c) as [xs|] eqn:Sc; [|reflexivity].
      set (rw := Z.to_nat k).
      assert (Hrw : rw < length mem) by (unfold rw; lia).
      change (firstn rw mem ++ [write_at (nth rw mem []) pos xs] ++ skipn (S rw) mem)
        with (upd_row mem rw (write_at (nth rw mem []) pos xs)).
      set (row' := write_at (nth rw mem []) pos xs).
      assert (Lxs : length xs = n) by (eapply Hs; exact Sc).
      assert (Lrow : length (nth rw mem []) = L) by (apply HL; exact Hrw).
      assert (Lrow' : length row' = L) by (unfold row'; rewrite write_at_length; lia).
      assert (HL1 : rows_len L (upd_row mem rw row')).
      { intros j Hj. rewrite upd_row_length in Hj by exact Hrw.
        destruct (Nat.eq_dec j rw) as [->|Ne]; [rewrite nth_upd_row_same by exact Hrw; exact Lrow'|].
        rewrite nth_upd_row_other by auto. apply HL; exact Hj. }
      specialize (IH (upd_row mem rw row')).
      rewrite upd_row_length in IH by exact Hrw.
      specialize (IH ltac:(lia) ltac:(lia) HL1).
      destruct (all_ok (map (lift_sample sample) r)) as [outs|].
      + destruct IH as (mem' & vs & W & Len & HL' & Low & Left & Rd & Bel). rewrite W.
        exists mem', (Some (rw, pos, n) :: vs). split; [reflexivity|]. split; [exact Len|]. split; [exact HL'|].
        split; [|split; [|split]].
        * intros j Hj. rewrite Low by lia. apply nth_upd_row_other; [exact Hrw|unfold rw; lia].
        * intros j p2 m2 H2. rewrite Left by exact H2. unfold rd.
          destruct (Nat.eq_dec j rw) as [->|Ne].
          -- rewrite nth_upd_row_same by exact Hrw. unfold row'. apply read_left_of_write; lia.
          -- rewrite nth_upd_row_other by auto. reflexivity.
        * cbn [map]. rewrite Rd. f_equal. rewrite read_view_rd. f_equal. unfold rd.
          rewrite Low by (unfold rw; lia). rewrite nth_upd_row_same by exact Hrw. unfold row'.
          rewrite <- Lxs. apply read_own_write. lia.
        * constructor; [cbn; lia|exact Bel].
      + rewrite IH. reflexivity.
    - (* an empty slot *)
      cbn [nni_go] in Hrows |- *. specialize (IH k mem Hk). destruct (nni_go r k) as [is nf] eqn:E.
      cbn [fst snd] in *. cbn [map lift_sample all_ok write_slots]. specialize (IH Hrows HL).
      destruct (all_ok (map (lift_sample sample) r)) as [outs|].
      + destruct IH as (mem' & vs & W & Len & HL' & Low & Left & Rd & Bel). rewrite W.
        exists mem', (None :: vs). repeat split; auto; [cbn [map read_view]; rewrite Rd; reflexivity|constructor; [exact I|exact Bel]].
      + rewrite IH. reflexivity.
  Qed.
End WriteSlots.

(* ---- the sampling functions return exactly n values ---- *)
Lemma sampled_channel_length n wf c xs : sampled_channel n wf c = ORet xs -> length xs = n.
Proof.
  destruct c as [[[ch T] amp] off]. unfold sampled_channel. destruct (lookup ch (snd wf)) as [raw|]; [|discriminate].
  destruct (length raw <? n) eqn:E; [discriminate|]. apply Nat.ltb_ge in E. intro H. injection H as <-.
  rewrite map_length, firstn_length. lia.
Qed.
Lemma sampled_marker_length n wf ch xs : sampled_marker n wf ch = ORet xs -> length xs = n.
Proof.
  unfold sampled_marker. destruct (lookup ch (snd wf)) as [raw|]; [|discriminate].
  destruct (length raw <? n) eqn:E; [discriminate|]. apply Nat.ltb_ge in E. intro H. injection H as <-.
  rewrite map_length, firstn_length. lia.
Qed.

(* ---- round 5: Spec.v no longer uses the model's per-slot sampling functions.  `direct_one` is the old formulation (model's
        sampled_channel / sampled_marker, no memory); the specification's own value functions are equal to them ---- *)
Definition direct_one (chans : list (option chan_cfg)) (markers : list (option Z)) (wl : wf_obs * Z) : outcome sampled :=
  let '(wf, len) := wl in
  let n := Z.to_nat len in
  let cs := map (fun c : option chan_cfg => match c with
                         | None => ORet None
                         | Some cfg => match sampled_channel n wf cfg with ORet xs => ORet (Some xs) | OErr => OErr end
                         end) chans in
  let ms := map (fun c : option Z => match c with
                         | None => ORet None
                         | Some ch => match sampled_marker n wf ch with ORet xs => ORet (Some xs) | OErr => OErr end
                         end) markers in
  match all_ok cs, all_ok ms with
  | ORet c, ORet m => ORet (c, m)
  | _, _ => OErr
  end.

Lemma find_lookup {A} (ch : Z) (l : list (Z * A)) :
  match find (fun p : Z * A => (fst p =? ch)%Z) l with None => None | Some p => Some (snd p) end = lookup ch l.
Proof.
  induction l as [|[k a] r IH]; [reflexivity|]. cbn [find lookup fst]. rewrite (Z.eqb_sym ch k).
  destruct (k =? ch)%Z; [reflexivity|exact IH].
Qed.

Lemma spec_raw_lookup n wf ch :
  spec_raw n wf ch = match lookup ch (snd wf) with
                     | None => OErr
                     | Some raw => if length raw <? n then OErr else ORet (firstn n raw)
                     end.
Proof.
  unfold spec_raw. rewrite <- find_lookup. destruct (find _ (snd wf)) as [p|]; [|reflexivity].
  rewrite Nat.ltb_antisym. destruct (n <=? length (snd p)); reflexivity.
Qed.

Lemma spec_chan_values_model n wf c : spec_chan_values n wf c = sampled_channel n wf c.
Proof.
  destruct c as [[[ch T] amp] off]. unfold spec_chan_values, sampled_channel. rewrite spec_raw_lookup.
  destruct (lookup ch (snd wf)) as [raw|]; [|reflexivity]. destruct (length raw <? n); [reflexivity|].
  cbn [map_out]. apply f_equal. apply map_ext. intro x. destruct T; reflexivity.
Qed.

Lemma spec_marker_values_model n wf ch : spec_marker_values n wf ch = sampled_marker n wf ch.
Proof.
  unfold spec_marker_values, sampled_marker. rewrite spec_raw_lookup.
  destruct (lookup ch (snd wf)) as [raw|]; [|reflexivity]. destruct (length raw <? n); reflexivity.
Qed.

Lemma spec_sample_one_direct chans markers wl : spec_sample_one chans markers wl = direct_one chans markers wl.
Proof.
  destruct wl as [wf len]. unfold spec_sample_one, direct_one. cbn [fst snd].
  set (n := Z.to_nat len).
  assert (EC : map (spec_slot (spec_chan_values n wf)) chans
               = map (fun c : option chan_cfg => match c with
                         | None => ORet None
                         | Some cfg => match sampled_channel n wf cfg with ORet xs => ORet (Some xs) | OErr => OErr end
                         end) chans).
  { apply map_ext. intros [c|]; [|reflexivity]. cbn [spec_slot]. rewrite spec_chan_values_model.
    destruct (sampled_channel n wf c); reflexivity. }
  assert (EM : map (spec_slot (spec_marker_values n wf)) markers
               = map (fun c : option Z => match c with
                         | None => ORet None
                         | Some ch => match sampled_marker n wf ch with ORet xs => ORet (Some xs) | OErr => OErr end
                         end) markers).
  { apply map_ext. intros [c|]; [|reflexivity]. cbn [spec_slot]. rewrite spec_marker_values_model.
    destruct (sampled_marker n wf c); reflexivity. }
  rewrite EC, EM. reflexivity.
Qed.

(* ---- all waveforms ---- *)
Definition total_n (wfs : list (wf_obs * Z)) : nat := fold_right (fun wl acc => Z.to_nat (snd wl) + acc) 0 wfs.

Section SampleGo.
  Variables (chans : list (option chan_cfg)) (markers : list (option Z)) (L : nat).

  Lemma sample_go_spec : forall (wfs : list (wf_obs * Z)) cmem mmem pos,
    Z.to_nat (snd (nni_go chans 0)) <= length cmem -> rows_len L cmem ->
    Z.to_nat (snd (nni_go markers 0)) <= length mmem -> rows_len L mmem ->
    pos + total_n wfs <= L ->
    match all_ok (map (direct_one chans markers) wfs) with
    | OErr => sample_go chans markers (fst (nni_go chans 0)) (fst (nni_go markers 0)) wfs cmem mmem pos = OErr
    | ORet outs =>
        exists c m vs,
          sample_go chans markers (fst (nni_go chans 0)) (fst (nni_go markers 0)) wfs cmem mmem pos = ORet (c, m, vs)
          /\ (forall j p2 m2, p2 + m2 <= pos -> rd c j p2 m2 = rd cmem j p2 m2)
          /\ (forall j p2 m2, p2 + m2 <= pos -> rd m j p2 m2 = rd mmem j p2 m2)
          /\ map (fun cm : list (option view) * list (option view) =>
                    (map (read_view c) (fst cm), map (read_view m) (snd cm))) vs = outs
    end.
  Proof.
    induction wfs as [|[wf len] r IH]; intros cmem mmem pos Hc HLc Hm HLm Htot.
    - cbn. exists cmem, mmem, []. repeat split; auto.
    - cbn [map all_ok sample_go]. cbn [total_n fold_right snd] in Htot. fold (total_n r) in Htot.
      set (n := Z.to_nat len) in *.
      unfold direct_one at 1. fold n.
      change (map (fun c : option chan_cfg => match c with
                         | None => ORet None
                         | Some cfg => match sampled_channel n wf cfg with ORet xs => ORet (Some xs) | OErr => OErr end
                         end) chans) with (map (lift_sample (sampled_channel n wf)) chans).
      change (map (fun c : option Z => match c with
                         | None => ORet None
                         | Some ch => match sampled_marker n wf ch with ORet xs => ORet (Some xs) | OErr => OErr end
                         end) markers) with (map (lift_sample (sampled_marker n wf)) markers).
      assert (Hpos : pos + n <= L) by lia.
      pose proof (write_slots_spec (sampled_channel n wf) pos n L Hpos (sampled_channel_length n wf)
                    chans 0%Z cmem ltac:(lia) Hc HLc) as WC.
      destruct (all_ok (map (lift_sample (sampled_channel n wf)) chans)) as [co|]; [|rewrite WC; reflexivity].
      destruct WC as (cmem1 & cv & WC & Lc1 & HLc1 & _ & Leftc & Rdc & Belc). rewrite WC.
      pose proof (write_slots_spec (sampled_marker n wf) pos n L Hpos (sampled_marker_length n wf)
                    markers 0%Z mmem ltac:(lia) Hm HLm) as WM.
      destruct (all_ok (map (lift_sample (sampled_marker n wf)) markers)) as [mo|]; [|rewrite WM; reflexivity].
      destruct WM as (mmem1 & mv & WM & Lm1 & HLm1 & _ & Leftm & Rdm & Belm). rewrite WM.
      specialize (IH cmem1 mmem1 (pos + n)). rewrite Lc1, Lm1 in IH. specialize (IH Hc HLc1 Hm HLm1 ltac:(lia)).
      destruct (all_ok (map (direct_one chans markers) r)) as [outs|]; [|rewrite IH; reflexivity].
      destruct IH as (c & m & vs & G & Lc & Lm & Rd). rewrite G.
      exists c, m, ((cv, mv) :: vs). split; [reflexivity|]. split; [|split].
      + intros j p2 m2 H2. rewrite Lc by lia. apply Leftc; exact H2.
      + intros j p2 m2 H2. rewrite Lm by lia. apply Leftm; exact H2.
      + cbn [map fst snd]. rewrite Rd.
        rewrite (read_view_stable c cmem1 (pos + n) cv Lc Belc), (read_view_stable m mmem1 (pos + n) mv Lm Belm).
        rewrite Rdc, Rdm. reflexivity.
  Qed.
End SampleGo.

(* ---- the sample counts are positive, so the segments fit into the rows ---- *)
Lemma waveform_length_pos rate d z : waveform_length rate d = ORet z -> (0 < z)%Z.
Proof.
  unfold waveform_length. destruct (negb _); [discriminate|].
  destruct (rint (d * rate) <=? 0)%Z eqn:E; [discriminate|]. intro H. injection H as <-. lia.
Qed.

Lemma all_ok_Forall {X R} (f : X -> outcome R) (P : R -> Prop) :
  (forall x r, f x = ORet r -> P r) -> forall l rs, all_ok (map f l) = ORet rs -> Forall P rs.
Proof.
  intros Hf. induction l as [|x l IH]; intros rs H; cbn in H.
  - injection H as <-. constructor.
  - destruct (f x) as [y|] eqn:E; [|discriminate]. destruct (all_ok (map f l)) as [ys|]; [|discriminate].
    injection H as <-. constructor; [eapply Hf; exact E|apply IH; reflexivity].
Qed.

Lemma total_n_combine : forall (lens : list Z) (wfs : list wf_obs), Forall (fun z => (0 < z)%Z) lens ->
  total_n (combine wfs lens) <= Z.to_nat (fold_right Z.add 0%Z lens).
Proof.
  induction lens as [|z lens IH]; intros wfs F.
  - destruct wfs; cbn; lia.
  - inversion F as [|? ? Hz F']; subst. destruct wfs as [|w wfs]; [cbn; lia|].
    cbn [combine total_n fold_right snd]. fold (total_n (combine wfs lens)). specialize (IH wfs F').
    assert (0 <= fold_right Z.add 0 lens)%Z.
    { clear -F'. induction F'; cbn; lia. }
    lia.
Qed.

Lemma rows_len_repeat {A} (x : A) L R : rows_len L (repeat (repeat x L) R).
Proof.
  intros j Hj. rewrite repeat_length in Hj.
  assert (In (nth j (repeat (repeat x L) R) []) (repeat (repeat x L) R)) as Hin by (apply nth_In; rewrite repeat_length; exact Hj).
  apply repeat_spec in Hin. rewrite Hin. apply repeat_length.
Qed.

(* ---- the theorem: flat memory + views = direct formula (Leibniz equality, hence also the boolean comparison) ---- *)
Lemma spec_lengths_model rate (wfs : list wf_obs) :
  map (fun wf : wf_obs => spec_length rate (fst wf)) wfs = map (waveform_length rate) (map fst wfs).
Proof. rewrite map_map. apply map_ext. intro wf. symmetry. apply waveform_length_is_spec. Qed.

Theorem sample_waveforms_is_spec chans markers rate wfs :
  sample_waveforms chans markers rate wfs = spec_sample chans markers rate wfs.
Proof.
  unfold sample_waveforms, spec_sample.
  destruct wfs as [|w0 wfs0]; [reflexivity|]. set (wfs := w0 :: wfs0). rewrite spec_lengths_model.
  assert (ST : sample_times rate (map fst wfs)
               = match all_ok (map (waveform_length rate) (map fst wfs)) with
                 | OErr => OErr
                 | ORet lens => ORet (map (grid_impl rate (fold_right Z.max 0%Z lens)) (zrange (fold_right Z.max 0%Z lens)), lens)
                 end) by reflexivity.
  rewrite ST. clear ST.
  destruct (all_ok (map (waveform_length rate) (map fst wfs))) as [lens|] eqn:AO; [|reflexivity].
  rewrite (map_ext _ _ (spec_sample_one_direct chans markers)).
  assert (Hpos : Forall (fun z => (0 < z)%Z) lens).
  { eapply all_ok_Forall; [|exact AO]. intros x r. apply waveform_length_pos. }
  set (total := Z.to_nat (fold_right Z.add 0%Z lens)).
  unfold not_none_indices.
  pose proof (sample_go_spec chans markers total (combine wfs lens)
                (repeat (repeat 0%Q total) (Z.to_nat (snd (nni_go chans 0))))
                (repeat (repeat false total) (Z.to_nat (snd (nni_go markers 0)))) 0) as G.
  rewrite !repeat_length in G.
  specialize (G (le_n _) (rows_len_repeat _ _ _) (le_n _) (rows_len_repeat _ _ _)
                ltac:(cbn [Nat.add]; apply total_n_combine; exact Hpos)).
  destruct (nni_go chans 0) as [ci nch]. destruct (nni_go markers 0) as [mi nmk]. cbn [fst snd] in G.
  destruct (all_ok (map (direct_one chans markers) (combine wfs lens))) as [outs|].
  - destruct G as (c & m & vs & G & _ & _ & Rd). rewrite G. rewrite Rd. reflexivity.
  - rewrite G. reflexivity.
Qed.

(* reflexivity of the boolean comparisons used in the statement *)
Lemma list_eqb_refl {X} (e : X -> X -> bool) : (forall x, e x x = true) -> forall l, list_eqb e l l = true.
Proof. intros He. induction l as [|x l IH]; cbn; [reflexivity|]. rewrite He, IH. reflexivity. Qed.
Lemma opt_eqb_refl {X} (e : X -> X -> bool) : (forall x, e x x = true) -> forall o, opt_eqb e o o = true.
Proof. intros He [x|]; cbn; auto. Qed.
Lemma Qeq_bool_refl' x : Qeq_bool x x = true.
Proof. apply Qeq_bool_iff. reflexivity. Qed.
Lemma sampled_eqb_refl s : sampled_eqb s s = true.
Proof.
  unfold sampled_eqb. rewrite !list_eqb_refl; [reflexivity| |].
  - apply opt_eqb_refl. apply list_eqb_refl. intros []; reflexivity.
  - apply opt_eqb_refl. apply list_eqb_refl. exact Qeq_bool_refl'.
Qed.

Theorem sampling_statement chans markers rate wfs :
  outcome_eqb (list_eqb sampled_eqb) (sample_waveforms chans markers rate wfs) (spec_sample chans markers rate wfs) = true.
Proof.
  rewrite sample_waveforms_is_spec. destruct (spec_sample chans markers rate wfs) as [l|]; cbn; [|reflexivity].
  apply list_eqb_refl. exact sampled_eqb_refl.
Qed.
