(* C20 — round 6: the model of time_windows_to_samples PASSES THE EXECUTABLE CHECKER Spec.spec_tw (what check_spec applies to
   the implementation on the exact stream): the observation must be SOME arrangement of the converted windows (begin to the
   nearest integer, ties to even; length rounded down) in which the time begins are non-decreasing — the checker repeatedly
   takes the first not yet used window with the minimal begin whose conversion is the next observed pair.
   Proved for every list of windows and every sample rate (no sign / sortedness assumption), for both variants' models. *)
From Coq Require Import ZArith QArith Qround Qabs Bool List Sorted Permutation Lia Lqa.
Require Import QV.common.Util QV.C20.Model QV.C20.Spec QV.C20.ProofsNum QV.C20.ProofsWin.
Import ListNotations.
Open Scope Q_scope.

Lemma valid_conv_self sr w : valid_conv sr w (conv sr w) = true.
Proof.
  unfold valid_conv, nearest_even, is_floor.
  destruct (conv_begin_nearest sr w) as [N T]. destruct (conv_length_floor sr w) as [F1 F2].
  repeat (apply andb_true_iff; split).
  - apply Qle_bool_iff. exact N.
  - destruct (Qeq_bool _ (1 # 2)) eqn:E; [|reflexivity]. cbn. apply T. apply Qeq_bool_iff. exact E.
  - apply Qle_bool_iff. exact F1.
  - apply negb_true_iff. destruct (Qle_bool _ (snd w * sr)) eqn:E; [|reflexivity].
    apply Qle_bool_iff in E. rewrite inj_succ in E. lra.
Qed.

Lemma valid_conv_unique sr w o : valid_conv sr w o = true -> o = conv sr w.
Proof.
  unfold valid_conv, nearest_even, is_floor. intro H.
  apply andb_true_iff in H as [H1 H2]. apply andb_true_iff in H1 as [N T]. apply andb_true_iff in H2 as [F1 F2].
  apply Qle_bool_iff in N. apply Qle_bool_iff in F1. apply negb_true_iff in F2.
  destruct o as [ob ol]. unfold conv. cbn [fst snd] in *. f_equal.
  - symmetry. apply rint_unique; [exact N|]. intro E. apply Qeq_bool_iff in E. rewrite E in T. exact T.
  - assert (F3 : snd w * sr < inject_Z (ol + 1)).
    { apply Qnot_le_lt. intro C. apply Qle_bool_iff in C. congruence. }
    pose proof (floor_bounds (snd w * sr)) as [G1 G2]. rewrite <- inj_succ in G2.
    assert (A : inject_Z ol < inject_Z (Qfloor (snd w * sr) + 1)) by lra.
    assert (B : inject_Z (Qfloor (snd w * sr)) < inject_Z (ol + 1)) by lra.
    rewrite <- Zlt_Qlt in A, B. lia.
Qed.

Lemma take_first_spec ok m : forall ws ws', take_first ok m ws = Some ws' ->
  exists w', Permutation ws (w' :: ws') /\ fst w' == m /\ ok w' = true.
Proof.
  induction ws as [|w r IH]; intros ws' H; cbn in H; [discriminate|].
  destruct (Qeq_bool (fst w) m && ok w) eqn:E.
  - inversion H; subst. apply andb_true_iff in E as [E1 E2]. apply Qeq_bool_iff in E1. exists w. repeat split; auto.
  - destruct (take_first ok m r) as [r'|] eqn:Er; [|discriminate]. inversion H; subst.
    destruct (IH r' eq_refl) as [w' [P [E1 E2]]]. exists w'. split; [|split; assumption].
    rewrite P. apply perm_swap.
Qed.

Lemma take_first_exists ok m h : forall ws, In h ws -> fst h == m -> ok h = true -> exists ws', take_first ok m ws = Some ws'.
Proof.
  induction ws as [|w r IH]; intros Hin Em Hok; [destruct Hin|]. cbn.
  destruct (Qeq_bool (fst w) m && ok w) eqn:E; [eexists; reflexivity|].
  destruct Hin as [->|Hin].
  - apply Qeq_bool_iff in Em. rewrite Em, Hok in E. discriminate.
  - destruct (IH Hin Em Hok) as [r' ->]. eexists; reflexivity.
Qed.

Lemma fold_min_spec : forall (r : list (Q * Q)) m0,
  let m := fold_left (fun m x => if Qle_bool (fst x) m then fst x else m) r m0 in
  m <= m0 /\ (forall w, In w r -> m <= fst w) /\ (m = m0 \/ exists w, In w r /\ m = fst w).
Proof.
  induction r as [|x r IH]; intros m0; cbn.
  - split; [lra|]. split; [intros w []|left; reflexivity].
  - destruct (Qle_bool (fst x) m0) eqn:E.
    + apply Qle_bool_iff in E. destruct (IH (fst x)) as [A [B C]]. split; [lra|]. split.
      * intros w [<-|Hw]; [exact A|apply B; exact Hw].
      * right. destruct C as [C|[w [Hw C]]]; [exists x; split; [left; reflexivity|exact C]|exists w; split; [right; exact Hw|exact C]].
    + assert (L : m0 < fst x).
      { apply Qnot_le_lt. intro C. apply Qle_bool_iff in C. congruence. }
      destruct (IH m0) as [A [B C]]. split; [exact A|]. split.
      * intros w [<-|Hw]; [lra|apply B; exact Hw].
      * destruct C as [C|[w [Hw C]]]; [left; exact C|right; exists w; split; [right; exact Hw|exact C]].
Qed.

Lemma min_begin_spec w r : exists m, min_begin (w :: r) = Some m
  /\ (forall x, In x (w :: r) -> m <= fst x) /\ (exists x, In x (w :: r) /\ m = fst x).
Proof.
  unfold min_begin. eexists. split; [reflexivity|].
  destruct (fold_min_spec r (fst w)) as [A [B C]]. split.
  - intros x [<-|Hx]; [exact A|apply B; exact Hx].
  - destruct C as [C|[x [Hx C]]]; [exists w; split; [left; reflexivity|exact C]|exists x; split; [right; exact Hx|exact C]].
Qed.

Lemma sorted_head_min h t : Sorted le_w (h :: t) -> forall x, In x (h :: t) -> fst h <= fst x.
Proof.
  intro H. apply Sorted_StronglySorted in H.
  - inversion H as [|? ? _ F]; subst. intros x [<-|Hx]; [lra|]. rewrite Forall_forall in F. apply F. exact Hx.
  - intros a b c. unfold le_w. intros; lra.
Qed.

Lemma sorted_replace h w' : fst h == fst w' -> forall t1 t2, Sorted le_w (t1 ++ w' :: t2) -> Sorted le_w (t1 ++ h :: t2).
Proof.
  intros E. induction t1 as [|a t1 IH]; intros t2 H; cbn in *.
  - inversion H as [|? ? Hs Hh]; subst. constructor; [exact Hs|].
    destruct t2 as [|z t2]; constructor. inversion Hh; subst. unfold le_w in *. lra.
  - inversion H as [|? ? Hs Hh]; subst. constructor; [apply IH; exact Hs|].
    destruct t1 as [|b t1]; cbn in *; constructor; inversion Hh; subst; unfold le_w in *; lra.
Qed.

Lemma match_sorted_model sr : forall s ws, Sorted le_w s -> Permutation s ws ->
  match_sorted (valid_conv sr) (map (conv sr) s) ws = true.
Proof.
  intros s. remember (length s) as n eqn:En. revert s En.
  induction n as [|n IH]; intros s En ws Hs Hp.
  - destruct s; [|discriminate]. apply Permutation_nil in Hp. subst. reflexivity.
  - destruct s as [|h t]; [discriminate|]. injection En as En. cbn [map match_sorted].
    destruct ws as [|w0 r0]; [apply Permutation_sym, Permutation_nil in Hp; discriminate|].
    destruct (min_begin_spec w0 r0) as [m [-> [Mle [x [Hx Mx]]]]].
    assert (Em : fst h == m).
    { apply Qle_antisym.
      - rewrite Mx. apply (sorted_head_min h t Hs). apply (Permutation_in _ (Permutation_sym Hp)). exact Hx.
      - apply Mle. apply (Permutation_in _ Hp). left. reflexivity. }
    assert (Hin : In h (w0 :: r0)) by (apply (Permutation_in _ Hp); left; reflexivity).
    destruct (take_first_exists (fun w => valid_conv sr w (conv sr h)) m h _ Hin Em (valid_conv_self sr h)) as [ws' Et].
    rewrite Et. destruct (take_first_spec _ _ _ _ Et) as [w' [Pw [Ew Vw]]].
    apply valid_conv_unique in Vw.
    assert (Hp' : Permutation (h :: t) (w' :: ws')) by (rewrite Hp; exact Pw).
    assert (Hw' : In w' (h :: t)) by (apply (Permutation_in _ (Permutation_sym Hp')); left; reflexivity).
    assert (St : Sorted le_w t) by (inversion Hs; assumption).
    destruct Hw' as [<-|Hw'].
    + apply (IH t En ws' St). apply Permutation_cons_inv with h. exact Hp'.
    + apply in_split in Hw' as [t1 [t2 ->]].
      assert (Ehw : fst h == fst w') by (rewrite Em, Ew; reflexivity).
      replace (map (conv sr) (t1 ++ w' :: t2)) with (map (conv sr) (t1 ++ h :: t2))
        by (rewrite !map_app; cbn [map]; rewrite Vw; reflexivity).
      apply IH.
      * rewrite En, !app_length. reflexivity.
      * apply (sorted_replace h w' Ehw). exact St.
      * apply Permutation_cons_inv with w'. rewrite <- Hp'.
        transitivity (w' :: h :: t1 ++ t2); [constructor; symmetry; apply Permutation_middle|].
        transitivity (h :: w' :: t1 ++ t2); [apply perm_swap|]. constructor. apply Permutation_middle.
Qed.

Theorem tw_numpy_passes_checker sr ws : spec_tw sr ws (tw_numpy sr ws) = true.
Proof. unfold spec_tw, tw_numpy. apply match_sorted_model; [apply sort_w_sorted|apply sort_w_perm]. Qed.

Theorem tw_loop_passes_checker sr ws : spec_tw sr ws (tw_loop sr ws) = true.
Proof. rewrite tw_variants. apply tw_numpy_passes_checker. Qed.
