(* C20 — quantitative BINARY64 error bound for voltage_to_uint16 (round 3; Flocq, same model as ProofsFloat.v).
     RN_err               |x| <= B, 2^-1022 <= B                     ->  |RN x - x| <= B * 2^-53
     fscaled_error        2^-500 <= amp <= 2^500, |v - off| <= amp, 1 <= res <= 16
                                                                      ->  |float scaled voltage - exact scaled voltage| <= 2^-30
     Znearest_close       |x - y| < 1                                ->  |ZnearestE x - ZnearestE y| <= 1
     fcode_within_one     same hypotheses                            ->  |fcode - code1| <= 1, and the float code is within
                                                                         1/2 + 2^-30 of the exact scaled voltage (the tolerance of
                                                                         the harness' decimal stream), and equal to code1 unless a
                                                                         half-way point lies within 2^-30 of the exact scaled voltage *)
From Coq Require Import ZArith QArith Qround Qreals Reals Lra Lia Psatz.
From Flocq Require Import Core.
Require Import QV.C20.Model QV.C20.ProofsFloat.
Open Scope R_scope.

Definition u53 : R := bpow radix2 (-53).

Lemma u53_val : u53 = / 9007199254740992.
Proof. unfold u53. change (bpow radix2 (-53)) with (/ IZR (Z.pow_pos 2 53)). f_equal. Qed.

Lemma bpow_m30_val : bpow radix2 (-30) = / 1073741824.
Proof. change (bpow radix2 (-30)) with (/ IZR (Z.pow_pos 2 30)). f_equal. Qed.

Lemma RN_err x B : Rabs x <= B -> bpow radix2 (-1022) <= B -> Rabs (RN x - x) <= B * u53.
Proof.
  intros Hx HB. unfold RN.
  eapply Rle_trans; [apply error_le_half_ulp; [apply FLT_exp_valid; reflexivity]|].
  assert (HB0 : 0 < B) by (eapply Rlt_le_trans; [apply (bpow_gt_0 radix2 (-1022))|exact HB]).
  assert (Hu : ulp radix2 fexp x <= ulp radix2 fexp B).
  { apply ulp_le; [apply FLT_exp_valid; reflexivity|apply FLT_exp_monotone|]. rewrite (Rabs_pos_eq B) by lra. exact Hx. }
  assert (HuB : ulp radix2 fexp B <= Rabs B * bpow radix2 (1 - 53)).
  { apply (ulp_FLT_le radix2 (-1074) 53). rewrite Rabs_pos_eq by lra.
    replace (-1074 + 53 - 1)%Z with (-1022)%Z by reflexivity. exact HB. }
  rewrite Rabs_pos_eq in HuB by lra.
  replace (bpow radix2 (1 - 53)) with (2 * u53) in HuB.
  - lra.
  - unfold u53. replace (1 - 53)%Z with (1 + -53)%Z by reflexivity. rewrite bpow_plus. reflexivity.
Qed.

Lemma Znearest_close x y : Rabs (x - y) < 1 -> (Z.abs (ZnearestE x - ZnearestE y) <= 1)%Z.
Proof.
  intro H.
  pose proof (Znearest_half (fun z => negb (Z.even z)) x) as Hx.
  pose proof (Znearest_half (fun z => negb (Z.even z)) y) as Hy.
  apply Rabs_le_inv in Hx. apply Rabs_le_inv in Hy. apply Rabs_def2 in H.
  assert (H1 : IZR (ZnearestE x - ZnearestE y) < 2) by (rewrite minus_IZR; lra).
  assert (H2 : -2 < IZR (ZnearestE x - ZnearestE y)) by (rewrite minus_IZR; lra).
  apply lt_IZR in H1. apply lt_IZR in H2. lia.
Qed.

(* 1/(1+d) is within 2|d| of 1 for small d *)
Lemma inv_1p d e : Rabs d <= e -> e <= / 4 -> Rabs (/ (1 + d) - 1) <= 2 * e.
Proof.
  intros Hd He. apply Rabs_le_inv in Hd.
  assert (Hp : 0 < 1 + d) by lra.
  replace (/ (1 + d) - 1) with (- d * / (1 + d)) by (field; lra).
  assert (Hi : 0 < / (1 + d)) by (apply Rinv_0_lt_compat; exact Hp).
  assert (Hi2 : / (1 + d) <= 2).
  { replace 2 with (/ / 2) by field. apply Rinv_le_contravar; lra. }
  apply Rabs_le. split; nra.
Qed.

Section Bound.
Variables amp off v : R.
Variable res : Z.
Hypothesis Hamp_lo : bpow radix2 (-500) <= amp.
Hypothesis Hamp_hi : amp <= bpow radix2 500.
Hypothesis Hv : Rabs (v - off) <= amp.
Hypothesis Hres : (1 <= res <= 16)%Z.

Let M : R := IZR (2 ^ res - 1).
Let u := u53.

Lemma M_bounds : 1 <= M <= 65535.
Proof.
  unfold M. assert (2 ^ 1 <= 2 ^ res)%Z by (apply Z.pow_le_mono_r; lia).
  assert (2 ^ res <= 2 ^ 16)%Z by (apply Z.pow_le_mono_r; lia).
  split; apply IZR_le; change (2 ^ 1)%Z with 2%Z in *; change (2 ^ 16)%Z with 65536%Z in *; lia.
Qed.

Lemma u_small : 0 < u /\ u <= / 1000000000000000.
Proof. unfold u. rewrite u53_val. split; lra. Qed.

Lemma amp_pos : 0 < amp.
Proof. eapply Rlt_le_trans; [apply (bpow_gt_0 radix2 (-500))|exact Hamp_lo]. Qed.

Lemma bpow_m1022_le_m500 : bpow radix2 (-1022) <= bpow radix2 (-500).
Proof. apply bpow_le. lia. Qed.

(* x = v - off;  a = RN x;  b = RN (a + amp) *)
Lemma step_a : Rabs (RN (v - off) - (v - off)) <= amp * u.
Proof. apply RN_err; [exact Hv|]. pose proof bpow_m1022_le_m500. lra. Qed.

Lemma step_b : Rabs (RN (RN (v - off) + amp) - ((v - off) + amp)) <= 4 * amp * u.
Proof.
  pose proof step_a as Ha. pose proof u_small as [Hu0 Hu1]. pose proof amp_pos as Hap.
  set (x := v - off) in *. set (a := RN x) in *.
  assert (Hb : Rabs (RN (a + amp) - (a + amp)) <= (3 * amp) * u).
  { apply RN_err.
    - apply Rabs_le_inv in Ha. pose proof Hv as Hv'. fold x in Hv'. apply Rabs_le_inv in Hv'. apply Rabs_le. split; nra.
    - pose proof bpow_m1022_le_m500. lra. }
  apply Rabs_le_inv in Ha. apply Rabs_le_inv in Hb. apply Rabs_le. split; lra.
Qed.

(* scale:  d = RN (2 amp);  s = RN (M / d);  S = M / (2 amp) *)
Lemma step_s : Rabs (fscale amp res - M / (2 * amp)) <= 5 * (M / (2 * amp)) * u.
Proof.
  pose proof u_small as [Hu0 Hu1]. pose proof amp_pos as Hap. pose proof M_bounds as [HM1 HM2].
  unfold fscale. fold M. set (S := M / (2 * amp)).
  assert (HS : 0 < S) by (unfold S; apply Rdiv_lt_0_compat; lra).
  assert (Hd : Rabs (RN (2 * amp) - 2 * amp) <= (2 * amp) * u).
  { apply RN_err; [rewrite Rabs_pos_eq; lra|]. pose proof bpow_m1022_le_m500. lra. }
  set (d := RN (2 * amp)) in *.
  set (dl := (d - 2 * amp) / (2 * amp)).
  assert (Hdl : Rabs dl <= u).
  { unfold dl, Rdiv. rewrite Rabs_mult, (Rabs_pos_eq (/ (2 * amp))) by (left; apply Rinv_0_lt_compat; lra).
    apply Rmult_le_reg_r with (2 * amp); [lra|]. rewrite Rmult_assoc, Rinv_l by lra. lra. }
  assert (Ed : d = 2 * amp * (1 + dl)) by (unfold dl; field; lra).
  assert (Hinv : Rabs (/ (1 + dl) - 1) <= 2 * u) by (apply inv_1p; [exact Hdl|lra]).
  assert (Es0 : M / d = S * / (1 + dl)).
  { rewrite Ed. unfold S. apply Rabs_le_inv in Hdl. field. split; lra. }
  rewrite Es0. set (q := / (1 + dl)) in *.
  assert (Hq : Rabs (S * q - S) <= 2 * S * u).
  { replace (S * q - S) with (S * (q - 1)) by ring. rewrite Rabs_mult, (Rabs_pos_eq S) by lra. nra. }
  assert (Hs : Rabs (RN (S * q) - S * q) <= (2 * S) * u).
  { apply RN_err.
    - apply Rabs_le_inv in Hq. apply Rabs_le. split; nra.
    - (* 2 S = M / amp >= 1 / 2^500 *)
      apply Rle_trans with (bpow radix2 (-500)); [apply bpow_le; lia|].
      unfold S. replace (2 * (M / (2 * amp))) with (M / amp) by (field; lra).
      apply Rle_trans with (/ amp).
      + change (bpow radix2 (-500)) with (/ bpow radix2 500). apply Rinv_le_contravar; lra.
      + unfold Rdiv. assert (0 < / amp) by (apply Rinv_0_lt_compat; lra). nra. }
  apply Rabs_le_inv in Hq. apply Rabs_le_inv in Hs. apply Rabs_le. split; nra.
Qed.

Theorem fscaled_error :
  Rabs (RN (RN (RN (v - off) + amp) * fscale amp res) - xscaled amp off res v) <= bpow radix2 (-30).
Proof.
  pose proof u_small as [Hu0 Hu1]. pose proof amp_pos as Hap. pose proof M_bounds as [HM1 HM2].
  pose proof step_b as Hb. pose proof step_s as Hs.
  unfold xscaled. fold M. set (S := M / (2 * amp)) in *.
  assert (HS : 0 < S) by (unfold S; apply Rdiv_lt_0_compat; lra).
  assert (HaS : amp * S = M / 2) by (unfold S; field; lra).
  set (b := RN (RN (v - off) + amp)) in *. set (s := fscale amp res) in *.
  set (w := (v - off) + amp) in *.
  assert (Hw : 0 <= w <= 2 * amp) by (unfold w; apply Rabs_le_inv in Hv; lra).
  apply Rabs_le_inv in Hb. apply Rabs_le_inv in Hs.
  (* |b s - w S| <= 4 amp u * s + w * 5 S u <= 4 amp u S (1 + 5u) + 10 amp S u <= 15 amp S u = 7.5 M u *)
  assert (Hp : Rabs (b * s - w * S) <= 8 * M * u).
  { replace (b * s - w * S) with ((b - w) * s + w * (s - S)) by ring.
    assert (Hsb : 0 <= s <= 2 * S) by (split; nra).
    apply Rabs_le. split.
    - assert ((b - w) * s >= - (4 * amp * u) * (2 * S)) by nra.
      assert (w * (s - S) >= - (2 * amp) * (5 * S * u)) by nra.
      replace (8 * M * u) with (16 * (amp * S) * u) by (rewrite HaS; field). nra.
    - assert ((b - w) * s <= (4 * amp * u) * (2 * S)) by nra.
      assert (w * (s - S) <= (2 * amp) * (5 * S * u)) by nra.
      replace (8 * M * u) with (16 * (amp * S) * u) by (rewrite HaS; field). nra. }
  assert (HwS : 0 <= w * S <= M).
  { split; [nra|]. replace M with (2 * (amp * S)) by (rewrite HaS; field). nra. }
  assert (Hr : Rabs (RN (b * s) - b * s) <= (2 * M) * u).
  { apply RN_err.
    - apply Rabs_le_inv in Hp. apply Rabs_le. split; nra.
    - apply Rle_trans with (bpow radix2 0); [apply bpow_le; lia|]. cbn. lra. }
  apply Rabs_le_inv in Hp. apply Rabs_le_inv in Hr.
  assert (Hfin : 10 * M * u <= bpow radix2 (-30)).
  { unfold u. rewrite u53_val. rewrite bpow_m30_val. lra. }
  apply Rabs_le. split; lra.
Qed.
End Bound.

Lemma bpow_m30_lt_half : bpow radix2 (-30) < / 2.
Proof. rewrite bpow_m30_val. lra. Qed.

Theorem fcode_within_one (amp off v : Q) res :
  bpow radix2 (-500) <= Q2R amp <= bpow radix2 500 -> Rabs (Q2R v - Q2R off) <= Q2R amp -> (1 <= res <= 16)%Z ->
  let y := xscaled (Q2R amp) (Q2R off) res (Q2R v) in
  let c := fcode (Q2R amp) (Q2R off) res (Q2R v) in
  (Z.abs (c - code1 amp off res v) <= 1)%Z
  /\ Rabs (IZR c - y) <= / 2 + bpow radix2 (-30)
  /\ ((forall k : Z, ~ (Rabs (y - (IZR k + / 2)) <= bpow radix2 (-30))) -> c = code1 amp off res v).
Proof.
  intros [Hlo Hhi] Hv Hres y c.
  assert (Hne : ~ (amp == 0)%Q).
  { intro E. apply Qeq_eqR in E. replace (Q2R 0) with 0 in E by (unfold Q2R; cbn; lra).
    pose proof (bpow_gt_0 radix2 (-500)). lra. }
  pose proof (fscaled_error (Q2R amp) (Q2R off) (Q2R v) res Hlo Hhi Hv Hres) as He.
  set (y' := RN (RN (RN (Q2R v - Q2R off) + Q2R amp) * fscale (Q2R amp) res)) in *. fold y in He.
  assert (Ec : code1 amp off res v = ZnearestE y).
  { unfold code1. rewrite rint_is_ZnearestE, (Q2R_xscaled amp off v res Hne). reflexivity. }
  assert (Ecf : c = ZnearestE y') by reflexivity.
  pose proof bpow_m30_lt_half as H30.
  split; [|split].
  - rewrite Ec, Ecf. apply Znearest_close. lra.
  - rewrite Ecf. pose proof (Znearest_half (fun z => negb (Z.even z)) y') as Hh.
    apply Rabs_le_inv in Hh. apply Rabs_le_inv in He. apply Rabs_le. split; lra.
  - intro Hno. rewrite Ec, Ecf. symmetry. apply Znearest_stable. intros k [H1 H2]. apply (Hno k).
    apply Rabs_le_inv in He. apply Rabs_le.
    destruct (Rle_or_lt y y') as [L|L].
    + rewrite Rmin_left, Rmax_right in * by lra. split; lra.
    + rewrite Rmin_right, Rmax_left in * by lra. split; lra.
Qed.
