(* C20 — proofs about rounding and the voltage -> code conversion. *)
From Coq Require Import ZArith QArith Qround Qabs Bool List Lia Lqa Qfield.
Require Import QV.C20.Model.
Open Scope Q_scope.

Lemma rint_cases q : let f := Qfloor q in
  (q - inject_Z f < 1#2 /\ rint q = f) \/ (q - inject_Z f > 1#2 /\ rint q = (f+1)%Z) \/
  (q - inject_Z f == 1#2 /\ rint q = (if Z.even f then f else (f+1)%Z)).
Proof.
  intro f. unfold rint. fold f.
  destruct (q - inject_Z f ?= 1#2) eqn:E.
  - right; right. split; [apply Qeq_alt; exact E|reflexivity].
  - left. split; [apply Qlt_alt; exact E|reflexivity].
  - right; left. split; [apply Qgt_alt; exact E|reflexivity].
Qed.

Lemma inj_succ z : inject_Z (z + 1) == inject_Z z + 1.
Proof. rewrite inject_Z_plus. reflexivity. Qed.

Lemma floor_bounds q : inject_Z (Qfloor q) <= q /\ q < inject_Z (Qfloor q) + 1.
Proof. split; [apply Qfloor_le|]. rewrite <- inj_succ. apply Qlt_floor. Qed.

Lemma rint_near q : Qabs (q - inject_Z (rint q)) <= 1#2.
Proof.
  apply Qabs_Qle_condition.
  pose proof (floor_bounds q) as [H1 H2].
  destruct (rint_cases q) as [[H ->]|[[H ->]|[H ->]]].
  - split; lra.
  - rewrite inj_succ. split; lra.
  - destruct (Z.even (Qfloor q)); [|rewrite inj_succ]; split; lra.
Qed.

Lemma even_succ_flip f : Z.even f = false -> Z.even (f + 1) = true.
Proof. intro H. rewrite Z.add_1_r, Z.even_succ, <- Z.negb_even, H. reflexivity. Qed.

Lemma rint_tie_even q : Qabs (q - inject_Z (rint q)) == 1#2 -> Z.even (rint q) = true.
Proof.
  pose proof (floor_bounds q) as [H1 H2].
  destruct (rint_cases q) as [[H ->]|[[H ->]|[H ->]]]; intro A.
  - rewrite Qabs_pos in A by lra. lra.
  - rewrite inj_succ in A. rewrite Qabs_neg in A by lra. lra.
  - destruct (Z.even (Qfloor q)) eqn:E; [exact E|apply even_succ_flip; exact E].
Qed.

Lemma even_succ_contra a : Z.even a = true -> Z.even (a + 1) = true -> False.
Proof. intros H1 H2. rewrite Z.add_1_r, Z.even_succ, <- Z.negb_even, H1 in H2. discriminate. Qed.

Lemma nearest_even_lt_absurd x a b : (a < b)%Z ->
  Qabs (x - inject_Z a) <= 1#2 -> (Qabs (x - inject_Z a) == 1#2 -> Z.even a = true) ->
  Qabs (x - inject_Z b) <= 1#2 -> (Qabs (x - inject_Z b) == 1#2 -> Z.even b = true) -> False.
Proof.
  intros L A1 A2 B1 B2.
  apply Qabs_Qle_condition in A1. apply Qabs_Qle_condition in B1.
  assert (Hb : inject_Z a + 1 <= inject_Z b) by (rewrite <- inj_succ, <- Zle_Qle; lia).
  assert (Xa : x - inject_Z a == 1#2) by lra. assert (Xb : x - inject_Z b == -(1#2)) by lra.
  assert (Ea : Z.even a = true) by (apply A2; rewrite Xa; reflexivity).
  assert (Eb : Z.even b = true) by (apply B2; rewrite Xb; reflexivity).
  assert (b = (a + 1)%Z).
  { assert (inject_Z b <= inject_Z (a+1)) by (rewrite inj_succ; lra). rewrite <- Zle_Qle in H. lia. }
  subst b. exact (even_succ_contra a Ea Eb).
Qed.

Lemma nearest_even_unique x a b :
  Qabs (x - inject_Z a) <= 1#2 -> (Qabs (x - inject_Z a) == 1#2 -> Z.even a = true) ->
  Qabs (x - inject_Z b) <= 1#2 -> (Qabs (x - inject_Z b) == 1#2 -> Z.even b = true) -> a = b.
Proof.
  intros A1 A2 B1 B2.
  destruct (Z.lt_trichotomy a b) as [L|[E|L]]; [|exact E|]; exfalso.
  - eapply (nearest_even_lt_absurd x a b); eauto.
  - eapply (nearest_even_lt_absurd x b a); eauto.
Qed.

Lemma rint_unique x z :
  Qabs (x - inject_Z z) <= 1#2 -> (Qabs (x - inject_Z z) == 1#2 -> Z.even z = true) -> rint x = z.
Proof. intros. eapply nearest_even_unique; eauto using rint_near, rint_tie_even. Qed.

Lemma rint_compat x y : x == y -> rint x = rint y.
Proof.
  intro E. apply rint_unique.
  - rewrite E. apply rint_near.
  - rewrite E. apply rint_tie_even.
Qed.

Lemma rint_inject z : rint (inject_Z z) = z.
Proof.
  apply rint_unique.
  - setoid_replace (inject_Z z - inject_Z z) with 0 by ring. cbn. discriminate.
  - setoid_replace (inject_Z z - inject_Z z) with 0 by ring. cbn. discriminate.
Qed.

Lemma rint_mono x y : x <= y -> (rint x <= rint y)%Z.
Proof.
  intro L. destruct (Z.le_gt_cases (rint x) (rint y)) as [H|H]; [exact H|exfalso].
  pose proof (rint_near x) as A1. pose proof (rint_near y) as B1.
  apply Qabs_Qle_condition in A1. apply Qabs_Qle_condition in B1.
  assert (Hb : inject_Z (rint y) + 1 <= inject_Z (rint x)) by (rewrite <- inj_succ, <- Zle_Qle; lia).
  assert (Xa : x - inject_Z (rint x) == -(1#2)) by lra.
  assert (Xb : y - inject_Z (rint y) == 1#2) by lra.
  assert (Ea : Z.even (rint x) = true) by (apply rint_tie_even; rewrite Xa; reflexivity).
  assert (Eb : Z.even (rint y) = true) by (apply rint_tie_even; rewrite Xb; reflexivity).
  assert (rint x = (rint y + 1)%Z).
  { assert (inject_Z (rint x) <= inject_Z (rint y + 1)) by (rewrite inj_succ; lra). rewrite <- Zle_Qle in H0. lia. }
  rewrite H0 in Ea. exact (even_succ_contra _ Eb Ea).
Qed.
Definition Mres (res : Z) : Z := (2 ^ res - 1)%Z.
Lemma Mres_pos res : (1 <= res)%Z -> (1 <= Mres res)%Z.
Proof. intro H. unfold Mres. assert (2 ^ 1 <= 2 ^ res)%Z by (apply Z.pow_le_mono_r; lia). lia. Qed.

Definition scaled (amp off : Q) (res : Z) (v : Q) : Q := ((v - off) + amp) * vscale amp res.

Lemma vscale_nonneg amp res : 0 < amp -> (1 <= res)%Z -> 0 <= vscale amp res.
Proof.
  intros Ha Hr. unfold vscale. fold (Mres res).
  apply Qle_shift_div_l; [lra|]. rewrite Qmult_0_l.
  change 0 with (inject_Z 0). rewrite <- Zle_Qle. pose proof (Mres_pos res Hr). lia.
Qed.

Lemma scaled_mono amp off res v1 v2 : 0 < amp -> (1 <= res)%Z -> v1 <= v2 -> scaled amp off res v1 <= scaled amp off res v2.
Proof.
  intros Ha Hr L. unfold scaled. apply Qmult_le_compat_r; [lra|apply vscale_nonneg; assumption].
Qed.

Lemma code_monotone amp off res v1 v2 : 0 < amp -> (1 <= res)%Z -> v1 <= v2 -> (code1 amp off res v1 <= code1 amp off res v2)%Z.
Proof. intros. apply rint_mono. apply scaled_mono; assumption. Qed.

Lemma code_lo amp off res : 0 < amp -> code1 amp off res (off - amp) = 0%Z.
Proof.
  intros Ha. unfold code1. rewrite (rint_compat _ (inject_Z 0)); [apply rint_inject|].
  setoid_replace (off - amp - off + amp) with 0 by ring. ring.
Qed.

Lemma code_hi amp off res : 0 < amp -> code1 amp off res (off + amp) = Mres res.
Proof.
  intros Ha. unfold code1. rewrite (rint_compat _ (inject_Z (Mres res))); [apply rint_inject|].
  unfold vscale. fold (Mres res). field. lra.
Qed.

Lemma code_range amp off res v : 0 < amp -> (1 <= res)%Z -> off - amp <= v -> v <= off + amp ->
  (0 <= code1 amp off res v <= Mres res)%Z.
Proof.
  intros Ha Hr L U. rewrite <- (code_lo amp off res Ha), <- (code_hi amp off res Ha).
  split; apply code_monotone; assumption.
Qed.

Definition vstep (amp : Q) (res : Z) : Q := ((2 # 1) * amp) / inject_Z (Mres res).

Lemma code_error amp off res v : 0 < amp -> (1 <= res)%Z ->
  Qabs (inject_Z (code1 amp off res v) * vstep amp res - (v - (off - amp))) <= vstep amp res / (2 # 1).
Proof.
  intros Ha Hr.
  assert (HM : 0 < inject_Z (Mres res)).
  { change 0 with (inject_Z 0). rewrite <- Zlt_Qlt. pose proof (Mres_pos res Hr). lia. }
  assert (Hs : 0 < vstep amp res).
  { unfold vstep. apply Qlt_shift_div_l; [exact HM|]. lra. }
  set (y := scaled amp off res v).
  assert (E : v - (off - amp) == y * vstep amp res).
  { unfold y, scaled, vscale, vstep. fold (Mres res). field. split; lra. }
  rewrite E. change (code1 amp off res v) with (rint y).
  setoid_replace (inject_Z (rint y) * vstep amp res - y * vstep amp res) with (- ((y - inject_Z (rint y)) * vstep amp res)) by ring.
  rewrite Qabs_opp, Qabs_Qmult, (Qabs_pos (vstep amp res)) by lra.
  pose proof (rint_near y) as N.
  setoid_replace (vstep amp res / (2#1)) with ((1#2) * vstep amp res) by field.
  apply Qmult_le_compat_r; [exact N|lra].
Qed.

Lemma out_of_range_spec amp off v : out_of_range amp off v = true <-> amp < Qabs (v - off).
Proof.
  unfold out_of_range. rewrite negb_true_iff. split; intro H.
  - apply Qnot_le_lt. intro C. apply Qle_bool_iff in C. congruence.
  - destruct (Qle_bool (Qabs (v - off)) amp) eqn:E; [|reflexivity]. apply Qle_bool_iff in E. lra.
Qed.

Lemma volt_numpy_rejects amp off res vs :
  volt_numpy amp off res vs = OErr <-> exists v, In v vs /\ amp < Qabs (v - off).
Proof.
  unfold volt_numpy. destruct (existsb (out_of_range amp off) vs) eqn:E.
  - split; [intros _|reflexivity]. apply existsb_exists in E as [v [Hi Ho]]. exists v. split; [exact Hi|apply out_of_range_spec; exact Ho].
  - split; [discriminate|]. intros [v [Hi Ho]]. exfalso.
    assert (existsb (out_of_range amp off) vs = true) by (apply existsb_exists; exists v; split; [exact Hi|apply out_of_range_spec; exact Ho]). congruence.
Qed.

Lemma volt_numpy_accepts amp off res vs :
  (forall v, In v vs -> Qabs (v - off) <= amp) -> volt_numpy amp off res vs = ORet (map (code1 amp off res) vs).
Proof.
  intro H. unfold volt_numpy. destruct (existsb (out_of_range amp off) vs) eqn:E; [|reflexivity].
  apply existsb_exists in E as [v [Hi Ho]]. apply out_of_range_spec in Ho. specialize (H v Hi). lra.
Qed.

Lemma volt_loop_go_spec amp off res vs flag acc :
  volt_loop_go amp off res vs flag acc = (flag || existsb (out_of_range amp off) vs, rev acc ++ map (code1 amp off res) vs).
Proof.
  revert flag acc. induction vs as [|v r IH]; intros; cbn.
  - rewrite orb_false_r, app_nil_r. reflexivity.
  - rewrite IH. cbn. rewrite <- app_assoc. cbn. f_equal.
    destruct (out_of_range amp off v); cbn; [rewrite orb_true_r; reflexivity|reflexivity].
Qed.

Lemma volt_variants amp off res vs : volt_loop amp off res vs = volt_numpy amp off res vs.
Proof.
  unfold volt_loop, volt_numpy. rewrite volt_loop_go_spec. cbn. destruct (existsb _ vs); reflexivity.
Qed.

(* non-vacuity: the hypotheses 0 < amp, 1 <= res are satisfiable and the functions compute the documented values *)
Example code_example : 0 < 1 /\ (1 <= 14)%Z /\ code1 1 0 14 (1 # 2) = 12287%Z /\ code1 1 0 14 0 = 8192%Z
                       /\ code1 1 0 1 0 = 0%Z /\ volt_numpy 1 0 14 (0 :: (3 # 2) :: nil) = OErr.
Proof. vm_compute. repeat split; try reflexivity; try (intro; discriminate). Qed.
