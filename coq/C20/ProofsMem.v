(* C20 — the flat sample memory of ProgramEntry._sample_waveforms: a segment that was written reads back unchanged, and
   later writes to segments further right do not disturb it (the two facts the views rely on). *)
From Coq Require Import ZArith Bool List Lia.
Require Import QV.C20.Model.
Import ListNotations.
Open Scope nat_scope.

Lemma write_at_length {A} (row : list A) pos xs : pos + length xs <= length row -> length (write_at row pos xs) = length row.
Proof. intro H. unfold write_at. rewrite !app_length, firstn_length, skipn_length. lia. Qed.

Lemma read_own_write {A} (row : list A) pos xs : pos + length xs <= length row ->
  firstn (length xs) (skipn pos (write_at row pos xs)) = xs.
Proof.
  intro H. unfold write_at.
  assert (L : length (firstn pos row) = pos) by (rewrite firstn_length; lia).
  rewrite skipn_app, L, Nat.sub_diag. rewrite skipn_all2 by lia. cbn [skipn app].
  rewrite firstn_app, Nat.sub_diag, firstn_all. cbn [firstn]. apply app_nil_r.
Qed.

Lemma read_left_of_write {A} (row : list A) pos xs pos2 n2 : pos2 + n2 <= pos -> pos + length xs <= length row ->
  firstn n2 (skipn pos2 (write_at row pos xs)) = firstn n2 (skipn pos2 row).
Proof.
  intros H1 H2. unfold write_at.
  assert (L : length (firstn pos row) = pos) by (rewrite firstn_length; lia).
  rewrite skipn_app, L. replace (pos2 - pos) with 0 by lia. cbn [skipn].
  rewrite firstn_app, skipn_length, L. replace (n2 - (pos - pos2)) with 0 by lia. cbn [firstn]. rewrite app_nil_r.
  rewrite skipn_firstn_comm, firstn_firstn. replace (Nat.min n2 (pos - pos2)) with n2 by lia. reflexivity.
Qed.
