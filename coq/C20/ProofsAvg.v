(* C20 — average_windows: on a sorted time axis the numpy variant computes the mean over begin <= t < end;
   the loop variant does not for nested windows (witness). *)
From Coq Require Import ZArith QArith Qround Qabs Bool List Lia ZifyBool Lqa Sorted.
Require Import QV.common.Util QV.C20.Model QV.C20.Spec.
Import ListNotations.
Open Scope Q_scope.

Definition in_win (w : Q * Q) (s : Q * list Q) : bool := Qle_bool (fst w) (fst s) && negb (Qle_bool (snd w) (fst s)).

Lemma filter_past_end w : forall r (vr : list (list Q)),
  Forall (fun t2 => snd w <= t2) r -> filter (in_win w) (combine r vr) = [].
Proof.
  induction r as [|t2 r IH]; intros vr H; [reflexivity|]. destruct vr as [|v vr]; [reflexivity|].
  inversion H as [|? ? H1 H2]; subst. cbn [combine filter]. unfold in_win at 1. cbn [fst].
  apply Qle_bool_iff in H1. rewrite H1, andb_false_r. apply IH. exact H2.
Qed.

Lemma ss_left_0 r b t : b <= t -> Forall (Qle t) r -> ss_left r b = O.
Proof.
  intros L H. destruct r as [|t2 r]; [reflexivity|]. inversion H; subst. cbn.
  assert (Qle_bool b t2 = true) as -> by (apply Qle_bool_iff; lra). reflexivity.
Qed.

Lemma slice_sorted w : forall time (values : list (list Q)),
  StronglySorted Qle time -> length values = length time ->
  slice values (ss_left time (fst w)) (ss_left time (snd w)) = map snd (filter (in_win w) (combine time values)).
Proof.
  destruct w as [b e]. cbn [fst snd].
  induction time as [|t r IH]; intros values S L.
  - destruct values; [reflexivity|discriminate].
  - destruct values as [|v vr]; [discriminate|]. injection L as L.
    inversion S as [|? ? Sr Hall]; subst.
    cbn [ss_left combine filter]. unfold in_win at 1. cbn [fst snd].
    destruct (Qle_bool b t) eqn:Eb; destruct (Qle_bool e t) eqn:Ee; cbn [andb negb].
    + (* window already over *)
      rewrite filter_past_end; [reflexivity|]. apply Qle_bool_iff in Ee.
      eapply Forall_impl; [|exact Hall]. cbn. intros; lra.
    + (* t is inside, and so is everything after it that is below e *)
      cbn [map snd]. specialize (IH vr Sr L). apply Qle_bool_iff in Eb.
      rewrite (ss_left_0 r b t Eb Hall) in IH. rewrite <- IH.
      unfold slice. cbn [skipn]. rewrite !Nat.sub_0_r. reflexivity.
    + rewrite filter_past_end; [|apply Qle_bool_iff in Ee; eapply Forall_impl; [|exact Hall]; cbn; intros; lra].
      unfold slice. cbn. reflexivity.
    + rewrite <- (IH vr Sr L). unfold slice. cbn [skipn Nat.sub]. reflexivity.
Qed.

Lemma ss_left_le time x : (ss_left time x <= length time)%nat.
Proof. induction time as [|t r IH]; cbn; [lia|]. destruct (Qle_bool x t); lia. Qed.

Lemma slice_length {A} (l : list A) a b : (b <= length l)%nat -> length (slice l a b) = (b - a)%nat.
Proof. intro H. unfold slice. rewrite firstn_length, skipn_length. lia. Qed.

Theorem avg_numpy_is_spec nch time values ws :
  Sorted Qle time -> length values = length time -> avg_numpy nch time values ws = spec_avg nch time values ws.
Proof.
  intros S L. apply Sorted_StronglySorted in S; [|intros a b c; apply Qle_trans].
  unfold avg_numpy, spec_avg. apply map_ext. intro w.
  unfold avg_numpy_one, spec_avg_one.
  change (fun s : Q * list Q => Qle_bool (fst w) (fst s) && negb (Qle_bool (snd w) (fst s))) with (in_win w).
  pose proof (slice_sorted w time values S L) as E.
  pose proof (slice_length values (ss_left time (fst w)) (ss_left time (snd w))) as Len.
  rewrite L in Len. specialize (Len (ss_left_le time (snd w))).
  set (s := ss_left time (fst w)) in *. set (e := ss_left time (snd w)) in *.
  set (sel := filter (in_win w) (combine time values)) in *.
  rewrite E in Len. rewrite map_length in Len. rewrite E.
  destruct (s <? e)%nat eqn:C.
  - apply Nat.ltb_lt in C. destruct sel as [|x sel']; [cbn in Len; lia|].
    unfold finalize. rewrite <- Len.
    replace (Z.of_nat (length (x :: sel')) =? 0)%Z with false by (cbn [length]; lia). reflexivity.
  - apply Nat.ltb_ge in C. destruct sel as [|x sel']; [reflexivity|cbn in Len; lia].
Qed.

(* the loop variant closes windows strictly in order: a window nested in an earlier, longer one keeps collecting *)
Definition avg_witness_time : list Q := [0; 1; 2; 3; 4].
Definition avg_witness_values : list (list Q) := [[1]; [-2]; [3]; [0]; [2]].
Definition avg_witness_windows : list (Q * Q) := [(0, 5); (2, 3)].

Theorem avg_variants_refuted :
  avg_eqb (avg_loop 1 avg_witness_time avg_witness_values avg_witness_windows)
          (avg_numpy 1 avg_witness_time avg_witness_values avg_witness_windows) = false.
Proof. vm_compute. reflexivity. Qed.

(* the guard that excludes the refuted input class: windows sorted by begin and by end *)
Fixpoint guard_C20_average_sorted_windows (ws : list (Q * Q)) : bool :=
  match ws with
  | a :: ((b :: _) as r) => Qle_bool (fst a) (fst b) && Qle_bool (snd a) (snd b) && guard_C20_average_sorted_windows r
  | _ => true
  end.
Example avg_guard_nonvacuous :
  guard_C20_average_sorted_windows [(0, 2); (1, 3); (3, 3)] = true
  /\ avg_eqb (avg_loop 1 avg_witness_time avg_witness_values [(0, 2); (1, 3); (3, 3)])
             (avg_numpy 1 avg_witness_time avg_witness_values [(0, 2); (1, 3); (3, 3)]) = true.
Proof. vm_compute. split; reflexivity. Qed.

(* the full statement; proved since round 2 (ProofsAvg2.avg_variants_equal, Props.C20_average_variants_equal) *)
Definition C20_average_variants_equal_statement : Prop :=
  forall nch time values ws, Sorted Qle time -> length values = length time ->
    Forall (fun row => length row = nch) values ->
    guard_C20_average_sorted_windows ws = true ->
    avg_eqb (avg_loop nch time values ws) (avg_numpy nch time values ws) = true.
