(* C04 — the independent specification: the duration a template denotes at exact (decimal) parameter values.
   Plain rational arithmetic, no number kinds, no programs, no closed forms: sequence = sum, repetition = count x
   body, iteration = sum over the values of the integer range, table = latest entry of any channel, parallel = the common
   duration, mapping = the body at the mapped parameter values (renaming / dropping channels changes nothing).
   `None` = the template has no meaningful duration at these parameters (negative duration or count, non-integer
   count or range bound, zero step, parallel parts of different length, missing parameter): the property demands
   nothing there except that the implementation does not silently produce disagreeing numbers. *)
From Coq Require Import ZArith QArith Qround Qabs Bool List.
Require Import QV.C04.Model.
Import ListNotations.
Open Scope Q_scope.

Definition qenv := list (ident * Q).
Definition qenv_of (e : env) : qenv := map (fun xv => (fst xv, Qred (time_of (snd xv)))) e.

Definition obind {A B} (o : option A) (f : A -> option B) : option B :=
  match o with Some a => f a | None => None end.
Notation "'let?' x := o 'in' k" := (obind o (fun x => k)) (at level 200, x name, o at level 100, k at level 200).

Fixpoint oall {A} (l : list (option A)) : option (list A) :=
  match l with
  | [] => Some []
  | o :: t => let? a := o in let? t' := oall t in Some (a :: t')
  end.

Definition Qmaxq (a b : Q) : Q := if Qleb a b then b else a.

Fixpoint qeval (e : qenv) (x : expr) : option Q :=
  match x with
  | ELit v => Some (time_of v)
  | EVar y => lookup e y
  | EAdd a b => let? u := qeval e a in let? w := qeval e b in Some (u + w)
  | ESub a b => let? u := qeval e a in let? w := qeval e b in Some (u - w)
  | EMul a b => let? u := qeval e a in let? w := qeval e b in Some (u * w)
  | EDivK a k => let? u := qeval e a in Some (u / (Zpos k # 1))
  | EMax a b => let? u := qeval e a in let? w := qeval e b in Some (Qmaxq u w)
  end.

Definition is_int (q : Q) : bool := Qeqb (inject_Z (Qfloor q)) q.
Definition qint (q : Q) : option Z := if is_int q then Some (Qfloor q) else None.

Fixpoint qmax_list (a : Q) (l : list Q) : Q := match l with [] => a | b :: t => qmax_list (Qmaxq a b) t end.

Definition all_eq (d : Q) (l : list Q) : bool := forallb (Qeqb d) l.

Fixpoint den (p : pt) (e : qenv) : option Q :=
  match p with
  | PAtom _ _ d => let? q := qeval e d in if Qleb 0 q then Some q else None
  | PTable chans =>             (* the latest entry over ALL channels, whatever a channel mapping does with them *)
      let? vals := oall (map (fun ts => oall (map (qeval e) ts)) (map snd chans)) in
      if forallb (fun ts => match ts with v :: _ => Qleb 0 v && sortedq ts | [] => false end) vals then
        match map (fun ts => last ts 0) vals with
        | [] => None
        | a :: t => Some (qmax_list a t)
        end
      else None
  | PSeq subs => let? ds := oall (map (fun c => den c e) subs) in Some (qsum ds)
  | PRep c b =>
      let? qc := qeval e c in let? n := qint qc in
      if (n <? 0)%Z then None else if (n =? 0)%Z then Some 0 else
      let? d := den b e in Some (inject_Z n * d)
  | PFor i a b s body =>
      let? qa := qeval e a in let? ia := qint qa in
      let? qb := qeval e b in let? ib := qint qb in
      let? qs := qeval e s in let? is := qint qs in
      if (is =? 0)%Z then None else
      let? ds := oall (map (fun v => den body ((i, Qred (inject_Z v)) :: e)) (zrange ia ib is)) in Some (qsum ds)
  | PMap m _ b =>               (* all right hand sides in the outer environment (simultaneous); channel names,
                                   renamed or dropped, have no influence on how long a template lasts *)
      let? vs := oall (map (fun xe => let? v := qeval e (snd xe) in Some (fst xe, Qred v)) m) in
      den b (vs ++ e)
  | PMulti decl subs =>
      let? ds := oall (map (fun c => den c e) subs) in
      match ds with
      | [] => None
      | d :: t =>
          if all_eq d t then
            match decl with
            | None => Some d
            | Some x => let? dv := qeval e x in if Qeqb dv d then Some d else None
            end
          else None
      end
  | PArith l r =>
      let? dl := den l e in let? dr := den r e in
      if Qeqb dl dr then Some dl else if Qeqb dl 0 then Some dr else if Qeqb dr 0 then Some dl else None
  | PWrap b => den b e
  | PRev b => den b e
  | PConstr _ b => den b e       (* a violated constraint makes the code raise; an error is always acceptable *)
  | PSingle b => den b e         (* rendering a sub-template as one waveform must not change any duration *)
  end.
