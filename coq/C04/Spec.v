(* C04 — the independent specification: the duration a template denotes at exact (decimal) parameter values.
   Plain rational arithmetic, no number kinds, no programs, no closed forms: sequence = sum, repetition = count x
   body, iteration = sum over the values of the integer range, table = latest entry of any channel, parallel = the common
   duration, mapping = the body at the mapped parameter values (renaming / dropping channels changes nothing).
   `None` = the template has no meaningful duration at these parameters (negative duration or count, non-integer
   count or range bound, zero step, parallel parts of different length, missing parameter): the property demands
   nothing there except that the implementation does not silently produce disagreeing numbers. *)
From Coq Require Import ZArith QArith Qround Qabs Bool List.
Require Import QV.C04.Model.
Import ListNotations.
Open Scope Q_scope.

Definition qenv := list (ident * Q).
Definition qenv_of (e : env) : qenv := map (fun xv => (fst xv, Qred (time_of (snd xv)))) e.

Definition obind {A B} (o : option A) (f : A -> option B) : option B :=
  match o with Some a => f a | None => None end.
Notation "'let?' x := o 'in' k" := (obind o (fun x => k)) (at level 200, x name, o at level 100, k at level 200).

Fixpoint oall {A} (l : list (option A)) : option (list A) :=
  match l with
  | [] => Some []
  | o :: t => let? a := o in let? t' := oall t in Some (a :: t')
  end.

Definition Qmaxq (a b : Q) : Q := if Qleb a b then b else a.

Fixpoint qeval (e : qenv) (x : expr) : option Q :=
  match x with
  | ELit v => Some (time_of v)
  | EVar y => lookup e y
  | EAdd a b => let? u := qeval e a in let? w := qeval e b in Some (u + w)
  | ESub a b => let? u := qeval e a in let? w := qeval e b in Some (u - w)
  | EMul a b => let? u := qeval e a in let? w := qeval e b in Some (u * w)
  | EDivK a k => let? u := qeval e a in Some (u / (Zpos k # 1))
  | EMax a b => let? u := qeval e a in let? w := qeval e b in Some (Qmaxq u w)
  end.

Definition is_int (q : Q) : bool := Qeqb (inject_Z (Qfloor q)) q.
Definition qint (q : Q) : option Z := if is_int q then Some (Qfloor q) else None.

Fixpoint qmax_list (a : Q) (l : list Q) : Q := match l with [] => a | b :: t => qmax_list (Qmaxq a b) t end.

Definition all_eq (d : Q) (l : list Q) : bool := forallb (Qeqb d) l.

Fixpoint den (p : pt) (e : qenv) : option Q :=
  match p with
  | PAtom _ _ d => let? q := qeval e d in if Qleb 0 q then Some q else None
  | PTable chans =>             (* the latest entry over ALL channels, whatever a channel mapping does with them *)
      let? vals := oall (map (fun ts => oall (map (qeval e) ts)) (map snd chans)) in
      if forallb (fun ts => match ts with v :: _ => Qleb 0 v && sortedq ts | [] => false end) vals then
        match map (fun ts => last ts 0) vals with
        | [] => None
        | a :: t => Some (qmax_list a t)
        end
      else None
  | PSeq subs => let? ds := oall (map (fun c => den c e) subs) in Some (qsum ds)
  | PRep c b =>
      let? qc := qeval e c in let? n := qint qc in
      if (n <? 0)%Z then None else if (n =? 0)%Z then Some 0 else
      let? d := den b e in Some (inject_Z n * d)
  | PFor i a b s body =>
      let? qa := qeval e a in let? ia := qint qa in
      let? qb := qeval e b in let? ib := qint qb in
      let? qs := qeval e s in let? is := qint qs in
      if (is =? 0)%Z then None else
      let? ds := oall (map (fun v => den body ((i, Qred (inject_Z v)) :: e)) (zrange ia ib is)) in Some (qsum ds)
  | PMap m _ b =>               (* all right hand sides in the outer environment (simultaneous); channel names,
                                   renamed or dropped, have no influence on how long a template lasts *)
      let? vs := oall (map (fun xe => let? v := qeval e (snd xe) in Some (fst xe, Qred v)) m) in
      den b (vs ++ e)
  | PMulti decl subs =>
      let? ds := oall (map (fun c => den c e) subs) in
      match ds with
      | [] => None
      | d :: t =>
          if all_eq d t then
            match decl with
            | None => Some d
            | Some x => let? dv := qeval e x in if Qeqb dv d then Some d else None
            end
          else None
      end
  | PArith l r =>
      let? dl := den l e in let? dr := den r e in
      if Qeqb dl dr then Some dl else if Qeqb dl 0 then Some dr else if Qeqb dr 0 then Some dl else None
  | PWrap b => den b e
  | PRev b => den b e
  | PConstr _ b => den b e       (* a violated constraint makes the code raise; an error is always acceptable *)
  | PSingle b => den b e         (* rendering a sub-template as one waveform must not change any duration *)
  end.

(* ------------------------------------------------------------------------------------------------------------ *)
(* Which inputs the property speaks about ("time-valued parameters are integers or short decimals": exact numbers).
   A static kind analysis of the template, independent of the operational model: every expression gets the kind of number
   it evaluates to, determined from the kinds of the parameters alone.  Binary floating point arithmetic is outside the
   property: an expression in which a float (or a number of a rejected type) is an operand of an arithmetic operation,
   or that divides something that is not a TimeType / by a literal that is not 2, 4, 8 (the literal 1/k is a float in the
   lambdified expression), has kind NX.  A template is in scope iff no expression anywhere in it has kind NX.
   Order of "badness": NT (TimeType) < NI (int) < NF (bare float / rejected type) < NX; Max of an int and a TimeType
   may be either: counted as NI (the worse one: dividing an int is inexact). *)
Inductive nkind := NT | NI | NF | NX.
Definition kind_of (v : value) : nkind :=
  match v with VInt _ => NI | VTime _ => NT | VFloat _ _ => NF | VBad _ => NF end.
Definition karith (a b : nkind) : nkind :=
  match a, b with
  | NI, NI => NI
  | NI, NT | NT, NI | NT, NT => NT
  | _, _ => NX
  end.
Definition kmaxk (a b : nkind) : nkind :=
  match a, b with
  | NT, NT => NT
  | NI, NI | NI, NT | NT, NI => NI
  | _, _ => NX
  end.
Definition kdivk (a : nkind) (k : positive) : nkind :=
  match a with
  | NT => if (Pos.eqb k 2 || Pos.eqb k 4 || Pos.eqb k 8)%bool then NT else NX
  | _ => NX
  end.
Definition kenv := list (ident * nkind).
Fixpoint kexpr (ke : kenv) (x : expr) : nkind :=
  match x with
  | ELit v => kind_of v
  | EVar y => match lookup ke y with Some k => k | None => NT end      (* a missing parameter: no duration at all *)
  | EAdd a b | ESub a b | EMul a b => karith (kexpr ke a) (kexpr ke b)
  | EDivK a k => kdivk (kexpr ke a) k
  | EMax a b => kmaxk (kexpr ke a) (kexpr ke b)
  end.
Definition kok (k : nkind) : bool := match k with NX => false | _ => true end.
Definition kx (ke : kenv) (x : expr) : bool := kok (kexpr ke x).

(* `symbolic` = true: the duration EXPRESSION is analysed (the index of a for-loop is start + k*step, of the kind of
   these expressions); false: the INSTANTIATION (create_program binds the index to a Python int) *)
Fixpoint kscope (symbolic : bool) (ke : kenv) (p : pt) : bool :=
  match p with
  | PAtom _ _ d => kx ke d
  | PTable chans => forallb (forallb (kx ke)) (map snd chans)
  | PSeq subs => forallb (kscope symbolic ke) subs
  | PRep c b => kx ke c && kscope symbolic ke b
  | PFor i a b s body =>
      kx ke a && kx ke b && kx ke s
      && (let ki := if symbolic then karith (kexpr ke a) (karith NI (kexpr ke s)) else NI in
          kok ki && kscope symbolic ((i, ki) :: ke) body)
  | PMap m _ b => forallb (fun xe => kx ke (snd xe)) m
                  && kscope symbolic (map (fun xe => (fst xe, kexpr ke (snd xe))) m ++ ke) b
  | PMulti decl subs => match decl with Some d => kx ke d | None => true end && forallb (kscope symbolic ke) subs
  | PArith l r => kscope symbolic ke l && kscope symbolic ke r
  | PWrap b | PRev b | PSingle b => kscope symbolic ke b
  | PConstr cs b => forallb (fun lr => kx ke (fst lr) && kx ke (snd lr)) cs && kscope symbolic ke b
  end.

(* the kind of the VALUE of the duration expression of a template (the classes add, multiply and take Max of the
   durations of their parts); NX = binary float arithmetic would take part in composing it *)
Fixpoint ksym (ke : kenv) (p : pt) : nkind :=
  match p with
  | PAtom _ _ d => kexpr ke d
  | PTable chans =>
      match map (fun ts => kexpr ke (last_expr ts)) (map snd chans) with
      | [] => NX
      | a :: t => fold_left kmaxk t a
      end
  | PSeq subs => fold_right (fun c s => karith (ksym ke c) s) NI subs
  | PRep c b => karith (kexpr ke c) (ksym ke b)
  | PFor i a b s body =>
      let ki := karith (kexpr ke a) (karith NI (kexpr ke s)) in
      match karith (ksym ((i, ki) :: ke) body) NI with NX => NX | _ => NI end     (* 0 for an empty range: an int *)
  | PMap m _ b => ksym (map (fun xe => (fst xe, kexpr ke (snd xe))) m ++ ke) b
  | PMulti decl subs =>
      match decl with
      | Some d => kexpr ke d
      | None => match subs with c :: _ => ksym ke c | [] => NX end
      end
  | PArith l r => kmaxk (ksym ke l) (ksym ke r)
  | PWrap b | PRev b | PSingle b => ksym ke b
  | PConstr _ b => ksym ke b
  end.

(* a PARAMETER of a rejected type (fractions.Fraction, gmpy2.mpq) is never computed with: evaluation raises.  Its exact
   value is what the specification reads, so such inputs stay in scope (an error is an acceptable answer) *)
Definition kind_of_param (v : value) : nkind := match v with VBad _ => NT | _ => kind_of v end.
Definition kenv_of (e : env) : kenv := map (fun xv => (fst xv, kind_of_param (snd xv))) e.
(* the instantiation is exact: no binary float arithmetic can take part in create_program *)
Definition scope_prog (p : pt) (e : env) : bool := kscope false (kenv_of e) p.
(* the duration expression at the parameters as given (floats = their shortest decimal, a TimeType) is exact *)
Definition scope_sym (p : pt) (e : env) : bool :=
  kscope true (kenv_of (decimalize e)) p && kok (ksym (kenv_of (decimalize e)) p).

(* A duration EXPRESSION has no value at all when it contains a for-loop whose step is zero at the given parameters (the
   closed form divides by the step), even if that loop is never entered (body of an empty range / of a repetition with
   count 0, where the template still denotes the duration 0).  Only then may the implementation report "no rational
   value" for the symbolic duration of a template in scope.  Names bound inside (loop indices at their first value,
   mapped names) get the value of their defining expression, 0 if it has none. *)
Definition qval (qe : qenv) (x : expr) : Q := match qeval qe x with Some q => Qred q | None => 0 end.
Fixpoint zero_step (qe : qenv) (p : pt) : bool :=
  match p with
  | PAtom _ _ _ | PTable _ => false
  | PSeq subs => existsb (zero_step qe) subs
  | PRep _ b => zero_step qe b
  | PFor i a _ s body =>
      match qeval qe s with Some q => Qeqb q 0 | None => true end || zero_step ((i, qval qe a) :: qe) body
  | PMap m _ b => zero_step (map (fun xe => (fst xe, qval qe (snd xe))) m ++ qe) b
  | PMulti _ subs => existsb (zero_step qe) subs
  | PArith l r => zero_step qe l || zero_step qe r
  | PWrap b | PRev b | PSingle b => zero_step qe b
  | PConstr _ b => zero_step qe b
  end.
