(* C04 — the tight guard: the code's four views agree on every input the code accepts outside the finding classes.
   `ideal` = the model with the decimal reading of comparisons and the four ghost switches on.
   1. sim:   on every input, `ideal` either stops at a finding class or behaves exactly like `lax` (switches off);
   2. agree: whatever `ideal` accepts, the symbolic duration equals the program's total (no `den` involved);
   3. with the reading guard g_view this transfers to `real`, the code. *)
From Coq Require Import ZArith QArith Qround Qabs Bool List Lia Lqa Setoid.
Require Import QV.C04.Model QV.C04.Spec QV.C04.Proofs QV.C04.Proofs2.
Import ListNotations.
Open Scope Q_scope.

(* ------------------------------------------------------------------------------------------------------------ *)
(* 1. the switches only add EFinding errors *)
Definition fnd {A} (r : res A) : bool := match r with Err (EFinding _) => true | _ => false end.
Definition simr {A} (r1 r2 : res A) : Prop := fnd r1 = true \/ r1 = r2.

Lemma simr_refl {A} (r : res A) : simr r r.
Proof. right; reflexivity. Qed.

Lemma simr_bind {A B} (r1 r2 : res A) (f1 f2 : A -> res B) :
  simr r1 r2 -> (forall a, simr (f1 a) (f2 a)) -> simr (rbind r1 f1) (rbind r2 f2).
Proof.
  intros [H|H] Hf.
  - left. destruct r1 as [a| |k]; try discriminate. destruct k; try discriminate. reflexivity.
  - subst. destruct r2; cbn; [apply Hf | right; reflexivity | right; reflexivity].
Qed.

Lemma simr_rall {A B} (f g : A -> res B) l :
  Forall (fun c => simr (f c) (g c)) l -> simr (rall (map f l)) (rall (map g l)).
Proof.
  induction 1 as [|c t Hc Ht IH]; cbn; [apply simr_refl|].
  apply simr_bind; [exact Hc|]. intros a. apply simr_bind; [exact IH|]. intros; apply simr_refl.
Qed.

Lemma int_of_sim v : simr (int_of ideal v) (int_of lax v).
Proof.
  destruct v; cbn; try apply simr_refl;
    match goal with |- context [Qltb eps_cast ?x] => destruct (Qltb eps_cast x) end; try apply simr_refl;
    match goal with |- context [negb ?x] => destruct x end; cbn; [apply simr_refl | left; reflexivity | apply simr_refl | left; reflexivity | apply simr_refl | left; reflexivity].
Qed.

(* c1: `ideal` (all switches) or `only FDropped` (one switch) *)
Definition okcfg (c1 : cfg) : Prop := c1 = ideal \/ c1 = only FDropped.
Definition Swf (c1 : cfg) (p : pt) : Prop := forall e, simr (wf_of c1 p e) (wf_of lax p e).
Definition Scp (c1 : cfg) (p : pt) : Prop := forall e, simr (cp c1 p e) (cp lax p e).

Ltac sw := cbn [s_dropped s_negdur s_negcount s_nearint s_parallel cv ideal only lax andb].
Ltac ifs := repeat match goal with |- simr (if ?x then _ else _) _ => destruct x; sw end;
            first [apply simr_refl | left; reflexivity | idtac].

Lemma int_of_sim1 c1 v : okcfg c1 -> simr (int_of c1 v) (int_of lax v).
Proof.
  intros Hc1. destruct Hc1; subst c1; [apply int_of_sim|]. apply simr_refl.
Qed.

Lemma Swf_all c1 (Hc1 : okcfg c1) : forall p, Swf c1 p.
Proof.
  induction p using pt_ind'; unfold Swf; intros e; cbn [wf_of]; try apply simr_refl.
  - (* atom *)
    destruct Hc1; subst c1; sw; (destruct (is_nil (somes chs)); [left; reflexivity|]);
      (destruct (_ && false)%bool; [apply simr_refl|]);
      (apply simr_bind; [apply simr_refl|]); intros v; sw; [|apply simr_refl].
    destruct (Qltb (time_of v) 0); [left; reflexivity | apply simr_refl].
  - (* table *)
    destruct Hc1; subst c1; sw; (destruct (is_nil _); [left; reflexivity | apply simr_refl]).
  - (* map *) apply simr_bind; [apply simr_refl|]. intros e'. apply IHp.
  - (* multi *)
    apply simr_bind.
    + apply simr_rall. eapply Forall_impl; [|exact H]. intros c Hc. apply Hc.
    + intros ws. destruct Hc1; subst c1; (apply simr_bind; [apply simr_refl|]); intros res0; sw; [|apply simr_refl].
      match goal with |- context [negb ?x] => destruct x end; cbn; [apply simr_refl | left; reflexivity].
  - (* arith *)
    apply simr_bind; [apply IHp1|]. intros wl. apply simr_bind; [apply IHp2|]. intros wr.
    destruct wr as [cr|]; [|apply simr_refl]. destruct wl as [cl|]; [|apply simr_refl].
    destruct (isclose (cdur cl) (cdur cr)); [|apply simr_refl].
    destruct Hc1; subst c1; sw; [|apply simr_refl].
    destruct (Qeqb (cdur cl) (cdur cr)); cbn; [apply simr_refl | left; reflexivity].
  - (* wrap *) apply simr_bind; [apply IHp|]. intros; apply simr_refl.
  - (* constr *) destruct Hc1; subst c1; (apply simr_bind; [apply simr_refl|]); intros _; apply IHp.
  - (* single *) apply IHp.
Qed.

Lemma cp_atomic_sim c1 (Hc1 : okcfg c1) p e :
  simr (do w <- wf_of c1 p e; Ok (match w with Some x => [Leaf 1 (map fst x) (cdur x)] | None => [] end))
       (do w <- wf_of lax p e; Ok (match w with Some x => [Leaf 1 (map fst x) (cdur x)] | None => [] end)).
Proof. apply simr_bind; [apply Swf_all; exact Hc1 | intros; apply simr_refl]. Qed.

Lemma Scp_all c1 (Hc1 : okcfg c1) : forall p, Scp c1 p.
Proof.
  induction p using pt_ind'; unfold Scp; intros e; cbn [cp]; try (apply cp_atomic_sim; exact Hc1).
  - (* seq *)
    apply simr_bind; [|intros; apply simr_refl].
    apply simr_rall. eapply Forall_impl; [|exact H]. intros c Hc. apply Hc.
  - (* rep *)
    apply simr_bind; [apply simr_refl|]. intros vc. apply simr_bind; [apply int_of_sim1; exact Hc1|]. intros n.
    destruct Hc1; subst c1; sw.
    + destruct (n <? 0)%Z; [left; reflexivity|]. destruct (n <=? 0)%Z; [apply simr_refl|].
      apply simr_bind; [apply IHp | intros; apply simr_refl].
    + destruct (n <=? 0)%Z; [apply simr_refl|]. apply simr_bind; [apply IHp | intros; apply simr_refl].
  - (* for *)
    apply simr_bind; [apply simr_refl|]. intros va. apply simr_bind; [apply int_of_sim1; exact Hc1|]. intros ia.
    apply simr_bind; [apply simr_refl|]. intros vb. apply simr_bind; [apply int_of_sim1; exact Hc1|]. intros ib.
    apply simr_bind; [apply simr_refl|]. intros vs. apply simr_bind; [apply int_of_sim1; exact Hc1|]. intros is.
    destruct (is =? 0)%Z; [apply simr_refl|].
    apply simr_bind; [|intros; apply simr_refl]. apply simr_rall. apply Forall_forall. intros z _. apply IHp.
  - (* map *) apply simr_bind; [apply simr_refl|]. intros e'. apply IHp.
  - (* wrap *) apply IHp.
  - (* rev *) apply simr_bind; [apply IHp | intros; apply simr_refl].
  - (* constr *) destruct Hc1; subst c1; (apply simr_bind; [apply simr_refl|]); intros _; apply IHp.
  - (* single *) apply simr_bind; [apply IHp | intros; apply simr_refl].
Qed.

(* what c1 accepts, the code (decimal reading) accepts with the same program *)
Lemma sw_refines c1 (Hc1 : okcfg c1) p e kids : cp c1 p e = Ok kids -> cp lax p e = Ok kids.
Proof. intros H. destruct (Scp_all c1 Hc1 p e) as [F|E]; [rewrite H in F; discriminate | rewrite <- E; exact H]. Qed.

(* whatever the code (decimal reading) accepts, c1 accepts with the same program or stops at a finding class *)
Lemma sw_exact c1 (Hc1 : okcfg c1) p e kids : cp lax p e = Ok kids -> cp c1 p e = Ok kids \/ exists k, cp c1 p e = Err (EFinding k).
Proof.
  intros H. destruct (Scp_all c1 Hc1 p e) as [F|E]; [|left; rewrite E; exact H].
  right. destruct (cp c1 p e) as [| |k]; try discriminate. destruct k; try discriminate. eexists; reflexivity.
Qed.

Lemma ideal_refines p e kids : cp ideal p e = Ok kids -> cp lax p e = Ok kids.
Proof. apply sw_refines. left; reflexivity. Qed.
Lemma ideal_exact p e kids : cp lax p e = Ok kids -> cp ideal p e = Ok kids \/ exists k, cp ideal p e = Err (EFinding k).
Proof. apply sw_exact. left; reflexivity. Qed.

(* ------------------------------------------------------------------------------------------------------------ *)
(* 2a. waveforms built by `ideal` have at least one component and no negative duration *)
Lemma pymax_ge f a b : (forall v, f v = time_of v) -> time_of a <= time_of (pymax f a b).
Proof.
  intros Hf. unfold pymax. rewrite !Hf. destruct (Qltb _ _) eqn:E; [apply Qltb_true in E; lra | lra].
Qed.
Lemma pymax_list_ge f l : (forall v, f v = time_of v) -> forall a, time_of a <= time_of (pymax_list f a l).
Proof.
  intros Hf. induction l as [|b t IH]; cbn; intros a; [lra|].
  eapply Qle_trans; [apply (pymax_ge f a b Hf) | apply IH].
Qed.

Lemma last_map {A B} (f : A -> B) l d : last (map f l) (f d) = f (last l d).
Proof. induction l as [|a t IH]; [reflexivity|]. destruct t; [reflexivity|]. exact IH. Qed.

Lemma pymax_ge_r f a b : (forall v, f v = time_of v) -> time_of b <= time_of (pymax f a b).
Proof.
  intros Hf. unfold pymax. rewrite !Hf. destruct (Qltb _ _) eqn:E; [lra | apply Qltb_false in E; lra].
Qed.
Lemma pymax_list_ge_in f l : (forall v, f v = time_of v) -> forall a b, In b (a :: l) -> time_of b <= time_of (pymax_list f a l).
Proof.
  intros Hf. induction l as [|x t IH]; cbn [pymax_list]; intros a b Hb.
  - destruct Hb as [->|[]]. lra.
  - destruct Hb as [->|[->|Hb]].
    + eapply Qle_trans; [apply (pymax_ge f b x Hf) | apply pymax_list_ge; exact Hf].
    + eapply Qle_trans; [apply (pymax_ge_r f a b Hf) | apply pymax_list_ge; exact Hf].
    + apply IH. right; exact Hb.
Qed.

Lemma in_kept {A} (cs : list (option Z)) (ps : list A) c p :
  In (c, p) (somes (map (fun ct => match fst ct with Some c => Some (c, snd ct) | None => None end) (combine cs ps))) -> In p ps.
Proof.
  revert ps. induction cs as [|c0 t IH]; intros [|p0 ps]; cbn; try tauto.
  destruct c0; cbn; intros H.
  - destruct H as [H|H]; [inversion H; auto | right; eapply IH; exact H].
  - right; eapply IH; exact H.
Qed.

Lemma table_wf_nonneg e chans c :
  table_wf time_of e chans = Ok (Some c) -> c <> [] /\ Forall (fun x => 0 <= snd x) c.
Proof.
  unfold table_wf. intros H. apply rbind_ok in H as (vals & _ & H). cbv zeta in H.
  set (ins := map (fun ts => match ts with v :: _ => if Qltb 0 (time_of v) then VInt 0 :: ts else ts | [] => ts end) vals) in *.
  clearbody ins. destruct (map lastv ins) as [|a t] eqn:El; [discriminate|].
  set (dur := pymax_list time_of a t) in *.
  destruct (Qeqb (time_of dur) 0); [discriminate|].
  match type of H with match ?k with _ => _ end = _ => destruct k as [|[c0 ts0] kt] eqn:Ek end; [discriminate|].
  destruct (forallb _ _) eqn:Hv; [|discriminate]. inversion H; subst c; clear H.
  assert (Hin : In ts0 (map (fun ts => if Qltb (time_of (lastv ts)) (time_of dur) then ts ++ [dur] else ts) ins)).
  { eapply in_kept. rewrite Ek. left; reflexivity. }
  cbn [map forallb snd] in Hv. apply andb_prop in Hv as [Hv0 _].
  assert (Hd : 0 <= time_of dur).
  { apply in_map_iff in Hin as (i & Ei & Hi).
    assert (Hle : time_of (lastv i) <= time_of dur).
    { apply (pymax_list_ge_in time_of t (fun _ => eq_refl) a). rewrite <- El. apply in_map. exact Hi. }
    destruct (Qltb (time_of (lastv i)) (time_of dur)) eqn:Hp; subst ts0.
    - destruct (i ++ [dur]) as [|v l] eqn:E2; [discriminate|]. apply andb_prop in Hv0 as [H0 Hs].
      apply Qeqb_true in H0. cbn [map] in Hs. pose proof (sortedq_first_le_last _ _ (time_of (VInt 0)) Hs) as Hle2.
      change (time_of v :: map time_of l) with (map time_of (v :: l)) in Hle2. rewrite <- E2 in Hle2.
      rewrite last_map, last_last in Hle2. lra.
    - destruct i as [|v l]; [discriminate|]. apply andb_prop in Hv0 as [H0 Hs].
      apply Qeqb_true in H0. cbn [map] in Hs. pose proof (sortedq_first_le_last _ _ (time_of (VInt 0)) Hs) as Hle2.
      change (time_of v :: map time_of l) with (map time_of (v :: l)) in Hle2. rewrite last_map in Hle2.
      fold (lastv (v :: l)) in Hle2. lra. }
  split; [apply mk_comps_nonempty; discriminate|]. apply Forall_forall. intros x Hx. rewrite (In_mk_comps _ _ _ Hx). exact Hd.
Qed.

Definition okc (c : comps) : Prop := c <> [] /\ Forall (fun x => 0 <= snd x) c.
Definition Nw (p : pt) : Prop := forall e c, wf_of ideal p e = Ok (Some c) -> okc c.

Lemma okc_cdur c : okc c -> 0 <= cdur c.
Proof. intros [Hne Hall]. destruct c as [|[r q] t]; [congruence|]. inversion Hall; subst. assumption. Qed.

Lemma Forall2_in_r {A B} (R : A -> B -> Prop) l l' y : Forall2 R l l' -> In y l' -> exists x, In x l /\ R x y.
Proof.
  induction 1 as [|a b l l' Hab Hl IH]; intros Hy; [destruct Hy|].
  destruct Hy as [->|Hy]; [exists a; split; [left; reflexivity | exact Hab]|].
  destruct (IH Hy) as (x & Hx & HR). exists x. split; [right; exact Hx | exact HR].
Qed.

Lemma in_somes {A} (x : A) ws : In x (somes ws) <-> In (Some x) ws.
Proof.
  induction ws as [|[a|] t IH]; cbn; [tauto | |].
  - rewrite IH. split; intros [H|H]; auto; [left; congruence | inversion H; auto].
  - rewrite IH. split; [auto | intros [H|H]; [discriminate | exact H]].
Qed.

Lemma okc_mk kc q : kc <> [] -> 0 <= q -> okc (mk_comps kc q).
Proof.
  intros Hne Hq. split; [apply mk_comps_nonempty; exact Hne|]. apply Forall_forall. intros x Hx.
  rewrite (In_mk_comps _ _ _ Hx). exact Hq.
Qed.
Lemma okc_recomp w q : w <> [] -> 0 <= q -> okc (recomp w q).
Proof.
  intros Hne Hq. split; [apply recomp_nonempty; exact Hne|]. apply Forall_forall. intros x Hx.
  rewrite (In_recomp _ _ _ Hx). exact Hq.
Qed.
Lemma okc_wf_mk kc q c : wf_mk kc q = Some c -> 0 <= q -> okc c.
Proof. destruct kc; [discriminate|]. intros H Hq. inversion H; subst. apply okc_mk; [discriminate | exact Hq]. Qed.

Lemma Nw_all : forall p, Nw p.
Proof.
  induction p using pt_ind'; unfold Nw; intros e c0 Hw; cbn [wf_of] in Hw; try discriminate.
  - (* atom *)
    change (s_dropped ideal) with true in Hw. cbn [andb] in Hw. destruct (is_nil (somes chs)); [discriminate|].
    rewrite andb_false_r in Hw.
    apply rbind_ok in Hw as (v & _ & Hw). cbn in Hw. destruct (Qltb (time_of v) 0) eqn:E; [discriminate|].
    apply Qltb_false in E.
    destruct k; [destruct (Qltb 0 (time_of v)); [|discriminate]|]; inversion Hw as [Hw'];
      (eapply okc_wf_mk; [exact Hw' | exact E]).
  - (* table *)
    change (s_dropped ideal) with true in Hw. cbn [andb] in Hw. destruct (is_nil _); [discriminate|].
    eapply table_wf_nonneg; exact Hw.
  - (* map *) apply rbind_ok in Hw as (e' & _ & Hw). eapply IHp; exact Hw.
  - (* multi *)
    apply rbind_ok in Hw as (ws & Hws & Hw). apply rbind_ok in Hw as (res0 & Hres & Hfin).
    assert (res0 = Some c0) by (destruct (_ && _)%bool; [discriminate | inversion Hfin; reflexivity]). subst res0.
    apply rall_map_inv in Hws.
    assert (Hs : Forall okc (somes ws)).
    { apply Forall_forall. intros x Hx. apply in_somes in Hx.
      destruct (Forall2_in_r _ _ _ _ Hws Hx) as (s & Hs & Hsx). rewrite Forall_forall in H. exact (H s Hs e x Hsx). }
    destruct (somes ws) as [|w1 rest] eqn:Es; [discriminate|].
    apply rbind_ok in Hres as (w & Hw1 & Hres).
    assert (w = c0) by (destruct d; [apply rbind_ok in Hres as (dv & _ & Hres); destruct (isclose _ _); inversion Hres; reflexivity
                                    | inversion Hres; reflexivity]). subst w.
    destruct rest as [|w2 rest'].
    + inversion Hw1; subst. inversion Hs; assumption.
    + unfold parallel in Hw1. destruct (forallb _ _); inversion Hw1; subst; clear Hw1.
      inversion Hs as [|? ? [Hne1 Hall1] Hrest]; subst. split.
      * destruct w1 as [|x t]; [congruence|]. apply sort_comps_nonempty. cbn. discriminate.
      * apply Forall_forall. intros x Hx.
        assert (Hin : In x (concat (w1 :: w2 :: rest'))) by (apply (proj1 (In_sort_comps _ _)); exact Hx).
        apply in_concat in Hin as (l & Hl & Hxl).
        rewrite Forall_forall in Hs. destruct (Hs l Hl) as [_ Hall]. rewrite Forall_forall in Hall. apply Hall; exact Hxl.
  - (* arith *)
    apply rbind_ok in Hw as (wl & Hwl & Hw). apply rbind_ok in Hw as (wr & Hwr & Hw).
    destruct wr as [cr|].
    + pose proof (okc_cdur _ (IHp2 _ _ Hwr)) as Hr. destruct wl as [cl|].
      * destruct (isclose _ _); [|discriminate]. destruct (_ && _)%bool; inversion Hw; subst.
        apply okc_mk; [|exact (okc_cdur _ (IHp1 _ _ Hwl))].
        destruct (IHp1 _ _ Hwl) as [Hne _]. unfold union_z. destruct cl; [congruence | discriminate].
      * inversion Hw; subst. apply okc_recomp; [destruct (IHp2 _ _ Hwr); assumption | exact Hr].
    + inversion Hw; subst. exact (IHp1 _ _ Hwl).
  - (* wrap *)
    apply rbind_ok in Hw as (w & Hw0 & Hw). destruct w as [x|]; inversion Hw; subst.
    apply okc_recomp; [destruct (IHp _ _ Hw0); assumption | exact (okc_cdur _ (IHp _ _ Hw0))].
  - (* constr *) apply rbind_ok in Hw as (u & _ & Hw). exact (IHp _ _ Hw).
  - (* single *) exact (IHp _ _ Hw).
Qed.

(* ------------------------------------------------------------------------------------------------------------ *)
(* 2b. two environments that give every name the same time value (the parameters and their decimal reading; the
   integer loop index and the symbolic start + k*step) *)
Definition envR (e e' : env) : Prop := qenv_of e = qenv_of e'.

Lemma eval_rel e e' x a b : envR e e' -> eval e x = Ok a -> eval e' x = Ok b -> time_of a == time_of b.
Proof.
  intros R Ha Hb. destruct (eval_qeval _ _ _ Ha) as (q & Hq & E). destruct (eval_qeval _ _ _ Hb) as (q' & Hq' & E').
  rewrite R in Hq. rewrite Hq in Hq'. inversion Hq'; subst. rewrite <- E, <- E'. reflexivity.
Qed.

Lemma envR_cons e e' i a b : envR e e' -> time_of a == time_of b -> envR ((i, a) :: e) ((i, b) :: e').
Proof.
  unfold envR. intros R H.
  change (qenv_of ((i, a) :: e)) with ((i, Qred (time_of a)) :: qenv_of e).
  change (qenv_of ((i, b) :: e')) with ((i, Qred (time_of b)) :: qenv_of e').
  rewrite R. f_equal. f_equal. apply Qred_complete; exact H.
Qed.

Lemma map_env_rel e e' m e1 e1' : envR e e' -> map_env e m = Ok e1 -> map_env e' m = Ok e1' -> envR e1 e1'.
Proof.
  unfold map_env. intros R H1 H2. apply rbind_ok in H1 as (vs & Hvs & H1). apply rbind_ok in H2 as (vs' & Hvs' & H2).
  inversion H1; inversion H2; subst. clear H1 H2. unfold envR, qenv_of. rewrite !map_app. f_equal; [|exact R].
  revert vs vs' Hvs Hvs'. induction m as [|xe m IH]; cbn; intros vs vs' Hvs Hvs'.
  - inversion Hvs; inversion Hvs'; reflexivity.
  - apply rbind_ok in Hvs as (a & Ha & Hvs). apply rbind_ok in Hvs as (t & Ht & Hvs).
    apply rbind_ok in Hvs' as (a' & Ha' & Hvs'). apply rbind_ok in Hvs' as (t' & Ht' & Hvs').
    apply rbind_ok in Ha as (v & Hv & Ha). apply rbind_ok in Ha' as (v' & Hv' & Ha').
    inversion Hvs; inversion Hvs'; inversion Ha; inversion Ha'; subst. cbn. f_equal; [|apply IH; assumption].
    f_equal. apply Qred_complete. eapply eval_rel; eassumption.
Qed.

Lemma rall_last e ts vs d0 d1 : rall (map (eval e) ts) = Ok vs -> ts <> [] -> eval e (last ts d0) = Ok (last vs d1).
Proof.
  intros H Hne. apply rall_map_inv in H. induction H as [|x q l l' Hx Hl IH]; [congruence|].
  destruct Hl as [|x2 q2 l2 l2']; [exact Hx|].
  change (eval e (last (x2 :: l2) d0) = Ok (last (q2 :: l2') d1)). apply IH. discriminate.
Qed.

Definition ins_of (vs : list value) : list value :=
  match vs with v :: _ => if Qltb 0 (time_of v) then VInt 0 :: vs else vs | [] => vs end.
Lemma lastv_ins vs : lastv (ins_of vs) = lastv vs.
Proof. destruct vs as [|v t]; [reflexivity|]. unfold ins_of. destruct (Qltb _ _); reflexivity. Qed.

Lemma table_lasts_rel e e' chans vals ls : envR e e' ->
  rall (map (fun ts => rall (map (eval e) ts)) chans) = Ok vals ->
  rall (map (fun ts => eval e' (last_expr ts)) chans) = Ok ls ->
  Forall2 (fun x l => time_of x == time_of l) (map lastv (map ins_of vals)) ls.
Proof.
  intros R H1 H2. apply rall_map_inv in H1. apply rall_map_inv in H2.
  revert ls H2. induction H1 as [|ts vs chans' vals' Hvs Hrest IH]; intros ls H2; inversion H2; subst; cbn [map];
    constructor; [|apply IH; assumption].
  rewrite lastv_ins. destruct ts as [|x t].
  - cbn in Hvs. inversion Hvs; subst. cbn in H1. inversion H1; subst. reflexivity.
  - eapply eval_rel; [exact R | | exact H1]. unfold last_expr, lastv. apply rall_last; [exact Hvs | discriminate].
Qed.

Lemma table_wf_sym e e' chans w v : envR e e' -> somes (map fst chans) <> [] ->
  table_wf time_of e chans = Ok w -> sym (PTable chans) e' = Ok v -> wf_ok w (time_of v).
Proof.
  intros R Hkept Hw Hv. unfold table_wf in Hw. cbn [sym] in Hv.
  apply rbind_ok in Hw as (vals & Hvals & Hw). apply rbind_ok in Hv as (ls & Hls & Hv).
  pose proof (table_lasts_rel _ _ _ _ _ R Hvals Hls) as Hrel. fold ins_of in Hw.
  destruct (map lastv (map ins_of vals)) as [|a t]; [simpl in Hw; discriminate Hw|].
  inversion Hrel as [|? a' ? t' Ha Ht]; subst. cbv beta iota in Hw.
  set (dur := pymax_list time_of a t) in *.
  assert (Hd : time_of dur == time_of v).
  { subst dur. rewrite (pymax_list_time time_of t (fun _ => eq_refl)), (vmax_list_time _ _ _ Hv).
    apply qmax_list_comp; [|exact Ha]. clear - Ht. induction Ht; cbn; constructor; assumption. }
  destruct (Qeqb (time_of dur) 0) eqn:Ez.
  - inversion Hw; subst. cbn. rewrite <- Hd. apply Qeqb_true; exact Ez.
  - match type of Hw with match ?k with _ => _ end = _ => destruct k as [|k0 kt] eqn:Ek end.
    + exfalso. revert Ek. apply kept_nonempty; [|exact Hkept].
      rewrite !map_length. apply rall_map_inv in Hvals. apply Forall2_len in Hvals. rewrite !map_length in Hvals.
      exact Hvals.
    + destruct (forallb _ _); inversion Hw; subst. apply wf_ok_mk; [discriminate | exact Hd].
Qed.

(* ------------------------------------------------------------------------------------------------------------ *)
(* 2c. atomic templates: the waveform `ideal` builds lasts as long as the symbolic duration says *)
Definition Ap (p : pt) : Prop :=
  forall e e' w v, envR e e' -> wf_of ideal p e = Ok w -> sym p e' = Ok v -> wf_ok w (time_of v).

Lemma par_strict_all ws x : par_strict ws = true -> In x (concat (somes ws)) -> snd x == cdur (concat (somes ws)).
Proof.
  unfold par_strict. intros H Hx. apply andb_prop in H as [H _]. rewrite forallb_forall in H.
  apply Qeqb_true. apply H; exact Hx.
Qed.
Lemma par_strict_none ws x : par_strict ws = true -> In None ws -> In x (concat (somes ws)) -> snd x == 0.
Proof.
  unfold par_strict. intros H Hn Hx. apply andb_prop in H as [_ H].
  assert (E : existsb is_none ws = true) by (apply existsb_exists; exists None; split; [exact Hn | reflexivity]).
  rewrite E in H. rewrite forallb_forall in H. apply Qeqb_true. apply H; exact Hx.
Qed.

Lemma cdur_in c : c <> [] -> exists x, In x c /\ snd x = cdur c.
Proof. destruct c as [|[r q] t]; [congruence|]. intros _. exists (r, q). split; [left; reflexivity | reflexivity]. Qed.

Lemma Ap_all : forall p, Ap p.
Proof.
  induction p using pt_ind'; unfold Ap; intros e e' w0 v R Hw Hv; cbn [wf_of] in Hw; cbn [sym] in Hv; try discriminate.
  - (* atom *)
    change (s_dropped ideal) with true in Hw. cbn [andb] in Hw. destruct (is_nil (somes chs)) eqn:Hk; [discriminate|].
    apply is_nil_false in Hk. rewrite andb_false_r in Hw.
    apply rbind_ok in Hw as (v0 & Hv0 & Hw). pose proof (eval_rel _ _ _ _ _ R Hv0 Hv) as E. cbn in Hw.
    destruct (Qltb (time_of v0) 0) eqn:E0; [discriminate|]. apply Qltb_false in E0.
    destruct k.
    + destruct (Qltb 0 (time_of v0)) eqn:E1; inversion Hw; subst.
      * apply wf_ok_wf_mk; [exact Hk | exact E].
      * apply Qltb_false in E1. cbn. lra.
    + inversion Hw; subst. apply wf_ok_wf_mk; [exact Hk | exact E].
  - (* table *)
    change (s_dropped ideal) with true in Hw. cbn [andb] in Hw. destruct (is_nil _) eqn:Hk; [discriminate|].
    apply is_nil_false in Hk. eapply table_wf_sym; [exact R | exact Hk | exact Hw | exact Hv].
  - (* map *)
    apply rbind_ok in Hw as (e1 & He1 & Hw). apply rbind_ok in Hv as (e1' & He1' & Hv).
    eapply IHp; [eapply map_env_rel; eassumption | exact Hw | exact Hv].
  - (* multi *)
    apply rbind_ok in Hw as (ws & Hws & Hw). apply rbind_ok in Hw as (res0 & Hres & Hfin). cbn in Hfin.
    match type of Hfin with (if negb (?x && ?y) then _ else _) = _ => destruct x eqn:Hstrict; [|discriminate]; destruct y eqn:Hdecl; [|discriminate] end.
    inversion Hfin; subst res0; clear Hfin.
    pose proof (rall_map_inv _ _ _ Hws) as Hws2.
    assert (Hok : Forall okc (somes ws)).
    { apply Forall_forall. intros x Hx. apply in_somes in Hx.
      destruct (Forall2_in_r _ _ _ _ Hws2 Hx) as (s & _ & Hsx). exact (Nw_all s e x Hsx). }
    (* D: the common duration of all components; every component of the result is a component of some part *)
    set (cs := concat (somes ws)) in *.
    assert (Hres' : match w0 with None => somes ws = [] | Some w => w <> [] /\ (forall x, In x w -> In x cs) end).
    { destruct (somes ws) as [|w1 rest] eqn:Es; [inversion Hres; reflexivity|].
      apply rbind_ok in Hres as (w & Hw1 & Hres).
      assert (w0 = Some w) by (destruct d; [apply rbind_ok in Hres as (dv & _ & Hres); destruct (isclose _ _); inversion Hres; reflexivity
                                      | inversion Hres; reflexivity]). subst w0.
      inversion Hok as [|? ? [Hne1 _] _]; subst.
      destruct rest as [|w2 rest'].
      - inversion Hw1; subst. split; [exact Hne1|]. intros x Hx. subst cs. cbn. rewrite app_nil_r. exact Hx.
      - unfold parallel in Hw1. destruct (forallb _ _); inversion Hw1; subst. split.
        + apply sort_comps_nonempty. destruct w1 as [|y u]; [congruence | cbn; discriminate].
        + intros x Hx. apply (proj1 (In_sort_comps _ _)); exact Hx. }
    (* the time value the symbolic side reports is D (or 0 when there is no waveform) *)
    destruct d as [dx|].
    + (* declared duration *)
      destruct (eval e dx) as [dv| |] eqn:Hdv; try discriminate.
      pose proof (eval_rel _ _ _ _ _ R Hdv Hv) as E. apply Qeqb_true in Hdecl. cbn in Hdecl.
      destruct w0 as [w|]; [|cbn; rewrite <- E; exact Hdecl].
      destruct Hres' as [Hne Hsub]. split; [exact Hne|]. apply Forall_forall. intros x Hx.
      rewrite <- E, Hdecl. destruct (cdur_in w Hne) as (y & Hy & Ey). rewrite <- Ey.
      rewrite (par_strict_all ws x Hstrict (Hsub x Hx)), (par_strict_all ws y Hstrict (Hsub y Hy)). reflexivity.
    + (* the first part's duration *)
      destruct subs as [|c1 subs']; [discriminate|]. inversion Hws2 as [|? w1' ? ws' Hw1' Hrest]; subst.
      inversion H as [|? ? HA1 _]; subst. pose proof (HA1 e e' w1' v R Hw1' Hv) as H1.
      destruct w0 as [w|].
      * destruct Hres' as [Hne Hsub]. split; [exact Hne|]. apply Forall_forall. intros x Hx.
        destruct w1' as [c1c|].
        -- destruct H1 as [Hne1 Hall1]. destruct c1c as [|y u]; [congruence|]. inversion Hall1; subst.
           assert (Hy : In y (concat (somes (Some (y :: u) :: ws')))) by (cbn; left; reflexivity).
           rewrite (par_strict_all _ x Hstrict (Hsub x Hx)), <- (par_strict_all _ y Hstrict Hy). assumption.
        -- cbn in H1. rewrite H1. apply (par_strict_none _ x Hstrict); [left; reflexivity | exact (Hsub x Hx)].
      * destruct w1' as [c1c|]; [|exact H1]. cbn in Hres'. discriminate.
  - (* arith: Max(lhs, rhs) *)
    apply rbind_ok in Hw as (wl & Hwl & Hw). apply rbind_ok in Hw as (wr & Hwr & Hw).
    apply rbind_ok in Hv as (u & Hu & Hv). apply rbind_ok in Hv as (w & Hw' & Hv).
    pose proof (IHp1 _ _ _ _ R Hwl Hu) as Hl. pose proof (IHp2 _ _ _ _ R Hwr Hw') as Hr.
    pose proof (vmax_time _ _ _ Hv) as Em. unfold Qmaxq in Em.
    destruct wr as [cr|].
    + pose proof (wf_ok_cdur _ _ Hr) as Er. pose proof (okc_cdur _ (Nw_all _ _ _ Hwr)) as Nr.
      destruct wl as [cl|].
      * pose proof (wf_ok_cdur _ _ Hl) as El.
        destruct (isclose _ _); [|discriminate]. cbn in Hw. destruct (Qeqb (cdur cl) (cdur cr)) eqn:Eq; [|discriminate].
        apply Qeqb_true in Eq. inversion Hw; subst.
        apply wf_ok_mk; [destruct Hl as [Hne _]; unfold union_z; destruct cl; [congruence | discriminate]|].
        rewrite Em. destruct (Qleb _ _); [rewrite <- Er, <- Eq; reflexivity | exact El].
      * inversion Hw; subst. cbn in Hl. apply wf_ok_recomp; [destruct Hr; assumption|].
        rewrite Em. destruct (Qleb (time_of u) (time_of w)) eqn:E1; [exact Er|]. apply Qleb_false in E1. lra.
    + inversion Hw; subst. cbn in Hr. destruct w0 as [cl|].
      * pose proof (wf_ok_cdur _ _ Hl) as El. pose proof (okc_cdur _ (Nw_all _ _ _ Hwl)) as Nl.
        eapply wf_ok_eq; [|exact Hl]. rewrite Em. destruct (Qleb (time_of u) (time_of w)) eqn:E1; [|reflexivity].
        apply Qleb_true in E1. lra.
      * cbn in *. rewrite Em. destruct (Qleb _ _); assumption.
  - (* wrap *)
    apply rbind_ok in Hw as (w & Hw1 & Hw). pose proof (IHp _ _ _ _ R Hw1 Hv) as H0.
    inversion Hw; subst. destruct w as [x|]; [|exact H0].
    apply wf_ok_recomp; [destruct H0; assumption | apply wf_ok_cdur; exact H0].
  - (* constr *) apply rbind_ok in Hw as (u & _ & Hw). eapply IHp; eassumption.
  - (* single *) eapply IHp; eassumption.
Qed.

(* ------------------------------------------------------------------------------------------------------------ *)
(* 2d. all templates: the program `ideal` builds lasts as long as the symbolic duration says *)
Definition Bp (p : pt) : Prop :=
  forall e e' kids v, envR e e' -> cp ideal p e = Ok kids -> sym p e' = Ok v -> total kids == time_of v.

Lemma bp_atomic p e e' kids v : envR e e' ->
  (do w <- wf_of ideal p e; Ok (match w with Some x => [Leaf 1 (map fst x) (cdur x)] | None => [] end)) = Ok kids ->
  sym p e' = Ok v -> total kids == time_of v.
Proof.
  intros R H Hv. apply rbind_ok in H as (w & Hw & H). inversion H; subst; clear H.
  pose proof (Ap_all p e e' w v R Hw Hv) as Hok. destruct w as [x|].
  - unfold total. cbn. rewrite (wf_ok_cdur _ _ Hok). ring.
  - cbn in Hok. unfold total. cbn. symmetry. exact Hok.
Qed.

Lemma int_of_ideal_exact v z : int_of ideal v = Ok z -> time_of v == inject_Z z.
Proof.
  destruct v; cbn; intros H; try (inversion H; subst; reflexivity);
    destruct (Qltb _ _); try discriminate;
    match type of H with (if negb ?x then _ else _) = _ => destruct x eqn:E; [|discriminate] end;
    inversion H; subst; apply Qeqb_true; exact E.
Qed.

Lemma qsum_rel2 (ks : list (list loop)) (ts : list value) :
  Forall2 (fun k t => total k == time_of t) ks ts -> qsum (map total ks) == qsum (map time_of ts).
Proof. induction 1; cbn; [reflexivity | rewrite H, IHForall2; reflexivity]. Qed.

Lemma Forall2_flip {A B} (R : A -> B -> Prop) l l' : Forall2 R l l' -> Forall2 (fun b a => R a b) l' l.
Proof. induction 1; constructor; assumption. Qed.

Lemma Bp_all : forall p, Bp p.
Proof.
  induction p using pt_ind'; unfold Bp; intros e e' kids v R Hc Hv.
  - eapply bp_atomic; eassumption.
  - eapply bp_atomic; eassumption.
  - (* seq *)
    cbn [cp] in Hc. cbn [sym] in Hv.
    apply rbind_ok in Hc as (ks & Hks & Hc). inversion Hc; subst; clear Hc.
    apply rbind_ok in Hv as (vs & Hvs & Hv).
    apply rall_map_inv in Hks. apply rall_map_inv in Hvs.
    rewrite total_concat, (vsum_time _ _ Hv). apply qsum_rel2.
    apply (Forall2_join Bp (fun c k => cp ideal c e = Ok k) (fun c t => sym c e' = Ok t) (fun k t => total k == time_of t) subs);
      [|exact H|exact Hks|exact Hvs].
    intros c k t HB H1 H2. exact (HB e e' k t R H1 H2).
  - (* rep *)
    cbn [cp] in Hc. cbn [sym] in Hv.
    apply rbind_ok in Hc as (vc & Hvc & Hc). apply rbind_ok in Hc as (n & Hn & Hc).
    apply rbind_ok in Hv as (nn & Hnn & Hv). apply rbind_ok in Hv as (db & Hdb & Hv).
    pose proof (eval_rel _ _ _ _ _ R Hvc Hnn) as En. pose proof (int_of_ideal_exact _ _ Hn) as Ei.
    rewrite (vmul_time _ _ _ Hv), <- En, Ei. cbn in Hc.
    destruct (n <? 0)%Z eqn:E1; [discriminate|]. destruct (n <=? 0)%Z eqn:E2.
    + inversion Hc; subst. assert (n = 0%Z) by lia. subst. unfold total. cbn. ring.
    + apply rbind_ok in Hc as (kids' & Hk & Hc). inversion Hc; subst.
      rewrite total_wrap, (IHp _ _ _ _ R Hk Hdb). ring.
  - (* for *)
    cbn [cp] in Hc. cbn [sym] in Hv.
    apply rbind_ok in Hc as (va & Hva & Hc). apply rbind_ok in Hc as (ia & Hia & Hc).
    apply rbind_ok in Hc as (vb & Hvb & Hc). apply rbind_ok in Hc as (ib & Hib & Hc).
    apply rbind_ok in Hc as (vs & Hvs & Hc). apply rbind_ok in Hc as (is & His & Hc).
    destruct (is =? 0)%Z eqn:Eis; [discriminate|]. apply Z.eqb_neq in Eis.
    apply rbind_ok in Hc as (ks & Hks & Hc). inversion Hc; subst kids; clear Hc.
    apply rbind_ok in Hv as (va' & Hva' & Hv). apply rbind_ok in Hv as (vb' & Hvb' & Hv).
    apply rbind_ok in Hv as (vs' & Hvs' & Hv).
    destruct (Qeqb (time_of vs') 0); [discriminate|].
    set (n := Qceiling ((time_of vb' - time_of va') / time_of vs')) in *.
    destruct (100000 <? n)%Z; [discriminate|].
    apply rbind_ok in Hv as (terms & Hterms & Hv). apply rbind_ok in Hv as (tot & Htot & Hv).
    assert (Ta : time_of va' == inject_Z ia)
      by (rewrite <- (eval_rel _ _ _ _ _ R Hva Hva'); apply int_of_ideal_exact; exact Hia).
    assert (Tb : time_of vb' == inject_Z ib)
      by (rewrite <- (eval_rel _ _ _ _ _ R Hvb Hvb'); apply int_of_ideal_exact; exact Hib).
    assert (Ts : time_of vs' == inject_Z is)
      by (rewrite <- (eval_rel _ _ _ _ _ R Hvs Hvs'); apply int_of_ideal_exact; exact His).
    assert (Hn : n = Qceiling ((inject_Z ib - inject_Z ia) / inject_Z is)) by (apply Qceiling_int_quot; assumption).
    pose proof (range_n_ceiling ia ib is Eis) as Hrn. rewrite <- Hn in Hrn.
    rewrite (zrange_closed ia ib is Eis), Hrn in Hks.
    destruct (n <=? 0)%Z eqn:En.
    + inversion Hv; subst v. replace (Z.to_nat (Z.max 0 n)) with O in Hks by lia.
      cbn in Hks. inversion Hks; subst. reflexivity.
    + inversion Hv; subst v. replace (Z.to_nat (Z.max n 1)) with (Z.to_nat (Z.max 0 n)) in Hterms by lia.
      apply rall_map_inv in Hterms. apply rall_map_inv in Hks. unfold arith_list in Hks. apply Forall2_map_l in Hks.
      rewrite total_concat, (vsum_time _ _ Htot). apply qsum_rel2.
      eapply (Forall2_join (fun _ => True)); [|apply Forall_forall; intros; exact I|exact Hks|exact Hterms].
      intros k kid t _ H1 H2. cbv beta in H1, H2.
      apply rbind_ok in H2 as (kk & Hkk & H2). apply rbind_ok in H2 as (iv & Hiv & H2).
      apply (IHp _ _ _ _ (envR_cons e e' i (VInt (ia + Z.of_nat k * is)) iv R
               ltac:(rewrite (vadd_time _ _ _ Hiv), (vmul_time _ _ _ Hkk), Ta, Ts; cbn [time_of];
                     rewrite inject_Z_plus, inject_Z_mult; reflexivity)) H1 H2).
  - (* map *)
    cbn [cp] in Hc. cbn [sym] in Hv.
    apply rbind_ok in Hc as (e1 & He1 & Hc). apply rbind_ok in Hv as (e1' & He1' & Hv).
    eapply IHp; [eapply map_env_rel; eassumption | exact Hc | exact Hv].
  - eapply bp_atomic; eassumption.
  - eapply bp_atomic; eassumption.
  - (* wrap *) cbn [cp] in Hc. cbn [sym] in Hv. eapply IHp; eassumption.
  - (* rev *)
    cbn [cp] in Hc. cbn [sym] in Hv. apply rbind_ok in Hc as (kids' & Hk & Hc). inversion Hc; subst.
    rewrite total_wrap, (IHp _ _ _ _ R Hk Hv). ring.
  - (* constr *) cbn [cp] in Hc. cbn [sym] in Hv. apply rbind_ok in Hc as (u & _ & Hc). eapply IHp; eassumption.
  - (* single *)
    cbn [cp] in Hc. cbn [sym] in Hv. apply rbind_ok in Hc as (kids' & Hk & Hc).
    pose proof (IHp _ _ _ _ R Hk Hv) as Ht. pose proof (Lp_all ideal p e kids' Hk) as Hl.
    destruct kids' as [|k t]; [inversion Hc; subst; exact Ht|].
    assert (Hw : wfl (Node 1 (k :: t))) by (apply wfl_node; repeat split; [lia | discriminate | exact Hl]).
    destruct (wf_duration_is_loop_duration _ Hw) as (q & Hq & E).
    destruct (to_wf (Node 1 (k :: t))) as [q'|] eqn:Hq'; [|discriminate]. apply to_wf_some in Hq'. rewrite Hq in Hq'.
    inversion Hq'; subst q'. inversion Hc; subst; clear Hc.
    unfold total at 1. cbn [map qsum loop_duration]. rewrite E. cbn [loop_duration].
    change (qsum (map loop_duration (k :: t))) with (total (k :: t)). rewrite Ht. ring.
Qed.

(* ------------------------------------------------------------------------------------------------------------ *)
(* 3. the guards and the theorems about the code.  All of them speak about `create_program`, i.e. about the template
   with its channel mappings threaded to the atoms (`resolve idf`). *)
Definition is_ok {A} (r : res A) : bool := match r with Ok _ => true | _ => false end.
Definition rs : pt -> pt := resolve idf.

(* one executable guard per finding class: the code with only that class made explicit does not stop there *)
Definition guard_finding (k : finding) (p : pt) (e : env) : bool :=
  match cp (only k) (rs p) e with Err (EFinding _) => false | _ => true end.

(* to_waveform does not raise: all leaves of the program define the same channels *)
Definition g_uniform (p : pt) (e : env) : bool :=
  match cp real (rs p) e with Ok [] => true | Ok kids => uniform (Node 1 kids) | _ => true end.

(* the guard of the positive theorem: binary and decimal reading agree (the quantifier "ints or short decimals"), no
   finding class is met on the way, and the program can be rendered as one waveform *)
Definition guard_C04 (p : pt) (e : env) : bool := g_view p e && is_ok (cp ideal (rs p) e) && g_uniform p e.

Lemma views_of_total kids d : Forall wfl kids -> total kids == d ->
  match (match kids with [] => None | _ => Some (Node 1 kids) end) with
  | None => d == 0
  | Some prog => loop_duration prog == d /\ (exists q, wf_duration prog = Some q /\ q == d) /\ sum_pieces 1 prog == d
  end.
Proof.
  intros Hl Ht. destruct kids as [|k t].
  - cbn in Ht. symmetry. exact Ht.
  - assert (Hw : wfl (Node 1 (k :: t))) by (apply wfl_node; repeat split; [lia | discriminate | exact Hl]).
    assert (Hld : loop_duration (Node 1 (k :: t)) == d).
    { cbn [loop_duration]. change (qsum (map loop_duration (k :: t))) with (total (k :: t)). rewrite Ht. ring. }
    split; [exact Hld|]. split.
    + destruct (wf_duration_is_loop_duration _ Hw) as (q & Hq & E). exists q. split; [exact Hq | rewrite E; exact Hld].
    + rewrite sum_pieces_is_duration. exact Hld.
Qed.

(* THE property under the tight guard; the waveform view is to_wf: to_waveform does not raise and lasts as long *)
Theorem agree_tight p e v :
  guard_C04 p e = true -> sym p (decimalize e) = Ok v ->
  exists o, create_program real p e = Ok o /\
  match o with
  | None => time_of v == 0
  | Some prog => loop_duration prog == time_of v
                 /\ (exists q, to_wf prog = Some q /\ q == time_of v)
                 /\ sum_pieces 1 prog == time_of v
  end.
Proof.
  unfold guard_C04. intros Hg Hv. apply andb_prop in Hg as [Hg Huni]. apply andb_prop in Hg as [Hview Hid].
  destruct (cp ideal (rs p) e) as [kids| |] eqn:Hi; try discriminate. clear Hid.
  pose proof (ideal_refines _ _ _ Hi) as Hlax.
  assert (Hreal : cp real (rs p) e = Ok kids).
  { unfold g_view in Hview. fold rs in Hview. destruct (cp real (rs p) e) as [k2| |] eqn:Hr; try discriminate.
    rewrite Hlax in Hview. apply loops_same_eq in Hview. subst. reflexivity. }
  assert (Ht : total kids == time_of v).
  { apply (Bp_all (rs p) e (decimalize e) kids v); [unfold envR; symmetry; apply qenv_decimalize | exact Hi |].
    unfold rs. rewrite sym_resolve. exact Hv. }
  pose proof (Lp_all real (rs p) e kids Hreal) as Hl.
  unfold create_program. fold rs. rewrite Hreal. cbn [rbind]. eexists; split; [reflexivity|].
  pose proof (views_of_total kids (time_of v) Hl Ht) as Hviews.
  unfold g_uniform in Huni. rewrite Hreal in Huni.
  destruct kids as [|k t]; [exact Hviews|].
  destruct Hviews as (H1 & (q & Hq & Eq) & H3). split; [exact H1|]. split; [|exact H3].
  exists q. split; [|exact Eq]. unfold to_wf. rewrite Huni. exact Hq.
Qed.

(* the guard excludes nothing but the finding classes: whatever the code (decimal reading) accepts, `ideal` accepts
   with the same program, or it names the finding class it met *)
Theorem guard_exact p e kids :
  cp lax p e = Ok kids -> is_ok (cp ideal p e) = true \/ exists k, cp ideal p e = Err (EFinding k).
Proof.
  intros H. destruct (ideal_exact _ _ _ H) as [E|E]; [left; rewrite E; reflexivity | right; exact E].
Qed.

(* ------------------------------------------------------------------------------------------------------------ *)
(* 4. the program side against the specification `den`, for the code itself (binary comparisons), under the reading
   guard and provided no atom loses all of its channels *)
Lemma only_dropped_cv : forall v, cv (only FDropped) v = time_of v.
Proof. reflexivity. Qed.

Lemma program_views_agree0 p e d :
  g_view p e = true -> guard_finding FDropped p e = true -> den p (qenv_of e) = Some d ->
  forall o, create_program real p e = Ok o ->
  match o with
  | None => d == 0
  | Some prog => loop_duration prog == d
                 /\ (exists q, wf_duration prog = Some q /\ q == d)
                 /\ sum_pieces 1 prog == d
  end.
Proof.
  intros Hg Hk Hd o Hc.
  apply (program_views_agree_cfg (only FDropped) only_dropped_cv eq_refl p e d Hd).
  unfold create_program in *. fold rs in *. apply rbind_ok in Hc as (kids & Hreal & Hc).
  pose proof (g_view_eq _ _ _ Hg Hreal) as Hlax. fold rs in Hlax.
  destruct (sw_exact (only FDropped) (or_intror eq_refl) _ _ _ Hlax) as [E|[k E]].
  - rewrite E. exact Hc.
  - unfold guard_finding in Hk. rewrite E in Hk. discriminate.
Qed.

(* ... and to_waveform does not raise where all leaves define the same channels *)
Theorem program_views_agree p e d :
  g_view p e = true -> guard_finding FDropped p e = true -> g_uniform p e = true -> den p (qenv_of e) = Some d ->
  forall o, create_program real p e = Ok o ->
  match o with
  | None => d == 0
  | Some prog => loop_duration prog == d
                 /\ (exists q, to_wf prog = Some q /\ q == d)
                 /\ sum_pieces 1 prog == d
  end.
Proof.
  intros Hg Hk Hu Hd o Hc. pose proof (program_views_agree0 p e d Hg Hk Hd o Hc) as H.
  unfold create_program in Hc. fold rs in Hc. apply rbind_ok in Hc as (kids & Hreal & Hc).
  unfold g_uniform in Hu. rewrite Hreal in Hu. destruct kids as [|k t]; inversion Hc; subst o; [exact H|].
  destruct H as (H1 & (q & Hq & Eq) & H3). split; [exact H1|]. split; [|exact H3].
  exists q. split; [|exact Eq]. unfold to_wf. rewrite Hu. exact Hq.
Qed.

(* all four views against `den`, floats read as their shortest decimal *)
Theorem agree_den p e d v o :
  g_view p e = true -> guard_finding FDropped p e = true -> g_uniform p e = true -> den p (qenv_of e) = Some d ->
  create_program real p e = Ok o -> sym p (decimalize e) = Ok v ->
  time_of v == d /\
  match o with
  | None => d == 0
  | Some prog => loop_duration prog == d /\ (exists q, to_wf prog = Some q /\ q == d) /\ sum_pieces 1 prog == d
  end.
Proof.
  intros Hg Hk Hu Hd Hc Hv. split.
  - eapply Sp_all; [exact Hv | rewrite qenv_decimalize; exact Hd].
  - eapply program_views_agree; eassumption.
Qed.
