(* C04 — round 6: the reading guard g_view is a consequence of "no float anywhere in the input".
   g_view p e (Proofs.v) says: the code's comparisons on the binary values (`real`) and the comparisons on the decimal
   values (`lax`) build the same program.  It is a condition on the model's OUTPUT.  Here it is derived from an INPUT
   condition: every parameter value and every literal of the template is an int or a TimeType (exact_env / exact_pt).
   Then every number the instantiation ever compares is an int or a TimeType (eval_exact), for which both readings are
   the same number, so `cp real` and `cp lax` are the same function on such inputs - whatever they answer. *)
From Coq Require Import ZArith QArith Qround Qabs Bool List Lia.
Require Import QV.C04.Model QV.C04.Spec QV.C04.Proofs QV.C04.Proofs4 QV.C04.Proofs3 QV.C04.Proofs6.
Import ListNotations.

Definition exact_env (e : env) : bool := forallb (fun xv => exactv (snd xv)) e.
Fixpoint exact_expr (x : expr) : bool :=
  match x with
  | ELit v => exactv v
  | EVar _ => true
  | EAdd a b | ESub a b | EMul a b | EMax a b => exact_expr a && exact_expr b
  | EDivK a _ => exact_expr a
  end.
Fixpoint exact_pt (p : pt) : bool :=
  match p with
  | PAtom _ _ d => exact_expr d
  | PTable chans => forallb (forallb exact_expr) (map snd chans)
  | PSeq subs => forallb exact_pt subs
  | PRep c b => exact_expr c && exact_pt b
  | PFor _ a b s body => exact_expr a && exact_expr b && exact_expr s && exact_pt body
  | PMap m _ b => forallb (fun xe => exact_expr (snd xe)) m && exact_pt b
  | PMulti decl subs => match decl with Some d => exact_expr d | None => true end && forallb exact_pt subs
  | PArith l r => exact_pt l && exact_pt r
  | PWrap b | PRev b | PSingle b => exact_pt b
  | PConstr cs b => forallb (fun lr => exact_expr (fst lr) && exact_expr (snd lr)) cs && exact_pt b
  end.

Notation E := (fun v : value => exactv v = true).

Lemma cv_exact v : exactv v = true -> raw_of v = time_of v.
Proof. destruct v; cbn; intros H; try discriminate; reflexivity. Qed.

Lemma lookup_exact e : exact_env e = true -> forall y v, lookup e y = Some v -> exactv v = true.
Proof.
  induction e as [|[x w] t IH]; cbn; intros H y v L; [discriminate|]. apply andb_prop in H as [H1 H2].
  destruct (N.eqb y x); [inversion L; subst; exact H1 | eapply IH; eauto].
Qed.

Lemma arith_ok_exact f fz u w r : exactv u = true -> exactv w = true -> arith f fz u w = Ok r -> exactv r = true.
Proof. destruct u, w; cbn; intros; try discriminate; match goal with H : Ok _ = Ok _ |- _ => inversion H end; reflexivity. Qed.

Lemma eval_exact e : exact_env e = true -> forall x v, exact_expr x = true -> eval e x = Ok v -> exactv v = true.
Proof.
  intros He. induction x; cbn [eval exact_expr]; intros v' Hx H.
  - inversion H; subst; exact Hx.
  - destruct (lookup e x) as [w|] eqn:L; [|discriminate]. pose proof (lookup_exact e He _ _ L) as Hw.
    destruct w; try discriminate; inversion H; subst; reflexivity.
  - apply andb_prop in Hx as [Ha Hb]. apply rbind_ok in H as (u & Hu & H). apply rbind_ok in H as (w & Hw & H).
    eapply arith_ok_exact; [eapply IHx1; eauto | eapply IHx2; eauto | exact H].
  - apply andb_prop in Hx as [Ha Hb]. apply rbind_ok in H as (u & Hu & H). apply rbind_ok in H as (w & Hw & H).
    eapply arith_ok_exact; [eapply IHx1; eauto | eapply IHx2; eauto | exact H].
  - apply andb_prop in Hx as [Ha Hb]. apply rbind_ok in H as (u & Hu & H). apply rbind_ok in H as (w & Hw & H).
    eapply arith_ok_exact; [eapply IHx1; eauto | eapply IHx2; eauto | exact H].
  - apply rbind_ok in H as (u & Hu & H). unfold vdivk in H. destruct u; try discriminate.
    destruct (Pos.eqb k 2 || Pos.eqb k 4 || Pos.eqb k 8)%bool; [|discriminate]. inversion H; reflexivity.
  - apply andb_prop in Hx as [Ha Hb]. apply rbind_ok in H as (u & Hu & H). apply rbind_ok in H as (w & Hw & H).
    pose proof (IHx1 _ Ha Hu) as Eu. pose proof (IHx2 _ Hb Hw) as Ew.
    destruct u, w; cbn in H; try discriminate; inversion H;
      match goal with |- context[if ?c then _ else _] => destruct c end; reflexivity.
Qed.

Lemma int_of_exact v : exactv v = true -> int_of real v = int_of lax v.
Proof. destruct v; cbn; intros H; try discriminate; reflexivity. Qed.

Lemma map_ext_forallb {A B} (f g : A -> B) (P : A -> bool) l :
  forallb P l = true -> (forall a, P a = true -> f a = g a) -> map f l = map g l.
Proof.
  intros H K. induction l as [|a t IH]; cbn in *; [reflexivity|]. apply andb_prop in H as [H1 H2].
  rewrite (K a H1), (IH H2). reflexivity.
Qed.
Lemma map_ext_F {A B} (f g : A -> B) (P : A -> Prop) l :
  Forall P l -> (forall a, P a -> f a = g a) -> map f l = map g l.
Proof. intros H K. induction H as [|a t Ha _ IH]; cbn; [reflexivity|]. rewrite (K a Ha), IH. reflexivity. Qed.
Lemma forallb_ext_F {A} (f g : A -> bool) (P : A -> Prop) l :
  Forall P l -> (forall a, P a -> f a = g a) -> forallb f l = forallb g l.
Proof. intros H K. induction H as [|a t Ha _ IH]; cbn; [reflexivity|]. rewrite (K a Ha), IH. reflexivity. Qed.

Lemma check_constr_exact e cs : exact_env e = true ->
  forallb (fun lr => exact_expr (fst lr) && exact_expr (snd lr)) cs = true -> check_constr real e cs = check_constr lax e cs.
Proof.
  intros He Hc. unfold check_constr. f_equal. f_equal. eapply map_ext_forallb; [exact Hc|].
  intros [l r] H. cbn [fst snd] in *. apply andb_prop in H as [Hl Hr].
  destruct (eval e l) as [u| |] eqn:Eu; cbn [rbind]; try reflexivity.
  destruct (eval e r) as [w| |] eqn:Ew; cbn [rbind]; try reflexivity.
  change (cv real) with raw_of. change (cv lax) with time_of.
  rewrite (cv_exact u (eval_exact e He _ _ Hl Eu)), (cv_exact w (eval_exact e He _ _ Hr Ew)). reflexivity.
Qed.

Lemma map_env_exact e m e' : exact_env e = true -> forallb (fun xe => exact_expr (snd xe)) m = true ->
  map_env e m = Ok e' -> exact_env e' = true.
Proof.
  unfold map_env. intros He Hm H. apply rbind_ok in H as (vs & Hvs & H). inversion H; subst; clear H.
  unfold exact_env. rewrite forallb_app. apply andb_true_intro. split; [|exact He].
  revert vs Hvs. induction m as [|[x ex] m IH]; cbn [map rall]; intros vs Hvs.
  - inversion Hvs; reflexivity.
  - cbn [forallb snd] in Hm. apply andb_prop in Hm as [H1 H2].
    apply rbind_ok in Hvs as (a & Ha & Hvs). apply rbind_ok in Hvs as (t & Ht & Hvs). inversion Hvs; subst; clear Hvs.
    cbn [fst snd] in Ha. apply rbind_ok in Ha as (v & Hv & Ha). inversion Ha; subst; clear Ha.
    cbn [forallb snd]. rewrite (eval_exact e He _ _ H1 Hv), (IH H2 _ Ht). reflexivity.
Qed.

(* ---- tables *)
Definition table_body (f : value -> Q) (cs : list (option Z)) (vals : list (list value)) : res (option comps) :=
  let ins := map (fun ts => match ts with v :: _ => if Qltb 0 (f v) then VInt 0 :: ts else ts | [] => ts end) vals in
  match map lastv ins with
  | [] => Err EOther
  | a :: t =>
      let dur := pymax_list f a t in
      if Qeqb (f dur) 0 then Ok None else
      let padded := map (fun ts => if Qltb (f (lastv ts)) (f dur) then ts ++ [dur] else ts) ins in
      let kept := somes (map (fun ct => match fst ct with Some c => Some (c, snd ct) | None => None end)
                             (combine cs padded)) in
      match kept with
      | [] => Ok None
      | _ =>
      if forallb (fun ts => match ts with v :: _ => Qeqb (f v) 0 && sortedq (map f ts) | [] => false end) (map snd kept)
      then Ok (Some (mk_comps (map fst kept) (time_of dur))) else Err ETable
      end
  end.
Lemma table_wf_body f e chans :
  table_wf f e chans = do vals <- rall (map (fun ts => rall (map (eval e) ts)) (map snd chans)); table_body f (map fst chans) vals.
Proof. reflexivity. Qed.

Lemma pymax_list_exact : forall t a, E a -> Forall E t ->
  pymax_list raw_of a t = pymax_list time_of a t /\ E (pymax_list time_of a t).
Proof.
  induction t as [|b t IH]; cbn [pymax_list]; intros a Ha Ht; [auto|]. inversion Ht; subst.
  assert (P : pymax raw_of a b = pymax time_of a b) by (unfold pymax; rewrite !cv_exact by assumption; reflexivity).
  rewrite P. apply IH; [|assumption]. unfold pymax. destruct (Qltb _ _); assumption.
Qed.

Lemma lastv_exact ts : Forall E ts -> E (lastv ts).
Proof.
  unfold lastv. induction 1 as [|a t Ha Ht IH]; [reflexivity|]. destruct t; [exact Ha | exact IH].
Qed.

Lemma kept_exact : forall (cs : list (option Z)) (padded : list (list value)), Forall (Forall E) padded ->
  Forall (Forall E) (map snd (somes (map (fun ct : option Z * list value =>
                                            match fst ct with Some c => Some (c, snd ct) | None => None end) (combine cs padded)))).
Proof.
  induction cs as [|c cs IH]; intros [|p padded] H; cbn; try constructor.
  inversion H; subst. destruct c; cbn; [constructor; [assumption | apply IH; assumption] | apply IH; assumption].
Qed.

Lemma table_body_exact cs vals : Forall (Forall E) vals -> table_body raw_of cs vals = table_body time_of cs vals.
Proof.
  intros LV. unfold table_body. cbv zeta.
  assert (I : map (fun ts => match ts with v :: _ => if Qltb 0 (raw_of v) then VInt 0 :: ts else ts | [] => ts end) vals
              = map (fun ts => match ts with v :: _ => if Qltb 0 (time_of v) then VInt 0 :: ts else ts | [] => ts end) vals).
  { eapply map_ext_F; [exact LV|]. intros [|v ts] H; [reflexivity|]. inversion H; subst. rewrite cv_exact by assumption. reflexivity. }
  rewrite I. clear I.
  set (ins := map (fun ts => match ts with v :: _ => if Qltb 0 (time_of v) then VInt 0 :: ts else ts | [] => ts end) vals).
  assert (LI : Forall (Forall E) ins).
  { subst ins. induction LV as [|ts vals Hts _ IH]; cbn [map]; constructor; [|exact IH].
    destruct ts as [|v ts]; [constructor|]. destruct (Qltb 0 (time_of v)); [constructor; [reflexivity|]|]; exact Hts. }
  clearbody ins.
  assert (LL : Forall E (map lastv ins)).
  { induction LI as [|ts ins Hts _ IH]; cbn [map]; constructor; [apply lastv_exact; exact Hts | exact IH]. }
  destruct (map lastv ins) as [|a t] eqn:Hl; [reflexivity|]. inversion LL; subst.
  destruct (pymax_list_exact t a) as [P Ed]; try assumption. rewrite P. clear P.
  set (dur := pymax_list time_of a t) in *. clearbody dur.
  rewrite (cv_exact dur Ed). destruct (Qeqb (time_of dur) 0); [reflexivity|].
  assert (Pd : map (fun ts => if Qltb (raw_of (lastv ts)) (time_of dur) then ts ++ [dur] else ts) ins
               = map (fun ts => if Qltb (time_of (lastv ts)) (time_of dur) then ts ++ [dur] else ts) ins).
  { eapply map_ext_F; [exact LI|]. intros ts H. cbv beta. rewrite (cv_exact (lastv ts)) by (apply lastv_exact; exact H). reflexivity. }
  rewrite Pd. clear Pd.
  set (padded := map (fun ts => if Qltb (time_of (lastv ts)) (time_of dur) then ts ++ [dur] else ts) ins).
  assert (LP : Forall (Forall E) padded).
  { subst padded. clear Hl LL. induction LI as [|ts ins Hts _ IH]; cbn [map]; constructor; [|exact IH].
    destruct (Qltb _ _); [|exact Hts]. apply Forall_app. split; [exact Hts | constructor; [exact Ed | constructor]]. }
  clearbody padded.
  pose proof (kept_exact cs padded LP) as LK.
  set (kept := somes (map (fun ct : option Z * list value => match fst ct with Some c => Some (c, snd ct) | None => None end)
                          (combine cs padded))) in *.
  clearbody kept. destruct kept as [|k0 kept]; [reflexivity|].
  rewrite (forallb_ext_F (fun ts => match ts with v :: _ => Qeqb (raw_of v) 0 && sortedq (map raw_of ts) | [] => false end)
                         (fun ts => match ts with v :: _ => Qeqb (time_of v) 0 && sortedq (map time_of ts) | [] => false end)
                         (Forall E) _ LK); [reflexivity|].
  intros [|v ts] H; [reflexivity|]. inversion H; subst. rewrite (cv_exact v) by assumption.
  rewrite (map_ext_F raw_of time_of E (v :: ts) H cv_exact). reflexivity.
Qed.

Lemma table_wf_exact e chans : exact_env e = true -> forallb (forallb exact_expr) (map snd chans) = true ->
  table_wf raw_of e chans = table_wf time_of e chans.
Proof.
  intros He Hc. rewrite !table_wf_body.
  destruct (rall (map (fun ts => rall (map (eval e) ts)) (map snd chans))) as [vals| |] eqn:Hv; cbn [rbind]; try reflexivity.
  apply table_body_exact. apply rall_map_inv in Hv.
  revert Hc. induction Hv as [|ts vs l l' Hts _ IH]; cbn [forallb]; intros Hc; constructor.
  - apply andb_prop in Hc as [H1 _]. apply rall_map_inv in Hts. clear IH.
    induction Hts as [|x v l1 l1' Hx _ IH1]; constructor.
    + cbn [forallb] in H1. apply andb_prop in H1 as [H1 _]. eapply eval_exact; eauto.
    + apply IH1. cbn [forallb] in H1. apply andb_prop in H1 as [_ H1]. exact H1.
  - apply IH. apply andb_prop in Hc as [_ H2]. exact H2.
Qed.

(* ---- atomic templates *)
Lemma wf_of_exact : forall p e, exact_env e = true -> exact_pt p = true -> wf_of real p e = wf_of lax p e.
Proof.
  induction p using pt_ind'; intros e He Hp; cbn [wf_of exact_pt] in *; try reflexivity.
  - (* atom *)
    change (s_dropped real) with false. change (s_dropped lax) with false.
    change (s_negdur real) with false. change (s_negdur lax) with false.
    change (cv real) with raw_of. change (cv lax) with time_of. cbn [andb].
    destruct (eval e d) as [v| |] eqn:Hv; cbn [rbind]; try reflexivity.
    rewrite (cv_exact v (eval_exact e He _ _ Hp Hv)). reflexivity.
  - (* table *)
    change (s_dropped real) with false. change (s_dropped lax) with false. cbn [andb].
    apply table_wf_exact; assumption.
  - (* map *)
    apply andb_prop in Hp as [Hm Hb].
    destruct (map_env e m) as [e'| |] eqn:Hme; cbn [rbind]; try reflexivity.
    apply IHp; [eapply map_env_exact; eauto | exact Hb].
  - (* multi *)
    apply andb_prop in Hp as [Hd Hs].
    assert (M : map (fun s => wf_of real s e) subs = map (fun s => wf_of lax s e) subs).
    { clear Hd. induction H as [|c t Hc _ IH]; cbn [map]; [reflexivity|]. cbn [forallb] in Hs. apply andb_prop in Hs as [H1 H2].
      rewrite (Hc e He H1), (IH H2). reflexivity. }
    rewrite M. clear M.
    destruct (rall (map (fun s => wf_of lax s e) subs)) as [ws| |]; cbn [rbind]; try reflexivity.
    change (s_parallel real) with false. change (s_parallel lax) with false.
    change (cv real) with raw_of. change (cv lax) with time_of. cbn [andb].
    destruct (somes ws) as [|w1 rest]; [reflexivity|].
    destruct (match rest with [] => Ok w1 | _ :: _ => parallel (concat (w1 :: rest)) end) as [w| |]; cbn [rbind]; try reflexivity.
    destruct d as [d|]; [|reflexivity].
    destruct (eval e d) as [dv| |] eqn:Hv; cbn [rbind]; try reflexivity.
    rewrite (cv_exact dv (eval_exact e He _ _ Hd Hv)). reflexivity.
  - (* arith *)
    apply andb_prop in Hp as [H1 H2]. rewrite (IHp1 e He H1), (IHp2 e He H2).
    change (s_parallel real) with false. change (s_parallel lax) with false. reflexivity.
  - (* wrap *) rewrite (IHp e He Hp). reflexivity.
  - (* constr *)
    apply andb_prop in Hp as [Hc Hb]. rewrite (check_constr_exact e cs He Hc).
    destruct (check_constr lax e cs); cbn [rbind]; try reflexivity. apply IHp; assumption.
  - (* single *) apply IHp; assumption.
Qed.

(* ---- programs *)
Theorem cp_exact : forall p e, exact_env e = true -> exact_pt p = true -> cp real p e = cp lax p e.
Proof.
  induction p using pt_ind'; intros e He Hp.
  - cbn [cp]. rewrite (wf_of_exact _ e He Hp). reflexivity.
  - cbn [cp]. rewrite (wf_of_exact _ e He Hp). reflexivity.
  - (* seq *)
    cbn [cp exact_pt] in *. f_equal. f_equal.
    induction H as [|c t Hc _ IH]; cbn [map]; [reflexivity|]. cbn [forallb] in Hp. apply andb_prop in Hp as [H1 H2].
    rewrite (Hc e He H1), (IH H2). reflexivity.
  - (* rep *)
    cbn [cp exact_pt] in *. apply andb_prop in Hp as [Hc Hb].
    destruct (eval e c) as [v| |] eqn:Hv; cbn [rbind]; try reflexivity.
    rewrite (int_of_exact v (eval_exact e He _ _ Hc Hv)).
    destruct (int_of lax v) as [n| |]; cbn [rbind]; try reflexivity.
    change (s_negcount real) with false. change (s_negcount lax) with false. cbn [andb].
    rewrite (IHp e He Hb). reflexivity.
  - (* for *)
    cbn [cp exact_pt] in *. apply andb_prop in Hp as [Hp Hbody]. apply andb_prop in Hp as [Hp Hs]. apply andb_prop in Hp as [Ha Hb].
    destruct (eval e a) as [va| |] eqn:Hva; cbn [rbind]; try reflexivity.
    rewrite (int_of_exact va (eval_exact e He _ _ Ha Hva)). destruct (int_of lax va) as [ia| |]; cbn [rbind]; try reflexivity.
    destruct (eval e b) as [vb| |] eqn:Hvb; cbn [rbind]; try reflexivity.
    rewrite (int_of_exact vb (eval_exact e He _ _ Hb Hvb)). destruct (int_of lax vb) as [ib| |]; cbn [rbind]; try reflexivity.
    destruct (eval e s) as [vs| |] eqn:Hvs; cbn [rbind]; try reflexivity.
    rewrite (int_of_exact vs (eval_exact e He _ _ Hs Hvs)). destruct (int_of lax vs) as [is| |]; cbn [rbind]; try reflexivity.
    destruct (is =? 0)%Z; [reflexivity|]. f_equal. f_equal. apply map_ext. intros v.
    apply IHp; [|exact Hbody]. unfold exact_env in *. cbn [forallb snd exactv]. exact He.
  - (* map *)
    cbn [cp exact_pt] in *. apply andb_prop in Hp as [Hm Hb].
    destruct (map_env e m) as [e'| |] eqn:Hme; cbn [rbind]; try reflexivity.
    apply IHp; [eapply map_env_exact; eauto | exact Hb].
  - cbn [cp]. rewrite (wf_of_exact _ e He Hp). reflexivity.
  - cbn [cp]. rewrite (wf_of_exact _ e He Hp). reflexivity.
  - (* wrap *) cbn [cp exact_pt] in *. apply IHp; assumption.
  - (* rev *) cbn [cp exact_pt] in *. rewrite (IHp e He Hp). reflexivity.
  - (* constr *)
    cbn [cp exact_pt] in *. apply andb_prop in Hp as [Hc Hb]. rewrite (check_constr_exact e cs He Hc).
    destruct (check_constr lax e cs); cbn [rbind]; try reflexivity. apply IHp; assumption.
  - (* single *) cbn [cp exact_pt] in *. rewrite (IHp e He Hp). reflexivity.
Qed.

Lemma exact_resolve : forall p f, exact_pt (resolve f p) = exact_pt p.
Proof.
  induction p using pt_ind'; intros f; cbn [resolve exact_pt]; try reflexivity;
    try (rewrite ?IHp, ?IHp1, ?IHp2; reflexivity).
  - f_equal. rewrite map_map. cbn [snd]. reflexivity.
  - induction H as [|c t Hc _ IH]; cbn; [reflexivity|]. rewrite Hc. f_equal. exact IH.
  - f_equal. induction H as [|c t Hc _ IH]; cbn; [reflexivity|]. rewrite Hc. f_equal. exact IH.
Qed.

(* the code (binary reading of every comparison) and the decimal reading are the same function on inputs without floats *)
Theorem exact_inputs_same_reading p e :
  exact_env e = true -> exact_pt p = true -> cp real (resolve idf p) e = cp lax (resolve idf p) e.
Proof. intros He Hp. apply cp_exact; [exact He | rewrite exact_resolve; exact Hp]. Qed.

Lemma loop_same_refl : forall a, loop_same a a = true.
Proof.
  induction a as [r chs d|r kids H] using loop_ind'; cbn.
  - rewrite Z.eqb_refl. cbn. assert (Z : zs_eqb chs chs = true) by (induction chs as [|x t IH]; cbn; [reflexivity | rewrite Z.eqb_refl; exact IH]).
    rewrite Z. unfold Qsame. rewrite Z.eqb_refl, Pos.eqb_refl. reflexivity.
  - rewrite Z.eqb_refl. cbn. induction H as [|k t Hk _ IH]; [reflexivity|]. rewrite Hk. exact IH.
Qed.
Lemma loops_same_refl : forall l, loops_same l l = true.
Proof. induction l as [|k t IH]; cbn; [reflexivity|]. rewrite loop_same_refl. exact IH. Qed.

(* g_view from the input condition: it holds exactly when the code accepts *)
Theorem g_view_of_exact_inputs p e :
  exact_env e = true -> exact_pt p = true -> g_view p e = is_ok (cp real (rs p) e).
Proof.
  intros He Hp. unfold g_view, rs. rewrite <- (exact_inputs_same_reading p e He Hp).
  destruct (cp real (resolve idf p) e) as [kids| |]; cbn; [apply loops_same_refl | reflexivity | reflexivity].
Qed.

(* THE property without the reading guard: for inputs without floats, where no finding class is met (cp ideal accepts) and
   the leaves define the same channels, the code accepts and all four views are the same rational number *)
Theorem agree_exact_inputs p e v :
  exact_env e = true -> exact_pt p = true -> is_ok (cp ideal (rs p) e) = true -> g_uniform p e = true ->
  sym p (decimalize e) = Ok v ->
  exists o, create_program real p e = Ok o /\
  match o with
  | None => time_of v == 0
  | Some prog => loop_duration prog == time_of v
                 /\ (exists q, to_wf prog = Some q /\ q == time_of v)
                 /\ sum_pieces 1 prog == time_of v
  end.
Proof.
  intros He Hp Hi Hu Hv. apply agree_tight; [|exact Hv]. unfold guard_C04. rewrite Hi, Hu.
  rewrite (g_view_of_exact_inputs p e He Hp).
  destruct (cp ideal (rs p) e) as [kids| |] eqn:Hk; try discriminate.
  unfold rs in *. rewrite (exact_inputs_same_reading p e He Hp), (ideal_refines _ _ _ Hk). reflexivity.
Qed.

(* the program side against `den` without the reading guard *)
Theorem program_views_agree_exact_inputs p e d :
  exact_env e = true -> exact_pt p = true -> guard_finding FDropped p e = true -> g_uniform p e = true ->
  den p (qenv_of e) = Some d ->
  forall o, create_program real p e = Ok o ->
  match o with
  | None => d == 0
  | Some prog => loop_duration prog == d
                 /\ (exists q, to_wf prog = Some q /\ q == d)
                 /\ sum_pieces 1 prog == d
  end.
Proof.
  intros He Hp Hk Hu Hd o Hc. apply (program_views_agree p e d); try assumption.
  rewrite (g_view_of_exact_inputs p e He Hp). unfold create_program in Hc. fold rs in Hc.
  apply rbind_ok in Hc as (kids & Hreal & _). rewrite Hreal. reflexivity.
Qed.

(* non-vacuity: the for-loop example of Proofs3 (negative step, index-dependent body, table, atomic arithmetic; TimeType
   and int parameters) satisfies every hypothesis of agree_exact_inputs, and so do the mapping examples; necessity: on
   the float input w_view the two readings build different programs *)
Lemma example_exact_inputs :
  exact_env ex_for_env = true /\ exact_pt ex_for = true /\ is_ok (cp ideal (rs ex_for) ex_for_env) = true
  /\ g_uniform ex_for ex_for_env = true /\ (exists v, sym ex_for (decimalize ex_for_env) = Ok v /\ time_of v == 9 # 2)
  /\ exact_env ex_swap_env = true /\ exact_pt ex_swap = true /\ exact_pt ex_drop = true
  /\ exact_env (snd w_view) = false /\ exact_pt (fst w_view) = true /\ g_view (fst w_view) (snd w_view) = false.
Proof.
  repeat (split; [vm_compute; reflexivity|]). split; [eexists; split; vm_compute; reflexivity|].
  repeat (split; [vm_compute; reflexivity|]). vm_compute; reflexivity.
Qed.
