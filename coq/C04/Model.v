(* C04 — operational model of the `duration` side of qupulse (definitions only, executable, total).

   Mirrors, for duration purposes only:
     qupulse/pulses/*_pulse_template.py   `duration` properties            -> sym
     the same classes' `_internal_create_program` / `build_waveform`       -> cp / wf_of
     qupulse/program/loop.py  Loop.duration/body_duration, to_waveform     -> loop_duration / wf_duration
     qupulse/pulses/range.py ParametrizedRange.to_range + Python `range`   -> zrange
     qupulse/utils/__init__.py checked_int_cast                            -> int_of
     qupulse/program/waveforms.py _to_time_type (shortest decimal of a float; the decimal is supplied exactly)
   A number is an int, a TimeType or a float; floats carry their exact binary value and the value of their shortest
   decimal representation.  Any arithmetic in which a float takes part is `Inexact` (binary rounding is not modelled;
   such inputs are outside the property and are not judged).

   Two readings of a number are used by the code and kept apart here:
     time_of  the value it has once converted to a TimeType (`_to_time_type` = TimeType.from_float default = the
              shortest decimal of a float): waveform durations;
     raw_of   the value Python comparisons see (a float's binary value; gmpy2 compares mpq with float exactly):
              `duration > 0`, table `t > 0` / `max` / `t < duration` / `_validate_input`, `round`/`abs(x - int_x) > 1e-6`
              in checked_int_cast, parameter constraints, the first argument of the declared-duration isclose.
   Every function that compares takes a configuration `cfg`: the reading used by comparisons plus four ghost switches
   that turn the input classes of the known findings into explicit `EFinding` errors.  `real` (raw reading, no switch)
   is the code; `lax` (decimal reading) and `ideal` (decimal reading, all switches) are used by guards and proofs. *)
From Coq Require Import ZArith QArith Qround Qabs Bool List.
Import ListNotations.
Open Scope Z_scope.

Definition ident := N.
Inductive finding := FNegCount | FNegDuration | FNearInteger | FParallel | FDropped.
Inductive errkind := EMissing | ENotInt | EZeroStep | EMismatch | ETable | EConstraint | EOther | EFinding (k : finding).
Inductive res (A : Type) : Type := Ok (a : A) | Inexact | Err (k : errkind).
Arguments Ok {A} a. Arguments Inexact {A}. Arguments Err {A} k.

Definition rbind {A B} (r : res A) (f : A -> res B) : res B :=
  match r with Ok a => f a | Inexact => Inexact | Err k => Err k end.
Notation "'do' x <- r ; k" := (rbind r (fun x => k)) (at level 200, x name, r at level 100, k at level 200).

Fixpoint rall {A} (l : list (res A)) : res (list A) :=
  match l with
  | [] => Ok []
  | r :: t => do a <- r; do t' <- rall t; Ok (a :: t')
  end.

(* ------------------------------------------------------------------------------------------------------------ *)
(* numbers *)
(* VBad: a number of a type `evaluate_numeric` rejects (fractions.Fraction, gmpy2.mpq): NonNumericEvaluation *)
Inductive value := VInt (z : Z) | VTime (q : Q) | VFloat (exact dec : Q) | VBad (q : Q).

(* the value a number has as a time (TimeType as is, int exactly, float -> its shortest decimal) *)
Definition time_of (v : value) : Q :=
  match v with VInt z => inject_Z z | VTime q => q | VFloat _ d => d | VBad q => q end.
(* the value Python comparisons see (==, <, >, max, round): for a float its binary value *)
Definition raw_of (v : value) : Q :=
  match v with VInt z => inject_Z z | VTime q => q | VFloat x _ => x | VBad q => q end.

Record cfg := { cv : value -> Q; s_negcount : bool; s_negdur : bool; s_nearint : bool; s_parallel : bool; s_dropped : bool }.
Definition real : cfg := {| cv := raw_of; s_negcount := false; s_negdur := false; s_nearint := false; s_parallel := false; s_dropped := false |}.
Definition lax : cfg := {| cv := time_of; s_negcount := false; s_negdur := false; s_nearint := false; s_parallel := false; s_dropped := false |}.
Definition ideal : cfg := {| cv := time_of; s_negcount := true; s_negdur := true; s_nearint := true; s_parallel := true; s_dropped := true |}.
(* exactly one finding class made explicit (classes are defined on time values: decimal reading) *)
Definition only (k : finding) : cfg :=
  {| cv := time_of;
     s_negcount := match k with FNegCount => true | _ => false end;
     s_negdur := match k with FNegDuration => true | _ => false end;
     s_nearint := match k with FNearInteger => true | _ => false end;
     s_parallel := match k with FParallel => true | _ => false end;
     s_dropped := match k with FDropped => true | _ => false end |}.

Definition Qleb (a b : Q) : bool := Qle_bool a b.
Definition Qltb (a b : Q) : bool := negb (Qle_bool b a).
Definition Qeqb (a b : Q) : bool := Qeq_bool a b.

Definition arith (f : Q -> Q -> Q) (fz : Z -> Z -> Z) (a b : value) : res value :=
  match a, b with
  | VInt x, VInt y => Ok (VInt (fz x y))
  | VInt x, VTime q => Ok (VTime (f (inject_Z x) q))
  | VTime q, VInt y => Ok (VTime (f q (inject_Z y)))
  | VTime p, VTime q => Ok (VTime (f p q))
  | _, _ => Inexact
  end.
Definition vadd := arith Qplus Z.add.
Definition vsub := arith Qminus Z.sub.
Definition vmul := arith Qmult Z.mul.
(* division by an integer literal: exact only for a time value and a power of two <= 8 (the rational literal 1/k is
   printed as a Python float by lambdify) *)
Definition vdivk (a : value) (k : positive) : res value :=
  match a with
  | VTime q => if (Pos.eqb k 2 || Pos.eqb k 4 || Pos.eqb k 8)%bool then Ok (VTime (q / (Zpos k # 1))) else Inexact
  | _ => Inexact
  end.
Definition vmax (a b : value) : res value :=
  match a, b with
  | VFloat _ _, _ | _, VFloat _ _ => Inexact
  | VBad _, _ | _, VBad _ => Inexact
  | _, _ => Ok (if Qleb (time_of a) (time_of b) then b else a)
  end.
(* builtin max(a, b): b only if b > a, on the raw values *)
Definition pymax (f : value -> Q) (a b : value) : value := if Qltb (f a) (f b) then b else a.

(* Python round(): nearest, ties to even *)
Definition Qround_half_even (a : Q) : Z :=
  let f := Qfloor a in
  let r := (a - inject_Z f)%Q in
  match Qcompare r (1 # 2) with
  | Lt => f
  | Gt => f + 1
  | Eq => if Z.even f then f else f + 1
  end.
(* float(1e-6), exactly *)
Definition eps_cast : Q := 4722366482869645 # 4722366482869645213696.
(* checked_int_cast: round(x), abs(x - int_x) > 1e-6 on the raw value (x - round(x) is exact in binary floating
   point); ghost switch: a value that is not an integer but is rounded to one *)
Definition int_of (c : cfg) (v : value) : res Z :=
  match v with
  | VInt z => Ok z
  | _ => let x := cv c v in
         let r := Qround_half_even x in
         if Qltb eps_cast (Qabs (x - inject_Z r)) then Err ENotInt
         else if s_nearint c && negb (Qeqb x (inject_Z r)) then Err (EFinding FNearInteger) else Ok r
  end.

(* math.isclose(a, b) with the default rel_tol = 1e-9, abs_tol = 0.  The code calls it on float(a), float(b) (a TimeType
   is rounded to the nearest double first) and evaluates it in double arithmetic; the model evaluates it on the exact
   rationals: the two can differ only within ~1e-16 relative of the 1e-9 boundary, which is never generated *)
Definition isclose (a b : Q) : bool :=
  Qleb (Qabs (a - b)) ((1 # 1000000000) * (if Qleb (Qabs a) (Qabs b) then Qabs b else Qabs a)).

(* ------------------------------------------------------------------------------------------------------------ *)
(* expressions *)
Inductive expr :=
| ELit (v : value)
| EVar (x : ident)
| EAdd (a b : expr) | ESub (a b : expr) | EMul (a b : expr)
| EDivK (a : expr) (k : positive)
| EMax (a b : expr).

Definition env := list (ident * value).
Fixpoint lookup {A} (e : list (ident * A)) (x : ident) : option A :=
  match e with
  | [] => None
  | (y, v) :: t => if N.eqb x y then Some v else lookup t x
  end.

Fixpoint eval (e : env) (x : expr) : res value :=
  match x with
  | ELit v => Ok v
  | EVar y => match lookup e y with Some (VBad _) => Err EOther | Some v => Ok v | None => Err EMissing end
  | EAdd a b => do u <- eval e a; do w <- eval e b; vadd u w
  | ESub a b => do u <- eval e a; do w <- eval e b; vsub u w
  | EMul a b => do u <- eval e a; do w <- eval e b; vmul u w
  | EDivK a k => do u <- eval e a; vdivk u k
  | EMax a b => do u <- eval e a; do w <- eval e b; vmax u w
  end.

(* ------------------------------------------------------------------------------------------------------------ *)
(* templates, as far as durations are concerned *)
Inductive akind := KConst | KFunc.
Inductive pt :=
| PAtom (k : akind) (chs : list (option Z)) (d : expr)
    (* ConstantPT / FunctionPT; chs = its channels as the enclosing channel mappings leave them: Some c = played as
       channel c (channel ids are numbered in the sort order of the channel names), None = dropped *)
| PTable (chans : list (option Z * list expr))
    (* TablePT: entry times per channel / PointPT: the same list of times for every channel *)
| PSeq (subs : list pt)
| PRep (count : expr) (body : pt)
| PFor (idx : ident) (start stop step : expr) (body : pt)
| PMap (m : list (ident * expr)) (cm : list (Z * option Z)) (body : pt)
    (* MappingPT: parameter mapping (all right hand sides are read in the OUTER scope: simultaneous substitution) and
       channel mapping (channel -> Some new name | None = dropped; channels not listed keep their name) *)
| PMulti (declared : option expr) (subs : list pt)  (* AtomicMultiChannelPT *)
| PArith (lhs rhs : pt)                             (* ArithmeticAtomicPT *)
| PWrap (body : pt)                                 (* ArithmeticPT with a scalar operand *)
| PRev (body : pt)                                  (* TimeReversalPT *)
| PConstr (cs : list (expr * expr)) (body : pt)     (* parameter_constraints=['lhs <= rhs', ...] on `body` *)
| PSingle (body : pt).                              (* `body` is in create_program's to_single_waveform set *)

Definition map_env (e : env) (m : list (ident * expr)) : res env :=
  do vs <- rall (map (fun xe => do v <- eval e (snd xe); Ok (fst xe, v)) m); Ok (vs ++ e).

Fixpoint vsum (l : list value) : res value :=      (* builtin sum(): 0 + x1 + x2 + ... *)
  match l with
  | [] => Ok (VInt 0)
  | v :: t => do s <- vsum t; vadd v s
  end.
Fixpoint vmax_list (a : value) (l : list value) : res value :=
  match l with
  | [] => Ok a
  | b :: t => do m <- vmax a b; vmax_list m t
  end.

Definition last_expr (l : list expr) : expr := last l (ELit (VInt 0)).

(* ---- the symbolic duration of every class, evaluated at an environment (substitution = environment extension) *)
Fixpoint sym (p : pt) (e : env) : res value :=
  match p with
  | PAtom _ _ d => eval e d
  | PTable chans =>                  (* sympy.Max over the last entry time of EVERY channel (dropped or not) *)
      do ls <- rall (map (fun ts => eval e (last_expr ts)) (map snd chans));
      match ls with [] => Err EOther | a :: t => vmax_list a t end
  | PSeq subs => do ds <- rall (map (fun c => sym c e) subs); vsum ds
  | PRep c b => do n <- eval e c; do d <- sym b e; vmul n d
  | PFor i a b s body =>
      (* Piecewise((0, n <= 0), (Sum(body[i := start + i*step], (i, 0, Max(n, 1) - 1)), True)), n = ceiling((stop-start)/step);
         both branches are evaluated (numpy.select) *)
      do va <- eval e a; do vb <- eval e b; do vs <- eval e s;
      if Qeqb (time_of vs) 0 then Err EZeroStep else
      let n := Qceiling ((time_of vb - time_of va) / time_of vs) in
      if 100000 <? n then Err EOther else        (* the model refuses to unroll a sum of more than 1e5 terms *)
      do terms <- rall (map (fun k => do ks <- vmul (VInt (Z.of_nat k)) vs; do iv <- vadd va ks; sym body ((i, iv) :: e))
                            (seq 0 (Z.to_nat (Z.max n 1))));
      do total <- vsum terms;
      if n <=? 0 then Ok (VInt 0) else Ok total
  | PMap m _ b => do e' <- map_env e m; sym b e'    (* the channel mapping plays no role in `duration` *)
  | PMulti decl subs =>
      match decl with
      | Some d => eval e d
      | None => match subs with c :: _ => sym c e | [] => Err EOther end
      end
  | PArith l r => do u <- sym l e; do w <- sym r e; vmax u w       (* Max(lhs.duration, rhs.duration) *)
  | PWrap b => sym b e
  | PRev b => sym b e
  | PConstr _ b => sym b e
  | PSingle b => sym b e
  end.

(* every float parameter replaced by the time value of its shortest decimal: "the parameters as given" *)
Definition decimalize_value (v : value) : value := match v with VFloat _ d => VTime d | _ => v end.
Definition decimalize (e : env) : env := map (fun xv => (fst xv, decimalize_value (snd xv))) e.

(* ------------------------------------------------------------------------------------------------------------ *)
(* channel mappings.  They do not depend on parameters, and every template hands the mapping it received on to its
   parts unchanged except MappingPT, which composes (get_updated_channel_mapping:
   {inner: None if outer is None else channel_mapping[outer]}).  `resolve f p` performs exactly this threading once and
   for all: it pushes the mapping `f` received from outside down to the atoms and records there what becomes of each
   of their channels.  wf_of / cp below work on resolved templates (they do not look at `cm` any more);
   `create_program` is the entry point and resolves with the identity mapping. *)
Fixpoint lookupz {A} (m : list (Z * A)) (x : Z) : option A :=
  match m with [] => None | (y, v) :: t => if Z.eqb x y then Some v else lookupz t x end.
Definition idf (c : Z) : option Z := Some c.
Definition compose_cm (f : Z -> option Z) (cm : list (Z * option Z)) (c : Z) : option Z :=
  match lookupz cm c with
  | Some (Some o) => f o
  | Some None => None
  | None => f c             (* "fill up implicit mappings (unchanged channels)" *)
  end.
Definition map_ch (f : Z -> option Z) (oc : option Z) : option Z := match oc with Some c => f c | None => None end.
Fixpoint resolve (f : Z -> option Z) (p : pt) : pt :=
  match p with
  | PAtom k chs d => PAtom k (map (map_ch f) chs) d
  | PTable chans => PTable (map (fun cts => (map_ch f (fst cts), snd cts)) chans)
  | PSeq subs => PSeq (map (resolve f) subs)
  | PRep c b => PRep c (resolve f b)
  | PFor i a b s body => PFor i a b s (resolve f body)
  | PMap m cm b => PMap m [] (resolve (compose_cm f cm) b)
  | PMulti d subs => PMulti d (map (resolve f) subs)
  | PArith l r => PArith (resolve f l) (resolve f r)
  | PWrap b => PWrap (resolve f b)
  | PRev b => PRev (resolve f b)
  | PConstr cs b => PConstr cs (resolve f b)
  | PSingle b => PSingle (resolve f b)
  end.

(* ------------------------------------------------------------------------------------------------------------ *)
(* Python range(a, b, s), s <> 0, by its defining loop; fuel |b - a| always suffices *)
Fixpoint range_fuel (fuel : nat) (x b s : Z) : list Z :=
  match fuel with
  | O => []
  | S f => if (if 0 <? s then x <? b else b <? x) then x :: range_fuel f (x + s) b s else []
  end.
Definition zrange (a b s : Z) : list Z := range_fuel (Z.to_nat (Z.abs (b - a))) a b s.

(* ------------------------------------------------------------------------------------------------------------ *)
(* atomic templates: build_waveform.  A waveform is the list of its single-channel components (channel, duration),
   sorted by channel; its duration is the duration of the first component (MultiChannelWaveform.duration =
   _sub_waveforms[0].duration); an arithmetic / transforming waveform is one component under its lowest channel. *)
Definition comps := list (Z * Q).
Definition cdur (c : comps) : Q := match c with (_, d) :: _ => d | [] => 0 end.

Fixpoint insert_comp (x : Z * Q) (l : comps) : comps :=
  match l with
  | [] => [x]
  | y :: t => if fst y <=? fst x then y :: insert_comp x t else x :: l      (* stable *)
  end.
Definition sort_comps (l : comps) : comps := fold_right insert_comp [] l.
(* one component of duration d per played channel *)
Definition mk_comps (kc : list Z) (d : Q) : comps := sort_comps (map (fun c => (c, d)) kc).
Definition wf_mk (kc : list Z) (d : Q) : option comps := match kc with [] => None | _ => Some (mk_comps kc d) end.
Definition is_nil {A} (l : list A) : bool := match l with [] => true | _ => false end.
(* a waveform that is not a parallel composition of single-channel waveforms (TransformingWaveform, ArithmeticWaveform):
   one duration for all of its channels.  As the parts of a parallel composition have disjoint channels, sorting the
   single-channel entries puts an entry of the part with the lowest channel first, exactly as sorting the parts by
   their channel tuples does *)
Definition recomp (w : comps) (q : Q) : comps := map (fun x => (fst x, q)) w.
Definition union_z (a b : list Z) : list Z := a ++ filter (fun x => negb (existsb (Z.eqb x) a)) b.

(* MultiChannelWaveform(flattened): sort by channels, all durations isclose to the first *)
Definition parallel (l : comps) : res comps :=
  let s := sort_comps l in
  if forallb (fun c => isclose (snd c) (cdur s)) s then Ok s else Err EMismatch.

Fixpoint sortedq (l : list Q) : bool :=
  match l with
  | a :: ((b :: _) as t) => Qleb a b && sortedq t
  | _ => true
  end.

Definition lastv (l : list value) : value := last l (VInt 0).

Fixpoint pymax_list (f : value -> Q) (a : value) (l : list value) : value :=
  match l with [] => a | b :: t => pymax_list f (pymax f a b) t end.

Fixpoint somes {A} (l : list (option A)) : list A :=
  match l with [] => [] | Some a :: t => a :: somes t | None :: t => somes t end.

(* TablePulseTemplate.get_entries_instantiated (ALL channels are instantiated; the duration every channel is padded
   to is the maximum over all of them, dropped or not) + build_waveform (only the played channels become
   TableWaveforms and are validated); every comparison on the reading `f` *)
Definition table_wf (f : value -> Q) (e : env) (chans : list (option Z * list expr)) : res (option comps) :=
  do vals <- rall (map (fun ts => rall (map (eval e) ts)) (map snd chans));
  (* Add (0, v) entry if wf starts at finite time *)
  let ins := map (fun ts => match ts with v :: _ => if Qltb 0 (f v) then VInt 0 :: ts else ts | [] => ts end) vals in
  match map lastv ins with
  | [] => Err EOther
  | a :: t =>
      let dur := pymax_list f a t in                      (* max(instantiated[-1].t for ...) *)
      if Qeqb (f dur) 0 then Ok None else
      let padded := map (fun ts => if Qltb (f (lastv ts)) (f dur) then ts ++ [dur] else ts) ins in
      (* TableWaveform._validate_input: first time 0, times not decreasing *)
      (* `if channel_mapping[channel] is not None` *)
      let kept := somes (map (fun ct => match fst ct with Some c => Some (c, snd ct) | None => None end)
                             (combine (map fst chans) padded)) in
      match kept with
      | [] => Ok None
      | _ =>
      (* TableWaveform._validate_input: first time 0, times not decreasing *)
      if forallb (fun ts => match ts with v :: _ => Qeqb (f v) 0 && sortedq (map f ts) | [] => false end) (map snd kept)
      then Ok (Some (mk_comps (map fst kept) (time_of dur))) else Err ETable
      end
  end.
Definition is_none {A} (o : option A) : bool := match o with None => true | Some _ => false end.

(* parameter constraints `lhs <= rhs`: the lambdified relation compares the raw values *)
Definition check_constr (c : cfg) (e : env) (cs : list (expr * expr)) : res unit :=
  do _ <- rall (map (fun lr => do l <- eval e (fst lr); do r <- eval e (snd lr);
                               if Qleb (cv c l) (cv c r) then Ok tt else Err EConstraint) cs);
  Ok tt.

(* ghost check of the switch s_parallel: all parts put in parallel last exactly equally long; a part without a
   waveform counts as 0 *)
Definition par_strict (ws : list (option comps)) : bool :=
  let cs := concat (somes ws) in
  forallb (fun x => Qeqb (snd x) (cdur cs)) cs && (if existsb is_none ws then forallb (fun x => Qeqb (snd x) 0) cs else true).

Fixpoint wf_of (c : cfg) (p : pt) (e : env) : res (option comps) :=
  match p with
  | PAtom k chs d =>
      let kc := somes chs in
      (* ghost switch: no channel of this atom is played *)
      if s_dropped c && is_nil kc then Err (EFinding FDropped) else
      (* FunctionPT: `if channel is None: return None` before anything is evaluated *)
      if (match k with KFunc => true | KConst => false end) && is_nil kc then Ok None else
      do v <- eval e d;
      if s_negdur c && Qltb (cv c v) 0 then Err (EFinding FNegDuration) else
      match k with
      | KConst => if Qltb 0 (cv c v) then Ok (wf_mk kc (time_of v)) else Ok None     (* `if duration > 0`, `if constant_values` *)
      | KFunc => Ok (wf_mk kc (time_of v))
      end
  | PTable chans =>
      if s_dropped c && is_nil (somes (map fst chans)) then Err (EFinding FDropped) else table_wf (cv c) e chans
  | PMap m _ b => do e' <- map_env e m; wf_of c b e'
  | PMulti decl subs =>
      do ws <- rall (map (fun s => wf_of c s e) subs);
      do res <-
        match somes ws with
        | [] => Ok None
        | w1 :: rest =>
            do w <- match rest with [] => Ok w1 | _ => parallel (concat (w1 :: rest)) end;
            match decl with
            | None => Ok (Some w)
            | Some d => do dv <- eval e d;
                        if isclose (cv c dv) (cdur w) then Ok (Some w) else Err EMismatch
            end
        end;
      if s_parallel c
         && negb (par_strict ws
                  && match decl with
                     | None => true
                     | Some d => match eval e d with
                                 | Ok dv => Qeqb (cv c dv) (match res with Some w => cdur w | None => 0 end)
                                 | _ => false     (* declared duration not evaluated by the code (no part has a waveform) and not exact *)
                                 end
                     end)
      then Err (EFinding FParallel) else Ok res
  | PArith l r =>
      do wl <- wf_of c l e; do wr <- wf_of c r e;
      match wr, wl with
      | None, _ => Ok wl
      | Some cr, None => Ok (Some (recomp cr (cdur cr)))          (* rhs_only_map: the channels of rhs *)
      | Some cr, Some cl => if isclose (cdur cl) (cdur cr)
                            then if s_parallel c && negb (Qeqb (cdur cl) (cdur cr)) then Err (EFinding FParallel)
                                 else Ok (Some (mk_comps (union_z (map fst cl) (map fst cr)) (cdur cl)))
                            else Err EMismatch
      end
  | PWrap b => do w <- wf_of c b e; Ok (match w with Some x => Some (recomp x (cdur x)) | None => None end)
  | PConstr cs b => do _ <- check_constr c e cs; wf_of c b e
  | PSingle b => wf_of c b e                 (* to_single_waveform has no effect inside build_waveform *)
  | PSeq _ | PRep _ _ | PFor _ _ _ _ _ | PRev _ => Err EOther      (* not atomic *)
  end.

(* ------------------------------------------------------------------------------------------------------------ *)
(* programs *)
(* a leaf carries the channels its waveform defines *)
Inductive loop := Leaf (rep : Z) (chs : list Z) (d : Q) | Node (rep : Z) (kids : list loop).

Open Scope Q_scope.
Fixpoint qsum (l : list Q) : Q := match l with [] => 0 | a :: t => a + qsum t end.

(* Loop.duration = body_duration * repetition_count *)
Fixpoint loop_duration (l : loop) : Q :=
  match l with
  | Leaf r _ d => d * inject_Z r
  | Node r kids => qsum (map loop_duration kids) * inject_Z r
  end.
Definition total (kids : list loop) : Q := qsum (map loop_duration kids).

(* sum over all played pieces: leaf waveform duration x multiplicity *)
Fixpoint sum_pieces (mult : Z) (l : loop) : Q :=
  match l with
  | Leaf r _ d => d * inject_Z (mult * r)
  | Node r kids => qsum (map (sum_pieces (mult * r)) kids)
  end.

(* the duration of to_waveform(program) if it can be built; None = a childless non-leaf (never produced by create_program) *)
Fixpoint oqsum (l : list (option Q)) : option Q :=
  match l with
  | [] => Some 0
  | Some a :: t => match oqsum t with Some s => Some (a + s) | None => None end
  | None :: _ => None
  end.
Fixpoint wf_duration (l : loop) : option Q :=
  match l with
  | Leaf r _ d => Some (if (r =? 1)%Z then d else d * inject_Z r)
  | Node r kids =>
      match kids with
      | [] => None
      | _ => match oqsum (map wf_duration kids) with
             | Some s => Some (if (1 <? r)%Z then s * inject_Z r else s)
             | None => None
             end
      end
  end.
Close Scope Q_scope.

(* to_waveform: SequenceWaveform raises ValueError unless all sequenced waveforms define the same channels; a sequence
   is built at every node with more than one child, so the waveform exists iff all leaves define the same channels *)
Fixpoint leaves (l : loop) : list (list Z) :=
  match l with Leaf _ cs _ => [cs] | Node _ kids => concat (map leaves kids) end.
Fixpoint zs_eqb (a b : list Z) : bool :=
  match a, b with [], [] => true | x :: a', y :: b' => Z.eqb x y && zs_eqb a' b' | _, _ => false end.
Definition uniform (l : loop) : bool := match leaves l with [] => true | a :: t => forallb (zs_eqb a) t end.
(* to_waveform(program).duration; None = to_waveform raises *)
Definition to_wf (l : loop) : option Q := if uniform l then wf_duration l else None.

Definition wrap_node (n : Z) (kids : list loop) : list loop :=
  match kids with [] => [] | _ => [Node n kids] end.

(* _internal_create_program: the children this template appends to the current top loop *)
Fixpoint cp (c : cfg) (p : pt) (e : env) : res (list loop) :=
  match p with
  | PSeq subs => do ks <- rall (map (fun s => cp c s e) subs); Ok (concat ks)
  | PRep n b =>
      do vc <- eval e n; do n <- int_of c vc;
      if s_negcount c && (n <? 0) then Err (EFinding FNegCount) else
      if n <=? 0 then Ok [] else do kids <- cp c b e; Ok (wrap_node n kids)
  | PFor i a b s body =>
      do va <- eval e a; do ia <- int_of c va;
      do vb <- eval e b; do ib <- int_of c vb;
      do vs <- eval e s; do is <- int_of c vs;
      if is =? 0 then Err EZeroStep else
      do ks <- rall (map (fun v => cp c body ((i, VInt v) :: e)) (zrange ia ib is)); Ok (concat ks)
  | PMap m _ b => do e' <- map_env e m; cp c b e'
  | PWrap b => cp c b e
  | PRev b => do kids <- cp c b e; Ok (wrap_node 1 kids)
  | PConstr cs b => do _ <- check_constr c e cs; cp c b e
  | PSingle b =>
      (* new_subprogram: the inner program, if any, is rendered as one waveform and played as one leaf *)
      do kids <- cp c b e;
      match kids with
      | [] => Ok []
      | _ => match to_wf (Node 1 kids) with
             | Some q => Ok [Leaf 1 (hd [] (leaves (Node 1 kids))) q]
             | None => Err EOther                  (* to_waveform raises inside create_program *)
             end
      end
  | PAtom _ _ _ | PTable _ | PMulti _ _ | PArith _ _ =>
      do w <- wf_of c p e; Ok (match w with Some x => [Leaf 1 (map fst x) (cdur x)] | None => [] end)
  end.

(* create_program: Some root / None.  The channel mappings are threaded to the atoms first (`resolve`); the
   `channel_mapping` argument of create_program is an outermost PMap [] cm. *)
Definition create_program (c : cfg) (p : pt) (e : env) : res (option loop) :=
  do kids <- cp c (resolve idf p) e; Ok (match kids with [] => None | _ => Some (Node 1 kids) end).
