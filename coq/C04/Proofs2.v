(* C04 — the symbolic duration of every template kind evaluates to the denoted duration (all kinds, incl. the
   for-loop closed form, tables and atomic arithmetic). *)
From Coq Require Import ZArith QArith Qround Qabs Bool List Lia Lqa Setoid.
Require Import QV.C04.Model QV.C04.Spec QV.C04.Proofs.
Import ListNotations.
Open Scope Q_scope.

(* ------------------------------------------------------------------------------------------------------------ *)
(* a denoted duration is never negative *)
Lemma qsum_nonneg l : Forall (fun x => 0 <= x) l -> 0 <= qsum l.
Proof. induction 1; cbn; [lra | lra]. Qed.

Lemma Qmaxq_ge_l a b : a <= Qmaxq a b.
Proof. unfold Qmaxq. destruct (Qleb a b) eqn:E; [apply Qleb_true; exact E | lra]. Qed.
Lemma Qmaxq_ge_r a b : b <= Qmaxq a b.
Proof. unfold Qmaxq. destruct (Qleb a b) eqn:E; [lra | apply Qleb_false in E; lra]. Qed.

Lemma qmax_list_ge l : forall a, a <= qmax_list a l.
Proof.
  induction l as [|b t IH]; cbn; intros a; [lra|].
  eapply Qle_trans; [apply (Qmaxq_ge_l a b) | apply IH].
Qed.

Lemma sortedq_first_le_last l : forall v d, sortedq (v :: l) = true -> v <= last (v :: l) d.
Proof.
  induction l as [|w t IH]; intros v d H; [cbn; lra|].
  cbn [sortedq] in H. apply andb_prop in H as [H1 H2]. apply Qleb_true in H1.
  change (last (v :: w :: t) d) with (last (w :: t) d). eapply Qle_trans; [exact H1 | apply IH; exact H2].
Qed.

Lemma Forall2_nonneg {A} (g : A -> option Q) l ds :
  Forall (fun c => forall d, g c = Some d -> 0 <= d) l -> Forall2 (fun c d => g c = Some d) l ds ->
  Forall (fun x => 0 <= x) ds.
Proof. intros HP H2. induction H2; constructor; inversion HP; subst; eauto. Qed.

Definition Np (p : pt) : Prop := forall e d, den p e = Some d -> 0 <= d.

Lemma den_nonneg : forall p, Np p.
Proof.
  induction p using pt_ind'; unfold Np; intros e dd Hd; cbn [den] in Hd.
  - apply obind_some in Hd as (q & _ & Hd). destruct (Qleb 0 q) eqn:E; inversion Hd; subst. apply Qleb_true; exact E.
  - (* table *)
    apply obind_some in Hd as (vals & _ & Hd). destruct (forallb _ vals) eqn:Hv; [|discriminate].
    destruct vals as [|ts vt]; [discriminate|]. cbn [map] in Hd. inversion Hd; subst; clear Hd.
    cbn [forallb] in Hv. apply andb_prop in Hv as [Hv _]. destruct ts as [|v l]; [discriminate|].
    apply andb_prop in Hv as [H0 Hs]. apply Qleb_true in H0.
    eapply Qle_trans; [|apply qmax_list_ge]. eapply Qle_trans; [exact H0 | apply sortedq_first_le_last; exact Hs].
  - (* seq *)
    apply obind_some in Hd as (ds & Hds & Hd). inversion Hd; subst. apply oall_map_inv in Hds.
    apply qsum_nonneg. eapply Forall2_nonneg; [|exact Hds].
    eapply Forall_impl; [|exact H]. intros c Hc d0 H0. exact (Hc e d0 H0).
  - (* rep *)
    apply obind_some in Hd as (qc & _ & Hd). apply obind_some in Hd as (n & _ & Hd).
    destruct (n <? 0)%Z eqn:E1; [discriminate|]. destruct (n =? 0)%Z; [inversion Hd; subst; lra|].
    apply obind_some in Hd as (d0 & Hd0 & Hd). inversion Hd; subst. pose proof (IHp _ _ Hd0).
    assert (0 <= inject_Z n) by (rewrite <- (Zle_Qle 0); lia). nra.
  - (* for *)
    apply obind_some in Hd as (qa & _ & Hd). apply obind_some in Hd as (ia & _ & Hd).
    apply obind_some in Hd as (qb & _ & Hd). apply obind_some in Hd as (ib & _ & Hd).
    apply obind_some in Hd as (qs & _ & Hd). apply obind_some in Hd as (is & _ & Hd).
    destruct (is =? 0)%Z; [discriminate|].
    apply obind_some in Hd as (ds & Hds & Hd). inversion Hd; subst. apply oall_map_inv in Hds.
    apply qsum_nonneg. eapply Forall2_nonneg; [|exact Hds].
    apply Forall_forall. intros z _ d0 H0. exact (IHp _ _ H0).
  - (* map *) apply obind_some in Hd as (vs & _ & Hd). exact (IHp _ _ Hd).
  - (* multi *)
    apply obind_some in Hd as (ds & Hds & Hd). destruct ds as [|d0 dt]; [discriminate|].
    destruct (all_eq d0 dt); [|discriminate].
    assert (dd = d0).
    { destruct d; [|inversion Hd; reflexivity]. apply obind_some in Hd as (dv & _ & Hd).
      destruct (Qeqb dv d0); inversion Hd; reflexivity. }
    subst d0. apply oall_map_inv in Hds. inversion Hds; subst. inversion H; subst. eauto.
  - (* arith *)
    apply obind_some in Hd as (dl & Hdl & Hd). apply obind_some in Hd as (dr & Hdr & Hd).
    pose proof (IHp1 _ _ Hdl). pose proof (IHp2 _ _ Hdr).
    destruct (Qeqb dl dr); [inversion Hd; subst; assumption|].
    destruct (Qeqb dl 0); [inversion Hd; subst; assumption|].
    destruct (Qeqb dr 0); inversion Hd; subst; assumption.
  - exact (IHp _ _ Hd).
  - exact (IHp _ _ Hd).
  - exact (IHp _ _ Hd).
  - exact (IHp _ _ Hd).
Qed.

(* ------------------------------------------------------------------------------------------------------------ *)
Lemma vsum_time l : forall v, vsum l = Ok v -> time_of v == qsum (map time_of l).
Proof.
  induction l as [|a t IH]; cbn; intros v H.
  - inversion H; subst. reflexivity.
  - apply rbind_ok in H as (s & Hs & H). rewrite (vadd_time _ _ _ H), (IH _ Hs). reflexivity.
Qed.

Lemma qsum_rel_v (vs : list value) ds : Forall2 (fun v d => time_of v == d) vs ds -> qsum (map time_of vs) == qsum ds.
Proof. induction 1; cbn; [reflexivity | rewrite H, IHForall2; reflexivity]. Qed.

Lemma Forall2_map_l {A B C} (f : A -> B) (R : B -> C -> Prop) l l' :
  Forall2 R (map f l) l' -> Forall2 (fun a c => R (f a) c) l l'.
Proof.
  revert l'. induction l as [|a t IH]; intros l' H; inversion H; subst; constructor; auto.
Qed.

Lemma oall_last {A} (g : A -> option Q) ts qs d0 d1 :
  oall (map g ts) = Some qs -> ts <> [] -> g (last ts d0) = Some (last qs d1).
Proof.
  intros H Hne. apply oall_map_inv in H. induction H as [|x q l l' Hx Hl IH]; [congruence|].
  destruct Hl as [|x2 q2 l2 l2']; [exact Hx|].
  change (g (last (x2 :: l2) d0) = Some (last (q2 :: l2') d1)). apply IH. discriminate.
Qed.

(* the last entry time of every table channel, symbolic vs specification *)
Lemma table_lasts e chans ls qvals :
  rall (map (fun ts => eval e (last_expr ts)) chans) = Ok ls ->
  oall (map (fun ts => oall (map (qeval (qenv_of e)) ts)) chans) = Some qvals ->
  forallb (fun ts => match ts with v :: _ => Qleb 0 v && sortedq ts | [] => false end) qvals = true ->
  Forall2 (fun l q => time_of l == q) ls (map (fun ts => last ts 0) qvals).
Proof.
  intros H1 H2 Hv. apply rall_map_inv in H1. apply oall_map_inv in H2. rewrite forallb_forall in Hv.
  revert qvals H2 Hv. induction H1 as [|ts l chans' ls' Hl Hrest IH]; intros qvals H2 Hv; inversion H2; subst; cbn [map];
    constructor.
  - assert (Hne : ts <> []).
    { intros ->. cbn in H1. inversion H1; subst. specialize (Hv [] (or_introl eq_refl)). discriminate. }
    destruct (eval_qeval _ _ _ Hl) as (q & Hq & E). unfold last_expr in Hq.
    rewrite (oall_last _ ts y (ELit (VInt 0)) 0 H1 Hne) in Hq. inversion Hq; subst. symmetry; exact E.
  - apply IH; [assumption|]. intros x Hx. apply Hv. right; exact Hx.
Qed.

(* ------------------------------------------------------------------------------------------------------------ *)
Definition Sp (p : pt) : Prop :=
  forall e v d, sym p e = Ok v -> den p (qenv_of e) = Some d -> time_of v == d.

Lemma Qceiling_int_quot ta tb ts ia ib is :
  ta == inject_Z ia -> tb == inject_Z ib -> ts == inject_Z is ->
  Qceiling ((tb - ta) / ts) = Qceiling ((inject_Z ib - inject_Z ia) / inject_Z is).
Proof. intros Ha Hb Hs. apply Qceiling_comp. rewrite Ha, Hb, Hs. reflexivity. Qed.

Lemma Sp_all : forall p, Sp p.
Proof.
  induction p using pt_ind'; unfold Sp; intros e v dd Hv Hd; cbn [sym] in Hv; cbn [den] in Hd.
  - (* atom *)
    apply obind_some in Hd as (q & Hq & Hd). destruct (Qleb 0 q); inversion Hd; subst.
    destruct (eval_qeval _ _ _ Hv) as (q' & Hq' & E). rewrite Hq in Hq'. inversion Hq'; subst. symmetry; exact E.
  - (* table: Max over the channels of the last entry time *)
    apply rbind_ok in Hv as (ls & Hls & Hv). apply obind_some in Hd as (qvals & Hq & Hd).
    destruct (forallb _ qvals) eqn:Hvalid; [|discriminate].
    pose proof (table_lasts _ _ _ _ Hls Hq Hvalid) as Hrel.
    destruct ls as [|a t]; [discriminate|].
    destruct (map (fun ts => last ts 0) qvals) as [|qa qt]; [inversion Hrel|]. inversion Hd; subst; clear Hd.
    inversion Hrel; subst. rewrite (vmax_list_time _ _ _ Hv). apply qmax_list_comp; [|assumption].
    clear - H4. induction H4; cbn; constructor; assumption.
  - (* seq *)
    apply rbind_ok in Hv as (vs & Hvs & Hv). apply obind_some in Hd as (ds & Hds & Hd). inversion Hd; subst; clear Hd.
    apply rall_map_inv in Hvs. apply oall_map_inv in Hds.
    rewrite (vsum_time _ _ Hv). apply qsum_rel_v.
    apply (Forall2_join Sp (fun c k => sym c e = Ok k) (fun c d => den c (qenv_of e) = Some d)
             (fun v d => time_of v == d) subs); [|exact H|exact Hvs|exact Hds].
    intros c k d HS H1 H2. exact (HS e k d H1 H2).
  - (* rep *)
    apply rbind_ok in Hv as (n & Hn & Hv). apply rbind_ok in Hv as (db & Hdb & Hv).
    apply obind_some in Hd as (qc & Hqc & Hd). apply obind_some in Hd as (n' & Hn' & Hd).
    destruct (eval_qeval _ _ _ Hn) as (q' & Hq' & E). rewrite Hqc in Hq'. inversion Hq'; subst q'.
    apply qint_some in Hn'. rewrite (vmul_time _ _ _ Hv), <- E, Hn'.
    destruct (n' <? 0)%Z; [discriminate|]. destruct (n' =? 0)%Z eqn:E0.
    + inversion Hd; subst. apply Z.eqb_eq in E0. subst. ring.
    + apply obind_some in Hd as (d0 & Hd0 & Hd). inversion Hd; subst. rewrite (IHp _ _ _ Hdb Hd0). reflexivity.
  - (* for: Piecewise((0, n <= 0), (Sum(body[i := start + i*step], (i, 0, Max(n, 1) - 1)), True)) *)
    apply rbind_ok in Hv as (va & Hva & Hv). apply rbind_ok in Hv as (vb & Hvb & Hv).
    apply rbind_ok in Hv as (vs & Hvs & Hv).
    destruct (Qeqb (time_of vs) 0); [discriminate|].
    set (n := Qceiling ((time_of vb - time_of va) / time_of vs)) in *.
    destruct (100000 <? n)%Z; [discriminate|].
    apply rbind_ok in Hv as (terms & Hterms & Hv). apply rbind_ok in Hv as (tot & Htot & Hv).
    apply obind_some in Hd as (qa & Hqa & Hd). apply obind_some in Hd as (ia & Hia & Hd).
    apply obind_some in Hd as (qb & Hqb & Hd). apply obind_some in Hd as (ib & Hib & Hd).
    apply obind_some in Hd as (qs & Hqs & Hd). apply obind_some in Hd as (is & His & Hd).
    destruct (is =? 0)%Z eqn:Eis; [discriminate|]. apply Z.eqb_neq in Eis.
    apply obind_some in Hd as (ds & Hds & Hd). inversion Hd; subst dd; clear Hd.
    destruct (eval_qeval _ _ _ Hva) as (qa' & Hqa' & Ea). rewrite Hqa in Hqa'. inversion Hqa'; subst qa'.
    destruct (eval_qeval _ _ _ Hvb) as (qb' & Hqb' & Eb). rewrite Hqb in Hqb'. inversion Hqb'; subst qb'.
    destruct (eval_qeval _ _ _ Hvs) as (qs' & Hqs' & Es). rewrite Hqs in Hqs'. inversion Hqs'; subst qs'.
    apply qint_some in Hia, Hib, His.
    assert (Ta : time_of va == inject_Z ia) by (rewrite <- Ea; exact Hia).
    assert (Tb : time_of vb == inject_Z ib) by (rewrite <- Eb; exact Hib).
    assert (Ts : time_of vs == inject_Z is) by (rewrite <- Es; exact His).
    assert (Hn : n = Qceiling ((inject_Z ib - inject_Z ia) / inject_Z is)) by (apply Qceiling_int_quot; assumption).
    pose proof (range_n_ceiling ia ib is Eis) as Hrn. rewrite <- Hn in Hrn.
    rewrite (zrange_closed ia ib is Eis), Hrn in Hds.
    destruct (n <=? 0)%Z eqn:En.
    + inversion Hv; subst v. replace (Z.to_nat (Z.max 0 n)) with O in Hds by lia.
      cbn in Hds. inversion Hds; subst. reflexivity.
    + inversion Hv; subst v. replace (Z.to_nat (Z.max n 1)) with (Z.to_nat (Z.max 0 n)) in Hterms by lia.
      apply rall_map_inv in Hterms. apply oall_map_inv in Hds. unfold arith_list in Hds. apply Forall2_map_l in Hds.
      rewrite (vsum_time _ _ Htot). apply qsum_rel_v.
      eapply (Forall2_join (fun _ => True)); [|apply Forall_forall; intros; exact I|exact Hterms|exact Hds].
      intros k t d _ H1 H2. cbv beta in H1, H2.
      apply rbind_ok in H1 as (ks & Hks & H1). apply rbind_ok in H1 as (iv & Hiv & H1).
      apply (IHp _ _ _ H1). cbn [qenv_of map fst snd]. rewrite <- H2. do 3 f_equal.
      apply Qred_complete. rewrite (vadd_time _ _ _ Hiv), (vmul_time _ _ _ Hks), Ta, Ts. cbn [time_of].
      rewrite inject_Z_plus, inject_Z_mult. reflexivity.
  - (* map *)
    apply rbind_ok in Hv as (e' & He' & Hv). apply obind_some in Hd as (vs & Hvs & Hd).
    eapply IHp; [eassumption|]. erewrite map_env_qenv; eassumption.
  - (* multi *)
    apply obind_some in Hd as (ds & Hds & Hd). destruct ds as [|d0 dt]; [discriminate|].
    destruct (all_eq d0 dt); [|discriminate]. apply oall_map_inv in Hds.
    destruct d as [x|].
    + apply obind_some in Hd as (dv & Hdv & Hd). destruct (Qeqb dv d0) eqn:Eq; inversion Hd; subst.
      destruct (eval_qeval _ _ _ Hv) as (q' & Hq' & E). rewrite Hdv in Hq'. inversion Hq'; subst.
      apply Qeqb_true in Eq. rewrite <- E. exact Eq.
    + inversion Hd; subst. destruct subs as [|c t]; [discriminate|].
      inversion Hds as [|? ? ? ? Hdc Hdt]; subst. inversion H as [|? ? HSc HSt]; subst.
      exact (HSc e v dd Hv Hdc).
  - (* arith: Max(lhs, rhs); durations are not negative *)
    apply rbind_ok in Hv as (u & Hu & Hv). apply rbind_ok in Hv as (w & Hw & Hv).
    apply obind_some in Hd as (dl & Hdl & Hd). apply obind_some in Hd as (dr & Hdr & Hd).
    pose proof (IHp1 _ _ _ Hu Hdl) as El. pose proof (IHp2 _ _ _ Hw Hdr) as Er.
    pose proof (den_nonneg _ _ _ Hdl) as Nl. pose proof (den_nonneg _ _ _ Hdr) as Nr.
    rewrite (vmax_time _ _ _ Hv), (Qmaxq_comp _ _ _ _ El Er).
    unfold Qmaxq. destruct (Qeqb dl dr) eqn:E1.
    { inversion Hd; subst. apply Qeqb_true in E1. destruct (Qleb dd dr); [symmetry; exact E1 | reflexivity]. }
    destruct (Qeqb dl 0) eqn:E2.
    { inversion Hd; subst. apply Qeqb_true in E2. destruct (Qleb dl dd) eqn:E3; [reflexivity|].
      apply Qleb_false in E3. lra. }
    destruct (Qeqb dr 0) eqn:E3; inversion Hd; subst. apply Qeqb_true in E3.
    destruct (Qleb dd dr) eqn:E4; [|reflexivity]. apply Qleb_true in E4. lra.
  - eapply IHp; eassumption.
  - eapply IHp; eassumption.
  - eapply IHp; eassumption.
  - eapply IHp; eassumption.
Qed.

Theorem symbolic_agrees : forall p e v d, sym p e = Ok v -> den p (qenv_of e) = Some d -> time_of v == d.
Proof. exact Sp_all. Qed.

