(* C04 — round 4: (1) the two ways of writing the number of iterations of a for-loop (ceiling form: the model's `sym`
   and the code before 86f615f; floor form: ForLoopPulseTemplate._step_count since 86f615f) are the same number on
   integer ranges; (2) substitution of a parameter mapping into an expression (`evaluate_symbolic`, what
   MappingPT.duration does) is evaluation in the extended environment (what the model's `sym`/`cp` do for PMap). *)
From Coq Require Import ZArith QArith Qround Qabs Bool List Lia Lqa.
Require Import QV.C04.Model QV.C04.Spec QV.C04.Proofs.
Import ListNotations.

(* ------------------------------------------------------------------------------------------------------------ *)
(* 1. step count *)
Open Scope Q_scope.

Lemma Qfloor_unique (q : Q) (z : Z) : inject_Z z <= q -> q < inject_Z (z + 1) -> Qfloor q = z.
Proof.
  intros H1 H2. pose proof (Qfloor_le q) as A. pose proof (Qlt_floor q) as B.
  assert (C : (Qfloor q < z + 1)%Z).
  { rewrite Zlt_Qlt. eapply Qle_lt_trans; [exact A | exact H2]. }
  assert (D : (z < Qfloor q + 1)%Z).
  { rewrite Zlt_Qlt. eapply Qle_lt_trans; [exact H1 | exact B]. }
  lia.
Qed.

Lemma inject_Z_minus x y : inject_Z (x - y) == inject_Z x - inject_Z y.
Proof. unfold Z.sub. rewrite inject_Z_plus, inject_Z_opp. reflexivity. Qed.

Definition sgnq (s : Z) : Q := inject_Z (Z.sgn s).

(* positive step, everything as integers: n - 1 < d/s <= n  ->  n <= (d + s - 1/2)/s < n + 1 *)
Lemma step_pos (d s n : Z) : (0 < s)%Z ->
  inject_Z (n - 1) < inject_Z d / inject_Z s -> inject_Z d / inject_Z s <= inject_Z n ->
  Qfloor ((inject_Z d + inject_Z s - (1 # 2)) / inject_Z s) = n.
Proof.
  intros P L U.
  assert (Ps : 0 < inject_Z s) by (rewrite <- (Zlt_Qlt 0); exact P).
  assert (Hs' : ~ inject_Z s == 0) by lra.
  assert (E : inject_Z d / inject_Z s * inject_Z s == inject_Z d) by (field; exact Hs').
  apply (Qmult_lt_compat_r _ _ (inject_Z s)) in L; [|exact Ps]. rewrite E in L.
  apply (Qmult_le_compat_r _ _ (inject_Z s)) in U; [|lra]. rewrite E in U.
  assert (Li : ((n - 1) * s < d)%Z) by (rewrite Zlt_Qlt, inject_Z_mult; exact L).
  assert (Li' : inject_Z ((n - 1) * s + 1) <= inject_Z d) by (rewrite <- Zle_Qle; lia).
  rewrite inject_Z_plus, inject_Z_mult, inject_Z_minus in Li'. rewrite inject_Z_minus in L.
  apply Qfloor_unique.
  - apply Qle_shift_div_l; [exact Ps|]. clear E Hs' Li. change (inject_Z 1) with (1 # 1) in *. nra.
  - rewrite inject_Z_plus. apply Qlt_shift_div_r; [exact Ps|]. clear E Hs' Li. change (inject_Z 1) with (1 # 1) in *. nra.
Qed.

Lemma sgnq_pos s : (0 < s)%Z -> sgnq s = 1.
Proof. intros. unfold sgnq. replace (Z.sgn s) with 1%Z by lia. reflexivity. Qed.
Lemma sgnq_neg s : (s < 0)%Z -> sgnq s = inject_Z (-1).
Proof. intros. unfold sgnq. replace (Z.sgn s) with (-1)%Z by lia. reflexivity. Qed.

(* floor((b - a + s - sign(s)/2)/s) = ceiling((b - a)/s) for all integers a, b and s <> 0 *)
Lemma step_count_forms_agree (a b s : Z) : s <> 0%Z ->
  Qfloor ((inject_Z b - inject_Z a + inject_Z s - sgnq s / 2) / inject_Z s)
  = Qceiling ((inject_Z b - inject_Z a) / inject_Z s).
Proof.
  intros Hs.
  assert (Hs' : ~ inject_Z s == 0) by (intros E; apply Hs; unfold Qeq in E; cbn in E; lia).
  set (n := Qceiling ((inject_Z b - inject_Z a) / inject_Z s)).
  assert (U : (inject_Z b - inject_Z a) / inject_Z s <= inject_Z n) by apply Qle_ceiling.
  assert (L : inject_Z (n - 1) < (inject_Z b - inject_Z a) / inject_Z s)
    by exact (Qceiling_lt ((inject_Z b - inject_Z a) / inject_Z s)).
  clearbody n.
  destruct (Z_lt_le_dec 0 s) as [P|P].
  - rewrite (sgnq_pos s P).
    rewrite <- (step_pos (b - a) s n P).
    + apply Qfloor_comp. rewrite (inject_Z_minus b a). field. exact Hs'.
    + rewrite (inject_Z_minus b a). exact L.
    + rewrite (inject_Z_minus b a). exact U.
  - assert (N : (s < 0)%Z) by lia. rewrite (sgnq_neg s N).
    rewrite <- (step_pos (a - b) (- s) n).
    + apply Qfloor_comp. rewrite (inject_Z_minus a b), !inject_Z_opp. change (inject_Z 1) with 1. field. exact Hs'.
    + lia.
    + rewrite (inject_Z_minus a b), inject_Z_opp.
      setoid_replace ((inject_Z a - inject_Z b) / - inject_Z s) with ((inject_Z b - inject_Z a) / inject_Z s) by (field; exact Hs').
      exact L.
    + rewrite (inject_Z_minus a b), inject_Z_opp.
      setoid_replace ((inject_Z a - inject_Z b) / - inject_Z s) with ((inject_Z b - inject_Z a) / inject_Z s) by (field; exact Hs').
      exact U.
Qed.
Close Scope Q_scope.

(* ------------------------------------------------------------------------------------------------------------ *)
(* 2. substitution = evaluation in the extended environment *)
Open Scope Z_scope.

(* simultaneous substitution of the right hand sides of a parameter mapping (MappingPT.duration:
   inner_duration.evaluate_symbolic(parameter_mapping)); names that are not mapped stay *)
Fixpoint subst (m : list (ident * expr)) (x : expr) : expr :=
  match x with
  | ELit v => ELit v
  | EVar y => match lookup m y with Some r => r | None => EVar y end
  | EAdd a b => EAdd (subst m a) (subst m b)
  | ESub a b => ESub (subst m a) (subst m b)
  | EMul a b => EMul (subst m a) (subst m b)
  | EDivK a k => EDivK (subst m a) k
  | EMax a b => EMax (subst m a) (subst m b)
  end.

Definition not_bad (v : value) : bool := match v with VBad _ => false | _ => true end.
Definition bind_rhs (e : env) (xe : ident * expr) : res (ident * value) := do v <- eval e (snd xe); Ok (fst xe, v).

Lemma lookup_mapped e m vs : Forall2 (fun xe p => bind_rhs e xe = Ok p) m vs -> forall y,
  match lookup m y with
  | Some r => exists v, eval e r = Ok v /\ lookup (vs ++ e) y = Some v /\ In (y, v) vs
  | None => lookup (vs ++ e) y = lookup e y
  end.
Proof.
  induction 1 as [|[x r] p m' vs' Hp _ IH]; intros y; cbn; [reflexivity|].
  unfold bind_rhs in Hp. cbn in Hp. destruct (eval e r) as [v| |] eqn:Er; try discriminate. cbn in Hp. inversion Hp; subst p. cbn.
  destruct (N.eqb y x) eqn:Eyx.
  - apply N.eqb_eq in Eyx. subst x. exists v. split; [exact Er|]. split; [reflexivity | left; reflexivity].
  - specialize (IH y). destruct (lookup m' y) as [r'|].
    + destruct IH as (v' & A & B & C). exists v'. split; [exact A|]. split; [exact B | right; exact C].
    + exact IH.
Qed.

Theorem subst_eval e m vs : rall (map (bind_rhs e) m) = Ok vs -> Forall (fun p => not_bad (snd p) = true) vs ->
  forall x, eval (vs ++ e) x = eval e (subst m x).
Proof.
  intros Hm Hb. apply rall_map_inv in Hm. pose proof (lookup_mapped e m vs Hm) as Hl.
  induction x; cbn [eval subst]; try (rewrite IHx1, IHx2; reflexivity); try (rewrite IHx; reflexivity); [reflexivity|].
  specialize (Hl x). destruct (lookup m x) as [r|].
  - destruct Hl as (v & A & B & C). rewrite B, A.
    rewrite Forall_forall in Hb. specialize (Hb _ C). cbn in Hb. destruct v; try discriminate; reflexivity.
  - rewrite Hl. reflexivity.
Qed.

(* the duration expression of a mapped atom: substituting the mapping into the atom's duration expression and evaluating
   outside is what the model's environment extension computes *)
Corollary sym_map_atom e m cm k chs d vs :
  rall (map (bind_rhs e) m) = Ok vs -> Forall (fun p => not_bad (snd p) = true) vs ->
  sym (PMap m cm (PAtom k chs d)) e = eval e (subst m d).
Proof.
  intros Hm Hb. cbn [sym]. unfold map_env. change (fun xe : ident * expr => do v <- eval e (snd xe); Ok (fst xe, v)) with (bind_rhs e).
  rewrite Hm. cbn [rbind]. apply subst_eval; assumption.
Qed.

(* substitution commutes with the sum over a sequence of atoms: (d1 + d2)[m] evaluated outside = the mapped sequence *)
Corollary sym_map_seq2 e m cm k1 c1 d1 k2 c2 d2 vs :
  rall (map (bind_rhs e) m) = Ok vs -> Forall (fun p => not_bad (snd p) = true) vs ->
  sym (PMap m cm (PSeq [PAtom k1 c1 d1; PAtom k2 c2 d2])) e
  = (do a <- eval e (subst m d1); do b <- eval e (subst m d2); do s <- vadd b (VInt 0); vadd a s).
Proof.
  intros Hm Hb. cbn [sym]. unfold map_env. change (fun xe : ident * expr => do v <- eval e (snd xe); Ok (fst xe, v)) with (bind_rhs e).
  rewrite Hm. cbn [rbind map rall sym]. rewrite !(subst_eval e m vs Hm Hb).
  destruct (eval e (subst m d1)); cbn; try reflexivity. destruct (eval e (subst m d2)); cbn; reflexivity.
Qed.

Lemma example_substitution :
  let e := [(0%N, VInt 3); (1%N, VInt 5)] in
  let m := [(0%N, EVar 1%N); (1%N, EVar 0%N)] in
  let x := EAdd (EVar 0%N) (EMul (ELit (VInt 2)) (EVar 1%N)) in
  rall (map (bind_rhs e) m) = Ok [(0%N, VInt 5); (1%N, VInt 3)]
  /\ subst m x = EAdd (EVar 1%N) (EMul (ELit (VInt 2)) (EVar 0%N))
  /\ eval e (subst m x) = Ok (VInt 11) /\ eval ([(0%N, VInt 5); (1%N, VInt 3)] ++ e) x = Ok (VInt 11).
Proof. cbn. repeat split. Qed.
