(* C04 — property theorems (statements only; proofs live in Proofs*.v). *)
From Coq Require Import ZArith QArith Qround Bool List.
Require Import QV.C04.Model QV.C04.Spec QV.C04.Proofs QV.C04.Proofs2 QV.C04.Proofs4 QV.C04.Proofs3 QV.C04.Proofs5 QV.C04.Proofs6 QV.C04.Proofs7.
Import ListNotations.
Open Scope Q_scope.

(* the sum over all played pieces (leaf duration x multiplicity) is Loop.duration, for every program tree *)
Theorem C04_pieces_sum_is_loop_duration : forall l, sum_pieces 1 l == loop_duration l.
Proof. exact sum_pieces_is_duration. Qed.
Print Assumptions C04_pieces_sum_is_loop_duration.

(* to_waveform(program).duration is Loop.duration on every tree with counts >= 1 and no childless inner node *)
Theorem C04_waveform_duration_is_loop_duration :
  forall l, wfl l -> exists q, wf_duration l = Some q /\ q == loop_duration l.
Proof. exact wf_duration_is_loop_duration. Qed.
Print Assumptions C04_waveform_duration_is_loop_duration.

(* ... and create_program only builds such trees (any reading of comparisons, any ghost switch) *)
Theorem C04_created_programs_wellformed : forall c p e kids, cp c p e = Ok kids -> Forall wfl kids.
Proof. exact Lp_all. Qed.
Print Assumptions C04_created_programs_wellformed.

(* len(range(a, b, s)) = max(0, ceiling((b - a)/s)) for both signs of s, and the k-th element is a + k*s *)
Theorem C04_range_len : forall a b s, s <> 0%Z ->
  Z.of_nat (length (zrange a b s)) = Z.max 0 (Qceiling ((inject_Z b - inject_Z a) / inject_Z s)).
Proof. exact zrange_length. Qed.
Print Assumptions C04_range_len.

Theorem C04_range_nth : forall a b s k, s <> 0%Z -> (k < length (zrange a b s))%nat ->
  nth k (zrange a b s) 0%Z = (a + Z.of_nat k * s)%Z.
Proof. exact zrange_nth. Qed.
Print Assumptions C04_range_nth.

(* n repetitions of a leaf last exactly n x the leaf, for every n (an identity of Q: nothing accumulates) *)
Theorem C04_no_accumulation : forall n cs d, total (wrap_node n [Leaf 1 cs d]) == inject_Z n * d.
Proof. exact rep_leaf_exact. Qed.
Print Assumptions C04_no_accumulation.

(* channel mappings (renaming, dropping; MappingPT, nested, create_program's argument) never enter a duration: the
   specification and the symbolic duration of a template are those of the template with the mappings threaded to its
   atoms *)
Theorem C04_channel_mapping_irrelevant_for_durations :
  forall p f, (forall e, den (resolve f p) e = den p e) /\ (forall e, sym (resolve f p) e = sym p e).
Proof. intros p f. split; intros e; [apply den_resolve | apply sym_resolve]. Qed.
Print Assumptions C04_channel_mapping_irrelevant_for_durations.

(* where to_waveform does not raise (all leaves define the same channels) its duration is wf_duration *)
Theorem C04_to_waveform_duration : forall l q, to_wf l = Some q -> wf_duration l = Some q.
Proof. exact to_wf_some. Qed.
Print Assumptions C04_to_waveform_duration.

(* program side, all template kinds, unbounded: whenever the template denotes a duration d, the binary and the
   decimal reading of the comparisons build the same program (g_view), no atom loses ALL its channels to a channel
   mapping and the leaves define the same channels, Loop.duration, the duration of the single waveform (to_waveform does
   not raise) and the sum of the pieces are all d; an empty program means d = 0.  `create_program` threads the channel
   mappings to the atoms; a table is padded to the latest entry of ALL its channels, also of the dropped ones *)
Theorem C04_program_views_agree : forall p e d,
  g_view p e = true -> guard_finding FDropped p e = true -> g_uniform p e = true -> den p (qenv_of e) = Some d ->
  forall o, create_program real p e = Ok o ->
  match o with
  | None => d == 0
  | Some prog => loop_duration prog == d /\ (exists q, to_wf prog = Some q /\ q == d) /\ sum_pieces 1 prog == d
  end.
Proof. exact program_views_agree. Qed.
Print Assumptions C04_program_views_agree.

(* symbolic side, ALL template kinds: the duration expression as written by every class (incl. the for-loop
   Piecewise/Sum/Max/ceiling closed form, Max over table channels, Max of arithmetic operands) evaluates to the
   denoted duration *)
Theorem C04_symbolic_agrees : forall p e v d, sym p e = Ok v -> den p (qenv_of e) = Some d -> time_of v == d.
Proof. exact symbolic_agrees. Qed.
Print Assumptions C04_symbolic_agrees.

(* a denoted duration is never negative *)
Theorem C04_denoted_duration_nonneg : forall p e d, den p e = Some d -> 0 <= d.
Proof. exact den_nonneg. Qed.
Print Assumptions C04_denoted_duration_nonneg.

(* all four views, all kinds, float parameters read as their shortest decimal, wherever a duration is denoted *)
Theorem C04_agree_denoted : forall p e d v o,
  g_view p e = true -> guard_finding FDropped p e = true -> g_uniform p e = true -> den p (qenv_of e) = Some d ->
  create_program real p e = Ok o -> sym p (decimalize e) = Ok v ->
  time_of v == d /\
  match o with
  | None => d == 0
  | Some prog => loop_duration prog == d /\ (exists q, to_wf prog = Some q /\ q == d) /\ sum_pieces 1 prog == d
  end.
Proof. exact agree_den. Qed.
Print Assumptions C04_agree_denoted.

(* THE property, tight guard: whenever the binary and the decimal reading of the code's comparisons build the same
   program (g_view: the quantifier's "ints or short decimals"), none of the five modelled finding classes is met
   (cp ideal accepts) and the leaves define the same channels (g_uniform), the code accepts and all four views equal
   the symbolic duration (to_waveform does not raise); no `den` involved.  Parameter mappings are simultaneous
   substitutions, channel mappings are threaded to the atoms (see C04_example_mappings) *)
Theorem C04_agree : forall p e v,
  guard_C04 p e = true -> sym p (decimalize e) = Ok v ->
  exists o, create_program real p e = Ok o /\
  match o with
  | None => time_of v == 0
  | Some prog => loop_duration prog == time_of v
                 /\ (exists q, to_wf prog = Some q /\ q == time_of v)
                 /\ sum_pieces 1 prog == time_of v
  end.
Proof. exact agree_tight. Qed.
Print Assumptions C04_agree.

(* the ghost switches only add `EFinding` errors: what `ideal` accepts the code (decimal reading) accepts with the
   same program, and whatever the code accepts `ideal` accepts or names the finding class it met *)
Theorem C04_guard_refines : forall p e kids, cp ideal p e = Ok kids -> cp lax p e = Ok kids.
Proof. exact ideal_refines. Qed.
Print Assumptions C04_guard_refines.
Theorem C04_guard_exact : forall p e kids,
  cp lax p e = Ok kids -> is_ok (cp ideal p e) = true \/ exists k, cp ideal p e = Err (EFinding k).
Proof. exact guard_exact. Qed.
Print Assumptions C04_guard_exact.

(* without the guard the faithful model of the unchanged code violates the property: one witness per class; exactly
   the class's own guard is false; guards_of = [g_view; negative count; negative duration; near-integer; unequal
   parallel parts; all channels dropped; g_uniform; guard_C04] *)
Theorem C04_agree_refuted_negative_count : disagrees w_negcount /\ guards_of w_negcount = [true; false; true; true; true; true; true; false].
Proof. exact refuted_negcount. Qed.
Print Assumptions C04_agree_refuted_negative_count.
Theorem C04_agree_refuted_negative_duration : disagrees w_negdur /\ guards_of w_negdur = [true; true; false; true; true; true; true; false].
Proof. exact refuted_negdur. Qed.
Print Assumptions C04_agree_refuted_negative_duration.
Theorem C04_agree_refuted_near_integer : disagrees w_nearint /\ guards_of w_nearint = [true; true; true; false; true; true; true; false].
Proof. exact refuted_nearint. Qed.
Print Assumptions C04_agree_refuted_near_integer.
Theorem C04_agree_refuted_parallel_unequal : disagrees w_parallel /\ guards_of w_parallel = [true; true; true; true; false; true; true; false].
Proof. exact refuted_parallel. Qed.
Print Assumptions C04_agree_refuted_parallel_unequal.
Theorem C04_agree_refuted_binary_reading : disagrees w_view /\ guards_of w_view = [false; true; true; true; true; true; true; false].
Proof. exact refuted_view. Qed.
Print Assumptions C04_agree_refuted_binary_reading.

(* an atom none of whose channels is played (MappingPT(ConstantPT(3, {c}), channel_mapping={c: None})): the template
   lasts 3, nothing is played *)
Theorem C04_agree_refuted_all_channels_dropped : disagrees w_dropped /\ guards_of w_dropped = [true; true; true; true; true; false; true; false].
Proof. exact refuted_dropped. Qed.
Print Assumptions C04_agree_refuted_all_channels_dropped.
(* finding C04-zero-length-function-leaf: template, Loop.duration and pieces agree (9), to_waveform raises because the
   zero-length function leaf defines fewer channels; only g_uniform is false *)
Theorem C04_agree_refuted_zero_length_function_leaf :
  (exists kids v, cp real (rs (fst w_zero_func)) (snd w_zero_func) = Ok kids /\ sym (fst w_zero_func) (decimalize (snd w_zero_func)) = Ok v
                  /\ time_of v == total kids /\ total kids == 9 /\ to_wf (Node 1 kids) = None)
  /\ guards_of w_zero_func = [true; true; true; true; true; true; false; false].
Proof. exact refuted_zero_func. Qed.
Print Assumptions C04_agree_refuted_zero_length_function_leaf.

(* mappings inside the guard: a parameter mapping that exchanges two names (simultaneous: t_ramp + 2*t_hold = 11, the
   sequential substitution would give 9), and a table whose LONGEST channel is dropped by a MappingPT inside a
   repetition while create_program renames the other one: the kept channel is held up to Max(tx, ty) *)
Theorem C04_example_mappings :
  guards_of (ex_swap, ex_swap_env) = [true; true; true; true; true; true; true; true]
  /\ (exists v, sym ex_swap (decimalize ex_swap_env) = Ok v /\ time_of v == 11)
  /\ guards_of (ex_drop, ex_swap_env) = [true; true; true; true; true; true; true; true]
  /\ (exists v, sym ex_drop (decimalize ex_swap_env) = Ok v /\ time_of v == 20)
  /\ create_program real ex_drop ex_swap_env = Ok (Some (Node 1 [Node 4 [Leaf 1 [2%Z] 5]])).
Proof. exact example_mappings. Qed.
Print Assumptions C04_example_mappings.

(* the hypotheses are satisfiable by non-trivial inputs: a float parameter (0.1) with 1e6 repetitions; a for-loop with
   negative step whose body (repetition i times, table, atomic arithmetic) depends on the index *)
Theorem C04_example_guard_satisfiable :
  guard_C04 ex_tpl ex_env = true /\ guards_of (ex_tpl, ex_env) = [true; true; true; true; true; true; true; true]
  /\ exists v, sym ex_tpl (decimalize ex_env) = Ok v /\ time_of v == 3000001 # 10.
Proof. exact example_guard. Qed.
Print Assumptions C04_example_guard_satisfiable.
Theorem C04_example_for_loop_negative_step :
  guard_C04 ex_for ex_for_env = true /\ guards_of (ex_for, ex_for_env) = [true; true; true; true; true; true; true; true]
  /\ exists v, sym ex_for (decimalize ex_for_env) = Ok v /\ time_of v == 9 # 2.
Proof. exact example_for_guard. Qed.
Print Assumptions C04_example_for_loop_negative_step.

Theorem C04_example_for_loop_guard_satisfiable :
  (exists d, den ex_for (qenv_of ex_for_env) = Some d /\ d == 9 # 2)
  /\ (exists prog, create_program real ex_for ex_for_env = Ok (Some prog)) /\ g_view ex_for ex_for_env = true
  /\ exists v, sym ex_for (decimalize ex_for_env) = Ok v.
Proof. exact example_for. Qed.
Print Assumptions C04_example_for_loop_guard_satisfiable.

(* round 4.  The number of iterations of a for-loop as ForLoopPulseTemplate._step_count writes it since /repo 86f615f
   (floor form, robust against floating point evaluation) is the number the model's `sym` uses (ceiling form, the code
   before), for all integer ranges with step <> 0, both signs *)
Theorem C04_step_count_forms_agree : forall a b s : Z, s <> 0%Z ->
  Qfloor ((inject_Z b - inject_Z a + inject_Z s - inject_Z (Z.sgn s) / 2) / inject_Z s)
  = Qceiling ((inject_Z b - inject_Z a) / inject_Z s).
Proof. exact step_count_forms_agree. Qed.
Print Assumptions C04_step_count_forms_agree.

(* expression level: substituting a parameter mapping into an expression and evaluating it outside (MappingPT.duration =
   inner duration .evaluate_symbolic(mapping)) is evaluating the expression in the environment extended by the mapped
   values (the model's PMap; MappedScope in create_program) -- simultaneous, names not mapped stay visible, the first
   binding of a name wins on both sides; the mapped values must be numbers evaluate_numeric accepts *)
Theorem C04_substitution_is_environment_extension : forall e m vs,
  rall (map (bind_rhs e) m) = Ok vs -> Forall (fun p => not_bad (snd p) = true) vs ->
  forall x, eval (vs ++ e) x = eval e (subst m x).
Proof. exact subst_eval. Qed.
Print Assumptions C04_substitution_is_environment_extension.

(* ... hence the symbolic duration of a mapped atom / of a mapped sequence of two atoms is the substituted expression *)
Theorem C04_mapped_duration_is_substituted_expression : forall e m cm k chs d vs,
  rall (map (bind_rhs e) m) = Ok vs -> Forall (fun p => not_bad (snd p) = true) vs ->
  sym (PMap m cm (PAtom k chs d)) e = eval e (subst m d).
Proof. exact sym_map_atom. Qed.
Print Assumptions C04_mapped_duration_is_substituted_expression.

(* non-vacuity: the exchange mapping {a: b, b: a} on a + 2*b at a = 3, b = 5: substitution gives b + 2*a = 11 *)
Theorem C04_example_substitution :
  let e := [(0%N, VInt 3); (1%N, VInt 5)] in
  let m := [(0%N, EVar 1%N); (1%N, EVar 0%N)] in
  let x := EAdd (EVar 0%N) (EMul (ELit (VInt 2)) (EVar 1%N)) in
  rall (map (bind_rhs e) m) = Ok [(0%N, VInt 5); (1%N, VInt 3)]
  /\ subst m x = EAdd (EVar 1%N) (EMul (ELit (VInt 2)) (EVar 0%N))
  /\ eval e (subst m x) = Ok (VInt 11) /\ eval ([(0%N, VInt 5); (1%N, VInt 3)] ++ e) x = Ok (VInt 11).
Proof. exact example_substitution. Qed.
Print Assumptions C04_example_substitution.

(* round 5.  The specification's own scope analysis (Spec.scope_prog / scope_sym: a static kind inference saying that no
   binary float arithmetic can take part; used by check_spec instead of asking the model) is sound for the operational
   model: where the specification judges, the model of create_program (any reading, any ghost switch) and the model of
   the duration expression never answer Inexact *)
Theorem C04_scope_prog_sound : forall c p e, scope_prog p e = true -> cp c (resolve idf p) e <> Inexact.
Proof. exact scope_prog_sound. Qed.
Print Assumptions C04_scope_prog_sound.
Theorem C04_scope_sym_sound : forall p e, scope_sym p e = true -> sym p (decimalize e) <> Inexact.
Proof. exact scope_sym_sound. Qed.
Print Assumptions C04_scope_sym_sound.
(* non-vacuity: a float parameter used bare (0.1 repeated 3 times: 3/10) is in scope; 0.1 * 3 computed in binary
   floating point is not, and the model classifies it Inexact *)
Theorem C04_example_scope :
  scope_prog ex_in_scope ex_float_env = true /\ scope_sym ex_in_scope ex_float_env = true
  /\ den ex_in_scope (qenv_of ex_float_env) = Some (3 # 10)
  /\ scope_prog ex_out_of_scope ex_float_env = false /\ cp real (resolve idf ex_out_of_scope) ex_float_env = Inexact
  /\ scope_sym ex_out_of_scope ex_float_env = true.
Proof. exact example_scope. Qed.
Print Assumptions C04_example_scope.

(* round 6.  The reading guard g_view (a condition on the model's OUTPUT: binary and decimal reading of the comparisons
   build the same program) is a consequence of an INPUT condition: no float anywhere - every parameter value and every
   literal of the template is an int or a TimeType (exact_env / exact_pt).  On such inputs the code and its decimal
   reading are the same function, whatever they answer ... *)
Theorem C04_exact_inputs_same_reading : forall p e,
  exact_env e = true -> exact_pt p = true -> cp real (resolve idf p) e = cp lax (resolve idf p) e.
Proof. exact exact_inputs_same_reading. Qed.
Print Assumptions C04_exact_inputs_same_reading.
(* ... so g_view holds exactly when the code accepts ... *)
Theorem C04_g_view_of_exact_inputs : forall p e,
  exact_env e = true -> exact_pt p = true -> g_view p e = is_ok (cp real (rs p) e).
Proof. exact g_view_of_exact_inputs. Qed.
Print Assumptions C04_g_view_of_exact_inputs.
(* ... and THE property holds for them without the reading guard: where no modelled finding class is met (cp ideal
   accepts) and the leaves define the same channels, the code accepts and all four views are the symbolic duration *)
Theorem C04_agree_exact_inputs : forall p e v,
  exact_env e = true -> exact_pt p = true -> is_ok (cp ideal (rs p) e) = true -> g_uniform p e = true ->
  sym p (decimalize e) = Ok v ->
  exists o, create_program real p e = Ok o /\
  match o with
  | None => time_of v == 0
  | Some prog => loop_duration prog == time_of v
                 /\ (exists q, to_wf prog = Some q /\ q == time_of v)
                 /\ sum_pieces 1 prog == time_of v
  end.
Proof. exact agree_exact_inputs. Qed.
Print Assumptions C04_agree_exact_inputs.
(* the program side against the specification `den`, same input condition instead of g_view *)
Theorem C04_program_views_agree_exact_inputs : forall p e d,
  exact_env e = true -> exact_pt p = true -> guard_finding FDropped p e = true -> g_uniform p e = true ->
  den p (qenv_of e) = Some d ->
  forall o, create_program real p e = Ok o ->
  match o with
  | None => d == 0
  | Some prog => loop_duration prog == d /\ (exists q, to_wf prog = Some q /\ q == d) /\ sum_pieces 1 prog == d
  end.
Proof. exact program_views_agree_exact_inputs. Qed.
Print Assumptions C04_program_views_agree_exact_inputs.
(* non-vacuity (the for-loop and mapping examples satisfy all hypotheses) and necessity (on the float input w_view, whose
   template has no float literal, the two readings build different programs) *)
Theorem C04_example_exact_inputs :
  exact_env ex_for_env = true /\ exact_pt ex_for = true /\ is_ok (cp ideal (rs ex_for) ex_for_env) = true
  /\ g_uniform ex_for ex_for_env = true /\ (exists v, sym ex_for (decimalize ex_for_env) = Ok v /\ time_of v == 9 # 2)
  /\ exact_env ex_swap_env = true /\ exact_pt ex_swap = true /\ exact_pt ex_drop = true
  /\ exact_env (snd w_view) = false /\ exact_pt (fst w_view) = true /\ g_view (fst w_view) (snd w_view) = false.
Proof. exact example_exact_inputs. Qed.
Print Assumptions C04_example_exact_inputs.
