(* C04 — property theorems (statements only; proofs live in Proofs.v). *)
From Coq Require Import ZArith QArith Qround Bool List.
Require Import QV.C04.Model QV.C04.Spec QV.C04.Proofs.
Import ListNotations.
Open Scope Q_scope.

(* the sum over all played pieces (leaf duration x multiplicity) is Loop.duration, for every program tree *)
Theorem C04_pieces_sum_is_loop_duration : forall l, sum_pieces 1 l == loop_duration l.
Proof. exact sum_pieces_is_duration. Qed.
Print Assumptions C04_pieces_sum_is_loop_duration.
