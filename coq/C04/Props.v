(* C04 — property theorems (statements only; proofs live in Proofs.v). *)
From Coq Require Import ZArith QArith Qround Bool List.
Require Import QV.C04.Model QV.C04.Spec QV.C04.Proofs.
Import ListNotations.
Open Scope Q_scope.

(* the sum over all played pieces (leaf duration x multiplicity) is Loop.duration, for every program tree *)
Theorem C04_pieces_sum_is_loop_duration : forall l, sum_pieces 1 l == loop_duration l.
Proof. exact sum_pieces_is_duration. Qed.
Print Assumptions C04_pieces_sum_is_loop_duration.

(* to_waveform(program).duration is Loop.duration on every tree with counts >= 1 and no childless inner node *)
Theorem C04_waveform_duration_is_loop_duration :
  forall l, wfl l -> exists q, wf_duration l = Some q /\ q == loop_duration l.
Proof. exact wf_duration_is_loop_duration. Qed.
Print Assumptions C04_waveform_duration_is_loop_duration.

(* ... and create_program only builds such trees *)
Theorem C04_created_programs_wellformed : forall p e kids, cp p e = Ok kids -> Forall wfl kids.
Proof. exact Lp_all. Qed.
Print Assumptions C04_created_programs_wellformed.

(* len(range(a, b, s)) = max(0, ceiling((b - a)/s)) for both signs of s, and the k-th element is a + k*s *)
Theorem C04_range_len : forall a b s, s <> 0%Z ->
  Z.of_nat (length (zrange a b s)) = Z.max 0 (Qceiling ((inject_Z b - inject_Z a) / inject_Z s)).
Proof. exact zrange_length. Qed.
Print Assumptions C04_range_len.

Theorem C04_range_nth : forall a b s k, s <> 0%Z -> (k < length (zrange a b s))%nat ->
  nth k (zrange a b s) 0%Z = (a + Z.of_nat k * s)%Z.
Proof. exact zrange_nth. Qed.
Print Assumptions C04_range_nth.

(* n repetitions of a leaf last exactly n x the leaf, for every n (an identity of Q: nothing accumulates) *)
Theorem C04_no_accumulation : forall n d, total (wrap_node n [Leaf 1 d]) == inject_Z n * d.
Proof. exact rep_leaf_exact. Qed.
Print Assumptions C04_no_accumulation.

(* program side of the property, all template kinds, unbounded: whenever the template denotes a duration d
   (guard_C04: den <> None), Loop.duration, the duration of the single waveform and the sum of the pieces are all d;
   an empty program means d = 0 *)
Theorem C04_program_views_agree : forall p e d, den p (qenv_of e) = Some d ->
  forall o, create_program p e = Ok o ->
  match o with
  | None => d == 0
  | Some prog => loop_duration prog == d /\ (exists q, wf_duration prog = Some q /\ q == d) /\ sum_pieces 1 prog == d
  end.
Proof. exact program_views_agree. Qed.
Print Assumptions C04_program_views_agree.

(* full statement for the symbolic side: the duration expression evaluates to the denoted duration *)
Definition C04_symbolic_agrees_statement : Prop :=
  forall p e v d, sym p e = Ok v -> den p (qenv_of e) = Some d -> time_of v == d.

(* proved for templates without for-loop, table and atomic pulse arithmetic *)
Theorem C04_symbolic_agrees_partial : forall p, simple p = true ->
  forall e v d, sym p e = Ok v -> den p (qenv_of e) = Some d -> time_of v == d.
Proof. exact Sp_all. Qed.
Print Assumptions C04_symbolic_agrees_partial.

(* all four views (fragment `simple` for the symbolic one), float parameters read as their shortest decimal *)
Theorem C04_agree_partial : forall p e d v o,
  simple p = true -> den p (qenv_of e) = Some d -> create_program p e = Ok o -> sym p (decimalize e) = Ok v ->
  time_of v == d /\
  match o with
  | None => d == 0
  | Some prog => loop_duration prog == d /\ (exists q, wf_duration prog = Some q /\ q == d) /\ sum_pieces 1 prog == d
  end.
Proof. exact agree_partial. Qed.
Print Assumptions C04_agree_partial.

(* without the guard the faithful model of the unchanged code violates the property: four input classes *)
Theorem C04_agree_refuted_negative_count : disagrees w_negcount /\ guard_C04 (fst w_negcount) (snd w_negcount) = false.
Proof. exact refuted_negcount. Qed.
Print Assumptions C04_agree_refuted_negative_count.
Theorem C04_agree_refuted_negative_duration : disagrees w_negdur /\ guard_C04 (fst w_negdur) (snd w_negdur) = false.
Proof. exact refuted_negdur. Qed.
Print Assumptions C04_agree_refuted_negative_duration.
Theorem C04_agree_refuted_near_integer : disagrees w_nearint /\ guard_C04 (fst w_nearint) (snd w_nearint) = false.
Proof. exact refuted_nearint. Qed.
Print Assumptions C04_agree_refuted_near_integer.
Theorem C04_agree_refuted_parallel_unequal : disagrees w_parallel /\ guard_C04 (fst w_parallel) (snd w_parallel) = false.
Proof. exact refuted_parallel. Qed.
Print Assumptions C04_agree_refuted_parallel_unequal.

(* the hypotheses are satisfiable by non-trivial inputs *)
Theorem C04_example_guard_satisfiable :
  simple ex_tpl = true /\ (exists d, den ex_tpl (qenv_of ex_env) = Some d /\ d == 3000001 # 10)
  /\ (exists prog, create_program ex_tpl ex_env = Ok (Some prog)) /\ (exists v, sym ex_tpl (decimalize ex_env) = Ok v).
Proof. exact example_guard. Qed.
Print Assumptions C04_example_guard_satisfiable.
Theorem C04_example_for_loop_guard_satisfiable :
  (exists d, den ex_for (qenv_of ex_for_env) = Some d /\ d == 9 # 4)
  /\ exists prog, create_program ex_for ex_for_env = Ok (Some prog).
Proof. exact example_for. Qed.
Print Assumptions C04_example_for_loop_guard_satisfiable.
