(* C04 — proofs about the model (Model.v) and the specification (Spec.v). *)
From Coq Require Import ZArith QArith Qround Qabs Bool List Lia Lra Setoid.
Require Import QV.C04.Model QV.C04.Spec.
Import ListNotations.

(* ------------------------------------------------------------------------------------------------------------ *)
(* induction principle for program trees *)
Section LoopInd.
  Variable P : loop -> Prop.
  Hypothesis Hleaf : forall r d, P (Leaf r d).
  Hypothesis Hnode : forall r kids, Forall P kids -> P (Node r kids).
  Fixpoint loop_ind' (l : loop) : P l :=
    match l with
    | Leaf r d => Hleaf r d
    | Node r kids => Hnode r kids ((fix go (ks : list loop) : Forall P ks :=
                                     match ks with
                                     | [] => Forall_nil _
                                     | k :: t => Forall_cons _ (loop_ind' k) (go t)
                                     end) kids)
    end.
End LoopInd.

Open Scope Q_scope.

Lemma qsum_app a b : qsum (a ++ b) == qsum a + qsum b.
Proof. induction a; cbn; [ring | rewrite IHa; ring]. Qed.

Lemma qsum_map_scale {A} (f g : A -> Q) (c : Q) (l : list A) :
  Forall (fun x => f x == c * g x) l -> qsum (map f l) == c * qsum (map g l).
Proof. induction 1; cbn; [ring | rewrite H, IHForall; ring]. Qed.

(* the sum over the played pieces is Loop.duration, for every tree and every multiplicity *)
Lemma sum_pieces_scale : forall l m, sum_pieces m l == inject_Z m * loop_duration l.
Proof.
  induction l using loop_ind'; intros m; cbn.
  - rewrite inject_Z_mult. ring.
  - rewrite (qsum_map_scale (sum_pieces (m * r)) loop_duration (inject_Z (m * r))).
    + rewrite inject_Z_mult. ring.
    + eapply Forall_impl; [|exact H]. intros a Ha; apply Ha.
Qed.

Lemma sum_pieces_is_duration : forall l, sum_pieces 1 l == loop_duration l.
Proof. intros; rewrite sum_pieces_scale. ring. Qed.
