(* C04 — proofs about the model (Model.v) and the specification (Spec.v). *)
From Coq Require Import ZArith QArith Qround Qabs Bool List Lia Lqa Setoid.
Require Import QV.C04.Model QV.C04.Spec.
Import ListNotations.

(* ------------------------------------------------------------------------------------------------------------ *)
(* induction principle for program trees *)
Section LoopInd.
  Variable P : loop -> Prop.
  Hypothesis Hleaf : forall r cs d, P (Leaf r cs d).
  Hypothesis Hnode : forall r kids, Forall P kids -> P (Node r kids).
  Fixpoint loop_ind' (l : loop) : P l :=
    match l with
    | Leaf r cs d => Hleaf r cs d
    | Node r kids => Hnode r kids ((fix go (ks : list loop) : Forall P ks :=
                                     match ks with
                                     | [] => Forall_nil _
                                     | k :: t => Forall_cons _ (loop_ind' k) (go t)
                                     end) kids)
    end.
End LoopInd.

Open Scope Q_scope.

Lemma qsum_app a b : qsum (a ++ b) == qsum a + qsum b.
Proof. induction a; cbn; [ring | rewrite IHa; ring]. Qed.

Lemma qsum_map_scale {A} (f g : A -> Q) (c : Q) (l : list A) :
  Forall (fun x => f x == c * g x) l -> qsum (map f l) == c * qsum (map g l).
Proof. induction 1; cbn; [ring | rewrite H, IHForall; ring]. Qed.

(* the sum over the played pieces is Loop.duration, for every tree and every multiplicity *)
Lemma sum_pieces_scale : forall l m, sum_pieces m l == inject_Z m * loop_duration l.
Proof.
  induction l using loop_ind'; intros m; cbn.
  - rewrite inject_Z_mult. ring.
  - rewrite (qsum_map_scale (sum_pieces (m * r)) loop_duration (inject_Z (m * r))).
    + rewrite inject_Z_mult. ring.
    + eapply Forall_impl; [|exact H]. intros a Ha; apply Ha.
Qed.

Lemma sum_pieces_is_duration : forall l, sum_pieces 1 l == loop_duration l.
Proof. intros; rewrite sum_pieces_scale. ring. Qed.

(* ------------------------------------------------------------------------------------------------------------ *)
(* Python range: closed form *)
Close Scope Q_scope.
Open Scope Z_scope.
Ltac Zify.zify_post_hook ::= Z.to_euclidean_division_equations.

Definition range_n (a b s : Z) : Z :=
  Z.max 0 (if 0 <? s then (b - a + s - 1) / s else (a - b - s - 1) / (- s)).

Definition arith_list (a s : Z) (n : nat) : list Z := map (fun k => a + Z.of_nat k * s) (seq 0 n).

Lemma arith_list_S a s n : arith_list a s (S n) = a :: arith_list (a + s) s n.
Proof.
  unfold arith_list. cbn [seq map]. f_equal; [lia|].
  rewrite <- seq_shift, map_map. apply map_ext. intros k. lia.
Qed.

Lemma range_fuel_pos s b : 0 < s -> forall fuel x, b - x <= Z.of_nat fuel ->
  range_fuel fuel x b s = arith_list x s (Z.to_nat (Z.max 0 ((b - x + s - 1) / s))).
Proof.
  intros Hs. induction fuel as [|f IH]; intros x Hx.
  - cbn. replace (Z.max 0 ((b - x + s - 1) / s)) with 0 by (assert ((b - x + s - 1) / s <= 0) by nia; lia). reflexivity.
  - cbn [range_fuel]. destruct (0 <? s) eqn:E; [|lia].
    destruct (x <? b) eqn:Exb.
    + rewrite IH by lia.
      assert (Hq : (b - x + s - 1) / s = (b - (x + s) + s - 1) / s + 1).
      { replace (b - x + s - 1) with ((b - (x + s) + s - 1) + 1 * s) by ring. rewrite Z.div_add by lia. ring. }
      assert (0 <= (b - (x + s) + s - 1) / s) by (apply Z.div_pos; lia).
      rewrite Hq. replace (Z.to_nat (Z.max 0 ((b - (x + s) + s - 1) / s + 1)))
        with (S (Z.to_nat (Z.max 0 ((b - (x + s) + s - 1) / s)))) by lia.
      rewrite arith_list_S. reflexivity.
    + replace (Z.max 0 ((b - x + s - 1) / s)) with 0 by (assert ((b - x + s - 1) / s <= 0) by nia; lia). reflexivity.
Qed.

Lemma range_fuel_neg s b : s < 0 -> forall fuel x, x - b <= Z.of_nat fuel ->
  range_fuel fuel x b s = arith_list x s (Z.to_nat (Z.max 0 ((x - b - s - 1) / (- s)))).
Proof.
  intros Hs. induction fuel as [|f IH]; intros x Hx.
  - cbn. replace (Z.max 0 ((x - b - s - 1) / (- s))) with 0 by (assert ((x - b - s - 1) / (- s) <= 0) by nia; lia). reflexivity.
  - cbn [range_fuel]. destruct (0 <? s) eqn:E; [lia|].
    destruct (b <? x) eqn:Exb.
    + rewrite IH by lia.
      assert (Hq : (x - b - s - 1) / (- s) = ((x + s) - b - s - 1) / (- s) + 1).
      { replace (x - b - s - 1) with (((x + s) - b - s - 1) + 1 * (- s)) by ring. rewrite Z.div_add by lia. ring. }
      assert (0 <= ((x + s) - b - s - 1) / (- s)) by (apply Z.div_pos; lia).
      rewrite Hq. replace (Z.to_nat (Z.max 0 ((x + s - b - s - 1) / (- s) + 1)))
        with (S (Z.to_nat (Z.max 0 ((x + s - b - s - 1) / (- s))))) by lia.
      rewrite arith_list_S. reflexivity.
    + replace (Z.max 0 ((x - b - s - 1) / (- s))) with 0 by (assert ((x - b - s - 1) / (- s) <= 0) by nia; lia). reflexivity.
Qed.

Lemma zrange_closed a b s : s <> 0 -> zrange a b s = arith_list a s (Z.to_nat (range_n a b s)).
Proof.
  intros Hs. unfold zrange, range_n. destruct (0 <? s) eqn:E.
  - apply range_fuel_pos; lia.
  - apply range_fuel_neg; lia.
Qed.

(* the integer ceiling of a quotient of integers *)
Lemma Qceiling_unique (q : Q) (z : Z) : (inject_Z (z - 1) < q)%Q -> (q <= inject_Z z)%Q -> Qceiling q = z.
Proof.
  intros H1 H2.
  pose proof (Qle_ceiling q) as H3. pose proof (Qceiling_lt q) as H4.
  assert (z - 1 < Qceiling q) by (rewrite Zlt_Qlt; eapply Qlt_le_trans; eauto).
  assert (Qceiling q - 1 < z) by (rewrite Zlt_Qlt; eapply Qlt_le_trans; eauto).
  lia.
Qed.

Lemma Qceiling_div_pos (m s : Z) : 0 < s -> Qceiling (inject_Z m / inject_Z s) = (m + s - 1) / s.
Proof.
  intros Hs. apply Qceiling_unique.
  - apply Qlt_shift_div_l; [rewrite <- (Zlt_Qlt 0); exact Hs|].
    rewrite <- inject_Z_mult, <- Zlt_Qlt. nia.
  - apply Qle_shift_div_r; [rewrite <- (Zlt_Qlt 0); exact Hs|].
    rewrite <- inject_Z_mult, <- Zle_Qle. nia.
Qed.

Lemma range_n_ceiling a b s : s <> 0 ->
  range_n a b s = Z.max 0 (Qceiling ((inject_Z b - inject_Z a) / inject_Z s)).
Proof.
  intros Hs. unfold range_n. f_equal. destruct (0 <? s) eqn:E.
  - rewrite <- Qceiling_div_pos by lia. apply Qceiling_comp.
    unfold Zminus. rewrite inject_Z_plus, inject_Z_opp. reflexivity.
  - replace (a - b - s - 1) with ((a - b) + (- s) - 1) by ring.
    rewrite <- Qceiling_div_pos by lia. apply Qceiling_comp.
    assert (~ inject_Z s == 0)%Q by (intros H; apply Hs; apply (proj1 (inject_Z_injective s 0)); exact H).
    unfold Zminus. rewrite inject_Z_plus, !inject_Z_opp. field. auto.
Qed.

Lemma arith_list_length a s n : length (arith_list a s n) = n.
Proof. unfold arith_list. rewrite map_length, seq_length. reflexivity. Qed.

Lemma zrange_length a b s : s <> 0 ->
  Z.of_nat (length (zrange a b s)) = Z.max 0 (Qceiling ((inject_Z b - inject_Z a) / inject_Z s)).
Proof.
  intros Hs. rewrite zrange_closed, arith_list_length, <- range_n_ceiling by assumption.
  unfold range_n. lia.
Qed.

Lemma zrange_nth a b s k : s <> 0 -> (k < length (zrange a b s))%nat -> nth k (zrange a b s) 0 = a + Z.of_nat k * s.
Proof.
  intros Hs Hk. rewrite zrange_closed in * by assumption. rewrite arith_list_length in Hk.
  unfold arith_list.
  rewrite (nth_indep _ 0 ((fun k => a + Z.of_nat k * s) O)) by (rewrite map_length, seq_length; exact Hk).
  rewrite (map_nth (fun k => a + Z.of_nat k * s) (seq 0 _) O k), seq_nth by exact Hk. reflexivity.
Qed.

(* ------------------------------------------------------------------------------------------------------------ *)
(* to_waveform(program).duration = Loop.duration on the trees create_program builds *)
Open Scope Q_scope.

Fixpoint wfl (l : loop) : Prop :=
  match l with
  | Leaf r _ d => (1 <= r)%Z
  | Node r kids => (1 <= r)%Z /\ kids <> [] /\ (fix all (ks : list loop) : Prop :=
                                                 match ks with [] => True | k :: t => wfl k /\ all t end) kids
  end.

Lemma wfl_all (kids : list loop) :
  (fix all (ks : list loop) : Prop := match ks with [] => True | k :: t => wfl k /\ all t end) kids <-> Forall wfl kids.
Proof.
  induction kids as [|k t IH]; split; intros H.
  - constructor.
  - exact I.
  - destruct H as [H1 H2]. constructor; [exact H1 | apply IH; exact H2].
  - inversion H; subst. split; [assumption | apply IH; assumption].
Qed.

Lemma wfl_node r kids : wfl (Node r kids) <-> (1 <= r)%Z /\ kids <> [] /\ Forall wfl kids.
Proof. cbn [wfl]. rewrite wfl_all. reflexivity. Qed.

Lemma oqsum_some (kids : list loop) :
  Forall (fun k => exists q, wf_duration k = Some q /\ q == loop_duration k) kids ->
  exists s, oqsum (map wf_duration kids) = Some s /\ s == qsum (map loop_duration kids).
Proof.
  induction 1 as [|k t (q & Hq & Hqe) _ (s & Hs & Hse)]; cbn.
  - exists 0; split; [reflexivity | reflexivity].
  - rewrite Hq, Hs. exists (q + s). split; [reflexivity | rewrite Hqe, Hse; reflexivity].
Qed.

Lemma wf_duration_is_loop_duration : forall l, wfl l -> exists q, wf_duration l = Some q /\ q == loop_duration l.
Proof.
  induction l using loop_ind'; intros Hw.
  - cbn in *. destruct (r =? 1)%Z eqn:E.
    + apply Z.eqb_eq in E; subst. eexists; split; [reflexivity|]. ring.
    + eexists; split; [reflexivity|]. reflexivity.
  - apply wfl_node in Hw as (Hr & Hne & Hall).
    assert (Hk : Forall (fun k => exists q, wf_duration k = Some q /\ q == loop_duration k) kids).
    { rewrite Forall_forall in *. intros k Hin. apply H; auto. }
    destruct (oqsum_some kids Hk) as (s & Hs & Hse).
    cbn [wf_duration loop_duration]. destruct kids as [|k0 t]; [congruence|].
    rewrite Hs. destruct (1 <? r)%Z eqn:E.
    + eexists; split; [reflexivity|]. rewrite Hse. reflexivity.
    + assert (r = 1%Z) by lia. subst. eexists; split; [reflexivity|]. rewrite Hse. ring.
Qed.

(* n repetitions of a leaf last exactly n times the leaf: an identity of Q, no accumulation for any n *)
Lemma rep_leaf_exact (n : Z) (cs : list Z) (d : Q) : total (wrap_node n [Leaf 1 cs d]) == inject_Z n * d.
Proof. cbn. ring. Qed.

(* ------------------------------------------------------------------------------------------------------------ *)
(* induction principle for templates *)
Section PtInd.
  Variable P : pt -> Prop.
  Hypothesis HAtom : forall k chs d, P (PAtom k chs d).
  Hypothesis HTable : forall chans, P (PTable chans).
  Hypothesis HSeq : forall subs, Forall P subs -> P (PSeq subs).
  Hypothesis HRep : forall c b, P b -> P (PRep c b).
  Hypothesis HFor : forall i a b s body, P body -> P (PFor i a b s body).
  Hypothesis HMap : forall m cm b, P b -> P (PMap m cm b).
  Hypothesis HMulti : forall d subs, Forall P subs -> P (PMulti d subs).
  Hypothesis HArith : forall l r, P l -> P r -> P (PArith l r).
  Hypothesis HWrap : forall b, P b -> P (PWrap b).
  Hypothesis HRev : forall b, P b -> P (PRev b).
  Hypothesis HConstr : forall cs b, P b -> P (PConstr cs b).
  Hypothesis HSingle : forall b, P b -> P (PSingle b).
  Fixpoint pt_ind' (p : pt) : P p :=
    let go := fix go (l : list pt) : Forall P l :=
      match l with [] => Forall_nil _ | c :: t => Forall_cons _ (pt_ind' c) (go t) end in
    match p with
    | PAtom k chs d => HAtom k chs d
    | PTable chans => HTable chans
    | PSeq subs => HSeq subs (go subs)
    | PRep c b => HRep c b (pt_ind' b)
    | PFor i a b s body => HFor i a b s body (pt_ind' body)
    | PMap m cm b => HMap m cm b (pt_ind' b)
    | PMulti d subs => HMulti d subs (go subs)
    | PArith l r => HArith l r (pt_ind' l) (pt_ind' r)
    | PWrap b => HWrap b (pt_ind' b)
    | PRev b => HRev b (pt_ind' b)
    | PConstr cs b => HConstr cs b (pt_ind' b)
    | PSingle b => HSingle b (pt_ind' b)
    end.
End PtInd.

(* ------------------------------------------------------------------------------------------------------------ *)
(* generic list lemmas for the two monads *)
Lemma rbind_ok {A B} (r : res A) (f : A -> res B) b : rbind r f = Ok b -> exists a, r = Ok a /\ f a = Ok b.
Proof. destruct r; cbn; intros H; try discriminate. eauto. Qed.

Lemma obind_some {A B} (o : option A) (f : A -> option B) b : obind o f = Some b -> exists a, o = Some a /\ f a = Some b.
Proof. destruct o; cbn; intros H; try discriminate. eauto. Qed.

Ltac inv_ok :=
  repeat match goal with
         | H : rbind _ _ = Ok _ |- _ => apply rbind_ok in H; destruct H as (? & ? & H)
         | H : obind _ _ = Some _ |- _ => apply obind_some in H; destruct H as (? & ? & H)
         | H : Ok _ = Ok _ |- _ => inversion H; subst; clear H
         | H : Some _ = Some _ |- _ => inversion H; subst; clear H
         end.

Lemma rall_map_inv {A B} (f : A -> res B) l ks : rall (map f l) = Ok ks -> Forall2 (fun c k => f c = Ok k) l ks.
Proof.
  revert ks; induction l as [|c t IH]; cbn; intros ks H.
  - inversion H; constructor.
  - inv_ok. constructor; auto.
Qed.

Lemma oall_map_inv {A B} (g : A -> option B) l ds : oall (map g l) = Some ds -> Forall2 (fun c d => g c = Some d) l ds.
Proof.
  revert ds; induction l as [|c t IH]; cbn; intros ds H.
  - inversion H; constructor.
  - inv_ok. constructor; auto.
Qed.

(* ------------------------------------------------------------------------------------------------------------ *)
(* expressions: the typed evaluation agrees with the rational evaluation *)
Lemma Qleb_comp a a' b b' : a == a' -> b == b' -> Qleb a b = Qleb a' b'.
Proof.
  intros Ha Hb. unfold Qleb. destruct (Qle_bool a b) eqn:E1, (Qle_bool a' b') eqn:E2; auto.
  - apply Qle_bool_iff in E1. rewrite Ha, Hb in E1. apply Qle_bool_iff in E1. congruence.
  - apply Qle_bool_iff in E2. rewrite <- Ha, <- Hb in E2. apply Qle_bool_iff in E2. congruence.
Qed.

Lemma Qeqb_comp a a' b b' : a == a' -> b == b' -> Qeqb a b = Qeqb a' b'.
Proof.
  intros Ha Hb. unfold Qeqb. destruct (Qeq_bool a b) eqn:E1, (Qeq_bool a' b') eqn:E2; auto.
  - apply Qeq_bool_iff in E1. rewrite Ha, Hb in E1. apply Qeq_bool_iff in E1. congruence.
  - apply Qeq_bool_iff in E2. rewrite <- Ha, <- Hb in E2. apply Qeq_bool_iff in E2. congruence.
Qed.

Lemma Qmaxq_comp a a' b b' : a == a' -> b == b' -> Qmaxq a b == Qmaxq a' b'.
Proof. intros Ha Hb. unfold Qmaxq. rewrite (Qleb_comp a a' b b' Ha Hb). destruct (Qleb a' b'); assumption. Qed.

Lemma lookup_qenv e y : lookup (qenv_of e) y = option_map (fun v => Qred (time_of v)) (lookup e y).
Proof.
  induction e as [|[x v] t IH]; cbn; [reflexivity|]. destruct (N.eqb y x); [reflexivity | exact IH].
Qed.

Lemma arith_time f fz a b v :
  (forall x y, inject_Z (fz x y) == f (inject_Z x) (inject_Z y)) ->
  arith f fz a b = Ok v -> time_of v == f (time_of a) (time_of b).
Proof.
  intros Hz H. destruct a, b; cbn in H; inversion H; subst; cbn; try reflexivity. apply Hz.
Qed.

Lemma vadd_time a b v : vadd a b = Ok v -> time_of v == time_of a + time_of b.
Proof. apply arith_time. intros; rewrite inject_Z_plus; reflexivity. Qed.
Lemma vsub_time a b v : vsub a b = Ok v -> time_of v == time_of a - time_of b.
Proof. apply arith_time. intros. unfold Z.sub, Qminus. rewrite inject_Z_plus, inject_Z_opp. reflexivity. Qed.
Lemma vmul_time a b v : vmul a b = Ok v -> time_of v == time_of a * time_of b.
Proof. apply arith_time. intros; rewrite inject_Z_mult; reflexivity. Qed.
Lemma vdivk_time a k v : vdivk a k = Ok v -> time_of v == time_of a / (Zpos k # 1).
Proof.
  destruct a; cbn; try discriminate. destruct (_ || _)%bool; intros H; inversion H; subst. reflexivity.
Qed.
Lemma vmax_time a b v : vmax a b = Ok v -> time_of v == Qmaxq (time_of a) (time_of b).
Proof.
  unfold vmax, Qmaxq. destruct a, b; intros H; inversion H; subst; clear H; cbn [time_of];
    match goal with |- context [Qleb ?x ?y] => destruct (Qleb x y) end; reflexivity.
Qed.

Lemma eval_qeval e x : forall v, eval e x = Ok v -> exists q, qeval (qenv_of e) x = Some q /\ q == time_of v.
Proof.
  induction x; cbn; intros v0 H.
  - inversion H; subst. eexists; split; reflexivity.
  - rewrite lookup_qenv. destruct (lookup e x) as [v|]; [|discriminate].
    assert (v0 = v) by (destruct v; inversion H; reflexivity). subst v0.
    cbn [option_map]. eexists; split; [reflexivity | apply Qred_correct].
  - inv_ok. destruct (IHx1 _ H0) as (q1 & -> & E1), (IHx2 _ H1) as (q2 & -> & E2). cbn.
    eexists; split; [reflexivity|]. rewrite (vadd_time _ _ _ H), E1, E2. reflexivity.
  - inv_ok. destruct (IHx1 _ H0) as (q1 & -> & E1), (IHx2 _ H1) as (q2 & -> & E2). cbn.
    eexists; split; [reflexivity|]. rewrite (vsub_time _ _ _ H), E1, E2. reflexivity.
  - inv_ok. destruct (IHx1 _ H0) as (q1 & -> & E1), (IHx2 _ H1) as (q2 & -> & E2). cbn.
    eexists; split; [reflexivity|]. rewrite (vmul_time _ _ _ H), E1, E2. reflexivity.
  - inv_ok. destruct (IHx _ H0) as (q1 & -> & E1). cbn.
    eexists; split; [reflexivity|]. rewrite (vdivk_time _ _ _ H), E1. reflexivity.
  - inv_ok. destruct (IHx1 _ H0) as (q1 & -> & E1), (IHx2 _ H1) as (q2 & -> & E2). cbn.
    eexists; split; [reflexivity|]. rewrite (vmax_time _ _ _ H). apply Qmaxq_comp; assumption.
Qed.

(* ------------------------------------------------------------------------------------------------------------ *)
(* small facts about totals, sorting, integer casts *)
Lemma total_app a b : total (a ++ b) == total a + total b.
Proof. unfold total. rewrite map_app. apply qsum_app. Qed.

Lemma total_concat ks : total (concat ks) == qsum (map total ks).
Proof. induction ks; [reflexivity|]. cbn [concat map qsum]. rewrite total_app, IHks. reflexivity. Qed.

Lemma total_wrap n kids : total (wrap_node n kids) == total kids * inject_Z n.
Proof. destruct kids; cbn; [ring | unfold total; cbn; ring]. Qed.

Lemma In_insert_comp x y l : In x (insert_comp y l) <-> x = y \/ In x l.
Proof.
  induction l as [|z t IH]; cbn; [intuition|].
  destruct (fst z <=? fst y)%Z; cbn; [rewrite IH|]; intuition.
Qed.

Lemma In_sort_comps x l : In x (sort_comps l) <-> In x l.
Proof.
  induction l as [|y t IH]; cbn; [reflexivity|]. rewrite In_insert_comp, IH. intuition.
Qed.

Lemma Qfloor_int q z : q == inject_Z z -> Qfloor q = z.
Proof. intros H. rewrite (Qfloor_comp _ _ H). apply Qfloor_Z. Qed.

Lemma qint_some q z : qint q = Some z -> q == inject_Z z.
Proof.
  unfold qint, is_int, Qeqb. destruct (Qeq_bool _ _) eqn:E; intros H; inversion H; subst.
  apply Qeq_bool_iff in E. symmetry. exact E.
Qed.

Lemma round_int x z : x == inject_Z z -> Qround_half_even x = z.
Proof.
  intros H. unfold Qround_half_even. rewrite (Qfloor_int _ _ H).
  assert (E : (x - inject_Z z ?= 1 # 2) = Lt).
  { apply Qlt_alt. rewrite H. setoid_replace (inject_Z z - inject_Z z) with 0 by ring. reflexivity. }
  rewrite E. reflexivity.
Qed.

Lemma int_of_round c v n : int_of c v = Ok n -> match v with VInt z => n = z | _ => n = Qround_half_even (cv c v) end.
Proof.
  destruct v; cbn; intros H; try (inversion H; reflexivity);
    destruct (Qltb _ _); try discriminate; destruct (_ && _)%bool; inversion H; reflexivity.
Qed.

(* ------------------------------------------------------------------------------------------------------------ *)
(* create_program only builds well-formed trees: every repetition count >= 1, no childless inner node *)
(* where to_waveform does not raise, its duration is wf_duration *)
Lemma to_wf_some l q : to_wf l = Some q -> wf_duration l = Some q.
Proof. unfold to_wf. destruct (uniform l); [trivial | discriminate]. Qed.

Definition Lp (cf : cfg) (p : pt) : Prop := forall e kids, cp cf p e = Ok kids -> Forall wfl kids.

Lemma wfl_wrap n kids : (1 <= n)%Z -> Forall wfl kids -> Forall wfl (wrap_node n kids).
Proof.
  intros Hn Hk. destruct kids as [|k t]; cbn [wrap_node]; constructor; [|constructor].
  apply wfl_node. repeat split; [exact Hn | discriminate | exact Hk].
Qed.

Lemma Forall_concat {A} (P : A -> Prop) (ls : list (list A)) : Forall (Forall P) ls -> Forall P (concat ls).
Proof. induction 1; cbn; [constructor | apply Forall_app; split; assumption]. Qed.

Lemma lp_atomic cf p e kids :
  (do w <- wf_of cf p e; Ok (match w with Some c => [Leaf 1 (map fst c) (cdur c)] | None => [] end)) = Ok kids -> Forall wfl kids.
Proof.
  intros H. apply rbind_ok in H as (w & _ & H). inversion H; subst. destruct w; repeat constructor. cbn. lia.
Qed.

Lemma Forall2_right {A B} (P : A -> Prop) (Q : B -> Prop) (R : A -> B -> Prop) l l' :
  (forall x y, P x -> R x y -> Q y) -> Forall P l -> Forall2 R l l' -> Forall Q l'.
Proof. intros H HP H2. induction H2; constructor; inversion HP; subst; eauto. Qed.

Lemma Lp_all cf : forall p, Lp cf p.
Proof.
  induction p using pt_ind'; unfold Lp; intros e kids Hc; cbn [cp] in Hc.
  - eapply lp_atomic; eassumption.
  - eapply lp_atomic; eassumption.
  - apply rbind_ok in Hc as (ks & Hks & Hc). inversion Hc; subst; clear Hc. apply rall_map_inv in Hks.
    apply Forall_concat. eapply (Forall2_right (Lp cf)); [|exact H|exact Hks]. intros c k HL Hk. exact (HL e k Hk).
  - apply rbind_ok in Hc as (vc & _ & Hc). apply rbind_ok in Hc as (n & _ & Hc).
    destruct (_ && _)%bool; [discriminate|].
    destruct (n <=? 0)%Z eqn:E; [inversion Hc; constructor|].
    apply rbind_ok in Hc as (kids' & Hk & Hc). inversion Hc; subst. apply wfl_wrap; [lia | eapply IHp; eassumption].
  - apply rbind_ok in Hc as (va & _ & Hc). apply rbind_ok in Hc as (ia & _ & Hc).
    apply rbind_ok in Hc as (vb & _ & Hc). apply rbind_ok in Hc as (ib & _ & Hc).
    apply rbind_ok in Hc as (vs & _ & Hc). apply rbind_ok in Hc as (is & _ & Hc).
    destruct (is =? 0)%Z; [discriminate|].
    apply rbind_ok in Hc as (ks & Hks & Hc). inversion Hc; subst; clear Hc. apply rall_map_inv in Hks.
    apply Forall_concat. eapply (Forall2_right (fun _ => True)); [|apply Forall_forall; trivial|exact Hks].
    intros v k _ Hk. exact (IHp _ k Hk).
  - apply rbind_ok in Hc as (e' & _ & Hc). eapply IHp; eassumption.
  - eapply lp_atomic; eassumption.
  - eapply lp_atomic; eassumption.
  - eapply IHp; eassumption.
  - apply rbind_ok in Hc as (kids' & Hk & Hc). inversion Hc; subst. apply wfl_wrap; [lia | eapply IHp; eassumption].
  - apply rbind_ok in Hc as (u & _ & Hc). eapply IHp; eassumption.
  - apply rbind_ok in Hc as (kids' & Hk & Hc). destruct kids'; [inversion Hc; constructor|].
    destruct (to_wf _); inversion Hc; subst. repeat constructor. cbn. lia.
Qed.

Section Cfg.
Variable cf : cfg.
Hypothesis Hcv : forall v, cv cf v = time_of v.
(* ... and that stops at an atom none of whose channels is played (see C04_agree_refuted_all_channels_dropped) *)
Hypothesis Hdrop : s_dropped cf = true.

Lemma int_of_qint v n q z : int_of cf v = Ok n -> q == time_of v -> qint q = Some z -> n = z.
Proof.
  intros Hi Hq Hz. apply qint_some in Hz. rewrite Hq in Hz.
  apply int_of_round in Hi. destruct v; rewrite ?Hcv in Hi; subst n.
  - cbn [time_of] in Hz. apply (proj1 (inject_Z_injective z0 z)). exact Hz.
  - apply round_int; exact Hz.
  - apply round_int; exact Hz.
  - apply round_int; exact Hz.
Qed.

Lemma Forall2_join {A B C} (P : A -> Prop) (R1 : A -> B -> Prop) (R2 : A -> C -> Prop) (R3 : B -> C -> Prop) l a b :
  (forall x y z, P x -> R1 x y -> R2 x z -> R3 y z) ->
  Forall P l -> Forall2 R1 l a -> Forall2 R2 l b -> Forall2 R3 a b.
Proof.
  intros H HP H1. revert b. induction H1; intros b' H2; inversion H2; subst; constructor; inversion HP; subst; eauto.
Qed.

(* ------------------------------------------------------------------------------------------------------------ *)
(* mapping: the mapped environment of the model is the mapped environment of the specification *)
Lemma map_env_qenv e m e' vs :
  map_env e m = Ok e' ->
  oall (map (fun xe => let? v := qeval (qenv_of e) (snd xe) in Some (fst xe, Qred v)) m) = Some vs ->
  qenv_of e' = vs ++ qenv_of e.
Proof.
  unfold map_env. intros H1 H2. inv_ok. unfold qenv_of at 1. rewrite map_app. f_equal.
  apply rall_map_inv in H. apply oall_map_inv in H2.
  revert vs H2. induction H as [|xe k l l' Hk Hl IH]; intros vs H2; inversion H2 as [|? d ? vs' Hd Hvs]; subst; cbn;
    [reflexivity|].
  f_equal; [|apply IH; assumption].
  apply rbind_ok in Hk as (v & Hv & Hk). inversion Hk; subst; clear Hk.
  destruct (eval_qeval _ _ _ Hv) as (q & Hq & E). rewrite Hq in Hd. cbn in Hd. inversion Hd; subst. cbn.
  f_equal. apply Qred_complete. symmetry; exact E.
Qed.

(* ------------------------------------------------------------------------------------------------------------ *)
(* tables *)
Lemma qmax_list_comp l l' : Forall2 Qeq l l' -> forall a a', a == a' -> qmax_list a l == qmax_list a' l'.
Proof. induction 1; intros a a' Ha; cbn; [exact Ha | apply IHForall2, Qmaxq_comp; assumption]. Qed.

Lemma vmax_list_time l : forall a m, vmax_list a l = Ok m -> time_of m == qmax_list (time_of a) (map time_of l).
Proof.
  induction l as [|b t IH]; cbn; intros a m H.
  - inversion H; subst; reflexivity.
  - inv_ok. rewrite (IH _ _ H). apply qmax_list_comp.
    + clear. induction t; constructor; [reflexivity | assumption].
    + apply vmax_time; assumption.
Qed.

Lemma Qltb_false a b : Qltb a b = false -> b <= a.
Proof. unfold Qltb. intros H. apply negb_false_iff in H. apply Qle_bool_iff in H. exact H. Qed.
Lemma Qltb_true a b : Qltb a b = true -> a < b.
Proof.
  unfold Qltb. intros H. apply negb_true_iff in H. apply Qnot_le_lt. intros C. apply Qle_bool_iff in C. congruence.
Qed.
Lemma Qleb_true a b : Qleb a b = true -> a <= b.
Proof. unfold Qleb. apply Qle_bool_iff. Qed.
Lemma Qleb_false a b : Qleb a b = false -> b < a.
Proof. unfold Qleb. intros H. apply Qnot_le_lt. intros C. apply Qle_bool_iff in C. congruence. Qed.
Lemma Qeqb_true a b : Qeqb a b = true -> a == b.
Proof. unfold Qeqb. apply Qeq_bool_iff. Qed.

Lemma pymax_time f a b : (forall v, f v = time_of v) -> time_of (pymax f a b) == Qmaxq (time_of a) (time_of b).
Proof.
  intros Hf. unfold pymax, Qmaxq. rewrite !Hf. destruct (Qltb _ _) eqn:E1, (Qleb _ _) eqn:E2; try reflexivity.
  - apply Qltb_true in E1. apply Qleb_false in E2. lra.
  - apply Qltb_false in E1. apply Qleb_true in E2. lra.
Qed.

Lemma pymax_list_time f l : (forall v, f v = time_of v) ->
  forall a, time_of (pymax_list f a l) == qmax_list (time_of a) (map time_of l).
Proof.
  intros Hf. induction l as [|b t IH]; cbn; intros a; [reflexivity|].
  rewrite IH. apply qmax_list_comp.
  - clear. induction t; constructor; [reflexivity | assumption].
  - apply pymax_time; assumption.
Qed.

Definition vq (v : value) (q : Q) : Prop := q == time_of v.

Lemma evals_rel e ts vs qs :
  rall (map (eval e) ts) = Ok vs -> oall (map (qeval (qenv_of e)) ts) = Some qs -> Forall2 vq vs qs.
Proof.
  intros H1 H2. apply rall_map_inv in H1. apply oall_map_inv in H2.
  revert qs H2. induction H1 as [|x v l l' Hv Hl IH]; intros qs H2; inversion H2; subst; constructor; [|apply IH; assumption].
  destruct (eval_qeval _ _ _ Hv) as (q & Hq & E). unfold vq. congruence.
Qed.

Lemma last_rel vs qs dv dq : Forall2 vq vs qs -> vs <> [] -> vq (last vs dv) (last qs dq).
Proof.
  induction 1 as [|v q vs' qs' Hvq Hrest IH]; intros Hne; [congruence|].
  destruct Hrest as [|v2 q2 vs2 qs2]; [exact Hvq|].
  change (vq (last (v2 :: vs2) dv) (last (q2 :: qs2) dq)). apply IH. discriminate.
Qed.

Lemma tables_rel e chans vals qvals :
  rall (map (fun ts => rall (map (eval e) ts)) chans) = Ok vals ->
  oall (map (fun ts => oall (map (qeval (qenv_of e)) ts)) chans) = Some qvals ->
  Forall2 (Forall2 vq) vals qvals.
Proof.
  intros H H0. apply rall_map_inv in H. apply oall_map_inv in H0.
  revert qvals H0. induction H as [|ts vs l l' Hvs Hl IH]; intros qvals Hq; inversion Hq; subst; constructor.
  - eapply evals_rel; eassumption.
  - apply IH; assumption.
Qed.

(* components built for the played channels *)
Lemma sort_comps_nonempty l : l <> [] -> sort_comps l <> [].
Proof.
  destruct l as [|x t]; [congruence|]. intros _ C.
  assert (In x (sort_comps (x :: t))) by (apply In_sort_comps; left; reflexivity). rewrite C in H. destruct H.
Qed.
Lemma In_mk_comps x kc q : In x (mk_comps kc q) -> snd x = q.
Proof.
  unfold mk_comps. intros H. apply (proj1 (In_sort_comps _ _)) in H. apply in_map_iff in H as (c & E & _). subst. reflexivity.
Qed.
Lemma mk_comps_nonempty kc q : kc <> [] -> mk_comps kc q <> [].
Proof. intros H. apply sort_comps_nonempty. destruct kc; [congruence | discriminate]. Qed.
Lemma In_recomp x w q : In x (recomp w q) -> snd x = q.
Proof. unfold recomp. intros H. apply in_map_iff in H as (c & E & _). subst. reflexivity. Qed.
Lemma recomp_nonempty w q : w <> [] -> recomp w q <> [].
Proof. destruct w; [congruence | discriminate]. Qed.

Lemma kept_nonempty {A} (cs : list (option Z)) (ps : list A) : length cs = length ps -> somes cs <> [] ->
  somes (map (fun ct => match fst ct with Some c => Some (c, snd ct) | None => None end) (combine cs ps)) <> [].
Proof.
  revert ps. induction cs as [|c t IH]; intros [|p ps] Hl Hs; try discriminate; [cbn in Hs; congruence|].
  cbn. destruct c; [discriminate|]. cbn in Hs. apply IH; [cbn in Hl; congruence | exact Hs].
Qed.

Lemma Forall2_len {A B} (R : A -> B -> Prop) l l' : Forall2 R l l' -> length l = length l'.
Proof. induction 1; cbn; congruence. Qed.

Lemma table_wf_den f e chans w d : (forall v, f v = time_of v) -> somes (map fst chans) <> [] ->
  table_wf f e chans = Ok w -> den (PTable chans) (qenv_of e) = Some d ->
  match w with None => d == 0 | Some c => c <> [] /\ Forall (fun x => snd x == d) c end.
Proof.
  intros Hf Hkept. unfold table_wf. cbn [den]. intros H1 H2. inv_ok.
  rename x into vals, x0 into qvals.
  destruct (forallb _ qvals) eqn:Hvalid; [|discriminate].
  (* relate the evaluated tables *)
  assert (Hrel : Forall2 (Forall2 vq) vals qvals) by (eapply tables_rel; eassumption).
  set (ins := map (fun ts => match ts with v :: _ => if Qltb 0 (f v) then VInt 0 :: ts else ts | [] => ts end) vals) in *.
  assert (Hlast : Forall2 vq (map lastv ins) (map (fun ts => last ts 0) qvals)).
  { subst ins. rewrite forallb_forall in Hvalid. clear H1 H2 H H0.
    induction Hrel as [|vs qs l l' Hvq Hl IH]; cbn [map]; constructor.
    - assert (Hne : qs <> []).
      { specialize (Hvalid qs (or_introl eq_refl)). destruct qs; [discriminate | discriminate]. }
      destruct Hvq as [|v q vs' qs' Hv Hr]; [congruence|].
      destruct (Qltb 0 (f v)).
      + change (lastv (VInt 0 :: v :: vs')) with (last (v :: vs') (VInt 0)). apply last_rel; [constructor; assumption | discriminate].
      + apply last_rel; [constructor; assumption | discriminate].
    - apply IH. intros x Hx. apply Hvalid. right; exact Hx. }
  destruct (map lastv ins) as [|a t] eqn:Ea; [discriminate|].
  destruct (map (fun ts => last ts 0) qvals) as [|qa qt] eqn:Eq; [inversion Hlast|].
  inversion H2; subst; clear H2. inversion Hlast; subst.
  set (dur := pymax_list f a t) in *.
  assert (Hd : time_of dur == qmax_list qa qt).
  { subst dur. rewrite (pymax_list_time f t Hf). apply qmax_list_comp.
    - clear - H7. induction H7; cbn; constructor; [symmetry; assumption | assumption].
    - symmetry; assumption. }
  destruct (Qeqb (f dur) 0) eqn:Ez.
  - inversion H1; subst. rewrite Hf in Ez. apply Qeqb_true in Ez. rewrite <- Hd. exact Ez.
  - match type of H1 with match ?k with _ => _ end = _ => destruct k as [|k0 kt] eqn:Ek end.
    + exfalso. revert Ek. apply kept_nonempty; [|exact Hkept].
      rewrite !map_length. apply rall_map_inv in H. apply Forall2_len in H. rewrite !map_length in H.
      subst ins. rewrite map_length. exact H.
    + destruct (forallb _ _); inversion H1; subst. split; [apply mk_comps_nonempty; discriminate|].
      apply Forall_forall. intros x Hx. rewrite (In_mk_comps _ _ _ Hx). exact Hd.
Qed.

(* ------------------------------------------------------------------------------------------------------------ *)
(* atomic templates: every channel component of the built waveform has the denoted duration *)
Lemma Qabs_le0 b : Qabs b <= 0 -> b == 0.
Proof. intros H. apply Qabs_Qle_condition in H. destruct H. apply Qle_antisym; assumption. Qed.

Lemma isclose_zero a b : isclose a b = true -> a == 0 -> b == 0.
Proof.
  unfold isclose, Qleb. intros H Ha. apply Qle_bool_iff in H.
  assert (E1 : Qabs (a - b) == Qabs b).
  { setoid_replace (a - b) with (- b) by (rewrite Ha; ring). apply Qabs_opp. }
  assert (E2 : Qabs a == 0) by (rewrite Ha; reflexivity).
  pose proof (Qabs_nonneg b) as Hb.
  rewrite E1 in H. apply Qabs_le0.
  destruct (Qle_bool (Qabs a) (Qabs b)); cbv beta iota in H.
  - generalize dependent (Qabs b). intros x Hx _ Hx'. lra.
  - rewrite E2 in H. generalize dependent (Qabs b). intros x Hx _ Hx'. lra.
Qed.

Definition wf_ok (w : option comps) (d : Q) : Prop :=
  match w with None => d == 0 | Some c => c <> [] /\ Forall (fun x => snd x == d) c end.

Lemma wf_ok_cdur c d : wf_ok (Some c) d -> cdur c == d.
Proof. intros [Hne Hall]. destruct c as [|[r q] t]; [congruence|]. inversion Hall; subst. assumption. Qed.

Lemma wf_ok_eq w d d' : d == d' -> wf_ok w d -> wf_ok w d'.
Proof.
  intros E. destruct w; cbn; [|intros H; rewrite <- E; exact H].
  intros [Hne Hall]. split; [exact Hne|]. eapply Forall_impl; [|exact Hall]. cbn. intros x Hx. rewrite Hx. exact E.
Qed.

Lemma wf_ok_mk kc q d : kc <> [] -> q == d -> wf_ok (Some (mk_comps kc q)) d.
Proof.
  intros Hne E. split; [apply mk_comps_nonempty; exact Hne|]. apply Forall_forall. intros x Hx.
  rewrite (In_mk_comps _ _ _ Hx). exact E.
Qed.
Lemma wf_ok_recomp w q d : w <> [] -> q == d -> wf_ok (Some (recomp w q)) d.
Proof.
  intros Hne E. split; [apply recomp_nonempty; exact Hne|]. apply Forall_forall. intros x Hx.
  rewrite (In_recomp _ _ _ Hx). exact E.
Qed.
Lemma wf_ok_wf_mk kc q d : kc <> [] -> q == d -> wf_ok (wf_mk kc q) d.
Proof. intros Hne E. destruct kc; [congruence|]. apply wf_ok_mk; [discriminate | exact E]. Qed.
Lemma is_nil_false {A} (l : list A) : is_nil l = false -> l <> [].
Proof. destruct l; [discriminate | discriminate]. Qed.

Definition Wp (p : pt) : Prop :=
  forall e w d, wf_of cf p e = Ok w -> den p (qenv_of e) = Some d -> wf_ok w d.

Lemma all_eq_forall d l : all_eq d l = true -> Forall (fun x => d == x) l.
Proof.
  unfold all_eq. rewrite forallb_forall, Forall_forall. intros H x Hx. apply Qeq_bool_iff. apply H; assumption.
Qed.

Lemma somes_ok ws ds d :
  Forall2 wf_ok ws ds -> Forall (fun x => d == x) ds -> Forall (fun c => wf_ok (Some c) d) (somes ws).
Proof.
  induction 1 as [|w0 dd ws' ds' Hw0 Hrest IH]; intros Hall; cbn; [constructor|].
  inversion Hall; subst. destruct w0; [constructor|]; auto.
  apply (wf_ok_eq (Some c) dd d); [symmetry; assumption | exact Hw0].
Qed.

Lemma parallel_ok l s d :
  parallel l = Ok s -> l <> [] -> Forall (fun x => snd x == d) l -> wf_ok (Some s) d.
Proof.
  unfold parallel. destruct (forallb _ _); intros H; inversion H; subst; clear H. intros Hne Hall. split.
  - destruct l as [|x t]; [congruence|]. intros C.
    assert (In x (sort_comps (x :: t))) by (apply In_sort_comps; left; reflexivity). rewrite C in H. destruct H.
  - rewrite Forall_forall in *. intros x Hx. apply Hall. apply In_sort_comps. exact Hx.
Qed.

Lemma concat_ok (l : list comps) d :
  Forall (fun c => wf_ok (Some c) d) l -> Forall (fun x => snd x == d) (concat l).
Proof.
  induction 1 as [|c t [Hne Hc] _ IH]; cbn; [constructor|]. apply Forall_app. split; assumption.
Qed.

Lemma Wp_all : forall p, Wp p.
Proof.
  induction p using pt_ind'; unfold Wp; intros e w dd Hw Hd; cbn [wf_of] in Hw; try discriminate.
  - (* atom *)
    cbn [den] in Hd. apply obind_some in Hd as (q & Hq & Hd).
    destruct (Qleb 0 q) eqn:Hpos; [|discriminate]. inversion Hd; subst; clear Hd.
    rewrite Hdrop in Hw. cbn [andb] in Hw. destruct (is_nil (somes chs)) eqn:Hk; [discriminate|]. apply is_nil_false in Hk.
    rewrite andb_false_r in Hw.
    apply rbind_ok in Hw as (v & Hv & Hw); destruct (eval_qeval _ _ _ Hv) as (q' & Hq' & E);
      rewrite Hq in Hq'; inversion Hq'; subst q'.
    destruct (s_negdur cf && Qltb (cv cf v) 0)%bool; [discriminate|]. rewrite Hcv in Hw.
    destruct k.
    + destruct (Qltb 0 (time_of v)) eqn:Hlt; inversion Hw; subst.
      * apply wf_ok_wf_mk; [exact Hk | symmetry; exact E].
      * cbn. unfold Qltb in Hlt. apply negb_false_iff, Qle_bool_iff in Hlt. apply Qle_bool_iff in Hpos.
        apply Qle_antisym; [rewrite E; exact Hlt | exact Hpos].
    + inversion Hw; subst. apply wf_ok_wf_mk; [exact Hk | symmetry; exact E].
  - (* table *)
    rewrite Hdrop in Hw. cbn [andb] in Hw. destruct (is_nil (somes (map fst chans))) eqn:Hk; [discriminate|].
    apply is_nil_false in Hk. eapply table_wf_den; [exact Hcv | exact Hk | eassumption | eassumption].
  - (* map *)
    cbn [den] in Hd. apply obind_some in Hd as (vs & Hvs & Hd). apply rbind_ok in Hw as (e' & He' & Hw).
    eapply IHp; [eassumption|]. erewrite map_env_qenv; eassumption.
  - (* multi *)
    cbn [den] in Hd. apply obind_some in Hd as (ds & Hds & Hd). apply rbind_ok in Hw as (ws & Hws & Hw).
    destruct ds as [|d0 dt]; [discriminate|]. destruct (all_eq d0 dt) eqn:Hall; [|discriminate].
    assert (Hd0 : dd = d0).
    { destruct d; [|inversion Hd; reflexivity]. apply obind_some in Hd as (dv & _ & Hd).
      destruct (Qeqb dv d0); inversion Hd; reflexivity. }
    subst d0. clear Hd.
    apply rall_map_inv in Hws. apply oall_map_inv in Hds.
    assert (Hj : Forall2 wf_ok ws (dd :: dt)).
    { apply (Forall2_join Wp (fun c k => wf_of cf c e = Ok k) (fun c d => den c (qenv_of e) = Some d) wf_ok subs);
        [|exact H|exact Hws|exact Hds].
      intros c w0 d1 HW H1' H2'. exact (HW e w0 d1 H1' H2'). }
    assert (Hall' : Forall (fun x => dd == x) (dd :: dt)) by (constructor; [reflexivity | apply all_eq_forall; exact Hall]).
    pose proof (somes_ok _ _ _ Hj Hall') as Hs.
    apply rbind_ok in Hw as (res0 & Hw & Hfin).
    assert (res0 = w) by (destruct (_ && _)%bool; [discriminate | inversion Hfin; reflexivity]). subst res0. clear Hfin.
    destruct (somes ws) as [|w1 rest] eqn:Es.
    + inversion Hw; subst. cbn. inversion Hj as [|w0 ? ws' ? Hw0 Hrest]; subst.
      destruct w0; [cbn in Es; discriminate | exact Hw0].
    + apply rbind_ok in Hw as (wres & Hwres & Hw).
      assert (Hres : wf_ok (Some wres) dd).
      { destruct rest.
        - inversion Hwres; subst. inversion Hs; subst. assumption.
        - eapply parallel_ok; [exact Hwres | | apply concat_ok; exact Hs].
          inversion Hs as [|? ? [Hne _] _]; subst. destruct w1; [congruence | cbn; discriminate]. }
      destruct d.
      * apply rbind_ok in Hw as (dv & _ & Hw). destruct (isclose _ _); inversion Hw; subst. exact Hres.
      * inversion Hw; subst. exact Hres.
  - (* arith *)
    cbn [den] in Hd. apply obind_some in Hd as (dl & Hdl & Hd). apply obind_some in Hd as (dr & Hdr & Hd).
    apply rbind_ok in Hw as (wl & Hwl & Hw). apply rbind_ok in Hw as (wr & Hwr & Hw).
    pose proof (IHp1 _ _ _ Hwl Hdl) as Hl. pose proof (IHp2 _ _ _ Hwr Hdr) as Hr.
    assert (Hcases : dd == dl /\ (dl == dr \/ dr == 0) \/ dd == dr /\ dl == 0).
    { destruct (Qeqb dl dr) eqn:E1.
      - inversion Hd; subst. left. split; [reflexivity | left; apply Qeq_bool_iff; exact E1].
      - destruct (Qeqb dl 0) eqn:E2.
        + inversion Hd; subst. right. split; [reflexivity | apply Qeq_bool_iff; exact E2].
        + destruct (Qeqb dr 0) eqn:E3; inversion Hd; subst. left. split; [reflexivity | right; apply Qeq_bool_iff; exact E3]. }
    destruct wr as [cr|].
    + destruct wl as [cl|].
      * destruct (isclose (cdur cl) (cdur cr)) eqn:Hc; [|discriminate].
        destruct (_ && _)%bool; inversion Hw; subst; clear Hw.
        pose proof (wf_ok_cdur _ _ Hl) as El. pose proof (wf_ok_cdur _ _ Hr) as Er.
        apply wf_ok_mk; [unfold union_z; destruct Hl as [Hne _]; destruct cl; [congruence | discriminate]|].
        destruct Hcases as [[E _]|[E E0]]; [rewrite El, E; reflexivity|].
        assert (Hz : cdur cl == 0) by (rewrite El; exact E0).
        pose proof (isclose_zero _ _ Hc Hz) as Hz'. rewrite El, E, E0, <- Er, Hz'. reflexivity.
      * inversion Hw; subst; clear Hw. pose proof (wf_ok_cdur _ _ Hr) as Er. cbn in Hl.
        apply wf_ok_recomp; [destruct Hr; assumption|]. rewrite Er.
        destruct Hcases as [[E [E1|E1]]|[E E0]].
        -- rewrite E, E1. reflexivity.
        -- rewrite E, Hl, E1. reflexivity.
        -- rewrite E. reflexivity.
    + inversion Hw; subst; clear Hw. cbn in Hr.
      destruct Hcases as [[E _]|[E E0]]; [apply (wf_ok_eq w dl dd); [symmetry; exact E | exact Hl]|].
      apply (wf_ok_eq w dl dd); [rewrite E, E0, Hr; reflexivity | exact Hl].
  - (* wrap *)
    cbn [den] in Hd. apply rbind_ok in Hw as (w0 & Hw0 & Hw). pose proof (IHp _ _ _ Hw0 Hd) as H0.
    inversion Hw; subst; clear Hw. destruct w0 as [c|]; [|exact H0].
    apply wf_ok_recomp; [destruct H0; assumption | apply wf_ok_cdur; exact H0].
  - (* constr *) cbn [den] in Hd. apply rbind_ok in Hw as (u & _ & Hw). eapply IHp; eassumption.
  - (* single *) cbn [den] in Hd. eapply IHp; eassumption.
Qed.


(* ------------------------------------------------------------------------------------------------------------ *)
(* the instantiated program lasts exactly as long as the template denotes *)
Definition Rp (p : pt) : Prop :=
  forall e kids d, cp cf p e = Ok kids -> den p (qenv_of e) = Some d -> total kids == d.

Lemma cp_atomic p e kids d :
  (do w <- wf_of cf p e; Ok (match w with Some c => [Leaf 1 (map fst c) (cdur c)] | None => [] end)) = Ok kids ->
  den p (qenv_of e) = Some d -> total kids == d.
Proof.
  intros H Hd. apply rbind_ok in H as (w & Hw & H). inversion H; subst; clear H.
  pose proof (Wp_all p e w d Hw Hd) as Hok. destruct w as [c|].
  - unfold total. cbn. rewrite (wf_ok_cdur _ _ Hok). ring.
  - cbn in Hok. unfold total. cbn. symmetry. exact Hok.
Qed.

Lemma qsum_rel (ks : list (list loop)) ds : Forall2 (fun k d => total k == d) ks ds -> qsum (map total ks) == qsum ds.
Proof. induction 1; cbn; [reflexivity | rewrite H, IHForall2; reflexivity]. Qed.

Lemma eval_int e x v n z : eval e x = Ok v -> int_of cf v = Ok n ->
  (let? q := qeval (qenv_of e) x in qint q) = Some z -> n = z.
Proof.
  intros Hv Hn Hz. apply obind_some in Hz as (q & Hq & Hz).
  destruct (eval_qeval _ _ _ Hv) as (q' & Hq' & E). rewrite Hq in Hq'. inversion Hq'; subst q'.
  eapply int_of_qint; eassumption.
Qed.

Lemma Rp_all : forall p, Rp p.
Proof.
  induction p using pt_ind'; unfold Rp; intros e kids dd Hc Hd.
  - eapply cp_atomic; eassumption.
  - eapply cp_atomic; eassumption.
  - (* seq *)
    cbn [cp] in Hc. cbn [den] in Hd.
    apply rbind_ok in Hc as (ks & Hks & Hc). inversion Hc; subst; clear Hc.
    apply obind_some in Hd as (ds & Hds & Hd). inversion Hd; subst; clear Hd.
    apply rall_map_inv in Hks. apply oall_map_inv in Hds.
    rewrite total_concat. apply qsum_rel.
    apply (Forall2_join Rp (fun c k => cp cf c e = Ok k) (fun c d => den c (qenv_of e) = Some d) (fun k d => total k == d) subs);
      [|exact H|exact Hks|exact Hds].
    intros c k d HR H1 H2. exact (HR e k d H1 H2).
  - (* rep *)
    cbn [cp] in Hc. cbn [den] in Hd.
    apply rbind_ok in Hc as (vc & Hvc & Hc). apply rbind_ok in Hc as (n & Hn & Hc).
    apply obind_some in Hd as (qc & Hqc & Hd). apply obind_some in Hd as (n' & Hn' & Hd).
    assert (n = n') by (eapply eval_int; [exact Hvc | exact Hn | rewrite Hqc; exact Hn']). subst n'.
    destruct (n <? 0)%Z eqn:E1; [discriminate|]. rewrite andb_false_r in Hc. destruct (n =? 0)%Z eqn:E2.
    + inversion Hd; subst. destruct (n <=? 0)%Z eqn:E3; [|lia]. inversion Hc; subst. reflexivity.
    + destruct (n <=? 0)%Z eqn:E3; [lia|].
      apply rbind_ok in Hc as (kids' & Hk & Hc). inversion Hc; subst; clear Hc.
      apply obind_some in Hd as (db & Hdb & Hd). inversion Hd; subst; clear Hd.
      rewrite total_wrap, (IHp _ _ _ Hk Hdb). ring.
  - (* for *)
    cbn [cp] in Hc. cbn [den] in Hd.
    apply rbind_ok in Hc as (va & Hva & Hc). apply rbind_ok in Hc as (ia & Hia & Hc).
    apply rbind_ok in Hc as (vb & Hvb & Hc). apply rbind_ok in Hc as (ib & Hib & Hc).
    apply rbind_ok in Hc as (vs & Hvs & Hc). apply rbind_ok in Hc as (is & His & Hc).
    apply obind_some in Hd as (qa & Hqa & Hd). apply obind_some in Hd as (ia' & Hia' & Hd).
    apply obind_some in Hd as (qb & Hqb & Hd). apply obind_some in Hd as (ib' & Hib' & Hd).
    apply obind_some in Hd as (qs & Hqs & Hd). apply obind_some in Hd as (is' & His' & Hd).
    assert (ia = ia') by (eapply eval_int; [exact Hva | exact Hia | rewrite Hqa; exact Hia']).
    assert (ib = ib') by (eapply eval_int; [exact Hvb | exact Hib | rewrite Hqb; exact Hib']).
    assert (is = is') by (eapply eval_int; [exact Hvs | exact His | rewrite Hqs; exact His']).
    subst ia' ib' is'.
    destruct (is =? 0)%Z; [discriminate|].
    apply rbind_ok in Hc as (ks & Hks & Hc). inversion Hc; subst; clear Hc.
    apply obind_some in Hd as (ds & Hds & Hd). inversion Hd; subst; clear Hd.
    apply rall_map_inv in Hks. apply oall_map_inv in Hds.
    rewrite total_concat. apply qsum_rel.
    apply (Forall2_join (fun _ => True) (fun v k => cp cf p ((i, VInt v) :: e) = Ok k)
             (fun v d => den p ((i, Qred (inject_Z v)) :: qenv_of e) = Some d) (fun k d => total k == d) (zrange ia ib is));
      [|apply Forall_forall; trivial|exact Hks|exact Hds].
    intros v k d _ H1 H2. exact (IHp ((i, VInt v) :: e) k d H1 H2).
  - (* map *)
    cbn [cp] in Hc. cbn [den] in Hd.
    apply rbind_ok in Hc as (e' & He' & Hc). apply obind_some in Hd as (vs & Hvs & Hd).
    eapply IHp; [eassumption|]. erewrite map_env_qenv; eassumption.
  - eapply cp_atomic; eassumption.
  - eapply cp_atomic; eassumption.
  - (* wrap *) cbn [cp] in Hc. cbn [den] in Hd. eapply IHp; eassumption.
  - (* rev *)
    cbn [cp] in Hc. cbn [den] in Hd. apply rbind_ok in Hc as (kids' & Hk & Hc). inversion Hc; subst; clear Hc.
    rewrite total_wrap, (IHp _ _ _ Hk Hd). ring.
  - (* constr *) cbn [cp] in Hc. cbn [den] in Hd. apply rbind_ok in Hc as (u & _ & Hc). eapply IHp; eassumption.
  - (* single: the rendered waveform lasts as long as the inner program *)
    cbn [cp] in Hc. cbn [den] in Hd. apply rbind_ok in Hc as (kids' & Hk & Hc).
    pose proof (IHp _ _ _ Hk Hd) as Ht. pose proof (Lp_all cf p e kids' Hk) as Hl.
    destruct kids' as [|k t]; [inversion Hc; subst; exact Ht|].
    assert (Hw : wfl (Node 1 (k :: t))) by (apply wfl_node; repeat split; [lia | discriminate | exact Hl]).
    destruct (wf_duration_is_loop_duration _ Hw) as (q & Hq & E).
    destruct (to_wf (Node 1 (k :: t))) as [q'|] eqn:Hq'; [|discriminate]. apply to_wf_some in Hq'. rewrite Hq in Hq'.
    inversion Hq'; subst q'. inversion Hc; subst; clear Hc.
    unfold total at 1. cbn [map qsum loop_duration]. rewrite E. cbn [loop_duration].
    change (qsum (map loop_duration (k :: t))) with (total (k :: t)). rewrite Ht. ring.
Qed.


End Cfg.

(* ------------------------------------------------------------------------------------------------------------ *)
(* channel mappings have no influence on the denoted duration and on the symbolic duration *)
Lemma map_resolve {B} (g : pt -> B) f subs :
  Forall (fun c => g (resolve f c) = g c) subs -> map g (map (resolve f) subs) = map g subs.
Proof. intros H. rewrite map_map. induction H; cbn; congruence. Qed.

Lemma snd_resolve_table f (chans : list (option Z * list expr)) :
  map snd (map (fun cts => (map_ch f (fst cts), snd cts)) chans) = map snd chans.
Proof. rewrite map_map. reflexivity. Qed.

Lemma den_resolve : forall p f e, den (resolve f p) e = den p e.
Proof.
  induction p using pt_ind'; intros f e; cbn [resolve den]; try reflexivity; try (rewrite ?IHp; reflexivity).
  - rewrite snd_resolve_table. reflexivity.
  - rewrite (map_resolve (fun c => den c e)); [reflexivity|]. eapply Forall_impl; [|exact H]. intros c Hc. apply Hc.
  - repeat (match goal with |- obind ?o _ = obind ?o _ => destruct o; [cbn [obind]|reflexivity] end).
    destruct (_ =? _)%Z; [reflexivity|]. f_equal. f_equal. apply map_ext. intros v. apply IHp.
  - destruct (oall _); [|reflexivity]. cbn. apply IHp.
  - rewrite (map_resolve (fun c => den c e)); [reflexivity|]. eapply Forall_impl; [|exact H]. intros c Hc. apply Hc.
  - rewrite IHp1, IHp2. reflexivity.
Qed.

Lemma sym_resolve : forall p f e, sym (resolve f p) e = sym p e.
Proof.
  induction p using pt_ind'; intros f e; cbn [resolve sym]; try reflexivity; try (rewrite ?IHp; reflexivity).
  - rewrite snd_resolve_table. reflexivity.
  - rewrite (map_resolve (fun c => sym c e)); [reflexivity|]. eapply Forall_impl; [|exact H]. intros c Hc. apply Hc.
  - repeat (match goal with |- rbind ?o _ = rbind ?o _ => destruct o; [cbn [rbind]|reflexivity|reflexivity] end).
    destruct (Qeqb _ _); [reflexivity|].
    destruct (_ <? _)%Z; [reflexivity|]. f_equal. f_equal. apply map_ext. intros k.
    repeat (match goal with |- rbind ?o _ = rbind ?o _ => destruct o; [cbn [rbind]|reflexivity|reflexivity] end). apply IHp.
  - destruct (map_env e m); try reflexivity. cbn. apply IHp.
  - destruct d; [reflexivity|]. destruct subs as [|c t]; [reflexivity|]. cbn [map]. inversion H; subst. auto.
  - rewrite IHp1, IHp2. reflexivity.
Qed.

Section Cfg2.
Variable cf : cfg.
Hypothesis Hcv : forall v, cv cf v = time_of v.
Hypothesis Hdrop : s_dropped cf = true.

(* ------------------------------------------------------------------------------------------------------------ *)
(* the three program-side views and the denoted duration, for every configuration that compares decimal values *)
Theorem program_views_agree_cfg p e d :
  den p (qenv_of e) = Some d ->
  forall o, create_program cf p e = Ok o ->
  match o with
  | None => d == 0
  | Some prog => loop_duration prog == d
                 /\ (exists q, wf_duration prog = Some q /\ q == d)
                 /\ sum_pieces 1 prog == d
  end.
Proof.
  intros Hd o Hc. unfold create_program in Hc. apply rbind_ok in Hc as (kids & Hk & Hc). inversion Hc; subst; clear Hc.
  rewrite <- (den_resolve p idf) in Hd.
  pose proof (Rp_all cf Hcv Hdrop _ e kids d Hk Hd) as Ht. pose proof (Lp_all cf _ e kids Hk) as Hl.
  destruct kids as [|k t].
  - cbn in Ht. symmetry. exact Ht.
  - assert (Hw : wfl (Node 1 (k :: t))) by (apply wfl_node; repeat split; [lia | discriminate | exact Hl]).
    assert (Hld : loop_duration (Node 1 (k :: t)) == d).
    { cbn [loop_duration]. change (qsum (map loop_duration (k :: t))) with (total (k :: t)). rewrite Ht. ring. }
    split; [exact Hld|]. split.
    + destruct (wf_duration_is_loop_duration _ Hw) as (q & Hq & E). exists q. split; [exact Hq | rewrite E; exact Hld].
    + rewrite sum_pieces_is_duration. exact Hld.
Qed.
End Cfg2.

Lemma qenv_decimalize e : qenv_of (decimalize e) = qenv_of e.
Proof.
  unfold qenv_of, decimalize. rewrite map_map. apply map_ext. intros [x v]. cbn. destruct v; reflexivity.
Qed.

(* ------------------------------------------------------------------------------------------------------------ *)
(* the reading guard: comparing binary values (the code) and comparing decimal values lead to the same program.
   The equality test is syntactic (numerator and denominator), so it reflects Leibniz equality. *)
Definition Qsame (a b : Q) : bool := (Qnum a =? Qnum b)%Z && (Qden a =? Qden b)%positive.
Lemma Qsame_eq a b : Qsame a b = true -> a = b.
Proof.
  destruct a, b. unfold Qsame. cbn. intros H. apply andb_prop in H as [H1 H2].
  apply Z.eqb_eq in H1. apply Pos.eqb_eq in H2. subst. reflexivity.
Qed.

Fixpoint loop_same (a b : loop) : bool :=
  match a, b with
  | Leaf r cs d, Leaf r' cs' d' => (r =? r')%Z && zs_eqb cs cs' && Qsame d d'
  | Node r ks, Node r' ks' =>
      (r =? r')%Z && (fix go (x y : list loop) : bool :=
                        match x, y with
                        | [], [] => true
                        | k :: t, k' :: t' => loop_same k k' && go t t'
                        | _, _ => false
                        end) ks ks'
  | _, _ => false
  end.
Definition loops_same : list loop -> list loop -> bool :=
  fix go (x y : list loop) : bool :=
    match x, y with
    | [], [] => true
    | k :: t, k' :: t' => loop_same k k' && go t t'
    | _, _ => false
    end.

Lemma zs_eqb_eq : forall a b, zs_eqb a b = true -> a = b.
Proof.
  induction a as [|x a IH]; intros [|y b]; cbn; intros H; try discriminate; [reflexivity|].
  apply andb_prop in H as [H1 H2]. apply Z.eqb_eq in H1. subst. f_equal. apply IH; exact H2.
Qed.

Lemma loop_same_eq : forall a b, loop_same a b = true -> a = b.
Proof.
  induction a using loop_ind'; intros [r' cs' d'|r' ks']; cbn; intros Hs; try discriminate.
  - apply andb_prop in Hs as [H1 H2]. apply andb_prop in H1 as [H1 H3].
    apply Z.eqb_eq in H1. apply Qsame_eq in H2. apply zs_eqb_eq in H3. subst. reflexivity.
  - apply andb_prop in Hs as [H1 H2]. apply Z.eqb_eq in H1. subst r'. f_equal.
    revert ks' H2. induction H as [|k t Hk Ht IH]; intros [|k' t'] H2; try discriminate; [reflexivity|].
    apply andb_prop in H2 as [H2 H3]. f_equal; [apply Hk; exact H2 | apply IH; exact H3].
Qed.

Lemma loops_same_eq : forall x y, loops_same x y = true -> x = y.
Proof.
  induction x as [|k t IH]; intros [|k' t']; cbn; intros H; try discriminate; [reflexivity|].
  apply andb_prop in H as [H1 H2]. f_equal; [apply loop_same_eq; exact H1 | apply IH; exact H2].
Qed.

(* both readings accept and build the same program *)
Definition g_view (p : pt) (e : env) : bool :=
  match cp real (resolve idf p) e, cp lax (resolve idf p) e with
  | Ok a, Ok b => loops_same a b
  | _, _ => false
  end.

Lemma g_view_eq p e kids : g_view p e = true -> cp real (resolve idf p) e = Ok kids -> cp lax (resolve idf p) e = Ok kids.
Proof.
  unfold g_view. intros H Hc. rewrite Hc in H. destruct (cp lax (resolve idf p) e); try discriminate.
  apply loops_same_eq in H. subst. reflexivity.
Qed.

Lemma lax_cv : forall v, cv lax v = time_of v.
Proof. reflexivity. Qed.
Lemma ideal_cv : forall v, cv ideal v = time_of v.
Proof. reflexivity. Qed.

Lemma create_view p e o : g_view p e = true -> create_program real p e = Ok o -> create_program lax p e = Ok o.
Proof.
  unfold create_program. intros Hg H. apply rbind_ok in H as (kids & Hk & H).
  rewrite (g_view_eq _ _ _ Hg Hk). exact H.
Qed.

