(* C04 — round 5: the static scope analysis of the specification (Spec.kexpr / kscope / ksym: which inputs are exact
   numbers) is sound for the operational model: where the specification judges, the model never answers `Inexact`
   (binary float arithmetic takes part).  So check_spec, which uses Spec.v only, judges no case in which the code computes
   with floats. *)
From Coq Require Import ZArith QArith Qround Qabs Bool List Lia.
Require Import QV.C04.Model QV.C04.Spec QV.C04.Proofs.
Import ListNotations.

Definition kle (a b : nkind) : bool :=
  match a, b with
  | NT, _ => true
  | NI, (NI | NF | NX) => true
  | NF, (NF | NX) => true
  | NX, NX => true
  | _, _ => false
  end.
Definition ksmall (k : nkind) : bool := match k with NT | NI => true | _ => false end.
Definition exactv (v : value) : bool := match v with VInt _ | VTime _ => true | _ => false end.

Lemma kle_refl k : kle k k = true. Proof. destruct k; reflexivity. Qed.
Lemma kle_small v k : kle (kind_of v) k = true -> ksmall k = true -> exactv v = true.
Proof. destruct v, k; cbn; congruence. Qed.
Lemma kle_NT v : kle (kind_of v) NT = true -> exists q, v = VTime q.
Proof. destruct v; cbn; try discriminate. eauto. Qed.
Lemma karith_ok a b : kok (karith a b) = true -> ksmall a = true /\ ksmall b = true.
Proof. destruct a, b; cbn; auto; discriminate. Qed.
Lemma kmaxk_ok a b : kok (kmaxk a b) = true -> ksmall a = true /\ ksmall b = true.
Proof. destruct a, b; cbn; auto; discriminate. Qed.
Lemma karith_mono a a' b b' : kle a a' = true -> kle b b' = true -> kle (karith a b) (karith a' b') = true.
Proof. destruct a, a', b, b'; cbn; auto. Qed.
Lemma kmaxk_mono a a' b b' : kle a a' = true -> kle b b' = true -> kle (kmaxk a b) (kmaxk a' b') = true.
Proof. destruct a, a', b, b'; cbn; auto. Qed.
Lemma ksmall_karith a b : ksmall a = true -> ksmall b = true -> ksmall (karith a b) = true.
Proof. destruct a, b; cbn; auto. Qed.
Lemma kle_trans a b c : kle a b = true -> kle b c = true -> kle a c = true.
Proof. destruct a, b, c; cbn; auto. Qed.
Lemma ksmall_le a b : kle a b = true -> ksmall b = true -> ksmall a = true.
Proof. destruct a, b; cbn; auto. Qed.

Lemma arith_exact f fz u w : exactv u = true -> exactv w = true ->
  exists r, arith f fz u w = Ok r /\ exactv r = true /\ kind_of r = karith (kind_of u) (kind_of w).
Proof. destruct u, w; cbn; try discriminate; intros _ _; eexists; repeat split. Qed.
Lemma vmax_exact u w : exactv u = true -> exactv w = true ->
  exists r, vmax u w = Ok r /\ exactv r = true /\ kle (kind_of r) (kmaxk (kind_of u) (kind_of w)) = true.
Proof.
  destruct u, w; cbn; try discriminate; intros _ _; eexists; (split; [reflexivity|]);
    match goal with |- context[if ?c then _ else _] => destruct c end; cbn; auto.
Qed.

(* environments: same names in the same order, the kind of every value at most the recorded kind; a value of a
   rejected type is never looked at (eval raises) *)
Definition krel1 (xv : ident * value) (xk : ident * nkind) : Prop :=
  fst xv = fst xk /\ match snd xv with VBad _ => True | v => kle (kind_of v) (snd xk) = true end.
Definition krel (e : env) (ke : kenv) : Prop := Forall2 krel1 e ke.

Lemma krel_lookup e ke : krel e ke -> forall y v, lookup e y = Some v ->
  (exists q, v = VBad q) \/ exists k, lookup ke y = Some k /\ kle (kind_of v) k = true.
Proof.
  induction 1 as [|[x v] [x' k] e ke [Hx Hv] _ IH]; cbn; intros y v0 H0; [discriminate|].
  cbn in Hx, Hv. subst x'. destruct (N.eqb y x).
  - inversion H0; subst. destruct v0; eauto.
  - eauto.
Qed.

Lemma krel_kenv_of e : krel e (kenv_of e).
Proof.
  induction e as [|[x v] t IH]; constructor; auto. split; cbn; auto. destruct v; cbn; auto.
Qed.

Lemma eval_sound e ke : krel e ke -> forall x, kok (kexpr ke x) = true ->
  eval e x <> Inexact /\ forall v, eval e x = Ok v -> kle (kind_of v) (kexpr ke x) = true.
Proof.
  intros R. induction x; cbn [kexpr eval]; intros K.
  - split; [discriminate|]. intros w H; inversion H; subst. apply kle_refl.
  - destruct (lookup e x) as [v|] eqn:L; [|split; [discriminate|discriminate]].
    destruct (krel_lookup _ _ R _ _ L) as [[q ->]|(k & Lk & Hk)]; [split; discriminate|].
    rewrite Lk. destruct v; (split; [discriminate|]); intros w H; inversion H; subst; auto.
  - apply karith_ok in K as K'. destruct K' as [Ka Kb].
    assert (Oa : kok (kexpr ke x1) = true) by (destruct (kexpr ke x1); auto; discriminate).
    assert (Ob : kok (kexpr ke x2) = true) by (destruct (kexpr ke x2); auto; discriminate).
    destruct (IHx1 Oa) as [Na Va]. destruct (IHx2 Ob) as [Nb Vb].
    destruct (eval e x1) as [u| |]; [|congruence|split; cbn; discriminate].
    destruct (eval e x2) as [w| |]; [|congruence|split; cbn; discriminate].
    cbn [rbind]. specialize (Va u eq_refl). specialize (Vb w eq_refl).
    destruct (arith_exact Qplus Z.add u w (kle_small _ _ Va Ka) (kle_small _ _ Vb Kb)) as (r & Hr & _ & Kr).
    unfold vadd. rewrite Hr. split; [discriminate|]. intros v H; inversion H; subst. rewrite Kr. apply karith_mono; auto.
  - apply karith_ok in K as K'. destruct K' as [Ka Kb].
    assert (Oa : kok (kexpr ke x1) = true) by (destruct (kexpr ke x1); auto; discriminate).
    assert (Ob : kok (kexpr ke x2) = true) by (destruct (kexpr ke x2); auto; discriminate).
    destruct (IHx1 Oa) as [Na Va]. destruct (IHx2 Ob) as [Nb Vb].
    destruct (eval e x1) as [u| |]; [|congruence|split; cbn; discriminate].
    destruct (eval e x2) as [w| |]; [|congruence|split; cbn; discriminate].
    cbn [rbind]. specialize (Va u eq_refl). specialize (Vb w eq_refl).
    destruct (arith_exact Qminus Z.sub u w (kle_small _ _ Va Ka) (kle_small _ _ Vb Kb)) as (r & Hr & _ & Kr).
    unfold vsub. rewrite Hr. split; [discriminate|]. intros v H; inversion H; subst. rewrite Kr. apply karith_mono; auto.
  - apply karith_ok in K as K'. destruct K' as [Ka Kb].
    assert (Oa : kok (kexpr ke x1) = true) by (destruct (kexpr ke x1); auto; discriminate).
    assert (Ob : kok (kexpr ke x2) = true) by (destruct (kexpr ke x2); auto; discriminate).
    destruct (IHx1 Oa) as [Na Va]. destruct (IHx2 Ob) as [Nb Vb].
    destruct (eval e x1) as [u| |]; [|congruence|split; cbn; discriminate].
    destruct (eval e x2) as [w| |]; [|congruence|split; cbn; discriminate].
    cbn [rbind]. specialize (Va u eq_refl). specialize (Vb w eq_refl).
    destruct (arith_exact Qmult Z.mul u w (kle_small _ _ Va Ka) (kle_small _ _ Vb Kb)) as (r & Hr & _ & Kr).
    unfold vmul. rewrite Hr. split; [discriminate|]. intros v H; inversion H; subst. rewrite Kr. apply karith_mono; auto.
  - unfold kdivk in K |- *. destruct (kexpr ke x) eqn:Kx; try discriminate.
    destruct (IHx eq_refl) as [Na Va].
    destruct (eval e x) as [u| |]; [|congruence|split; cbn; discriminate].
    cbn [rbind]. destruct (kle_NT _ (Va u eq_refl)) as [q ->]. cbn [vdivk].
    destruct (Pos.eqb k 2 || Pos.eqb k 4 || Pos.eqb k 8)%bool; [|discriminate].
    split; [discriminate|]. intros v H; inversion H; subst. reflexivity.
  - apply kmaxk_ok in K as K'. destruct K' as [Ka Kb].
    assert (Oa : kok (kexpr ke x1) = true) by (destruct (kexpr ke x1); auto; discriminate).
    assert (Ob : kok (kexpr ke x2) = true) by (destruct (kexpr ke x2); auto; discriminate).
    destruct (IHx1 Oa) as [Na Va]. destruct (IHx2 Ob) as [Nb Vb].
    destruct (eval e x1) as [u| |]; [|congruence|split; cbn; discriminate].
    destruct (eval e x2) as [w| |]; [|congruence|split; cbn; discriminate].
    cbn [rbind]. specialize (Va u eq_refl). specialize (Vb w eq_refl).
    destruct (vmax_exact u w (kle_small _ _ Va Ka) (kle_small _ _ Vb Kb)) as (r & Hr & _ & Kr).
    rewrite Hr. split; [discriminate|]. intros v H; inversion H; subst.
    eapply kle_trans; [exact Kr|]. apply kmaxk_mono; auto.
Qed.

(* ------------------------------------------------------------------------------------------------------------ *)
(* the instantiation *)
Lemma rbind_nix {A B} (r : res A) (f : A -> res B) :
  r <> Inexact -> (forall a, r = Ok a -> f a <> Inexact) -> rbind r f <> Inexact.
Proof. destruct r; cbn; auto; discriminate. Qed.
Lemma rall_nix {A} (l : list (res A)) : Forall (fun r => r <> Inexact) l -> rall l <> Inexact.
Proof.
  induction 1 as [|r t Hr _ IH]; cbn; [discriminate|].
  apply rbind_nix; auto. intros a _. apply rbind_nix; auto. discriminate.
Qed.
Lemma rall_map_nix {A B} (f : A -> res B) l : Forall (fun a => f a <> Inexact) l -> rall (map f l) <> Inexact.
Proof. intros H. apply rall_nix. induction H; constructor; auto. Qed.

Ltac bsplit :=
  repeat match goal with
         | H : (_ && _)%bool = true |- _ => apply andb_prop in H; destruct H
         end.

Ltac nixd :=
  cbv zeta;
  repeat (match goal with
          | |- (if ?b then _ else _) <> _ => destruct b
          | |- (match ?x with _ => _ end) <> _ => destruct x
          end; cbv zeta);
  try discriminate.

Lemma eval_nix e ke x : krel e ke -> kx ke x = true -> eval e x <> Inexact.
Proof. intros R K. exact (proj1 (eval_sound e ke R x K)). Qed.

Lemma int_of_nix c v : int_of c v <> Inexact.
Proof.
  destruct v; cbn; try discriminate;
    repeat match goal with |- context[if ?b then _ else _] => destruct b end; discriminate.
Qed.

Lemma binds_sound e ke (R : krel e ke) : forall m, forallb (fun xe => kx ke (snd xe)) m = true ->
  rall (map (fun xe : ident * expr => do v <- eval e (snd xe); Ok (fst xe, v)) m) <> Inexact
  /\ forall vs, rall (map (fun xe : ident * expr => do v <- eval e (snd xe); Ok (fst xe, v)) m) = Ok vs ->
                Forall2 krel1 vs (map (fun xe => (fst xe, kexpr ke (snd xe))) m).
Proof.
  induction m as [|[x rhs] t IH]; cbn [map forallb rall]; intros K.
  - split; [discriminate|]. intros vs H; inversion H; constructor.
  - bsplit. cbn [fst snd] in *. destruct (eval_sound e ke R rhs H) as [N V]. destruct (IH H0) as [Nt Vt].
    destruct (eval e rhs) as [v| |]; [|congruence|split; cbn; discriminate]. cbn [rbind].
    destruct (rall _) as [vs'| |]; [|congruence|split; cbn; discriminate]. cbn [rbind].
    split; [discriminate|]. intros vs Hv; inversion Hv; subst. constructor; [|apply Vt; reflexivity].
    split; cbn; auto. specialize (V v eq_refl). destruct v; auto.
Qed.

Lemma map_env_sound e ke m : krel e ke -> forallb (fun xe => kx ke (snd xe)) m = true ->
  map_env e m <> Inexact
  /\ forall e', map_env e m = Ok e' -> krel e' (map (fun xe => (fst xe, kexpr ke (snd xe))) m ++ ke).
Proof.
  intros R K. destruct (binds_sound e ke R m K) as [N V]. unfold map_env.
  destruct (rall _) as [vs| |]; [|congruence|split; cbn; discriminate]. cbn [rbind].
  split; [discriminate|]. intros e' H; inversion H; subst. apply Forall2_app; auto.
Qed.

Lemma forallb_Forall {A} (f : A -> bool) l : forallb f l = true -> Forall (fun a => f a = true) l.
Proof. intros H. apply Forall_forall. apply forallb_forall. exact H. Qed.

Lemma table_wf_nix f e ke chans : krel e ke -> forallb (forallb (kx ke)) (map snd chans) = true ->
  table_wf f e chans <> Inexact.
Proof.
  intros R K. unfold table_wf. apply rbind_nix.
  - apply rall_map_nix. apply forallb_Forall in K. eapply Forall_impl; [|exact K]. intros ts Hts. cbn beta in *.
    apply rall_map_nix. apply forallb_Forall in Hts. eapply Forall_impl; [|exact Hts]. intros x Hx. eapply eval_nix; eauto.
  - intros vals _. destruct (map lastv _); [discriminate|]. cbv zeta.
    destruct (Qeqb _ _); [discriminate|]. destruct (somes _); [discriminate|]. cbv iota.
    match goal with |- (if ?b then _ else _) <> _ => destruct b end; discriminate.
Qed.

Lemma check_constr_nix c e ke cs : krel e ke -> forallb (fun lr => kx ke (fst lr) && kx ke (snd lr)) cs = true ->
  check_constr c e cs <> Inexact.
Proof.
  intros R K. unfold check_constr. apply rbind_nix; [|discriminate]. apply rall_map_nix.
  apply forallb_Forall in K. eapply Forall_impl; [|exact K]. intros [l r] H. cbn [fst snd] in *. bsplit.
  apply rbind_nix; [eapply eval_nix; eauto|]. intros u _. apply rbind_nix; [eapply eval_nix; eauto|]. intros w _.
  destruct (Qleb _ _); discriminate.
Qed.

Lemma wf_of_nix c : forall p e ke, krel e ke -> kscope false ke p = true -> wf_of c p e <> Inexact.
Proof.
  induction p using pt_ind'; intros e ke R K; cbn [wf_of kscope] in *; try discriminate.
  - destruct (_ && _)%bool; [discriminate|]. destruct (_ && _)%bool; [discriminate|].
    apply rbind_nix; [eapply eval_nix; eauto|]. intros v _. destruct (_ && _)%bool; [discriminate|].
    destruct k; [destruct (Qltb _ _)|]; discriminate.
  - destruct (_ && _)%bool; [discriminate|]. eapply table_wf_nix; eauto.
  - bsplit. destruct (map_env_sound e ke m R H) as [N V]. apply rbind_nix; auto. intros e' He'. eapply IHp; eauto.
  - bsplit. apply rbind_nix.
    + apply rall_map_nix. apply forallb_Forall in H1. rewrite Forall_forall in H, H1 |- *. intros s Hs. eapply H; eauto.
    + intros ws _. apply rbind_nix.
      * destruct (somes ws) as [|w1 rest]; [discriminate|]. apply rbind_nix.
        -- destruct rest; [discriminate|]. unfold parallel. nixd.
        -- intros w _. destruct d; [|discriminate]. apply rbind_nix; [eapply eval_nix; eauto|].
           intros dv _. destruct (isclose _ _); discriminate.
      * intros res _. destruct (_ && _)%bool; discriminate.
  - bsplit. apply rbind_nix; [eapply IHp1; eauto|]. intros wl _. apply rbind_nix; [eapply IHp2; eauto|]. intros wr _.
    destruct wr, wl; try discriminate. destruct (isclose _ _); [|discriminate]. destruct (_ && _)%bool; discriminate.
  - apply rbind_nix; [eapply IHp; eauto|]. discriminate.
  - bsplit. apply rbind_nix; [eapply check_constr_nix; eauto|]. intros _ _. eapply IHp; eauto.
  - eapply IHp; eauto.
Qed.

Lemma cp_nix c : forall p e ke, krel e ke -> kscope false ke p = true -> cp c p e <> Inexact.
Proof.
  induction p using pt_ind'; intros e ke R K.
  - cbn [cp]. apply rbind_nix; [eapply wf_of_nix; eauto|discriminate].
  - cbn [cp]. apply rbind_nix; [eapply wf_of_nix; eauto|discriminate].
  - cbn [cp kscope] in *. apply rbind_nix; [|discriminate]. apply rall_map_nix.
    apply forallb_Forall in K. rewrite Forall_forall in H, K |- *. intros s Hs. eapply H; eauto.
  - cbn [cp kscope] in *. bsplit. apply rbind_nix; [eapply eval_nix; eauto|]. intros vc _.
    apply rbind_nix; [apply int_of_nix|]. intros n _. destruct (_ && _)%bool; [discriminate|].
    destruct (n <=? 0)%Z; [discriminate|]. apply rbind_nix; [eapply IHp; eauto|discriminate].
  - cbn [cp kscope] in *. cbv zeta in K. bsplit.
    apply rbind_nix; [eapply eval_nix; eauto|]. intros va _. apply rbind_nix; [apply int_of_nix|]. intros ia _.
    apply rbind_nix; [eapply eval_nix; eauto|]. intros vb _. apply rbind_nix; [apply int_of_nix|]. intros ib _.
    apply rbind_nix; [eapply eval_nix; eauto|]. intros vs _. apply rbind_nix; [apply int_of_nix|]. intros is _.
    destruct (is =? 0)%Z; [discriminate|]. apply rbind_nix; [|discriminate]. apply rall_map_nix.
    apply Forall_forall. intros v _. eapply IHp; [|eassumption]. constructor; auto. split; reflexivity.
  - cbn [cp kscope] in *. bsplit. destruct (map_env_sound e ke m R H) as [N V]. apply rbind_nix; auto.
    intros e' He'. eapply IHp; eauto.
  - cbn [cp]. apply rbind_nix; [eapply wf_of_nix; eauto|discriminate].
  - cbn [cp]. apply rbind_nix; [eapply wf_of_nix; eauto|discriminate].
  - cbn [cp kscope] in *. eapply IHp; eauto.
  - cbn [cp kscope] in *. apply rbind_nix; [eapply IHp; eauto|discriminate].
  - cbn [cp kscope] in *. bsplit. apply rbind_nix; [eapply check_constr_nix; eauto|]. intros _ _. eapply IHp; eauto.
  - cbn [cp kscope] in *. apply rbind_nix; [eapply IHp; eauto|]. intros kids _. nixd.
Qed.

Lemma kscope_resolve b : forall p ke f, kscope b ke (resolve f p) = kscope b ke p.
Proof.
  induction p using pt_ind'; intros ke f; cbn [resolve kscope]; try reflexivity;
    try (rewrite ?IHp, ?IHp1, ?IHp2; reflexivity).
  - f_equal. rewrite map_map. cbn [snd]. reflexivity.
  - induction H as [|c t Hc _ IH]; cbn; [reflexivity|]. rewrite Hc. f_equal. exact IH.
  - f_equal. induction H as [|c t Hc _ IH]; cbn; [reflexivity|]. rewrite Hc. f_equal. exact IH.
Qed.

(* where the specification judges the instantiation (scope_prog), the model's create_program never answers Inexact,
   for every reading of the comparisons and every ghost switch *)
Theorem scope_prog_sound c p e : scope_prog p e = true -> cp c (resolve idf p) e <> Inexact.
Proof.
  unfold scope_prog. intros K. eapply cp_nix; [apply krel_kenv_of|]. rewrite kscope_resolve. exact K.
Qed.

(* ------------------------------------------------------------------------------------------------------------ *)
(* the duration expression *)
Definition kbound (v : value) (k : nkind) : Prop := kle (kind_of v) k = true.

Lemma rall_map_sound {A B} (f : A -> res B) (P : A -> B -> Prop) l :
  Forall (fun a => f a <> Inexact /\ forall b, f a = Ok b -> P a b) l ->
  rall (map f l) <> Inexact /\ forall bs, rall (map f l) = Ok bs -> Forall2 P l bs.
Proof.
  induction 1 as [|a t [Na Pa] _ [Nt Pt]]; cbn [map rall].
  - split; [discriminate|]. intros bs H; inversion H; constructor.
  - destruct (f a) as [b| |]; [|congruence|split; cbn; discriminate]. cbn [rbind].
    destruct (rall (map f t)) as [bs'| |]; [|congruence|split; cbn; discriminate]. cbn [rbind].
    split; [discriminate|]. intros bs H; inversion H; subst. constructor; auto.
Qed.

Lemma kok_small k : ksmall k = true -> kok k = true. Proof. destruct k; auto. Qed.
Lemma exact_le_NI v : exactv v = true -> kle (kind_of v) NI = true. Proof. destruct v; auto. Qed.

Lemma vsum_sound vs ks : Forall2 kbound vs ks -> kok (fold_right karith NI ks) = true ->
  exists r, vsum vs = Ok r /\ kle (kind_of r) (fold_right karith NI ks) = true.
Proof.
  induction 1 as [|v k vs ks Hv _ IH]; cbn [fold_right vsum]; intros K.
  - eexists; split; reflexivity.
  - apply karith_ok in K as [Kk Kt]. destruct (IH (kok_small _ Kt)) as (s & Hs & Ks). rewrite Hs. cbn [rbind].
    destruct (arith_exact Qplus Z.add v s (kle_small _ _ Hv Kk) (kle_small _ _ Ks Kt)) as (r & Hr & _ & Kr).
    exists r. split; [exact Hr|]. rewrite Kr. apply karith_mono; auto.
Qed.

Lemma vsum_exact vs : Forall (fun v => exactv v = true) vs -> exists r, vsum vs = Ok r /\ exactv r = true.
Proof.
  induction 1 as [|v vs Hv _ (s & Hs & Es)]; cbn [vsum]; [eexists; split; reflexivity|].
  rewrite Hs. cbn [rbind]. destruct (arith_exact Qplus Z.add v s Hv Es) as (r & Hr & Er & _). eauto.
Qed.

Lemma fold_kmaxk_NX ks : fold_left kmaxk ks NX = NX.
Proof. induction ks; cbn; auto. Qed.

Lemma vmax_list_sound t ks : Forall2 kbound t ks -> forall a ka, kbound a ka -> kok (fold_left kmaxk ks ka) = true ->
  vmax_list a t <> Inexact /\ forall r, vmax_list a t = Ok r -> kle (kind_of r) (fold_left kmaxk ks ka) = true.
Proof.
  induction 1 as [|b kb t ks Hb _ IH]; cbn [fold_left vmax_list]; intros a ka Ha K.
  - split; [discriminate|]. intros r H; inversion H; subst. exact Ha.
  - assert (K2 : kok (kmaxk ka kb) = true).
    { destruct (kmaxk ka kb) eqn:E; auto. rewrite fold_kmaxk_NX in K. discriminate. }
    apply kmaxk_ok in K2 as [Ka Kb].
    destruct (vmax_exact a b (kle_small _ _ Ha Ka) (kle_small _ _ Hb Kb)) as (m & Hm & _ & Km).
    rewrite Hm. cbn [rbind]. apply IH; auto. unfold kbound. eapply kle_trans; [exact Km|]. apply kmaxk_mono; auto.
Qed.

Lemma kx_last ke ts : forallb (kx ke) ts = true -> kx ke (last_expr ts) = true.
Proof.
  unfold last_expr. induction ts as [|x t IH]; cbn [forallb last]; intros H; [reflexivity|].
  bsplit. destruct t; auto.
Qed.

Lemma sym_sound : forall p e ke, krel e ke -> kscope true ke p = true -> kok (ksym ke p) = true ->
  sym p e <> Inexact /\ forall v, sym p e = Ok v -> kbound v (ksym ke p).
Proof.
  induction p using pt_ind'; intros e ke R K S; cbn [sym kscope ksym] in *.
  - apply (eval_sound e ke R d K).
  - (* table *)
    set (kinds := map (fun ts => kexpr ke (last_expr ts)) (map snd chans)) in *.
    assert (L : Forall (fun ts => eval e (last_expr ts) <> Inexact
                                  /\ forall v, eval e (last_expr ts) = Ok v -> (fun ts v => kbound v (kexpr ke (last_expr ts))) ts v)
                       (map snd chans)).
    { apply forallb_Forall in K. eapply Forall_impl; [|exact K]. intros ts Hts. cbn beta in *.
      apply (eval_sound e ke R). apply kx_last. exact Hts. }
    apply rall_map_sound in L as [N V].
    destruct (rall _) as [ls| |]; [|congruence|split; cbn; discriminate]. cbn [rbind]. specialize (V ls eq_refl).
    assert (V' : Forall2 kbound ls kinds).
    { unfold kinds. clear -V. induction V; cbn; constructor; auto. }
    clear V. destruct V' as [|a ka t ks Ha Ht]; [split; discriminate|]. apply vmax_list_sound; auto.
  - (* sequence *)
    assert (Ssub : Forall (fun c => ksmall (ksym ke c) = true) subs).
    { clear -S. induction subs as [|c t IH]; constructor; cbn [fold_right] in S; apply karith_ok in S as [A B]; auto.
      apply IH. apply kok_small. exact B. }
    assert (L : Forall (fun c => sym c e <> Inexact /\ forall v, sym c e = Ok v -> (fun c v => kbound v (ksym ke c)) c v) subs).
    { apply forallb_Forall in K. rewrite Forall_forall in H, K, Ssub |- *. intros c Hc.
      apply H; auto. apply kok_small. auto. }
    apply rall_map_sound in L as [N V].
    destruct (rall _) as [ds| |]; [|congruence|split; cbn; discriminate]. cbn [rbind]. specialize (V ds eq_refl).
    assert (V' : Forall2 kbound ds (map (ksym ke) subs)).
    { clear -V. induction V; cbn; constructor; auto. }
    assert (E : fold_right (fun c s => karith (ksym ke c) s) NI subs = fold_right karith NI (map (ksym ke) subs)).
    { clear. induction subs; cbn; congruence. }
    rewrite E in *. destruct (vsum_sound _ _ V' S) as (r & Hr & Kr). rewrite Hr.
    split; [discriminate|]. intros v Hv; inversion Hv; subst. exact Kr.
  - (* repetition *)
    bsplit. apply karith_ok in S as S'. destruct S' as [Sc Sb].
    destruct (eval_sound e ke R c H) as [Nc Vc]. destruct (IHp e ke R H0 (kok_small _ Sb)) as [Nb Vb].
    destruct (eval e c) as [n| |]; [|congruence|split; cbn; discriminate]. cbn [rbind].
    destruct (sym p e) as [d| |]; [|congruence|split; cbn; discriminate]. cbn [rbind].
    specialize (Vc n eq_refl). specialize (Vb d eq_refl).
    destruct (arith_exact Qmult Z.mul n d (kle_small _ _ Vc Sc) (kle_small _ _ Vb Sb)) as (r & Hr & _ & Kr).
    unfold vmul. rewrite Hr. split; [discriminate|]. intros v Hv; inversion Hv; subst. unfold kbound. rewrite Kr.
    apply karith_mono; auto.
  - (* for-loop *)
    cbv zeta in K.
    apply andb_prop in K as [K1 K5]. apply andb_prop in K1 as [K1 K3]. apply andb_prop in K1 as [K1 K2].
    apply andb_prop in K5 as [K4 K5].
    set (ki := karith (kexpr ke a) (karith NI (kexpr ke s))) in *.
    apply karith_ok in K4 as K4'. destruct K4' as [Ka Kis]. pose proof (kok_small _ Kis) as Kis'. apply karith_ok in Kis' as [_ Ks].
    destruct (eval_sound e ke R a K1) as [Na Va]. destruct (eval_sound e ke R b K2) as [Nb _].
    destruct (eval_sound e ke R s K3) as [Ns Vs].
    destruct (eval e a) as [va| |]; [|congruence|split; cbn; discriminate]. cbn [rbind].
    destruct (eval e b) as [vb| |]; [|congruence|split; cbn; discriminate]. cbn [rbind].
    destruct (eval e s) as [vs| |]; [|congruence|split; cbn; discriminate]. cbn [rbind].
    specialize (Va va eq_refl). specialize (Vs vs eq_refl).
    destruct (Qeqb _ _); [split; discriminate|]. cbv zeta. destruct (100000 <? _)%Z; [split; discriminate|].
    assert (Sb : ksmall (ksym ((i, ki) :: ke) p) = true).
    { destruct (karith (ksym ((i, ki) :: ke) p) NI) eqn:E; try discriminate;
        destruct (ksym ((i, ki) :: ke) p); cbn in E; try discriminate; reflexivity. }
    match goal with |- context[rall (map ?f ?l)] => 
      assert (L : Forall (fun k => f k <> Inexact /\ forall v, f k = Ok v -> (fun _ v => exactv v = true) k v) l) end.
    { apply Forall_forall. intros k _.
      destruct (arith_exact Qmult Z.mul (VInt (Z.of_nat k)) vs eq_refl (kle_small _ _ Vs Ks)) as (ksv & Hk & Ek & Kk).
      unfold vmul. rewrite Hk. cbn [rbind].
      destruct (arith_exact Qplus Z.add va ksv (kle_small _ _ Va Ka) Ek) as (iv & Hi & Ei & Ki).
      unfold vadd. rewrite Hi. cbn [rbind].
      assert (R' : krel ((i, iv) :: e) ((i, ki) :: ke)).
      { constructor; auto. split; [reflexivity|]. cbn [snd].
        assert (B : kle (kind_of iv) ki = true).
        { rewrite Ki, Kk. unfold ki. apply karith_mono; auto. apply karith_mono; auto. }
        destruct iv; auto. }
      destruct (IHp _ _ R' K5 (kok_small _ Sb)) as [N V]. split; auto.
      intros v Hv. exact (kle_small _ _ (V v Hv) Sb). }
    apply rall_map_sound in L as [N V].
    destruct (rall _) as [terms| |]; [|congruence|split; cbn; discriminate]. cbn [rbind]. specialize (V terms eq_refl).
    assert (Et : Forall (fun v => exactv v = true) terms).
    { clear -V. induction V; constructor; auto. }
    destruct (vsum_exact terms Et) as (r & Hr & Er). rewrite Hr. cbn [rbind].
    destruct (_ <=? 0)%Z; (split; [discriminate|]); intros v Hv; inversion Hv; subst; unfold kbound;
      destruct (karith (ksym ((i, ki) :: ke) p) NI); try discriminate; try reflexivity; apply exact_le_NI; auto.
  - (* mapping *)
    bsplit. destruct (map_env_sound e ke m R H) as [N V].
    destruct (map_env e m) as [e'| |]; [|congruence|split; cbn; discriminate]. cbn [rbind].
    apply IHp; auto.
  - (* multi *)
    apply andb_prop in K as [K1 K2]. destruct d as [d|].
    + apply (eval_sound e ke R d K1).
    + destruct subs as [|c t]; [discriminate|]. apply Forall_inv in H. cbn [forallb] in K2.
      apply andb_prop in K2 as [K2 _]. apply H; auto.
  - (* arithmetic *)
    bsplit. apply kmaxk_ok in S as S'. destruct S' as [Sl Sr].
    destruct (IHp1 e ke R H (kok_small _ Sl)) as [Nl Vl]. destruct (IHp2 e ke R H0 (kok_small _ Sr)) as [Nr Vr].
    destruct (sym p1 e) as [u| |]; [|congruence|split; cbn; discriminate]. cbn [rbind].
    destruct (sym p2 e) as [w| |]; [|congruence|split; cbn; discriminate]. cbn [rbind].
    specialize (Vl u eq_refl). specialize (Vr w eq_refl).
    destruct (vmax_exact u w (kle_small _ _ Vl Sl) (kle_small _ _ Vr Sr)) as (r & Hr & _ & Kr).
    rewrite Hr. split; [discriminate|]. intros v Hv; inversion Hv; subst. unfold kbound.
    eapply kle_trans; [exact Kr|]. apply kmaxk_mono; auto.
  - apply IHp; auto.
  - apply IHp; auto.
  - bsplit. apply IHp; auto.
  - apply IHp; auto.
Qed.

(* where the specification judges the symbolic duration (scope_sym), the model's `sym` at the decimal parameter values
   never answers Inexact *)
Theorem scope_sym_sound p e : scope_sym p e = true -> sym p (decimalize e) <> Inexact.
Proof.
  unfold scope_sym. intros K. apply andb_prop in K as [K S].
  exact (proj1 (sym_sound p (decimalize e) _ (krel_kenv_of _) K S)).
Qed.

(* non-vacuity: the scope contains templates with float parameters (used bare: 0.1 as a duration) and excludes
   arithmetic on them (0.1 * 3 computed in binary floating point), which the model classifies Inexact *)
Definition ex_float_env : env := [(0%N, VFloat (3602879701896397 # 36028797018963968) (1 # 10)); (1%N, VInt 3)].
Definition ex_in_scope : pt := PRep (EVar 1%N) (PAtom KConst [Some 0%Z] (EVar 0%N)).
Definition ex_out_of_scope : pt := PAtom KConst [Some 0%Z] (EMul (EVar 0%N) (EVar 1%N)).
Lemma example_scope :
  scope_prog ex_in_scope ex_float_env = true /\ scope_sym ex_in_scope ex_float_env = true
  /\ den ex_in_scope (qenv_of ex_float_env) = Some (3 # 10)
  /\ scope_prog ex_out_of_scope ex_float_env = false /\ cp real (resolve idf ex_out_of_scope) ex_float_env = Inexact
  /\ scope_sym ex_out_of_scope ex_float_env = true.
Proof. vm_compute. repeat split; reflexivity. Qed.
