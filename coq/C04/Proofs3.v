(* C04 — witnesses of the finding classes, guards per finding, examples. *)
From Coq Require Import ZArith QArith Qround Qabs Bool List Lia Lqa Setoid.
Require Import QV.C04.Model QV.C04.Spec QV.C04.Proofs QV.C04.Proofs2 QV.C04.Proofs4.
Import ListNotations.
Open Scope Q_scope.

(* witnesses of the input classes on which the unchanged code's numbers disagree *)
Definition w_negcount : pt * env :=
  (PRep (EVar 1%N) (PAtom KConst 0 (EVar 0%N)), [(0%N, VTime (1 # 10)); (1%N, VInt (-2))]).
Definition w_negdur : pt * env :=
  (PSeq [PAtom KConst 0 (EVar 0%N); PAtom KConst 0 (ELit (VInt 3))], [(0%N, VInt (-2))]).
Definition w_nearint : pt * env :=
  (PRep (EVar 1%N) (PAtom KConst 0 (ELit (VInt 1))), [(1%N, VTime (20000001 # 10000000))]).
Definition w_parallel : pt * env :=
  (PMulti None [PAtom KConst 0 (ELit (VInt 0)); PAtom KConst 1 (ELit (VInt 5))], []).

Definition disagrees (w : pt * env) : Prop :=
  exists kids v, cp real (fst w) (snd w) = Ok kids /\ sym (fst w) (decimalize (snd w)) = Ok v /\ ~ time_of v == total kids.

(* a non-trivial input that satisfies every hypothesis of the guarded theorems *)
Definition ex_tpl : pt :=
  PSeq [PRep (EVar 2%N) (PMap [(5%N, EMul (EVar 0%N) (ELit (VInt 3)))] (PAtom KConst 0 (EVar 5%N)));
        PRev (PMulti (Some (EVar 1%N)) [PAtom KFunc 1 (EVar 1%N); PWrap (PAtom KConst 0 (EVar 1%N))])].
Definition ex_env : env := [(0%N, VTime (1 # 10)); (1%N, VFloat (3602879701896397 # 36028797018963968) (1 # 10)); (2%N, VInt 1000000)].

(* a for-loop with a negative step whose body depends on the index, a table and atomic arithmetic *)
Definition ex_for : pt :=
  PFor 3%N (ELit (VInt 5)) (EVar 1%N) (ELit (VInt (-2)))
    (PSeq [PRep (EVar 3%N) (PAtom KConst 0 (EVar 0%N));
           PArith (PTable 0 [[ELit (VInt 0); EMul (EVar 0%N) (EVar 3%N)]]) (PAtom KFunc 0 (EMul (EVar 0%N) (EVar 3%N)))]).
Definition ex_for_env : env := [(0%N, VTime (1 # 4)); (1%N, VInt 0)].

(* binary vs decimal reading: a float 0.3 (binary value below 3/10) next to a TimeType strictly between the two *)
Definition w_view : pt * env :=
  (PTable 0 [[EVar 0%N]; [EVar 1%N]],
   [(0%N, VFloat (5404319552844595 # 18014398509481984) (3 # 10)); (1%N, VTime (2999999999999999999 # 10000000000000000000))]).

Definition guards_of (w : pt * env) : list bool :=
  [g_view (fst w) (snd w); guard_finding FNegCount (fst w) (snd w); guard_finding FNegDuration (fst w) (snd w);
   guard_finding FNearInteger (fst w) (snd w); guard_finding FParallel (fst w) (snd w); guard_C04 (fst w) (snd w)].

Ltac refute := split; [do 2 eexists; split; [vm_compute; reflexivity|]; split; [vm_compute; reflexivity|]; vm_compute; discriminate
                      | vm_compute; reflexivity].

(* each witness: the code's numbers disagree; exactly its own guard is false (and with it guard_C04) *)
Lemma refuted_negcount : disagrees w_negcount /\ guards_of w_negcount = [true; false; true; true; true; false].
Proof. refute. Qed.
Lemma refuted_negdur : disagrees w_negdur /\ guards_of w_negdur = [true; true; false; true; true; false].
Proof. refute. Qed.
Lemma refuted_nearint : disagrees w_nearint /\ guards_of w_nearint = [true; true; true; false; true; false].
Proof. refute. Qed.
Lemma refuted_parallel : disagrees w_parallel /\ guards_of w_parallel = [true; true; true; true; false; false].
Proof. refute. Qed.
Lemma refuted_view : disagrees w_view /\ guards_of w_view = [false; true; true; true; true; false].
Proof. refute. Qed.

(* non-vacuity: inputs with a float parameter / a for-loop with negative step, index-dependent body, table, atomic
   arithmetic, constraint, single-waveform rendering satisfy the guard *)
Definition ex_full : pt := PSeq [PSingle (PConstr [(EVar 1%N, ELit (VInt 0))] ex_for); ex_tpl].
Definition ex_full_env : env := (1%N, VInt 0) :: (3%N, VInt 7) :: ex_env.   (* first binding of a name wins *)

Lemma example_guard :
  guard_C04 ex_tpl ex_env = true /\ guards_of (ex_tpl, ex_env) = [true; true; true; true; true; true]
  /\ exists v, sym ex_tpl (decimalize ex_env) = Ok v /\ time_of v == 3000001 # 10.
Proof. split; [vm_compute; reflexivity|]. split; [vm_compute; reflexivity|]. eexists; split; vm_compute; reflexivity. Qed.

Lemma example_for_guard :
  guard_C04 ex_for ex_for_env = true /\ guards_of (ex_for, ex_for_env) = [true; true; true; true; true; true]
  /\ exists v, sym ex_for (decimalize ex_for_env) = Ok v /\ time_of v == 9 # 2.
Proof. split; [vm_compute; reflexivity|]. split; [vm_compute; reflexivity|]. eexists; split; vm_compute; reflexivity. Qed.

Lemma example_for : (exists d, den ex_for (qenv_of ex_for_env) = Some d /\ d == 9 # 2)
  /\ (exists prog, create_program real ex_for ex_for_env = Ok (Some prog)) /\ g_view ex_for ex_for_env = true
  /\ exists v, sym ex_for (decimalize ex_for_env) = Ok v.
Proof.
  split; [eexists; split; vm_compute; reflexivity|]. split; [eexists; vm_compute; reflexivity|].
  split; [vm_compute; reflexivity | eexists; vm_compute; reflexivity].
Qed.
