(* C04 — witnesses of the finding classes, guards per finding, examples. *)
From Coq Require Import ZArith QArith Qround Qabs Bool List Lia Lqa Setoid.
Require Import QV.C04.Model QV.C04.Spec QV.C04.Proofs QV.C04.Proofs2 QV.C04.Proofs4.
Import ListNotations.
Open Scope Q_scope.

(* witnesses of the input classes on which the unchanged code's numbers disagree *)
Definition w_negcount : pt * env :=
  (PRep (EVar 1%N) (PAtom KConst [Some 0%Z] (EVar 0%N)), [(0%N, VTime (1 # 10)); (1%N, VInt (-2))]).
Definition w_negdur : pt * env :=
  (PSeq [PAtom KConst [Some 0%Z] (EVar 0%N); PAtom KConst [Some 0%Z] (ELit (VInt 3))], [(0%N, VInt (-2))]).
Definition w_nearint : pt * env :=
  (PRep (EVar 1%N) (PAtom KConst [Some 0%Z] (ELit (VInt 1))), [(1%N, VTime (20000001 # 10000000))]).
Definition w_parallel : pt * env :=
  (PMulti None [PAtom KConst [Some 0%Z] (ELit (VInt 0)); PAtom KConst [Some 1%Z] (ELit (VInt 5))], []).

(* an atom none of whose channels is played: MappingPT(ConstantPT(3, {c0: 1}), channel_mapping={c0: None}) *)
Definition w_dropped : pt * env :=
  (PSeq [PMap [] [(0%Z, None)] (PAtom KConst [Some 0%Z] (ELit (VInt 3)))], []).
(* finding C04-zero-length-function-leaf: ForLoopPT(AtomicMultiChannelPT(ConstantPT('i', {b}), FunctionPT(.., 'i', a)),
   'i', (0, 7, 3)): at i = 0 the constant part has no waveform, the function part a zero-length one *)
Definition w_zero_func : pt * env :=
  (PFor 0%N (ELit (VInt 0)) (ELit (VInt 7)) (ELit (VInt 3))
     (PMulti None [PAtom KConst [Some 1%Z] (EVar 0%N); PAtom KFunc [Some 0%Z] (EVar 0%N)]), []).

Definition disagrees (w : pt * env) : Prop :=
  exists kids v, cp real (rs (fst w)) (snd w) = Ok kids /\ sym (fst w) (decimalize (snd w)) = Ok v /\ ~ time_of v == total kids.

(* a non-trivial input that satisfies every hypothesis of the guarded theorems *)
Definition ex_tpl : pt :=
  PSeq [PRep (EVar 2%N) (PMap [(5%N, EMul (EVar 0%N) (ELit (VInt 3)))] [] (PAtom KConst [Some 0%Z; Some 1%Z] (EVar 5%N)));
        PRev (PMulti (Some (EVar 1%N)) [PAtom KFunc [Some 1%Z] (EVar 1%N); PWrap (PAtom KConst [Some 0%Z] (EVar 1%N))])].
Definition ex_env : env := [(0%N, VTime (1 # 10)); (1%N, VFloat (3602879701896397 # 36028797018963968) (1 # 10)); (2%N, VInt 1000000)].

(* a for-loop with a negative step whose body depends on the index, a table and atomic arithmetic *)
Definition ex_for : pt :=
  PFor 3%N (ELit (VInt 5)) (EVar 1%N) (ELit (VInt (-2)))
    (PSeq [PRep (EVar 3%N) (PAtom KConst [Some 0%Z] (EVar 0%N));
           PArith (PTable [(Some 0%Z, [ELit (VInt 0); EMul (EVar 0%N) (EVar 3%N)])]) (PAtom KFunc [Some 0%Z] (EMul (EVar 0%N) (EVar 3%N)))]).
Definition ex_for_env : env := [(0%N, VTime (1 # 4)); (1%N, VInt 0)].

(* binary vs decimal reading: a float 0.3 (binary value below 3/10) next to a TimeType strictly between the two *)
Definition w_view : pt * env :=
  (PTable [(Some 0%Z, [EVar 0%N]); (Some 1%Z, [EVar 1%N])],
   [(0%N, VFloat (5404319552844595 # 18014398509481984) (3 # 10)); (1%N, VTime (2999999999999999999 # 10000000000000000000))]).

Definition guards_of (w : pt * env) : list bool :=
  [g_view (fst w) (snd w); guard_finding FNegCount (fst w) (snd w); guard_finding FNegDuration (fst w) (snd w);
   guard_finding FNearInteger (fst w) (snd w); guard_finding FParallel (fst w) (snd w);
   guard_finding FDropped (fst w) (snd w); g_uniform (fst w) (snd w); guard_C04 (fst w) (snd w)].

Ltac refute := split; [do 2 eexists; split; [vm_compute; reflexivity|]; split; [vm_compute; reflexivity|]; vm_compute; discriminate
                      | vm_compute; reflexivity].

(* each witness: the code's numbers disagree; exactly its own guard is false (and with it guard_C04) *)
Lemma refuted_negcount : disagrees w_negcount /\ guards_of w_negcount = [true; false; true; true; true; true; true; false].
Proof. refute. Qed.
Lemma refuted_negdur : disagrees w_negdur /\ guards_of w_negdur = [true; true; false; true; true; true; true; false].
Proof. refute. Qed.
Lemma refuted_nearint : disagrees w_nearint /\ guards_of w_nearint = [true; true; true; false; true; true; true; false].
Proof. refute. Qed.
Lemma refuted_parallel : disagrees w_parallel /\ guards_of w_parallel = [true; true; true; true; false; true; true; false].
Proof. refute. Qed.
Lemma refuted_view : disagrees w_view /\ guards_of w_view = [false; true; true; true; true; true; true; false].
Proof. refute. Qed.

Lemma refuted_dropped : disagrees w_dropped /\ guards_of w_dropped = [true; true; true; true; true; false; true; false].
Proof. refute. Qed.
(* the template, Loop.duration and the pieces agree (9), but to_waveform raises: only g_uniform is false *)
Lemma refuted_zero_func :
  (exists kids v, cp real (rs (fst w_zero_func)) (snd w_zero_func) = Ok kids /\ sym (fst w_zero_func) (decimalize (snd w_zero_func)) = Ok v
                  /\ time_of v == total kids /\ total kids == 9 /\ to_wf (Node 1 kids) = None)
  /\ guards_of w_zero_func = [true; true; true; true; true; true; false; false].
Proof.
  split; [|vm_compute; reflexivity]. do 2 eexists. split; [vm_compute; reflexivity|]. split; [vm_compute; reflexivity|].
  split; [vm_compute; reflexivity|]. split; vm_compute; reflexivity.
Qed.

(* channel and parameter mappings inside the guard.  ex_swap: MappingPT(SequencePT(hold, RepetitionPT(ramp, 2)),
   {t_hold: t_ramp, t_ramp: t_hold}) lasts t_ramp + 2*t_hold (11 for t_hold = 3, t_ramp = 5; the sequential substitution
   would give 3*t_hold = 9).  ex_drop: TablePT({X: [(0, .), (tx, .)], Y: [(0, .), (ty, .)]}) with the LONGEST channel Y
   mapped to None by a MappingPT and the other one renamed by create_program: X is still held up to Max(tx, ty) = 5 *)
Definition ex_swap : pt :=
  PMap [(0%N, EVar 1%N); (1%N, EVar 0%N)] []
    (PSeq [PAtom KConst [Some 0%Z] (EVar 0%N); PRep (ELit (VInt 2)) (PAtom KFunc [Some 0%Z] (EVar 1%N))]).
Definition ex_swap_env : env := [(0%N, VInt 3); (1%N, VInt 5)].
Definition ex_drop : pt :=
  PMap [] [(0%Z, Some 2%Z)]
    (PRep (ELit (VInt 4))
       (PMap [] [(1%Z, None)] (PTable [(Some 0%Z, [ELit (VInt 0); EVar 0%N]); (Some 1%Z, [ELit (VInt 0); EVar 1%N])]))).
Lemma example_mappings :
  guards_of (ex_swap, ex_swap_env) = [true; true; true; true; true; true; true; true]
  /\ (exists v, sym ex_swap (decimalize ex_swap_env) = Ok v /\ time_of v == 11)
  /\ guards_of (ex_drop, ex_swap_env) = [true; true; true; true; true; true; true; true]
  /\ (exists v, sym ex_drop (decimalize ex_swap_env) = Ok v /\ time_of v == 20)
  /\ create_program real ex_drop ex_swap_env = Ok (Some (Node 1 [Node 4 [Leaf 1 [2%Z] 5]])).
Proof.
  split; [vm_compute; reflexivity|]. split; [eexists; split; vm_compute; reflexivity|].
  split; [vm_compute; reflexivity|]. split; [eexists; split; vm_compute; reflexivity|]. vm_compute. reflexivity.
Qed.

(* non-vacuity: inputs with a float parameter / a for-loop with negative step, index-dependent body, table, atomic
   arithmetic, constraint, single-waveform rendering satisfy the guard *)
Definition ex_full : pt := PSeq [PSingle (PConstr [(EVar 1%N, ELit (VInt 0))] ex_for); ex_tpl].
Definition ex_full_env : env := (1%N, VInt 0) :: (3%N, VInt 7) :: ex_env.   (* first binding of a name wins *)

Lemma example_guard :
  guard_C04 ex_tpl ex_env = true /\ guards_of (ex_tpl, ex_env) = [true; true; true; true; true; true; true; true]
  /\ exists v, sym ex_tpl (decimalize ex_env) = Ok v /\ time_of v == 3000001 # 10.
Proof. split; [vm_compute; reflexivity|]. split; [vm_compute; reflexivity|]. eexists; split; vm_compute; reflexivity. Qed.

Lemma example_for_guard :
  guard_C04 ex_for ex_for_env = true /\ guards_of (ex_for, ex_for_env) = [true; true; true; true; true; true; true; true]
  /\ exists v, sym ex_for (decimalize ex_for_env) = Ok v /\ time_of v == 9 # 2.
Proof. split; [vm_compute; reflexivity|]. split; [vm_compute; reflexivity|]. eexists; split; vm_compute; reflexivity. Qed.

Lemma example_for : (exists d, den ex_for (qenv_of ex_for_env) = Some d /\ d == 9 # 2)
  /\ (exists prog, create_program real ex_for ex_for_env = Ok (Some prog)) /\ g_view ex_for ex_for_env = true
  /\ exists v, sym ex_for (decimalize ex_for_env) = Ok v.
Proof.
  split; [eexists; split; vm_compute; reflexivity|]. split; [eexists; vm_compute; reflexivity|].
  split; [vm_compute; reflexivity | eexists; vm_compute; reflexivity].
Qed.
