(* C04 — correspondence cases.  Each case carries the inputs (template, typed parameter values) and what the real code
   reported: the symbolic duration evaluated at the decimal parameter values, and the program's three durations.
   check_corr: the operational model (sym / resolve / cp / loop_duration / to_wf / sum_pieces / zrange) predicts exactly
   that (to_wf = None: to_waveform raises because the leaves define different channels).
   check_spec: the observation satisfies the property's own specification `den` (Spec.v). *)
From Coq Require Import ZArith QArith Qround Qabs Bool List.
Require Import QV.common.Util QV.C04.Model QV.C04.Spec.
Import ListNotations.

Inductive errclass := XMissing | XValue.
Definition class_of (k : errkind) : errclass :=
  match k with EMissing => XMissing | _ => XValue end.
Definition errclass_eqb (a b : errclass) : bool :=
  match a, b with XMissing, XMissing | XValue, XValue => true | _, _ => false end.

Inductive impl_prog :=
| IErr (k : errclass)                    (* create_program raised *)
| INone                                  (* create_program returned None *)
| IProg (loopd : Q) (wfd : option Q) (pieces : Q).
    (* Loop.duration, to_waveform(program).duration (None: to_waveform raised), sum over leaves x multiplicity *)

Inductive case :=
| CTpl (p : pt) (e : env) (sym_impl : option Q) (prog : impl_prog)
| CTwin (cmp_sym : bool) (p : pt) (e : env) (sym_impl : option Q) (prog : impl_prog)
    (* the same observation as a CTpl case, judged by check_corr ONLY (check_spec = true): emitted by the harness a second
       time for every input inside the class of a known finding, so that a change of behaviour inside such a class (where
       check_spec fails before and after, and the check files the case under the finding) still breaks the correspondence *)
| CRange (a b s : Z) (impl : list Z)     (* ParametrizedRange(a, b, s).to_range({}) as a list; s <> 0 *)
| CCrash.

Definition oq_eqb := opt_eqb Qeq_bool.

(* does the template mention a parameter that is neither bound inside it nor given?  Which of several errors the
   implementation raises first depends on scope internals (MappedScope.as_dict evaluates every mapped name), so for
   such inputs any raised error is accepted. *)
Fixpoint miss_e (bound : list ident) (e : env) (x : expr) : bool :=
  match x with
  | ELit _ => false
  | EVar y => negb (existsb (N.eqb y) bound || match lookup e y with Some _ => true | None => false end)
  | EAdd a b | ESub a b | EMul a b | EMax a b => miss_e bound e a || miss_e bound e b
  | EDivK a _ => miss_e bound e a
  end.
Fixpoint miss_pt (bound : list ident) (e : env) (p : pt) : bool :=
  match p with
  | PAtom _ _ d => miss_e bound e d
  | PTable chans => existsb (existsb (miss_e bound e)) (map snd chans)
  | PSeq subs => existsb (miss_pt bound e) subs
  | PRep c b => miss_e bound e c || miss_pt bound e b
  | PFor i a b s body => miss_e bound e a || miss_e bound e b || miss_e bound e s || miss_pt (i :: bound) e body
  | PMap m _ b => existsb (fun xe => miss_e bound e (snd xe)) m || miss_pt (map fst m ++ bound) e b
  | PMulti d subs => match d with Some x => miss_e bound e x | None => false end || existsb (miss_pt bound e) subs
  | PArith l r => miss_pt bound e l || miss_pt bound e r
  | PWrap b | PRev b | PSingle b => miss_pt bound e b
  | PConstr cs b => existsb (fun lr => miss_e bound e (fst lr) || miss_e bound e (snd lr)) cs || miss_pt bound e b
  end.

Definition sym_matches (p : pt) (e : env) (sym_impl : option Q) : bool :=
  match sym p (decimalize e) with
  | Inexact => true
  | Err _ => true      (* sympy may simplify the offending sub-expression away (0 * missing = 0) *)
  | Ok v => oq_eqb sym_impl (Some (time_of v))
  end.

(* model-side bookkeeping (NOT used by check_spec): the operational model classifies the case as "float arithmetic takes
   part in the instantiation".  check_corr demands that the specification's static scope analysis (Spec.scope_prog /
   scope_sym) never judges such a case: scope ⊆ exactness of the model (also proved: C04_scope_*_sound) *)
Definition model_inexact_prog (p : pt) (e : env) : bool :=
  match cp real (resolve idf p) e with Inexact => true | _ => false end.
Definition model_inexact_sym (p : pt) (e : env) : bool :=
  match sym p (decimalize e) with Inexact => true | _ => false end.
Definition scope_consistent (p : pt) (e : env) : bool :=
  implb (scope_prog p e) (negb (model_inexact_prog p e)) && implb (scope_sym p e) (negb (model_inexact_sym p e)).

(* the program side: the model's create_program predicts the implementation's three durations *)
Definition corr_prog (p : pt) (e : env) (prog : impl_prog) : bool :=
  (* an error is always an acceptable answer where the template denotes no duration (den = None), and where a
     parameter is missing *)
  match (if miss_pt [] e p then None      (* sympy may simplify the missing name away (t - t = 0): nothing compared *)
         else match prog with
              | IErr _ => match den p (qenv_of e) with None => None | Some _ => Some tt end
              | _ => Some tt
              end) with
  | None => true
  | Some _ =>
  match cp real (resolve idf p) e with
  | Inexact => true
  | Err k => match prog with IErr k' => errclass_eqb (class_of k) k' | _ => false end
  | Ok kids =>
      (* an empty program counts as zero: None and a program whose three durations are 0 are the same observation *)
      let model := match kids with
                   | [] => (0, Some 0, 0)
                   | _ => (total kids, to_wf (Node 1 kids), sum_pieces 1 (Node 1 kids))
                   end in
      match model, prog with
      | (ma, mb, mc), IProg a b c => Qeq_bool a ma && oq_eqb b mb && Qeq_bool c mc
      | (ma, mb, mc), INone => Qeq_bool 0 ma && oq_eqb (Some 0) mb && Qeq_bool 0 mc
      | _, IErr _ => false
      end
  end end.

Definition check_corr (c : case) : bool :=
  match c with
  | CTpl p e sym_impl prog =>
      corr_prog p e prog
      && (* the symbolic value is compared only where the template denotes a duration at all *)
         match den p (qenv_of e) with Some _ => sym_matches p e sym_impl | None => true end
      && scope_consistent p e
  | CTwin cmp_sym p e sym_impl prog =>
      (* inside a finding class the model IS the description of the finding: program side always, symbolic side unless
         the harness switches it off (near-integer for-loop bounds: the floor form of the code and the ceiling form of
         the model differ off the integers) *)
      corr_prog p e prog && (if cmp_sym then miss_pt [] e p || sym_matches p e sym_impl else true)
  | CRange a b s impl => list_eqb Z.eqb (zrange a b s) impl
  | CCrash => false
  end.

Fixpoint arith_seq_from (k : nat) (a s : Z) (l : list Z) : bool :=
  match l with
  | [] => true
  | x :: t => (x =? a + Z.of_nat k * s)%Z && arith_seq_from (S k) a s t
  end.

(* The judgement uses Spec.v only: `den` (the denoted duration) and the static scope analysis scope_prog / scope_sym
   (which inputs are exact numbers).  No function of Model.v that mirrors code is called here (the shared `expr`/`pt`
   syntax, `time_of`, `decimalize` = "a float parameter stands for its shortest decimal", `zrange` = Python's range by
   its defining loop, and `qenv_of` are the vocabulary of the specification). *)
Definition check_spec (c : case) : bool :=
  match c with
  | CTpl p e sym_impl prog =>
      if negb (scope_prog p e) then true else      (* binary float arithmetic could take part in the instantiation *)
      let judge_sym := scope_sym p e in
      (* the symbolic duration must be the number x; "no rational value" is acceptable only for an expression that
         divides by a zero step somewhere (Spec.zero_step) *)
      let sym_is (x : Q) := match sym_impl with Some s => Qeq_bool s x | None => zero_step (qenv_of e) p end in
      match den p (qenv_of e) with
      | None =>
          (* no meaningful duration: nothing is demanded except that the reported numbers do not contradict each other *)
          match prog with
          | IErr _ => true
          | INone => if judge_sym then sym_is 0 else true
          | IProg a b c => oq_eqb b (Some a) && Qeq_bool a c && (if judge_sym then sym_is a else true)
          end
      | Some d =>
          let symok := if judge_sym then sym_is d else true in
          match prog with
          | IErr _ => true
          | INone => Qeq_bool d 0 && symok
          | IProg a b c => Qeq_bool a d && oq_eqb b (Some d) && Qeq_bool c d && symok
          end
      end
  | CTwin _ _ _ _ _ => true
  | CRange a b s impl =>
      match s with
      | Z0 => true
      | _ => (Z.of_nat (length impl) =? Z.max 0 (Qceiling ((inject_Z b - inject_Z a) / inject_Z s)))%Z
             && arith_seq_from 0 a s impl
      end
  | CCrash => false
  end.
