(* C08 — facts about transformations: get_input_channels of defined output channels are channels of the inner
   waveform; a constant-invariant transformation ignores the time. *)
From Coq Require Import List ZArith QArith Qabs Bool Lia.
Require Import QV.C08.Model QV.C08.Spec QV.C08.Wf QV.C08.ProofsConst.
Import ListNotations.
Open Scope Q_scope.

(* ---- channel sets as predicates ---- *)
Definition sub (a b : list chan) : Prop := forall c, inb c a = true -> inb c b = true.
Lemma inb_In c l : inb c l = true <-> In c l.
Proof.
  unfold inb. rewrite existsb_exists. split.
  - intros [x [Hx E]]. apply N.eqb_eq in E. subst; exact Hx.
  - intros H. exists c. split; auto. apply N.eqb_refl.
Qed.
Lemma subsetb_sub a b : subsetb a b = true <-> sub a b.
Proof.
  unfold subsetb, sub. rewrite forallb_forall. split.
  - intros H c Hc. apply H. apply inb_In; exact Hc.
  - intros H c Hc. apply H. apply inb_In; exact Hc.
Qed.
Lemma inb_filter (p : chan -> bool) c l : inb c (filter p l) = inb c l && p c.
Proof.
  induction l as [|x r IH]; [reflexivity|]. cbn [filter].
  destruct (p x) eqn:E; rewrite ?inb_cons, IH.
  - destruct (N.eqb c x) eqn:Ec; [apply N.eqb_eq in Ec; subst; rewrite E; reflexivity|reflexivity].
  - destruct (N.eqb c x) eqn:Ec; [apply N.eqb_eq in Ec; subst; rewrite E, andb_false_r; reflexivity|reflexivity].
Qed.
Lemma inb_diffb c a b : inb c (diffb a b) = inb c a && negb (inb c b).
Proof. unfold diffb. apply inb_filter. Qed.
Lemma inb_interb c a b : inb c (interb a b) = inb c a && inb c b.
Proof. unfold interb. apply inb_filter. Qed.
Lemma disjointb_spec a b : disjointb a b = true <-> (forall c, inb c a = true -> inb c b = false).
Proof.
  unfold disjointb. split.
  - intros H c Hc. destruct (inb c b) eqn:E; auto.
    assert (Hi : inb c (interb a b) = true) by (rewrite inb_interb, Hc, E; reflexivity).
    destruct (interb a b); [discriminate Hi|discriminate H].
  - intros H. destruct (interb a b) as [|x r] eqn:E; auto.
    assert (Hi : inb x (interb a b) = true) by (rewrite E, inb_cons, N.eqb_refl; reflexivity).
    rewrite inb_interb in Hi. apply andb_prop in Hi as [H1 H2]. rewrite (H x H1) in H2. discriminate.
Qed.

(* ---- get_input_channels of a subset of the output channels: defined, and channels of the input ---- *)
Lemma t_in_sound : forall T chans co outs, t_out T chans = Some co -> sub outs co ->
  exists ins, t_in T outs = Some ins /\ sub ins chans.
Proof.
  induction T using trafo_ind'; intros chans co outs Ho Hs.
  - cbn in *. injection Ho as Ho; subst co. eauto.
  - cbn in *. injection Ho as Ho; subst co. eauto.
  - cbn in *. injection Ho as Ho; subst co. eauto.
  - (* linear *)
    cbn [t_out t_in] in *. destruct (subsetb i chans) eqn:Ei; [|discriminate]. injection Ho as Ho; subst co.
    apply subsetb_sub in Ei.
    assert (Hf : sub (diffb outs o) (diffb chans i)).
    { intros c Hc. rewrite inb_diffb in Hc. apply andb_prop in Hc as [H1 H2].
      specialize (Hs c H1). rewrite inb_unionb in Hs. apply negb_true_iff in H2. rewrite H2, orb_false_r in Hs. exact Hs. }
    assert (Hd : disjointb (diffb outs o) i = true).
    { apply disjointb_spec. intros c Hc. specialize (Hf c Hc). rewrite inb_diffb in Hf.
      apply andb_prop in Hf as [_ H2]. apply negb_true_iff in H2. exact H2. }
    rewrite Hd. cbn [negb].
    destruct (disjointb outs o) eqn:Eo.
    + eexists; split; [reflexivity|]. intros c Hc.
      assert (H2 : inb c o = false) by (apply (proj1 (disjointb_spec outs o) Eo); exact Hc).
      assert (H3 : inb c (diffb outs o) = true) by (rewrite inb_diffb, Hc, H2; reflexivity).
      specialize (Hf c H3). rewrite inb_diffb in Hf. apply andb_prop in Hf as [H4 _]. exact H4.
    + eexists; split; [reflexivity|]. intros c Hc. rewrite inb_unionb in Hc.
      apply orb_prop in Hc as [Hc|Hc].
      * specialize (Hf c Hc). rewrite inb_diffb in Hf. apply andb_prop in Hf as [H4 _]. exact H4.
      * apply Ei; exact Hc.
  - (* parallel *)
    cbn [t_out t_in] in *. injection Ho as Ho; subst co. eexists; split; [reflexivity|].
    intros c Hc. rewrite inb_diffb in Hc. apply andb_prop in Hc as [H1 H2]. apply negb_true_iff in H2.
    specialize (Hs c H1). rewrite inb_unionb, H2, orb_false_r in Hs. exact Hs.
  - (* chain *)
    cbn [t_out t_in] in *. revert chans co Ho Hs.
    induction H as [|x r Hx _ IH]; intros chans co Ho Hs.
    + injection Ho as Ho; subst co. eauto.
    + destruct (t_out x chans) as [c1|] eqn:E1; [|discriminate].
      destruct (IH c1 co Ho Hs) as [n [Hn Hsn]]. rewrite Hn.
      exact (Hx chans c1 n E1 Hsn).
Qed.

Lemma t_in_channels T chans co c : t_out T chans = Some co -> inb c co = true ->
  exists ins, t_in T [c] = Some ins /\ forall ic, inb ic ins = true -> inb ic chans = true.
Proof.
  intros Ho Hc. apply (t_in_sound T chans co [c] Ho).
  intros k Hk. rewrite inb_cons in Hk. cbn in Hk. rewrite orb_false_r in Hk. apply N.eqb_eq in Hk. subst; exact Hc.
Qed.

(* ---- a constant-invariant transformation does not look at the time ---- *)
Lemma lookup_In' {A} c (d : list (chan * A)) v : lookup c d = Some v -> In (c, v) d.
Proof.
  induction d as [|[k x] r IH]; cbn; [discriminate|]. destruct (N.eqb c k) eqn:E.
  - apply N.eqb_eq in E. intros H; injection H as <-. subst; auto.
  - auto.
Qed.
Lemma tval_const f k tv t t' : existsb (fun kv : chan * tval => tval_timedep (snd kv)) f = false ->
  lookup k f = Some tv -> tval_at tv t = tval_at tv t'.
Proof.
  intros He L. apply lookup_In' in L.
  assert (Ht : tval_timedep tv = false).
  { destruct (tval_timedep tv) eqn:E; auto.
    assert (existsb (fun kv : chan * tval => tval_timedep (snd kv)) f = true) by (apply existsb_exists; exists (k, tv); auto).
    congruence. }
  destruct tv; [reflexivity|discriminate].
Qed.
Lemma t_point_const_inv : forall T, t_const_inv T = true -> forall t t' d, t_point T t d = t_point T t' d.
Proof.
  induction T using trafo_ind'; intros Hc t t' d; cbn [t_const_inv t_point] in *; auto.
  - apply negb_true_iff in Hc. f_equal. apply map_ext. intros [k v]. cbn.
    destruct (lookup k f) eqn:L; auto. rewrite (tval_const f k t0 t t' Hc L). reflexivity.
  - apply negb_true_iff in Hc. f_equal. apply map_ext. intros [k v]. cbn.
    destruct (lookup k f) eqn:L; auto. rewrite (tval_const f k t0 t t' Hc L). reflexivity.
  - apply negb_true_iff in Hc. f_equal. f_equal. apply map_ext_in. intros [k tv] Hin. cbn.
    assert (Ht : tval_timedep tv = false).
    { destruct (tval_timedep tv) eqn:E; auto.
      assert (existsb (fun kv : chan * tval => tval_timedep (snd kv)) f = true) by (apply existsb_exists; exists (k, tv); auto).
      congruence. }
    destruct tv; [reflexivity|discriminate].
  - revert d. induction H as [|x r Hx _ IH]; intros d; [reflexivity|].
    apply andb_prop in Hc as [H1 H2]. rewrite (Hx H1 t t' d).
    destruct (t_point x t' d); [apply IH; exact H2|reflexivity].
Qed.

(* ---- whether Transformation.__call__ raises, and which channels the result has, depends on the keys only ---- *)
Definition krel (d d' : data) : Prop := Forall2 (fun a b : chan * option Q => fst a = fst b) d d'.
Definition okrel (a b : option data) : Prop :=
  match a, b with Some x, Some y => krel x y | None, None => True | _, _ => False end.
Lemma krel_keys d d' : krel d d' -> keys d = keys d'.
Proof. induction 1 as [|a b l l' H _ IH]; [reflexivity|]. unfold keys in *. cbn [map]. rewrite H, IH. reflexivity. Qed.
Lemma krel_length d d' : krel d d' -> length d = length d'.
Proof. induction 1; cbn; auto. Qed.
Lemma krel_filter (p : chan -> bool) d d' : krel d d' ->
  krel (filter (fun kv => p (fst kv)) d) (filter (fun kv => p (fst kv)) d').
Proof.
  induction 1 as [|a b l l' Hk _ IH]; cbn; [constructor|].
  rewrite Hk. destruct (p (fst b)); [constructor; assumption|exact IH].
Qed.
Lemma krel_map_same {A} (g g' : A -> chan * option Q) (l : list A) :
  (forall x, fst (g x) = fst (g' x)) -> krel (map g l) (map g' l).
Proof. intros H. induction l; cbn; constructor; auto. Qed.

Lemma t_point_shape : forall T t t' d d', krel d d' -> okrel (t_point T t d) (t_point T t' d').
Proof.
  induction T using trafo_ind'; intros t t' d d' Hd; cbn [t_point okrel].
  - exact Hd.
  - unfold krel. induction Hd as [|[k v] [k' v'] l l' Hk _ IH]; cbn; [constructor|]. cbn in Hk. subst k'.
    constructor; [|exact IH]. destruct (lookup k f); reflexivity.
  - unfold krel. induction Hd as [|[k v] [k' v'] l l' Hk _ IH]; cbn; [constructor|]. cbn in Hk. subst k'.
    constructor; [|exact IH]. destruct (lookup k f); reflexivity.
  - pose proof (krel_filter (fun c => negb (inb c i)) d d' Hd) as Hf.
    rewrite <- (krel_length _ _ Hf), <- (krel_length _ _ Hd), <- (krel_keys _ _ Hd).
    destruct (length (filter (fun kv => negb (inb (fst kv) i)) d) =? length d)%nat; [exact Hf|].
    destruct (subsetb i (keys d)); [|exact I].
    cbn [okrel]. apply Forall2_app; [|exact (krel_filter (fun c => negb (inb c o)) _ _ Hf)].
    apply krel_map_same. reflexivity.
  - apply Forall2_app; [apply krel_map_same; reflexivity|].
    exact (krel_filter (fun c => negb (inb c (keys f))) d d' Hd).
  - revert d d' Hd. induction H as [|x l Hx _ IH]; intros d d' Hd; [exact Hd|].
    specialize (Hx t t' d d' Hd).
    destruct (t_point x t d) as [n|], (t_point x t' d') as [n'|]; cbn in Hx; try tauto.
    apply IH; exact Hx.
Qed.

(* ---- finite inputs give finite outputs ---- *)
Definition all_some (d : data) : Prop := Forall (fun kv : chan * option Q => snd kv <> None) d.
Lemma all_some_filter p d : all_some d -> all_some (filter p d).
Proof. induction 1; cbn; [constructor|]. destruct (p x); [constructor; assumption|assumption]. Qed.
Lemma osum_some l : Forall (fun v : option Q => v <> None) l -> forall a, a <> None -> fold_left (omap2 Qplus) l a <> None.
Proof.
  induction 1 as [|x l Hx _ IH]; intros a Ha; cbn; [exact Ha|].
  apply IH. destruct a, x; cbn; congruence.
Qed.
Lemma t_point_all_some : forall T t d out, all_some d -> t_point T t d = Some out -> all_some out.
Proof.
  induction T using trafo_ind'; intros t d out Hd Ho; cbn [t_point] in Ho.
  - injection Ho as <-. exact Hd.
  - injection Ho as <-. induction Hd as [|[k v] l Hv _ IH]; cbn; constructor; auto.
    destruct (lookup k f); cbn in *; auto. destruct v; cbn; congruence.
  - injection Ho as <-. induction Hd as [|[k v] l Hv _ IH]; cbn; constructor; auto.
    destruct (lookup k f); cbn in *; auto. destruct v; cbn; congruence.
  - destruct (length (filter (fun kv => negb (inb (fst kv) i)) d) =? length d)%nat.
    + injection Ho as <-. apply all_some_filter; exact Hd.
    + destruct (subsetb i (keys d)) eqn:Es; [|discriminate]. injection Ho as <-.
      apply Forall_app; split; [|apply all_some_filter, all_some_filter; exact Hd].
      assert (Hv : Forall (fun v : option Q => v <> None)
                     (map (fun c => match lookup c d with Some v => v | None => None end) i)).
      { apply subsetb_sub in Es. apply Forall_forall. intros v Hv. apply in_map_iff in Hv as [c [<- Hc]].
        assert (Hk : inb c (keys d) = true) by (apply Es; apply inb_In; exact Hc).
        destruct (lookup_in_keys c d Hk) as [x Lx]. rewrite Lx.
        apply lookup_In' in Lx. unfold all_some in Hd. rewrite Forall_forall in Hd. exact (Hd _ Lx). }
      generalize (combine o m). intros rws. induction rws as [|[oc row] rws IH]; cbn; constructor; auto.
      cbn. unfold dot, osum. apply osum_some; [|discriminate].
      clear -Hv. revert row. induction Hv as [|x l Hx _ IH]; intros [|r row]; cbn; constructor; auto.
      destruct x; cbn; congruence.
  - injection Ho as <-. apply Forall_app; split; [|apply all_some_filter; exact Hd].
    clear. induction f as [|[k tv] f IH]; cbn; constructor; auto. cbn. discriminate.
  - revert d out Hd Ho. induction H as [|x l Hx _ IH]; intros d out Hd Ho.
    + injection Ho as <-. exact Hd.
    + destruct (t_point x t d) as [n|] eqn:En; [|discriminate].
      exact (IH n out (Hx t d n Hd En) Ho).
Qed.
