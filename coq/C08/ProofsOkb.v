(* C08 — every optimising constructor returns a WELL-FORMED waveform ([okb]) with the channels and the duration of the
   plain composite.  Needed to compose the per-constructor soundness theorems (get_subset_for_channels, recipes).
   [canonb]: the channel list of every SubsetWaveform is duplicate free (a frozenset in the code; mk_subset makes it so). *)
From Coq Require Import List ZArith QArith Qabs Bool Lia Lqa Permutation.
Require Import QV.C08.Model QV.C08.Spec QV.C08.Wf QV.C08.ProofsVec QV.C08.ProofsConst QV.C08.ProofsProper
               QV.C08.ProofsTrafo QV.C08.ProofsCtor QV.C08.ProofsPar QV.C08.ProofsFlat QV.C08.ProofsDen.
Import ListNotations.
Open Scope Q_scope.

Fixpoint nodupb (l : list chan) : bool := match l with [] => true | c :: r => negb (inb c r) && nodupb r end.
Lemma nodupb_NoDup l : nodupb l = true -> NoDup l.
Proof.
  induction l as [|c r IH]; intros H; constructor; apply andb_prop in H as [H1 H2]; auto.
  apply negb_true_iff in H1. intros Hin. apply inb_In in Hin. congruence.
Qed.
Fixpoint canonb (w : wf) : bool :=
  match w with
  | WTable _ _ | WConst _ _ _ | WFunc _ _ _ => true
  | WSeq l | WMulti l => (fix all (l : list wf) := match l with [] => true | x :: r => canonb x && all r end) l
  | WRep b _ => canonb b
  | WTrans i _ | WFunctor i _ | WRev i => canonb i
  | WSubset i cs => nodupb cs && canonb i
  | WArith l _ r => canonb l && canonb r
  end.
Lemma canonb_all_Forall l :
  (fix all (l : list wf) := match l with [] => true | x :: r => canonb x && all r end) l = true -> Forall (fun x => canonb x = true) l.
Proof.
  induction l as [|x r IH]; intros H; constructor.
  - apply andb_prop in H as [H _]; exact H.
  - apply IH. apply andb_prop in H as [_ H]; exact H.
Qed.
Lemma canonb_Forall_all l : Forall (fun x => canonb x = true) l ->
  (fix all (l : list wf) := match l with [] => true | x :: r => canonb x && all r end) l = true.
Proof. induction 1 as [|x r Hx _ IH]; [reflexivity|]. rewrite Hx, IH. reflexivity. Qed.
Lemma okb_Forall_all l : Forall (fun x => okb x = true) l ->
  (fix all (l : list wf) := match l with [] => true | x :: r => okb x && all r end) l = true.
Proof. induction 1 as [|x r Hx _ IH]; [reflexivity|]. rewrite Hx, IH. reflexivity. Qed.

Lemma mk_subset_canon w cs : canonb w = true -> canonb (mk_subset w cs) = true.
Proof.
  intros H. unfold mk_subset. cbn [canonb]. rewrite H, andb_true_r. unfold canon_cs.
  assert (G : forall l, nodupb l = true -> forall x, nodupb (insert_sorted_N x l) = (negb (inb x l) && nodupb l)).
  { induction l as [|y r IH]; intros Hn x; [reflexivity|]. cbn [insert_sorted_N].
    destruct (x <=? y)%N; [reflexivity|]. cbn [nodupb] in *. apply andb_prop in Hn as [H1 H2].
    rewrite inb_insert_sorted, (IH H2), !inb_cons, (N.eqb_sym y x).
    destruct (N.eqb x y), (inb x r), (inb y r), (nodupb r); reflexivity. }
  assert (D : forall l, nodupb (dedup l) = true).
  { induction l as [|c r IH]; [reflexivity|]. cbn [dedup]. destruct (inb c r) eqn:E; [exact IH|].
    cbn [nodupb]. rewrite inb_dedup, E, IH. reflexivity. }
  generalize (dedup cs) (D cs). intros l Hl. induction l as [|c r IH]; [reflexivity|].
  cbn [nodupb] in Hl. apply andb_prop in Hl as [H1 H2]. cbn [sort_N fold_right]. fold (sort_N r).
  rewrite (G _ (IH H2)), inb_sort_N, H1, (IH H2). reflexivity.
Qed.

(* ---- constant_value_dict has no repeated key ---- *)
Lemma NoDup_app' {A} (a b : list A) : NoDup a -> NoDup b -> (forall x, In x a -> ~ In x b) -> NoDup (a ++ b).
Proof.
  induction 1 as [|x a Hx Ha IH]; intros Hb Hd; [exact Hb|]. cbn. constructor.
  - intros Hin. apply in_app_or in Hin as [Hin|Hin]; [contradiction|]. apply (Hd x); cbn; auto.
  - apply IH; auto. intros y Hy. apply Hd. cbn; auto.
Qed.
Lemma overlap_free_seen c : forall l seen, overlap_free l seen = true -> forall x, In x l -> has c x = true -> inb c seen = false.
Proof. intros l seen H. exact (proj1 (overlap_free_unique c l seen H)). Qed.
Lemma overlap_free_tail x r seen : overlap_free (x :: r) seen = true -> overlap_free r (unionb seen (channels x)) = true.
Proof. cbn [overlap_free]. intros H. apply andb_prop in H as [_ H]. exact H. Qed.

Lemma cvd_nodup : forall w d, okb w = true -> canonb w = true -> cvd w = Some d -> NoDup (keys d).
Proof.
  induction w using wf_ind'; intros dd Hok Hcan Hd; try discriminate; cbn [okb canonb] in *.
  - cbn in Hd. injection Hd as <-. cbn. constructor; [intros []|constructor].
  - (* multi *)
    apply andb_prop in Hok as [Hok Hoks]. apply andb_prop in Hok as [_ Hov]. apply okb_all_Forall in Hoks.
    apply canonb_all_Forall in Hcan. cbn [cvd] in Hd. revert dd Hd Hov. generalize (@nil chan) as seen.
    induction H as [|x r Hx _ IH]; intros seen dd Hd Hov.
    + injection Hd as <-. constructor.
    + apply Forall_cons_iff in Hoks as [Ho1 Ho2]. apply Forall_cons_iff in Hcan as [Hc1 Hc2].
      destruct (cvd x) as [a|] eqn:Ea; [|discriminate].
      match type of Hd with match ?g with _ => _ end = _ => destruct g as [b|] eqn:Eb end; [|discriminate].
      injection Hd as <-. unfold keys. rewrite map_app. apply NoDup_app'.
      * exact (Hx a Ho1 Hc1 eq_refl).
      * exact (IH Ho2 Hc2 _ b eq_refl (overlap_free_tail _ _ _ Hov)).
      * (* a key of x's dict is a channel of x, a key of the rest belongs to a later part *)
        intros k Hka Hkb. fold (keys a) in Hka. fold (keys b) in Hkb.
        apply inb_In in Hka. apply inb_In in Hkb.
        assert (Hkx : inb k (channels x) = true).
        { destruct (inb k (channels x)) eqn:E; auto. destruct (cvd_sound x a Ho1 Ea k) as [_ Hout].
          destruct (lookup_in_keys k a Hka) as [g Hg]. rewrite (Hout E) in Hg. discriminate. }
        (* k is a key of the dict of the rest: some later part has k *)
        assert (Hex : exists y, In y r /\ has k y = true).
        { clear -Eb Hkb Ho2. revert b Eb Hkb. induction r as [|y r IHr]; intros b Eb Hkb.
          - injection Eb as <-. discriminate.
          - apply Forall_cons_iff in Ho2 as [Hy Hr].
            destruct (cvd y) as [ay|] eqn:Eay; [|discriminate].
            match type of Eb with match ?g with _ => _ end = _ => destruct g as [br|] eqn:Ebr end; [|discriminate].
            injection Eb as <-. unfold keys in Hkb. rewrite map_app, inb_app in Hkb. apply orb_prop in Hkb as [Hk|Hk].
            + exists y. split; [left; reflexivity|]. unfold has. destruct (inb k (channels y)) eqn:E; auto.
              destruct (cvd_sound y ay Hy Eay k) as [_ Hout]. destruct (lookup_in_keys k ay Hk) as [g Hg].
              rewrite (Hout E) in Hg. discriminate.
            + destruct (IHr Hr br eq_refl Hk) as [z [Hz Hkz]]. exists z. split; [right; exact Hz|exact Hkz]. }
        destruct Hex as [y [Hy Hky]].
        pose proof (overlap_free_seen k r _ (overlap_free_tail _ _ _ Hov) y Hy Hky) as Hs.
        rewrite inb_unionb, Hkx, orb_true_r in Hs. discriminate.
  - apply andb_prop in Hok as [_ Hokb]. cbn [cvd] in Hd. exact (IHw dd Hokb Hcan Hd).
  - apply andb_prop in Hcan as [Hn _]. cbn [cvd] in Hd. destruct (cvd w); [|discriminate]. injection Hd as <-.
    unfold keys. rewrite map_map. cbn. rewrite map_id. exact (nodupb_NoDup _ Hn).
Qed.

(* ---- from_mapping ---- *)
Lemma insert_wf_perm x l : Permutation (insert_wf x l) (x :: l).
Proof.
  induction l as [|y r IH]; [apply Permutation_refl|]. cbn [insert_wf].
  destruct (lex_leb (sort_key y) (sort_key x)); [|apply Permutation_refl].
  eapply Permutation_trans; [apply perm_skip; exact IH|apply perm_swap].
Qed.
Lemma sort_wfs_perm l : Permutation (sort_wfs l) l.
Proof.
  unfold sort_wfs.
  assert (G : forall l acc, Permutation (fold_left (fun a x => insert_wf x a) l acc) (l ++ acc)).
  { induction l0 as [|x r IH]; intros acc; [apply Permutation_refl|]. cbn [fold_left app].
    eapply Permutation_trans; [apply IH|]. eapply Permutation_trans; [apply Permutation_app_head; apply insert_wf_perm|].
    apply Permutation_sym. apply Permutation_middle. }
  rewrite <- (app_nil_r l) at 2. apply G.
Qed.

Lemma overlap_free_consts : forall L seen, Forall is_c1 L -> NoDup (map ch1 L) ->
  (forall z, In z L -> inb (ch1 z) seen = false) -> overlap_free L seen = true.
Proof.
  induction L as [|x r IH]; intros seen Hc Hn Hs; [reflexivity|].
  apply Forall_cons_iff in Hc as [[d [v [k ->]]] Hr]. cbn [map ch1] in Hn. apply NoDup_cons_iff in Hn as [Hk Hn].
  cbn [overlap_free channels]. apply andb_true_intro. split.
  - apply disjointb_spec. intros c Hc. rewrite inb_cons in Hc. cbn in Hc. rewrite orb_false_r in Hc. apply N.eqb_eq in Hc. subst c.
    apply (Hs (WConst d v k)). left; reflexivity.
  - apply IH; auto. intros z Hz. rewrite inb_unionb. apply orb_false_iff. split; [apply Hs; right; exact Hz|].
    rewrite inb_cons. cbn. rewrite orb_false_r. apply N.eqb_neq. intros E. apply Hk. rewrite <- E. apply in_map. exact Hz.
Qed.

Lemma map_ch1_consts dur d : map ch1 (consts_of dur d) = keys d.
Proof. unfold consts_of, keys. rewrite map_map. reflexivity. Qed.

Theorem from_mapping_okb dur d w' : from_mapping dur d = OK w' -> NoDup (keys d) -> 0 < dur ->
  okb w' = true /\ canonb w' = true /\ (forall c, inb c (channels w') = inb c (keys d)) /\ duration w' == dur.
Proof.
  intros H Hn Hpos.
  assert (Hq : Qltb 0 (Qred dur) = true) by (apply Qltb_true; rewrite Qred_correct; exact Hpos).
  unfold from_mapping in H. destruct d as [|[k v0] [|kv2 r]]; [discriminate| |].
  - injection H as <-. cbn. rewrite Hq. repeat split; auto. apply Qred_correct.
  - injection H as <-.
    change (mk_const dur v0 k :: mk_const dur (snd kv2) (fst kv2) :: map (fun kv => mk_const dur (snd kv) (fst kv)) r)
      with (consts_of dur ((k, v0) :: kv2 :: r)).
    set (d := (k, v0) :: kv2 :: r) in *. set (L := sort_wfs (consts_of dur d)).
    pose proof (sort_wfs_perm (consts_of dur d)) as HP. fold L in HP.
    assert (HC : Forall is_c1 L).
    { apply Forall_forall. intros z Hz. apply (Permutation_in _ HP) in Hz.
      pose proof (consts_c1 dur d) as Hc. rewrite Forall_forall in Hc. auto. }
    assert (HD : forall z, In z L -> exists v c, z = WConst (Qred dur) (Qred v) c).
    { intros z Hz. apply (Permutation_in _ HP) in Hz. unfold consts_of in Hz. apply in_map_iff in Hz as [[c v] [<- _]].
      unfold mk_const. eauto. }
    assert (HN : NoDup (map ch1 L)).
    { apply (Permutation_NoDup (l := map ch1 (consts_of dur d))); [apply Permutation_map, Permutation_sym; exact HP|].
      rewrite map_ch1_consts. exact Hn. }
    assert (Hne : L <> []).
    { intros E. rewrite E in HP. apply Permutation_nil in HP. discriminate. }
    split; [|split; [|split]].
    + cbn [okb]. destruct L as [|x1 r1] eqn:EL; [congruence|].
      apply andb_true_intro. split; [apply andb_true_intro; split|].
      * destruct (HD x1) as [v1 [c1 ->]]; [left; reflexivity|]. apply forallb_forall. intros y Hy.
        destruct (HD y) as [vy [cy ->]]; [right; exact Hy|]. cbn. apply Qeq_bool_iff. reflexivity.
      * apply overlap_free_consts; auto.
      * refine (okb_Forall_all (x1 :: r1) _). apply Forall_forall. intros z Hz. destruct (HD z Hz) as [vz [cz ->]]. cbn. exact Hq.
    + cbn [canonb]. apply canonb_Forall_all. apply Forall_forall. intros z Hz. destruct (HD z Hz) as [vz [cz ->]]. reflexivity.
    + intros c. change (inb c (channels (WMulti L))) with (has c (WMulti L)). rewrite has_multi.
      destruct (inb c (keys d)) eqn:E.
      * apply existsb_exists. destruct (lookup_in_keys c d E) as [v Lv].
        exists (mk_const dur v c). split.
        -- apply (Permutation_in _ (Permutation_sym HP)). unfold consts_of. apply in_map_iff. exists (c, v). split; [reflexivity|].
           apply lookup_In. exact Lv.
        -- unfold has. cbn. rewrite N.eqb_refl. reflexivity.
      * destruct (existsb (has c) L) eqn:Ex; [|reflexivity]. apply existsb_exists in Ex as [z [Hz Hcz]].
        apply (Permutation_in _ HP) in Hz. unfold consts_of in Hz. apply in_map_iff in Hz as [[c' v] [<- Hin]].
        unfold has in Hcz. cbn in Hcz. rewrite orb_false_r in Hcz. apply N.eqb_eq in Hcz. subst c'.
        assert (inb c (keys d) = true) by (apply inb_In; unfold keys; apply in_map_iff; exists (c, v); auto). congruence.
    + cbn [duration]. destruct L as [|x1 r1] eqn:EL; [congruence|].
      destruct (HD x1) as [v1 [c1 ->]]; [left; reflexivity|]. cbn. apply Qred_correct.
Qed.

(* ---- small facts ---- *)
Lemma set_eqb_intro a b : (forall c, inb c a = inb c b) -> set_eqb a b = true.
Proof.
  intros H. unfold set_eqb. apply andb_true_intro. split; apply subsetb_sub; intros c Hc; [rewrite <- H|rewrite H]; exact Hc.
Qed.
Lemma inb_keys_lookup' {A} c (f : list (chan * A)) : inb c (keys f) = match lookup c f with Some _ => true | None => false end.
Proof.
  destruct (inb c (keys f)) eqn:E.
  - destruct (lookup_in_keys c f E) as [g ->]. reflexivity.
  - rewrite (lookup_not_in_keys c f E). reflexivity.
Qed.
Lemma cvd_keys w d : okb w = true -> cvd w = Some d -> forall c, inb c (keys d) = inb c (channels w).
Proof.
  intros Hok Hd c. rewrite inb_keys_lookup'. destruct (cvd_sound w d Hok Hd c) as [Hin Hout].
  destruct (inb c (channels w)) eqn:E.
  - destruct (Hin eq_refl) as [L Hne]. rewrite L. destruct (cv w c); [reflexivity|congruence].
  - rewrite (Hout eq_refl). reflexivity.
Qed.
Lemma cvd_nonempty : forall w d, okb w = true -> cvd w = Some d -> d <> [].
Proof.
  induction w using wf_ind'; intros dd Hok Hd; try discriminate; cbn [okb cvd] in *.
  - injection Hd as <-. discriminate.
  - apply andb_prop in Hok as [Hok Hoks]. apply okb_all_Forall in Hoks.
    destruct l as [|x r]; [apply andb_prop in Hok as [Hok _]; discriminate|].
    apply Forall_cons_iff in H as [Hx _]. apply Forall_cons_iff in Hoks as [Ho1 _].
    destruct (cvd x) as [a|] eqn:Ea; [|discriminate].
    match type of Hd with match ?g with _ => _ end = _ => destruct g as [b|] end; [|discriminate].
    injection Hd as <-. specialize (Hx a Ho1 eq_refl). destruct a; [congruence|discriminate].
  - apply andb_prop in Hok as [_ Hokb]. eauto.
  - apply andb_prop in Hok as [_ Hne]. destruct (cvd w); [|discriminate]. injection Hd as <-.
    destruct cs; [discriminate|discriminate].
Qed.

Definition good (w : wf) : Prop := okb w = true /\ canonb w = true.

(* ---- from_repetition_count ---- *)
Theorem from_repetition_count_okb b n w' : good b -> (1 <= n)%Z -> from_repetition_count b n = OK w' ->
  good w' /\ (forall c, inb c (channels w') = inb c (channels b)) /\ duration w' == duration b * inject_Z n.
Proof.
  intros [Hok Hcan] Hn H. unfold from_repetition_count in H. destruct (cvd b) as [d|] eqn:Ed.
  - assert (Hpos : 0 < duration b * inject_Z n).
    { pose proof (okb_pos b Hok). assert (0 < inject_Z n) by (unfold Qlt; cbn; lia). nra. }
    destruct (from_mapping_okb _ d w' H (cvd_nodup b d Hok Hcan Ed) Hpos) as [A [B [C D]]].
    split; [split; assumption|]. split; [|exact D]. intros c. rewrite C. apply cvd_keys; assumption.
  - unfold mk_rep in H. destruct (n <? 1)%Z eqn:E; [discriminate|]. injection H as <-.
    split; [split; cbn [okb canonb]; auto|split; [reflexivity|reflexivity]].
    rewrite Hok, andb_true_r. apply Z.leb_le. exact Hn.
Qed.

(* ---- from_functor ---- *)
Lemma keys_canon_kv {A} (f : list (chan * A)) c : inb c (keys (canon_kv f)) = inb c (keys f).
Proof. rewrite !inb_keys_lookup', lookup_canon_kv. reflexivity. Qed.
Theorem from_functor_okb i f w' : good i -> set_eqb (keys f) (channels i) = true -> from_functor i f = OK w' ->
  good w' /\ (forall c, inb c (channels w') = inb c (channels i)) /\ duration w' == duration i.
Proof.
  intros [Hok Hcan] Hk H. unfold from_functor in H. destruct (cvd i) as [d|] eqn:Ed.
  - destruct (forallb (fun kv => inb (fst kv) (keys f)) d); [|discriminate].
    set (d' := map (fun kv : chan * Q => (fst kv, match lookup (fst kv) f with Some g => functor_at g (snd kv) | None => 0 end)) d) in *.
    assert (Hkeys : keys d' = keys d) by (unfold d', keys; rewrite map_map; reflexivity).
    assert (Hn : NoDup (keys d')) by (rewrite Hkeys; exact (cvd_nodup i d Hok Hcan Ed)).
    destruct (from_mapping_okb _ d' w' H Hn (okb_pos i Hok)) as [A [B [C D]]].
    split; [split; assumption|]. split; [|exact D]. intros c. rewrite C, Hkeys. apply cvd_keys; assumption.
  - unfold mk_functor in H. rewrite Hk in H. injection H as <-.
    split; [split; cbn [okb canonb]; auto|split; [reflexivity|reflexivity]].
    rewrite Hok. cbn [andb]. apply set_eqb_intro. intros c. rewrite keys_canon_kv. apply set_eqb_inb. exact Hk.
Qed.

(* ---- from_to_reverse ---- *)
Lemma from_to_reverse_okb w : good w -> good (from_to_reverse w) /\ channels (from_to_reverse w) = channels w /\
  duration (from_to_reverse w) = duration w.
Proof.
  intros [Hok Hcan]. unfold from_to_reverse. destruct (cvd w) as [[|kv d]|]; repeat split; auto.
Qed.

(* ---- from_sequence ---- *)
Lemma sum_dur_sumd l : sum_dur l = sumd l.
Proof. induction l as [|x r IH]; [reflexivity|]. cbn [sum_dur fold_right sumd]. fold (sum_dur r). rewrite IH. reflexivity. Qed.
Lemma sumd_app' a b : sumd (a ++ b) == sumd a + sumd b.
Proof. induction a as [|x a IH]; cbn [app sumd]; [lra|]. rewrite IH. lra. Qed.
Lemma sumd_flatseq l : sumd (flatseq l) == sumd l.
Proof.
  induction l as [|x r IH]; [reflexivity|].
  change (flatseq (x :: r)) with ((match is_seq x with Some s => s | None => [x] end) ++ flatseq r).
  rewrite sumd_app', IH. cbn [sumd]. destruct x; cbn [is_seq sumd]; try lra. rewrite duration_seq. lra.
Qed.

Lemma In_flatseq y l : In y (flatseq l) -> exists x, In x l /\ (x = y \/ exists s, x = WSeq s /\ In y s).
Proof.
  unfold flatseq. intros H. apply in_flat_map in H as [x [Hx Hy]]. exists x. split; [exact Hx|].
  destruct x; cbn [is_seq] in Hy; try (destruct Hy as [<-|[]]; auto). right. eauto.
Qed.

Theorem from_sequence_okb l w' : okb (WSeq l) = true -> Forall (fun x => canonb x = true) l -> from_sequence l = OK w' ->
  good w' /\ (forall c, inb c (channels w') = inb c (channels (WSeq l))) /\ duration w' == sumd l.
Proof.
  intros Hok Hcan H. pose proof Hok as Hok'. cbn [okb] in Hok'. apply andb_prop in Hok' as [Hchs Hoks]. apply okb_all_Forall in Hoks.
  unfold from_sequence in H. destruct l as [|x [|y r]]; [discriminate| |].
  - injection H as <-. apply Forall_cons_iff in Hoks as [Hx _]. apply Forall_cons_iff in Hcan as [Hc _].
    split; [split; assumption|]. split; [reflexivity|]. cbn [sumd]. lra.
  - change (fold_left (fun acc w => match acc with
                                    | Some d => match cvd w with
                                                | Some d' => if dict_eqb d d' then acc else None
                                                | None => None end
                                    | None => None end) (x :: y :: r) (cvd x))
      with (fold_left cvs_step (x :: y :: r) (cvd x)) in H.
    change (flat_map (fun w => match is_seq w with Some s => s | None => [w] end) (x :: y :: r)) with (flatseq (x :: y :: r)) in H.
    set (l := x :: y :: r) in *.
    assert (Hx : okb x = true) by (apply Forall_cons_iff in Hoks as [A _]; exact A).
    assert (Hcx : canonb x = true) by (apply Forall_cons_iff in Hcan as [A _]; exact A).
    assert (Hpos : 0 < sumd l).
    { apply sumd_pos; [discriminate|]. eapply Forall_impl; [|exact Hoks]. intros z Hz. apply okb_pos; exact Hz. }
    destruct (fold_left cvs_step l (cvd x)) as [d|] eqn:Ef.
    + (* folded *)
      destruct (cvd x) as [dx|] eqn:Edx; [|rewrite cvs_fold_none in Ef; discriminate].
      apply cvs_fold_some in Ef as [-> _].
      assert (Hp : 0 < sum_dur (flatseq l)) by (rewrite sum_dur_sumd, sumd_flatseq; exact Hpos).
      destruct (from_mapping_okb _ dx w' H (cvd_nodup x dx Hx Hcx Edx) Hp) as [A [B [C D]]].
      split; [split; assumption|]. split.
      * intros c. rewrite C. cbn [channels]. apply cvd_keys; assumption.
      * rewrite D, sum_dur_sumd. apply sumd_flatseq.
    + (* flattened *)
      unfold mk_seq in H. destruct (flatseq l) as [|f1 fr] eqn:Efl; [discriminate|].
      destruct (forallb (fun y0 => set_eqb (channels y0) (channels f1)) fr) eqn:Echk; [|discriminate]. injection H as <-.
      assert (Hel : forall z, In z (f1 :: fr) -> okb z = true /\ canonb z = true).
      { intros z Hz. rewrite <- Efl in Hz. destruct (In_flatseq z l Hz) as [x0 [Hx0 [->|[s [-> Hzs]]]]].
        - rewrite Forall_forall in Hoks, Hcan. auto.
        - rewrite Forall_forall in Hoks, Hcan. pose proof (Hoks _ Hx0) as A. pose proof (Hcan _ Hx0) as B.
          cbn [okb canonb] in A, B. apply andb_prop in A as [_ A]. apply okb_all_Forall in A. apply canonb_all_Forall in B.
          rewrite Forall_forall in A, B. auto. }
      split; [split|split].
      * cbn [okb]. rewrite Echk. cbn [andb]. refine (okb_Forall_all (f1 :: fr) _). apply Forall_forall. intros z Hz. apply Hel; exact Hz.
      * cbn [canonb]. refine (canonb_Forall_all (f1 :: fr) _). apply Forall_forall. intros z Hz. apply Hel; exact Hz.
      * (* the first flattened part is x, or the first part of x *)
        intros c. cbn [channels]. unfold l, flatseq in Efl. cbn [flat_map] in Efl.
        destruct x; cbn [is_seq app] in Efl; try (injection Efl as <- _; reflexivity).
        cbn [okb] in Hx. destruct l0 as [|s0 sr]; [discriminate|]. cbn [app] in Efl. injection Efl as <- _. reflexivity.
      * rewrite duration_seq, <- Efl. apply sumd_flatseq.
Qed.

(* ---- MultiChannelWaveform / from_parallel ---- *)
Theorem mk_multi_okb L w' : mk_multi L = OK w' -> Forall good L ->
  (forall x y, In x L -> In y L -> duration x == duration y) ->
  good w' /\ (forall c, inb c (channels w') = existsb (has c) L) /\ (forall x, In x L -> duration w' == duration x) /\
  exists S, w' = WMulti S /\ Permutation S L /\ overlap_free S [] = true.
Proof.
  intros H Hg Hd. unfold mk_multi in H. pose proof (sort_wfs_perm L) as HP.
  destruct (sort_wfs L) as [|x1 r1] eqn:ES; [discriminate|].
  destruct (negb (overlap_free (x1 :: r1) [])) eqn:Ov; [discriminate|]. apply negb_false_iff in Ov.
  destruct (forallb (fun y => isclose (duration y) (duration x1)) r1); [|discriminate]. injection H as <-.
  assert (HinS : forall z, In z (x1 :: r1) -> In z L) by (intros z Hz; exact (Permutation_in _ HP Hz)).
  rewrite Forall_forall in Hg.
  split; [split|split; [|split]].
  - cbn [okb]. rewrite Ov. apply andb_true_intro. split; [apply andb_true_intro; split; [|reflexivity]|].
    + apply forallb_forall. intros y Hy. apply Qeq_bool_iff. apply Hd; apply HinS; [right; exact Hy|left; reflexivity].
    + refine (okb_Forall_all (x1 :: r1) _). apply Forall_forall. intros z Hz. apply (Hg z (HinS z Hz)).
  - cbn [canonb]. refine (canonb_Forall_all (x1 :: r1) _). apply Forall_forall. intros z Hz. apply (Hg z (HinS z Hz)).
  - intros c. change (inb c (channels (WMulti (x1 :: r1)))) with (has c (WMulti (x1 :: r1))). rewrite has_multi.
    destruct (existsb (has c) L) eqn:E.
    + apply existsb_exists in E as [z [Hz Hc]]. apply existsb_exists. exists z. split; [|exact Hc].
      exact (Permutation_in _ (Permutation_sym HP) Hz).
    + destruct (existsb (has c) (x1 :: r1)) eqn:E2; [|reflexivity]. apply existsb_exists in E2 as [z [Hz Hc]].
      assert (existsb (has c) L = true) by (apply existsb_exists; exists z; split; [apply HinS; exact Hz|exact Hc]). congruence.
  - intros x Hx. cbn [duration]. apply Hd; [apply HinS; left; reflexivity|exact Hx].
  - exists (x1 :: r1). auto.
Qed.
