(* C08 — property theorems (statements only; proofs live in Proofs*.v).  See notes/C08.md for the status of each. *)
From Coq Require Import List ZArith QArith Qabs Bool.
Require Import QV.C08.Model QV.C08.Spec QV.C08.Wf QV.C08.Proofs QV.C08.ProofsVec QV.C08.ProofsRev QV.C08.ProofsConst.
Import ListNotations.
Open Scope Q_scope.

(* ---- sampling is pointwise: the vectorised sampler equals the pointwise meaning on every sorted grid ---- *)
Theorem C08_pointwise : forall w c ts, sortedb ts = true -> sample_vec w c ts = map (sample w c) ts.
Proof. exact sample_vec_pointwise. Qed.
Print Assumptions C08_pointwise.

Theorem C08_independent_of_other_times : forall w c ts1 ts2 t i j,
  sortedb ts1 = true -> sortedb ts2 = true -> nth_error ts1 i = Some t -> nth_error ts2 j = Some t ->
  nth_error (sample_vec w c ts1) i = nth_error (sample_vec w c ts2) j.
Proof. exact sample_vec_independent. Qed.
Print Assumptions C08_independent_of_other_times.

Theorem C08_get_sampled_pointwise : forall w c ts vals, get_sampled w c ts = OK vals -> vals = map (gs w c) ts.
Proof. exact get_sampled_pointwise. Qed.
Print Assumptions C08_get_sampled_pointwise.

(* ---- a reported constant value is the sampled value ---- *)
Definition C08_constant_statement : Prop :=
  forall w, okb w = true -> forall c v t, inb c (channels w) = true -> cv w c = Some v -> 0 <= t -> t <= duration w ->
  exists v', sample w c t = Some v' /\ v' == v.
(* proved: all waveforms without a TransformingWaveform node, t in [0, duration) *)
Theorem C08_constant_partial : forall w, okb w = true -> no_trans w = true -> forall c v t,
  inb c (channels w) = true -> cv w c = Some v -> 0 <= t -> t < duration w ->
  exists v', sample w c t = Some v' /\ v' == v.
Proof. exact cv_sound_no_trans. Qed.
Print Assumptions C08_constant_partial.
(* the full statement fails at t = duration on the unchanged code: unsafe_sample of a plain sequence of equal constants *)
Theorem C08_constant_refuted_at_duration :
  exists w c t v, okb w = true /\ cv w c = Some v /\ Qeq_bool t (duration w) = true /\ sample w c t = None /\ gs w c t = Some v.
Proof. exact constant_vs_unsafe_at_duration. Qed.
Print Assumptions C08_constant_refuted_at_duration.

(* ---- equality ---- *)
Theorem C08_eq : forall a b, wf_eqb a b = true ->
  channels a = channels b /\ duration a = duration b /\
  (forall c, cv a c = cv b c) /\ (forall c t, sample a c t = sample b c t) /\
  (forall c ts, get_sampled a c ts = get_sampled b c ts) /\ (forall (H : Type) (hash : wf -> H), hash a = hash b).
Proof. exact eq_same_behaviour. Qed.
Print Assumptions C08_eq.

(* ---- reversal ---- *)
Theorem C08_reverse_plain : forall w c t, sample (WRev w) c t = sample w c (duration w - t).
Proof. exact rev_plain_mirror. Qed.
Print Assumptions C08_reverse_plain.

Definition C08_reverse_statement : Prop :=
  forall w c t, oQeq (sample (reversed w) c t) (sample w c (duration w - t)).
Theorem C08_reverse_partial : forall w c t, is_rev w = false -> sample (reversed w) c t = sample w c (duration w - t).
Proof. exact reversed_mirror_partial. Qed.
Print Assumptions C08_reverse_partial.

Definition C08_involution_statement : Prop :=
  forall w c t, oQeq (sample (reversed (reversed w)) c t) (sample w c t).
Theorem C08_involution_partial : forall w c t, is_rev_rev w = false -> sample (reversed (reversed w)) c t = sample w c t.
Proof. exact reversed_involution_partial. Qed.
Print Assumptions C08_involution_partial.

(* ---- totality: refuted on the unchanged code (known findings C08-nan-at-duration, C08-reversed-composite-junction) ---- *)
Definition C08_total_statement : Prop :=
  forall w c t, okb w = true -> inb c (channels w) = true -> 0 <= t -> t <= duration w -> exists v, gs w c t = Some v.
Theorem C08_total_refuted :
  exists w c t, okb w = true /\ inb c (channels w) = true /\ Qle_bool 0 t = true /\ Qle_bool t (duration w) = true
                /\ gs w c t = None /\ get_sampled w c [t] = OK [None].
Proof. exact total_refuted_at_duration. Qed.
Print Assumptions C08_total_refuted.
Theorem C08_total_reversed_refuted :
  exists w c t, okb w = true /\ inb c (channels w) = true /\ Qeq_bool t 0 = true /\ Qltb t (duration w) = true
                /\ gs w c t = None /\ get_sampled w c [t] = OK [None].
Proof. exact total_refuted_reversed_at_zero. Qed.
Print Assumptions C08_total_reversed_refuted.
Theorem C08_reversed_junction_refuted :
  exists w c t, okb w = true /\ inb c (channels w) = true /\ Qltb 0 t = true /\ Qltb t (duration w) = true
                /\ oQeqb (gs (WRev w) c t) (Some 5) = true /\ oQeqb (den (WRev w) c t) (Some 2) = true
                /\ oQeqb (gs (WRev w) c t) (den (WRev w) c t) = false.
Proof. exact reversed_junction_refuted. Qed.
Print Assumptions C08_reversed_junction_refuted.
