(* C08 — property theorems (statements only; proofs live in Proofs*.v).  See notes/C08.md for the status of each. *)
From Coq Require Import List ZArith QArith Qabs Bool.
Require Import QV.C08.Model QV.C08.Spec QV.C08.Wf QV.C08.Proofs QV.C08.ProofsVec QV.C08.ProofsRev QV.C08.ProofsConst QV.C08.ProofsTotal QV.C08.ProofsProper QV.C08.ProofsCtor QV.C08.Hist QV.C08.ProofsHist QV.C08.ProofsTrafo QV.C08.ProofsConstT QV.C08.ProofsTotalT QV.C08.ProofsTable QV.C08.ProofsPar QV.C08.ProofsOp QV.C08.ProofsFlat QV.C08.ProofsDen QV.C08.ProofsSimple QV.C08.ProofsHistT QV.C08.Lin QV.C08.ProofsLin QV.C08.ProofsLinDen QV.C08.ProofsDedup QV.C08.ProofsLinHist QV.C08.ProofsR2 QV.C08.ProofsMirror QV.C08.ProofsOkb QV.C08.ProofsSubset QV.C08.ProofsRecipe QV.C08.ProofsRecipeT QV.C08.ProofsRecipeR QV.C08.ProofsMirrorT QV.C08.ProofsTg QV.C08.ProofsSubsetK QV.C08.ProofsRecipeG QV.C08.ProofsExcl QV.C08.Guards QV.C08.ProofsConstClosed QV.C08.ProofsTotalJ.
Import ListNotations.
Open Scope Q_scope.

(* ---- sampling is pointwise: the vectorised sampler equals the pointwise meaning on every sorted grid ---- *)
Theorem C08_pointwise : forall w c ts, sortedb ts = true -> sample_vec w c ts = map (sample w c) ts.
Proof. exact sample_vec_pointwise. Qed.
Print Assumptions C08_pointwise.

Theorem C08_independent_of_other_times : forall w c ts1 ts2 t i j,
  sortedb ts1 = true -> sortedb ts2 = true -> nth_error ts1 i = Some t -> nth_error ts2 j = Some t ->
  nth_error (sample_vec w c ts1) i = nth_error (sample_vec w c ts2) j.
Proof. exact sample_vec_independent. Qed.
Print Assumptions C08_independent_of_other_times.

Theorem C08_get_sampled_pointwise : forall w c ts vals, get_sampled w c ts = OK vals -> vals = map (gs w c) ts.
Proof. exact get_sampled_pointwise. Qed.
Print Assumptions C08_get_sampled_pointwise.

(* ---- a reported constant value is the sampled value ---- *)
Definition C08_constant_statement : Prop :=
  forall w, okb w = true -> forall c v t, inb c (channels w) = true -> cv w c = Some v -> 0 <= t -> t <= duration w ->
  exists v', sample w c t = Some v' /\ v' == v.
(* proved for ALL waveform classes on [0, duration) (guard_C08_nan_at_duration: t < duration) *)
Theorem C08_constant : forall w, okb w = true -> forall c v t,
  inb c (channels w) = true -> cv w c = Some v -> 0 <= t -> t < duration w ->
  exists v', sample w c t = Some v' /\ v' == v.
Proof. exact cv_sound. Qed.
Print Assumptions C08_constant.
(* round 5: the guard [t < duration] excludes t = duration for EVERY class, the refuted class is sequence / repetition only:
   without sequence / repetition nodes ([closedT]) the clause holds on the closed interval *)
Theorem C08_constant_closed : forall w, okb w = true -> closedT w = true -> forall c v t,
  inb c (channels w) = true -> cv w c = Some v -> 0 <= t -> t <= duration w ->
  exists v', sample w c t = Some v' /\ v' == v.
Proof. exact cv_sound_closed. Qed.
Print Assumptions C08_constant_closed.
(* the full statement fails at t = duration on the unchanged code: unsafe_sample of a plain sequence of equal constants *)
Theorem C08_constant_refuted_at_duration :
  exists w c t v, okb w = true /\ cv w c = Some v /\ Qeq_bool t (duration w) = true /\ sample w c t = None /\ gs w c t = Some v.
Proof. exact constant_vs_unsafe_at_duration. Qed.
Print Assumptions C08_constant_refuted_at_duration.

(* ---- equality ---- *)
Theorem C08_eq : forall a b, wf_eqb a b = true ->
  channels a = channels b /\ duration a = duration b /\
  (forall c, cv a c = cv b c) /\ (forall c t, sample a c t = sample b c t) /\
  (forall c ts, get_sampled a c ts = get_sampled b c ts) /\ (forall (H : Type) (hash : wf -> H), hash a = hash b).
Proof. exact eq_same_behaviour. Qed.
Print Assumptions C08_eq.

(* ---- reversal ---- *)
Theorem C08_reverse_plain : forall w c t, sample (WRev w) c t = sample w c (duration w - t).
Proof. exact rev_plain_mirror. Qed.
Print Assumptions C08_reverse_plain.

(* w.reversed(): constants are their own reverse, a ReversedWaveform gives its inner waveform back, anything else is wrapped *)
Theorem C08_reverse : forall w c t, oQeq (sample (reversed w) c t) (sample w c (duration w - t)).
Proof. exact reversed_mirror. Qed.
Print Assumptions C08_reverse.

Theorem C08_involution : forall w c t, oQeq (sample (reversed (reversed w)) c t) (sample w c t).
Proof. exact reversed_involution. Qed.
Print Assumptions C08_involution.

Theorem C08_reversed_keeps_duration_channels : forall w, duration (reversed w) = duration w /\ channels (reversed w) = channels w.
Proof. intros w. split; [apply reversed_duration|apply reversed_channels]. Qed.
Print Assumptions C08_reversed_keeps_duration_channels.

(* the pointwise meaning does not depend on the representation of the time *)
Theorem C08_sample_proper : forall w c t t', t == t' -> oQeq (sample w c t) (sample w c t').
Proof. exact sample_proper. Qed.
Print Assumptions C08_sample_proper.

(* ---- totality: refuted on the unchanged code (known findings C08-nan-at-duration, C08-reversed-composite-junction) ---- *)
Definition C08_total_statement : Prop :=
  forall w c t, okb w = true -> inb c (channels w) = true -> 0 <= t -> t <= duration w -> exists v, gs w c t = Some v.
Theorem C08_total_refuted :
  exists w c t, okb w = true /\ inb c (channels w) = true /\ Qle_bool 0 t = true /\ Qle_bool t (duration w) = true
                /\ gs w c t = None /\ get_sampled w c [t] = OK [None].
Proof. exact total_refuted_at_duration. Qed.
Print Assumptions C08_total_refuted.
Theorem C08_total_reversed_refuted :
  exists w c t, okb w = true /\ inb c (channels w) = true /\ Qeq_bool t 0 = true /\ Qltb t (duration w) = true
                /\ gs w c t = None /\ get_sampled w c [t] = OK [None].
Proof. exact total_refuted_reversed_at_zero. Qed.
Print Assumptions C08_total_reversed_refuted.
Theorem C08_reversed_junction_refuted :
  exists w c t, okb w = true /\ inb c (channels w) = true /\ Qltb 0 t = true /\ Qltb t (duration w) = true
                /\ oQeqb (gs (WRev w) c t) (Some 5) = true /\ oQeqb (den (WRev w) c t) (Some 2) = true
                /\ oQeqb (gs (WRev w) c t) (den (WRev w) c t) = false.
Proof. exact reversed_junction_refuted. Qed.
Print Assumptions C08_reversed_junction_refuted.

(* ---- totality for all waveform classes under the executable guards that exclude exactly the refuted classes ---- *)
(* guards: [rightopenT] (reversal only around sequence/repetition-free waveforms) + t < duration
   (C08-nan-at-duration, C08-reversed-composite-junction), [kerr w c = false] (C08-chain-parallel-linear-keyerror) *)
Theorem C08_total_guarded : forall w, okb w = true -> rightopenT w = true -> forall c t,
  inb c (channels w) = true -> kerr w c = false -> 0 <= t -> t < duration w -> exists v, sample w c t = Some v.
Proof. exact total_rightopen_T. Qed.
Print Assumptions C08_total_guarded.
(* without sequence / repetition nodes the closed interval is covered *)
Theorem C08_total_closed : forall w, okb w = true -> closedT w = true -> forall c t,
  inb c (channels w) = true -> kerr w c = false -> 0 <= t -> t <= duration w -> exists v, sample w c t = Some v.
Proof. exact total_closed_T. Qed.
Print Assumptions C08_total_closed.
(* round 6: totality OFF THE JUNCTIONS, reversal around sequences / repetitions included.  The guard is [badT] (Guards.v): the
   executable guard of C08_denotation_any_reversal_T and of Corr.v [excused] (which points of a rejected observation belong
   to the known finding C08-reversed-composite-junction), instead of [rightopenT], which forbids a reversal around a
   sequence / repetition at ALL times.  C08_total_guarded is the special case (C08_total_guard_subsumed). *)
Theorem C08_total_off_junctions : forall w, okb w = true -> forall c t,
  inb c (channels w) = true -> kerr w c = false -> 0 <= t -> t < duration w -> badT false w c t = false ->
  exists v, sample w c t = Some v.
Proof. exact total_off_junctions_T. Qed.
Print Assumptions C08_total_off_junctions.
Theorem C08_total_guard_subsumed : forall w, rightopenT w = true -> forall c t, badT false w c t = false.
Proof. exact rightopenT_badT. Qed.
Print Assumptions C08_total_guard_subsumed.
Theorem C08_total_keyerror_refuted :
  exists w c t, okb w = true /\ closedT w = true /\ inb c (channels w) = true /\ kerr w c = true /\
                get_sampled w c [t] = Err EKey.
Proof. exact total_keyerror_refuted_ex. Qed.
Print Assumptions C08_total_keyerror_refuted.

(* ---- optimising constructors: the constant-folding branch samples like the plain composite (on [0, duration)) ---- *)
(* ConstantWaveform.from_mapping: one constant per binding (sorted multi-channel waveform): every bound channel is answered
   with its (reduced) value *)
Theorem C08_from_mapping : forall dur d w', from_mapping dur d = OK w' -> forall c v t,
  lookup c d = Some v -> sample w' c t = Some (Qred v).
Proof. exact from_mapping_sample. Qed.
Print Assumptions C08_from_mapping.

(* constant_value_dict agrees with constant_value on the defined channels and binds nothing else *)
Theorem C08_constant_dict : forall w d, okb w = true -> cvd w = Some d -> forall c,
  (inb c (channels w) = true -> lookup c d = cv w c /\ cv w c <> None) /\
  (inb c (channels w) = false -> lookup c d = None).
Proof. exact cvd_sound. Qed.
Print Assumptions C08_constant_dict.

Theorem C08_from_repetition_count : forall b n w', okb b = true -> (1 <= n)%Z ->
  from_repetition_count b n = OK w' -> forall c t,
  inb c (channels b) = true -> 0 <= t -> t < duration (WRep b n) ->
  oQeq (sample w' c t) (sample (WRep b n) c t).
Proof. exact from_repetition_count_sound. Qed.
Print Assumptions C08_from_repetition_count.

Theorem C08_from_functor : forall i f w', okb i = true -> set_eqb (keys f) (channels i) = true ->
  from_functor i f = OK w' -> forall c t,
  inb c (channels i) = true -> 0 <= t -> t < duration i ->
  oQeq (sample w' c t) (sample (WFunctor i f) c t).
Proof. exact from_functor_sound. Qed.
Print Assumptions C08_from_functor.

Theorem C08_from_to_reverse : forall w, okb w = true -> forall c t,
  inb c (channels w) = true -> 0 < t -> t < duration w ->
  oQeq (sample (from_to_reverse w) c t) (sample (WRev w) c t).
Proof. exact from_to_reverse_sound. Qed.
Print Assumptions C08_from_to_reverse.

(* from_sequence in general (single part / constant folding / flattening of nested sequences) *)
Theorem C08_from_sequence : forall l w', okb (WSeq l) = true -> from_sequence l = OK w' -> forall c t,
  inb c (channels (WSeq l)) = true -> 0 <= t -> t < duration (WSeq l) ->
  oQeq (sample w' c t) (sample (WSeq l) c t).
Proof. exact from_sequence_sound. Qed.
Print Assumptions C08_from_sequence.
Theorem C08_duration_positive : forall w, okb w = true -> 0 < duration w.
Proof. exact okb_pos. Qed.
Print Assumptions C08_duration_positive.
(* from_sequence: the constant-folding branch (all parts report dict-equal constants) ... *)
Theorem C08_from_sequence_const : forall l d w', okb (WSeq l) = true ->
  fold_left cvs_step l (match l with x :: _ => cvd x | [] => None end) = Some d ->
  from_sequence l = OK w' -> forall c t,
  inb c (channels (WSeq l)) = true -> 0 <= t -> t < duration (WSeq l) ->
  oQeq (sample w' c t) (sample (WSeq l) c t).
Proof. exact from_sequence_const_sound. Qed.
Print Assumptions C08_from_sequence_const.
(* ... and without folding and without nested sequences it IS the plain constructor (from_transformation and from_table
   de-duplication: not proved, see notes) *)
Theorem C08_from_sequence_plain : forall l, (2 <= length l)%nat ->
  Forall (fun w => is_seq w = None) l ->
  fold_left cvs_step l (match l with x :: _ => cvd x | [] => None end) = None ->
  from_sequence l = mk_seq l.
Proof. exact from_sequence_plain. Qed.
Print Assumptions C08_from_sequence_plain.
(* from_table: what _validate_input reports as constant IS constant on the whole closed interval (the repaired defect
   01efa2c violated exactly this), so the ConstantWaveform samples like the plain table; de-duplication: not proved *)
Theorem C08_table_const_detection : forall tab d v, validate_input tab = OK (inl (d, v)) ->
  table_valid tab = true /\ d = last_t tab /\
  forall t, 0 <= t -> t <= d -> exists v', table_at tab t None = Some v' /\ v' == v.
Proof. exact validate_const_sound. Qed.
Print Assumptions C08_table_const_detection.
Theorem C08_from_table_const : forall c tab d v, validate_input tab = OK (inl (d, v)) ->
  from_table c tab = OK (mk_const d v c) /\
  forall t, 0 <= t -> t <= last_t tab -> oQeq (sample (mk_const d v c) c t) (sample (WTable c tab) c t).
Proof. exact from_table_const_sound. Qed.
Print Assumptions C08_from_table_const.

Theorem C08_from_table_dedup_refuted :
  exists c tab w, from_table c tab = OK w /\ table_valid tab = true /\ zdiv (WTable c tab) c = false /\
    oQeqb (sample w c (last_t tab)) (Some 1) = true /\ oQeqb (sample (WTable c tab) c (last_t tab)) (Some 2) = true.
Proof. exact from_table_dedup_refuted. Qed.
Print Assumptions C08_from_table_dedup_refuted.

(* from_parallel (flatten nested multi-channel waveforms + sort) samples like MultiChannelWaveform of the same parts *)
Theorem C08_from_parallel : forall l w w', (2 <= length l)%nat ->
  from_parallel l = OK w' -> mk_multi l = OK w ->
  Forall (fun x => match is_multi x with Some s => overlap_free s [] = true | None => True end) l ->
  forall c t, sample w' c t = sample w c t.
Proof. exact from_parallel_sound. Qed.
Print Assumptions C08_from_parallel.

(* from_operator: constant folding of both sides (the rhs dict has no repeated channel: always so for a Python dict) *)
Theorem C08_from_operator_const : forall l o r dl dr w', okb l = true -> okb r = true ->
  duration l == duration r -> cvd l = Some dl -> cvd r = Some dr -> NoDup (keys dr) ->
  from_operator l o r = OK w' -> forall c t,
  inb c (channels (WArith l o r)) = true -> 0 <= t -> t < duration l ->
  oQeq (sample w' c t) (sample (WArith l o r) c t).
Proof. exact from_operator_const_sound. Qed.
Print Assumptions C08_from_operator_const.
Theorem C08_from_operator_plain : forall l o r, (cvd l = None \/ cvd r = None) -> from_operator l o r = mk_arith l o r.
Proof. exact from_operator_plain. Qed.
Print Assumptions C08_from_operator_plain.

(* from_transformation: constant folding through a transformation without LinearTransformation parts (identity, scaling,
   offset, parallel-channel, chains): the complete constant dict is transformed, the plain waveform transforms only the
   channels get_input_channels selects: same samples.  (With linear parts: only tested.) *)
Theorem C08_from_transformation_const : forall w T d w', okb (WTrans w T) = true -> simple T = true ->
  cvd w = Some d -> t_const_inv T = true -> from_transformation w T = OK w' -> forall c t,
  inb c (channels (WTrans w T)) = true -> 0 <= t -> t < duration w ->
  oQeq (sample w' c t) (sample (WTrans w T) c t).
Proof. exact from_transformation_const_sound. Qed.
Print Assumptions C08_from_transformation_const.

Definition C08_constructors_statement : Prop :=
  forall r w wp, build r = OK w -> build_plain r = OK wp -> forall c t,
  inb c (channels wp) = true -> 0 <= t -> t < duration wp -> oQeq (sample w c t) (sample wp c t).

(* ---- channel subsets ---- *)
Theorem C08_subset_plain : forall w cs c t,
  sample (WSubset w cs) c t = sample w c t /\ channels (WSubset w cs) = cs /\ duration (WSubset w cs) = duration w
  /\ cv (WSubset w cs) c = cv w c.
Proof. exact subset_plain. Qed.
Print Assumptions C08_subset_plain.
Definition C08_subset_statement : Prop :=
  forall w cs w', okb w = true -> get_subset w cs = OK w' -> forall c t, inb c cs = true -> 0 <= t -> t < duration w ->
  oQeq (sample w' c t) (sample w c t).
Theorem C08_subset_partial : forall w cs w', subset_simple w = true -> get_subset w cs = OK w' ->
  subsetb cs (channels w) = true /\ (forall c t, sample w' c t = sample w c t) /\ duration w' = duration w /\
  (set_eqb cs (channels w) = true -> w' = w).
Proof. exact get_subset_simple_sound. Qed.
Print Assumptions C08_subset_partial.

(* ---- call histories (state machine Hist.v: per-instance cache of TransformingWaveform keyed by array identity) ---- *)
Definition C08_history_statement : Prop :=
  forall w calls, (* every array object keeps its content over the history *)
  (forall c a ts c' a' ts', In (c, a, ts) calls -> In (c', a', ts') calls -> a = a' -> ts = ts') ->
  run_hist w calls [] = map (fun call => get_sampled w (fst (fst call)) (snd call)) calls.
(* proved: waveforms without TransformingWaveform nodes have no state at all: every call of ANY history (array objects
   reused, contents changed in place, any order of channels) is answered like a single call on a fresh object *)
Theorem C08_history_partial : forall w, no_trans w = true -> forall calls s,
  run_hist w calls s = map (fun call => get_sampled w (fst (fst call)) (snd call)) calls.
Proof. exact history_independent_no_trans. Qed.
Print Assumptions C08_history_partial.

(* ---- the code denotes what DESIGN 4.4 says: for every well-formed waveform without transformations in which reversal
   is applied to tables / function waveforms only, the pointwise meaning of the code on [0, duration) IS the denotation
   (first-match pieces, mirrored leaves) that check_spec uses as its oracle.  Reversal around composites is refuted
   (C08_reversed_junction_refuted, C08_total_reversed_refuted); transformations are only tested. ---- *)
Theorem C08_sample_is_denotation : forall w, okb w = true -> plainrev w = true -> forall c t,
  inb c (channels w) = true -> 0 <= t -> t < duration w -> den w c t = sample w c t.
Proof. exact sample_is_den. Qed.
Print Assumptions C08_sample_is_denotation.

(* with TransformingWaveform nodes: if every array object keeps its content over the history ([content]) and every
   transformation is free of LinearTransformation parts, the per-instance cache stays coherent (by-products included) and
   every call is answered like a single call on a fresh object.  Without the content hypothesis: refuted
   (Example history_stale_refuted, known finding C08-trafo-cache-stale-after-inplace-times); with linear parts: only tested *)
Theorem C08_history : forall w content calls, simple_all w = true ->
  (forall c a ts, In (c, a, ts) calls -> ts = content a) ->
  run_hist w calls [] = map (fun call => get_sampled w (fst (fst call)) (snd call)) calls.
Proof. exact history_independent_simple. Qed.
Print Assumptions C08_history.

(* ==== round 2 ==== *)

(* ---- transformations WITH LinearTransformation parts ---- *)
(* a TransformingWaveform applies its transformation to the channels get_input_channels selects (restricted data d),
   from_transformation and the denotation apply it to the complete inner data D: whenever neither call raises, both give
   the same binding for every requested channel, and the requested channels are bound.  [t_wfb] = the shape the
   constructor of LinearTransformation guarantees + at least one input channel *)
Theorem C08_trafo_restricted_is_complete : forall T, t_wfb T = true -> forall t S ins (d D o O : data),
  t_in T S = Some ins ->
  (forall k, inb k ins = true -> lookup k d = lookup k D /\ lookup k d <> None) ->
  t_point T t d = Some o -> t_point T t D = Some O ->
  forall k, inb k S = true -> lookup k o = lookup k O /\ lookup k o <> None.
Proof. exact t_restrict_agree. Qed.
Print Assumptions C08_trafo_restricted_is_complete.
(* the complete evaluation never raises and produces exactly get_output_channels *)
Theorem C08_trafo_complete_total : forall T, t_wfb T = true -> forall ks co t (D : data),
  (forall c, inb c (keys D) = inb c ks) -> t_out T ks = Some co ->
  exists O, t_point T t D = Some O /\ forall c, inb c (keys O) = inb c co.
Proof. exact t_full_ok. Qed.
Print Assumptions C08_trafo_complete_total.

(* from_transformation, ALL transformations (closes the gap of C08_from_transformation_const): guards [t_wfb] and
   [kerr = false] (known finding C08-chain-parallel-linear-keyerror: there the plain waveform raises) *)
Theorem C08_from_transformation : forall w T d w', okb (WTrans w T) = true -> t_wfb T = true ->
  cvd w = Some d -> t_const_inv T = true -> from_transformation w T = OK w' -> forall c t,
  inb c (channels (WTrans w T)) = true -> kerr (WTrans w T) c = false -> 0 <= t -> t < duration w ->
  oQeq (sample w' c t) (sample (WTrans w T) c t).
Proof. exact from_transformation_sound_gen. Qed.
Print Assumptions C08_from_transformation.
Theorem C08_from_transformation_plain : forall w T, (cvd w = None \/ t_const_inv T = false) ->
  from_transformation w T = mk_trans w T.
Proof. exact from_transformation_plain. Qed.
Print Assumptions C08_from_transformation_plain.
(* without [t_wfb] (a LinearTransformation without input channels): refuted, nothing raises and the answers differ *)
Theorem C08_from_transformation_empty_linear_refuted : exists w T w' c t,
  from_transformation w T = OK w' /\ okb (WTrans w T) = true /\ inb c (channels (WTrans w T)) = true /\
  kerr (WTrans w T) c = false /\ t_wfb T = false /\
  oQeqb (sample w' c t) (Some 7) = true /\ oQeqb (sample (WTrans w T) c t) (Some 9) = true.
Proof. exact from_transformation_empty_linear_refuted_ex. Qed.
Print Assumptions C08_from_transformation_empty_linear_refuted.

(* the code denotes what DESIGN 4.4 says, now WITH transformations of any kind (the denotation transforms the complete
   inner waveform): guards = reversal only directly around tables / function waveforms, constructor shape of every
   transformation, no KeyError on the path of the channel *)
Theorem C08_sample_is_denotation_T : forall w, okb w = true -> plainrevT w = true -> twf_all w = true -> forall c t,
  inb c (channels w) = true -> kerr w c = false -> 0 <= t -> t < duration w -> den w c t = sample w c t.
Proof. exact sample_is_den_T. Qed.
Print Assumptions C08_sample_is_denotation_T.

(* ---- from_table: the de-duplication of _validate_input preserves every sample on [0, duration) for EVERY table, and
   on the closed interval under the executable guard [final_triple tab = false] (exactly the class refuted by
   C08_from_table_dedup_refuted); constant branch included ---- *)
Theorem C08_table_dedup : forall tab t', validate_input tab = OK (inr t') ->
  last_t t' = last_t tab /\
  forall t, (t < last_t tab \/ final_triple tab = false) -> oQeq (table_at t' t None) (table_at tab t None).
Proof. exact validate_dedup_sound. Qed.
Print Assumptions C08_table_dedup.
Theorem C08_from_table : forall c tab w', from_table c tab = OK w' ->
  duration w' == last_t tab /\ channels w' = [c] /\
  forall t, 0 <= t -> (t < last_t tab \/ (final_triple tab = false /\ t <= last_t tab)) ->
  oQeq (sample w' c t) (sample (WTable c tab) c t).
Proof. exact from_table_dedup_sound. Qed.
Print Assumptions C08_from_table.

(* ---- histories with LinearTransformation parts: the by-products a transformation call leaves in the per-instance
   cache are NOT always what a direct request computes (known finding C08-trafo-cache-shadowed-byproduct, found by the
   proof attempt, confirmed on the real code): the second call of this history is answered 7, a fresh object 2 + t ---- *)
Theorem C08_history_shadow_refuted : exists w calls c ts,
  okb w = true /\ twf_all w = true /\ kerr w c = false /\ In (c, 0%N, ts) calls /\
  (forall c' a' ts', In (c', a', ts') calls -> ts' = ts) /\
  match nth 1 (run_hist w calls []) (Err EType), get_sampled w c ts with
  | OK [Some a0; Some a1; Some a2], OK [Some f0; Some f1; Some f2] =>
      Qeq_bool a0 7 && Qeq_bool a1 7 && Qeq_bool a2 7 && Qeq_bool f0 2 && Qeq_bool f1 (9#4) && Qeq_bool f2 (5#2)
  | _, _ => false
  end = true.
Proof. exact history_shadow_refuted_ex. Qed.
Print Assumptions C08_history_shadow_refuted.

(* histories, transformations of ANY kind: every transformation is linear-free or passes [lin_ok] for its inner channels
   (constructor shape, no linear output that shadows a forwarded channel = exactly the class refuted above,
   get_output_channels defined); if every array object keeps its content the cache stays coherent, by-products included
   (a by-product and a direct request are both bindings of the complete evaluation), and every call is answered like a
   single call on a fresh object.  Generalises C08_history.  Round 5: guard [kerr w c = false] for every call (known finding
   C08-chain-parallel-linear-keyerror): a call that raises leaves changed caches behind (modelled in Hist.get_sampled_st since
   round 5); that the cache stays coherent across a FAILED call is not proved. *)
Theorem C08_history_lin : forall w content calls, okb w = true -> trans_ok_all w = true ->
  (forall c a ts, In (c, a, ts) calls -> ts = content a) ->
  (forall c a ts, In (c, a, ts) calls -> kerr w c = false) ->
  run_hist w calls [] = map (fun call => get_sampled w (fst (fst call)) (snd call)) calls.
Proof. exact history_independent_lin. Qed.
Print Assumptions C08_history_lin.
(* bindings of a smaller data set are bindings of the complete evaluation (by-product consistency) *)
Theorem C08_trafo_byproducts : forall T t (d D o O : data), noshadow T (keys D) = true -> ext d D ->
  t_point T t d = Some o -> t_point T t D = Some O -> ext o O.
Proof. exact t_ext_mono. Qed.
Print Assumptions C08_trafo_byproducts.

(* ---- C08_subset_statement and C08_constructors_statement are FALSE at t = 0 below a reversed sequence (the restricted /
   optimised waveform folds to a total constant, the original is NaN there: known finding C08-reversed-composite-junction) ---- *)
Theorem C08_subset_refuted : exists w cs w' c t,
  okb w = true /\ get_subset w cs = OK w' /\ inb c cs = true /\ Qeq_bool t 0 = true /\ Qltb t (duration w) = true /\
  sample w' c t = Some 1 /\ sample w c t = None.
Proof. exact subset_refuted_ex. Qed.
Print Assumptions C08_subset_refuted.
Theorem C08_constructors_refuted : exists r w wp c t,
  build r = OK w /\ build_plain r = OK wp /\ inb c (channels wp) = true /\ Qeq_bool t 0 = true /\ Qltb t (duration wp) = true /\
  sample w c t = Some 1 /\ sample wp c t = None.
Proof. exact constructors_refuted_ex. Qed.
Print Assumptions C08_constructors_refuted.

(* ---- reversal ANYWHERE (around sequences, repetitions, nested, doubled; no transformations): the code's answer is the
   denotation of DESIGN 4.4 (reversal pushed to the leaves, pieces in reversed order, first-match junctions) at every
   time the executable guard [bad] does not exclude: under an ODD number of reversals a time exactly on a boundary of a
   sequence / repetition (internal junction, or its end = t 0 of the reversed waveform) is excluded - exactly the class of
   C08_reversed_junction_refuted / C08_total_reversed_refuted (known finding C08-reversed-composite-junction); under an
   even number nothing is excluded.  Generalises C08_sample_is_denotation (there [bad] is constantly false). ---- *)
Theorem C08_denotation_any_reversal : forall w, okb w = true -> no_trans w = true -> forall c t,
  inb c (channels w) = true -> 0 <= t -> t < duration w -> bad false w c t = false ->
  oQeq (den w c t) (sample w c t).
Proof. exact den_is_sample_guarded. Qed.
Print Assumptions C08_denotation_any_reversal.
(* the mirror law against the denotation, away from internal junctions *)
Theorem C08_mirror_law : forall w, okb w = true -> no_trans w = true -> forall c t,
  inb c (channels w) = true -> 0 <= t -> t < duration w -> bad false (WRev w) c t = false ->
  oQeq (den (WRev w) c t) (sample w c (duration w - t)).
Proof. exact mirror_law_den. Qed.
Print Assumptions C08_mirror_law.

(* ---- the optimising constructors return WELL-FORMED waveforms with the channels and the duration of the plain
   composite ([canonb]: SubsetWaveform channel lists are duplicate free, as frozensets are) ---- *)
Theorem C08_from_mapping_wellformed : forall dur d w', from_mapping dur d = OK w' -> NoDup (keys d) -> 0 < dur ->
  okb w' = true /\ canonb w' = true /\ (forall c, inb c (channels w') = inb c (keys d)) /\ duration w' == dur.
Proof. exact from_mapping_okb. Qed.
Print Assumptions C08_from_mapping_wellformed.
Theorem C08_from_sequence_wellformed : forall l w', okb (WSeq l) = true -> Forall (fun x => canonb x = true) l ->
  from_sequence l = OK w' ->
  good w' /\ (forall c, inb c (channels w') = inb c (channels (WSeq l))) /\ duration w' == sumd l.
Proof. exact from_sequence_okb. Qed.
Print Assumptions C08_from_sequence_wellformed.
Theorem C08_from_repetition_count_wellformed : forall b n w', good b -> (1 <= n)%Z -> from_repetition_count b n = OK w' ->
  good w' /\ (forall c, inb c (channels w') = inb c (channels b)) /\ duration w' == duration b * inject_Z n.
Proof. exact from_repetition_count_okb. Qed.
Print Assumptions C08_from_repetition_count_wellformed.
Theorem C08_from_functor_wellformed : forall i f w', good i -> set_eqb (keys f) (channels i) = true -> from_functor i f = OK w' ->
  good w' /\ (forall c, inb c (channels w') = inb c (channels i)) /\ duration w' == duration i.
Proof. exact from_functor_okb. Qed.
Print Assumptions C08_from_functor_wellformed.
Theorem C08_multi_wellformed : forall L w', mk_multi L = OK w' -> Forall good L ->
  (forall x y, In x L -> In y L -> duration x == duration y) ->
  good w' /\ (forall c, inb c (channels w') = existsb (has c) L) /\ (forall x, In x L -> duration w' == duration x) /\
  exists S, w' = WMulti S /\ Permutation.Permutation S L /\ overlap_free S [] = true.
Proof. exact mk_multi_okb. Qed.
Print Assumptions C08_multi_wellformed.

(* ---- get_subset_for_channels, ALL classes and nestings (closes C08_subset_partial): the restricted waveform is well
   formed, has exactly the requested channels, the duration of the original, and samples like it on [0, duration) at
   every time the executable guard [tg] allows (no ReversedWaveform on the path of the channel is asked at its local
   time 0 = the class of C08_subset_refuted); without ReversedWaveform nodes: the clause in full ---- *)
Theorem C08_subset : forall w cs w', okb w = true -> canonb w = true -> cs <> [] -> get_subset w cs = OK w' ->
  okb w' = true /\ (forall c, inb c (channels w') = inb c cs) /\ duration w' == duration w /\
  forall c t, inb c cs = true -> 0 <= t -> t < duration w -> tg w c t = true -> oQeq (sample w' c t) (sample w c t).
Proof. exact get_subset_sound. Qed.
Print Assumptions C08_subset.
Theorem C08_subset_norev : forall w cs w', okb w = true -> canonb w = true -> norev w = true -> cs <> [] ->
  get_subset w cs = OK w' -> forall c t, inb c cs = true -> 0 <= t -> t < duration w -> oQeq (sample w' c t) (sample w c t).
Proof. exact get_subset_sound_norev. Qed.
Print Assumptions C08_subset_norev.

Theorem C08_from_table_wellformed : forall c tab w', from_table c tab = OK w' -> good w'.
Proof. exact from_table_good. Qed.
Print Assumptions C08_from_table_wellformed.
Theorem C08_from_operator_wellformed : forall l o r w', good l -> good r -> duration l == duration r -> from_operator l o r = OK w' ->
  good w' /\ (forall c, inb c (channels w') = inb c (channels (WArith l o r))) /\ duration w' == duration l.
Proof. exact from_operator_good. Qed.
Print Assumptions C08_from_operator_wellformed.

(* ---- C08_constructors_statement, proved for every recipe without transformation / reversal / get_subset nodes
   ([plainR]; any nesting of table (validated or not), constant, function, sequence, multi-channel, repetition,
   SubsetWaveform, arithmetic, functor, negation; every node built by the optimising OR the plain constructor): the built
   waveform is well formed, has the channels and the duration of the plain composite and samples like it on [0, duration).
   With reversal the unguarded statement is false (C08_constructors_refuted); with transformations / get_subset the single
   steps are C08_from_transformation and C08_subset, their composition over recipes is not proved. ---- *)
Theorem C08_constructors_partial : forall r w wp, plainR r = true -> build r = OK w -> build_plain r = OK wp ->
  okb w = true /\ (forall c, inb c (channels w) = inb c (channels wp)) /\ duration w == duration wp /\
  forall c t, inb c (channels wp) = true -> 0 <= t -> t < duration wp -> oQeq (sample w c t) (sample wp c t).
Proof. exact constructors_plain_recipes. Qed.
Print Assumptions C08_constructors_partial.

(* ==== round 3 ==== *)

(* ---- C08_constructors_statement for recipes WITH transformations (any kind: identity, scaling, offset, linear, parallel,
   chains; from_transformation or the plain constructor) and every node kind of C08_constructors_partial; no reversal, no
   get_subset_for_channels node.  Guards (all executable): [transR] = no such node + every transformation has the shape its
   constructor guarantees ([t_wfb]) and duplicate-free dict keys / output channels ([t_nodupb]); [kfree wp] = no
   transformation of the PLAIN composite raises KeyError for one of its output channels (known finding
   C08-chain-parallel-linear-keyerror).  Last clause = the invariant carried through [build]: a channel without KeyError
   on the plain composite has none on the built waveform. ---- *)
Theorem C08_constructors_trafo : forall r w wp, transR r = true -> build r = OK w -> build_plain r = OK wp -> kfree wp = true ->
  okb w = true /\ (forall c, inb c (channels w) = inb c (channels wp)) /\ duration w == duration wp /\
  (forall c t, inb c (channels wp) = true -> 0 <= t -> t < duration wp -> oQeq (sample w c t) (sample wp c t)) /\
  (forall c, inb c (channels wp) = true -> kerr wp c = false -> kerr w c = false).
Proof. exact constructors_trafo_recipes. Qed.
Print Assumptions C08_constructors_trafo.
(* it generalises C08_constructors_partial: recipes without transformation nodes pass [transR] *)
Theorem C08_plain_recipes_are_trafo_recipes : forall r, plainR r = true -> transR r = true.
Proof. exact plainR_transR. Qed.
Print Assumptions C08_plain_recipes_are_trafo_recipes.
(* get_output_channels depends only on the SET of input channels; a transformation with duplicate-free keys maps a dict
   with duplicate-free keys to one (so from_transformation's folded result is a well-formed waveform) *)
Theorem C08_trafo_output_channels_extensional : forall T a b, (forall c, inb c a = inb c b) ->
  match t_out T a, t_out T b with Some x, Some y => forall c, inb c x = inb c y | None, None => True | _, _ => False end.
Proof. exact t_out_ext. Qed.
Print Assumptions C08_trafo_output_channels_extensional.
Theorem C08_from_transformation_wellformed : forall b T d w', okb b = true /\ canonb b = true -> t_wfb T = true -> t_nodupb T = true ->
  okb (WTrans b T) = true -> cvd b = Some d -> t_const_inv T = true -> from_transformation b T = OK w' ->
  (okb w' = true /\ canonb w' = true) /\ (forall c, inb c (channels w') = inb c (channels (WTrans b T))) /\ duration w' == duration b.
Proof. exact from_transformation_fold_good. Qed.
Print Assumptions C08_from_transformation_wellformed.

(* ---- C08_constructors_statement for every recipe WITHOUT get_subset_for_channels nodes: transformations of any kind AND
   reversal (ReversedWaveform(w), from_to_reverse, w.reversed()) anywhere, optimising or plain constructor at every node.
   The unguarded statement is false below a reversal (C08_constructors_refuted); the executable time guard [rg] on the PLAIN
   composite excludes exactly the times at which a ReversedWaveform that feeds the channel is asked at ITS local time 0
   (through a transformation: every channel of the inner waveform).  Other guards as in C08_constructors_trafo. ---- *)
Theorem C08_constructors_reversal : forall r w wp, revR r = true -> build r = OK w -> build_plain r = OK wp -> kfree wp = true ->
  okb w = true /\ (forall c, inb c (channels w) = inb c (channels wp)) /\ duration w == duration wp /\
  (forall c t, inb c (channels wp) = true -> 0 <= t -> t < duration wp -> rg wp c t = true -> oQeq (sample w c t) (sample wp c t)) /\
  (forall c, inb c (channels wp) = true -> kerr wp c = false -> kerr w c = false).
Proof. exact constructors_rev_recipes. Qed.
Print Assumptions C08_constructors_reversal.
(* the time guard excludes nothing when the plain composite has no ReversedWaveform node; recipes of C08_constructors_trafo
   pass [revR] *)
Theorem C08_time_guard_trivial_without_reversal : forall w, norevw w = true -> forall c t, rg w c t = true.
Proof. exact rg_norev. Qed.
Print Assumptions C08_time_guard_trivial_without_reversal.
Theorem C08_trafo_recipes_are_reversal_recipes : forall r, transR r = true -> revR r = true.
Proof. exact transR_revR. Qed.
Print Assumptions C08_trafo_recipes_are_reversal_recipes.

(* ---- the code denotes what DESIGN 4.4 says: reversal ANYWHERE and transformations of ANY kind together (closes "mirror law
   with transformations below a reversal").  Below an odd number of reversals the denotation mirrors the time dependent
   entries of a transformation (a + b t -> (a + b d) - b t) and applies it to the COMPLETE inner waveform; the code applies
   the original transformation at the mirrored time to the channels get_input_channels selects.  Guards: [twf_all]
   (constructor shape of every transformation), [kerr w c = false] (no KeyError on the path of the channel), [badT] = the
   junction guard of C08_denotation_any_reversal, through a transformation taken over the channels the code samples.
   Generalises C08_denotation_any_reversal / C08_mirror_law (no transformations) and C08_sample_is_denotation_T (reversal
   only around leaves). ---- *)
Theorem C08_denotation_any_reversal_T : forall w, okb w = true -> twf_all w = true -> forall c t,
  inb c (channels w) = true -> kerr w c = false -> 0 <= t -> t < duration w -> badT false w c t = false ->
  oQeq (den w c t) (sample w c t).
Proof. exact den_is_sample_guarded_T. Qed.
Print Assumptions C08_denotation_any_reversal_T.
Theorem C08_mirror_law_T : forall w, okb w = true -> twf_all w = true -> forall c t,
  inb c (channels w) = true -> kerr w c = false -> 0 <= t -> t < duration w -> badT false (WRev w) c t = false ->
  oQeq (den (WRev w) c t) (sample w c (duration w - t)).
Proof. exact mirror_law_den_T. Qed.
Print Assumptions C08_mirror_law_T.
Theorem C08_guard_without_transformations : forall w, no_trans w = true -> forall rv c t, badT rv w c t = bad rv w c t.
Proof. exact badT_no_trans. Qed.
Print Assumptions C08_guard_without_transformations.
(* the mirrored transformation at the mirrored time is the transformation at the original time *)
Theorem C08_trafo_mirror : forall T dd t t' d d', t' == dd - t -> deq d d' -> odeq (t_point (t_mirror dd T) t' d) (t_point T t d').
Proof. exact t_point_mirror. Qed.
Print Assumptions C08_trafo_mirror.

(* get_subset_for_channels at the ROOT of a recipe of C08_constructors_reversal (composition with C08_subset): the time
   guard of C08_subset concerns the BUILT inner waveform b; its transfer from the plain composite through every constructor
   is not proved, it stays an executable hypothesis [tg b c t = true]; get_subset nodes BELOW other nodes: only tested. *)
Theorem C08_constructors_getsubset_root : forall r cs b w' wp, revR r = true -> build r = OK b -> get_subset b cs = OK w' ->
  build_plain (RGetSubset r cs) = OK wp -> kfree wp = true ->
  okb w' = true /\ (forall c, inb c (channels w') = inb c (channels wp)) /\ duration w' == duration wp /\
  forall c t, inb c (channels wp) = true -> 0 <= t -> t < duration wp -> rg wp c t = true -> tg b c t = true ->
  oQeq (sample w' c t) (sample wp c t).
Proof. exact constructors_getsubset_root. Qed.
Print Assumptions C08_constructors_getsubset_root.

(* ==== C08_constructors_statement for ALL construction recipes, under executable guards (closes the composed statement) ====
   Every node kind, any nesting: table (validated or not), constant, function, sequence, multi-channel, repetition,
   transformation (any kind), SubsetWaveform, get_subset_for_channels, arithmetic, functor, negation, ReversedWaveform,
   from_to_reverse, reversed(); optimising or plain constructor at every node.  Guards: [allR r] = every transformation has
   the shape its constructor guarantees and duplicate-free dict keys / output channels (nothing else is demanded of the
   recipe); [kfree wp] = no transformation of the PLAIN composite raises KeyError for one of its output channels (known
   finding C08-chain-parallel-linear-keyerror); [rg wp c t] = no ReversedWaveform that feeds the channel is asked at ITS local
   time 0 (the class of C08_constructors_refuted / C08_subset_refuted; C08_time_guard_trivial_without_reversal).
   Conclusion: the built waveform is well formed, has the channels and the duration of the plain composite, samples like
   it, and the two invariants carried through [build]: KeyError freedom and the time guard [tg] of the built waveform. *)
Theorem C08_constructors : forall r w wp, allR r = true -> build r = OK w -> build_plain r = OK wp -> kfree wp = true ->
  okb w = true /\ (forall c, inb c (channels w) = inb c (channels wp)) /\ duration w == duration wp /\
  (forall c t, inb c (channels wp) = true -> 0 <= t -> t < duration wp -> rg wp c t = true -> oQeq (sample w c t) (sample wp c t)) /\
  (forall c, inb c (channels wp) = true -> kerr wp c = false -> kerr w c = false) /\
  (forall c t, inb c (channels wp) = true -> 0 <= t -> t < duration wp -> rg wp c t = true -> tg w c t = true).
Proof. exact constructors_all_recipes. Qed.
Print Assumptions C08_constructors.
(* recipes without transformation nodes satisfy [allR] *)
Theorem C08_recipes_without_transformations : forall r, no_transR r = true -> allR r = true.
Proof. exact no_transR_allR. Qed.
Print Assumptions C08_recipes_without_transformations.
Theorem C08_reversal_recipes_are_recipes : forall r, revR r = true -> allR r = true.
Proof. exact revR_allR. Qed.
Print Assumptions C08_reversal_recipes_are_recipes.
(* get_subset_for_channels keeps KeyError freedom, the time guard and canonical subset lists (so that a restricted waveform
   can be restricted / composed again): the additional invariants of C08_subset, all classes and nestings *)
Theorem C08_subset_invariants : forall w cs w', okb w = true -> canonb w = true -> cs <> [] -> get_subset w cs = OK w' ->
  (forall c, inb c cs = true -> kerr w c = false -> kerr w' c = false) /\
  (forall c t, inb c cs = true -> 0 <= t -> t < duration w -> tg w c t = true -> tg w' c t = true) /\ canonb w' = true.
Proof. exact get_subset_inv. Qed.
Print Assumptions C08_subset_invariants.
(* the time guard does not depend on the representation of the time *)
Theorem C08_time_guard_proper : forall w c t t', t == t' -> tg w c t = tg w c t'.
Proof. exact tg_proper. Qed.
Print Assumptions C08_time_guard_proper.

(* ==== round 4: channels only ONE operand defines ("exclusive" channels; class of seeded change C08-6) ==== *)
(* the plain ArithmeticWaveform on an exclusive channel: the lhs as it is, the rhs under the operator's unary form
   (identity for '+', negation for '-'), samples and reported constants *)
Theorem C08_arith_lhs_exclusive : forall l o r c t, inb c (channels l) = true -> inb c (channels r) = false ->
  sample (WArith l o r) c t = sample l c t /\ cv (WArith l o r) c = cv l c.
Proof. exact arith_lhs_exclusive. Qed.
Print Assumptions C08_arith_lhs_exclusive.
Theorem C08_arith_rhs_exclusive : forall l o r c t, inb c (channels l) = false -> inb c (channels r) = true ->
  sample (WArith l o r) c t = omap (aop_rhs_only o) (sample r c t) /\ cv (WArith l o r) c = omap (aop_rhs_only o) (cv r c).
Proof. exact arith_rhs_exclusive. Qed.
Print Assumptions C08_arith_rhs_exclusive.
(* when may `get_subset_for_channels` of `lhs op rhs` be answered by ONE operand's restriction ("TODO: optimization
   possible" in ArithmeticWaveform.unsafe_get_subset_for_channels)?  lhs-exclusive request: always *)
Theorem C08_arith_subset_lhs_shortcut : forall l o r cs w', okb l = true -> canonb l = true -> cs <> [] ->
  disjointb cs (channels r) = true -> get_subset l cs = OK w' ->
  (forall c, inb c (channels w') = inb c cs) /\
  forall c t, inb c cs = true -> 0 <= t -> t < duration l -> tg l c t = true ->
    oQeq (sample w' c t) (sample (WArith l o r) c t).
Proof. exact arith_subset_lhs_shortcut. Qed.
Print Assumptions C08_arith_subset_lhs_shortcut.
(* rhs-exclusive request: the operand's restriction under the unary form of the operator ... *)
Theorem C08_arith_subset_rhs_exclusive : forall l o r cs w', okb r = true -> canonb r = true -> cs <> [] ->
  disjointb cs (channels l) = true -> get_subset r cs = OK w' ->
  forall c t, inb c cs = true -> 0 <= t -> t < duration r -> tg r c t = true ->
    oQeq (omap (aop_rhs_only o) (sample w' c t)) (sample (WArith l o r) c t).
Proof. exact arith_subset_rhs_exclusive. Qed.
Print Assumptions C08_arith_subset_rhs_exclusive.
(* ... so the short cut is sound for '+' ... *)
Theorem C08_arith_subset_rhs_shortcut_add : forall l r cs w', okb r = true -> canonb r = true -> cs <> [] ->
  disjointb cs (channels l) = true -> get_subset r cs = OK w' ->
  forall c t, inb c cs = true -> 0 <= t -> t < duration r -> tg r c t = true ->
    oQeq (sample w' c t) (sample (WArith l OpAdd r) c t).
Proof. exact arith_subset_rhs_shortcut_add. Qed.
Print Assumptions C08_arith_subset_rhs_shortcut_add.
(* ... and refuted for '-' (all hypotheses of the '+' theorem hold; the operand's restriction answers 3 and reports the
   constant 3, the restriction of `lhs - rhs` that the code returns answers and reports -3) *)
Theorem C08_arith_subset_rhs_shortcut_sub_refuted :
  exists l r cs w' w'' c t, okb r = true /\ canonb r = true /\ disjointb cs (channels l) = true /\ inb c cs = true /\
    0 <= t /\ t < duration r /\ tg r c t = true /\
    get_subset r cs = OK w' /\ get_subset (WArith l OpSub r) cs = OK w'' /\
    sample w' c t = Some 3 /\ sample w'' c t = Some (- (3)) /\ cv w' c = Some 3 /\ cv w'' c = Some (- (3)).
Proof. exact arith_subset_rhs_shortcut_sub_refuted. Qed.
Print Assumptions C08_arith_subset_rhs_shortcut_sub_refuted.
(* a channel added / overwritten by a ParallelChannelTransformation is its (possibly time dependent) value, whatever the
   inner waveform is *)
Theorem C08_parallel_added_channel : forall i cs c v t, lookup c cs = Some v ->
  sample (WTrans i (TParallel cs)) c t = Some (tval_at v t).
Proof. exact parallel_added_channel. Qed.
Print Assumptions C08_parallel_added_channel.
(* MultiChannelWaveform: a request that touches exactly ONE part is answered by that part's get_subset_for_channels *)
Theorem C08_multi_subset_one_part : forall l cs x,
  filter (fun y => negb (disjointb (channels y) cs)) l = [x] -> subset_u (WMulti l) cs = get_wrap x cs (subset_u x cs).
Proof. exact multi_subset_one_part. Qed.
Print Assumptions C08_multi_subset_one_part.
