(* C08 — property theorems (statements only; proofs live in Proofs*.v). *)
From Coq Require Import List ZArith QArith Bool.
Require Import QV.C08.Model QV.C08.Spec QV.C08.Proofs.
Import ListNotations.

Theorem C08_placeholder_syntactic_eq : forall a b, Qsyn_eqb a b = true -> a = b.
Proof. exact Qsyn_eqb_eq. Qed.
Print Assumptions C08_placeholder_syntactic_eq.
