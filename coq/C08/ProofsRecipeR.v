(* C08 — the composed statement over construction recipes with transformations AND reversal (round 3): every recipe
   without get_subset_for_channels nodes.  Below a reversal the unguarded statement is false (Props.C08_constructors_refuted:
   the optimised waveform folds to a total constant, the plain reversed sequence is NaN at its local time 0); the executable
   time guard [rg] on the PLAIN composite excludes exactly the times at which some ReversedWaveform that feeds the channel
   is asked at ITS local time 0. *)
From Coq Require Import List ZArith QArith Qabs Bool Lia Lqa Permutation.
Require Import QV.C08.Model QV.C08.Spec QV.C08.Wf QV.C08.Hist QV.C08.Lin QV.C08.ProofsVec QV.C08.ProofsConst QV.C08.ProofsProper
               QV.C08.ProofsRev QV.C08.ProofsTrafo QV.C08.ProofsCtor QV.C08.ProofsPar QV.C08.ProofsFlat QV.C08.ProofsDen QV.C08.ProofsOp
               QV.C08.ProofsTable QV.C08.ProofsDedup QV.C08.ProofsMirror QV.C08.ProofsOkb QV.C08.ProofsSubset
               QV.C08.ProofsConstT QV.C08.ProofsTotalT QV.C08.ProofsSimple QV.C08.ProofsLin QV.C08.ProofsRecipe QV.C08.ProofsRecipeT.
Import ListNotations.
Open Scope Q_scope.

(* ---- the time guard (on the plain composite) ---- *)
Fixpoint rg (w : wf) (c : chan) (t : Q) {struct w} : bool :=
  match w with
  | WTable _ _ | WConst _ _ _ | WFunc _ _ _ => true
  | WSeq l => tg_list t (map (fun s => (duration s, rg s c)) l) 0
  | WMulti l => (fix fd (l : list wf) := match l with
                   | [] => true
                   | s :: r => if inb c (channels s) then rg s c t else fd r end) l
  | WRep b n => tg_list t (repeat (duration b, rg b c) (Z.to_nat n)) 0
  | WTrans i _ => forallb (fun ic => rg i ic t) (channels i)      (* every channel of the inner waveform (conservative) *)
  | WSubset i _ | WFunctor i _ => rg i c t
  | WArith l _ r => (if inb c (channels l) then rg l c t else true) && (if inb c (channels r) then rg r c t else true)
  | WRev i => negb (Qeq_bool t 0) && rg i c (duration i - t)
  end.
Lemma rg_multi_find l c t : rg (WMulti l) c t = match find (has c) l with Some s => rg s c t | None => true end.
Proof.
  cbn [rg]. induction l as [|s r IH]; [reflexivity|]. cbn [find]. unfold has at 1. destruct (inb c (channels s)); [reflexivity|exact IH].
Qed.

Fixpoint norevw (w : wf) : bool :=
  match w with
  | WTable _ _ | WConst _ _ _ | WFunc _ _ _ => true
  | WSeq l | WMulti l => (fix all (l : list wf) := match l with [] => true | x :: r => norevw x && all r end) l
  | WRep b _ | WTrans b _ | WSubset b _ | WFunctor b _ => norevw b
  | WArith l _ r => norevw l && norevw r
  | WRev _ => false
  end.

(* ---- guarded equivalence ---- *)
Definition EqvG (w wp : wf) : Prop :=
  (forall c, inb c (channels w) = inb c (channels wp)) /\ duration w == duration wp /\
  forall c t, inb c (channels wp) = true -> 0 <= t -> t < duration wp -> rg wp c t = true -> oQeq (sample w c t) (sample wp c t).
Definition RelG (w wp : wf) : Prop := good w /\ okb wp = true /\ EqvG w wp.
Definition RelGK (w wp : wf) : Prop := RelG w wp /\ J w wp.

Lemma Eqv_EqvG a b c : Eqv a b -> EqvG b c -> EqvG a c.
Proof.
  intros [A1 [A2 A3]] [B1 [B2 B3]]. split; [intros k; rewrite A1; apply B1|]. split; [rewrite A2; exact B2|].
  intros k t Hk H0 H1 Hg. eapply oQeq_trans; [apply A3|apply B3]; auto; [rewrite B1; exact Hk|rewrite B2; exact H1].
Qed.
Lemma EqvG_refl w : EqvG w w.
Proof. split; [reflexivity|]. split; [reflexivity|intros; apply oQeq_refl]. Qed.
Lemma F2_RelGK_RelG ws wps : Forall2 RelGK ws wps -> Forall2 RelG ws wps.
Proof. induction 1 as [|a b l l' [R _] _ IH]; constructor; auto. Qed.
Lemma F2_RelGK_J ws wps : Forall2 RelGK ws wps -> Forall2 (fun w wp => J w wp) ws wps.
Proof. induction 1 as [|a b l l' [_ R] _ IH]; constructor; auto. Qed.
Lemma Forall2_goodG ws wps : Forall2 RelG ws wps -> Forall good ws.
Proof. induction 1 as [|a b l l' [G _] _ IH]; constructor; auto. Qed.

(* ---- sequence ---- *)
Lemma seq_congrG ws wps : Forall2 RelG ws wps -> okb (WSeq wps) = true -> okb (WSeq ws) = true /\ EqvG (WSeq ws) (WSeq wps).
Proof.
  intros F Hokp. pose proof Hokp as Hokp'. cbn [okb] in Hokp'. apply andb_prop in Hokp' as [Hchs Hoks]. apply okb_all_Forall in Hoks.
  destruct F as [|x xp ws' wps' [Gx [Oxp Ex]] F']; [discriminate|].
  assert (Fall : Forall2 RelG (x :: ws') (xp :: wps')) by (constructor; [split; [exact Gx|split; assumption]|exact F']).
  assert (Hch1 : forall y, In y ws' -> forall c, inb c (channels y) = inb c (channels x)).
  { intros y Hy c. destruct (Forall2_In_l _ _ _ y F' Hy) as [yp [Hyp [_ [_ [Cy _]]]]]. rewrite Cy, (proj1 Ex c).
    rewrite forallb_forall in Hchs. apply set_eqb_inb. exact (Hchs yp Hyp). }
  assert (Hok : okb (WSeq (x :: ws')) = true).
  { cbn [okb]. apply andb_true_intro. split.
    - apply forallb_forall. intros y Hy. apply set_eqb_intro. apply Hch1; exact Hy.
    - refine (okb_Forall_all (x :: ws') _). apply Forall_forall. intros y Hy.
      destruct (Forall2_In_l _ _ _ y Fall Hy) as [yp [_ [[Oy _] _]]]. exact Oy. }
  split; [exact Hok|].
  assert (Hdur : Forall2 (fun xp x => duration x == duration xp) (xp :: wps') (x :: ws')).
  { apply Forall2_flip. clear -Fall. induction Fall as [|a b l l' [_ [_ [_ [D _]]]] _ IH]; constructor; auto. }
  split; [intros c; cbn [channels]; apply (proj1 Ex)|]. split; [rewrite !duration_seq; apply sumd_rel; exact Hdur|].
  intros c t Hc H0 H1 Hg. rewrite duration_seq in H1. rewrite !sample_seq.
  assert (Hnn : Forall (fun y => 0 <= duration y) (xp :: wps')).
  { eapply Forall_impl; [|exact Hoks]. intros y Hy. apply Qlt_le_weak, okb_pos; exact Hy. }
  assert (Hnn' : Forall (fun y => 0 <= duration y) (x :: ws')).
  { apply Forall_forall. intros y Hy. destruct (Forall2_In_l _ _ _ y Fall Hy) as [yp [_ [[Oy _] _]]]. apply Qlt_le_weak, okb_pos; exact Oy. }
  assert (Hin := seq_children_have_chan (xp :: wps') c Hchs Hc).
  destruct (At_exists _ Hnn 0 t) as [yp [u HA]]; [lra|lra|].
  assert (F3 : Forall2 (fun xp x => duration x == duration xp /\ RelG x xp) (xp :: wps') (x :: ws')).
  { apply Forall2_flip. clear -Fall. induction Fall as [|a b l l' R _ IH]; constructor; auto. split; [|exact R].
    destruct R as [_ [_ [_ [D _]]]]. exact D. }
  destruct (At_rel (fun xp x => RelG x xp) _ _ F3 0 0 t yp u (Qeq_refl 0) HA) as [y [u' [HA' [Hu Ry]]]].
  rewrite (seqp_At c _ 0 t y u' None Hnn' HA'), (seqp_At c _ 0 t yp u None Hnn HA).
  destruct (At_local _ _ _ _ _ HA) as [U0 U1].
  eapply oQeq_trans; [apply (sample_proper y c u' u Hu)|].
  destruct Ry as [_ [_ [_ [_ S]]]]. apply S; auto.
  - rewrite Forall_forall in Hin. apply Hin. exact (At_In _ _ _ _ _ HA).
  - cbn [rg] in Hg. exact (tg_list_At t (fun s => rg s c) _ 0 yp u Hg HA).
Qed.

(* ---- repetition ---- *)
Lemma rep_congrG b bp n : RelG b bp -> (1 <= n)%Z -> EqvG (WRep b n) (WRep bp n).
Proof.
  intros [[Ob _] [Obp [C [D S]]]] Hn. split; [exact C|]. split; [cbn [duration]; rewrite D; reflexivity|].
  intros c t Hc H0 H1 Hg. cbn [channels] in Hc.
  set (k := Z.to_nat n).
  assert (HD : forall x, duration (WRep x n) == sumd (repeat x k)).
  { intros x. cbn [duration]. rewrite sumd_repeat, kq_mult. unfold k. rewrite Z2Nat.id by lia. reflexivity. }
  rewrite !sample_rep, !repp_seqp. fold k.
  assert (Hnn : Forall (fun y => 0 <= duration y) (repeat bp k)).
  { apply Forall_forall. intros y Hy. apply repeat_spec in Hy. subst y. apply Qlt_le_weak, okb_pos; exact Obp. }
  assert (Hnn' : Forall (fun y => 0 <= duration y) (repeat b k)).
  { apply Forall_forall. intros y Hy. apply repeat_spec in Hy. subst y. apply Qlt_le_weak, okb_pos; exact Ob. }
  destruct (At_exists _ Hnn 0 t) as [x [u HA]]; [lra|rewrite <- (HD bp); lra|].
  assert (F : Forall2 (fun x a => duration a == duration x /\ (x = bp /\ a = b)) (repeat bp k) (repeat b k))
    by (apply Forall2_repeat; auto).
  destruct (At_rel (fun x a => x = bp /\ a = b) _ _ F 0 0 t x u (Qeq_refl 0) HA) as [a [u' [HA' [Hu [-> ->]]]]].
  rewrite (seqp_At c _ 0 t b u' None Hnn' HA'), (seqp_At c _ 0 t bp u None Hnn HA).
  destruct (At_local _ _ _ _ _ HA) as [U0 U1].
  eapply oQeq_trans; [apply (sample_proper b c u' u Hu)|]. apply S; auto.
  cbn [rg] in Hg. fold k in Hg. rewrite <- (map_repeat' (fun s => (duration s, rg s c))) in Hg.
  exact (tg_list_At t (fun s => rg s c) _ 0 bp u Hg HA).
Qed.

(* ---- multi-channel ---- *)
Lemma multi_relG ws wps w' : Forall2 RelG ws wps -> okb (WMulti wps) = true ->
  good w' -> (forall c, inb c (channels w') = existsb (has c) ws) -> (forall a, In a ws -> duration w' == duration a) ->
  (forall c a t, In a ws -> has c a = true -> sample w' c t = sample a c t) -> RelG w' (WMulti wps).
Proof.
  intros F Hokp Gw Cw Dw Sw. split; [exact Gw|]. split; [exact Hokp|].
  assert (Hex : forall c, existsb (has c) ws = existsb (has c) wps).
  { intros c. clear -F. induction F as [|a b l l' [_ [_ [C _]]] _ IH]; [reflexivity|]. cbn [existsb]. unfold has at 1 3. rewrite C, IH. reflexivity. }
  assert (Hne : wps <> []) by (intros ->; cbn in Hokp; discriminate).
  split; [intros c; rewrite Cw, Hex; change (inb c (channels (WMulti wps))) with (has c (WMulti wps)); rewrite has_multi; reflexivity|].
  split.
  - destruct wps as [|xp r]; [congruence|]. destruct (Forall2_In_r _ _ _ xp F (or_introl eq_refl)) as [x [Hx [_ [_ [_ [D _]]]]]].
    rewrite (Dw x Hx), D. reflexivity.
  - intros c t Hc H0 H1 Hg. change (has c (WMulti wps) = true) in Hc. rewrite has_multi in Hc. apply existsb_exists in Hc as [xp [Hxp Hcxp]].
    destruct (Forall2_In_r _ _ _ xp F Hxp) as [x [Hx [_ [_ [C [D S]]]]]].
    rewrite (Sw c x t Hx) by (unfold has; rewrite C; exact Hcxp).
    pose proof (proj2 (overlap_free_unique c wps [] (multi_overlap_free wps Hokp))) as Hu.
    rewrite (sample_multi_unique wps c t xp Hu Hxp Hcxp).
    apply S; auto; [rewrite (multi_part_duration wps xp Hokp Hxp); exact H1|].
    rewrite rg_multi_find in Hg.
    assert (Ff : find (has c) wps = Some xp).
    { clear -Hu Hxp Hcxp. induction wps as [|h r IH]; [contradiction|]. cbn [find]. destruct (has c h) eqn:Eh.
      - f_equal. apply Hu; cbn; auto.
      - destruct Hxp as [->|Hxp]; [congruence|]. apply IH; auto. intros a b Ha Hb. apply Hu; cbn; auto. }
    rewrite Ff in Hg. exact Hg.
Qed.

(* ---- arithmetic, functor, transformation ---- *)
Lemma arith_congrG a ap b bp o : RelG a ap -> RelG b bp -> duration ap == duration bp -> EqvG (WArith a o b) (WArith ap o bp).
Proof.
  intros [_ [_ [Ca [Da Sa]]]] [_ [_ [Cb [Db Sb]]]] Hd.
  split; [intros c; cbn [channels]; rewrite !inb_unionb, Ca, Cb; reflexivity|]. split; [exact Da|].
  intros c t Hc H0 H1 Hg. cbn [channels duration sample rg] in *. rewrite Ca, Cb. rewrite inb_unionb in Hc.
  apply andb_prop in Hg as [G1 G2].
  destruct (inb c (channels ap)) eqn:E1, (inb c (channels bp)) eqn:E2; try discriminate.
  - apply omap2_compat; [intros x x' y y' X Y; apply aop_at_compat; assumption|apply Sa; auto|apply Sb; auto; lra].
  - apply Sa; auto.
  - apply omap_compat; [intros x x' X; apply aop_rhs_compat; exact X|apply Sb; auto; lra].
Qed.
Lemma functor_congrG w wp f1 f : RelG w wp -> (forall c, lookup c f1 = lookup c f) -> EqvG (WFunctor w f1) (WFunctor wp f).
Proof.
  intros [_ [_ [C [D S]]]] Hl. split; [exact C|]. split; [exact D|].
  intros c t Hc H0 H1 Hg. cbn [channels duration sample rg] in *. rewrite Hl. destruct (lookup c f); [|exact I].
  apply omap_compat; [intros x x' X; apply functor_at_compat; exact X|apply S; auto].
Qed.
Lemma trans_congrG b bp T : RelG b bp -> okb (WTrans bp T) = true ->
  good (WTrans b T) /\ EqvG (WTrans b T) (WTrans bp T).
Proof.
  intros [[Ob Cb] [Obp [C [D S]]]] Hokp. pose proof Hokp as Hokp'. cbn [okb] in Hokp'. apply andb_prop in Hokp' as [_ Hout].
  destruct (t_out T (channels bp)) as [co|] eqn:Eo; [|discriminate].
  destruct (t_out_rel T b bp co C Eo) as [co' [Eo' Hco]].
  split; [split; cbn [okb canonb]; rewrite ?Ob, ?Eo'; auto|].
  split; [intros c; cbn [channels]; rewrite Eo, Eo'; apply Hco|]. split; [exact D|].
  intros c t Hc H0 H1 Hg. cbn [channels duration] in Hc, H1. rewrite Eo in Hc. cbn [sample]. cbn [rg] in Hg.
  rewrite forallb_forall in Hg.
  destruct (t_in_channels T (channels bp) co c Eo Hc) as [ins [Ein Hins]]. rewrite Ein.
  assert (Hd : deq (map (fun ic => (ic, sample b ic t)) ins) (map (fun ic => (ic, sample bp ic t)) ins)).
  { clear Ein. induction ins as [|ic r IH]; [constructor|]. cbn [map]. constructor.
    - assert (Hic : inb ic (channels bp) = true) by (apply Hins; rewrite inb_cons, N.eqb_refl; reflexivity).
      split; [reflexivity|]. cbn [snd]. apply S; auto. apply Hg. apply inb_In. exact Hic.
    - apply IH. intros k Hk. apply Hins. rewrite inb_cons, Hk. apply orb_true_r. }
  pose proof (t_point_compat T t t _ _ (Qeq_refl t) Hd) as Ho. unfold odeq in Ho.
  destruct (t_point T t (map (fun ic => (ic, sample b ic t)) ins)) as [o1|],
           (t_point T t (map (fun ic => (ic, sample bp ic t)) ins)) as [o2|]; try contradiction; [|exact I].
  exact (deq_lookup_flat c o1 o2 Ho).
Qed.
Lemma trans_JG b bp T : (forall c, inb c (channels b) = inb c (channels bp)) -> J b bp -> okb (WTrans bp T) = true -> J (WTrans b T) (WTrans bp T).
Proof.
  intros C Jb Hokp c Hc Hk. cbn [okb] in Hokp. apply andb_prop in Hokp as [_ Hout].
  destruct (t_out T (channels bp)) as [co|] eqn:Eo; [|discriminate]. cbn [channels] in Hc. rewrite Eo in Hc.
  destruct (t_in_channels T (channels bp) co c Eo Hc) as [ins [Ein Hins]].
  cbn [kerr] in *. rewrite Ein in *. apply orb_false_iff in Hk as [K1 K2]. rewrite K2, orb_false_r.
  destruct (existsb (kerr b) ins) eqn:Ex; [|reflexivity]. apply existsb_exists in Ex as [ic [Hic Kic]].
  apply (proj2 (inb_In ic ins)) in Hic.
  assert (Kp : kerr bp ic = false).
  { destruct (kerr bp ic) eqn:E; [|reflexivity].
    assert (existsb (kerr bp) ins = true) by (apply existsb_exists; exists ic; split; [apply inb_In; exact Hic|exact E]). congruence. }
  rewrite (Jb ic (Hins ic Hic) Kp) in Kic. discriminate.
Qed.

Lemma Rel_RelG w wp : Rel w wp -> RelG w wp.
Proof.
  intros [G [O [C [D S]]]]. split; [exact G|]. split; [exact O|]. split; [exact C|]. split; [exact D|].
  intros c t Hc H0 H1 _. apply S; auto.
Qed.

(* ---- the KeyError invariant for parts (channels + J is all it needs) ---- *)
Definition CJ (w wp : wf) : Prop := (forall c, inb c (channels w) = inb c (channels wp)) /\ J w wp.
Lemma F2_RelGK_CJ ws wps : Forall2 RelGK ws wps -> Forall2 CJ ws wps.
Proof. induction 1 as [|a b l l' [[_ [_ [C _]]] Jab] _ IH]; constructor; auto. split; assumption. Qed.
Lemma seq_parts_JG ws wps c : Forall2 CJ ws wps -> okb (WSeq wps) = true ->
  inb c (channels (WSeq wps)) = true -> kerr (WSeq wps) c = false -> forall y, In y ws -> kerr y c = false.
Proof.
  intros F Hokp Hc Hk y Hy. cbn [okb] in Hokp. apply andb_prop in Hokp as [Hchs _].
  pose proof (seq_children_have_chan wps c Hchs Hc) as Hin. rewrite Forall_forall in Hin.
  destruct (Forall2_In_l _ _ _ y F Hy) as [yp [Hyp [_ Jy]]].
  apply (Jy c (Hin yp Hyp)). rewrite kerr_seq_any in Hk.
  destruct (kerr yp c) eqn:E; [|reflexivity].
  assert (existsb (fun x => kerr x c) wps = true) by (apply existsb_exists; eauto). congruence.
Qed.
Lemma multi_parts_JG ws wps c : Forall2 CJ ws wps -> okb (WMulti wps) = true ->
  kerr (WMulti wps) c = false -> forall x, In x ws -> has c x = true -> kerr x c = false.
Proof.
  intros F Hokp Hk x Hx Hcx.
  destruct (Forall2_In_l _ _ _ x F Hx) as [xp [Hxp [C Jx]]].
  assert (Hcxp : has c xp = true) by (unfold has in *; rewrite <- C; exact Hcx).
  apply (Jx c Hcxp).
  rewrite <- (kerr_multi_unique wps c xp (proj2 (overlap_free_unique c wps [] (multi_overlap_free wps Hokp))) Hxp Hcxp).
  exact Hk.
Qed.

(* ---- recipes: everything except get_subset_for_channels ---- *)
Fixpoint revR (r : recipe) : bool :=
  match r with
  | RTable _ _ _ | RConst _ _ _ | RFunc _ _ _ => true
  | RSeq _ l | RMulti _ l => (fix all (l : list recipe) := match l with [] => true | x :: r => revR x && all r end) l
  | RRep _ b _ | RSubset b _ | RFunctor _ b _ | RNeg b | RRev b | RFromToReverse b | RReversed b => revR b
  | RArith _ l _ r => revR l && revR r
  | RTrans _ b T => t_wfb T && t_nodupb T && revR b
  | RGetSubset _ _ => false
  end.
Lemma revR_all_Forall l :
  (fix all (l : list recipe) := match l with [] => true | x :: r => revR x && all r end) l = true -> Forall (fun x => revR x = true) l.
Proof.
  induction l as [|x r IH]; intros H; constructor.
  - apply andb_prop in H as [H _]; exact H.
  - apply IH. apply andb_prop in H as [_ H]; exact H.
Qed.

Definition StepG (r : recipe) : Prop :=
  revR r = true -> forall w wp, build r = OK w -> build_plain r = OK wp -> kfree wp = true -> RelGK w wp.

Lemma lists_relGK l : Forall StepG l -> Forall (fun x => revR x = true) l -> forall ws wps,
  blist l = OK ws -> bplist l = OK wps -> Forall (fun x => kfree x = true) wps -> Forall2 RelGK ws wps.
Proof.
  induction 1 as [|x r Hx _ IH]; intros Hp ws wps H1 H2 Hk; cbn [blist bplist] in *.
  - injection H1 as <-. injection H2 as <-. constructor.
  - apply Forall_cons_iff in Hp as [P1 P2].
    destruct (build x) as [a|] eqn:Ea; cbn [bind] in H1; [|discriminate].
    destruct (blist r) as [b|] eqn:Eb; cbn [bind] in H1; [|discriminate]. injection H1 as <-.
    destruct (build_plain x) as [ap|] eqn:Eap; cbn [bind] in H2; [|discriminate].
    destruct (bplist r) as [bp|] eqn:Ebp; cbn [bind] in H2; [|discriminate]. injection H2 as <-.
    apply Forall_cons_iff in Hk as [K1 K2].
    constructor; [exact (Hx P1 a ap Ea Eap K1)|exact (IH P2 b bp eq_refl eq_refl K2)].
Qed.

(* a reversed waveform over related inner waveforms *)
Lemma rev_congrG b bp : RelG b bp -> EqvG (WRev b) (WRev bp).
Proof.
  intros [[Ob _] [Obp [C [D S]]]]. split; [exact C|]. split; [exact D|].
  intros c t Hc H0 H1 Hg. cbn [channels duration sample rg] in *. apply andb_prop in Hg as [Hn Hg].
  assert (Ht : ~ t == 0) by (intros E; apply Qeq_bool_iff in E; rewrite E in Hn; discriminate).
  eapply oQeq_trans; [apply (sample_proper b c (duration b - t) (duration bp - t)); lra|].
  apply S; auto; lra.
Qed.

Theorem build_relGK : forall r, StepG r.
Proof.
  induction r using recipe_ind'; intros Hp w wp Hb Hbp Hkf; cbn [revR] in Hp; try discriminate.
  - (* table *)
    split; [apply Rel_RelG; apply (build_rel (RTable b c tab) eq_refl w wp Hb Hbp)|]. apply J_nokerr. intros k.
    destruct b; cbn [build] in Hb.
    + unfold from_table in Hb. destruct (validate_input tab) as [[[d v]|t]|]; cbn [bind] in Hb; try discriminate; injection Hb as <-; reflexivity.
    + injection Hb as <-. reflexivity.
  - split; [apply Rel_RelG; apply (build_rel (RConst d v c) eq_refl w wp Hb Hbp)|]. apply J_nokerr. intros k. cbn in Hb. injection Hb as <-. reflexivity.
  - split; [apply Rel_RelG; apply (build_rel (RFunc k d c) eq_refl w wp Hb Hbp)|]. apply J_nokerr. intros k'. cbn in Hb. injection Hb as <-. reflexivity.
  - (* sequence *)
    apply revR_all_Forall in Hp. rewrite build_seq in Hb. rewrite build_plain_seq in Hbp.
    destruct (blist l) as [ws|] eqn:Ews; cbn [bind] in Hb; [|discriminate].
    destruct (bplist l) as [wps|] eqn:Ewps; cbn [bind] in Hbp; [|discriminate].
    destruct wps as [|xp rest]; [discriminate|].
    destruct (forallb (fun y => set_eqb (channels y) (channels xp)) rest) eqn:Echk; [|discriminate]. injection Hbp as <-.
    apply (kfree_all_Forall (xp :: rest)) in Hkf.
    pose proof (lists_relGK l H Hp ws _ Ews Ewps Hkf) as FK. pose proof (F2_RelGK_RelG _ _ FK) as F.
    assert (Hokp : okb (WSeq (xp :: rest)) = true).
    { cbn [okb]. rewrite Echk. cbn [andb]. refine (okb_Forall_all (xp :: rest) _). apply Forall_forall. intros y Hy.
      destruct (Forall2_In_r _ _ _ y F Hy) as [x [_ [_ [O _]]]]. exact O. }
    destruct (seq_congrG ws _ F Hokp) as [Hok E].
    pose proof (Forall2_goodG _ _ F) as Gws.
    assert (Hcan : Forall (fun x => canonb x = true) ws) by (eapply Forall_impl; [|exact Gws]; intros y [_ Cy]; exact Cy).
    destruct o.
    + split.
      * destruct (from_sequence_okb ws w Hok Hcan Hb) as [Gw [Cw Dw]].
        split; [exact Gw|]. split; [exact Hokp|]. apply (Eqv_EqvG _ (WSeq ws)); [|exact E].
        split; [exact Cw|]. split; [rewrite Dw, duration_seq; reflexivity|].
        intros c t Hc H0 H1. exact (from_sequence_sound ws w Hok Hb c t Hc H0 H1).
      * intros c Hc Hk. pose proof (seq_parts_JG ws _ c (F2_RelGK_CJ _ _ FK) Hokp Hc Hk) as HP.
        unfold from_sequence in Hb. destruct ws as [|x [|y r]]; [discriminate| |].
        -- injection Hb as <-. apply HP. left; reflexivity.
        -- match type of Hb with match ?cvs with Some _ => _ | None => _ end = _ => destruct cvs as [d|] end.
           ++ exact (kerr_from_mapping _ _ _ Hb c).
           ++ unfold mk_seq in Hb. match type of Hb with match ?fl with [] => _ | _ :: _ => _ end = _ => set (FL := fl) in * end.
              assert (HFL : forall z, In z FL -> kerr z c = false).
              { intros z Hz. change FL with (flatseq (x :: y :: r)) in Hz.
                destruct (In_flatseq z _ Hz) as [a [Ha [->|[s [-> Hzs]]]]]; [exact (HP _ Ha)|].
                pose proof (HP _ Ha) as Ka. rewrite kerr_seq_any in Ka.
                destruct (kerr z c) eqn:Ez; [|reflexivity].
                assert (existsb (fun x0 => kerr x0 c) s = true) by (apply existsb_exists; eauto). congruence. }
              destruct FL as [|f0 fr]; [discriminate|].
              destruct (forallb (fun y0 => set_eqb (channels y0) (channels f0)) fr); [|discriminate]. injection Hb as <-.
              apply kerr_seq_false. exact HFL.
    + unfold mk_seq in Hb. destruct ws as [|x r]; [discriminate|].
      destruct (forallb (fun y => set_eqb (channels y) (channels x)) r); [|discriminate]. injection Hb as <-.
      split; [split; [split; [exact Hok|exact (canonb_Forall_all (x :: r) Hcan)]|split; [exact Hokp|exact E]]|].
      intros c Hc Hk. apply kerr_seq_false. exact (seq_parts_JG _ _ c (F2_RelGK_CJ _ _ FK) Hokp Hc Hk).
  - (* multi-channel *)
    apply revR_all_Forall in Hp. rewrite build_multi in Hb. rewrite build_plain_multi in Hbp.
    destruct (blist l) as [ws|] eqn:Ews; cbn [bind] in Hb; [|discriminate].
    destruct (bplist l) as [wps|] eqn:Ewps; cbn [bind] in Hbp; [|discriminate].
    destruct wps as [|xp rest]; [discriminate|].
    destruct (overlap_free (xp :: rest) [] && forallb (fun y => Qeq_bool (duration y) (duration xp)) rest) eqn:Echk; [|discriminate].
    injection Hbp as <-. apply andb_prop in Echk as [Hov Hdur].
    apply (kfree_all_Forall (xp :: rest)) in Hkf.
    pose proof (lists_relGK l H Hp ws _ Ews Ewps Hkf) as FK. pose proof (F2_RelGK_RelG _ _ FK) as F.
    assert (Hokp : okb (WMulti (xp :: rest)) = true).
    { cbn [okb]. rewrite Hdur, Hov. cbn [andb]. refine (okb_Forall_all (xp :: rest) _). apply Forall_forall. intros y Hy.
      destruct (Forall2_In_r _ _ _ y F Hy) as [x [_ [_ [O _]]]]. exact O. }
    pose proof (Forall2_goodG _ _ F) as Gws.
    assert (Hd : forall x y, In x ws -> In y ws -> duration x == duration y).
    { intros x y Hx Hy. destruct (Forall2_In_l _ _ _ x F Hx) as [x' [Hx' [_ [_ [_ [Dx _]]]]]].
      destruct (Forall2_In_l _ _ _ y F Hy) as [y' [Hy' [_ [_ [_ [Dy _]]]]]].
      rewrite Dx, Dy, (multi_part_duration _ x' Hokp Hx'), (multi_part_duration _ y' Hokp Hy'). reflexivity. }
    destruct o.
    + unfold from_parallel in Hb. destruct ws as [|x [|y r]]; [discriminate| |].
      * injection Hb as <-. split.
        -- apply (multi_relG [x] _ x F Hokp).
           ++ apply Forall_cons_iff in Gws as [G _]. exact G.
           ++ intros c. cbn [existsb]. rewrite orb_false_r. reflexivity.
           ++ intros a [<-|[]]. reflexivity.
           ++ intros c a t [<-|[]] _. reflexivity.
        -- intros c Hc Hk. change (has c (WMulti (xp :: rest)) = true) in Hc.
           inversion FK as [|? ? ? ? [[_ [_ [C _]]] _] F']; subst. inversion F'; subst.
           apply (multi_parts_JG [x] _ c (F2_RelGK_CJ _ _ FK) Hokp Hk x (or_introl eq_refl)).
           rewrite has_multi in Hc. cbn [existsb] in Hc. rewrite orb_false_r in Hc. unfold has in *. rewrite C. exact Hc.
      * change (flat_map (fun w => match is_multi w with Some s => s | None => [w] end) (x :: y :: r)) with (flat (x :: y :: r)) in Hb.
        split.
        -- destruct (mk_multi_flat _ w Gws Hd Hb) as [Gw [Cw [Dw Sw]]]. exact (multi_relG _ _ w F Hokp Gw Cw Dw Sw).
        -- intros c Hc Hk. destruct (flat_parts_good _ Gws Hd) as [Fg [Fd _]].
           apply (mk_multi_J _ w c Hb Fg Fd). apply (flat_parts_J _ c Gws). exact (multi_parts_JG _ _ c (F2_RelGK_CJ _ _ FK) Hokp Hk).
    + split.
      * destruct (mk_multi_okb ws w Hb Gws Hd) as [Gw [Cw [Dw _]]].
        exact (multi_relG _ _ w F Hokp Gw Cw Dw (mk_multi_sample ws w Hb Gws Hd)).
      * intros c Hc Hk. apply (mk_multi_J _ w c Hb Gws Hd). exact (multi_parts_JG _ _ c (F2_RelGK_CJ _ _ FK) Hokp Hk).
  - (* repetition *)
    cbn [build build_plain] in Hb, Hbp.
    destruct (build r) as [b|] eqn:Eb; cbn [bind] in Hb; [|discriminate].
    destruct (build_plain r) as [bp|] eqn:Ebp; cbn [bind] in Hbp; [|discriminate].
    destruct (n <? 1)%Z eqn:En; [discriminate|]. injection Hbp as <-. apply Z.ltb_ge in En. cbn [kfree] in Hkf.
    pose proof (IHr Hp b bp Eb Ebp Hkf) as [R Jb]. pose proof R as [Gb [Obp _]].
    assert (Hokp : okb (WRep bp n) = true) by (cbn [okb]; rewrite Obp, andb_true_r; apply Z.leb_le; lia).
    pose proof (rep_congrG b bp n R ltac:(lia)) as E.
    destruct o.
    + split.
      * destruct (from_repetition_count_okb b n w Gb ltac:(lia) Hb) as [Gw [Cw Dw]].
        split; [exact Gw|]. split; [exact Hokp|]. apply (Eqv_EqvG _ (WRep b n)); [|exact E].
        split; [exact Cw|]. split; [exact Dw|].
        intros c t Hc H0 H1. exact (from_repetition_count_sound b n w (proj1 Gb) ltac:(lia) Hb c t Hc H0 H1).
      * intros c Hc Hk. unfold from_repetition_count in Hb. destruct (cvd b) as [d|].
        -- exact (kerr_from_mapping _ _ _ Hb c).
        -- unfold mk_rep in Hb. destruct (n <? 1)%Z; [discriminate|]. injection Hb as <-. cbn [kerr channels] in *. exact (Jb c Hc Hk).
    + unfold mk_rep in Hb. destruct (n <? 1)%Z; [discriminate|]. injection Hb as <-.
      split; [split; [destruct Gb as [O C]; split; cbn [okb canonb]; auto; rewrite O, andb_true_r; apply Z.leb_le; lia|split; [exact Hokp|exact E]]|].
      intros c Hc Hk. cbn [kerr channels] in *. exact (Jb c Hc Hk).
  - (* transformation *)
    apply andb_prop in Hp as [Hp Hpr]. apply andb_prop in Hp as [Hwf Hnd].
    cbn [build build_plain] in Hb, Hbp.
    destruct (build r) as [b|] eqn:Eb; cbn [bind] in Hb; [|discriminate].
    destruct (build_plain r) as [bp|] eqn:Ebp; cbn [bind] in Hbp; [|discriminate].
    destruct (t_out T (channels bp)) as [co|] eqn:Eo; [|discriminate]. injection Hbp as <-.
    cbn [kfree] in Hkf. apply andb_prop in Hkf as [Hkall Hkf].
    pose proof (IHr Hpr b bp Eb Ebp Hkf) as [R Jb]. pose proof R as [Gb [Obp [C [D _]]]].
    assert (Hokp : okb (WTrans bp T) = true) by (cbn [okb]; rewrite Obp, Eo; reflexivity).
    destruct (trans_congrG b bp T R Hokp) as [Gplain E]. pose proof (trans_JG b bp T C Jb Hokp) as Jplain.
    assert (Hplain : mk_trans b T = OK w -> RelGK w (WTrans bp T)).
    { intros Hm. unfold mk_trans in Hm. destruct (t_out T (channels b)); [|discriminate]. injection Hm as <-.
      split; [split; [exact Gplain|split; [exact Hokp|exact E]]|exact Jplain]. }
    destruct o; [|exact (Hplain Hb)].
    destruct (cvd b) as [d|] eqn:Ed; [|rewrite (from_transformation_plain b T (or_introl Ed)) in Hb; exact (Hplain Hb)].
    destruct (t_const_inv T) eqn:Eci; [|rewrite (from_transformation_plain b T (or_intror Eci)) in Hb; exact (Hplain Hb)].
    destruct (from_transformation_fold_good b T d w Gb Hwf Hnd (proj1 Gplain) Ed Eci Hb) as [Gw [Cw Dw]].
    split.
    + split; [exact Gw|]. split; [exact Hokp|]. apply (Eqv_EqvG _ (WTrans b T)); [|exact E].
      split; [exact Cw|]. split; [exact Dw|]. intros c t Hc H0 H1. cbn [duration] in H1.
      apply (from_transformation_sound_gen b T d w (proj1 Gplain) Hwf Ed Eci Hb c t Hc); auto.
      apply Jplain.
      * rewrite <- (proj1 E c). exact Hc.
      * rewrite forallb_forall in Hkall. specialize (Hkall c). rewrite negb_true_iff in Hkall. apply Hkall.
        apply inb_In. rewrite <- (proj1 E c). exact Hc.
    + unfold from_transformation in Hb. rewrite Ed, Eci in Hb. cbn [negb] in Hb.
      destruct (t_point T 0 (map (fun kv : chan * Q => (fst kv, Some (snd kv))) d)); [|discriminate].
      apply J_nokerr. exact (kerr_from_mapping _ _ _ Hb).
  - (* SubsetWaveform *)
    cbn [build build_plain] in Hb, Hbp.
    destruct (build r) as [b|] eqn:Eb; cbn [bind] in Hb; [|discriminate].
    destruct (build_plain r) as [bp|] eqn:Ebp; cbn [bind] in Hbp; [|discriminate]. injection Hb as <-.
    destruct cs as [|c0 cs']; [discriminate|]. destruct (subsetb (c0 :: cs') (channels bp)) eqn:Es; [|discriminate]. injection Hbp as <-.
    cbn [kfree] in Hkf.
    pose proof (IHr Hp b bp Eb Ebp Hkf) as [[Gb [Obp [C [D S]]]] Jb].
    assert (Hsb : subsetb (c0 :: cs') (channels b) = true).
    { apply subsetb_sub. intros c Hc. rewrite C. exact (subsetb_inb _ _ _ Es Hc). }
    pose proof (mk_subset_good b (c0 :: cs') Gb ltac:(discriminate) Hsb) as Gs.
    split.
    + split; [exact Gs|]. split; [cbn [okb]; rewrite Obp, Es; reflexivity|].
      split; [intros c; unfold mk_subset; cbn [channels]; apply inb_canon_cs|]. split; [exact D|].
      intros c t Hc H0 H1. cbn [channels duration] in *. unfold mk_subset. cbn [sample]. apply S; auto.
      exact (subsetb_inb _ _ _ Es Hc).
    + intros c Hc Hk. unfold mk_subset. cbn [kerr channels] in *. apply (Jb c); [exact (subsetb_inb _ _ _ Es Hc)|exact Hk].
  - (* arithmetic *)
    apply andb_prop in Hp as [P1 P2]. cbn [build build_plain] in Hb, Hbp.
    destruct (build r1) as [a|] eqn:Ea; cbn [bind] in Hb; [|discriminate].
    destruct (build r2) as [b|] eqn:Eb; cbn [bind] in Hb; [|discriminate].
    destruct (build_plain r1) as [ap|] eqn:Eap; cbn [bind] in Hbp; [|discriminate].
    destruct (build_plain r2) as [bp|] eqn:Ebp; cbn [bind] in Hbp; [|discriminate].
    destruct (Qeq_bool (duration ap) (duration bp)) eqn:Ed; [|discriminate]. injection Hbp as <-. apply Qeq_bool_iff in Ed.
    cbn [kfree] in Hkf. apply andb_prop in Hkf as [K1 K2].
    pose proof (IHr1 P1 a ap Ea Eap K1) as [Ra Ja]. pose proof (IHr2 P2 b bp Eb Ebp K2) as [Rb Jb].
    pose proof Ra as [Ga [Oap [Ca [Da _]]]]. pose proof Rb as [Gb [Obp [Cb [Db _]]]].
    assert (Hdab : duration a == duration b) by (rewrite Da, Db; exact Ed).
    assert (Hokp : okb (WArith ap op bp) = true) by (cbn [okb]; rewrite Oap, Obp; cbn [andb]; apply Qeq_bool_iff; exact Ed).
    pose proof (arith_congrG a ap b bp op Ra Rb Ed) as E.
    assert (Gplain : good (WArith a op b)).
    { destruct Ga as [O1 C1], Gb as [O2 C2]. split; cbn [okb canonb]; rewrite ?O1, ?O2, ?C1, ?C2; cbn [andb]; auto. apply Qeq_bool_iff; exact Hdab. }
    assert (Jplain : J (WArith a op b) (WArith ap op bp)).
    { intros c Hc Hk. cbn [kerr channels] in *. rewrite Ca, Cb. apply orb_false_iff in Hk as [Hk1 Hk2].
      destruct (inb c (channels ap)) eqn:E1; cbn [andb] in *; [rewrite (Ja c E1 Hk1)|]; cbn [orb];
        (destruct (inb c (channels bp)) eqn:E2; cbn [andb] in *; [exact (Jb c E2 Hk2)|reflexivity]). }
    destruct o.
    + split.
      * destruct (from_operator_good a op b w Ga Gb Hdab Hb) as [Gw [Cw Dw]].
        split; [exact Gw|]. split; [exact Hokp|]. apply (Eqv_EqvG _ (WArith a op b)); [|exact E].
        split; [exact Cw|]. split; [exact Dw|]. intros c t Hc H0 H1. cbn [duration] in H1.
        destruct (cvd a) as [dl|] eqn:El; [destruct (cvd b) as [dr|] eqn:Er|].
        -- exact (from_operator_const_sound a op b dl dr w (proj1 Ga) (proj1 Gb) Hdab El Er
                   (cvd_nodup b dr (proj1 Gb) (proj2 Gb) Er) Hb c t Hc H0 H1).
        -- rewrite (from_operator_plain a op b (or_intror Er)) in Hb. unfold mk_arith in Hb.
           destruct (isclose (duration a) (duration b)); [|discriminate]. injection Hb as <-. apply oQeq_refl.
        -- rewrite (from_operator_plain a op b (or_introl El)) in Hb. unfold mk_arith in Hb.
           destruct (isclose (duration a) (duration b)); [|discriminate]. injection Hb as <-. apply oQeq_refl.
      * destruct (cvd a) as [dl|] eqn:El; [destruct (cvd b) as [dr|] eqn:Er|].
        -- unfold from_operator in Hb. rewrite El, Er in Hb. destruct (isclose (duration a) (duration b)); [|discriminate].
           apply J_nokerr. exact (kerr_from_mapping _ _ _ Hb).
        -- rewrite (from_operator_plain a op b (or_intror Er)) in Hb. unfold mk_arith in Hb.
           destruct (isclose (duration a) (duration b)); [|discriminate]. injection Hb as <-. exact Jplain.
        -- rewrite (from_operator_plain a op b (or_introl El)) in Hb. unfold mk_arith in Hb.
           destruct (isclose (duration a) (duration b)); [|discriminate]. injection Hb as <-. exact Jplain.
    + unfold mk_arith in Hb. destruct (isclose (duration a) (duration b)); [|discriminate]. injection Hb as <-.
      split; [split; [exact Gplain|split; [exact Hokp|exact E]]|exact Jplain].
  - (* functor *)
    cbn [build build_plain] in Hb, Hbp.
    destruct (build r) as [b|] eqn:Eb; cbn [bind] in Hb; [|discriminate].
    destruct (build_plain r) as [bp|] eqn:Ebp; cbn [bind] in Hbp; [|discriminate].
    destruct (set_eqb (keys f) (channels bp)) eqn:Ek; [|discriminate]. injection Hbp as <-. cbn [kfree] in Hkf.
    pose proof (IHr Hp b bp Eb Ebp Hkf) as [R Jb]. pose proof R as [Gb [Obp [C _]]].
    assert (Hkb : set_eqb (keys f) (channels b) = true).
    { apply set_eqb_intro. intros c. rewrite C. apply set_eqb_inb. exact Ek. }
    assert (Hokp : okb (WFunctor bp f) = true) by (cbn [okb]; rewrite Obp, Ek; reflexivity).
    destruct o.
    + split.
      * destruct (from_functor_okb b f w Gb Hkb Hb) as [Gw [Cw Dw]].
        split; [exact Gw|]. split; [exact Hokp|]. apply (Eqv_EqvG _ (WFunctor b f)); [|exact (functor_congrG b bp f f R (fun _ => eq_refl))].
        split; [exact Cw|]. split; [exact Dw|]. intros c t Hc H0 H1.
        exact (from_functor_sound b f w (proj1 Gb) Hkb Hb c t Hc H0 H1).
      * unfold from_functor in Hb. destruct (cvd b) as [d|].
        -- destruct (forallb (fun kv => inb (fst kv) (keys f)) d); [|discriminate]. apply J_nokerr. exact (kerr_from_mapping _ _ _ Hb).
        -- destruct (mk_functor_good b f w Gb Hb) as [_ ->]. intros c Hc Hk. cbn [kerr channels] in *. exact (Jb c Hc Hk).
    + destruct (mk_functor_good b f w Gb Hb) as [Gw ->].
      split; [split; [exact Gw|split; [exact Hokp|apply functor_congrG; [exact R|intros c; apply lookup_canon_kv]]]|].
      intros c Hc Hk. cbn [kerr channels] in *. exact (Jb c Hc Hk).
  - (* negation *)
    cbn [build build_plain] in Hb, Hbp.
    destruct (build r) as [b|] eqn:Eb; cbn [bind] in Hb; [|discriminate].
    destruct (build_plain r) as [bp|] eqn:Ebp; cbn [bind] in Hbp; [|discriminate]. injection Hbp as <-. cbn [kfree] in Hkf.
    pose proof (IHr Hp b bp Eb Ebp Hkf) as [R Jb]. pose proof R as [Gb [Obp [C _]]]. unfold neg in Hb.
    set (fb := map (fun c => (c, FNeg)) (channels b)) in *. set (fp := map (fun c => (c, FNeg)) (channels bp)).
    assert (Hkb : set_eqb (keys fb) (channels b) = true) by (apply set_eqb_intro; intros c; unfold fb; rewrite keys_map_key'; reflexivity).
    assert (Hokp : okb (WFunctor bp fp) = true).
    { cbn [okb]. rewrite Obp. cbn [andb]. apply set_eqb_intro. intros c. unfold fp. rewrite keys_map_key'. reflexivity. }
    split.
    + destruct (from_functor_okb b fb w Gb Hkb Hb) as [Gw [Cw Dw]].
      split; [exact Gw|]. split; [exact Hokp|]. apply (Eqv_EqvG _ (WFunctor b fb)).
      * split; [exact Cw|]. split; [exact Dw|]. intros c t Hc H0 H1.
        exact (from_functor_sound b fb w (proj1 Gb) Hkb Hb c t Hc H0 H1).
      * apply functor_congrG; [exact R|]. intros c. unfold fb, fp. rewrite !(lookup_map_key (fun _ => FNeg)), C. reflexivity.
    + unfold from_functor in Hb. destruct (cvd b) as [d|].
      * destruct (forallb (fun kv => inb (fst kv) (keys fb)) d); [|discriminate]. apply J_nokerr. exact (kerr_from_mapping _ _ _ Hb).
      * destruct (mk_functor_good b fb w Gb Hb) as [_ ->]. intros c Hc Hk. cbn [kerr channels] in *. exact (Jb c Hc Hk).
  - (* ReversedWaveform(inner) *)
    cbn [build build_plain] in Hb, Hbp.
    destruct (build r) as [b|] eqn:Eb; cbn [bind] in Hb; [|discriminate].
    destruct (build_plain r) as [bp|] eqn:Ebp; cbn [bind] in Hbp; [|discriminate]. injection Hb as <-. injection Hbp as <-.
    cbn [kfree] in Hkf. pose proof (IHr Hp b bp Eb Ebp Hkf) as [R Jb]. pose proof R as [[Ob Cb] [Obp _]].
    split; [split; [split; [exact Ob|exact Cb]|split; [exact Obp|exact (rev_congrG b bp R)]]|].
    intros c Hc Hk. cbn [kerr channels] in *. exact (Jb c Hc Hk).
  - (* from_to_reverse *)
    cbn [build build_plain] in Hb, Hbp.
    destruct (build r) as [b|] eqn:Eb; cbn [bind] in Hb; [|discriminate].
    destruct (build_plain r) as [bp|] eqn:Ebp; cbn [bind] in Hbp; [|discriminate]. injection Hb as <-. injection Hbp as <-.
    cbn [kfree] in Hkf. pose proof (IHr Hp b bp Eb Ebp Hkf) as [R Jb]. pose proof R as [Gb [Obp [C [D _]]]].
    destruct (from_to_reverse_okb b Gb) as [Gf [Cf Df]].
    split.
    + split; [exact Gf|]. split; [exact Obp|].
      destruct (rev_congrG b bp R) as [_ [_ SR]].
      split; [intros c; rewrite Cf; apply C|]. split; [rewrite Df; exact D|].
      intros c t Hc H0 H1 Hg. cbn [channels duration] in Hc, H1.
      assert (Ht : ~ t == 0).
      { cbn [rg] in Hg. apply andb_prop in Hg as [Hn _]. intros E; apply Qeq_bool_iff in E; rewrite E in Hn; discriminate. }
      eapply oQeq_trans; [apply (from_to_reverse_sound b (proj1 Gb) c t); [rewrite C; exact Hc|lra|rewrite D; exact H1]|].
      apply SR; auto.
    + intros c Hc Hk. cbn [kerr channels] in Hc, Hk. unfold from_to_reverse. destruct (cvd b) as [[|kv d]|]; cbn [kerr]; exact (Jb c Hc Hk).
  - (* reversed() *)
    cbn [build build_plain] in Hb, Hbp.
    destruct (build r) as [b|] eqn:Eb; cbn [bind] in Hb; [|discriminate].
    destruct (build_plain r) as [bp|] eqn:Ebp; cbn [bind] in Hbp; [|discriminate]. injection Hb as <-. injection Hbp as <-.
    cbn [kfree] in Hkf. pose proof (IHr Hp b bp Eb Ebp Hkf) as [R Jb]. pose proof R as [[Ob Cb] [Obp [C [D _]]]].
    split.
    + split; [destruct b; cbn [reversed]; split; auto|]. split; [exact Obp|].
      destruct (rev_congrG b bp R) as [_ [_ SR]].
      split; [intros c; rewrite reversed_channels; apply C|]. split; [rewrite reversed_duration; exact D|].
      intros c t Hc H0 H1 Hg. eapply oQeq_trans; [apply reversed_mirror|]. apply (SR c t Hc H0 H1 Hg).
    + intros c Hc Hk. cbn [kerr channels] in Hc, Hk. pose proof (Jb c Hc Hk) as K. destruct b; cbn [reversed kerr] in *; exact K.
Qed.

(* the clause of the property for these recipes *)
Theorem constructors_rev_recipes : forall r w wp, revR r = true -> build r = OK w -> build_plain r = OK wp -> kfree wp = true ->
  okb w = true /\ (forall c, inb c (channels w) = inb c (channels wp)) /\ duration w == duration wp /\
  (forall c t, inb c (channels wp) = true -> 0 <= t -> t < duration wp -> rg wp c t = true -> oQeq (sample w c t) (sample wp c t)) /\
  (forall c, inb c (channels wp) = true -> kerr wp c = false -> kerr w c = false).
Proof.
  intros r w wp Hp Hb Hbp Hk. destruct (build_relGK r Hp w wp Hb Hbp Hk) as [[[O _] [_ [C [D S]]]] Jw].
  split; [exact O|]. split; [exact C|]. split; [exact D|]. split; [exact S|exact Jw].
Qed.

(* without ReversedWaveform nodes in the plain composite the time guard excludes nothing *)
Lemma norevw_all_Forall l :
  (fix all (l : list wf) := match l with [] => true | x :: r => norevw x && all r end) l = true -> Forall (fun x => norevw x = true) l.
Proof.
  induction l as [|x r IH]; intros H; constructor.
  - apply andb_prop in H as [H _]; exact H.
  - apply IH. apply andb_prop in H as [_ H]; exact H.
Qed.
Lemma rg_norev : forall w, norevw w = true -> forall c t, rg w c t = true.
Proof.
  induction w using wf_ind'; intros Hn ch t; cbn [norevw] in Hn; cbn [rg]; auto.
  - apply norevw_all_Forall in Hn. apply tg_list_all_true. apply Forall_forall. intros dg Hdg.
    apply in_map_iff in Hdg as [s [<- Hs]]. cbn [snd]. intros u. rewrite Forall_forall in H, Hn. apply H; auto.
  - apply norevw_all_Forall in Hn. induction H as [|s r Hs _ IH]; [reflexivity|]. apply Forall_cons_iff in Hn as [N1 N2].
    destruct (inb ch (channels s)); [apply Hs; exact N1|apply IH; exact N2].
  - apply tg_list_all_true. apply Forall_forall. intros dg Hdg. apply repeat_spec in Hdg. subst dg. cbn [snd]. intros u. apply IHw; exact Hn.
  - apply forallb_forall. intros ic _. apply IHw; exact Hn.
  - apply andb_prop in Hn as [N1 N2]. rewrite (IHw1 N1), (IHw2 N2). destruct (inb ch (channels w1)), (inb ch (channels w2)); reflexivity.
  - discriminate.
Qed.
Lemma transR_revR : forall r, transR r = true -> revR r = true.
Proof.
  induction r using recipe_ind'; cbn [transR revR]; intros Hp; try discriminate; auto.
  - apply transR_all_Forall in Hp. induction H as [|x l Hx _ IH]; [reflexivity|].
    apply Forall_cons_iff in Hp as [P1 P2]. rewrite (Hx P1). exact (IH P2).
  - apply transR_all_Forall in Hp. induction H as [|x l Hx _ IH]; [reflexivity|].
    apply Forall_cons_iff in Hp as [P1 P2]. rewrite (Hx P1). exact (IH P2).
  - apply andb_prop in Hp as [P1 P2]. rewrite P1. cbn [andb]. exact (IHr P2).
  - apply andb_prop in Hp as [P1 P2]. rewrite (IHr1 P1), (IHr2 P2). reflexivity.
Qed.

(* non-vacuity: from_to_reverse around a sequence that from_sequence folds to a constant (the class of
   C08_constructors_refuted), a time dependent transformation below a reversal, reversed() of a ReversedWaveform: the guard
   excludes t = 0 (there the waveforms differ: Some 1 / None) and admits every other time *)
Example constructors_rev_example :
  let ramp c := RTable true c [mkE 0 1 Hold; mkE (1#2) 2 Linear] in
  let r := RSeq true [RFromToReverse (RSeq true [RConst (1#2) 1 1%N; RConst (1#2) 1 1%N]);
                      RRev (RTrans true (RSeq false [ramp 1%N; RReversed (RRev (ramp 1%N))]) (TScale [(1%N, TT 1 2)]));
                      RReversed (RRep true (ramp 1%N) 2)] in
  revR r = true /\
  match build r, build_plain r with
  | OK w, OK wp => kfree wp && negb (wf_eqb w wp)
                   && negb (rg wp 1%N 0) && oQeqb (sample w 1%N 0) (Some 1) && oQeqb (sample wp 1%N 0) None
                   && rg wp 1%N (1#4) && oQeqb (sample w 1%N (1#4)) (sample wp 1%N (1#4))
                   && rg wp 1%N (5#4) && oQeqb (sample w 1%N (5#4)) (sample wp 1%N (5#4))
                   && negb (rg wp 1%N 1) && rg wp 1%N (9#4) && oQeqb (sample w 1%N (9#4)) (sample wp 1%N (9#4))
  | _, _ => false
  end = true.
Proof. vm_compute. split; reflexivity. Qed.

(* ---- get_subset_for_channels at the ROOT of such a recipe: composition of get_subset_sound with the theorem above.  The
   time guard of get_subset_sound ([ProofsSubset.tg]) is about the BUILT inner waveform [b]; its transfer from the plain
   composite through every constructor is not proved, so it stays an (executable) hypothesis here, and get_subset nodes
   BELOW other nodes are not covered. ---- *)
Theorem constructors_getsubset_root : forall r cs b w' wp, revR r = true -> build r = OK b -> get_subset b cs = OK w' ->
  build_plain (RGetSubset r cs) = OK wp -> kfree wp = true ->
  okb w' = true /\ (forall c, inb c (channels w') = inb c (channels wp)) /\ duration w' == duration wp /\
  forall c t, inb c (channels wp) = true -> 0 <= t -> t < duration wp -> rg wp c t = true -> tg b c t = true ->
  oQeq (sample w' c t) (sample wp c t).
Proof.
  intros r cs b w' wp Hp Hb Hg Hbp Hkf. cbn [build_plain] in Hbp.
  destruct (build_plain r) as [bp|] eqn:Ebp; cbn [bind] in Hbp; [|discriminate].
  destruct cs as [|c0 cs']; [discriminate|]. destruct (subsetb (c0 :: cs') (channels bp)) eqn:Es; [|discriminate]. injection Hbp as <-.
  cbn [kfree] in Hkf. destruct (build_relGK r Hp b bp Hb Ebp Hkf) as [[[Ob Cb] [Obp [C [D S]]]] _].
  destruct (get_subset_sound b (c0 :: cs') w' Ob Cb ltac:(discriminate) Hg) as [Ow [Cw [Dw Sw]]].
  split; [exact Ow|]. split; [intros c; rewrite Cw; reflexivity|]. split; [cbn [duration]; rewrite Dw; exact D|].
  intros c t Hc H0 H1 Hr Ht. cbn [channels duration rg sample] in *.
  eapply oQeq_trans; [apply Sw; auto; rewrite D; exact H1|]. apply S; auto. exact (subsetb_inb _ _ _ Es Hc).
Qed.
