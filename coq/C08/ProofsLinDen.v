(* C08 — the pointwise meaning of the code IS the denotation of DESIGN 4.4 also for waveforms WITH transformations
   (any kind, incl. LinearTransformation and chains): the denotation applies the transformation to the complete inner
   waveform, the code to the channels get_input_channels selects.  Guards: reversal only directly around tables /
   function waveforms ([plainrevT]), constructor shape of every transformation ([twf_all]), no KeyError on the path of
   the channel ([kerr w c = false], known finding C08-chain-parallel-linear-keyerror). *)
From Coq Require Import List ZArith QArith Qabs Bool Lia Lqa.
Require Import QV.C08.Model QV.C08.Spec QV.C08.Wf QV.C08.Hist QV.C08.Lin QV.C08.ProofsVec QV.C08.ProofsConst
               QV.C08.ProofsProper QV.C08.ProofsTrafo QV.C08.ProofsCtor QV.C08.ProofsFlat QV.C08.ProofsTotalT
               QV.C08.ProofsDen QV.C08.ProofsLin.
Import ListNotations.
Open Scope Q_scope.

Lemma plainrevT_all_Forall l :
  (fix all (l : list wf) := match l with [] => true | x :: r => plainrevT x && all r end) l = true ->
  Forall (fun x => plainrevT x = true) l.
Proof.
  induction l as [|x r IH]; intros H; constructor.
  - apply andb_prop in H as [H _]; exact H.
  - apply IH. apply andb_prop in H as [_ H]; exact H.
Qed.
Lemma twf_all_Forall l :
  (fix all (l : list wf) := match l with [] => true | x :: r => twf_all x && all r end) l = true ->
  Forall (fun x => twf_all x = true) l.
Proof.
  induction l as [|x r IH]; intros H; constructor.
  - apply andb_prop in H as [H _]; exact H.
  - apply IH. apply andb_prop in H as [_ H]; exact H.
Qed.

Lemma nf_plainrevT : forall w, plainrevT w = true -> nf false w = w.
Proof.
  induction w using wf_ind'; intros Hp; cbn [plainrevT] in Hp; cbn [nf]; auto.
  - f_equal. apply plainrevT_all_Forall in Hp. induction H as [|x r Hx _ IH]; [reflexivity|].
    apply Forall_cons_iff in Hp as [A B]. cbn [map]. rewrite (Hx A), (IH B). reflexivity.
  - f_equal. apply plainrevT_all_Forall in Hp. induction H as [|x r Hx _ IH]; [reflexivity|].
    apply Forall_cons_iff in Hp as [A B]. cbn [map]. rewrite (Hx A), (IH B). reflexivity.
  - rewrite (IHw Hp). reflexivity.
  - rewrite (IHw Hp). reflexivity.
  - rewrite (IHw Hp). reflexivity.
  - apply andb_prop in Hp as [A B]. rewrite (IHw1 A), (IHw2 B). reflexivity.
  - rewrite (IHw Hp). reflexivity.
  - destruct w; try discriminate; reflexivity.
Qed.

Lemma keys_map_key {A} (g : chan -> A) l : keys (map (fun ic => (ic, g ic)) l) = l.
Proof. unfold keys. rewrite map_map. cbn. apply map_id. Qed.

Theorem sc_is_sample_T : forall w, okb w = true -> plainrevT w = true -> twf_all w = true -> forall c,
  inb c (channels w) = true -> kerr w c = false -> sc_ok w c.
Proof.
  induction w using wf_ind'; intros Hok Hp Hw ch Hch Hk t H0 H1; cbn [okb] in Hok; cbn [plainrevT] in Hp; cbn [twf_all] in Hw.
  - reflexivity.
  - reflexivity.
  - reflexivity.
  - (* sequence *)
    apply andb_prop in Hok as [Hchs Hoks]. apply okb_all_Forall in Hoks. apply plainrevT_all_Forall in Hp.
    apply twf_all_Forall in Hw. cbn [kerr] in Hk. apply kerr_seq_Forall in Hk.
    rewrite sc_seq, sample_seq. rewrite duration_seq in H1.
    assert (Hin := seq_children_have_chan l ch Hchs Hch).
    apply scseq_seqp; [| |lra|lra].
    + clear Hchs Hch H0 H1. induction H as [|s l' Hs _ IH]; [constructor|].
      apply Forall_cons_iff in Hoks as [Ho1 Ho2]. apply Forall_cons_iff in Hp as [Hp1 Hp2].
      apply Forall_cons_iff in Hw as [Hw1 Hw2]. apply Forall_cons_iff in Hk as [Hk1 Hk2].
      apply Forall_cons_iff in Hin as [Hi1 Hi2]. constructor; [exact (Hs Ho1 Hp1 Hw1 ch Hi1 Hk1)|auto].
    + eapply Forall_impl; [|exact Hoks]. intros y Hy. apply okb_pos; exact Hy.
  - (* multi-channel *)
    apply andb_prop in Hok as [Hok Hoks]. apply andb_prop in Hok as [Hdur Hov].
    apply okb_all_Forall in Hoks. apply plainrevT_all_Forall in Hp. apply twf_all_Forall in Hw.
    assert (Hd : Forall (fun y => duration y == duration (WMulti l)) l).
    { destruct l as [|x r]; [discriminate|]. cbn [duration].
      constructor; [reflexivity|]. rewrite forallb_forall in Hdur. apply Forall_forall. intros y Hy.
      apply Qeq_bool_iff. auto. }
    clear Hdur Hov. revert H1 Hd. generalize (duration (WMulti l)) as d0. intros d0 H1 Hd.
    cbn [sc sample channels kerr] in *.
    induction H as [|s l' Hs _ IH]; [reflexivity|].
    apply Forall_cons_iff in Hoks as [Ho1 Ho2]. apply Forall_cons_iff in Hp as [Hp1 Hp2].
    apply Forall_cons_iff in Hw as [Hw1 Hw2]. apply Forall_cons_iff in Hd as [Hd1 Hd2].
    destruct (inb ch (channels s)) eqn:E.
    + apply (Hs Ho1 Hp1 Hw1 ch E Hk); lra.
    + apply IH; auto. rewrite inb_unionb, E in Hch. exact Hch.
  - (* repetition *)
    apply andb_prop in Hok as [Hn Hokb]. cbn [channels] in Hch. cbn [kerr] in Hk.
    rewrite sc_rep, sample_rep. apply screp_repp; [exact (IHw Hokb Hp Hw ch Hch Hk)|apply okb_pos; exact Hokb|lra|].
    rewrite kq_mult. cbn [duration] in H1. rewrite Z2Nat.id; [lra|]. apply Z.leb_le in Hn. lia.
  - (* transforming *)
    apply andb_prop in Hok as [Hokw Hout]. apply andb_prop in Hw as [HwT Hwi].
    destruct (t_out T (channels w)) as [co|] eqn:Eo; [|discriminate].
    cbn [channels] in Hch. rewrite Eo in Hch.
    destruct (t_in_channels T (channels w) co ch Eo Hch) as [ins [Ein Hins]].
    destruct (kerr_trans_inv w T ch ins Hk Ein) as [Hk1 Hnf].
    cbn [duration] in H1. cbn [sc sample]. rewrite Ein.
    destruct (t_full_ok T HwT (channels w) co t (map (fun ic => (ic, sc w ic t)) (channels w))) as [O [EO _]];
      [intros k; rewrite keys_map_key; reflexivity|exact Eo|].
    destruct (t_point_succeeds_shape T t (fun _ => None) (fun ic => sample w ic t) ins Hnf) as [o1 E1].
    rewrite EO, E1.
    assert (Hag : forall k, inb k ins = true ->
              lookup k (map (fun ic => (ic, sample w ic t)) ins) = lookup k (map (fun ic => (ic, sc w ic t)) (channels w))
              /\ lookup k (map (fun ic => (ic, sample w ic t)) ins) <> None).
    { intros k Hkin. rewrite (lookup_map_key (fun ic => sample w ic t)), (lookup_map_key (fun ic => sc w ic t)), Hkin, (Hins k Hkin).
      split; [|discriminate]. f_equal. symmetry. apply (IHw Hokw Hp Hwi k (Hins k Hkin)); auto.
      destruct (kerr w k) eqn:Ek; auto.
      assert (existsb (kerr w) ins = true) by (apply existsb_exists; exists k; split; [apply inb_In; exact Hkin|exact Ek]). congruence. }
    destruct (t_restrict_agree T HwT t [ch] ins _ _ o1 O Ein Hag E1 EO ch) as [Hsame _];
      [rewrite inb_cons, N.eqb_refl; reflexivity|].
    rewrite Hsame. reflexivity.
  - (* subset *)
    apply andb_prop in Hok as [Hok Hne]. apply andb_prop in Hok as [Hokb Hsub].
    cbn [sc sample channels duration kerr] in *. exact (IHw Hokb Hp Hw ch (subsetb_inb _ _ _ Hsub Hch) Hk t H0 H1).
  - (* arithmetic *)
    apply andb_prop in Hok as [Hok Hdur]. apply andb_prop in Hok as [Hok1 Hok2]. apply Qeq_bool_iff in Hdur.
    apply andb_prop in Hp as [Hp1 Hp2]. apply andb_prop in Hw as [Hw1 Hw2].
    cbn [sc sample channels duration kerr] in *. rewrite inb_unionb in Hch.
    destruct (inb ch (channels w1)) eqn:E1, (inb ch (channels w2)) eqn:E2; try discriminate; cbn [andb orb] in Hk.
    + apply orb_false_iff in Hk as [Hk1 Hk2].
      rewrite (IHw1 Hok1 Hp1 Hw1 ch E1 Hk1 t H0 H1), (IHw2 Hok2 Hp2 Hw2 ch E2 Hk2 t H0); [reflexivity|lra].
    + rewrite orb_false_r in Hk. exact (IHw1 Hok1 Hp1 Hw1 ch E1 Hk t H0 H1).
    + rewrite (IHw2 Hok2 Hp2 Hw2 ch E2 Hk t H0); [reflexivity|lra].
  - (* functor *)
    apply andb_prop in Hok as [Hokb Hkeys]. cbn [sc sample channels duration kerr] in *.
    destruct (lookup ch f); [|reflexivity]. rewrite (IHw Hokb Hp Hw ch Hch Hk t H0 H1). reflexivity.
  - (* reversal of a table / function waveform *)
    destruct w; try discriminate; reflexivity.
Qed.

Theorem sample_is_den_T : forall w, okb w = true -> plainrevT w = true -> twf_all w = true -> forall c t,
  inb c (channels w) = true -> kerr w c = false -> 0 <= t -> t < duration w -> den w c t = sample w c t.
Proof.
  intros w Hok Hp Hw c t Hc Hk H0 H1. unfold den. rewrite (nf_plainrevT w Hp). exact (sc_is_sample_T w Hok Hp Hw c Hc Hk t H0 H1).
Qed.

Example den_T_example :
  let tabA := WTable 1%N [mkE 0 1 Hold; mkE (1#2) 2 Linear] in
  let tabB := WTable 2%N [mkE 0 4 Hold; mkE (1#2) 0 Linear] in
  let T := TChain [TScale [(1%N, TT 1 2)]; TLinear [1%N; 2%N] [3%N; 1%N] [[1; 1]; [1; -1]]; TParallel [(4%N, TC 5)]] in
  let w := WSeq [WTrans (WMulti [tabA; tabB]) T; WTrans (WMulti [WRev tabA; tabB]) T] in
  okb w = true /\ plainrevT w = true /\ twf_all w = true /\ kerr w 3%N = false /\
  oQeqb (den w 3%N (3#4)) (sample w 3%N (3#4)) = true /\ oQeqb (den w 3%N (3#4)) (Some (17#4)) = true.
Proof. vm_compute. repeat split; reflexivity. Qed.
