(* C08 (round 5) — a reported constant value is the sampled value on the CLOSED interval [0, duration] for every waveform
   without sequence / repetition nodes ([closedT]); closes the gap the audit found in the guard of C08_constant: [t < duration]
   excludes t = duration for every class, the refuted class (C08_constant_refuted_at_duration) is sequence / repetition only.
   Proof script = ProofsConstT.cv_sound with [t <= duration]; the sequence / repetition cases are excluded by the guard. *)
From Coq Require Import List ZArith QArith Qabs Bool Lia Lqa.
Require Import QV.C08.Model QV.C08.Spec QV.C08.Wf QV.C08.ProofsVec QV.C08.ProofsConst QV.C08.ProofsProper QV.C08.ProofsTrafo
               QV.C08.ProofsTotalT.
Import ListNotations.
Open Scope Q_scope.

Theorem cv_sound_closed : forall w, okb w = true -> closedT w = true -> forall c v t,
  inb c (channels w) = true -> cv w c = Some v -> 0 <= t -> t <= duration w ->
  exists v', sample w c t = Some v' /\ v' == v.
Proof.
  intros w. induction w using wf_ind'; intros Hok Hcl ch vv t Hch Hcv H0 H1; cbn [okb] in Hok; cbn [closedT] in Hcl.
  - discriminate.
  - cbn in Hcv |- *. injection Hcv as <-. exists v; split; reflexivity.
  - discriminate.
  - discriminate.
  - (* multi-channel *)
    apply andb_prop in Hok as [Hok Hoks]. apply andb_prop in Hok as [Hdur Hov].
    apply okb_all_Forall in Hoks. apply closedT_all_Forall in Hcl.
    assert (Hd : Forall (fun y => duration y == duration (WMulti l)) l).
    { destruct l as [|x r]; [discriminate|]. cbn [duration].
      constructor; [reflexivity|]. rewrite forallb_forall in Hdur. apply Forall_forall. intros y Hy.
      apply Qeq_bool_iff. auto. }
    clear Hdur Hov. revert H1 Hd. generalize (duration (WMulti l)) as d0. intros d0 H1 Hd.
    cbn [cv sample channels] in *.
    induction H as [|s l' Hs _ IH]; [discriminate|].
    apply Forall_cons_iff in Hoks as [Ho1 Ho2].
    apply Forall_cons_iff in Hcl as [Hc1 Hc2].
    apply Forall_cons_iff in Hd as [Hd1 Hd2].
    destruct (inb ch (channels s)) eqn:E.
    + eapply Hs; eauto. lra.
    + apply IH; auto. rewrite inb_unionb, E in Hch. exact Hch.
  - discriminate.
  - (* transforming *)
    apply andb_prop in Hok as [Hokb Hout]. cbn [cv channels sample duration] in *.
    destruct (t_const_inv T) eqn:Eci; cbn [negb] in Hcv; [|discriminate].
    destruct (t_out T (channels w)) as [co|] eqn:Eo; [|discriminate].
    destruct (t_in_channels T (channels w) co ch Eo Hch) as [ins [Ein Hins]].
    rewrite Ein in *.
    destruct (existsb (fun kv : chan * option Q => match snd kv with None => true | Some _ => false end)
                (map (fun ic => (ic, cv w ic)) ins)) eqn:Eex; [discriminate|].
    assert (Hd : deq (map (fun ic => (ic, sample w ic t)) ins) (map (fun ic => (ic, cv w ic)) ins)).
    { clear Hcv Ein. induction ins as [|ic ins IHi]; [constructor|].
      cbn [map existsb snd] in Eex. apply orb_false_iff in Eex as [E1 E2].
      constructor.
      - split; [reflexivity|]. cbn [snd].
        destruct (cv w ic) as [iv|] eqn:Eiv; [|discriminate].
        assert (Hic : inb ic (channels w) = true) by (apply Hins; rewrite inb_cons, N.eqb_refl; reflexivity).
        destruct (IHw Hokb Hcl ic iv t Hic Eiv H0 H1) as [iv' [Hs Hq]]. rewrite Hs. exact Hq.
      - apply IHi; auto. intros k Hk. apply Hins. rewrite inb_cons, Hk, orb_true_r. reflexivity. }
    pose proof (t_point_compat T t t _ _ (Qeq_refl t) Hd) as Hp.
    rewrite (t_point_const_inv T Eci t 0 (map (fun ic => (ic, cv w ic)) ins)) in Hp.
    destruct (t_point T 0 (map (fun ic => (ic, cv w ic)) ins)) as [out|] eqn:Eout; [|discriminate].
    destruct (t_point T t (map (fun ic => (ic, sample w ic t)) ins)) as [out1|]; cbn in Hp; [|tauto].
    pose proof (deq_lookup_flat ch out1 out Hp) as Hl.
    destruct (lookup ch out) as [[v0|]|]; try discriminate. injection Hcv as <-.
    destruct (match lookup ch out1 with Some v => v | None => None end) as [v1|]; cbn in Hl; [|tauto].
    exists v1. split; [reflexivity|exact Hl].
  - (* subset *)
    apply andb_prop in Hok as [Hok Hne]. apply andb_prop in Hok as [Hokb Hsub].
    cbn [cv channels sample duration] in *. eapply IHw; eauto. eapply subsetb_inb; eauto.
  - (* arithmetic *)
    apply andb_prop in Hok as [Hok Hdur]. apply andb_prop in Hok as [Hok1 Hok2].
    apply andb_prop in Hcl as [Hcl1 Hcl2].
    apply Qeq_bool_iff in Hdur.
    cbn [cv channels sample duration] in *. rewrite inb_unionb in Hch.
    destruct (inb ch (channels w2)) eqn:E2; cbn [negb] in Hcv.
    + destruct (cv w2 ch) as [rv|] eqn:Er; [|discriminate].
      destruct (IHw2 Hok2 Hcl2 ch rv t E2 Er H0) as [rv' [Hr Hrq]]; [lra|].
      destruct (inb ch (channels w1)) eqn:E1.
      * destruct (cv w1 ch) as [lv|] eqn:El; [|discriminate]. injection Hcv as <-.
        destruct (IHw1 Hok1 Hcl1 ch lv t E1 El H0 H1) as [lv' [Hl Hlq]].
        rewrite Hl, Hr. cbn. eexists; split; [reflexivity|]. apply aop_at_compat; assumption.
      * injection Hcv as <-. rewrite Hr. cbn. eexists; split; [reflexivity|]. apply aop_rhs_compat; assumption.
    + rewrite orb_false_r in Hch. rewrite Hch. eapply IHw1; eauto.
  - (* functor *)
    apply andb_prop in Hok as [Hokb Hkeys]. cbn [cv channels sample duration] in *.
    destruct (cv w ch) as [iv|] eqn:Ei; [|discriminate].
    destruct (lookup ch f) as [g|] eqn:Eg; [|discriminate]. injection Hcv as <-.
    destruct (IHw Hokb Hcl ch iv t Hch Ei H0 H1) as [iv' [Hi Hiq]].
    rewrite Hi. cbn. eexists; split; [reflexivity|]. apply functor_at_compat; assumption.
  - discriminate.
Qed.

(* non-vacuity: a multi-channel waveform with a folded transformation and an arithmetic part, asked at t = duration *)
Example cv_sound_closed_example :
  let w := WMulti [WTrans (WConst 1 3 1%N) (TScale [(1%N, TC 2)]);
                   WArith (WConst 1 5 2%N) OpSub (WFunctor (WConst 1 2 2%N) [(2%N, FNeg)]);
                   WTable 3%N [mkE 0 0 Hold; mkE 1 1 Linear]] in
  okb w = true /\ closedT w = true /\ cv w 1%N = Some 6 /\ oQeqb (sample w 1%N (duration w)) (Some 6) = true /\
  oQeqb (cv w 2%N) (Some 7) = true /\ oQeqb (sample w 2%N (duration w)) (Some 7) = true /\ cv w 3%N = None.
Proof. vm_compute. repeat split; reflexivity. Qed.
