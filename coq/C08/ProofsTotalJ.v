(* C08 round 6 — totality of sampling OFF THE JUNCTIONS, reversal around sequences / repetitions included.

   C08_total_guarded excludes a reversal around a sequence / repetition altogether (guard [rightopenT]): wider than the
   finding it is named after (C08-reversed-composite-junction is about the times at which the reversed composite is
   evaluated exactly on a junction of its parts or on its end).  Here the guard is [badT] (Guards.v), the SAME executable
   guard as in C08_denotation_any_reversal_T and the one Corr.v uses to decide which points of a rejected observation
   belong to the known finding: at every other time of [0, duration) every defined channel whose transformation chain
   does not raise KeyError has a finite sample.  Induction of the shape of ProofsMirrorT.mirror_main_T (direction flag
   [rv] = an odd number of reversals above, range (0, d] instead of [0, d) below a reversal) with the per-class steps of
   ProofsTotalT.total_guarded_T. *)
From Coq Require Import List ZArith QArith Qabs Bool Lia Lqa.
Require Import QV.C08.Model QV.C08.Spec QV.C08.Wf QV.C08.Hist QV.C08.Lin QV.C08.ProofsVec QV.C08.ProofsConst QV.C08.ProofsProper
               QV.C08.ProofsTrafo QV.C08.ProofsCtor QV.C08.ProofsPar QV.C08.ProofsFlat QV.C08.ProofsDen QV.C08.ProofsMirror
               QV.C08.ProofsConstT QV.C08.ProofsTotal QV.C08.ProofsTotalT QV.C08.ProofsSimple QV.C08.ProofsLin QV.C08.ProofsLinDen QV.C08.ProofsOkb
               QV.C08.ProofsSubset QV.C08.ProofsRecipe QV.C08.ProofsRecipeT QV.C08.Guards QV.C08.ProofsMirrorT.
Import ListNotations.
Open Scope Q_scope.

Definition total_okJ (rv : bool) (c : chan) (x : wf) : Prop :=
  forall u, rng rv (duration x) u -> badT rv x c u = false -> exists v, sample x c u = Some v.

Lemma seq_coreJ rv c l tau :
  Forall (fun x => okb x = true) l -> Forall (total_okJ rv c) l -> rng rv (sumd l) tau ->
  bad_list rv tau (map (fun s => (duration s, badT rv s c)) l) 0 = false ->
  exists v, seqp c tau l 0 None = Some v.
Proof.
  intros Hok HM Hr Hb.
  assert (Hpos : Forall (fun y => 0 < duration y) l) by (eapply Forall_impl; [|exact Hok]; intros y Hy; apply okb_pos; exact Hy).
  assert (Hnn : Forall (fun y => 0 <= duration y) l) by (eapply Forall_impl; [|exact Hpos]; intros y Hy; cbn in Hy; lra).
  destruct rv; cbn [rng] in *.
  - destruct Hr as [R0 R1].
    assert (Hlt : tau < sumd l).
    { destruct (Qeq_dec tau (sumd l)) as [E|NE]; [|lra]. exfalso.
      destruct l as [|x r]; [cbn [sumd] in *; lra|].
      rewrite (bad_list_end tau (fun s => badT true s c) (x :: r)) in Hb; [discriminate|discriminate|lra]. }
    destruct (At_exists l Hnn 0 tau) as [x [u HA]]; [lra|lra|].
    destruct (bad_list_At true tau (fun s => badT true s c) l 0 x u Hb HA) as [Hbx Hu]. specialize (Hu eq_refl).
    destruct (At_local _ _ _ _ _ HA) as [_ Hu1].
    rewrite (seqp_At c l 0 tau x u None Hnn HA).
    rewrite Forall_forall in HM. apply (HM x (At_In _ _ _ _ _ HA) u); [cbn [rng]; split; lra|exact Hbx].
  - destruct Hr as [R0 R1].
    destruct (At_exists l Hnn 0 tau) as [x [u HA]]; [lra|lra|].
    destruct (bad_list_At false tau (fun s => badT false s c) l 0 x u Hb HA) as [Hbx _].
    destruct (At_local _ _ _ _ _ HA) as [Hu0 Hu1].
    rewrite (seqp_At c l 0 tau x u None Hnn HA).
    rewrite Forall_forall in HM. apply (HM x (At_In _ _ _ _ _ HA) u); [cbn [rng]; split; lra|exact Hbx].
Qed.

Theorem total_main_J : forall w, okb w = true -> forall rv c,
  inb c (channels w) = true -> kerr w c = false -> total_okJ rv c w.
Proof.
  induction w using wf_ind'; intros Hok rv ch Hch Hk tau Hr Hb; cbn [okb] in Hok.
  - (* table *)
    cbn [channels] in Hch. cbn in Hch. rewrite orb_false_r in Hch. apply N.eqb_eq in Hch. subst c.
    cbn [duration] in Hr. apply table_total; auto; destruct rv; cbn [rng] in Hr; lra.
  - cbn. eauto.
  - cbn. eauto.
  - (* sequence *)
    apply andb_prop in Hok as [Hchs Hoks]. apply okb_all_Forall in Hoks.
    assert (Hin := seq_children_have_chan l ch Hchs Hch).
    rewrite kerr_seq_any in Hk. pose proof (existsb_false _ _ Hk) as Hks.
    rewrite sample_seq, duration_seq in *. cbn [badT] in Hb.
    apply (seq_coreJ rv); auto.
    rewrite Forall_forall in *. intros x Hx. apply H; auto.
  - (* multi-channel *)
    apply andb_prop in Hok as [Hok Hoks]. apply andb_prop in Hok as [Hdur Hov].
    apply okb_all_Forall in Hoks.
    assert (Hd : Forall (fun y => duration y == duration (WMulti l)) l).
    { destruct l as [|x r]; [discriminate|]. cbn [duration].
      constructor; [reflexivity|]. rewrite forallb_forall in Hdur. apply Forall_forall. intros y Hy.
      apply Qeq_bool_iff. auto. }
    clear Hdur Hov. revert Hr Hd. generalize (duration (WMulti l)) as d0. intros d0 Hr Hd.
    cbn [sample badT channels kerr] in *.
    induction H as [|s l' Hs _ IH]; [discriminate|].
    apply Forall_cons_iff in Hoks as [Ho1 Ho2].
    apply Forall_cons_iff in Hd as [Hd1 Hd2].
    destruct (inb ch (channels s)) eqn:E.
    + apply (Hs Ho1 rv ch E Hk tau); [apply (rng_compat rv d0); [symmetry; exact Hd1|exact Hr]|exact Hb].
    + apply IH; auto. rewrite inb_unionb, E in Hch. exact Hch.
  - (* repetition *)
    apply andb_prop in Hok as [Hn Hokb]. apply Z.leb_le in Hn. cbn [channels] in Hch. cbn [kerr] in Hk.
    rewrite sample_rep, repp_seqp. cbn [badT] in Hb.
    set (k := Z.to_nat n) in *.
    assert (HD : duration (WRep w n) == sumd (repeat w k)).
    { cbn [duration]. rewrite sumd_repeat, kq_mult. unfold k. rewrite Z2Nat.id by lia. reflexivity. }
    assert (Hb' : bad_list rv tau (map (fun s => (duration s, badT rv s ch)) (repeat w k)) 0 = false)
      by (rewrite (map_repeat' (fun s => (duration s, badT rv s ch))); exact Hb).
    apply (seq_coreJ rv); auto.
    + apply Forall_forall. intros y Hy. apply repeat_spec in Hy. subst y. exact Hokb.
    + apply Forall_forall. intros y Hy. apply repeat_spec in Hy. subst y. exact (IHw Hokb rv ch Hch Hk).
    + exact (rng_compat rv _ _ tau HD Hr).
  - (* transformation *)
    apply andb_prop in Hok as [Hokb Hout]. cbn [channels sample duration] in *.
    destruct (t_out T (channels w)) as [co|] eqn:Eo; [|discriminate].
    destruct (t_in_channels T (channels w) co ch Eo Hch) as [ins [Ein Hins]].
    cbn [kerr] in Hk. cbn [badT] in Hb.
    rewrite Ein in *. apply orb_false_iff in Hk as [Hki Hkt].
    pose proof (existsb_false _ _ Hb) as Hbs.
    assert (Hd : all_some (map (fun ic => (ic, sample w ic tau)) ins)).
    { clear Ein Hkt Hb. unfold all_some. induction ins as [|ic ins IHi]; [constructor|].
      cbn [existsb] in Hki. apply orb_false_iff in Hki as [K1 K2]. cbn [map]. constructor.
      - cbn [snd].
        assert (Hic : inb ic (channels w) = true) by (apply Hins; rewrite inb_cons, N.eqb_refl; reflexivity).
        destruct (IHw Hokb rv ic Hic K1 tau Hr) as [v Hv]; [apply Hbs; left; reflexivity|]. rewrite Hv. discriminate.
      - apply IHi; auto.
        + intros k Hk'. apply Hins. rewrite inb_cons, Hk', orb_true_r. reflexivity.
        + intros x Hx. apply Hbs. right. exact Hx. }
    unfold t_point_fails in Hkt.
    destruct (t_point T 0 (map (fun ic => (ic, None)) ins)) as [out0|] eqn:E0; [|discriminate].
    assert (Hl0 : exists v, lookup ch out0 = Some v) by (destruct (lookup ch out0); [eauto|discriminate]).
    assert (Hkr : krel (map (fun ic => (ic, sample w ic tau)) ins) (map (fun ic : chan => (ic, @None Q)) ins))
      by (apply krel_map_same; reflexivity).
    pose proof (t_point_shape T tau 0 _ _ Hkr) as Hsh. rewrite E0 in Hsh.
    destruct (t_point T tau (map (fun ic => (ic, sample w ic tau)) ins)) as [out|] eqn:Eout; cbn in Hsh; [|tauto].
    destruct (krel_lookup ch out out0 Hsh Hl0) as [v Lv]. rewrite Lv.
    pose proof (t_point_all_some T tau _ out Hd Eout) as Hall.
    apply lookup_In' in Lv. unfold all_some in Hall. rewrite Forall_forall in Hall. specialize (Hall _ Lv). cbn in Hall.
    destruct v as [x|]; [eauto|congruence].
  - (* subset *)
    apply andb_prop in Hok as [Hok Hne]. apply andb_prop in Hok as [Hokb Hsub].
    cbn [channels sample duration badT kerr] in *.
    exact (IHw Hokb rv ch (subsetb_inb _ _ _ Hsub Hch) Hk tau Hr Hb).
  - (* arithmetic *)
    apply andb_prop in Hok as [Hok Hdur]. apply andb_prop in Hok as [Hok1 Hok2]. apply Qeq_bool_iff in Hdur.
    cbn [channels sample duration badT kerr] in *. rewrite inb_unionb in Hch. apply orb_false_iff in Hk as [Hk1 Hk2].
    assert (Hr2 : rng rv (duration w2) tau) by exact (rng_compat rv _ _ tau Hdur Hr).
    destruct (inb ch (channels w1)) eqn:E1, (inb ch (channels w2)) eqn:E2; try discriminate; cbn [andb orb] in Hk1, Hk2, Hb.
    + apply orb_false_iff in Hb as [B1 B2].
      destruct (IHw1 Hok1 rv ch E1 Hk1 tau Hr B1) as [a Ha].
      destruct (IHw2 Hok2 rv ch E2 Hk2 tau Hr2 B2) as [b Hb'].
      rewrite Ha, Hb'. cbn. eauto.
    + rewrite orb_false_r in Hb. exact (IHw1 Hok1 rv ch E1 Hk1 tau Hr Hb).
    + destruct (IHw2 Hok2 rv ch E2 Hk2 tau Hr2 Hb) as [b Hb'].
      rewrite Hb'. cbn. eauto.
  - (* functor *)
    apply andb_prop in Hok as [Hokb Hkeys]. cbn [channels sample duration badT kerr] in *.
    assert (Hkk : inb ch (keys f) = true) by (rewrite (set_eqb_inb _ _ ch Hkeys); exact Hch).
    destruct (lookup_in_keys ch f Hkk) as [g Eg]. rewrite Eg.
    destruct (IHw Hokb rv ch Hch Hk tau Hr Hb) as [a Ha].
    rewrite Ha. cbn. eauto.
  - (* reversal *)
    cbn [sample badT channels duration kerr] in *.
    apply (IHw Hok (negb rv) ch Hch Hk (duration w - tau)); [|exact Hb].
    destruct rv; cbn [negb rng] in *; destruct Hr; split; lra.
Qed.

(* ---- the theorem: every time of [0, duration) that the junction guard does not exclude ---- *)
Theorem total_off_junctions_T : forall w, okb w = true -> forall c t,
  inb c (channels w) = true -> kerr w c = false -> 0 <= t -> t < duration w -> badT false w c t = false ->
  exists v, sample w c t = Some v.
Proof.
  intros w Hok c t Hc Hk H0 H1 Hb. exact (total_main_J w Hok false c Hc Hk t (conj H0 H1) Hb).
Qed.

(* the guard of C08_total_guarded is strictly stronger: wherever it holds, no time of [0, duration) is excluded here *)
Lemma bad_list_false_J tau : forall (ds : list (Q * (Q -> bool))),
  Forall (fun dg => forall u, snd dg u = false) ds -> forall time, bad_list false tau ds time = false.
Proof.
  induction ds as [|[d g] r IH]; intros HF time; [reflexivity|].
  apply Forall_cons_iff in HF as [Hg Hr]. cbn [bad_list]. cbv zeta. cbn [snd] in Hg.
  rewrite Hg, (IH Hr). cbn [andb orb]. rewrite andb_false_r. reflexivity.
Qed.
Lemma existsb_all_false {A} (p : A -> bool) l : (forall x, p x = false) -> existsb p l = false.
Proof. intros H. induction l as [|x r IH]; [reflexivity|]. cbn [existsb]. rewrite H, IH. reflexivity. Qed.

Lemma closedT_badT : forall w, closedT w = true -> forall rv c tau, badT rv w c tau = false.
Proof.
  induction w using wf_ind'; intros Hc rv ch tau; cbn [closedT] in Hc; try discriminate; try reflexivity.
  - (* multi-channel *)
    apply closedT_all_Forall in Hc. cbn [badT].
    induction H as [|s l' Hs _ IH]; [reflexivity|].
    apply Forall_cons_iff in Hc as [C1 C2].
    destruct (inb ch (channels s)); [apply Hs; exact C1|apply IH; exact C2].
  - cbn [badT]. destruct (t_in T [ch]); [|reflexivity]. apply existsb_all_false. intros x. apply IHw. exact Hc.
  - cbn [badT]. apply IHw. exact Hc.
  - apply andb_prop in Hc as [C1 C2]. cbn [badT]. rewrite (IHw1 C1), (IHw2 C2), !andb_false_r. reflexivity.
  - cbn [badT]. apply IHw. exact Hc.
  - cbn [badT]. apply IHw. exact Hc.
Qed.

Lemma rightopenT_badT : forall w, rightopenT w = true -> forall c tau, badT false w c tau = false.
Proof.
  induction w using wf_ind'; intros Hg ch tau; cbn [rightopenT] in Hg; try reflexivity.
  - (* sequence *)
    apply rightopenT_all_Forall in Hg. cbn [badT]. apply bad_list_false_J.
    apply Forall_forall. intros dg Hdg. apply in_map_iff in Hdg as [s [<- Hs]]. cbn [snd]. intros u.
    rewrite Forall_forall in H, Hg. apply H; auto.
  - (* multi-channel *)
    apply rightopenT_all_Forall in Hg. cbn [badT]. revert tau.
    induction H as [|s l' Hs _ IH]; intros tau; [reflexivity|].
    apply Forall_cons_iff in Hg as [C1 C2].
    destruct (inb ch (channels s)); [apply Hs; exact C1|apply IH; exact C2].
  - (* repetition *)
    cbn [badT]. apply bad_list_false_J.
    apply Forall_forall. intros dg Hdg. apply repeat_spec in Hdg. subst dg. cbn [snd]. intros u. apply IHw. exact Hg.
  - cbn [badT]. destruct (t_in T [ch]); [|reflexivity]. apply existsb_all_false. intros x. apply IHw. exact Hg.
  - cbn [badT]. apply IHw. exact Hg.
  - apply andb_prop in Hg as [C1 C2]. cbn [badT]. rewrite (IHw1 C1), (IHw2 C2), !andb_false_r. reflexivity.
  - cbn [badT]. apply IHw. exact Hg.
  - cbn [badT]. apply closedT_badT. exact Hg.
Qed.

(* C08_total_guarded is the special case [rightopenT w = true] *)
Corollary total_rightopen_from_J : forall w, okb w = true -> rightopenT w = true -> forall c t,
  inb c (channels w) = true -> kerr w c = false -> 0 <= t -> t < duration w -> exists v, sample w c t = Some v.
Proof.
  intros w Hok Hg c t Hc Hk H0 H1. apply total_off_junctions_T; auto. apply rightopenT_badT. exact Hg.
Qed.

(* non-vacuity: a reversal around a sequence that contains a transformation (time dependent scaling / offset / parallel
   constant) and a second reversal around an inner sequence: [rightopenT] rejects it, the junction guard excludes only the
   junction of the OUTER sequence (one reversal above) and the start (= end of the reversed composite); everywhere else
   the theorem applies and the samples are finite; at the excluded times the code answers NaN *)
Example total_off_junctions_example :
  let tabA := WTable 1%N [mkE 0 1 Hold; mkE (1#2) 2 Linear] in
  let tabB := WTable 1%N [mkE 0 5 Hold; mkE (1#2) 7 Linear] in
  let T := TChain [TScale [(1%N, TT 1 2)]; TOffset [(1%N, TT 0 (-1))]; TParallel [(2%N, TT 3 1)]] in
  let w := WRev (WSeq [WTrans tabA T; WRev (WTrans (WSeq [tabB; tabA]) T)]) in
  okb w = true /\ rightopenT w = false /\ inb 1%N (channels w) = true /\ inb 2%N (channels w) = true /\
  kerr w 1%N = false /\ kerr w 2%N = false /\
  badT false w 1%N (1#4) = false /\ sample w 1%N (1#4) <> None /\
  badT false w 2%N (5#4) = false /\ sample w 2%N (5#4) <> None /\
  badT false w 1%N (1#2) = false /\ sample w 1%N (1#2) <> None /\          (* inner junction below TWO reversals *)
  badT false w 1%N 1 = true /\ sample w 1%N 1 = None /\                    (* outer junction below ONE reversal *)
  badT false w 1%N 0 = true /\ sample w 1%N 0 = None.                      (* local time 0 = the end of the composite *)
Proof. vm_compute. repeat split; try reflexivity; discriminate. Qed.
