(* C08 — round 4: channels that only ONE operand of an ArithmeticWaveform defines ("exclusive" channels), and when the
   restriction of `lhs op rhs` to such channels may be replaced by the restriction of that operand alone (the
   "TODO: optimization possible" in ArithmeticWaveform.unsafe_get_subset_for_channels; seeded change C08-6 took the
   short cut for BOTH sides):
     - lhs-exclusive request: get_subset lhs cs samples like (lhs op rhs) — sound for '+' and '-';
     - rhs-exclusive request: get_subset rhs cs samples like (lhs + rhs), and like the NEGATION of (lhs - rhs):
       the short cut is sound for '+' only; for '-' it is refuted by a witness. *)
From Coq Require Import List ZArith QArith Qabs Bool Lia Lqa.
Require Import QV.C08.Model QV.C08.Spec QV.C08.Wf QV.C08.ProofsConst QV.C08.ProofsProper QV.C08.ProofsTrafo QV.C08.ProofsOkb QV.C08.ProofsSubset.
Import ListNotations.
Open Scope Q_scope.

(* ---- the exclusive-channel laws of the plain ArithmeticWaveform (samples and reported constants) ---- *)
Lemma arith_lhs_exclusive l o r c t : inb c (channels l) = true -> inb c (channels r) = false ->
  sample (WArith l o r) c t = sample l c t /\ cv (WArith l o r) c = cv l c.
Proof. intros Hl Hr. cbn [sample cv]. rewrite Hl, Hr. cbn [negb]. split; reflexivity. Qed.

Lemma arith_rhs_exclusive l o r c t : inb c (channels l) = false -> inb c (channels r) = true ->
  sample (WArith l o r) c t = omap (aop_rhs_only o) (sample r c t) /\ cv (WArith l o r) c = omap (aop_rhs_only o) (cv r c).
Proof.
  intros Hl Hr. cbn [sample cv]. rewrite Hl, Hr. cbn [negb]. split; [reflexivity|].
  destruct (cv r c); reflexivity.
Qed.

Lemma get_subset_sub w cs w' : get_subset w cs = OK w' -> subsetb cs (channels w) = true.
Proof. unfold get_subset, get_wrap. destruct (subsetb cs (channels w)); [reflexivity|discriminate]. Qed.

(* ---- lhs-exclusive request: the operand's restriction answers like the arithmetic waveform, any operator ---- *)
Theorem arith_subset_lhs_shortcut l o r cs w' : okb l = true -> canonb l = true -> cs <> [] ->
  disjointb cs (channels r) = true -> get_subset l cs = OK w' ->
  (forall c, inb c (channels w') = inb c cs) /\
  forall c t, inb c cs = true -> 0 <= t -> t < duration l -> tg l c t = true ->
    oQeq (sample w' c t) (sample (WArith l o r) c t).
Proof.
  intros Hok Hcan Hne Hdis Hg.
  destruct (get_subset_sound l cs w' Hok Hcan Hne Hg) as (_ & Hch & _ & Hs).
  split; [exact Hch|]. intros c t Hc H0 H1 Htg.
  assert (Hl : inb c (channels l) = true) by (eapply subsetb_inb; [exact (get_subset_sub _ _ _ Hg)|exact Hc]).
  assert (Hr : inb c (channels r) = false) by (apply (proj1 (disjointb_spec cs (channels r)) Hdis); exact Hc).
  rewrite (proj1 (arith_lhs_exclusive l o r c t Hl Hr)). exact (Hs c t Hc H0 H1 Htg).
Qed.

(* ---- rhs-exclusive request: the operand's restriction carries the operator's UNARY form ---- *)
Theorem arith_subset_rhs_exclusive l o r cs w' : okb r = true -> canonb r = true -> cs <> [] ->
  disjointb cs (channels l) = true -> get_subset r cs = OK w' ->
  forall c t, inb c cs = true -> 0 <= t -> t < duration r -> tg r c t = true ->
    oQeq (omap (aop_rhs_only o) (sample w' c t)) (sample (WArith l o r) c t).
Proof.
  intros Hok Hcan Hne Hdis Hg c t Hc H0 H1 Htg.
  destruct (get_subset_sound r cs w' Hok Hcan Hne Hg) as (_ & _ & _ & Hs).
  assert (Hr : inb c (channels r) = true) by (eapply subsetb_inb; [exact (get_subset_sub _ _ _ Hg)|exact Hc]).
  assert (Hl : inb c (channels l) = false) by (apply (proj1 (disjointb_spec cs (channels l)) Hdis); exact Hc).
  rewrite (proj1 (arith_rhs_exclusive l o r c t Hl Hr)).
  apply omap_compat; [|exact (Hs c t Hc H0 H1 Htg)].
  intros x x' Hx. destruct o; cbn [aop_rhs_only]; rewrite Hx; reflexivity.
Qed.

(* for '+' the unary form is the identity: the rhs short cut is sound *)
Theorem arith_subset_rhs_shortcut_add l r cs w' : okb r = true -> canonb r = true -> cs <> [] ->
  disjointb cs (channels l) = true -> get_subset r cs = OK w' ->
  forall c t, inb c cs = true -> 0 <= t -> t < duration r -> tg r c t = true ->
    oQeq (sample w' c t) (sample (WArith l OpAdd r) c t).
Proof.
  intros Hok Hcan Hne Hdis Hg c t Hc H0 H1 Htg.
  pose proof (arith_subset_rhs_exclusive l OpAdd r cs w' Hok Hcan Hne Hdis Hg c t Hc H0 H1 Htg) as H.
  destruct (sample w' c t); exact H.
Qed.

(* for '-' it is NOT: witness lhs = constant 1 on channel 1, rhs = constants (2 on channel 1, 3 on channel 2), request {2}:
   the restriction of rhs answers 3, the arithmetic waveform (and its SubsetWaveform, what the code returns) -3 *)
Definition excl_l : wf := WConst 1 1 1%N.
Definition excl_r : wf := WMulti [WConst 1 2 1%N; WConst 1 3 2%N].
Theorem arith_subset_rhs_shortcut_sub_refuted :
  exists l r cs w' w'' c t, okb r = true /\ canonb r = true /\ disjointb cs (channels l) = true /\ inb c cs = true /\
    0 <= t /\ t < duration r /\ tg r c t = true /\
    get_subset r cs = OK w' /\ get_subset (WArith l OpSub r) cs = OK w'' /\
    sample w' c t = Some 3 /\ sample w'' c t = Some (- (3)) /\ cv w' c = Some 3 /\ cv w'' c = Some (- (3)).
Proof.
  exists excl_l, excl_r, [2%N], (WConst 1 3 2%N), (WSubset (WArith excl_l OpSub excl_r) [2%N]), 2%N, 0.
  repeat split; try reflexivity; try (vm_compute; congruence).
Qed.

(* ---- a channel ADDED (or overwritten) by a ParallelChannelTransformation does not depend on the inner waveform: a request
   inside the added channels may be answered without sampling the inner waveform at all (the code samples no inner
   channel there: get_input_channels gives the empty set), samples and reported constant ---- *)
Lemma lookup_map_some {A B} (g : chan * A -> B) c (l : list (chan * A)) v :
  lookup c l = Some v -> exists k, lookup c (map (fun kv => (fst kv, g kv)) l) = Some (g (k, v)) /\ N.eqb c k = true.
Proof.
  induction l as [|[k x] r IH]; cbn [lookup map fst]; [discriminate|].
  destruct (N.eqb c k) eqn:E; [intros H; injection H as <-; exists k; split; [reflexivity|exact E]|exact IH].
Qed.
Lemma lookup_app_l {A} c (a b : list (chan * A)) v : lookup c a = Some v -> lookup c (a ++ b) = Some v.
Proof. induction a as [|[k x] r IH]; cbn [lookup app]; [discriminate|]. destruct (N.eqb c k); auto. Qed.

Theorem parallel_added_channel i cs c v t : lookup c cs = Some v ->
  sample (WTrans i (TParallel cs)) c t = Some (tval_at v t).
Proof.
  intros Hl. cbn [sample t_in].
  assert (Hk : inb c (keys cs) = true).
  { unfold keys. clear -Hl. induction cs as [|[k x] r IH]; cbn [lookup map fst inb existsb] in *; [discriminate|].
    destruct (N.eqb c k); [reflexivity|cbn [orb]; apply IH; exact Hl]. }
  unfold diffb. cbn [filter]. rewrite Hk. cbn [negb map t_point filter].
  destruct (lookup_map_some (fun kv => Some (tval_at (snd kv) t)) c cs v Hl) as (k & Hm & _).
  rewrite app_nil_r, Hm. reflexivity.
Qed.

(* ---- MultiChannelWaveform: a request that touches exactly ONE part is answered by that part's get_subset_for_channels
   (the `len(relevant_sub_waveforms) == 1` branch), whatever the other parts are ---- *)
Theorem multi_subset_one_part l cs x :
  filter (fun y => negb (disjointb (channels y) cs)) l = [x] -> subset_u (WMulti l) cs = get_wrap x cs (subset_u x cs).
Proof.
  intros Hf. cbn [subset_u]. rewrite Hf. clear -Hf.
  induction l as [|y r IH]; cbn [filter] in Hf; [discriminate|].
  destruct (disjointb (channels y) cs) eqn:E; cbn [negb] in Hf.
  - exact (IH Hf).
  - injection Hf as -> _. reflexivity.
Qed.
