(* C08 — call histories with TransformingWaveform nodes whose transformations may contain LinearTransformation parts.
   The per-instance cache stores EVERY channel of the transformed data.  Under [lin_ok] (constructor shape, no linear
   output shadowing a forwarded channel, get_output_channels defined) a by-product left in the cache is exactly what a
   direct request computes (both are bindings of the complete evaluation), so the cache stays coherent and every call of
   a history is answered like a single call on a fresh object.  Without [noshadow]: refuted (ProofsLin.history_shadow_refuted). *)
From Coq Require Import List ZArith QArith Qabs Bool Lia Lqa.
Require Import QV.C08.Model QV.C08.Spec QV.C08.Wf QV.C08.Hist QV.C08.Lin QV.C08.ProofsVec QV.C08.ProofsConst
               QV.C08.ProofsTrafo QV.C08.ProofsCtor QV.C08.ProofsTotalT QV.C08.ProofsSimple QV.C08.ProofsHist
               QV.C08.ProofsHistT QV.C08.ProofsLin QV.C08.ProofsLinDen.
Import ListNotations.
Open Scope Q_scope.

(* ---- bindings of a smaller data set are bindings of the complete evaluation ---- *)
Definition ext (d D : data) : Prop := forall k v, lookup k d = Some v -> lookup k D = Some v.

Lemma krel_dummy (D : data) : krel D (map (fun ic => (ic, @None Q)) (keys D)).
Proof. unfold krel, keys. induction D as [|[a v] r IH]; cbn; constructor; auto. Qed.
Lemma out_keys_real x t (D D1 : data) : t_point x t D = Some D1 -> keys D1 = out_keys x (keys D).
Proof.
  intros H. unfold out_keys. pose proof (t_point_shape x t 0 _ _ (krel_dummy D)) as Hs. rewrite H in Hs.
  destruct (t_point x 0 (map (fun ic : chan => (ic, None)) (keys D))) as [o0|]; [|contradiction]. exact (krel_keys _ _ Hs).
Qed.

Lemma t_ext_mono : forall T t (d D o O : data), noshadow T (keys D) = true -> ext d D ->
  t_point T t d = Some o -> t_point T t D = Some O -> ext o O.
Proof.
  induction T using trafo_ind'; intros t d D o0 O Hns Hext Hd HD.
  - cbn in *. injection Hd as <-. injection HD as <-. exact Hext.
  - cbn [t_point] in *. injection Hd as <-. injection HD as <-. intros k v.
    rewrite !(lookup_scale_like (fun tv v => omap (fun x : Q => x * tval_at tv t) v)).
    destruct (lookup k d) as [x|] eqn:L; [|discriminate]. rewrite (Hext k x L). auto.
  - cbn [t_point] in *. injection Hd as <-. injection HD as <-. intros k v.
    rewrite !(lookup_scale_like (fun tv v => omap (fun x : Q => x + tval_at tv t) v)).
    destruct (lookup k d) as [x|] eqn:L; [|discriminate]. rewrite (Hext k x L). auto.
  - (* linear *)
    cbn [noshadow] in Hns. pose proof (proj1 (disjointb_spec _ _) Hns) as Hdis.
    pose proof Hd as Hd'. pose proof HD as HD'. rewrite lin_point in Hd, HD.
    destruct (forallb (fun kv : chan * option Q => negb (inb (fst kv) i)) D) eqn:PD.
    + (* D forwards only: so does d *)
      injection HD as <-.
      assert (Pd : forallb (fun kv : chan * option Q => negb (inb (fst kv) i)) d = true).
      { apply nokey_spec. intros k Hk. destruct (lookup k d) as [v|] eqn:L; auto.
        pose proof (proj1 (nokey_spec i D) PD k Hk) as LD. specialize (Hext k v L). congruence. }
      rewrite Pd in Hd. injection Hd as <-. exact Hext.
    + destruct (subsetb i (keys D)) eqn:SD; [|discriminate].
      destruct (forallb (fun kv : chan * option Q => negb (inb (fst kv) i)) d) eqn:Pd.
      * injection Hd as <-. intros k v L. pose proof (Hext k v L) as LD.
        assert (Hi : inb k i = false).
        { destruct (inb k i) eqn:E; auto. rewrite (proj1 (nokey_spec i d) Pd k E) in L. discriminate. }
        assert (Ho : inb k o = false).
        { destruct (inb k o) eqn:E; auto. specialize (Hdis k E). rewrite inb_diffb, Hi in Hdis. cbn in Hdis.
          rewrite andb_true_r in Hdis. assert (inb k (keys D) = true) by (apply inb_keys_lookup; congruence). congruence. }
        rewrite (lin_forwarded _ _ _ _ _ _ k HD' Hi Ho). exact LD.
      * destruct (subsetb i (keys d)) eqn:Sd; [|discriminate]. injection Hd as <-. injection HD as <-.
        assert (Hv : lin_vals i d = lin_vals i D).
        { unfold lin_vals. apply map_ext_in. intros c Hc. apply inb_In in Hc.
          pose proof (subsetb_inb _ _ _ Sd Hc) as Hin. destruct (lookup_in_keys c d Hin) as [v Lv].
          rewrite Lv, (Hext c v Lv). reflexivity. }
        intros k v. rewrite !lookup_app, Hv.
        destruct (lookup k (lin_rows o m (lin_vals i D))); [auto|].
        rewrite !(lookup_filter_key (fun c => negb (inb c o))). destruct (negb (inb k o)); [|discriminate].
        rewrite !(lookup_filter_key (fun c => negb (inb c i))). destruct (negb (inb k i)); [|discriminate].
        apply Hext.
  - (* parallel *)
    cbn [t_point] in *. injection Hd as <-. injection HD as <-. intros k v.
    rewrite !lookup_app. destruct (lookup k (map (fun kv : chan * tval => (fst kv, Some (tval_at (snd kv) t))) f)); [auto|].
    rewrite !(lookup_filter_key (fun c => negb (inb c (keys f)))). destruct (negb (inb k (keys f))); [|discriminate].
    apply Hext.
  - (* chain *)
    cbn [noshadow t_point] in *. revert d D o0 O Hns Hext Hd HD.
    induction H as [|x r Hx _ IH]; intros d D o0 O Hns Hext Hd HD.
    + injection Hd as <-. injection HD as <-. exact Hext.
    + apply andb_prop in Hns as [N1 N2].
      destruct (t_point x t d) as [d1|] eqn:E1; [|discriminate].
      destruct (t_point x t D) as [D1|] eqn:E2; [|discriminate].
      apply (IH d1 D1 o0 O); auto.
      * rewrite (out_keys_real x t D D1 E2). exact N2.
      * exact (Hx t d D d1 D1 N1 Hext E1 E2).
Qed.

Definition dataf (f : chan -> option Q) (cs : list chan) : data := map (fun ic => (ic, f ic)) cs.
Lemma dataf_ext f a b : (forall c, inb c a = true -> inb c b = true) -> ext (dataf f a) (dataf f b).
Proof.
  intros H k v. unfold dataf. rewrite !(lookup_map_key f). destruct (inb k a) eqn:E; [|discriminate]. rewrite (H k E). auto.
Qed.

(* a by-product of the request for c is what the direct request for k computes *)
Lemma byproduct_point T chans co (f : chan -> option Q) t c k insc insk o1 o2 v :
  lin_ok T chans = true -> t_out T chans = Some co ->
  t_in T [c] = Some insc -> (forall ic, inb ic insc = true -> inb ic chans = true) ->
  t_in T [k] = Some insk -> (forall ic, inb ic insk = true -> inb ic chans = true) ->
  t_point T t (dataf f insc) = Some o1 -> t_point T t (dataf f insk) = Some o2 ->
  lookup k o1 = Some v -> lookup k o2 = Some v.
Proof.
  intros Hok Ho Hc Hcs Hk Hks E1 E2 L1. unfold lin_ok in Hok. apply andb_prop in Hok as [Hok _]. apply andb_prop in Hok as [Hwf Hns].
  destruct (t_full_ok T Hwf chans co t (dataf f chans)) as [O [EO _]];
    [intros x; unfold dataf; rewrite keys_map_key; reflexivity|exact Ho|].
  assert (Hns' : noshadow T (keys (dataf f chans)) = true) by (unfold dataf; rewrite keys_map_key; exact Hns).
  pose proof (t_ext_mono T t _ _ o1 O Hns' (dataf_ext f insc chans Hcs) E1 EO k v L1) as LO.
  destruct (t_restrict_agree T Hwf t [k] insk (dataf f insk) (dataf f chans) o2 O Hk) with (k := k) as [Hs _]; auto.
  - intros j Hj. unfold dataf. rewrite !(lookup_map_key f), Hj, (Hks j Hj). split; [reflexivity|discriminate].
  - rewrite inb_cons, N.eqb_refl. reflexivity.
  - rewrite Hs. exact LO.
Qed.

(* keys of a restricted result are output channels *)
Lemma byproduct_is_output T chans co (f : chan -> option Q) t c insc o1 k :
  lin_ok T chans = true -> t_out T chans = Some co ->
  t_in T [c] = Some insc -> (forall ic, inb ic insc = true -> inb ic chans = true) ->
  t_point T t (dataf f insc) = Some o1 -> lookup k o1 <> None -> inb k co = true.
Proof.
  intros Hok Ho Hc Hcs E1 L1. unfold lin_ok in Hok. apply andb_prop in Hok as [Hok _]. apply andb_prop in Hok as [Hwf Hns].
  destruct (t_full_ok T Hwf chans co t (dataf f chans)) as [O [EO KO]];
    [intros x; unfold dataf; rewrite keys_map_key; reflexivity|exact Ho|].
  assert (Hns' : noshadow T (keys (dataf f chans)) = true) by (unfold dataf; rewrite keys_map_key; exact Hns).
  destruct (lookup k o1) as [v|] eqn:L; [|congruence].
  pose proof (t_ext_mono T t _ _ o1 O Hns' (dataf_ext f insc chans Hcs) E1 EO k v L) as LO.
  rewrite <- KO. apply inb_keys_lookup. congruence.
Qed.

Lemma tw_col_byproduct_lin i T c k ts insc : lin_ok T (channels i) = true -> sortedb ts = true ->
  t_in T [c] = Some insc -> (forall ic, inb ic insc = true -> inb ic (channels i) = true) ->
  In k (out_keys T insc) -> kerr (WTrans i T) k = false ->
  tw_col T k ts (map (fun ic => (ic, sample_vec i ic ts)) insc) = sample_vec (WTrans i T) k ts.
Proof.
  intros Hok Hts Hc Hcs Hk Hkerr.
  pose proof Hok as Hok'. unfold lin_ok in Hok'. apply andb_prop in Hok' as [_ Ho].
  destruct (t_out T (channels i)) as [co|] eqn:Eo; [|discriminate].
  (* the dummy evaluation for c *)
  unfold out_keys in Hk. destruct (t_point T 0 (map (fun ic => (ic, None)) insc)) as [o0|] eqn:E0; [|contradiction].
  assert (Hk0 : exists v0, lookup k o0 = Some v0) by (apply lookup_in_keys; apply inb_In; exact Hk).
  (* k is an output channel, so its own inputs are inner channels *)
  assert (Hkco : inb k co = true).
  { apply (byproduct_is_output T (channels i) co (fun _ => None) 0 c insc o0 k Hok Eo Hc Hcs E0).
    destruct Hk0 as [v0 ->]. discriminate. }
  destruct (t_in_channels T (channels i) co k Eo Hkco) as [insk [Ek Hks]].
  destruct (kerr_trans_inv i T k insk Hkerr Ek) as [_ Hnf].
  rewrite (sample_vec_trans_tw i T k ts insk Ek), !tw_col_pointwise by exact Hts.
  apply map_ext. intros t.
  assert (Hnf0 : t_point T 0 (map (fun ic => (ic, @None Q)) insc) <> None) by (rewrite E0; discriminate).
  destruct (t_point_succeeds_shape T t (fun _ => None) (fun ic => sample i ic t) insc Hnf0) as [o1 E1].
  destruct (t_point_succeeds_shape T t (fun _ => None) (fun ic => sample i ic t) insk Hnf) as [o2 E2].
  rewrite E1, E2.
  assert (Hl1 : exists v, lookup k o1 = Some v).
  { assert (Hkr : krel (map (fun ic => (ic, sample i ic t)) insc) (map (fun ic : chan => (ic, @None Q)) insc))
      by (apply krel_map_same; reflexivity).
    pose proof (t_point_shape T t 0 _ _ Hkr) as Hsh. rewrite E1, E0 in Hsh. exact (krel_lookup k o1 o0 Hsh Hk0). }
  destruct Hl1 as [v L1].
  rewrite L1, (byproduct_point T (channels i) co (fun ic => sample i ic t) t c k insc insk o1 o2 v Hok Eo Hc Hcs Ek Hks E1 E2 L1).
  reflexivity.
Qed.

Lemma linfree_simple T : linfree T = simple T.
Proof.
  reflexivity.   (* the two definitions are the same fixpoint *)
Qed.
Lemma trans_ok_all_Forall l :
  (fix all (l : list wf) := match l with [] => true | x :: r => trans_ok_all x && all r end) l = true ->
  Forall (fun x => trans_ok_all x = true) l.
Proof.
  induction l as [|x r IH]; intros H; constructor.
  - apply andb_prop in H as [H _]; exact H.
  - apply IH. apply andb_prop in H as [_ H]; exact H.
Qed.

(* ---- the invariant, now only for the channels that can be asked for (kerr = false) ---- *)
Section Inv.
  Variable content : N -> list Q.
  Variable root : wf.

  Definition entry_okK (w : wf) (e : option N * tcache) : Prop :=
    match w, e with
    | WTrans i T, (Some a, d) => forall k vals, lookup k d = Some vals -> kerr (WTrans i T) k = false ->
                                 vals = sample_vec (WTrans i T) k (content a)
    | _, _ => True
    end.
  Definition InvK (s : store) : Prop :=
    forall q w e, subterm root q = Some w -> st_get s q = Some e -> entry_okK w e.
  Lemma InvK_set s p w v : InvK s -> subterm root p = Some w -> entry_okK w v -> InvK (st_set s p v).
  Proof.
    intros HI Hs Hv q w' e Hq Hg. unfold st_set in Hg. cbn [st_get] in Hg.
    destruct (path_eqb q p) eqn:E.
    - apply path_eqb_eq in E. subst q. rewrite Hs in Hq. injection Hq as <-. injection Hg as <-. exact Hv.
    - exact (HI q w' e Hq Hg).
  Qed.

  Definition hok (w : wf) (c : chan) : Prop := forall p aid ts s,
    subterm root p = Some w -> sortedb ts = true -> (forall a, aid = Some a -> ts = content a) -> InvK s ->
    fst (usample w p c aid ts s) = sample_vec w c ts /\ InvK (snd (usample w p c aid ts s)).

  Lemma useq_okK c ts p (Hts : sortedb ts = true) : forall l, Forall (fun x => hok x c) l -> forall pre,
    subterm root p = Some (WSeq (pre ++ l)) -> forall time out s, InvK s ->
    fst (useq c ts p l (length pre) time out s) = seqv c ts l time out /\
    InvK (snd (useq c ts p l (length pre) time out s)).
  Proof.
    induction 1 as [|x r Hx _ IH]; intros pre Hsub time out s HI; [split; [reflexivity|exact HI]|].
    cbn [useq seqv]. cbv zeta.
    assert (Hc : subterm root (p ++ [length pre]) = Some x).
    { eapply subterm_snoc; [exact Hsub|]. cbn [child]. rewrite nth_error_app2, Nat.sub_diag by lia. reflexivity. }
    destruct (Hx (p ++ [length pre]) None
                (map (fun t => t - time) (slice ts (ss_left time ts) (ss_left (time + duration x) ts))) s Hc
                (sortedb_child ts time _ _ Hts) (fun a H => ltac:(discriminate H)) HI) as [E1 I1].
    rewrite E1.
    replace (S (length pre)) with (length (pre ++ [x])) by (rewrite app_length; cbn; lia).
    apply IH; [rewrite <- app_assoc; exact Hsub|exact I1].
  Qed.
  Lemma urep_okK c ts p b n (Hts : sortedb ts = true) : hok b c -> subterm root p = Some (WRep b n) ->
    forall j time out s, InvK s ->
    fst (urep c ts p b j time out s) = repv c ts b j time out /\ InvK (snd (urep c ts p b j time out s)).
  Proof.
    intros Hb Hsub. induction j as [|j IH]; intros time out s HI; [split; [reflexivity|exact HI]|].
    cbn [urep repv]. cbv zeta.
    assert (Hc : subterm root (p ++ [O]) = Some b) by (eapply subterm_snoc; [exact Hsub|reflexivity]).
    destruct (Hb (p ++ [O]) None
                (map (fun t => t - time) (slice ts (ss_left time ts) (ss_left (time + duration b) ts))) s Hc
                (sortedb_child ts time _ _ Hts) (fun a H => ltac:(discriminate H)) HI) as [E1 I1].
    rewrite E1. apply IH. exact I1.
  Qed.
  Lemma ucols_okK i p aid ts : subterm root (p ++ [O]) = Some i -> sortedb ts = true ->
    (forall a, aid = Some a -> ts = content a) -> forall ins, Forall (fun ic => hok i ic) ins -> forall s0, InvK s0 ->
    fst (ucols i p aid ts ins s0) = map (fun ic => (ic, sample_vec i ic ts)) ins /\ InvK (snd (ucols i p aid ts ins s0)).
  Proof.
    intros Hci Hts Haid. induction 1 as [|ic r Hic _ IHr]; intros s0 HI0; [split; [reflexivity|exact HI0]|].
    cbn [ucols]. cbv zeta. cbn [fst snd].
    destruct (Hic (p ++ [O]) aid ts s0 Hci Hts Haid HI0) as [E1 I1].
    destruct (IHr _ I1) as [E2 I2]. split; [|exact I2]. cbn [map]. rewrite E1, E2. reflexivity.
  Qed.

  Theorem usample_okK : forall w, okb w = true -> trans_ok_all w = true -> forall c,
    inb c (channels w) = true -> kerr w c = false -> hok w c.
  Proof.
    induction w using wf_ind'; intros Hok Hta ch Hch Hk p aid ts s Hsub Hts Haid HI;
      cbn [okb] in Hok; cbn [trans_ok_all] in Hta.
    - split; [reflexivity|exact HI].
    - split; [reflexivity|exact HI].
    - split; [reflexivity|exact HI].
    - (* sequence *)
      apply andb_prop in Hok as [Hchs Hoks]. apply okb_all_Forall in Hoks. apply trans_ok_all_Forall in Hta.
      cbn [kerr] in Hk. apply kerr_seq_Forall in Hk.
      assert (Hin := seq_children_have_chan l ch Hchs Hch).
      rewrite usample_seq, sample_vec_seq.
      assert (HF : Forall (fun x => hok x ch) l).
      { clear Hchs Hch Hsub. induction H as [|x r Hx _ IH]; constructor.
        - apply Forall_cons_iff in Hoks as [A _]. apply Forall_cons_iff in Hta as [B _].
          apply Forall_cons_iff in Hk as [C _]. apply Forall_cons_iff in Hin as [D _]. exact (Hx A B ch D C).
        - apply Forall_cons_iff in Hoks as [_ A]. apply Forall_cons_iff in Hta as [_ B].
          apply Forall_cons_iff in Hk as [_ C]. apply Forall_cons_iff in Hin as [_ D]. exact (IH A B C D). }
      exact (useq_okK ch ts p Hts l HF [] Hsub 0 (nan_like ts) s HI).
    - (* multi-channel *)
      apply andb_prop in Hok as [Hok Hoks]. apply okb_all_Forall in Hoks. apply trans_ok_all_Forall in Hta.
      rewrite usample_multi, sample_vec_multi. cbn [channels kerr] in Hch, Hk.
      clear Hok.
      assert (G : forall pre, subterm root p = Some (WMulti (pre ++ l)) ->
                fst (ufind ch ts p aid s l (length pre)) = mfind ch ts l /\ InvK (snd (ufind ch ts p aid s l (length pre)))).
      { clear Hsub. induction H as [|x r Hx _ IH]; intros pre Hsub'; [split; [reflexivity|exact HI]|].
        apply Forall_cons_iff in Hoks as [A1 A2]. apply Forall_cons_iff in Hta as [B1 B2].
        cbn [ufind mfind]. destruct (inb ch (channels x)) eqn:E.
        - apply (Hx A1 B1 ch E Hk); auto. eapply subterm_snoc; [exact Hsub'|]. cbn [child].
          rewrite nth_error_app2, Nat.sub_diag by lia. reflexivity.
        - replace (S (length pre)) with (length (pre ++ [x])) by (rewrite app_length; cbn; lia).
          apply IH; auto.
          + rewrite inb_unionb, E in Hch. exact Hch.
          + rewrite <- app_assoc. exact Hsub'. }
      exact (G [] Hsub).
    - (* repetition *)
      apply andb_prop in Hok as [Hn Hokb]. cbn [channels kerr] in Hch, Hk.
      rewrite usample_rep, sample_vec_rep. apply (urep_okK ch ts p w n Hts (IHw Hokb Hta ch Hch Hk) Hsub). exact HI.
    - (* transforming *)
      apply andb_prop in Hok as [Hokw Hout]. apply andb_prop in Hta as [HT Hti].
      destruct (t_out T (channels w)) as [co|] eqn:Eo; [|discriminate].
      cbn [channels] in Hch. rewrite Eo in Hch.
      destruct (t_in_channels T (channels w) co ch Eo Hch) as [ins [Ein Hins]].
      destruct (kerr_trans_inv w T ch ins Hk Ein) as [Hk1 Hnf].
      assert (Hci : subterm root (p ++ [O]) = Some w) by (eapply subterm_snoc; [exact Hsub|reflexivity]).
      rewrite usample_trans. cbv zeta.
      set (d0 := match st_get s p with
                 | Some (a', d) => if aid_eqb aid a' then d else []
                 | None => []
                 end).
      assert (Hd0 : entry_okK (WTrans w T) (aid, d0)).
      { unfold entry_okK. destruct aid as [a|]; [|exact I]. intros k vals Hl Hkk. unfold d0 in Hl.
        destruct (st_get s p) as [[a' d]|] eqn:Eg; [|discriminate].
        destruct a' as [a'|]; cbn [aid_eqb] in Hl; [|discriminate].
        destruct (N.eqb a a') eqn:Ea; [|discriminate]. apply N.eqb_eq in Ea. subst a'.
        exact (HI p (WTrans w T) (Some a, d) Hsub Eg k vals Hl Hkk). }
      destruct (lookup ch d0) as [vals|] eqn:Lc.
      + cbn [fst snd]. split; [|apply (InvK_set s p (WTrans w T)); auto].
        destruct aid as [a|].
        * rewrite (Haid a eq_refl). exact (Hd0 ch vals Lc Hk).
        * unfold d0 in Lc. destruct (st_get s p) as [[a' d]|]; cbn in Lc; discriminate.
      + rewrite Ein.
        assert (HF : Forall (fun ic => hok w ic) ins).
        { apply Forall_forall. intros ic Hic. apply inb_In in Hic. apply (IHw Hokw Hti ic (Hins ic Hic)).
          destruct (kerr w ic) eqn:Ek; auto.
          assert (existsb (kerr w) ins = true) by (apply existsb_exists; exists ic; split; [apply inb_In; exact Hic|exact Ek]).
          congruence. }
        destruct (ucols_okK w p aid ts Hci Hts Haid ins HF (st_set s p (aid, d0))
                    (InvK_set s p (WTrans w T) _ HI Hsub Hd0)) as [Ec Ic].
        cbn [fst snd]. rewrite Ec. split; [symmetry; apply sample_vec_trans_tw; exact Ein|].
        apply (InvK_set _ p (WTrans w T)); auto.
        unfold entry_okK. destruct aid as [a|]; [|exact I]. intros k vals Hl Hkk.
        rewrite lookup_app in Hl.
        destruct (lookup k (map (fun k0 => (k0, tw_col T k0 ts (map (fun ic => (ic, sample_vec w ic ts)) ins))) (out_keys T ins)))
          as [v|] eqn:Ln.
        * injection Hl as <-.
          rewrite (lookup_map_key (fun k0 => tw_col T k0 ts (map (fun ic => (ic, sample_vec w ic ts)) ins))) in Ln.
          destruct (inb k (out_keys T ins)) eqn:Ek; [|discriminate]. injection Ln as <-.
          rewrite <- (Haid a eq_refl). apply inb_In in Ek.
          apply orb_prop in HT as [HT|HT].
          -- rewrite linfree_simple in HT. apply (tw_col_byproduct w T ch k ts ins); auto.
          -- apply (tw_col_byproduct_lin w T ch k ts ins); auto.
        * exact (Hd0 k vals Hl Hkk).
    - (* subset *)
      apply andb_prop in Hok as [Hok Hne]. apply andb_prop in Hok as [Hokb Hs].
      cbn [usample sample_vec channels kerr] in *.
      apply (IHw Hokb Hta ch (subsetb_inb _ _ _ Hs Hch) Hk); auto. eapply subterm_snoc; [exact Hsub|reflexivity].
    - (* arithmetic *)
      apply andb_prop in Hok as [Hok Hdur]. apply andb_prop in Hok as [Hok1 Hok2].
      apply andb_prop in Hta as [Hs1 Hs2]. cbn [usample sample_vec channels kerr] in *.
      assert (Hc1 : subterm root (p ++ [O]) = Some w1) by (eapply subterm_snoc; [exact Hsub|reflexivity]).
      assert (Hc2 : subterm root (p ++ [1%nat]) = Some w2) by (eapply subterm_snoc; [exact Hsub|reflexivity]).
      rewrite inb_unionb in Hch.
      destruct (inb ch (channels w1)) eqn:E1, (inb ch (channels w2)) eqn:E2; try discriminate; cbn [andb orb] in Hk.
      + apply orb_false_iff in Hk as [K1 K2].
        destruct (IHw1 Hok1 Hs1 ch E1 K1 (p ++ [O]) aid ts s Hc1 Hts Haid HI) as [A1 I1].
        destruct (IHw2 Hok2 Hs2 ch E2 K2 (p ++ [1%nat]) aid ts _ Hc2 Hts Haid I1) as [A2 I2].
        cbn [fst snd]. rewrite A1, A2. split; [reflexivity|exact I2].
      + rewrite orb_false_r in Hk. exact (IHw1 Hok1 Hs1 ch E1 Hk (p ++ [O]) aid ts s Hc1 Hts Haid HI).
      + destruct (IHw2 Hok2 Hs2 ch E2 Hk (p ++ [1%nat]) aid ts s Hc2 Hts Haid HI) as [A2 I2].
        cbn [fst snd]. rewrite A2. split; [reflexivity|exact I2].
    - (* functor *)
      apply andb_prop in Hok as [Hokb Hkeys]. cbn [usample sample_vec channels kerr] in *.
      destruct (lookup ch f); [|split; [reflexivity|exact HI]].
      assert (Hc : subterm root (p ++ [O]) = Some w) by (eapply subterm_snoc; [exact Hsub|reflexivity]).
      destruct (IHw Hokb Hta ch Hch Hk (p ++ [O]) aid ts s Hc Hts Haid HI) as [E1 I1].
      cbn [fst snd]. rewrite E1. split; [reflexivity|exact I1].
    - (* reversed *)
      cbn [usample sample_vec channels kerr] in *.
      assert (Hc : subterm root (p ++ [O]) = Some w) by (eapply subterm_snoc; [exact Hsub|reflexivity]).
      destruct (IHw Hok Hta ch Hch Hk (p ++ [O]) None (rev (map (fun t => duration w - t) ts)) s Hc) as [E1 I1]; auto.
      + apply ssorted_sortedb, ssorted_rev_mirror, sortedb_ssorted; exact Hts.
      + intros a Ha; discriminate.
      + cbn [fst snd]. rewrite E1. split; [reflexivity|exact I1].
  Qed.
End Inv.

Lemma get_sampled_st_okK content w (Hok : okb w = true) (Hs : trans_ok_all w = true) c a ts s :
  kerr w c = false -> ts = content a -> InvK content w s ->
  fst (get_sampled_st w c (Some a) ts s) = get_sampled w c ts /\ InvK content w (snd (get_sampled_st w c (Some a) ts s)).
Proof.
  intros Ek Hc HI. unfold get_sampled_st, get_sampled.
  destruct ts as [|t0 r]; [split; [reflexivity|exact HI]|].
  destruct (monotonic (t0 :: r)) eqn:Em; cbn [negb]; [|split; [reflexivity|exact HI]].
  destruct (Qltb t0 0 || Qltb (duration w) (last (t0 :: r) 0)); [split; [reflexivity|exact HI]|].
  destruct (inb c (channels w)) eqn:Ech; cbn [negb]; [|split; [reflexivity|exact HI]].
  destruct (cv w c); [split; [reflexivity|exact HI]|].
  cbv zeta. rewrite Ek.
  destruct (usample_okK content w w Hok Hs c Ech Ek [] (Some a) (t0 :: r) s eq_refl Em) as [E1 I1]; auto.
  - intros a' Ha. injection Ha as <-. exact Hc.
  - destruct (zdiv w c); [split; [reflexivity|exact I1]|].
    cbn [fst snd]. rewrite E1. split; [reflexivity|exact I1].
Qed.

(* round 5: a call that raises KeyError (known finding C08-chain-parallel-linear-keyerror) leaves changed caches behind
   (Hist.get_sampled_st); that the cache invariant survives such a call is NOT proved: the theorem is for histories in which
   no asked channel raises ([kerr w c = false] for every call) *)
Theorem history_independent_lin : forall w content calls, okb w = true -> trans_ok_all w = true ->
  (forall c a ts, In (c, a, ts) calls -> ts = content a) ->
  (forall c a ts, In (c, a, ts) calls -> kerr w c = false) ->
  run_hist w calls [] = map (fun call => get_sampled w (fst (fst call)) (snd call)) calls.
Proof.
  intros w content calls Hok Hs Hcont Hkerr.
  assert (G : forall s, InvK content w s ->
            run_hist w calls s = map (fun call => get_sampled w (fst (fst call)) (snd call)) calls).
  { induction calls as [|[[c a] ts] r IH]; intros s HI; [reflexivity|].
    cbn [run_hist map fst snd].
    destruct (get_sampled_st_okK content w Hok Hs c a ts s) as [E1 I1]; auto.
    - apply (Hkerr c a ts). cbn. auto.
    - apply (Hcont c a ts). cbn. auto.
    - rewrite E1. f_equal. apply IH; [| |exact I1]; intros c' a' ts' Hin; [apply (Hcont c' a' ts')|apply (Hkerr c' a' ts')]; cbn; auto. }
  apply G. intros q w' e _ Hg. cbn in Hg. discriminate.
Qed.

Example history_lin_example :
  let w := WTrans (WMulti [WConst 1 2 1%N; WTable 2%N [mkE 0 0 Hold; mkE 1 1 Linear]; WTable 3%N [mkE 0 0 Hold; mkE 1 3 Linear]])
                  (TChain [TParallel [(4%N, TC 7)]; TLinear [1%N; 2%N] [0%N; 1%N] [[1; 1]; [1; -1]]; TScale [(0%N, TT 1 1)]]) in
  let calls := [(3%N, 0%N, [0; 1#2]); (0%N, 0%N, [0; 1#2]); (1%N, 0%N, [0; 1#2]); (4%N, 1%N, [1#4; 1]); (0%N, 1%N, [1#4; 1]); (3%N, 0%N, [0; 1#2])] in
  okb w = true /\ trans_ok_all w = true /\ negb (linfree (TChain [TParallel [(4%N, TC 7)]; TLinear [1%N; 2%N] [0%N; 1%N] [[1; 1]; [1; -1]]])) = true /\
  forallb (fun call => negb (kerr w (fst (fst call)))) calls = true /\
  run_hist w calls [] = map (fun call => get_sampled w (fst (fst call)) (snd call)) calls.
Proof. split; [reflexivity|]. split; [reflexivity|]. split; [reflexivity|]. split; [reflexivity|]. vm_compute. reflexivity. Qed.
