(* C08 — the vectorised sampler (searchsorted + slice assignment + reversed views) computes, for a sorted grid, exactly
   the pointwise meaning of every requested time: sample_vec w c ts = map (sample w c) ts. *)
From Coq Require Import List ZArith QArith Qabs Bool Lia Lqa Sorting.Sorted.
Require Import QV.C08.Model QV.C08.Spec QV.C08.Wf.
Import ListNotations.
Open Scope Q_scope.

(* ------------------------------------------------------------------------------------------------------------------ *)
(* sortedness *)

Definition ssorted (l : list Q) : Prop := StronglySorted Qle l.

Lemma sortedb_ssorted l : sortedb l = true -> ssorted l.
Proof.
  induction l as [|a l IH]; intros H; [constructor|].
  destruct l as [|b l]; [constructor; constructor|].
  change (Qle_bool a b && sortedb (b :: l) = true) in H. apply andb_prop in H as [Hab Hs]. apply Qle_bool_iff in Hab.
  specialize (IH Hs). constructor; [exact IH|].
  inversion IH as [|x y Hy Hall]; subst. constructor; [exact Hab|].
  eapply Forall_impl; [|exact Hall]. intros z Hz. cbn in Hz. eapply Qle_trans; eauto.
Qed.
Lemma ssorted_sortedb l : ssorted l -> sortedb l = true.
Proof.
  induction 1 as [|a l Hs IH Hall]; [reflexivity|].
  destruct l as [|b l]; [reflexivity|].
  change (Qle_bool a b && sortedb (b :: l) = true). rewrite IH, andb_true_r.
  inversion Hall; subst. apply Qle_bool_iff; assumption.
Qed.

Lemma ssorted_skipn n : forall l, ssorted l -> ssorted (skipn n l).
Proof. induction n; intros [|a l] H; cbn; auto. apply IHn. inversion H; assumption. Qed.
Lemma Forall_firstn {A} (P : A -> Prop) n : forall l, Forall P l -> Forall P (firstn n l).
Proof. induction n; intros [|a l] H; cbn; auto. inversion H; subst. constructor; auto. Qed.
Lemma ssorted_firstn n : forall l, ssorted l -> ssorted (firstn n l).
Proof.
  induction n; intros [|a l] H; cbn; try constructor.
  - inversion H; subst. apply IHn; assumption.
  - inversion H; subst. apply Forall_firstn; assumption.
Qed.
Lemma ssorted_slice l lo hi : ssorted l -> ssorted (slice l lo hi).
Proof. intros. unfold slice. apply ssorted_firstn, ssorted_skipn; assumption. Qed.
Lemma ssorted_shift c l : ssorted l -> ssorted (map (fun t => t - c) l).
Proof.
  induction 1 as [|a l Hs IH Hall]; cbn; constructor; auto.
  apply Forall_forall. intros y Hy. apply in_map_iff in Hy as [z [<- Hz]].
  rewrite Forall_forall in Hall. specialize (Hall z Hz). cbn beta in Hall. lra.
Qed.
Lemma ssorted_app l1 l2 : ssorted l1 -> ssorted l2 -> (forall x y, In x l1 -> In y l2 -> x <= y) -> ssorted (l1 ++ l2).
Proof.
  induction 1 as [|a l Hs IH Hall]; intros H2 Hc; cbn; auto.
  constructor.
  - apply IH; auto. intros; apply Hc; cbn; auto.
  - apply Forall_app; split; auto. apply Forall_forall. intros y Hy. apply Hc; cbn; auto.
Qed.
Lemma ssorted_rev_mirror d l : ssorted l -> ssorted (rev (map (fun t => d - t) l)).
Proof.
  induction 1 as [|a l Hs IH Hall]; cbn; [constructor|].
  apply ssorted_app; auto.
  - constructor; constructor.
  - intros x y Hx [<-|[]]. apply in_rev in Hx. apply in_map_iff in Hx as [z [<- Hz]].
    rewrite Forall_forall in Hall. specialize (Hall z Hz). cbn beta in Hall. lra.
Qed.

(* ------------------------------------------------------------------------------------------------------------------ *)
(* the slice-assignment engine *)

Fixpoint cnt (p : Q -> bool) (ts : list Q) : nat :=
  match ts with [] => O | t :: r => if p t then S (cnt p r) else O end.
Lemma ss_left_cnt a ts : ss_left a ts = cnt (fun t => Qltb t a) ts.
Proof. induction ts; cbn; auto. rewrite IHts; reflexivity. Qed.
Lemma ss_right_cnt a ts : ss_right a ts = cnt (fun t => Qle_bool t a) ts.
Proof. induction ts; cbn; auto. rewrite IHts; reflexivity. Qed.

(* once false, false on everything later *)
Fixpoint pc (p : Q -> bool) (ts : list Q) : Prop :=
  match ts with [] => True | t :: r => (p t = false -> Forall (fun y => p y = false) r) /\ pc p r end.

Lemma ssorted_pc_lt a ts : ssorted ts -> pc (fun t => Qltb t a) ts.
Proof.
  induction 1 as [|t l Hs IH Hall]; cbn; auto. split; auto.
  intros Ht. eapply Forall_impl; [|exact Hall]. intros y Hy. cbn in Hy.
  unfold Qltb in *. apply negb_false_iff in Ht. apply Qle_bool_iff in Ht.
  apply negb_false_iff. apply Qle_bool_iff. lra.
Qed.
Lemma ssorted_pc_le a ts : ssorted ts -> pc (fun t => Qle_bool t a) ts.
Proof.
  induction 1 as [|t l Hs IH Hall]; cbn; auto. split; auto.
  intros Ht. eapply Forall_impl; [|exact Hall]. intros y Hy. cbn in Hy.
  destruct (Qle_bool y a) eqn:E; auto. apply Qle_bool_iff in E.
  assert (t <= a) by lra. apply Qle_bool_iff in H. congruence.
Qed.

Lemma cnt_all_false p ts : Forall (fun y => p y = false) ts -> cnt p ts = O.
Proof. destruct 1; cbn; auto. rewrite H; reflexivity. Qed.

Lemma map_unchanged {B} (cond : Q -> bool) (f : Q -> B) ts : forall out,
  Forall (fun y => cond y = false) ts -> length out = length ts ->
  map (fun to => if cond (fst to) then f (fst to) else snd to) (combine ts out) = out.
Proof.
  induction ts as [|t r IH]; intros [|o out] Hall Hlen; cbn in *; try discriminate; auto.
  inversion Hall; subst. rewrite H1. f_equal. apply IH; auto.
Qed.

Lemma write_slice (p q : Q -> bool) (f : Q -> option Q) : forall ts out,
  pc p ts -> pc q ts -> length out = length ts ->
  write out (cnt p ts) (cnt q ts) (map f (slice ts (cnt p ts) (cnt q ts)))
  = map (fun to => if negb (p (fst to)) && q (fst to) then f (fst to) else snd to) (combine ts out).
Proof.
  induction ts as [|t r IH]; intros [|o out] Hp Hq Hlen; cbn in Hlen; try discriminate; [reflexivity|].
  destruct Hp as [Hp1 Hp], Hq as [Hq1 Hq]. injection Hlen as Hlen.
  cbn [cnt combine map fst snd].
  destruct (p t) eqn:Ept, (q t) eqn:Eqt; cbn [negb andb].
  - (* inside both prefixes *)
    specialize (IH out Hp Hq Hlen). rewrite <- IH.
    unfold write, slice. cbn [Nat.leb Nat.sub skipn firstn].
    destruct (cnt q r <=? cnt p r)%nat; reflexivity.
  - (* q already false: empty slice, nothing changes *)
    unfold write. cbn [Nat.leb]. f_equal. symmetry.
    rewrite (map_unchanged (fun y => negb (p y) && q y) f); auto.
    eapply Forall_impl; [|exact (Hq1 eq_refl)]. intros y Hy. cbn in Hy. rewrite Hy, andb_false_r. reflexivity.
  - (* slice starts here *)
    specialize (IH out Hp Hq Hlen).
    assert (Hc : cnt p r = O) by (apply cnt_all_false; auto).
    rewrite Hc in IH. rewrite <- IH.
    unfold write, slice. cbn [Nat.leb Nat.sub skipn firstn app map].
    rewrite Nat.sub_0_r. f_equal.
    destruct (cnt q r) as [|k]; cbn [Nat.leb firstn skipn map app]; reflexivity.
  - unfold write. cbn [Nat.leb]. f_equal. symmetry.
    rewrite (map_unchanged (fun y => negb (p y) && q y) f); auto.
    eapply Forall_impl; [|exact (Hq1 eq_refl)]. intros y Hy. cbn in Hy. rewrite Hy, andb_false_r. reflexivity.
Qed.

(* map / combine fusion *)
Lemma combine_map_fuse {B C} (F : Q -> B -> C) (G : Q -> B -> B) ts : forall out,
  map (fun to => F (fst to) (snd to)) (combine ts (map (fun to => G (fst to) (snd to)) (combine ts out)))
  = map (fun to => F (fst to) (G (fst to) (snd to))) (combine ts out).
Proof. induction ts as [|t r IH]; intros [|o out]; cbn; auto. f_equal. apply IH. Qed.
Lemma combine_map_r {B C} (F : Q -> B -> C) (H : Q -> B) ts :
  map (fun to => F (fst to) (snd to)) (combine ts (map H ts)) = map (fun t => F t (H t)) ts.
Proof. induction ts; cbn; auto. f_equal; auto. Qed.
Lemma combine_map_both {B C D} (F : B -> C -> D) (f : Q -> B) (g : Q -> C) ts :
  map (fun ab => F (fst ab) (snd ab)) (combine (map f ts) (map g ts)) = map (fun t => F (f t) (g t)) ts.
Proof. induction ts; cbn; auto. f_equal; auto. Qed.
Lemma map_snd_combine {B} ts : forall (out : list B), length out = length ts -> map (@snd Q B) (combine ts out) = out.
Proof. induction ts; intros [|o out] H; cbn in *; try discriminate; auto. f_equal; auto. Qed.
Lemma length_map_combine {B C} (F : Q * B -> C) ts (out : list B) :
  length out = length ts -> length (map F (combine ts out)) = length ts.
Proof. intros. rewrite map_length, combine_length. lia. Qed.

(* ------------------------------------------------------------------------------------------------------------------ *)
(* table *)

Lemma table_vec_cons2 e1 e2 r ts out :
  table_vec (e1 :: e2 :: r) ts out =
  table_vec (e2 :: r) ts (write out (ss_left (e_t e1) ts) (ss_right (e_t e2) ts)
    (map (fun t => Some (interp_at (e_i e2) (e_t e1) (e_v e1) (e_t e2) (e_v e2) t))
         (slice ts (ss_left (e_t e1) ts) (ss_right (e_t e2) ts)))).
Proof. reflexivity. Qed.
Lemma table_at_cons2 e1 e2 r t acc :
  table_at (e1 :: e2 :: r) t acc =
  table_at (e2 :: r) t (if negb (Qltb t (e_t e1)) && Qle_bool t (e_t e2)
                        then Some (interp_at (e_i e2) (e_t e1) (e_v e1) (e_t e2) (e_v e2) t) else acc).
Proof. reflexivity. Qed.

Lemma table_vec_spec es : forall ts out, ssorted ts -> length out = length ts ->
  table_vec es ts out = map (fun to => table_at es (fst to) (snd to)) (combine ts out).
Proof.
  induction es as [|e1 r IH]; intros ts out Hs Hlen.
  - cbn. symmetry. apply map_snd_combine; auto.
  - destruct r as [|e2 r'].
    + cbn. symmetry. apply map_snd_combine; auto.
    + rewrite table_vec_cons2.
      rewrite ss_left_cnt, ss_right_cnt.
      rewrite (write_slice (fun t => Qltb t (e_t e1)) (fun t => Qle_bool t (e_t e2))
                 (fun t => Some (interp_at (e_i e2) (e_t e1) (e_v e1) (e_t e2) (e_v e2) t)));
        auto using ssorted_pc_lt, ssorted_pc_le.
      rewrite IH; auto.
      * rewrite (combine_map_fuse (fun t acc => table_at (e2 :: r') t acc)
                   (fun t acc => if negb (Qltb t (e_t e1)) && Qle_bool t (e_t e2)
                                 then Some (interp_at (e_i e2) (e_t e1) (e_v e1) (e_t e2) (e_v e2) t) else acc)).
        apply map_ext. intros to. rewrite table_at_cons2. reflexivity.
      * apply length_map_combine; auto.
Qed.

(* ------------------------------------------------------------------------------------------------------------------ *)
(* the loops of SequenceWaveform / RepetitionWaveform, named (convertible with the anonymous fixes of the model) *)

Section Loops.
  Variable c : chan.
  Section Vec.
    Variable ts : list Q.
    Fixpoint seqv (l : list wf) (time : Q) (out : list (option Q)) : list (option Q) :=
      match l with
      | [] => out
      | s :: r =>
          let e := time + duration s in
          let lo := ss_left time ts in
          let hi := ss_left e ts in
          seqv r e (write out lo hi (sample_vec s c (map (fun t => t - time) (slice ts lo hi))))
      end.
    Variable b : wf.
    Fixpoint repv (k : nat) (time : Q) (out : list (option Q)) : list (option Q) :=
      match k with
      | O => out
      | S k' =>
          let e := time + duration b in
          let lo := ss_left time ts in
          let hi := ss_left e ts in
          repv k' e (write out lo hi (sample_vec b c (map (fun t => t - time) (slice ts lo hi))))
      end.
  End Vec.
  Section Pt.
    Variable t : Q.
    Fixpoint seqp (l : list wf) (time : Q) (acc : option Q) : option Q :=
      match l with
      | [] => acc
      | s :: r => let e := time + duration s in
                  seqp r e (if negb (Qltb t time) && Qltb t e then sample s c (t - time) else acc)
      end.
    Variable b : wf.
    Fixpoint repp (k : nat) (time : Q) (acc : option Q) : option Q :=
      match k with
      | O => acc
      | S k' => let e := time + duration b in
                repp k' e (if negb (Qltb t time) && Qltb t e then sample b c (t - time) else acc)
      end.
  End Pt.
End Loops.

Lemma sample_vec_seq l c ts : sample_vec (WSeq l) c ts = seqv c ts l 0 (nan_like ts).
Proof. reflexivity. Qed.
Lemma sample_seq l c t : sample (WSeq l) c t = seqp c t l 0 None.
Proof. reflexivity. Qed.
Lemma sample_vec_rep b n c ts : sample_vec (WRep b n) c ts = repv c ts b (Z.to_nat n) 0 (nan_like ts).
Proof. reflexivity. Qed.
Lemma sample_rep b n c t : sample (WRep b n) c t = repp c t b (Z.to_nat n) 0 None.
Proof. reflexivity. Qed.

Definition pointwise_ok (w : wf) : Prop :=
  forall c ts, sortedb ts = true -> sample_vec w c ts = map (sample w c) ts.

Lemma child_slice c ts s time lo hi : ssorted ts -> pointwise_ok s ->
  sample_vec s c (map (fun t => t - time) (slice ts lo hi)) = map (fun t => sample s c (t - time)) (slice ts lo hi).
Proof.
  intros Hs Hok. rewrite Hok.
  - rewrite map_map. reflexivity.
  - apply ssorted_sortedb, ssorted_shift, ssorted_slice; assumption.
Qed.

Lemma seqv_spec c ts (Hs : ssorted ts) : forall l, Forall pointwise_ok l -> forall time out,
  length out = length ts ->
  seqv c ts l time out = map (fun to => seqp c (fst to) l time (snd to)) (combine ts out).
Proof.
  induction 1 as [|s r Hok _ IH]; intros time out Hlen.
  - cbn. symmetry. apply map_snd_combine; auto.
  - cbn [seqv seqp]. cbv zeta.
    rewrite child_slice; auto.
    rewrite !ss_left_cnt.
    rewrite (write_slice (fun t => Qltb t time) (fun t => Qltb t (time + duration s))
               (fun t => sample s c (t - time))); auto using ssorted_pc_lt.
    rewrite IH.
    + apply (combine_map_fuse (fun t acc => seqp c t r (time + duration s) acc)
               (fun t acc => if negb (Qltb t time) && Qltb t (time + duration s) then sample s c (t - time) else acc)).
    + apply length_map_combine; auto.
Qed.

Lemma repv_spec c ts b (Hs : ssorted ts) (Hok : pointwise_ok b) : forall k time out,
  length out = length ts ->
  repv c ts b k time out = map (fun to => repp c (fst to) b k time (snd to)) (combine ts out).
Proof.
  induction k as [|k IH]; intros time out Hlen.
  - cbn. symmetry. apply map_snd_combine; auto.
  - cbn [repv repp]. cbv zeta.
    rewrite child_slice; auto.
    rewrite !ss_left_cnt.
    rewrite (write_slice (fun t => Qltb t time) (fun t => Qltb t (time + duration b))
               (fun t => sample b c (t - time))); auto using ssorted_pc_lt.
    rewrite IH.
    + apply (combine_map_fuse (fun t acc => repp c t b k (time + duration b) acc)
               (fun t acc => if negb (Qltb t time) && Qltb t (time + duration b) then sample b c (t - time) else acc)).
    + apply length_map_combine; auto.
Qed.

Lemma nan_like_length ts : length (nan_like ts) = length ts.
Proof. apply map_length. Qed.
Lemma combine_nan {C} (F : Q -> option Q -> C) ts :
  map (fun to => F (fst to) (snd to)) (combine ts (nan_like ts)) = map (fun t => F t None) ts.
Proof. unfold nan_like. apply (combine_map_r F (fun _ => None)). Qed.

(* ------------------------------------------------------------------------------------------------------------------ *)
(* transforming waveform: per-time rows of the channel -> array mapping *)

Lemma rows_spec (f : chan -> Q -> option Q) ins : forall ts,
  rows ts (map (fun ic => (ic, map (f ic) ts)) ins) = map (fun t => map (fun ic => (ic, f ic t)) ins) ts.
Proof.
  induction ts as [|t r IH]; [reflexivity|].
  cbn [rows map]. f_equal.
  - rewrite map_map. reflexivity.
  - rewrite map_map. cbn [fst snd tl]. exact IH.
Qed.

(* ------------------------------------------------------------------------------------------------------------------ *)
(* main theorem *)

Theorem sample_vec_pointwise : forall w c ts, sortedb ts = true -> sample_vec w c ts = map (sample w c) ts.
Proof.
  intros w. change (pointwise_ok w).
  induction w using wf_ind'; intros ch ts Hsb; pose proof (sortedb_ssorted _ Hsb) as Hs.
  - (* table *)
    cbn [sample_vec sample]. rewrite table_vec_spec; auto using nan_like_length.
    apply (combine_nan (fun t acc => table_at tab t acc)).
  - reflexivity.
  - reflexivity.
  - (* sequence *)
    rewrite sample_vec_seq. rewrite seqv_spec; auto using nan_like_length.
    rewrite (combine_nan (fun t acc => seqp ch t l 0 acc)). reflexivity.
  - (* multi-channel: first part that has the channel *)
    cbn [sample_vec sample].
    induction H as [|s r Hok _ IH]; [reflexivity|].
    destruct (inb ch (channels s)); [apply Hok; assumption|apply IH].
  - (* repetition *)
    rewrite sample_vec_rep. rewrite repv_spec; auto using nan_like_length.
    rewrite (combine_nan (fun t acc => repp ch t w (Z.to_nat n) 0 acc)). reflexivity.
  - (* transforming *)
    cbn [sample_vec sample]. destruct (t_in T [ch]) as [ins|]; [|reflexivity].
    assert (E : map (fun ic => (ic, sample_vec w ic ts)) ins = map (fun ic => (ic, map (sample w ic) ts)) ins).
    { apply map_ext. intros ic. rewrite IHw; auto. }
    rewrite E, (rows_spec (sample w)).
    apply (combine_map_r (fun t row => match t_point T t row with
                                       | Some out => match lookup ch out with Some v => v | None => None end
                                       | None => None end)).
  - (* subset *)
    cbn [sample_vec sample]. apply IHw; assumption.
  - (* arithmetic *)
    cbn [sample_vec sample]. rewrite IHw1, IHw2; auto.
    destruct (inb ch (channels w1)), (inb ch (channels w2)); try reflexivity.
    + apply (combine_map_both (omap2 (aop_at o))).
    + rewrite map_map. reflexivity.
    + rewrite map_map. reflexivity.
  - (* functor *)
    cbn [sample_vec sample]. destruct (lookup ch f); [|reflexivity].
    rewrite IHw; auto. rewrite map_map. reflexivity.
  - (* reversed *)
    cbn [sample_vec sample]. rewrite IHw.
    + rewrite <- map_rev, rev_involutive, map_map. reflexivity.
    + apply ssorted_sortedb, ssorted_rev_mirror; assumption.
Qed.

Corollary sample_vec_length : forall w c ts, sortedb ts = true -> length (sample_vec w c ts) = length ts.
Proof. intros. rewrite sample_vec_pointwise; auto. apply map_length. Qed.

(* the answer for one time does not depend on which other times are requested *)
Corollary sample_vec_independent : forall w c ts1 ts2 t i j,
  sortedb ts1 = true -> sortedb ts2 = true ->
  nth_error ts1 i = Some t -> nth_error ts2 j = Some t ->
  nth_error (sample_vec w c ts1) i = nth_error (sample_vec w c ts2) j.
Proof.
  intros w c ts1 ts2 t i j H1 H2 N1 N2.
  rewrite !sample_vec_pointwise; auto.
  rewrite (map_nth_error (sample w c) i ts1 N1), (map_nth_error (sample w c) j ts2 N2). reflexivity.
Qed.

(* get_sampled (one call) is pointwise as well: gs at every time *)
Corollary get_sampled_pointwise : forall w c ts vals,
  get_sampled w c ts = OK vals -> vals = map (gs w c) ts.
Proof.
  intros w c ts vals. unfold get_sampled, gs.
  destruct ts as [|t0 r]; [intros H; injection H as <-; reflexivity|].
  destruct (monotonic (t0 :: r)) eqn:Em; cbn [negb]; [|discriminate].
  destruct (Qltb t0 0 || Qltb (duration w) (last (t0 :: r) 0)); [discriminate|].
  destruct (inb c (channels w)); cbn [negb]; [|discriminate].
  destruct (cv w c) as [v|].
  - intros H; injection H as <-. reflexivity.
  - destruct (zdiv w c); [discriminate|]. destruct (kerr w c); [discriminate|]. intros H; injection H as <-.
    apply sample_vec_pointwise.
    exact Em.      (* [monotonic] and [sortedb] are the same fixpoint *)
Qed.

(* non-vacuity: a three-level waveform on a sorted grid that hits junctions; both NaN and finite values occur *)
Example pointwise_example :
  let tabA := WTable 1%N [mkE 0 1 Hold; mkE (1#2) 2 Linear] in
  let w := WRev (WSeq [tabA; WRep (WTable 1%N [mkE 0 5 Jump; mkE (1#4) 7 Hold]) 2]) in
  let ts := [0; 1#4; 1#2; 1#2; 3#4; 1] in
  sortedb ts = true /\
  list_eqb' oQeqb (sample_vec w 1%N ts) (map (sample w 1%N) ts) = true /\
  list_eqb' oQeqb (sample_vec w 1%N ts) [None; Some 5; Some 5; Some 5; Some (3#2); Some 1] = true.
Proof. vm_compute. repeat split; reflexivity. Qed.
