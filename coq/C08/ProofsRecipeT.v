(* C08 — the composed statement over construction recipes WITH transformations (round 3): for every recipe without
   reversal and get_subset_for_channels nodes, whose transformations have the constructor-guaranteed shape ([t_wfb]) and
   duplicate-free dict keys / output channels ([t_nodupb]), the waveform the real constructors build (optimising or plain
   at every node, from_transformation included) is well formed, has the channels and the duration of the PLAIN composite
   and samples like it on [0, duration) - for every channel on whose path the plain composite raises no KeyError
   ([kerr wp c = false], known finding C08-chain-parallel-linear-keyerror).  Invariant carried through [build]:
   [kerr wp c = false -> kerr w c = false]. *)
From Coq Require Import List ZArith QArith Qabs Bool Lia Lqa Permutation.
Require Import QV.C08.Model QV.C08.Spec QV.C08.Wf QV.C08.Hist QV.C08.Lin QV.C08.ProofsVec QV.C08.ProofsConst QV.C08.ProofsProper
               QV.C08.ProofsTrafo QV.C08.ProofsCtor QV.C08.ProofsPar QV.C08.ProofsFlat QV.C08.ProofsDen QV.C08.ProofsOp
               QV.C08.ProofsTable QV.C08.ProofsDedup QV.C08.ProofsMirror QV.C08.ProofsOkb QV.C08.ProofsSubset
               QV.C08.ProofsConstT QV.C08.ProofsTotalT QV.C08.ProofsSimple QV.C08.ProofsLin QV.C08.ProofsRecipe.
Import ListNotations.
Open Scope Q_scope.

(* ---- get_output_channels depends only on the SET of input channels ---- *)
Definition oset_eq (a b : option (list chan)) : Prop :=
  match a, b with Some x, Some y => forall c, inb c x = inb c y | None, None => True | _, _ => False end.

Lemma subsetb_ext i a b : (forall c, inb c a = inb c b) -> subsetb i a = subsetb i b.
Proof. intros H. unfold subsetb. induction i as [|x r IH]; [reflexivity|]. cbn. rewrite H, IH. reflexivity. Qed.

Lemma t_out_ext : forall T a b, (forall c, inb c a = inb c b) -> oset_eq (t_out T a) (t_out T b).
Proof.
  induction T using trafo_ind'; intros a b Hab; cbn [t_out oset_eq]; auto.
  - rewrite (subsetb_ext i a b Hab). destruct (subsetb i b); [|exact I].
    intros c. rewrite !inb_unionb, !inb_diffb, Hab. reflexivity.
  - intros c. rewrite !inb_unionb, Hab. reflexivity.
  - revert a b Hab. induction H as [|x r Hx _ IH]; intros a b Hab; [exact Hab|].
    pose proof (Hx a b Hab) as E. unfold oset_eq in E.
    destruct (t_out x a) as [na|], (t_out x b) as [nb|]; try contradiction; [|exact I].
    exact (IH na nb E).
Qed.

(* ---- duplicate-free keys ---- *)
Fixpoint t_nodupb (T : trafo) : bool :=
  match T with
  | TId | TScale _ | TOffset _ => true
  | TParallel cs => nodupb (keys cs)
  | TLinear _ o _ => nodupb o
  | TChain l => (fix all (l : list trafo) := match l with [] => true | x :: r => t_nodupb x && all r end) l
  end.
Lemma t_nodupb_all_Forall l :
  (fix all (l : list trafo) := match l with [] => true | x :: r => t_nodupb x && all r end) l = true ->
  Forall (fun x => t_nodupb x = true) l.
Proof.
  induction l as [|x r IH]; intros H; constructor.
  - apply andb_prop in H as [H _]; exact H.
  - apply IH. apply andb_prop in H as [_ H]; exact H.
Qed.

Lemma keys_map_fst' {A B} (g : chan * A -> B) (l : list (chan * A)) : keys (map (fun kv => (fst kv, g kv)) l) = keys l.
Proof. unfold keys. rewrite map_map. reflexivity. Qed.
Lemma keys_filter (p : chan * option Q -> bool) (d : data) : keys (filter p d) = map fst (filter p d).
Proof. reflexivity. Qed.
Lemma NoDup_keys_filter (p : chan * option Q -> bool) (d : data) : NoDup (keys d) -> NoDup (keys (filter p d)).
Proof.
  unfold keys. induction d as [|[k v] r IH]; cbn; intros H; [constructor|].
  inversion H as [|? ? Hn Hr]; subst. destruct (p (k, v)); cbn; [|exact (IH Hr)].
  constructor; [|exact (IH Hr)]. intros Hin. apply Hn. clear -Hin.
  induction r as [|[k' v'] r IH]; [contradiction|]. cbn in *. destruct (p (k', v')); cbn in *; [destruct Hin; auto|auto].
Qed.
Lemma In_keys_filter (p : chan * option Q -> bool) (d : data) k : In k (keys (filter p d)) -> exists v, In (k, v) d /\ p (k, v) = true.
Proof.
  unfold keys. intros H. apply in_map_iff in H as [[k' v] [E Hin]]. cbn in E. subst k'. apply filter_In in Hin. eauto.
Qed.
Lemma keys_combine_len {A} (o : list chan) (m : list A) : length o = length m -> keys (combine o m) = o.
Proof.
  revert m. induction o as [|a o IH]; intros [|x m] L; try discriminate; [reflexivity|].
  unfold keys in *. cbn. rewrite IH; [reflexivity|]. cbn in L. lia.
Qed.

Lemma t_point_nodup : forall T, t_wfb T = true -> t_nodupb T = true -> forall t d o,
  NoDup (keys d) -> t_point T t d = Some o -> NoDup (keys o).
Proof.
  induction T using trafo_ind'; intros Hwf Hnd t d o0 Hd Ho.
  - cbn in Ho. injection Ho as <-. exact Hd.
  - cbn in Ho. injection Ho as <-.
    replace (keys (map _ d)) with (keys d); [exact Hd|]. unfold keys. rewrite map_map. apply map_ext.
    intros [k v]. cbn. destruct (lookup k f); reflexivity.
  - cbn in Ho. injection Ho as <-.
    replace (keys (map _ d)) with (keys d); [exact Hd|]. unfold keys. rewrite map_map. apply map_ext.
    intros [k v]. cbn. destruct (lookup k f); reflexivity.
  - (* linear *)
    cbn [t_wfb] in Hwf. apply andb_prop in Hwf as [_ Hlen]. apply Nat.eqb_eq in Hlen. cbn [t_nodupb] in Hnd.
    apply nodupb_NoDup in Hnd. cbn [t_point] in Ho.
    destruct (length (filter (fun kv => negb (inb (fst kv) i)) d) =? length d)%nat.
    + injection Ho as <-. apply NoDup_keys_filter. exact Hd.
    + destruct (subsetb i (keys d)); [|discriminate]. injection Ho as <-.
      unfold keys. rewrite map_app. apply NoDup_app'.
      * rewrite map_map. cbn [fst].
        replace (map (fun x : chan * list Q => fst x) (combine o m)) with (keys (combine o m)) by reflexivity.
        rewrite keys_combine_len by exact Hlen. exact Hnd.
      * apply (NoDup_keys_filter (fun kv => negb (inb (fst kv) o))). apply NoDup_keys_filter. exact Hd.
      * intros k Hk1 Hk2. rewrite map_map in Hk1. cbn [fst] in Hk1.
        replace (map (fun x : chan * list Q => fst x) (combine o m)) with (keys (combine o m)) in Hk1 by reflexivity.
        rewrite keys_combine_len in Hk1 by exact Hlen.
        destruct (In_keys_filter _ _ k Hk2) as [v [_ Hp]]. cbn [fst] in Hp. apply negb_true_iff in Hp.
        apply (proj2 (inb_In k o)) in Hk1. congruence.
  - (* parallel *)
    cbn [t_nodupb] in Hnd. apply nodupb_NoDup in Hnd. cbn [t_point] in Ho. injection Ho as <-.
    unfold keys. rewrite map_app. apply NoDup_app'.
    + rewrite map_map. cbn [fst]. exact Hnd.
    + apply (NoDup_keys_filter (fun kv => negb (inb (fst kv) (keys f)))). exact Hd.
    + intros k Hk1 Hk2. rewrite map_map in Hk1. cbn [fst] in Hk1.
      destruct (In_keys_filter _ _ k Hk2) as [v [_ Hp]]. cbn [fst] in Hp. apply negb_true_iff in Hp.
      apply (proj2 (inb_In k (keys f))) in Hk1. unfold keys in *. congruence.
  - (* chain *)
    cbn [t_wfb] in Hwf. cbn [t_nodupb] in Hnd. apply t_wfb_all_Forall in Hwf. apply t_nodupb_all_Forall in Hnd.
    cbn [t_point] in Ho. revert d Hd Ho.
    induction H as [|x r Hx _ IH]; intros d Hd Ho.
    + injection Ho as <-. exact Hd.
    + apply Forall_cons_iff in Hwf as [W1 W2]. apply Forall_cons_iff in Hnd as [N1 N2].
      destruct (t_point x t d) as [n|] eqn:E; [|discriminate].
      exact (IH W2 N2 n (Hx W1 N1 t d n Hd E) Ho).
Qed.

(* ---- kerr of composites ---- *)
Lemma kerr_seq_any l c : kerr (WSeq l) c = existsb (fun x => kerr x c) l.
Proof. cbn [kerr]. induction l as [|x r IH]; [reflexivity|]. cbn [existsb]. rewrite IH. reflexivity. Qed.
Lemma kerr_multi_find l c : kerr (WMulti l) c = match find (has c) l with Some x => kerr x c | None => false end.
Proof.
  cbn [kerr]. induction l as [|h r IH]; [reflexivity|]. cbn [find]. unfold has at 1.
  destruct (inb c (channels h)); [reflexivity|exact IH].
Qed.
Lemma kerr_multi_unique l c x :
  (forall a b, In a l -> In b l -> has c a = true -> has c b = true -> a = b) ->
  In x l -> has c x = true -> kerr (WMulti l) c = kerr x c.
Proof.
  intros Hu Hx Hc. rewrite kerr_multi_find.
  assert (F : find (has c) l = Some x).
  { induction l as [|h r IH]; [contradiction|]. cbn [find].
    destruct (has c h) eqn:Eh.
    - f_equal. apply Hu; cbn; auto.
    - destruct Hx as [->|Hx]; [congruence|]. apply IH; auto. intros a b Ha Hb. apply Hu; cbn; auto. }
  rewrite F. reflexivity.
Qed.
Lemma kerr_multi_parts l c : (forall x, In x l -> has c x = true -> kerr x c = false) -> kerr (WMulti l) c = false.
Proof.
  intros H. rewrite kerr_multi_find. destruct (find (has c) l) as [x|] eqn:F; [|reflexivity].
  apply find_some in F as [Hx Hc]. auto.
Qed.
Lemma kerr_from_mapping dur d w' : from_mapping dur d = OK w' -> forall c, kerr w' c = false.
Proof.
  intros H c. unfold from_mapping in H. destruct d as [|[k v0] [|kv2 r]]; [discriminate| |].
  - injection H as <-. reflexivity.
  - injection H as <-. apply kerr_multi_parts. intros x Hx _.
    apply (Permutation_in _ (sort_wfs_perm _)) in Hx.
    change (mk_const dur v0 k :: mk_const dur (snd kv2) (fst kv2) :: map (fun kv => mk_const dur (snd kv) (fst kv)) r)
      with (map (fun kv => mk_const dur (snd kv) (fst kv)) ((k, v0) :: kv2 :: r)) in Hx.
    apply in_map_iff in Hx as [kv [<- _]]. reflexivity.
Qed.

(* ---- the invariant: no KeyError on the plain composite => none on the built waveform ---- *)
Definition J (w wp : wf) : Prop := forall c, inb c (channels wp) = true -> kerr wp c = false -> kerr w c = false.
Definition RelK (w wp : wf) : Prop := Rel w wp /\ J w wp.
Lemma J_nokerr w wp : (forall c, kerr w c = false) -> J w wp.
Proof. intros H c _ _. apply H. Qed.
Lemma F2_RelK_Rel ws wps : Forall2 RelK ws wps -> Forall2 Rel ws wps.
Proof. induction 1 as [|a b l l' [R _] _ IH]; constructor; auto. Qed.

(* ---- TransformingWaveform over related inner waveforms ---- *)
Lemma t_out_rel T b bp co : (forall c, inb c (channels b) = inb c (channels bp)) -> t_out T (channels bp) = Some co ->
  exists co', t_out T (channels b) = Some co' /\ forall c, inb c co' = inb c co.
Proof.
  intros C Eo. pose proof (t_out_ext T (channels b) (channels bp) C) as E. rewrite Eo in E. unfold oset_eq in E.
  destruct (t_out T (channels b)) as [co'|]; [eauto|contradiction].
Qed.

Lemma trans_congr b bp T : Rel b bp -> okb (WTrans bp T) = true ->
  good (WTrans b T) /\ Eqv (WTrans b T) (WTrans bp T).
Proof.
  intros [[Ob Cb] [Obp [C [D S]]]] Hokp. pose proof Hokp as Hokp'. cbn [okb] in Hokp'. apply andb_prop in Hokp' as [_ Hout].
  destruct (t_out T (channels bp)) as [co|] eqn:Eo; [|discriminate].
  destruct (t_out_rel T b bp co C Eo) as [co' [Eo' Hco]].
  split; [split; cbn [okb canonb]; rewrite ?Ob, ?Eo'; auto|].
  split; [intros c; cbn [channels]; rewrite Eo, Eo'; apply Hco|]. split; [exact D|].
  intros c t Hc H0 H1. cbn [channels duration] in Hc, H1. rewrite Eo in Hc. cbn [sample].
  destruct (t_in_channels T (channels bp) co c Eo Hc) as [ins [Ein Hins]]. rewrite Ein.
  assert (Hd : deq (map (fun ic => (ic, sample b ic t)) ins) (map (fun ic => (ic, sample bp ic t)) ins)).
  { clear Ein. induction ins as [|ic r IH]; [constructor|]. cbn [map]. constructor.
    - split; [reflexivity|]. cbn [snd]. apply S; auto. apply Hins. rewrite inb_cons, N.eqb_refl. reflexivity.
    - apply IH. intros k Hk. apply Hins. rewrite inb_cons, Hk. apply orb_true_r. }
  pose proof (t_point_compat T t t _ _ (Qeq_refl t) Hd) as Ho. unfold odeq in Ho.
  destruct (t_point T t (map (fun ic => (ic, sample b ic t)) ins)) as [o1|],
           (t_point T t (map (fun ic => (ic, sample bp ic t)) ins)) as [o2|]; try contradiction; [|exact I].
  exact (deq_lookup_flat c o1 o2 Ho).
Qed.

Lemma trans_J b bp T : Rel b bp -> J b bp -> okb (WTrans bp T) = true -> J (WTrans b T) (WTrans bp T).
Proof.
  intros [_ [_ [C _]]] Jb Hokp c Hc Hk. cbn [okb] in Hokp. apply andb_prop in Hokp as [_ Hout].
  destruct (t_out T (channels bp)) as [co|] eqn:Eo; [|discriminate]. cbn [channels] in Hc. rewrite Eo in Hc.
  destruct (t_in_channels T (channels bp) co c Eo Hc) as [ins [Ein Hins]].
  cbn [kerr] in *. rewrite Ein in *. apply orb_false_iff in Hk as [K1 K2]. rewrite K2, orb_false_r.
  destruct (existsb (kerr b) ins) eqn:Ex; [|reflexivity]. apply existsb_exists in Ex as [ic [Hic Kic]].
  apply (proj2 (inb_In ic ins)) in Hic.
  assert (Kp : kerr bp ic = false).
  { destruct (kerr bp ic) eqn:E; [|reflexivity].
    assert (existsb (kerr bp) ins = true) by (apply existsb_exists; exists ic; split; [apply inb_In; exact Hic|exact E]). congruence. }
  rewrite (Jb ic (Hins ic Hic) Kp) in Kic. discriminate.
Qed.

(* from_transformation: constant folding through a transformation gives a well-formed waveform with the channels of the
   TransformingWaveform *)
Lemma keys_map_some (d : list (chan * Q)) : keys (map (fun kv : chan * Q => (fst kv, Some (snd kv))) d) = keys d.
Proof. unfold keys. rewrite map_map. reflexivity. Qed.
Lemma from_transformation_fold_good b T d w' : good b -> t_wfb T = true -> t_nodupb T = true ->
  okb (WTrans b T) = true -> cvd b = Some d -> t_const_inv T = true -> from_transformation b T = OK w' ->
  good w' /\ (forall c, inb c (channels w') = inb c (channels (WTrans b T))) /\ duration w' == duration b.
Proof.
  intros [Ob Cb] Hwf Hnd Hok Hd Hci H. unfold from_transformation in H. rewrite Hd, Hci in H. cbn [negb] in H.
  cbn [okb] in Hok. apply andb_prop in Hok as [_ Hout].
  destruct (t_out T (channels b)) as [co|] eqn:Eo; [|discriminate].
  set (full := map (fun kv : chan * Q => (fst kv, Some (snd kv))) d) in *.
  destruct (t_point T 0 full) as [o2|] eqn:E2; [|discriminate].
  pose proof (cvd_nodup b d Ob Cb Hd) as Nd.
  assert (Nfull : NoDup (keys full)) by (unfold full; rewrite keys_map_some; exact Nd).
  pose proof (t_point_nodup T Hwf Hnd 0 full o2 Nfull E2) as No.
  assert (HK : forall c, inb c (keys full) = inb c (channels b)).
  { intros c. unfold full. rewrite keys_map_some. apply (cvd_keys b d Ob Hd). }
  destruct (t_full_ok T Hwf (channels b) co 0 full HK Eo) as [O [EO HO]]. rewrite E2 in EO. injection EO as <-.
  set (out' := map (fun kv : chan * option Q => (fst kv, match snd kv with Some v => v | None => 0 end)) o2) in *.
  assert (Nout : NoDup (keys out')).
  { unfold out'. unfold keys. rewrite map_map. cbn [fst]. exact No. }
  destruct (from_mapping_okb (duration b) out' w' H Nout (okb_pos b Ob)) as [A [B [Cc Dd]]].
  split; [split; assumption|]. split; [|exact Dd].
  intros c. rewrite Cc. cbn [channels]. rewrite Eo. rewrite <- HO. unfold out', keys. rewrite map_map. reflexivity.
Qed.

(* ---- the guards ---- *)
(* no transformation of the PLAIN composite raises KeyError for any of its output channels *)
Fixpoint kfree (w : wf) : bool :=
  match w with
  | WTable _ _ | WConst _ _ _ | WFunc _ _ _ => true
  | WSeq l | WMulti l => (fix all (l : list wf) := match l with [] => true | x :: r => kfree x && all r end) l
  | WRep b _ | WSubset b _ | WFunctor b _ | WRev b => kfree b
  | WArith l _ r => kfree l && kfree r
  | WTrans i T => forallb (fun c => negb (kerr (WTrans i T) c)) (channels (WTrans i T)) && kfree i
  end.
Lemma kfree_all_Forall l :
  (fix all (l : list wf) := match l with [] => true | x :: r => kfree x && all r end) l = true -> Forall (fun x => kfree x = true) l.
Proof.
  induction l as [|x r IH]; intros H; constructor.
  - apply andb_prop in H as [H _]; exact H.
  - apply IH. apply andb_prop in H as [_ H]; exact H.
Qed.
(* recipes: no reversal, no get_subset_for_channels; transformations of constructor shape with duplicate-free keys *)
Fixpoint transR (r : recipe) : bool :=
  match r with
  | RTable _ _ _ | RConst _ _ _ | RFunc _ _ _ => true
  | RSeq _ l | RMulti _ l => (fix all (l : list recipe) := match l with [] => true | x :: r => transR x && all r end) l
  | RRep _ b _ | RSubset b _ | RFunctor _ b _ | RNeg b => transR b
  | RArith _ l _ r => transR l && transR r
  | RTrans _ b T => t_wfb T && t_nodupb T && transR b
  | RGetSubset _ _ | RRev _ | RFromToReverse _ | RReversed _ => false
  end.
Lemma transR_all_Forall l :
  (fix all (l : list recipe) := match l with [] => true | x :: r => transR x && all r end) l = true -> Forall (fun x => transR x = true) l.
Proof.
  induction l as [|x r IH]; intros H; constructor.
  - apply andb_prop in H as [H _]; exact H.
  - apply IH. apply andb_prop in H as [_ H]; exact H.
Qed.

Definition Step (r : recipe) : Prop :=
  transR r = true -> forall w wp, build r = OK w -> build_plain r = OK wp -> kfree wp = true -> RelK w wp.

Lemma lists_relK l : Forall Step l -> Forall (fun x => transR x = true) l -> forall ws wps,
  blist l = OK ws -> bplist l = OK wps -> Forall (fun x => kfree x = true) wps -> Forall2 RelK ws wps.
Proof.
  induction 1 as [|x r Hx _ IH]; intros Hp ws wps H1 H2 Hk; cbn [blist bplist] in *.
  - injection H1 as <-. injection H2 as <-. constructor.
  - apply Forall_cons_iff in Hp as [P1 P2].
    destruct (build x) as [a|] eqn:Ea; cbn [bind] in H1; [|discriminate].
    destruct (blist r) as [b|] eqn:Eb; cbn [bind] in H1; [|discriminate]. injection H1 as <-.
    destruct (build_plain x) as [ap|] eqn:Eap; cbn [bind] in H2; [|discriminate].
    destruct (bplist r) as [bp|] eqn:Ebp; cbn [bind] in H2; [|discriminate]. injection H2 as <-.
    apply Forall_cons_iff in Hk as [K1 K2].
    constructor; [exact (Hx P1 a ap Ea Eap K1)|exact (IH P2 b bp eq_refl eq_refl K2)].
Qed.

(* parts of a sequence: no KeyError on the plain sequence => none on any built part *)
Lemma seq_parts_J ws wps c : Forall2 RelK ws wps -> okb (WSeq wps) = true ->
  inb c (channels (WSeq wps)) = true -> kerr (WSeq wps) c = false -> forall y, In y ws -> kerr y c = false.
Proof.
  intros F Hokp Hc Hk y Hy. cbn [okb] in Hokp. apply andb_prop in Hokp as [Hchs _].
  pose proof (seq_children_have_chan wps c Hchs Hc) as Hin. rewrite Forall_forall in Hin.
  destruct (Forall2_In_l _ _ _ y F Hy) as [yp [Hyp [_ Jy]]].
  apply (Jy c (Hin yp Hyp)). rewrite kerr_seq_any in Hk.
  destruct (kerr yp c) eqn:E; [|reflexivity].
  assert (existsb (fun x => kerr x c) wps = true) by (apply existsb_exists; eauto). congruence.
Qed.
Lemma kerr_seq_false l c : (forall y, In y l -> kerr y c = false) -> kerr (WSeq l) c = false.
Proof.
  intros H. rewrite kerr_seq_any. destruct (existsb (fun x => kerr x c) l) eqn:E; [|reflexivity].
  apply existsb_exists in E as [y [Hy Ky]]. rewrite (H y Hy) in Ky. discriminate.
Qed.

(* parts of a multi-channel waveform *)
Lemma multi_parts_J ws wps c : Forall2 RelK ws wps -> okb (WMulti wps) = true ->
  kerr (WMulti wps) c = false -> forall x, In x ws -> has c x = true -> kerr x c = false.
Proof.
  intros F Hokp Hk x Hx Hcx.
  destruct (Forall2_In_l _ _ _ x F Hx) as [xp [Hxp [[_ [_ [C _]]] Jx]]].
  assert (Hcxp : has c xp = true) by (unfold has in *; rewrite <- C; exact Hcx).
  apply (Jx c Hcxp).
  rewrite <- (kerr_multi_unique wps c xp (proj2 (overlap_free_unique c wps [] (multi_overlap_free wps Hokp))) Hxp Hcxp).
  exact Hk.
Qed.
Lemma flat_parts_J subs c : Forall good subs -> (forall x, In x subs -> has c x = true -> kerr x c = false) ->
  forall y, In y (flat subs) -> has c y = true -> kerr y c = false.
Proof.
  intros Hg H y Hy Hcy. rewrite Forall_forall in Hg.
  destruct (flat_part subs c y Hy Hcy) as [x [Hx [Hcx [->|[l2 [-> Hy2]]]]]]; [exact (H y Hx Hcx)|].
  pose proof (H _ Hx Hcx) as Kx.
  rewrite (kerr_multi_unique l2 c y (proj2 (overlap_free_unique c l2 [] (multi_overlap_free l2 (proj1 (Hg _ Hx))))) Hy2 Hcy) in Kx.
  exact Kx.
Qed.
Lemma mk_multi_J L w' c : mk_multi L = OK w' -> Forall good L -> (forall x y, In x L -> In y L -> duration x == duration y) ->
  (forall x, In x L -> has c x = true -> kerr x c = false) -> kerr w' c = false.
Proof.
  intros H Hg Hd HK. destruct (mk_multi_okb L w' H Hg Hd) as [_ [_ [_ [S [-> [HP _]]]]]].
  apply kerr_multi_parts. intros x Hx Hcx. apply HK; [exact (Permutation_in _ HP Hx)|exact Hcx].
Qed.

Theorem build_relK : forall r, Step r.
Proof.
  induction r using recipe_ind'; intros Hp w wp Hb Hbp Hkf; cbn [transR] in Hp; try discriminate.
  - (* table *)
    split; [apply (build_rel (RTable b c tab) eq_refl w wp Hb Hbp)|]. apply J_nokerr. intros k.
    destruct b; cbn [build] in Hb.
    + unfold from_table in Hb. destruct (validate_input tab) as [[[d v]|t]|]; cbn [bind] in Hb; try discriminate; injection Hb as <-; reflexivity.
    + injection Hb as <-. reflexivity.
  - split; [apply (build_rel (RConst d v c) eq_refl w wp Hb Hbp)|]. apply J_nokerr. intros k. cbn in Hb. injection Hb as <-. reflexivity.
  - split; [apply (build_rel (RFunc k d c) eq_refl w wp Hb Hbp)|]. apply J_nokerr. intros k'. cbn in Hb. injection Hb as <-. reflexivity.
  - (* sequence *)
    apply transR_all_Forall in Hp. rewrite build_seq in Hb. rewrite build_plain_seq in Hbp.
    destruct (blist l) as [ws|] eqn:Ews; cbn [bind] in Hb; [|discriminate].
    destruct (bplist l) as [wps|] eqn:Ewps; cbn [bind] in Hbp; [|discriminate].
    destruct wps as [|xp rest]; [discriminate|].
    destruct (forallb (fun y => set_eqb (channels y) (channels xp)) rest) eqn:Echk; [|discriminate]. injection Hbp as <-.
    apply (kfree_all_Forall (xp :: rest)) in Hkf.
    pose proof (lists_relK l H Hp ws _ Ews Ewps Hkf) as FK. pose proof (F2_RelK_Rel _ _ FK) as F.
    assert (Hokp : okb (WSeq (xp :: rest)) = true).
    { cbn [okb]. rewrite Echk. cbn [andb]. refine (okb_Forall_all (xp :: rest) _). apply Forall_forall. intros y Hy.
      destruct (Forall2_In_r _ _ _ y F Hy) as [x [_ [_ [O _]]]]. exact O. }
    destruct (seq_congr ws _ F Hokp) as [Hok E].
    pose proof (Forall2_good _ _ F) as Gws.
    assert (Hcan : Forall (fun x => canonb x = true) ws) by (eapply Forall_impl; [|exact Gws]; intros y [_ Cy]; exact Cy).
    destruct o.
    + split.
      * destruct (from_sequence_okb ws w Hok Hcan Hb) as [Gw [Cw Dw]].
        split; [exact Gw|]. split; [exact Hokp|]. apply (Eqv_trans _ (WSeq ws)); [|exact E].
        split; [exact Cw|]. split; [rewrite Dw, duration_seq; reflexivity|].
        intros c t Hc H0 H1. exact (from_sequence_sound ws w Hok Hb c t Hc H0 H1).
      * intros c Hc Hk. pose proof (seq_parts_J ws _ c FK Hokp Hc Hk) as HP.
        unfold from_sequence in Hb. destruct ws as [|x [|y r]]; [discriminate| |].
        -- injection Hb as <-. apply HP. left; reflexivity.
        -- match type of Hb with match ?cvs with Some _ => _ | None => _ end = _ => destruct cvs as [d|] end.
           ++ exact (kerr_from_mapping _ _ _ Hb c).
           ++ unfold mk_seq in Hb. match type of Hb with match ?fl with [] => _ | _ :: _ => _ end = _ => set (FL := fl) in * end.
              assert (HFL : forall z, In z FL -> kerr z c = false).
              { intros z Hz. change FL with (flatseq (x :: y :: r)) in Hz.
                destruct (In_flatseq z _ Hz) as [a [Ha [->|[s [-> Hzs]]]]]; [exact (HP _ Ha)|].
                pose proof (HP _ Ha) as Ka. rewrite kerr_seq_any in Ka.
                destruct (kerr z c) eqn:Ez; [|reflexivity].
                assert (existsb (fun x0 => kerr x0 c) s = true) by (apply existsb_exists; eauto). congruence. }
              destruct FL as [|f0 fr]; [discriminate|].
              destruct (forallb (fun y0 => set_eqb (channels y0) (channels f0)) fr); [|discriminate]. injection Hb as <-.
              apply kerr_seq_false. exact HFL.
    + unfold mk_seq in Hb. destruct ws as [|x r]; [discriminate|].
      destruct (forallb (fun y => set_eqb (channels y) (channels x)) r); [|discriminate]. injection Hb as <-.
      split; [split; [split; [exact Hok|exact (canonb_Forall_all (x :: r) Hcan)]|split; [exact Hokp|exact E]]|].
      intros c Hc Hk. apply kerr_seq_false. exact (seq_parts_J _ _ c FK Hokp Hc Hk).
  - (* multi-channel *)
    apply transR_all_Forall in Hp. rewrite build_multi in Hb. rewrite build_plain_multi in Hbp.
    destruct (blist l) as [ws|] eqn:Ews; cbn [bind] in Hb; [|discriminate].
    destruct (bplist l) as [wps|] eqn:Ewps; cbn [bind] in Hbp; [|discriminate].
    destruct wps as [|xp rest]; [discriminate|].
    destruct (overlap_free (xp :: rest) [] && forallb (fun y => Qeq_bool (duration y) (duration xp)) rest) eqn:Echk; [|discriminate].
    injection Hbp as <-. apply andb_prop in Echk as [Hov Hdur].
    apply (kfree_all_Forall (xp :: rest)) in Hkf.
    pose proof (lists_relK l H Hp ws _ Ews Ewps Hkf) as FK. pose proof (F2_RelK_Rel _ _ FK) as F.
    assert (Hokp : okb (WMulti (xp :: rest)) = true).
    { cbn [okb]. rewrite Hdur, Hov. cbn [andb]. refine (okb_Forall_all (xp :: rest) _). apply Forall_forall. intros y Hy.
      destruct (Forall2_In_r _ _ _ y F Hy) as [x [_ [_ [O _]]]]. exact O. }
    pose proof (Forall2_good _ _ F) as Gws.
    assert (Hd : forall x y, In x ws -> In y ws -> duration x == duration y).
    { intros x y Hx Hy. destruct (Forall2_In_l _ _ _ x F Hx) as [x' [Hx' [_ [_ [_ [Dx _]]]]]].
      destruct (Forall2_In_l _ _ _ y F Hy) as [y' [Hy' [_ [_ [_ [Dy _]]]]]].
      rewrite Dx, Dy, (multi_part_duration _ x' Hokp Hx'), (multi_part_duration _ y' Hokp Hy'). reflexivity. }
    destruct o.
    + unfold from_parallel in Hb. destruct ws as [|x [|y r]]; [discriminate| |].
      * injection Hb as <-. split.
        -- apply (multi_rel [x] _ x F Hokp).
           ++ apply Forall_cons_iff in Gws as [G _]. exact G.
           ++ intros c. cbn [existsb]. rewrite orb_false_r. reflexivity.
           ++ intros a [<-|[]]. reflexivity.
           ++ intros c a t [<-|[]] _. reflexivity.
        -- intros c Hc Hk. change (has c (WMulti (xp :: rest)) = true) in Hc.
           inversion FK as [|? ? ? ? [[_ [_ [C _]]] _] F']; subst. inversion F'; subst.
           apply (multi_parts_J [x] _ c FK Hokp Hk x (or_introl eq_refl)).
           rewrite has_multi in Hc. cbn [existsb] in Hc. rewrite orb_false_r in Hc. unfold has in *. rewrite C. exact Hc.
      * change (flat_map (fun w => match is_multi w with Some s => s | None => [w] end) (x :: y :: r)) with (flat (x :: y :: r)) in Hb.
        split.
        -- destruct (mk_multi_flat _ w Gws Hd Hb) as [Gw [Cw [Dw Sw]]]. exact (multi_rel _ _ w F Hokp Gw Cw Dw Sw).
        -- intros c Hc Hk. destruct (flat_parts_good _ Gws Hd) as [Fg [Fd _]].
           apply (mk_multi_J _ w c Hb Fg Fd). apply (flat_parts_J _ c Gws). exact (multi_parts_J _ _ c FK Hokp Hk).
    + split.
      * destruct (mk_multi_okb ws w Hb Gws Hd) as [Gw [Cw [Dw _]]].
        exact (multi_rel _ _ w F Hokp Gw Cw Dw (mk_multi_sample ws w Hb Gws Hd)).
      * intros c Hc Hk. apply (mk_multi_J _ w c Hb Gws Hd). exact (multi_parts_J _ _ c FK Hokp Hk).
  - (* repetition *)
    cbn [build build_plain] in Hb, Hbp.
    destruct (build r) as [b|] eqn:Eb; cbn [bind] in Hb; [|discriminate].
    destruct (build_plain r) as [bp|] eqn:Ebp; cbn [bind] in Hbp; [|discriminate].
    destruct (n <? 1)%Z eqn:En; [discriminate|]. injection Hbp as <-. apply Z.ltb_ge in En. cbn [kfree] in Hkf.
    pose proof (IHr Hp b bp Eb Ebp Hkf) as [R Jb]. pose proof R as [Gb [Obp _]].
    assert (Hokp : okb (WRep bp n) = true) by (cbn [okb]; rewrite Obp, andb_true_r; apply Z.leb_le; lia).
    pose proof (rep_congr b bp n R ltac:(lia)) as E.
    destruct o.
    + split.
      * destruct (from_repetition_count_okb b n w Gb ltac:(lia) Hb) as [Gw [Cw Dw]].
        split; [exact Gw|]. split; [exact Hokp|]. apply (Eqv_trans _ (WRep b n)); [|exact E].
        split; [exact Cw|]. split; [exact Dw|].
        intros c t Hc H0 H1. exact (from_repetition_count_sound b n w (proj1 Gb) ltac:(lia) Hb c t Hc H0 H1).
      * intros c Hc Hk. unfold from_repetition_count in Hb. destruct (cvd b) as [d|].
        -- exact (kerr_from_mapping _ _ _ Hb c).
        -- unfold mk_rep in Hb. destruct (n <? 1)%Z; [discriminate|]. injection Hb as <-. cbn [kerr channels] in *. exact (Jb c Hc Hk).
    + unfold mk_rep in Hb. destruct (n <? 1)%Z; [discriminate|]. injection Hb as <-.
      split; [split; [destruct Gb as [O C]; split; cbn [okb canonb]; auto; rewrite O, andb_true_r; apply Z.leb_le; lia|split; [exact Hokp|exact E]]|].
      intros c Hc Hk. cbn [kerr channels] in *. exact (Jb c Hc Hk).
  - (* transformation *)
    apply andb_prop in Hp as [Hp Hpr]. apply andb_prop in Hp as [Hwf Hnd].
    cbn [build build_plain] in Hb, Hbp.
    destruct (build r) as [b|] eqn:Eb; cbn [bind] in Hb; [|discriminate].
    destruct (build_plain r) as [bp|] eqn:Ebp; cbn [bind] in Hbp; [|discriminate].
    destruct (t_out T (channels bp)) as [co|] eqn:Eo; [|discriminate]. injection Hbp as <-.
    cbn [kfree] in Hkf. apply andb_prop in Hkf as [Hkall Hkf].
    pose proof (IHr Hpr b bp Eb Ebp Hkf) as [R Jb]. pose proof R as [Gb [Obp [C [D _]]]].
    assert (Hokp : okb (WTrans bp T) = true) by (cbn [okb]; rewrite Obp, Eo; reflexivity).
    destruct (trans_congr b bp T R Hokp) as [Gplain E]. pose proof (trans_J b bp T R Jb Hokp) as Jplain.
    assert (Hplain : mk_trans b T = OK w -> RelK w (WTrans bp T)).
    { intros Hm. unfold mk_trans in Hm. destruct (t_out T (channels b)); [|discriminate]. injection Hm as <-.
      split; [split; [exact Gplain|split; [exact Hokp|exact E]]|exact Jplain]. }
    destruct o; [|exact (Hplain Hb)].
    destruct (cvd b) as [d|] eqn:Ed; [|rewrite (from_transformation_plain b T (or_introl Ed)) in Hb; exact (Hplain Hb)].
    destruct (t_const_inv T) eqn:Eci; [|rewrite (from_transformation_plain b T (or_intror Eci)) in Hb; exact (Hplain Hb)].
    destruct (from_transformation_fold_good b T d w Gb Hwf Hnd (proj1 Gplain) Ed Eci Hb) as [Gw [Cw Dw]].
    split.
    + split; [exact Gw|]. split; [exact Hokp|]. apply (Eqv_trans _ (WTrans b T)); [|exact E].
      split; [exact Cw|]. split; [exact Dw|]. intros c t Hc H0 H1. cbn [duration] in H1.
      apply (from_transformation_sound_gen b T d w (proj1 Gplain) Hwf Ed Eci Hb c t Hc); auto.
      apply Jplain.
      * rewrite <- (proj1 E c). exact Hc.
      * rewrite forallb_forall in Hkall. specialize (Hkall c). rewrite negb_true_iff in Hkall. apply Hkall.
        apply inb_In. rewrite <- (proj1 E c). exact Hc.
    + unfold from_transformation in Hb. rewrite Ed, Eci in Hb. cbn [negb] in Hb.
      destruct (t_point T 0 (map (fun kv : chan * Q => (fst kv, Some (snd kv))) d)); [|discriminate].
      apply J_nokerr. exact (kerr_from_mapping _ _ _ Hb).
  - (* SubsetWaveform *)
    cbn [build build_plain] in Hb, Hbp.
    destruct (build r) as [b|] eqn:Eb; cbn [bind] in Hb; [|discriminate].
    destruct (build_plain r) as [bp|] eqn:Ebp; cbn [bind] in Hbp; [|discriminate]. injection Hb as <-.
    destruct cs as [|c0 cs']; [discriminate|]. destruct (subsetb (c0 :: cs') (channels bp)) eqn:Es; [|discriminate]. injection Hbp as <-.
    cbn [kfree] in Hkf.
    pose proof (IHr Hp b bp Eb Ebp Hkf) as [[Gb [Obp [C [D S]]]] Jb].
    assert (Hsb : subsetb (c0 :: cs') (channels b) = true).
    { apply subsetb_sub. intros c Hc. rewrite C. exact (subsetb_inb _ _ _ Es Hc). }
    pose proof (mk_subset_good b (c0 :: cs') Gb ltac:(discriminate) Hsb) as Gs.
    split.
    + split; [exact Gs|]. split; [cbn [okb]; rewrite Obp, Es; reflexivity|].
      split; [intros c; unfold mk_subset; cbn [channels]; apply inb_canon_cs|]. split; [exact D|].
      intros c t Hc H0 H1. cbn [channels duration] in *. unfold mk_subset. cbn [sample]. apply S; auto.
      exact (subsetb_inb _ _ _ Es Hc).
    + intros c Hc Hk. unfold mk_subset. cbn [kerr channels] in *. apply (Jb c); [exact (subsetb_inb _ _ _ Es Hc)|exact Hk].
  - (* arithmetic *)
    apply andb_prop in Hp as [P1 P2]. cbn [build build_plain] in Hb, Hbp.
    destruct (build r1) as [a|] eqn:Ea; cbn [bind] in Hb; [|discriminate].
    destruct (build r2) as [b|] eqn:Eb; cbn [bind] in Hb; [|discriminate].
    destruct (build_plain r1) as [ap|] eqn:Eap; cbn [bind] in Hbp; [|discriminate].
    destruct (build_plain r2) as [bp|] eqn:Ebp; cbn [bind] in Hbp; [|discriminate].
    destruct (Qeq_bool (duration ap) (duration bp)) eqn:Ed; [|discriminate]. injection Hbp as <-. apply Qeq_bool_iff in Ed.
    cbn [kfree] in Hkf. apply andb_prop in Hkf as [K1 K2].
    pose proof (IHr1 P1 a ap Ea Eap K1) as [Ra Ja]. pose proof (IHr2 P2 b bp Eb Ebp K2) as [Rb Jb].
    pose proof Ra as [Ga [Oap [Ca [Da _]]]]. pose proof Rb as [Gb [Obp [Cb [Db _]]]].
    assert (Hdab : duration a == duration b) by (rewrite Da, Db; exact Ed).
    assert (Hokp : okb (WArith ap op bp) = true) by (cbn [okb]; rewrite Oap, Obp; cbn [andb]; apply Qeq_bool_iff; exact Ed).
    pose proof (arith_congr a ap b bp op Ra Rb Ed) as E.
    assert (Gplain : good (WArith a op b)).
    { destruct Ga as [O1 C1], Gb as [O2 C2]. split; cbn [okb canonb]; rewrite ?O1, ?O2, ?C1, ?C2; cbn [andb]; auto. apply Qeq_bool_iff; exact Hdab. }
    assert (Jplain : J (WArith a op b) (WArith ap op bp)).
    { intros c Hc Hk. cbn [kerr channels] in *. rewrite Ca, Cb. apply orb_false_iff in Hk as [Hk1 Hk2].
      destruct (inb c (channels ap)) eqn:E1; cbn [andb] in *; [rewrite (Ja c E1 Hk1)|]; cbn [orb];
        (destruct (inb c (channels bp)) eqn:E2; cbn [andb] in *; [exact (Jb c E2 Hk2)|reflexivity]). }
    destruct o.
    + split.
      * destruct (from_operator_good a op b w Ga Gb Hdab Hb) as [Gw [Cw Dw]].
        split; [exact Gw|]. split; [exact Hokp|]. apply (Eqv_trans _ (WArith a op b)); [|exact E].
        split; [exact Cw|]. split; [exact Dw|]. intros c t Hc H0 H1. cbn [duration] in H1.
        destruct (cvd a) as [dl|] eqn:El; [destruct (cvd b) as [dr|] eqn:Er|].
        -- exact (from_operator_const_sound a op b dl dr w (proj1 Ga) (proj1 Gb) Hdab El Er
                   (cvd_nodup b dr (proj1 Gb) (proj2 Gb) Er) Hb c t Hc H0 H1).
        -- rewrite (from_operator_plain a op b (or_intror Er)) in Hb. unfold mk_arith in Hb.
           destruct (isclose (duration a) (duration b)); [|discriminate]. injection Hb as <-. apply oQeq_refl.
        -- rewrite (from_operator_plain a op b (or_introl El)) in Hb. unfold mk_arith in Hb.
           destruct (isclose (duration a) (duration b)); [|discriminate]. injection Hb as <-. apply oQeq_refl.
      * destruct (cvd a) as [dl|] eqn:El; [destruct (cvd b) as [dr|] eqn:Er|].
        -- unfold from_operator in Hb. rewrite El, Er in Hb. destruct (isclose (duration a) (duration b)); [|discriminate].
           apply J_nokerr. exact (kerr_from_mapping _ _ _ Hb).
        -- rewrite (from_operator_plain a op b (or_intror Er)) in Hb. unfold mk_arith in Hb.
           destruct (isclose (duration a) (duration b)); [|discriminate]. injection Hb as <-. exact Jplain.
        -- rewrite (from_operator_plain a op b (or_introl El)) in Hb. unfold mk_arith in Hb.
           destruct (isclose (duration a) (duration b)); [|discriminate]. injection Hb as <-. exact Jplain.
    + unfold mk_arith in Hb. destruct (isclose (duration a) (duration b)); [|discriminate]. injection Hb as <-.
      split; [split; [exact Gplain|split; [exact Hokp|exact E]]|exact Jplain].
  - (* functor *)
    cbn [build build_plain] in Hb, Hbp.
    destruct (build r) as [b|] eqn:Eb; cbn [bind] in Hb; [|discriminate].
    destruct (build_plain r) as [bp|] eqn:Ebp; cbn [bind] in Hbp; [|discriminate].
    destruct (set_eqb (keys f) (channels bp)) eqn:Ek; [|discriminate]. injection Hbp as <-. cbn [kfree] in Hkf.
    pose proof (IHr Hp b bp Eb Ebp Hkf) as [R Jb]. pose proof R as [Gb [Obp [C _]]].
    assert (Hkb : set_eqb (keys f) (channels b) = true).
    { apply set_eqb_intro. intros c. rewrite C. apply set_eqb_inb. exact Ek. }
    assert (Hokp : okb (WFunctor bp f) = true) by (cbn [okb]; rewrite Obp, Ek; reflexivity).
    destruct o.
    + split.
      * destruct (from_functor_okb b f w Gb Hkb Hb) as [Gw [Cw Dw]].
        split; [exact Gw|]. split; [exact Hokp|]. apply (Eqv_trans _ (WFunctor b f)); [|exact (functor_congr b bp f f R (fun _ => eq_refl))].
        split; [exact Cw|]. split; [exact Dw|]. intros c t Hc H0 H1.
        exact (from_functor_sound b f w (proj1 Gb) Hkb Hb c t Hc H0 H1).
      * unfold from_functor in Hb. destruct (cvd b) as [d|].
        -- destruct (forallb (fun kv => inb (fst kv) (keys f)) d); [|discriminate]. apply J_nokerr. exact (kerr_from_mapping _ _ _ Hb).
        -- destruct (mk_functor_good b f w Gb Hb) as [_ ->]. intros c Hc Hk. cbn [kerr channels] in *. exact (Jb c Hc Hk).
    + destruct (mk_functor_good b f w Gb Hb) as [Gw ->].
      split; [split; [exact Gw|split; [exact Hokp|apply functor_congr; [exact R|intros c; apply lookup_canon_kv]]]|].
      intros c Hc Hk. cbn [kerr channels] in *. exact (Jb c Hc Hk).
  - (* negation *)
    cbn [build build_plain] in Hb, Hbp.
    destruct (build r) as [b|] eqn:Eb; cbn [bind] in Hb; [|discriminate].
    destruct (build_plain r) as [bp|] eqn:Ebp; cbn [bind] in Hbp; [|discriminate]. injection Hbp as <-. cbn [kfree] in Hkf.
    pose proof (IHr Hp b bp Eb Ebp Hkf) as [R Jb]. pose proof R as [Gb [Obp [C _]]]. unfold neg in Hb.
    set (fb := map (fun c => (c, FNeg)) (channels b)) in *. set (fp := map (fun c => (c, FNeg)) (channels bp)).
    assert (Hkb : set_eqb (keys fb) (channels b) = true) by (apply set_eqb_intro; intros c; unfold fb; rewrite keys_map_key'; reflexivity).
    assert (Hokp : okb (WFunctor bp fp) = true).
    { cbn [okb]. rewrite Obp. cbn [andb]. apply set_eqb_intro. intros c. unfold fp. rewrite keys_map_key'. reflexivity. }
    split.
    + destruct (from_functor_okb b fb w Gb Hkb Hb) as [Gw [Cw Dw]].
      split; [exact Gw|]. split; [exact Hokp|]. apply (Eqv_trans _ (WFunctor b fb)).
      * split; [exact Cw|]. split; [exact Dw|]. intros c t Hc H0 H1.
        exact (from_functor_sound b fb w (proj1 Gb) Hkb Hb c t Hc H0 H1).
      * apply functor_congr; [exact R|]. intros c. unfold fb, fp. rewrite !(lookup_map_key (fun _ => FNeg)), C. reflexivity.
    + unfold from_functor in Hb. destruct (cvd b) as [d|].
      * destruct (forallb (fun kv => inb (fst kv) (keys fb)) d); [|discriminate]. apply J_nokerr. exact (kerr_from_mapping _ _ _ Hb).
      * destruct (mk_functor_good b fb w Gb Hb) as [_ ->]. intros c Hc Hk. cbn [kerr channels] in *. exact (Jb c Hc Hk).
Qed.

(* the clause of the property for these recipes *)
Theorem constructors_trafo_recipes : forall r w wp, transR r = true -> build r = OK w -> build_plain r = OK wp -> kfree wp = true ->
  okb w = true /\ (forall c, inb c (channels w) = inb c (channels wp)) /\ duration w == duration wp /\
  (forall c t, inb c (channels wp) = true -> 0 <= t -> t < duration wp -> oQeq (sample w c t) (sample wp c t)) /\
  (forall c, inb c (channels wp) = true -> kerr wp c = false -> kerr w c = false).
Proof.
  intros r w wp Hp Hb Hbp Hk. destruct (build_relK r Hp w wp Hb Hbp Hk) as [[[O _] [_ [C [D S]]]] Jw].
  split; [exact O|]. split; [exact C|]. split; [exact D|]. split; [exact S|exact Jw].
Qed.
(* recipes without transformation nodes satisfy the guards trivially: the theorem generalises constructors_plain_recipes *)
Lemma plainR_transR : forall r, plainR r = true -> transR r = true.
Proof.
  induction r using recipe_ind'; cbn [plainR transR]; intros Hp; try discriminate; auto.
  - apply plainR_all_Forall in Hp. induction H as [|x l Hx _ IH]; [reflexivity|].
    apply Forall_cons_iff in Hp as [P1 P2]. rewrite (Hx P1). exact (IH P2).
  - apply plainR_all_Forall in Hp. induction H as [|x l Hx _ IH]; [reflexivity|].
    apply Forall_cons_iff in Hp as [P1 P2]. rewrite (Hx P1). exact (IH P2).
  - apply andb_prop in Hp as [P1 P2]. rewrite (IHr1 P1), (IHr2 P2). reflexivity.
Qed.

(* non-vacuity: a chain with a LinearTransformation over a multi-channel waveform inside a sequence, folded constants
   through an offset (from_transformation), optimising constructors everywhere: the built waveform differs structurally
   from the plain composite, the guards hold, the samples agree *)
Example constructors_trafo_example :
  let ramp c := RTable true c [mkE 0 1 Hold; mkE (1#2) 2 Linear] in
  let lin := TChain [TScale [(1%N, TT 1 2)]; TLinear [1%N; 2%N] [1%N; 3%N] [[1; 1]; [1; -1]]] in
  let r := RSeq true [RTrans true (RMulti true [ramp 1%N; ramp 2%N; RConst (1#2) 4 4%N]) lin;
                      RTrans true (RMulti true [RConst (1#2) 1 1%N; RConst (1#2) 2 3%N; RConst (1#2) 3 4%N]) (TOffset [(3%N, TC 5)]);
                      RRep true (RTrans false (RMulti false [RConst (1#4) 1 1%N; RConst (1#4) 2 3%N; RConst (1#4) 3 4%N])
                                              (TParallel [(4%N, TC 7)])) 2] in
  transR r = true /\
  match build r, build_plain r with
  | OK w, OK wp => kfree wp && negb (wf_eqb w wp) && oQeqb (sample w 3%N (1#4)) (sample wp 3%N (1#4))
                   && oQeqb (sample wp 3%N (1#4)) (Some (3#4)) && oQeqb (sample w 3%N (3#4)) (Some 7) && oQeqb (sample wp 4%N (5#4)) (Some 7)
  | _, _ => false
  end = true.
Proof. vm_compute. split; reflexivity. Qed.
