(* C08 — TableWaveform.from_table, the de-duplication of _validate_input: an entry is dropped when it is the middle one
   of three entries with equal TIMES or of three entries with equal VALUES (relative to the last entry that was kept).
   Dropping preserves every sample, except at t = duration when three entries share the FINAL time (known finding
   C08-table-dedup-final-triple, ProofsTable.from_table_dedup_refuted): proved under the executable guard
   [final_triple tab = false], and for every table on the half-open interval [0, duration). *)
From Coq Require Import List ZArith QArith Qabs Bool Lia Lqa.
Require Import QV.C08.Model QV.C08.Spec QV.C08.Wf QV.C08.ProofsVec QV.C08.ProofsProper QV.C08.ProofsDen QV.C08.ProofsTable.
Import ListNotations.
Open Scope Q_scope.

Definition eq3 (a b c : entry) : bool := Qeq_bool (e_t a) (e_t b) && Qeq_bool (e_t b) (e_t c).
(* the last three entries share one time *)
Fixpoint final_triple (l : list entry) : bool :=
  match l with
  | a :: r => match r with
              | b :: c :: r' => match r' with [] => eq3 a b c | _ => final_triple r end
              | _ => false
              end
  | [] => false
  end.

(* ---- table_at: prefix, accumulator ---- *)
Lemma table_at_single e t acc : table_at [e] t acc = acc.
Proof. reflexivity. Qed.
Lemma table_at_app : forall A p l t acc, table_at (A ++ p :: l) t acc = table_at (p :: l) t (table_at (A ++ [p]) t acc).
Proof.
  induction A as [|a A IH]; intros p l t acc; [reflexivity|].
  destruct A as [|b A'].
  - cbn [app]. rewrite (table_at_cons2 a p l), (table_at_cons2 a p []). reflexivity.
  - change ((a :: b :: A') ++ p :: l) with (a :: b :: (A' ++ p :: l)).
    change ((a :: b :: A') ++ [p]) with (a :: b :: (A' ++ [p])).
    rewrite !table_at_cons2. exact (IH p l t _).
Qed.
Lemma table_at_acc : forall l t a a', oQeq a a' -> oQeq (table_at l t a) (table_at l t a').
Proof.
  induction l as [|e1 l IH]; intros t a a' H; [exact H|]. destruct l as [|e2 l']; [exact H|].
  rewrite !table_at_cons2. apply IH.
  destruct (negb (Qltb t (e_t e1)) && Qle_bool t (e_t e2)); [apply oQeq_refl|exact H].
Qed.

(* booleans of the interval test *)
Lemma inb_true t a b : a <= t -> t <= b -> negb (Qltb t a) && Qle_bool t b = true.
Proof. intros H1 H2. rewrite (Qltb_false t a H1). cbn. apply Qle_bool_iff. exact H2. Qed.
Lemma inb_false_l t a b : t < a -> negb (Qltb t a) && Qle_bool t b = false.
Proof. intros H. rewrite (Qltb_true t a H). reflexivity. Qed.
Lemma inb_false_r t a b : b < t -> negb (Qltb t a) && Qle_bool t b = false.
Proof.
  intros H. apply andb_false_iff. right. destruct (Qle_bool t b) eqn:E; auto. apply Qle_bool_iff in E. lra.
Qed.

Lemma interp_same_value i t0 v0 t1 v1 t v : v0 == v -> v1 == v -> interp_at i t0 v0 t1 v1 t == v.
Proof.
  intros H0 H1. destruct i; cbn; [exact H0| |exact H1].
  setoid_replace (v1 - v0) with 0 by lra. unfold Qdiv. rewrite H0. ring.
Qed.

(* ---- dropping the middle of three equal VALUES ---- *)
Lemma drop_value p x n B t acc : e_t p <= e_t x -> e_t x <= e_t n -> e_v p == e_v x -> e_v x == e_v n ->
  oQeq (table_at (p :: n :: B) t acc) (table_at (p :: x :: n :: B) t acc).
Proof.
  intros T1 T2 V1 V2. rewrite !table_at_cons2. apply table_at_acc.
  set (v := e_v p).
  assert (Ipx : interp_at (e_i x) (e_t p) (e_v p) (e_t x) (e_v x) t == v) by (apply interp_same_value; [reflexivity|symmetry; exact V1]).
  assert (Ixn : interp_at (e_i n) (e_t x) (e_v x) (e_t n) (e_v n) t == v)
    by (apply interp_same_value; [symmetry; exact V1|unfold v; rewrite V1; symmetry; exact V2]).
  assert (Ipn : interp_at (e_i n) (e_t p) (e_v p) (e_t n) (e_v n) t == v)
    by (apply interp_same_value; [reflexivity|unfold v; rewrite V1; symmetry; exact V2]).
  destruct (Qlt_le_dec t (e_t p)) as [L1|G1].
  - rewrite (inb_false_l t (e_t p) (e_t n) L1), (inb_false_l t (e_t p) (e_t x) L1).
    rewrite (inb_false_l t (e_t x) (e_t n)) by lra. apply oQeq_refl.
  - destruct (Qlt_le_dec (e_t n) t) as [L2|G2].
    + rewrite (inb_false_r t (e_t p) (e_t n) L2), (inb_false_r t (e_t x) (e_t n) L2).
      rewrite (inb_false_r t (e_t p) (e_t x)) by lra. apply oQeq_refl.
    + rewrite (inb_true t (e_t p) (e_t n) G1 G2).
      destruct (Qlt_le_dec t (e_t x)) as [L3|G3].
      * rewrite (inb_false_l t (e_t x) (e_t n) L3). rewrite (inb_true t (e_t p) (e_t x)) by lra.
        exact (Qeq_trans _ _ _ Ipn (Qeq_sym _ _ Ipx)).
      * rewrite (inb_true t (e_t x) (e_t n) G3 G2). exact (Qeq_trans _ _ _ Ipn (Qeq_sym _ _ Ixn)).
Qed.

(* ---- dropping the middle of three equal TIMES: fine unless the three are the final ones and t is that time ---- *)
Lemma drop_time p x n B t acc : e_t p == e_t x -> e_t x == e_t n ->
  (match B with b :: _ => e_t n <= e_t b | [] => ~ t == e_t n end) ->
  oQeq (table_at (p :: n :: B) t acc) (table_at (p :: x :: n :: B) t acc).
Proof.
  intros T1 T2 HB. rewrite !table_at_cons2.
  destruct (Qeq_dec t (e_t n)) as [E|NE].
  - destruct B as [|b B']; [contradiction|]. rewrite !table_at_cons2.
    rewrite (inb_true t (e_t n) (e_t b)) by lra. apply oQeq_refl.
  - apply table_at_acc.
    assert (Hout : forall a b, a == e_t n -> b == e_t n -> negb (Qltb t a) && Qle_bool t b = false).
    { intros a b Ha Hb. destruct (Qlt_le_dec t (e_t n)) as [L|G].
      - apply inb_false_l. lra.
      - apply inb_false_r. assert (~ t == e_t n) by exact NE. lra. }
    rewrite (Hout (e_t p) (e_t n)), (Hout (e_t x) (e_t n)), (Hout (e_t p) (e_t x)) by lra. apply oQeq_refl.
Qed.

(* ---- the guard along the loop ---- *)
Lemma final_triple_tail a l : final_triple (a :: l) = false -> final_triple l = false.
Proof.
  destruct l as [|b [|c [|d r]]]; try reflexivity. cbn [final_triple]. auto.
Qed.
Lemma final_triple_drop p x n B : e_t p <= e_t x -> e_t x <= e_t n ->
  final_triple (p :: x :: n :: B) = false -> final_triple (p :: n :: B) = false.
Proof.
  intros T1 T2 H. destruct B as [|z [|z' r]]; [reflexivity| |exact H].
  cbn [final_triple] in *. unfold eq3 in *.
  destruct (Qeq_bool (e_t p) (e_t n)) eqn:E1; [|reflexivity]. destruct (Qeq_bool (e_t n) (e_t z)) eqn:E2; [|reflexivity].
  apply Qeq_bool_iff in E1. assert (Ex : e_t x == e_t n) by lra. apply Qeq_bool_iff in Ex. rewrite Ex in H. discriminate.
Qed.
Lemma last_t_cons2 a b l : last_t (a :: b :: l) = last_t (b :: l).
Proof. reflexivity. Qed.

Lemma validate_loop_next_le b B pt pv n cv out r : validate_loop (b :: B) pt pv n cv out = OK r -> e_t n <= e_t b.
Proof.
  cbn [validate_loop]. destruct (Qltb (e_t b) (e_t n)) eqn:E; [discriminate|]. intros _.
  unfold Qltb in E. apply negb_false_iff in E. apply Qle_bool_iff in E. exact E.
Qed.

(* ---- the loop ---- *)
Lemma validate_loop_sound : forall rest pre p cur cv t',
  validate_loop rest (e_t p) (e_v p) cur cv (pre ++ [p]) = OK (inr t') -> e_t p <= e_t cur ->
  last_t t' = last_t (cur :: rest) /\
  forall t, (t < last_t (cur :: rest) \/ final_triple (p :: cur :: rest) = false) ->
  oQeq (table_at t' t None) (table_at (pre ++ p :: cur :: rest) t None).
Proof.
  induction rest as [|nx rest IH]; intros pre p cur cv t' H Hpc.
  - cbn [validate_loop] in H. destruct (Qeq_bool (e_t cur) 0); [discriminate|]. destruct cv; [discriminate|].
    injection H as <-. rewrite <- app_assoc. cbn [app]. split; [|intros; apply oQeq_refl].
    clear. induction pre as [|a pre IH]; [reflexivity|]. destruct pre; [reflexivity|exact IH].
  - pose proof H as H'. cbn [validate_loop] in H.
    destruct (Qltb (e_t nx) (e_t cur)) eqn:Elt; [discriminate|].
    assert (Hcn : e_t cur <= e_t nx) by (unfold Qltb in Elt; apply negb_false_iff in Elt; apply Qle_bool_iff in Elt; exact Elt).
    match type of H with (if ?k then _ else _) = _ => destruct k eqn:Ek end.
    + (* kept *)
      replace ((pre ++ [p]) ++ [cur]) with ((pre ++ [p]) ++ [cur]) in H by reflexivity.
      destruct (IH (pre ++ [p]) cur nx _ t' H Hcn) as [HL HS]. split; [rewrite HL; reflexivity|].
      intros t G. rewrite <- app_assoc in HS. cbn [app] in HS. apply HS.
      destruct G as [G|G]; [left; exact G|right; exact (final_triple_tail _ _ G)].
    + (* dropped *)
      destruct (IH pre p nx _ t' H ltac:(lra)) as [HL HS]. split; [rewrite HL; reflexivity|].
      intros t G. eapply oQeq_trans; [apply HS|].
      * destruct G as [G|G]; [left; exact G|right; exact (final_triple_drop p cur nx rest Hpc Hcn G)].
      * rewrite (table_at_app pre p (nx :: rest)), (table_at_app pre p (cur :: nx :: rest)).
        apply andb_false_iff in Ek. destruct Ek as [Ek|Ek]; apply orb_false_iff in Ek as [K1 K2];
          apply negb_false_iff in K1; apply negb_false_iff in K2; apply Qeq_bool_iff in K1; apply Qeq_bool_iff in K2.
        -- apply drop_time; auto. destruct rest as [|b B].
           ++ destruct G as [G|G].
              ** cbn [last_t] in G. lra.
              ** exfalso. cbn [final_triple] in G. unfold eq3 in G.
                 rewrite (proj2 (Qeq_bool_iff _ _) K1), (proj2 (Qeq_bool_iff _ _) K2) in G. discriminate.
           ++ exact (validate_loop_next_le _ _ _ _ _ _ _ _ H).
        -- apply drop_value; auto.
Qed.

(* the first entry is stored with time 0 *)
Lemma table_at_first_time e0 e0' l t acc : e_t e0' == e_t e0 -> e_v e0' = e_v e0 ->
  oQeq (table_at (e0' :: l) t acc) (table_at (e0 :: l) t acc).
Proof.
  intros Ht Hv. destruct l as [|e1 l]; [apply oQeq_refl|]. rewrite !table_at_cons2. apply table_at_acc.
  assert (Eb : Qltb t (e_t e0') = Qltb t (e_t e0)).
  { unfold Qltb. f_equal. destruct (Qle_bool (e_t e0') t) eqn:A, (Qle_bool (e_t e0) t) eqn:B; auto.
    - apply Qle_bool_iff in A. assert (e_t e0 <= t) by lra. apply Qle_bool_iff in H. congruence.
    - apply Qle_bool_iff in B. assert (e_t e0' <= t) by lra. apply Qle_bool_iff in H. congruence. }
  rewrite Eb, Hv. destruct (negb (Qltb t (e_t e0)) && Qle_bool t (e_t e1)); [|apply oQeq_refl].
  cbn. destruct (e_i e1); cbn; try reflexivity. rewrite Ht. reflexivity.
Qed.
Lemma final_triple_first_time e0 e0' l : e_t e0' == e_t e0 -> final_triple (e0' :: l) = final_triple (e0 :: l).
Proof.
  intros Ht. destruct l as [|b [|c [|d r]]]; try reflexivity. cbn [final_triple]. unfold eq3. f_equal.
  destruct (Qeq_bool (e_t e0') (e_t b)) eqn:A, (Qeq_bool (e_t e0) (e_t b)) eqn:B; auto.
  - apply Qeq_bool_iff in A. assert (e_t e0 == e_t b) by lra. apply Qeq_bool_iff in H. congruence.
  - apply Qeq_bool_iff in B. assert (e_t e0' == e_t b) by lra. apply Qeq_bool_iff in H. congruence.
Qed.

(* ---- from_table: the table branch samples like the plain TableWaveform ---- *)
Theorem validate_dedup_sound : forall tab t', validate_input tab = OK (inr t') ->
  last_t t' = last_t tab /\
  forall t, (t < last_t tab \/ final_triple tab = false) -> oQeq (table_at t' t None) (table_at tab t None).
Proof.
  intros tab t' H. unfold validate_input in H.
  destruct tab as [|e0 [|e1 rest]]; try discriminate.
  - destruct (negb (Qeq_bool (e_t e0) 0)); discriminate.
  - destruct (Qeq_bool (e_t e0) 0) eqn:E0; cbn [negb] in H; [|discriminate]. apply Qeq_bool_iff in E0.
    destruct (Qltb (e_t e1) 0) eqn:E1; [discriminate|].
    unfold Qltb in E1. apply negb_false_iff in E1. apply Qle_bool_iff in E1.
    set (p := mkE 0 (e_v e0) (e_i e0)) in *.
    destruct (validate_loop_sound rest [] p e1 _ t' H E1) as [HL HS]. split; [exact HL|].
    intros t G. eapply oQeq_trans; [apply HS|].
    + destruct G as [G|G]; [left; exact G|right]. rewrite <- G. apply final_triple_first_time. cbn. symmetry; exact E0.
    + cbn [app]. apply table_at_first_time; [cbn; symmetry; exact E0|reflexivity].
Qed.

Theorem from_table_dedup_sound : forall c tab w', from_table c tab = OK w' ->
  duration w' == last_t tab /\ channels w' = [c] /\
  forall t, 0 <= t -> (t < last_t tab \/ (final_triple tab = false /\ t <= last_t tab)) ->
  oQeq (sample w' c t) (sample (WTable c tab) c t).
Proof.
  intros c tab w' H. unfold from_table in H. destruct (validate_input tab) as [[[d v]|t']|] eqn:Ev; cbn [bind] in H; try discriminate.
  - injection H as <-. destruct (from_table_const_sound c tab d v Ev) as [_ Hs].
    destruct (validate_const_sound tab d v Ev) as [_ [Hd _]].
    split; [cbn [duration mk_const]; rewrite Qred_correct, Hd; reflexivity|]. split; [reflexivity|].
    intros t H0 G. apply Hs; [exact H0|]. destruct G as [G|[_ G]]; lra.
  - injection H as <-. destruct (validate_dedup_sound tab t' Ev) as [HL HS].
    split; [cbn [duration]; rewrite HL; reflexivity|]. split; [reflexivity|].
    intros t H0 G. cbn [sample]. apply HS. destruct G as [G|[G _]]; auto.
Qed.

Example dedup_examples :
  (* values: the middle entries of a run of equal values go; times: the middle of three equal times goes *)
  validate_input [mkE 0 1 Hold; mkE 1 2 Linear; mkE 2 2 Hold; mkE 3 2 Jump; mkE 3 4 Hold; mkE 3 5 Jump; mkE 4 0 Linear]
    = OK (inr [mkE 0 1 Hold; mkE 1 2 Linear; mkE 3 2 Jump; mkE 3 5 Jump; mkE 4 0 Linear]) /\
  final_triple [mkE 0 1 Hold; mkE 1 2 Linear; mkE 2 2 Hold; mkE 3 2 Jump; mkE 3 4 Hold; mkE 3 5 Jump; mkE 4 0 Linear] = false /\
  final_triple [mkE 0 0 Hold; mkE 1 1 Hold; mkE 1 2 Hold; mkE 1 3 Hold] = true.
Proof. vm_compute. repeat split; reflexivity. Qed.
