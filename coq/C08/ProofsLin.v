(* C08 — transformations WITH LinearTransformation parts: a TransformingWaveform evaluates its transformation on the
   inner channels get_input_channels selects ("restricted" data); from_transformation and the denotation evaluate it
   on the COMPLETE inner data.  Both agree on the requested channel whenever neither raises (t_restrict_agree), the
   complete evaluation never raises (t_full_ok), hence from_transformation is sound for ALL transformations under the
   guards [t_wfb] (constructor shape, at least one input channel) and [kerr = false] (known finding
   C08-chain-parallel-linear-keyerror). *)
From Coq Require Import List ZArith QArith Qabs Bool Lia Lqa.
Require Import QV.C08.Model QV.C08.Spec QV.C08.Wf QV.C08.Hist QV.C08.Lin QV.C08.ProofsVec QV.C08.ProofsConst
               QV.C08.ProofsProper QV.C08.ProofsTrafo QV.C08.ProofsCtor QV.C08.ProofsConstT QV.C08.ProofsTotalT
               QV.C08.ProofsSimple.
Import ListNotations.
Open Scope Q_scope.

(* ---- lists / lookups ---- *)
Lemma filter_all {A} (p : A -> bool) l : forallb p l = true -> filter p l = l.
Proof.
  induction l as [|x r IH]; [reflexivity|]. cbn. intros H. apply andb_prop in H as [H1 H2]. rewrite H1, (IH H2). reflexivity.
Qed.
Lemma filter_length_le {A} (p : A -> bool) l : (length (filter p l) <= length l)%nat.
Proof. induction l as [|x r IH]; cbn; [lia|]. destruct (p x); cbn; lia. Qed.
Lemma filter_length_all {A} (p : A -> bool) l : (length (filter p l) =? length l)%nat = forallb p l.
Proof.
  induction l as [|x r IH]; [reflexivity|]. cbn. destruct (p x) eqn:E; cbn.
  - exact IH.
  - apply Nat.eqb_neq. pose proof (filter_length_le p r). lia.
Qed.
Lemma lookup_none_keys {A} c (f : list (chan * A)) : lookup c f = None -> inb c (keys f) = false.
Proof.
  intros H. destruct (inb c (keys f)) eqn:E; auto. destruct (lookup_in_keys c f E) as [g Hg]. congruence.
Qed.
Lemma inb_keys_lookup {A} c (f : list (chan * A)) : inb c (keys f) = true <-> lookup c f <> None.
Proof.
  split.
  - intros H. destruct (lookup_in_keys c f H) as [g Hg]. congruence.
  - intros H. destruct (inb c (keys f)) eqn:E; auto. rewrite (lookup_not_in_keys c f E) in H. congruence.
Qed.
(* no key of the data is in i *)
Lemma nokey_spec (i : list chan) (d : data) :
  forallb (fun kv : chan * option Q => negb (inb (fst kv) i)) d = true <-> (forall k, inb k i = true -> lookup k d = None).
Proof.
  induction d as [|[a v] r IH]; cbn [forallb lookup fst]; [split; auto|]. split.
  - intros H k Hk. apply andb_prop in H as [H1 H2]. destruct (N.eqb k a) eqn:E.
    + apply N.eqb_eq in E. subst. rewrite Hk in H1. discriminate.
    + apply (proj1 IH H2 k Hk).
  - intros H. apply andb_true_intro. split.
    + destruct (inb a i) eqn:E; auto. specialize (H a E). rewrite N.eqb_refl in H. discriminate.
    + apply IH. intros k Hk. specialize (H k Hk). destruct (N.eqb k a); [discriminate|exact H].
Qed.

(* ---- the rows a LinearTransformation computes ---- *)
Definition lin_vals (i : list chan) (d : data) : list (option Q) :=
  map (fun c => match lookup c d with Some v => v | None => None end) i.
Definition lin_rows (o : list chan) (m : list (list Q)) (vals : list (option Q)) : data :=
  map (fun orow : chan * list Q => (fst orow, dot (snd orow) vals)) (combine o m).
Lemma lin_rows_lookup k o m vals :
  lookup k (lin_rows o m vals) = match lookup k (combine o m) with Some row => Some (dot row vals) | None => None end.
Proof. unfold lin_rows. apply (lookup_map_val (fun (_ : chan) (row : list Q) => dot row vals)). Qed.
Lemma lookup_combine_none {A} k (o : list chan) (m : list A) : inb k o = false -> lookup k (combine o m) = None.
Proof.
  revert m. induction o as [|a o IH]; intros [|x m] H; try reflexivity. cbn. rewrite inb_cons in H.
  apply orb_false_iff in H as [H1 H2]. rewrite H1. apply IH; exact H2.
Qed.
Lemma lookup_combine_some {A} k (o : list chan) (m : list A) : inb k o = true -> length o = length m ->
  exists row, lookup k (combine o m) = Some row.
Proof.
  revert m. induction o as [|a o IH]; intros [|x m] H L; try discriminate. cbn. rewrite inb_cons in H.
  destruct (N.eqb k a); [eauto|]. apply IH; [exact H|]. cbn in L. lia.
Qed.

Lemma lin_point i o m t d :
  t_point (TLinear i o m) t d =
  if forallb (fun kv : chan * option Q => negb (inb (fst kv) i)) d then Some d
  else if subsetb i (keys d) then
    Some (lin_rows o m (lin_vals i d)
          ++ filter (fun kv => negb (inb (fst kv) o)) (filter (fun kv => negb (inb (fst kv) i)) d))
  else None.
Proof.
  cbn [t_point]. rewrite filter_length_all.
  destruct (forallb (fun kv : chan * option Q => negb (inb (fst kv) i)) d) eqn:E; [|reflexivity].
  rewrite (filter_all _ _ E). reflexivity.
Qed.
(* a forwarded channel keeps its binding, whichever branch is taken *)
Lemma lin_forwarded i o m t d out k : t_point (TLinear i o m) t d = Some out ->
  inb k i = false -> inb k o = false -> lookup k out = lookup k d.
Proof.
  rewrite lin_point. intros H Hi Ho.
  destruct (forallb (fun kv : chan * option Q => negb (inb (fst kv) i)) d); [injection H as <-; reflexivity|].
  destruct (subsetb i (keys d)); [|discriminate]. injection H as <-.
  rewrite lookup_app, lin_rows_lookup, (lookup_combine_none k o m Ho).
  rewrite (lookup_filter_key (fun c => negb (inb c o))), Ho. cbn [negb].
  rewrite (lookup_filter_key (fun c => negb (inb c i))), Hi. reflexivity.
Qed.
(* when a key of i is present, the computing branch is taken *)
Lemma lin_computes i o m t d out c0 : t_point (TLinear i o m) t d = Some out ->
  inb c0 i = true -> lookup c0 d <> None ->
  subsetb i (keys d) = true /\
  out = lin_rows o m (lin_vals i d) ++ filter (fun kv => negb (inb (fst kv) o)) (filter (fun kv => negb (inb (fst kv) i)) d).
Proof.
  rewrite lin_point. intros H Hc0 Hl.
  destruct (forallb (fun kv : chan * option Q => negb (inb (fst kv) i)) d) eqn:E.
  - exfalso. apply Hl. exact (proj1 (nokey_spec i d) E c0 Hc0).
  - destruct (subsetb i (keys d)); [|discriminate]. injection H as <-. split; reflexivity.
Qed.

Lemma t_wfb_all_Forall l :
  (fix all (l : list trafo) := match l with [] => true | x :: r => t_wfb x && all r end) l = true ->
  Forall (fun x => t_wfb x = true) l.
Proof.
  induction l as [|x r IH]; intros H; constructor.
  - apply andb_prop in H as [H _]; exact H.
  - apply IH. apply andb_prop in H as [_ H]; exact H.
Qed.

Lemma lookup_scale_like (G : tval -> option Q -> option Q) (f : list (chan * tval)) k (d : data) :
  lookup k (map (fun kv : chan * option Q => match lookup (fst kv) f with Some tv => (fst kv, G tv (snd kv)) | None => kv end) d)
  = match lookup k d with Some v => Some (match lookup k f with Some tv => G tv v | None => v end) | None => None end.
Proof.
  induction d as [|[a v] r IH]; [reflexivity|]. cbn [map fst snd].
  destruct (lookup a f) eqn:L; cbn [lookup]; (destruct (N.eqb k a) eqn:E; [apply N.eqb_eq in E; subst; rewrite L; reflexivity|exact IH]).
Qed.

(* ---- restricted and complete evaluation agree on the requested channels ---- *)
Lemma t_restrict_agree : forall T, t_wfb T = true -> forall t S ins (d D o O : data),
  t_in T S = Some ins ->
  (forall k, inb k ins = true -> lookup k d = lookup k D /\ lookup k d <> None) ->
  t_point T t d = Some o -> t_point T t D = Some O ->
  forall k, inb k S = true -> lookup k o = lookup k O /\ lookup k o <> None.
Proof.
  induction T using trafo_ind'; intros Hwf t S ins d D o0 O Hin Hag Hd HD k Hk.
  - cbn in *. injection Hin as <-. injection Hd as <-. injection HD as <-. auto.
  - cbn [t_in t_point] in *. injection Hin as <-. injection Hd as <-. injection HD as <-.
    destruct (Hag k Hk) as [E Hn].
    rewrite !(lookup_scale_like (fun tv v => omap (fun x : Q => x * tval_at tv t) v)).
    rewrite <- E. destruct (lookup k d); [split; [reflexivity|discriminate]|congruence].
  - cbn [t_in t_point] in *. injection Hin as <-. injection Hd as <-. injection HD as <-.
    destruct (Hag k Hk) as [E Hn].
    rewrite !(lookup_scale_like (fun tv v => omap (fun x : Q => x + tval_at tv t) v)).
    rewrite <- E. destruct (lookup k d); [split; [reflexivity|discriminate]|congruence].
  - (* linear *)
    cbn [t_wfb] in Hwf. apply andb_prop in Hwf as [Hne Hlen]. apply Nat.eqb_eq in Hlen.
    cbn [t_in] in Hin.
    destruct (disjointb (diffb S o) i) eqn:Edi; cbn [negb] in Hin; [|discriminate].
    pose proof (proj1 (disjointb_spec _ _) Edi) as Hdi.
    destruct (disjointb S o) eqn:Eso.
    + injection Hin as <-.
      assert (Ho : inb k o = false) by (apply (proj1 (disjointb_spec _ _) Eso); exact Hk).
      assert (Hi : inb k i = false) by (apply Hdi; rewrite inb_diffb, Hk, Ho; reflexivity).
      rewrite (lin_forwarded _ _ _ _ _ _ k Hd Hi Ho), (lin_forwarded _ _ _ _ _ _ k HD Hi Ho). exact (Hag k Hk).
    + injection Hin as <-.
      assert (Hall : forall c, inb c i = true -> lookup c d = lookup c D /\ lookup c d <> None).
      { intros c Hc. apply Hag. rewrite inb_unionb, Hc, orb_true_r. reflexivity. }
      destruct i as [|c0 i']; [discriminate|].
      assert (Hc0 : inb c0 (c0 :: i') = true) by (rewrite inb_cons, N.eqb_refl; reflexivity).
      destruct (Hall c0 Hc0) as [E0 N0].
      destruct (lin_computes _ _ _ _ _ _ c0 Hd Hc0 N0) as [_ ->].
      destruct (lin_computes _ _ _ _ _ _ c0 HD Hc0 ltac:(rewrite <- E0; exact N0)) as [_ ->].
      assert (Hv : lin_vals (c0 :: i') d = lin_vals (c0 :: i') D).
      { unfold lin_vals. apply map_ext_in. intros c Hc. apply inb_In in Hc. destruct (Hall c Hc) as [E _]. rewrite E. reflexivity. }
      rewrite Hv, !lookup_app, !lin_rows_lookup.
      destruct (inb k o) eqn:Eko.
      * destruct (lookup_combine_some k o m Eko Hlen) as [row ->]. split; [reflexivity|discriminate].
      * rewrite (lookup_combine_none k o m Eko).
        assert (Hi : inb k (c0 :: i') = false) by (apply Hdi; rewrite inb_diffb, Hk, Eko; reflexivity).
        rewrite !(lookup_filter_key (fun c => negb (inb c o))), Eko. cbn [negb].
        rewrite !(lookup_filter_key (fun c => negb (inb c (c0 :: i')))), Hi. cbn [negb].
        apply Hag. rewrite inb_unionb, inb_diffb, Hk, Eko. reflexivity.
  - (* parallel *)
    cbn [t_in t_point] in *. injection Hin as <-. injection Hd as <-. injection HD as <-.
    rewrite !lookup_app, !(lookup_map_val (fun (_ : chan) tv => Some (tval_at tv t))).
    destruct (lookup k f) as [tv|] eqn:L; [split; [reflexivity|discriminate]|].
    rewrite !(lookup_filter_key (fun c => negb (inb c (keys f)))).
    rewrite (lookup_none_keys k f L). cbn [negb]. apply Hag. rewrite inb_diffb, Hk, (lookup_none_keys k f L). reflexivity.
  - (* chain *)
    cbn [t_wfb] in Hwf. apply t_wfb_all_Forall in Hwf. cbn [t_in t_point] in *.
    revert S ins d D o0 O Hin Hag Hd HD k Hk.
    induction H as [|x r Hx _ IH]; intros S ins d D o0 O Hin Hag Hd HD k Hk.
    + injection Hin as <-. injection Hd as <-. injection HD as <-. auto.
    + apply Forall_cons_iff in Hwf as [W1 W2].
      destruct ((fix go (l : list trafo) (cur : list chan) := match l with
                   | [] => Some cur
                   | x :: r => match go r cur with Some n => t_in x n | None => None end end) r S) as [n|] eqn:En; [|discriminate].
      destruct (t_point x t d) as [d1|] eqn:E1; [|discriminate].
      destruct (t_point x t D) as [D1|] eqn:E2; [|discriminate].
      apply (IH W2 S n d1 D1 o0 O En); auto.
      intros c Hc. exact (Hx W1 t n ins d D d1 D1 Hin Hag E1 E2 c Hc).
Qed.

(* ---- the complete evaluation never raises; its channels are get_output_channels ---- *)
Lemma keys_map_fst {A B} (g : chan * A -> B) (l : list (chan * A)) : keys (map (fun kv => (fst kv, g kv)) l) = keys l.
Proof. unfold keys. rewrite map_map. reflexivity. Qed.
Lemma inb_keys_filter (p : chan -> bool) c (d : data) :
  inb c (keys (filter (fun kv => p (fst kv)) d)) = inb c (keys d) && p c.
Proof.
  induction d as [|[a v] r IH]; [reflexivity|]. cbn [filter fst]. destruct (p a) eqn:Ea; unfold keys in *; cbn [map fst]; rewrite ?inb_cons, IH.
  - destruct (N.eqb c a) eqn:E; [apply N.eqb_eq in E; subst; rewrite Ea; reflexivity|reflexivity].
  - destruct (N.eqb c a) eqn:E; [apply N.eqb_eq in E; subst; rewrite Ea, andb_false_r; reflexivity|reflexivity].
Qed.
Lemma inb_keys_combine {A} c (o : list chan) (m : list A) : length o = length m -> inb c (keys (combine o m)) = inb c o.
Proof.
  revert m. induction o as [|a o IH]; intros [|x m] L; try discriminate; [reflexivity|].
  unfold keys in *. cbn [combine map fst]. rewrite !inb_cons, IH; [reflexivity|]. cbn in L. lia.
Qed.

Lemma t_full_ok : forall T, t_wfb T = true -> forall ks co t (D : data),
  (forall c, inb c (keys D) = inb c ks) -> t_out T ks = Some co ->
  exists O, t_point T t D = Some O /\ forall c, inb c (keys O) = inb c co.
Proof.
  induction T using trafo_ind'; intros Hwf ks co t D HK Ho.
  - cbn in *. injection Ho as <-. eauto.
  - cbn [t_out t_point] in *. injection Ho as <-. eexists. split; [reflexivity|]. intros c.
    rewrite <- HK. f_equal. unfold keys. rewrite map_map. apply map_ext. intros [a v]. cbn. destruct (lookup a f); reflexivity.
  - cbn [t_out t_point] in *. injection Ho as <-. eexists. split; [reflexivity|]. intros c.
    rewrite <- HK. f_equal. unfold keys. rewrite map_map. apply map_ext. intros [a v]. cbn. destruct (lookup a f); reflexivity.
  - (* linear *)
    cbn [t_wfb] in Hwf. apply andb_prop in Hwf as [Hne Hlen]. apply Nat.eqb_eq in Hlen.
    cbn [t_out] in Ho. destruct (subsetb i ks) eqn:Es; [|discriminate]. injection Ho as <-.
    destruct i as [|c0 i']; [discriminate|].
    assert (Hsub : subsetb (c0 :: i') (keys D) = true).
    { apply subsetb_sub. intros c Hc. rewrite HK. exact (subsetb_inb _ _ _ Es Hc). }
    rewrite lin_point.
    destruct (forallb (fun kv : chan * option Q => negb (inb (fst kv) (c0 :: i'))) D) eqn:E.
    + exfalso. assert (Hc0 : inb c0 (c0 :: i') = true) by (rewrite inb_cons, N.eqb_refl; reflexivity).
      pose proof (proj1 (nokey_spec _ _) E c0 Hc0) as Hn.
      pose proof (subsetb_inb _ _ _ Hsub Hc0) as Hin. apply inb_keys_lookup in Hin. congruence.
    + rewrite Hsub. eexists. split; [reflexivity|]. intros c.
      unfold keys at 1. rewrite map_app. rewrite inb_app. fold (keys (lin_rows o m (lin_vals (c0 :: i') D))).
      unfold lin_rows. rewrite (keys_map_fst (fun orow : chan * list Q => dot (snd orow) (lin_vals (c0 :: i') D))).
      rewrite (inb_keys_combine c o m Hlen).
      change (map fst (filter (fun kv : chan * option Q => negb (inb (fst kv) o))
                (filter (fun kv : chan * option Q => negb (inb (fst kv) (c0 :: i'))) D)))
        with (keys (filter (fun kv : chan * option Q => negb (inb (fst kv) o))
                (filter (fun kv : chan * option Q => negb (inb (fst kv) (c0 :: i'))) D))).
      rewrite (inb_keys_filter (fun c => negb (inb c o))), (inb_keys_filter (fun c => negb (inb c (c0 :: i')))), HK.
      rewrite inb_unionb, inb_diffb. destruct (inb c o), (inb c ks), (inb c (c0 :: i')); reflexivity.
  - (* parallel *)
    cbn [t_out t_point] in *. injection Ho as <-. eexists. split; [reflexivity|]. intros c.
    unfold keys at 1. rewrite map_app, inb_app, map_map. cbn [fst].
    change (map (fun x : chan * tval => fst x) f) with (keys f).
    change (map fst (filter (fun kv : chan * option Q => negb (inb (fst kv) (keys f))) D))
      with (keys (filter (fun kv : chan * option Q => negb (inb (fst kv) (keys f))) D)).
    rewrite (inb_keys_filter (fun c => negb (inb c (keys f)))), HK, inb_unionb.
    destruct (inb c (keys f)), (inb c ks); reflexivity.
  - (* chain *)
    cbn [t_wfb] in Hwf. apply t_wfb_all_Forall in Hwf. cbn [t_out t_point] in *.
    revert ks co D HK Ho. induction H as [|x r Hx _ IH]; intros ks co D HK Ho.
    + injection Ho as <-. eauto.
    + apply Forall_cons_iff in Hwf as [W1 W2].
      destruct (t_out x ks) as [c1|] eqn:E1; [|discriminate].
      destruct (Hx W1 ks c1 t D HK E1) as [O1 [P1 K1]]. rewrite P1.
      exact (IH W2 c1 co O1 K1 Ho).
Qed.

(* ---- success of Transformation.__call__ depends on the keys only ---- *)
Lemma t_point_succeeds_shape T t (g h : chan -> option Q) ins :
  t_point T 0 (map (fun ic => (ic, g ic)) ins) <> None -> exists o1, t_point T t (map (fun ic => (ic, h ic)) ins) = Some o1.
Proof.
  intros H0.
  assert (Hkr : krel (map (fun ic => (ic, h ic)) ins) (map (fun ic => (ic, g ic)) ins)) by (apply krel_map_same; reflexivity).
  pose proof (t_point_shape T t 0 _ _ Hkr) as Hsh.
  destruct (t_point T t (map (fun ic => (ic, h ic)) ins)) as [o1|]; [eauto|].
  destruct (t_point T 0 (map (fun ic => (ic, g ic)) ins)); [contradiction|congruence].
Qed.
Lemma kerr_trans_inv i T c ins : kerr (WTrans i T) c = false -> t_in T [c] = Some ins ->
  existsb (kerr i) ins = false /\ t_point T 0 (map (fun ic => (ic, @None Q)) ins) <> None.
Proof.
  intros Hk Ein. cbn [kerr] in Hk. rewrite Ein in Hk. apply orb_false_iff in Hk as [H1 H2]. split; [exact H1|].
  unfold t_point_fails in H2. destruct (t_point T 0 (map (fun ic : chan => (ic, None)) ins)); [discriminate|discriminate H2].
Qed.
Lemma inb_single c k : inb k [c] = true -> k = c.
Proof. rewrite inb_cons. cbn. rewrite orb_false_r. apply N.eqb_eq. Qed.

(* ---- from_transformation: ALL transformations ---- *)
Theorem from_transformation_sound_gen : forall w T d w', okb (WTrans w T) = true -> t_wfb T = true ->
  cvd w = Some d -> t_const_inv T = true -> from_transformation w T = OK w' -> forall c t,
  inb c (channels (WTrans w T)) = true -> kerr (WTrans w T) c = false -> 0 <= t -> t < duration w ->
  oQeq (sample w' c t) (sample (WTrans w T) c t).
Proof.
  intros w T d w' Hok Hwf Hd Hci H c t Hc Hk H0 H1.
  pose proof Hok as Hok'. cbn [okb] in Hok'. apply andb_prop in Hok' as [Hokw Hout].
  unfold from_transformation in H. rewrite Hd, Hci in H. cbn [negb] in H.
  destruct (t_out T (channels w)) as [co|] eqn:Eo; [|discriminate].
  pose proof Hc as Hc'. cbn [channels] in Hc'. rewrite Eo in Hc'.
  destruct (t_in_channels T (channels w) co c Eo Hc') as [ins [Ein Hins]].
  set (full := map (fun kv : chan * Q => (fst kv, Some (snd kv))) d) in *.
  destruct (t_point T 0 full) as [o2|] eqn:E2; [|discriminate].
  assert (Hcvins : forall ic, inb ic ins = true -> exists v, cv w ic = Some v /\ lookup ic d = Some v).
  { intros ic Hic. destruct (cvd_sound w d Hokw Hd ic) as [Hin _]. destruct (Hin (Hins ic Hic)) as [L Hne].
    destruct (cv w ic) as [v|]; [eauto|congruence]. }
  destruct (kerr_trans_inv w T c ins Hk Ein) as [_ Hnf].
  destruct (t_point_succeeds_shape T 0 (fun _ => None) (fun ic => cv w ic) ins Hnf) as [o1 E1].
  assert (Hag : forall k, inb k ins = true ->
            lookup k (map (fun ic => (ic, cv w ic)) ins) = lookup k full /\ lookup k (map (fun ic => (ic, cv w ic)) ins) <> None).
  { intros k Hkin. rewrite (lookup_map_key (fun ic => cv w ic)), Hkin. unfold full.
    rewrite (lookup_map_val (fun (_ : chan) (x : Q) => Some x)).
    destruct (Hcvins k Hkin) as [v [Hv Lv]]. rewrite Hv, Lv. split; [reflexivity|discriminate]. }
  destruct (t_restrict_agree T Hwf 0 [c] ins _ full o1 o2 Ein Hag E1 E2 c) as [Hsame Hpres];
    [rewrite inb_cons, N.eqb_refl; reflexivity|].
  assert (Hcv : cv (WTrans w T) c = match lookup c o1 with Some v => v | None => None end).
  { cbn [cv]. rewrite Hci, Ein. cbn [negb].
    assert (Hex : existsb (fun kv : chan * option Q => match snd kv with None => true | Some _ => false end)
                    (map (fun ic => (ic, cv w ic)) ins) = false).
    { clear -Hcvins. induction ins as [|ic ins IH]; [reflexivity|]. cbn [map existsb snd].
      destruct (Hcvins ic) as [v [Hv _]]; [rewrite inb_cons, N.eqb_refl; reflexivity|]. rewrite Hv. cbn.
      apply IH. intros k Hk. apply Hcvins. rewrite inb_cons, Hk, orb_true_r. reflexivity. }
    rewrite Hex, E1. reflexivity. }
  destruct (lookup c o2) as [[v|]|] eqn:Lo2.
  - assert (L' : lookup c (map (fun kv : chan * option Q => (fst kv, match snd kv with Some v => v | None => 0 end)) o2) = Some v).
    { rewrite (lookup_map_val (fun (_ : chan) (x : option Q) => match x with Some v => v | None => 0 end)), Lo2. reflexivity. }
    rewrite (from_mapping_sample _ _ _ H c v t L').
    rewrite Hsame in Hcv. cbn in Hcv.
    destruct (cv_sound (WTrans w T) Hok c v t) as [v' [Hs' Hq]]; auto.
    rewrite Hs'. cbn. rewrite Qred_correct. symmetry; exact Hq.
  - exfalso.
    assert (Hall : all_some full).
    { unfold full, all_some. clear. induction d; cbn; constructor; auto. cbn. discriminate. }
    pose proof (t_point_all_some T 0 full o2 Hall E2) as Ho2. apply lookup_In' in Lo2.
    unfold all_some in Ho2. rewrite Forall_forall in Ho2. specialize (Ho2 _ Lo2). cbn in Ho2. congruence.
  - congruence.
Qed.
Lemma from_transformation_plain : forall w T, (cvd w = None \/ t_const_inv T = false) -> from_transformation w T = mk_trans w T.
Proof.
  intros w T [H|H]; unfold from_transformation; [rewrite H; reflexivity|].
  destruct (cvd w); [rewrite H; reflexivity|reflexivity].
Qed.

Example from_transformation_gen_example :
  let w := WMulti [WConst 1 3 1%N; WConst 1 4 2%N; WConst 1 5 4%N] in
  let T := TChain [TScale [(1%N, TC 2)]; TLinear [1%N; 2%N] [3%N; 1%N] [[1; 1]; [1; -1]]; TOffset [(3%N, TC 1)]] in
  match from_transformation w T with
  | OK w' => oQeqb (sample w' 3%N (1#4)) (Some 11) && oQeqb (sample w' 1%N (1#4)) (Some 2) && oQeqb (sample w' 4%N (1#4)) (Some 5)
             && oQeqb (sample (WTrans w T) 3%N (1#4)) (Some 11) && t_wfb T && okb (WTrans w T) && negb (kerr (WTrans w T) 3%N)
             && negb (kerr (WTrans w T) 4%N) && t_const_inv T && negb (simple T)
  | _ => false
  end = true.
Proof. vm_compute. reflexivity. Qed.

(* without [t_wfb]: a LinearTransformation without input channels announces an output channel it never produces; the
   complete evaluation (from_transformation) then answers with another stage's value although nothing raises *)
Example from_transformation_empty_linear_refuted :
  let w := WMulti [WConst 1 3 1%N; WConst 1 4 2%N] in
  let T := TChain [TParallel [(3%N, TC 9)]; TLinear [1%N; 2%N] [3%N] [[1; 1]]; TLinear [] [3%N] [[]]] in
  match from_transformation w T with
  | OK w' => oQeqb (sample w' 3%N (1#4)) (Some 7) && oQeqb (sample (WTrans w T) 3%N (1#4)) (Some 9)
             && okb (WTrans w T) && negb (kerr (WTrans w T) 3%N) && inb 3%N (channels (WTrans w T)) && negb (t_wfb T)
  | _ => false
  end = true.
Proof. vm_compute. reflexivity. Qed.

(* ---- by-products of a LinearTransformation chain in the per-instance cache: NOT consistent when a linear stage has an
   output channel that an earlier stage can deliver (known finding C08-trafo-cache-shadowed-byproduct, confirmed on the
   real code): sampling the forwarded channel 3 first leaves the parallel constant 7 for channel 4 in the cache; the
   later request for channel 4 on the same array object is answered 7, a fresh object answers 2 + t ---- *)
Example history_shadow_refuted :
  let w := WTrans (WMulti [WConst 1 2 1%N; WTable 2%N [mkE 0 0 Hold; mkE 1 1 Linear]; WTable 3%N [mkE 0 0 Hold; mkE 1 3 Linear]])
                  (TChain [TParallel [(4%N, TC 7)]; TLinear [1%N; 2%N] [4%N] [[1; 1]]]) in
  let ts := [0; 1#4; 1#2] in
  let calls := [(3%N, 0%N, ts); (4%N, 0%N, ts)] in
  okb w = true /\ twf_all w = true /\ kerr w 3%N = false /\ kerr w 4%N = false /\ trans_ok_all w = false /\
  match nth 1 (run_hist w calls []) (Err EType), get_sampled w 4%N ts with
  | OK [Some a0; Some a1; Some a2], OK [Some f0; Some f1; Some f2] =>
      Qeq_bool a0 7 && Qeq_bool a1 7 && Qeq_bool a2 7 && Qeq_bool f0 2 && Qeq_bool f1 (9#4) && Qeq_bool f2 (5#2)
  | _, _ => false
  end = true.
Proof. vm_compute. repeat split; reflexivity. Qed.
