(* C08 — specification side: the pointwise meaning of a waveform.

   [sample w c t] is what the waveform object answers for ONE time (unsafe_sample read pointwise: which piece is
   responsible for t, evaluated at its local time; NaN = None).  [gs] adds get_sampled's constant short cut.
   The vectorised model [Model.sample_vec] (searchsorted + slice assignment + reversed views) is proved equal to
   [map sample] on sorted grids in Proofs*.v; the property's clauses are stated on [sample]/[gs]. *)
From Coq Require Import List ZArith QArith Qabs Bool.
Require Import QV.C08.Model.
Import ListNotations.
Open Scope Q_scope.

(* the last pair of consecutive entries whose closed interval contains t decides *)
Fixpoint table_at (es : list entry) (t : Q) (acc : option Q) : option Q :=
  match es with
  | e1 :: ((e2 :: _) as r) =>
      table_at r t (if negb (Qltb t (e_t e1)) && Qle_bool t (e_t e2)
                    then Some (interp_at (e_i e2) (e_t e1) (e_v e1) (e_t e2) (e_v e2) t) else acc)
  | _ => acc
  end.

Fixpoint sample (w : wf) (c : chan) (t : Q) {struct w} : option Q :=
  match w with
  | WTable _ tab => table_at tab t None
  | WConst _ v _ => Some v
  | WFunc coef _ _ => Some (poly_at coef t)
  | WSeq l =>
      (fix go (l : list wf) (time : Q) (acc : option Q) : option Q := match l with
         | [] => acc
         | s :: r => let e := time + duration s in
                     go r e (if negb (Qltb t time) && Qltb t e then sample s c (t - time) else acc)
         end) l 0 None
  | WMulti l =>
      (fix find (l : list wf) : option Q := match l with
         | [] => None
         | s :: r => if inb c (channels s) then sample s c t else find r
         end) l
  | WRep b n =>
      let bd := duration b in
      (fix go (k : nat) (time : Q) (acc : option Q) : option Q := match k with
         | O => acc
         | S k' => let e := time + bd in
                   go k' e (if negb (Qltb t time) && Qltb t e then sample b c (t - time) else acc)
         end) (Z.to_nat n) 0 None
  | WTrans i T =>
      match t_in T [c] with
      | None => None
      | Some ins =>
          match t_point T t (map (fun ic => (ic, sample i ic t)) ins) with
          | Some out => match lookup c out with Some v => v | None => None end
          | None => None
          end
      end
  | WSubset i _ => sample i c t
  | WArith l o r =>
      if inb c (channels l) then
        if inb c (channels r) then omap2 (aop_at o) (sample l c t) (sample r c t) else sample l c t
      else omap (aop_rhs_only o) (sample r c t)
  | WFunctor i f =>
      match lookup c f with
      | Some g => omap (functor_at g) (sample i c t)
      | None => None
      end
  | WRev i => sample i c (duration i - t)
  end.

(* get_sampled for one time of a defined channel *)
Definition gs (w : wf) (c : chan) (t : Q) : option Q :=
  match cv w c with Some v => Some v | None => sample w c t end.

(* equality of samples up to the value of the rational *)
Definition oQeq (a b : option Q) : Prop :=
  match a, b with Some x, Some y => x == y | None, None => True | _, _ => False end.
Definition oQeqb (a b : option Q) : bool :=
  match a, b with Some x, Some y => Qeq_bool x y | None, None => true | _, _ => false end.

Fixpoint sortedb (ts : list Q) : bool :=
  match ts with
  | a :: ((b :: _) as r) => Qle_bool a b && sortedb r
  | _ => true
  end.

(* ------------------------------------------------------------------------------------------------------------------ *)
(* The voltage a waveform DENOTES (DESIGN §4.4): pieces on closed intervals, a junction belongs to the later piece,
   the very end belongs to the last piece, and time reversal reverses the order of the pieces and mirrors every
   piece on its closed interval.  Independent of searchsorted / slice assignment / constant folding. *)

Definition tval_mirror (d : Q) (v : tval) : tval := match v with TC q => TC q | TT a b => TT (a + b * d) (- b) end.
Fixpoint t_mirror (d : Q) (T : trafo) : trafo :=
  match T with
  | TId => TId
  | TLinear i o m => TLinear i o m
  | TScale f => TScale (map (fun kv => (fst kv, tval_mirror d (snd kv))) f)
  | TOffset f => TOffset (map (fun kv => (fst kv, tval_mirror d (snd kv))) f)
  | TParallel f => TParallel (map (fun kv => (fst kv, tval_mirror d (snd kv))) f)
  | TChain l => TChain (map (t_mirror d) l)
  end.

(* normal form: reversals pushed down to the atomic leaves ([rv] = "denote the reversal of w") *)
Fixpoint nf (rv : bool) (w : wf) : wf :=
  match w with
  | WTable _ _ | WFunc _ _ _ => if rv then WRev w else w
  | WConst _ _ _ => w
  | WSeq l => WSeq (if rv then rev (map (nf rv) l) else map (nf rv) l)
  | WMulti l => WMulti (map (nf rv) l)
  | WRep b n => WRep (nf rv b) n
  | WTrans i T => WTrans (nf rv i) (if rv then t_mirror (duration i) T else T)
  | WSubset i cs => WSubset (nf rv i) cs
  | WArith l o r => WArith (nf rv l) o (nf rv r)
  | WFunctor i f => WFunctor (nf rv i) f
  | WRev i => nf (negb rv) i
  end.

(* pointwise meaning with first-match piece selection and a closed end *)
Fixpoint sc (w : wf) (c : chan) (t : Q) {struct w} : option Q :=
  match w with
  | WTable _ tab => table_at tab t None
  | WConst _ v _ => Some v
  | WFunc coef _ _ => Some (poly_at coef t)
  | WSeq l =>
      (fix go (l : list wf) (time : Q) : option Q := match l with
         | [] => None
         | [s] => sc s c (t - time)
         | s :: r => let e := time + duration s in if Qltb t e then sc s c (t - time) else go r e
         end) l 0
  | WMulti l =>
      (fix find (l : list wf) : option Q := match l with
         | [] => None
         | s :: r => if inb c (channels s) then sc s c t else find r
         end) l
  | WRep b n =>
      let bd := duration b in
      (fix go (k : nat) (time : Q) : option Q := match k with
         | O => None
         | S O => sc b c (t - time)
         | S k' => let e := time + bd in if Qltb t e then sc b c (t - time) else go k' e
         end) (Z.to_nat n) 0
  | WTrans i T =>
      (* the transformation applied to the COMPLETE inner waveform (all its channels), not to the channels that
         get_input_channels selects *)
      match t_point T t (map (fun ic => (ic, sc i ic t)) (channels i)) with
      | Some out => match lookup c out with Some v => v | None => None end
      | None => None
      end
  | WSubset i _ => sc i c t
  | WArith l o r =>
      if inb c (channels l) then
        if inb c (channels r) then omap2 (aop_at o) (sc l c t) (sc r c t) else sc l c t
      else omap (aop_rhs_only o) (sc r c t)
  | WFunctor i f => match lookup c f with Some g => omap (functor_at g) (sc i c t) | None => None end
  | WRev i => sc i c (duration i - t)      (* after [nf]: only around atomic leaves *)
  end.

Definition den (w : wf) (c : chan) (t : Q) : option Q := sc (nf false w) c t.

(* ------------------------------------------------------------------------------------------------------------------ *)
(* the plain composite a recipe describes (no optimising constructor, no validation short cuts); [Err] = the recipe
   is not a well-formed waveform description (nothing is demanded of the implementation then) *)

Fixpoint table_valid_from (prev : Q) (tab : list entry) : bool :=
  match tab with [] => true | e :: r => Qle_bool prev (e_t e) && table_valid_from (e_t e) r end.
Definition table_valid (tab : list entry) : bool :=
  match tab with
  | e0 :: _ :: _ => Qeq_bool (e_t e0) 0 && table_valid_from 0 tab && Qltb 0 (last_t tab)
  | _ => false
  end.

Fixpoint build_plain (r : recipe) : res wf :=
  let build_list := fix bl (l : list recipe) : res (list wf) := match l with
                      | [] => OK []
                      | x :: r => TRY a <- build_plain x;; TRY b <- bl r;; OK (a :: b)
                      end in
  match r with
  | RTable _ c tab => if table_valid tab then OK (WTable c tab) else Err EValue
  | RConst d v c => if Qltb 0 d then OK (WConst d v c) else Err EValue
  | RFunc k d c => if Qltb 0 d then OK (WFunc k d c) else Err EValue
  | RSeq _ l =>
      TRY ws <- build_list l;;
      match ws with
      | [] => Err EValue
      | x :: rest => if forallb (fun y => set_eqb (channels y) (channels x)) rest then OK (WSeq ws) else Err EValue
      end
  | RMulti _ l =>
      TRY ws <- build_list l;;
      match ws with
      | [] => Err EValue
      | x :: rest => if overlap_free ws [] && forallb (fun y => Qeq_bool (duration y) (duration x)) rest
                     then OK (WMulti ws) else Err EValue
      end
  | RRep _ b n => TRY w <- build_plain b;; if (n <? 1)%Z then Err EValue else OK (WRep w n)
  | RTrans _ r T => TRY w <- build_plain r;; match t_out T (channels w) with Some _ => OK (WTrans w T) | None => Err EKey end
  | RSubset r cs | RGetSubset r cs =>
      TRY w <- build_plain r;;
      match cs with [] => Err EKey | _ => if subsetb cs (channels w) then OK (WSubset w cs) else Err EKey end
  | RArith _ l o r =>
      TRY a <- build_plain l;; TRY b <- build_plain r;;
      if Qeq_bool (duration a) (duration b) then OK (WArith a o b) else Err EAssert
  | RFunctor _ r f => TRY w <- build_plain r;; if set_eqb (keys f) (channels w) then OK (WFunctor w f) else Err EAssert
  | RNeg r => TRY w <- build_plain r;; OK (WFunctor w (map (fun c => (c, FNeg)) (channels w)))
  | RRev r | RFromToReverse r | RReversed r => TRY w <- build_plain r;; OK (WRev w)
  end.
