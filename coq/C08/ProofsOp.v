(* C08 — ArithmeticWaveform.from_operator: the constant-folding branch samples like ArithmeticWaveform(lhs, op, rhs). *)
From Coq Require Import List ZArith QArith Qabs Bool Lia Lqa.
Require Import QV.C08.Model QV.C08.Spec QV.C08.Wf QV.C08.ProofsConst QV.C08.ProofsProper QV.C08.ProofsCtor.
Import ListNotations.
Open Scope Q_scope.

Definition op_step (o : aop) (acc : list (chan * Q)) (kv : chan * Q) : list (chan * Q) :=
  match lookup (fst kv) acc with
  | Some lv => map (fun kv' => if N.eqb (fst kv') (fst kv) then (fst kv', aop_at o lv (snd kv)) else kv') acc
  | None => acc ++ [(fst kv, aop_rhs_only o (snd kv))]
  end.

Lemma lookup_map_upd c k (nv : Q) acc :
  lookup c (map (fun kv' : chan * Q => if N.eqb (fst kv') k then (fst kv', nv) else kv') acc)
  = if N.eqb c k then match lookup c acc with Some _ => Some nv | None => None end else lookup c acc.
Proof.
  induction acc as [|[a x] r IH]; [destruct (N.eqb c k); reflexivity|]. cbn [map fst].
  destruct (N.eqb a k) eqn:Eak; cbn [lookup fst snd].
  - apply N.eqb_eq in Eak. subst a. destruct (N.eqb c k) eqn:Eck; [reflexivity|exact IH].
  - destruct (N.eqb c a) eqn:Eca.
    + apply N.eqb_eq in Eca. subst a. rewrite Eak. reflexivity.
    + exact IH.
Qed.

Lemma lookup_op_step o acc k rv c :
  lookup c (op_step o acc (k, rv)) =
  if N.eqb c k then (match lookup c acc with Some lv => Some (aop_at o lv rv) | None => Some (aop_rhs_only o rv) end)
  else lookup c acc.
Proof.
  unfold op_step. cbn [fst snd]. destruct (lookup k acc) as [lv|] eqn:Lk.
  - rewrite lookup_map_upd. destruct (N.eqb c k) eqn:E; [|reflexivity].
    apply N.eqb_eq in E. subst c. rewrite Lk. reflexivity.
  - rewrite lookup_app. destruct (N.eqb c k) eqn:E.
    + apply N.eqb_eq in E. subst c. rewrite Lk. cbn. rewrite N.eqb_refl. reflexivity.
    + destruct (lookup c acc); [reflexivity|]. cbn. rewrite E. reflexivity.
Qed.

Lemma lookup_op_fold o c : forall dr acc, NoDup (keys dr) ->
  lookup c (fold_left (op_step o) dr acc) =
  match lookup c dr with
  | Some rv => match lookup c acc with Some lv => Some (aop_at o lv rv) | None => Some (aop_rhs_only o rv) end
  | None => lookup c acc
  end.
Proof.
  induction dr as [|[k rv] dr IH]; intros acc Hn; [reflexivity|].
  cbn [keys map fst] in Hn. inversion Hn as [|? ? Hnotin Hn']; subst.
  cbn [fold_left lookup]. rewrite (IH _ Hn'), lookup_op_step.
  destruct (N.eqb c k) eqn:E; [|reflexivity].
  apply N.eqb_eq in E. subst c.
  assert (Lk : lookup k dr = None).
  { apply lookup_not_in_keys. destruct (inb k (keys dr)) eqn:Ei; auto.
    exfalso. apply Hnotin. unfold inb in Ei. apply existsb_exists in Ei as [x [Hx Ex]]. apply N.eqb_eq in Ex. subst; exact Hx. }
  rewrite Lk. reflexivity.
Qed.

Theorem from_operator_const_sound : forall l o r dl dr w', okb l = true -> okb r = true ->
  duration l == duration r -> cvd l = Some dl -> cvd r = Some dr -> NoDup (keys dr) ->
  from_operator l o r = OK w' -> forall c t,
  inb c (channels (WArith l o r)) = true -> 0 <= t -> t < duration l ->
  oQeq (sample w' c t) (sample (WArith l o r) c t).
Proof.
  intros l o r dl dr w' Hol Hor Hdur El Er Hn H c t Hc H0 H1.
  unfold from_operator in H. rewrite El, Er in H.
  change (fold_left (fun acc kv => match lookup (fst kv) acc with
                                   | Some lv => map (fun kv' => if N.eqb (fst kv') (fst kv) then (fst kv', aop_at o lv (snd kv)) else kv') acc
                                   | None => acc ++ [(fst kv, aop_rhs_only o (snd kv))] end) dr dl)
    with (fold_left (op_step o) dr dl) in H.
  destruct (isclose (duration l) (duration r)); [|discriminate].
  cbn [channels] in Hc. rewrite inb_unionb in Hc. cbn [sample].
  pose proof (lookup_op_fold o c dr dl Hn) as L.
  destruct (cvd_sound l dl Hol El c) as [Lin Lout]. destruct (cvd_sound r dr Hor Er c) as [Rin Rout].
  destruct (inb c (channels l)) eqn:E1, (inb c (channels r)) eqn:E2; try discriminate.
  - destruct (const_dict_sample l dl Hol El c t E1 H0 H1) as [lv [lv' [Ll [_ [Sl Ql]]]]].
    destruct (const_dict_sample r dr Hor Er c t E2 H0) as [rv [rv' [Lr [_ [Sr Qr]]]]]; [lra|].
    rewrite Lr, Ll in L. rewrite (from_mapping_sample _ _ _ H c _ t L), Sl, Sr. cbn.
    rewrite Qred_correct. apply aop_at_compat; symmetry; assumption.
  - destruct (const_dict_sample l dl Hol El c t E1 H0 H1) as [lv [lv' [Ll [_ [Sl Ql]]]]].
    rewrite (Rout eq_refl), Ll in L. rewrite (from_mapping_sample _ _ _ H c _ t L), Sl. cbn.
    rewrite Qred_correct. symmetry; exact Ql.
  - destruct (const_dict_sample r dr Hor Er c t E2 H0) as [rv [rv' [Lr [_ [Sr Qr]]]]]; [lra|].
    rewrite Lr, (Lout eq_refl) in L. rewrite (from_mapping_sample _ _ _ H c _ t L), Sr. cbn.
    rewrite Qred_correct. apply aop_rhs_compat. symmetry; exact Qr.
Qed.

(* without constant folding it is the plain constructor *)
Theorem from_operator_plain : forall l o r, (cvd l = None \/ cvd r = None) -> from_operator l o r = mk_arith l o r.
Proof. intros l o r [H|H]; unfold from_operator; rewrite H; [reflexivity|]. destruct (cvd l); reflexivity. Qed.

Example from_operator_example :
  let l := WMulti [WConst 1 3 1%N; WConst 1 4 2%N] in
  let r := WRep (WMulti [WConst (1#2) 1 2%N; WConst (1#2) 5 3%N]) 2 in
  match from_operator l OpSub r with
  | OK w' => oQeqb (sample w' 1%N (1#4)) (Some 3) && oQeqb (sample w' 2%N (1#4)) (Some 3) && oQeqb (sample w' 3%N (1#4)) (Some (-5))
             && oQeqb (sample (WArith l OpSub r) 3%N (1#4)) (Some (-5))
  | _ => false
  end = true.
Proof. vm_compute. reflexivity. Qed.
