(* C08 — get_subset_for_channels keeps two more invariants (round 3), by the same induction as ProofsSubset.subset_u_sound:
   a channel without KeyError in the original has none in the restricted waveform, and the time guard [tg] of the original
   implies the time guard of the restricted waveform (so that a restricted waveform can be restricted / composed again). *)
From Coq Require Import List ZArith QArith Qabs Bool Lia Lqa Permutation.
Require Import QV.C08.Model QV.C08.Spec QV.C08.Wf QV.C08.Hist QV.C08.Lin QV.C08.ProofsVec QV.C08.ProofsConst QV.C08.ProofsProper
               QV.C08.ProofsTrafo QV.C08.ProofsCtor QV.C08.ProofsPar QV.C08.ProofsFlat QV.C08.ProofsDen QV.C08.ProofsOp
               QV.C08.ProofsTable QV.C08.ProofsDedup QV.C08.ProofsMirror QV.C08.ProofsOkb QV.C08.ProofsSubset
               QV.C08.ProofsConstT QV.C08.ProofsTotalT QV.C08.ProofsSimple QV.C08.ProofsLin QV.C08.ProofsRecipe QV.C08.ProofsRecipeT
               QV.C08.ProofsTg.
Import ListNotations.
Open Scope Q_scope.

Definition SubInv (w : wf) (cs : list chan) (w' : wf) : Prop :=
  (forall c, inb c cs = true -> kerr w c = false -> kerr w' c = false) /\
  (forall c t, inb c cs = true -> 0 <= t -> t < duration w -> tg w c t = true -> tg w' c t = true).
Definition sub_inv (w : wf) : Prop :=
  forall cs w', cs <> [] -> subsetb cs (channels w) = true -> subset_u w cs = OK w' -> SubInv w cs w'.

Lemma Forall2_flip_impl {A B} (R : A -> B -> Prop) (S : B -> A -> Prop) l l' :
  (forall a b, R a b -> S b a) -> Forall2 R l l' -> Forall2 S l' l.
Proof. intros H F. induction F; constructor; auto. Qed.
Lemma SubInv_ext w cs cs' w' : (forall c, inb c cs' = inb c cs) -> SubInv w cs' w' -> SubInv w cs w'.
Proof. intros He [A B]. split; [intros c Hc; apply A; rewrite He; exact Hc|intros c t Hc; apply B; rewrite He; exact Hc]. Qed.
Lemma SubInv_refl w cs : SubInv w cs w.
Proof. split; auto. Qed.
Lemma get_wrap_inv x cs w' : sub_inv x -> cs <> [] -> get_wrap x cs (subset_u x cs) = OK w' -> SubInv x cs w'.
Proof.
  intros Hs Hne H. unfold get_wrap in H. destruct (subsetb cs (channels x)) eqn:Es; cbn [negb] in H; [|discriminate].
  destruct (set_eqb cs (channels x)) eqn:Ee; [injection H as <-; apply SubInv_refl|exact (Hs cs w' Hne Es H)].
Qed.

(* ---- from_sequence keeps "no KeyError" ---- *)
Lemma kerr_from_sequence subs w' c : from_sequence subs = OK w' -> (forall a, In a subs -> kerr a c = false) -> kerr w' c = false.
Proof.
  intros H HP. unfold from_sequence in H. destruct subs as [|x [|y r]]; [discriminate| |].
  - injection H as <-. apply HP. left; reflexivity.
  - match type of H with match ?cvs with Some _ => _ | None => _ end = _ => destruct cvs as [d|] end.
    + exact (kerr_from_mapping _ _ _ H c).
    + unfold mk_seq in H. match type of H with match ?fl with [] => _ | _ :: _ => _ end = _ => set (FL := fl) in * end.
      assert (HFL : forall z, In z FL -> kerr z c = false).
      { intros z Hz. change FL with (flatseq (x :: y :: r)) in Hz.
        destruct (In_flatseq z _ Hz) as [a [Ha [->|[s [-> Hzs]]]]]; [exact (HP _ Ha)|].
        pose proof (HP _ Ha) as Ka. rewrite kerr_seq_any in Ka.
        destruct (kerr z c) eqn:Ez; [|reflexivity].
        assert (existsb (fun x0 => kerr x0 c) s = true) by (apply existsb_exists; eauto). congruence. }
      destruct FL as [|f0 fr]; [discriminate|].
      destruct (forallb (fun y0 => set_eqb (channels y0) (channels f0)) fr); [|discriminate]. injection H as <-.
      apply kerr_seq_false. exact HFL.
Qed.
Lemma kerr_seq_parts l c : kerr (WSeq l) c = false -> forall x, In x l -> kerr x c = false.
Proof.
  intros H x Hx. rewrite kerr_seq_any in H. destruct (kerr x c) eqn:E; [|reflexivity].
  assert (existsb (fun x0 => kerr x0 c) l = true) by (apply existsb_exists; eauto). congruence.
Qed.

(* ---- sequence ---- *)
Lemma sub_inv_seq l : good (WSeq l) -> Forall sub_inv l -> sub_inv (WSeq l).
Proof.
  intros Hg HI cs w' Hne Hsub H. rewrite subset_u_seq in H.
  destruct (seq_go cs l) as [subs|] eqn:Eg; cbn [bind] in H; [|discriminate].
  pose proof (good_seq_parts l Hg) as Hparts. destruct Hg as [Hok Hcan].
  pose proof Hok as Hok'. cbn [okb] in Hok'. apply andb_prop in Hok' as [Hchs Hoks]. apply okb_all_Forall in Hoks.
  destruct l as [|x0 r0]; [discriminate|].
  destruct (nonempty_has cs Hne) as [e He].
  assert (Hcsx : forall x, In x (x0 :: r0) -> forall c, inb c cs = true -> inb c (channels x) = true).
  { intros x Hx c Hc. pose proof (subsetb_inb _ _ _ Hsub Hc) as H0. cbn [channels] in H0.
    destruct Hx as [<-|Hx]; [exact H0|]. rewrite forallb_forall in Hchs. rewrite (set_eqb_inb _ _ c (Hchs x Hx)). exact H0. }
  assert (Hnd : forall x, In x (x0 :: r0) -> disjointb (channels x) cs = false).
  { intros x Hx. apply (not_disjoint _ _ e); [apply (Hcsx x Hx e He)|exact He]. }
  pose proof (seq_go_F2 cs _ Hnd subs Eg) as F2.
  assert (F : Forall2 (fun x a => duration a == duration x /\ (In x (x0 :: r0) /\ SubOK x cs a /\ SubInv x cs a)) (x0 :: r0) subs).
  { clear Eg H. revert F2. rewrite Forall_forall in HI, Hparts.
    assert (G : forall l subs, (forall x, In x l -> In x (x0 :: r0)) ->
              Forall2 (fun x a => subset_u x (interb cs (channels x)) = OK a) l subs ->
              Forall2 (fun x a => duration a == duration x /\ (In x (x0 :: r0) /\ SubOK x cs a /\ SubInv x cs a)) l subs).
    { induction 2 as [|x a l0 s0 Hxa _ IH]; constructor.
      - assert (Hx : In x (x0 :: r0)) by (apply H; left; reflexivity).
        assert (Hne' : interb cs (channels x) <> []) by (apply (interb_nonempty cs (channels x) e He); apply (Hcsx x Hx e He)).
        pose proof (subset_u_sound x (Hparts x Hx) _ a Hne' (interb_subset cs (channels x)) Hxa) as S.
        pose proof (HI x Hx _ a Hne' (interb_subset cs (channels x)) Hxa) as V.
        apply (SubOK_ext x cs) in S; [|apply interb_all; apply Hcsx; exact Hx].
        apply (SubInv_ext x cs) in V; [|apply interb_all; apply Hcsx; exact Hx].
        split; [exact (proj1 (proj2 (proj2 S)))|]. split; [exact Hx|]. split; [exact S|exact V].
      - apply IH. intros y Hy. apply H. right; exact Hy. }
    intros F2. exact (G _ _ (fun x Hx => Hx) F2). }
  assert (Hsubs : forall a, In a subs -> good a /\ forall c, inb c (channels a) = inb c cs).
  { intros a Ha. destruct (Forall2_In_r _ _ _ a F Ha) as [x [_ [_ [_ [[A [B _]] _]]]]]. auto. }
  assert (HokS : Forall (fun x => okb x = true) subs).
  { apply Forall_forall. intros y Hy. exact (proj1 (proj1 (Hsubs y Hy))). }
  assert (Hsum : sumd subs == sumd (x0 :: r0)).
  { apply sumd_rel. clear -F. induction F as [|x a l0 s0 [Hd _] _ IH]; constructor; auto. }
  split.
  - (* KeyError *)
    intros c Hc Hk. apply (kerr_from_sequence subs w' c H). intros a Ha.
    destruct (Forall2_In_r _ _ _ a F Ha) as [x [Hx [_ [_ [_ [V _]]]]]]. apply V; [exact Hc|].
    exact (kerr_seq_parts _ c Hk x Hx).
  - (* time guard *)
    intros c t Hc H0 H1 Htg. rewrite duration_seq in H1.
    apply (tg_from_sequence subs w' c t HokS H H0); [rewrite Hsum; exact H1|].
    cbn [tg]. apply tg_list_intro. intros a u' HA.
    assert (Ffl : Forall2 (fun a x => duration x == duration a /\ (In x (x0 :: r0) /\ SubInv x cs a)) subs (x0 :: r0)).
    { apply (Forall2_flip_impl _ _ _ _ (fun x a (R : duration a == duration x /\ (In x (x0 :: r0) /\ SubOK x cs a /\ SubInv x cs a)) =>
        match R with conj Hd (conj Hx (conj _ V)) => conj (Qeq_sym _ _ Hd) (conj Hx V) end) F). }
    destruct (At_rel (fun a x => In x (x0 :: r0) /\ SubInv x cs a) _ _ Ffl 0 0 t a u' (Qeq_refl 0) HA) as [x [u [HAx [Hu [Hx [_ Vt]]]]]].
    destruct (At_local _ _ _ _ _ HAx) as [U0 U1].
    cbn [tg] in Htg. pose proof (tg_list_At t (fun s => tg s c) _ 0 x u Htg HAx) as Hxg. cbn beta in Hxg.
    rewrite (tg_proper a c u' u) by (symmetry; exact Hu). apply Vt; auto.
Qed.

(* ---- repetition ---- *)
Lemma sub_inv_rep b n : good (WRep b n) -> sub_inv b -> sub_inv (WRep b n).
Proof.
  intros [Hok Hcan] HI cs w' Hne Hsub H. cbn [subset_u] in H.
  destruct (subset_u b cs) as [b'|] eqn:Eb; cbn [bind] in H; [|discriminate].
  cbn [okb canonb channels] in *. apply andb_prop in Hok as [Hn Hokb]. apply Z.leb_le in Hn.
  destruct (subset_u_sound b (conj Hokb Hcan) cs b' Hne Hsub Eb) as [Gb [Cb [Db Sb]]].
  destruct (HI cs b' Hne Hsub Eb) as [Vk Vt].
  split.
  - intros c Hc Hk. cbn [kerr] in Hk. unfold from_repetition_count in H. destruct (cvd b') as [d|].
    + exact (kerr_from_mapping _ _ _ H c).
    + unfold mk_rep in H. destruct (n <? 1)%Z; [discriminate|]. injection H as <-. cbn [kerr]. exact (Vk c Hc Hk).
  - intros c t Hc H0 H1 Htg. apply (tg_from_repetition_count b' n w' c t H).
    set (k := Z.to_nat n). cbn [tg] in *. fold k in Htg |- *.
    rewrite <- (map_repeat' (fun s => (duration s, tg s c))) in Htg. rewrite <- (map_repeat' (fun s => (duration s, tg s c))).
    apply tg_list_intro. intros a u' HA.
    assert (F : Forall2 (fun a x => duration x == duration a /\ (a = b' /\ x = b)) (repeat b' k) (repeat b k))
      by (apply Forall2_repeat; split; [symmetry; exact Db|auto]).
    destruct (At_rel (fun a x => a = b' /\ x = b) _ _ F 0 0 t a u' (Qeq_refl 0) HA) as [x [u [HAx [Hu [-> ->]]]]].
    destruct (At_local _ _ _ _ _ HAx) as [U0 U1].
    pose proof (tg_list_At t (fun s => tg s c) _ 0 b u Htg HAx) as Hxg. cbn beta in Hxg.
    rewrite (tg_proper b' c u' u) by (symmetry; exact Hu). apply Vt; auto.
Qed.

(* ---- multi-channel ---- *)
Lemma sub_inv_multi l : good (WMulti l) -> Forall sub_inv l -> sub_inv (WMulti l).
Proof.
  intros Hg HI cs w' Hne Hsub H. rewrite subset_u_multi in H.
  pose proof (good_multi_parts l Hg) as Hparts. destruct Hg as [Hok Hcan].
  pose proof (multi_overlap_free l Hok) as Hov.
  assert (U : forall c a b, In a l -> In b l -> has c a = true -> has c b = true -> a = b).
  { intros c. exact (proj2 (overlap_free_unique c l [] Hov)). }
  set (d0 := duration (WMulti l)).
  assert (Hd0 : forall x, In x l -> duration x == d0) by (intros x Hx; apply multi_part_duration; assumption).
  assert (Hex : forall c, inb c cs = true -> exists x, In x l /\ has c x = true).
  { intros c Hc. pose proof (subsetb_inb _ _ _ Hsub Hc) as H0. change (has c (WMulti l) = true) in H0.
    rewrite has_multi in H0. apply existsb_exists in H0. exact H0. }
  remember (filter (fun x => negb (disjointb (channels x) cs)) l) as rel eqn:Erel0.
  assert (Hrel : forall x c, In x l -> has c x = true -> inb c cs = true -> In x rel).
  { intros x c Hx Hcx Hc. rewrite Erel0. apply filter_In. split; [exact Hx|]. rewrite (not_disjoint _ _ c Hcx Hc). reflexivity. }
  rewrite Forall_forall in HI, Hparts.
  assert (Horig : forall c x t, In x l -> has c x = true ->
            kerr (WMulti l) c = kerr x c /\ tg (WMulti l) c t = tg x c t).
  { intros c x t Hx Hcx. split; [apply kerr_multi_unique; auto; apply U|apply tg_multi_unique; auto; apply U]. }
  destruct rel as [|x0 [|x1 rr]]; [discriminate| |].
  - (* one relevant part *)
    destruct (multi_one_spec cs l w' H) as [x [Hx [Hdx Hgw]]].
    assert (Hxr : In x [x0]) by (rewrite Erel0; apply filter_In; split; [exact Hx|rewrite Hdx; reflexivity]).
    destruct Hxr as [<-|[]].
    assert (Hall : forall c, inb c cs = true -> has c x0 = true).
    { intros c Hc. destruct (Hex c Hc) as [y [Hy Hcy]]. pose proof (Hrel y c Hy Hcy Hc) as Hyr.
      destruct Hyr as [<-|[]]. exact Hcy. }
    destruct (get_wrap_inv x0 cs w' (HI x0 Hx) Hne Hgw) as [Vk Vt].
    split.
    + intros c Hc Hk. destruct (Horig c x0 0 Hx (Hall c Hc)) as [Ek _]. apply Vk; [exact Hc|rewrite <- Ek; exact Hk].
    + intros c t Hc H0 H1 Htg. destruct (Horig c x0 t Hx (Hall c Hc)) as [_ Et]. apply Vt; auto.
      * fold d0 in H1. rewrite (Hd0 x0 Hx). exact H1.
      * rewrite <- Et. exact Htg.
  - (* several relevant parts *)
    destruct (multi_go cs l) as [subs|] eqn:Eg; cbn [bind] in H; [|discriminate].
    pose proof (multi_go_F2 cs l subs Eg) as F2. rewrite <- Erel0 in F2.
    set (rel := x0 :: x1 :: rr) in *.
    assert (F : Forall2 (fun x a => In x l /\ SubOK x (interb cs (channels x)) a /\ SubInv x (interb cs (channels x)) a) rel subs).
    { assert (G : forall r s, (forall x, In x r -> In x rel) ->
                Forall2 (fun x a => get_wrap x (interb cs (channels x)) (subset_u x (interb cs (channels x))) = OK a) r s ->
                Forall2 (fun x a => In x l /\ SubOK x (interb cs (channels x)) a /\ SubInv x (interb cs (channels x)) a) r s).
      { induction 2 as [|x a r0 s0 Hxa _ IH]; constructor.
        - assert (Hx : In x rel) by (apply H0; left; reflexivity). subst rel. rewrite Erel0 in Hx. apply filter_In in Hx as [Hx Hnd].
          apply negb_true_iff in Hnd. destruct (disjoint_false_ex _ _ Hnd) as [e [He1 He2]].
          pose proof (interb_nonempty cs (channels x) e He2 He1) as Hne'.
          split; [exact Hx|]. split.
          + exact (get_wrap_ok x _ a (Hparts x Hx) (subset_u_sound x (Hparts x Hx)) Hne' Hxa).
          + exact (get_wrap_inv x _ a (HI x Hx) Hne' Hxa).
        - apply IH. intros y Hy. apply H0. right; exact Hy. }
      exact (G _ _ (fun x Hx => Hx) F2). }
    assert (Hlen : (2 <= length subs)%nat).
    { rewrite <- (Forall2_len _ _ _ F). cbn. lia. }
    assert (Hfp : from_parallel subs = mk_multi (flat subs)).
    { unfold from_parallel, flat. destruct subs as [|a [|b r]]; cbn in Hlen; try lia. reflexivity. }
    rewrite Hfp in H.
    assert (Gsubs : Forall good subs).
    { apply Forall_forall. intros a Ha. destruct (Forall2_In_r _ _ _ a F Ha) as [x [_ [_ [[A _] _]]]]. exact A. }
    assert (Dsubs : forall a b, In a subs -> In b subs -> duration a == duration b).
    { intros a b Ha Hb. destruct (Forall2_In_r _ _ _ a F Ha) as [x [_ [Hx [[_ [_ [Da _]]] _]]]].
      destruct (Forall2_In_r _ _ _ b F Hb) as [y [_ [Hy [[_ [_ [Db _]]] _]]]].
      rewrite Da, Db, (Hd0 x Hx), (Hd0 y Hy). reflexivity. }
    destruct (flat_parts_good subs Gsubs Dsubs) as [Fg [Fd _]].
    (* a part of subs that has a requested channel comes from the part of l that has it *)
    assert (Hpart : forall c a, In a subs -> has c a = true -> exists x, In x l /\ has c x = true /\ inb c cs = true /\
              SubInv x (interb cs (channels x)) a /\ inb c (interb cs (channels x)) = true /\ duration x == d0).
    { intros c a Ha Hca. destruct (Forall2_In_r _ _ _ a F Ha) as [x [_ [Hx [[_ [Ca _]] V]]]].
      unfold has in Hca. rewrite Ca in Hca. pose proof Hca as Hi. rewrite inb_interb in Hi. apply andb_prop in Hi as [Hc Hcx].
      exists x. split; [exact Hx|]. split; [exact Hcx|]. split; [exact Hc|]. split; [exact V|]. split; [exact Hca|apply Hd0; exact Hx]. }
    split.
    + intros c Hc Hk. apply (mk_multi_J _ w' c H Fg Fd). apply (flat_parts_J _ c Gsubs).
      intros a Ha Hca. destruct (Hpart c a Ha Hca) as [x [Hx [Hcx [_ [[Vk _] [Hi _]]]]]].
      apply Vk; [exact Hi|]. destruct (Horig c x 0 Hx Hcx) as [Ek _]. rewrite <- Ek. exact Hk.
    + intros c t Hc H0 H1 Htg. apply (tg_mk_multi _ w' c t H Fg Fd). apply (tg_flat_parts _ c t Gsubs).
      intros a Ha Hca. destruct (Hpart c a Ha Hca) as [x [Hx [Hcx [_ [[_ Vt] [Hi Hdx]]]]]].
      apply Vt; auto; [fold d0 in H1; rewrite Hdx; exact H1|]. destruct (Horig c x t Hx Hcx) as [_ Et]. rewrite <- Et. exact Htg.
Qed.

(* ---- all classes ---- *)
Theorem subset_u_inv : forall w, good w -> sub_inv w.
Proof.
  induction w using wf_ind'; intros Hg.
  - intros cs w' Hne Hsub H. cbn in H. injection H as <-. apply SubInv_refl.
  - intros cs w' Hne Hsub H. cbn in H. injection H as <-. apply SubInv_refl.
  - intros cs w' Hne Hsub H. cbn in H. injection H as <-. apply SubInv_refl.
  - (* sequence *)
    apply sub_inv_seq; [exact Hg|]. pose proof (good_seq_parts l Hg) as Hp. rewrite Forall_forall in *. auto.
  - (* multi *)
    apply sub_inv_multi; [exact Hg|]. pose proof (good_multi_parts l Hg) as Hp. rewrite Forall_forall in *. auto.
  - (* repetition *)
    apply sub_inv_rep; [exact Hg|]. apply IHw. destruct Hg as [Hok Hcan]. cbn [okb canonb] in *.
    apply andb_prop in Hok as [_ Hok]. split; assumption.
  - (* transforming *)
    intros cs w' Hne Hsub H. cbn [subset_u] in H. injection H as <-. unfold mk_subset. split; auto.
  - (* subset *)
    intros cs' w' Hne Hsub H. cbn [subset_u] in H.
    destruct Hg as [Hok Hcan]. cbn [okb canonb channels] in *.
    apply andb_prop in Hok as [Hok _]. apply andb_prop in Hok as [Hokw Hs]. apply andb_prop in Hcan as [_ Hcw].
    destruct (get_wrap_inv w cs' w' (IHw (conj Hokw Hcw)) Hne H) as [A B]. split; [exact A|exact B].
  - (* arithmetic *)
    intros cs w' Hne Hsub H. cbn [subset_u] in H. injection H as <-. unfold mk_subset. split; auto.
  - (* functor *)
    intros cs w' Hne Hsub H. cbn [subset_u] in H.
    destruct Hg as [Hok Hcan]. cbn [okb canonb channels] in *. apply andb_prop in Hok as [Hokw Hkeys].
    destruct (subset_u w cs) as [i'|] eqn:Ei; cbn [bind] in H; [|discriminate].
    destruct (subsetb cs (keys f)) eqn:Ek; [|discriminate].
    destruct (IHw (conj Hokw Hcan) cs i' Hne Hsub Ei) as [Vk Vt].
    destruct (subset_u_sound w (conj Hokw Hcan) cs i' Hne Hsub Ei) as [Gi [Ci [Di _]]].
    set (f' := map (fun c => (c, match lookup c f with Some g => g | None => FPos end)) cs) in *.
    unfold from_functor in H. destruct (cvd i') as [d|].
    + destruct (forallb (fun kv => inb (fst kv) (keys f')) d); [|discriminate].
      split; [intros c _ _; exact (kerr_from_mapping _ _ _ H c)|intros c t _ _ _ _; exact (tg_from_mapping _ _ _ H c t)].
    + destruct (mk_functor_good i' f' w' Gi H) as [_ ->]. split.
      * intros c Hc Hk. cbn [kerr] in *. exact (Vk c Hc Hk).
      * intros c t Hc H0 H1 Htg. cbn [tg duration] in *. exact (Vt c t Hc H0 H1 Htg).
  - (* reversed *)
    intros cs w' Hne Hsub H. cbn [subset_u] in H.
    destruct Hg as [Hok Hcan]. cbn [okb canonb channels] in *.
    destruct (subset_u w cs) as [i'|] eqn:Ei; cbn [bind] in H; [|discriminate]. injection H as <-.
    destruct (IHw (conj Hok Hcan) cs i' Hne Hsub Ei) as [Vk Vt].
    destruct (subset_u_sound w (conj Hok Hcan) cs i' Hne Hsub Ei) as [Gi [Ci [Di _]]].
    split.
    + intros c Hc Hk. cbn [kerr] in Hk. unfold from_to_reverse. destruct (cvd i') as [[|kv d]|]; cbn [kerr]; exact (Vk c Hc Hk).
    + intros c t Hc H0 H1 Htg. apply tg_from_to_reverse. cbn [tg duration] in *. apply andb_prop in Htg as [Ht0 Htg]. rewrite Ht0. cbn [andb].
      assert (Hpos : 0 < t).
      { apply negb_true_iff in Ht0. assert (~ t == 0) by (intros E; apply Qeq_bool_iff in E; congruence). lra. }
      rewrite (tg_proper i' c (duration i' - t) (duration w - t)) by (rewrite Di; reflexivity).
      apply Vt; auto; lra.
Qed.

Theorem get_subset_inv : forall w cs w', okb w = true -> canonb w = true -> cs <> [] -> get_subset w cs = OK w' ->
  (forall c, inb c cs = true -> kerr w c = false -> kerr w' c = false) /\
  (forall c t, inb c cs = true -> 0 <= t -> t < duration w -> tg w c t = true -> tg w' c t = true) /\ canonb w' = true.
Proof.
  intros w cs w' Hok Hcan Hne H. unfold get_subset in H.
  destruct (get_wrap_inv w cs w' (subset_u_inv w (conj Hok Hcan)) Hne H) as [A B].
  destruct (get_wrap_ok w cs w' (conj Hok Hcan) (subset_u_sound w (conj Hok Hcan)) Hne H) as [[_ Cw] _].
  split; [exact A|]. split; [exact B|exact Cw].
Qed.
